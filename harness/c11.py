"""C11 — sphere / SO(3) grid transforms (e3nn/o3/_s2grid.py, _so3grid.py, nn/_s2act.py, nn/_so3act.py).

  * builds + audits  lean/E3nnVerif/Props/C11.lean  (theorems over ℝ about the scalar-generic model Model/S2Grid.lean)
  * correspondence: the Float instance of the same model (drivers/C11.lean) against the real functions / modules.
    Discrete data (resolutions, error enum, FFT-vs-einsum branch, `_expand_matrix`) exactly; floats travel as exact
    float64 bit patterns and are compared in python with an explicit tolerance.  The transforms are linear, so each
    configuration is decided on a BASIS (identity matrix) of coefficient space (+ random grid signals for From).
    The Legendre factor P (`spherical_harmonics_s2_grid(...)[2]`) and the SO(3) Wigner buffer `D` are DATA taken
    from the real code (by design, see Model/S2Grid.lean).
  * property oracles on the real code (these decide violations):
      ToS2Grid = direct evaluation  Σ_l n_l F^l·Y^l(x_ij)  at the documented points with the documented constants,
      From∘To = id (incl. lmax_in ≠ lmax: truncation / zero padding), To∘From = id on band-limited signals,
      SO3Grid round trips, S2Activation/SO3Activation: identity act and polynomial equivariance,
      admissibility of `_complete_lmax_res`.
  * numerically checks the hypotheses of the Lean round-trip theorems per configuration
      (KRExact: β-quadrature exactness;  WignerGridOrth) and the trusted link torch.fft ≡ DFT definition.

Streams: complete, init, qw, grid, gridpt, sha, expand, nconst, shb, rfft, irfft, dft, forward(to/from × auto/dense),
so3 (res/dim/qw/to/from), activations (real code only).
"""
from __future__ import annotations

import glob
import itertools
import json
import math
import os
import re
import time
import warnings
from concurrent.futures import ThreadPoolExecutor

import numpy as np

LEVEL = "proof"
PI = math.pi
KINDS = ("component", "norm", "integral")
LEG_LMAX = 11   # band limit of the regenerated Legendre table / of the kernel certificates Cert/Leg

# oracle families: a driver-vs-real disagreement in a stream is "explained" when an oracle of its family fails
FAMILY = {
    "complete": "complete", "init": "complete",
    "qw": "s2", "grid": "s2", "gridpt": "s2", "sha": "s2", "expand": "s2", "nconst": "s2", "shb": "s2",
    "rfft": "s2", "irfft": "s2", "dft": "fft", "forward": "s2", "legendre1": "s2", "legendre": "s2",
    "so3": "so3",
}


# ---------------------------------------------------------------- bits
def bits(a) -> str:
    a = np.ascontiguousarray(np.asarray(a, dtype=np.float64)).reshape(-1)
    return " ".join(map(str, a.view(np.uint64).tolist()))


def unbits(toks) -> np.ndarray:
    return np.array([int(t) for t in toks], dtype=np.uint64).view(np.float64)


def tok(v) -> str:
    return "N" if v is None else str(v)


def tnp(t) -> np.ndarray:
    return t.detach().to("cpu").double().reshape(-1).numpy()


def common_path(rel):
    from common import VERIF
    return VERIF / rel


# ---------------------------------------------------------------- driver batches
class Batch:
    """collects (op line, callback(output line)); runs them in a few parallel driver processes"""

    def __init__(self, ctx):
        self.ctx = ctx
        self.ops = []

    def add(self, line, cb, cost=1.0):
        self.ops.append((line, cb, float(cost)))

    def run(self, workers=1):
        ctx = self.ctx
        if not self.ops:
            return
        workers = max(1, min(workers, len(self.ops)))
        loads = [0.0] * workers
        chunks = [[] for _ in range(workers)]
        for idx in sorted(range(len(self.ops)), key=lambda i: -self.ops[i][2]):
            w = loads.index(min(loads))
            chunks[w].append(idx)
            loads[w] += self.ops[idx][2]
        for c in chunks:
            c.sort()

        def one(chunk):
            lines = [self.ops[i][0] for i in chunk]
            outs = _drv(ctx, lines)
            if len(outs) != len(lines):
                raise RuntimeError(f"driver returned {len(outs)} lines for {len(lines)} ops; tail: {outs[-1][:300] if outs else ''}")
            return outs

        t = time.time()
        if workers == 1:
            results = [one(chunks[0])]
        else:
            with ThreadPoolExecutor(max_workers=workers) as ex:
                results = list(ex.map(one, chunks))
        ctx.traces += len(chunks)
        ctx.log(f"driver: {len(self.ops)} ops in {len(chunks)} process(es), {time.time()-t:.1f}s")
        outmap = {}
        for chunk, outs in zip(chunks, results):
            for i, o in zip(chunk, outs):
                outmap[i] = o
        for i, (line, cb, _) in enumerate(self.ops):
            cb(outmap[i])
        self.ops = []


def _drv(ctx, lines):
    return ctx.run_driver("C11", lines)


# ---------------------------------------------------------------- state of one run
class St:
    def __init__(self, ctx):
        self.ctx = ctx
        self.dis = []          # driver-vs-real disagreements: dict(stream, op, real, model, diff, cfg)
        self.maxdiff = {}      # stream -> max |real - model| over agreeing cases
        self.fail = {}         # oracle key -> list of failing replay dicts (real code violates the property)
        self.omax = {}         # oracle name -> max error
        self.family_failed = set()

    def disagree(self, stream, op, real, model, diff, cfg=None):
        self.dis.append(dict(stream=stream, op=op[:160], real=_short(real), model=_short(model), diff=diff, config=cfg))

    def oracle(self, name, err, tol, key, family, replay):
        """record a real-code property check; a failure becomes a found=True violation under `key`"""
        self.omax[name] = max(self.omax.get(name, 0.0), float(err) if err == err else float("inf"))
        self.ctx.count("oracle:" + name)
        if not (err <= tol):
            self.fail.setdefault(key, []).append(dict(replay, oracle=name, error=float(err), tol=tol))
            self.family_failed.add(family)
            return False
        return True


def _short(x):
    if isinstance(x, np.ndarray):
        return x.reshape(-1)[:8].tolist()
    s = str(x)
    return s[:200]


def cmp_floats(st, stream, op, out, real_status, real, tol, cfg=None, scaled=True):
    """compare one driver output line with the real result (status string + flat float array)"""
    toks = out.split()
    head = toks[0] if toks else ""
    if real_status != "ok":
        if head != real_status:
            st.disagree(stream, op, real_status, out[:80], float("inf"), cfg)
            return False
        return True
    if head != "ok":
        st.disagree(stream, op, "ok", out[:80], float("inf"), cfg)
        return False
    model = unbits(toks[1:])
    real = np.asarray(real, dtype=np.float64).reshape(-1)
    if model.size != real.size:
        st.disagree(stream, op, f"size {real.size}", f"size {model.size}", float("inf"), cfg)
        return False
    if real.size == 0:
        return True
    fin_r, fin_m = np.isfinite(real), np.isfinite(model)
    if not (fin_r == fin_m).all():
        st.disagree(stream, op, real, model, float("nan"), cfg)
        return False
    if not fin_r.all():
        real, model = real[fin_r], model[fin_r]
        if real.size == 0:
            return True
    d = float(np.max(np.abs(real - model)))
    scale = max(1.0, float(np.max(np.abs(real)))) if scaled else 1.0
    if d > tol * scale:
        i = int(np.argmax(np.abs(real - model)))
        st.disagree(stream, op, f"[{i}]={real[i]!r}", f"[{i}]={model[i]!r}", d, cfg)
        return False
    st.maxdiff[stream] = max(st.maxdiff.get(stream, 0.0), d / scale)
    return True


def cmp_all(st, direction, tag, out, shb, vals, cfg):
    """`to all` / `from all`: ok <shb [m,b,i]> <auto outputs> <dense outputs>"""
    toks = out.split()
    if not toks or toks[0] != "ok" or len(toks) - 1 != shb.size + 2 * vals.size:
        st.disagree("forward", f"{direction} all {tag}", f"ok + {shb.size}+2*{vals.size} floats", out[:80] + f" ({len(toks) - 1} floats)", float("inf"), cfg)
        return
    a, b = 1 + shb.size, 1 + shb.size + vals.size
    cmp_floats(st, "shb", f"shb {direction} {tag} (via {direction} all)", "ok " + " ".join(toks[1:a]), "ok", shb, 1e-13, cfg)
    cmp_floats(st, "forward", f"{direction} auto {tag} (via all)", "ok " + " ".join(toks[a:b]), "ok", vals, 1e-12, cfg)
    cmp_floats(st, "forward", f"{direction} dense {tag} (via all)", "ok " + " ".join(toks[b:]), "ok", vals, 1e-12, cfg)


def cmp_exact(st, stream, op, out, real_str, cfg=None):
    if out.strip() != real_str:
        st.disagree(stream, op, real_str, out[:200], float("inf"), cfg)
        return False
    return True


def status_of(fn):
    """run real code; returns ("ok", value) or ("error:<ExcName>", None)"""
    try:
        return "ok", fn()
    except AssertionError:
        return "error:AssertionError", None
    except Exception as e:  # noqa: BLE001
        return "error:" + type(e).__name__, None


# ---------------------------------------------------------------- documented formulas (python, independent of the module)
def doc_grid(N, M):
    beta = PI * (np.arange(N) + 0.5) / N
    alpha = 2 * PI * np.arange(M) / M
    xyz = np.zeros((N, M, 3))
    xyz[..., 0] = np.sin(beta)[:, None] * np.sin(alpha)[None, :]
    xyz[..., 1] = np.cos(beta)[:, None]
    xyz[..., 2] = np.sin(beta)[:, None] * np.cos(alpha)[None, :]
    return beta, alpha, xyz


def doc_n_to(kind, lmax):
    if kind == "component":
        return np.array([math.sqrt(4 * PI) / math.sqrt(2 * l + 1) / math.sqrt(lmax + 1) for l in range(lmax + 1)])
    if kind == "norm":
        return np.array([math.sqrt(4 * PI) / math.sqrt(lmax + 1)] * (lmax + 1))
    if kind == "integral":
        return np.ones(lmax + 1)
    return np.asarray(kind, dtype=np.float64)  # tensor-valued


def doc_n_from(kind, lmax_in, lmax):
    if kind == "component":
        return np.array([math.sqrt(4 * PI) * math.sqrt(2 * l + 1) * math.sqrt(lmax_in + 1) for l in range(lmax + 1)])
    if kind == "norm":
        return np.array([math.sqrt(4 * PI) * math.sqrt(lmax_in + 1)] * (lmax + 1))
    if kind == "integral":
        return np.array([4 * PI] * (lmax + 1))
    raise ValueError(kind)


def deg_of(lmax):
    return np.array([l for l in range(lmax + 1) for _ in range(2 * l + 1)])


def kind_name(kind):
    return kind if isinstance(kind, str) else "tensor"


def norms_for(torch, kind, lmax, lmax_out=None):
    """constructor arguments (normalization of ToS2Grid(lmax), normalization of FromS2Grid(lmax_out)) that are inverse pairs"""
    lmax_out = lmax if lmax_out is None else lmax_out
    if isinstance(kind, str):
        return kind, kind
    t = torch.tensor(list(kind), dtype=torch.float64)
    inv = [4 * PI / kind[l] if l <= lmax else 1.0 for l in range(lmax_out + 1)]
    return t, torch.tensor(inv, dtype=torch.float64)


# ---------------------------------------------------------------- real-code property checks (shared by run and replay)
_YCACHE = {}


def direct_Y(torch, o3, lmax, N, M):
    """the real o3.spherical_harmonics at the documented grid points, [b, a, i]"""
    key = (lmax, N, M)
    if key not in _YCACHE:
        if len(_YCACHE) > 64:
            _YCACHE.clear()
        _, _, xyz = doc_grid(N, M)
        _YCACHE[key] = o3.spherical_harmonics(list(range(lmax + 1)), torch.tensor(xyz), normalize=True, normalization="integral")
    return _YCACHE[key]


def check_direct(torch, o3, cfg, G=None):
    """max |ToS2Grid(lmax,(N,M),kind)(e_i)[b,a] - n_l(i) Y_i(x_ba)|   (G: the already computed images of the basis)"""
    lmax, (N, M), kind = cfg["lmax"], cfg["res"], cfg["kind"]
    dim = (lmax + 1) ** 2
    if G is None:
        nt, _ = norms_for(torch, kind, lmax)
        to = o3.ToS2Grid(lmax, (N, M), normalization=nt)
        G = to(torch.eye(dim))  # [i, b, a]
    Y = direct_Y(torch, o3, lmax, N, M)
    n = doc_n_to(kind, lmax)[deg_of(lmax)]
    expected = torch.tensor(n)[:, None, None] * Y.permute(2, 0, 1)
    return float((G - expected).abs().max()) if G.numel() else 0.0


def trunc_matrix(torch, lmax, lmax_out):
    d = min(lmax, lmax_out)
    E = torch.zeros((lmax + 1) ** 2, (lmax_out + 1) ** 2)
    k = (d + 1) ** 2
    E[:k, :k] = torch.eye(k)
    return E


def check_roundtrip(torch, o3, cfg):
    """max |FromS2Grid((N,M), lmax_out, kind, lmax_in=lmax)(ToS2Grid(lmax,(N,M),kind)(e_i)) - trunc/pad(e_i)|"""
    lmax, (N, M), kind = cfg["lmax"], cfg["res"], cfg["kind"]
    lmax_out = cfg.get("lmax_out", lmax)
    nt, nf = norms_for(torch, kind, lmax, lmax_out)
    to = o3.ToS2Grid(lmax, (N, M), normalization=nt)
    fr = o3.FromS2Grid((N, M), lmax_out, normalization=nf, lmax_in=lmax)
    Y = fr(to(torch.eye((lmax + 1) ** 2)))
    return float((Y - trunc_matrix(torch, lmax, lmax_out)).abs().max())


def check_bandlimited(torch, o3, cfg, to=None, fr=None):
    """max |To(From(g)) - g| / max(1,|g|) for g = To(F), F seeded random"""
    lmax, (N, M), kind = cfg["lmax"], cfg["res"], cfg["kind"]
    if to is None:
        nt, nf = norms_for(torch, kind, lmax)
        to = o3.ToS2Grid(lmax, (N, M), normalization=nt)
        fr = o3.FromS2Grid((N, M), lmax, normalization=nf)
    gen = torch.Generator().manual_seed(int(cfg.get("fseed", 0)))
    F = torch.randn(3, (lmax + 1) ** 2, generator=gen)
    g = to(F)
    return float((to(fr(g)) - g).abs().max() / max(1.0, float(g.abs().max())))


POLY = {1: (lambda x: x), 2: (lambda x: x ** 2), 3: (lambda x: x ** 3)}


def s2act_irreps(o3, lmax, p_val, p_arg):
    return o3.Irreps([(1, (l, p_val * p_arg ** l)) for l in range(lmax + 1)])


def check_s2act_equiv(torch, o3, cfg):
    """max |S2Activation(D(R) x) - D_out(R) S2Activation(x)| (relative to max(1,|out|)) for a polynomial activation"""
    from e3nn.nn import S2Activation
    lmax, d, lout = cfg["lmax"], cfg["degree"], cfg["lmax_out"]
    irreps = s2act_irreps(o3, lmax, cfg["p_val"], cfg["p_arg"])
    m = S2Activation(irreps, POLY[d], tuple(cfg["res"]), normalization=cfg.get("normalization", "component"), lmax_out=lout)
    x = torch.tensor(cfg["x"], dtype=torch.float64)
    a, b, c = (torch.tensor(v, dtype=torch.float64) for v in cfg["angles"])
    k = torch.tensor(int(cfg.get("k", 0)))
    Din = irreps.D_from_angles(a, b, c, k)
    Dout = m.irreps_out.D_from_angles(a, b, c, k)
    y1 = m(x @ Din.T)
    y2 = m(x) @ Dout.T
    return float((y1 - y2).abs().max() / max(1.0, float(y2.abs().max())))


def so3_act(torch, o3, lmax, abc, x, side):
    """the two commuting SO(3) actions on flat_wigner coefficients: block l reshaped (2l+1,2l+1):
    left  X -> D^l(R) X      (f(R') -> f(R^-1 R'))       = D^l ⊗ 1
    right X -> X D^l(R)^T    (f(R') -> f(R' R))          = 1 ⊗ D^l"""
    out, i = [], 0
    for l in range(lmax + 1):
        n = 2 * l + 1
        X = x[..., i:i + n * n].reshape(*x.shape[:-1], n, n)
        i += n * n
        D = o3.wigner_D(l, *abc)
        out.append(((D @ X) if side == "left" else (X @ D.T)).flatten(-2))
    return torch.cat(out, -1)


def check_so3act_equiv(torch, o3, cfg):
    from e3nn.nn import SO3Activation
    lin, lout, d = cfg["lmax"], cfg["lmax_out"], cfg["degree"]
    m = SO3Activation(lin, lout, POLY[d], cfg["resolution"], aspect_ratio=cfg["aspect"])
    x = torch.tensor(cfg["x"], dtype=torch.float64)
    abc = [torch.tensor(v, dtype=torch.float64) for v in cfg["angles"]]
    y = m(x)
    e = 0.0
    for side in ("left", "right"):
        y1 = m(so3_act(torch, o3, lin, abc, x, side))
        y2 = so3_act(torch, o3, lout, abc, y, side)
        e = max(e, float((y1 - y2).abs().max() / max(1.0, float(y2.abs().max()))))
    return e


def check_so3_roundtrip(torch, o3, cfg):
    g = o3.SO3Grid(cfg["lmax"], cfg["resolution"], aspect_ratio=cfg["aspect"])
    dim = g.D.shape[-1]
    X = torch.eye(dim)
    return float((g.from_grid(g.to_grid(X)) - X).abs().max())


def admissible_complete(inp, out):
    """the admissibility oracle of `_complete_lmax_res` on one (input triple, returned triple)"""
    (a, b, c), (l, rb, ra) = inp, out
    bad = []
    if rb % 2 != 0:
        bad.append("res_beta odd")
    if not (l + 1 <= rb // 2):
        bad.append("lmax + 1 > res_beta // 2")
    if (a is None or c is None) and not (2 * l + 1 <= ra):
        bad.append("2 lmax + 1 > res_alpha although it was completed")
    if (a is not None and l != a) or (b is not None and rb != b) or (c is not None and ra != c):
        bad.append("a given argument was changed")
    if b is not None and c is None and ra != rb - 1:
        bad.append("res_alpha != res_beta - 1")
    return bad


# ---------------------------------------------------------------- spying on the FFT helpers
class PathSpy:
    """counts calls of `_s2grid.irfft` / `_s2grid.rfft` (the forward methods look them up in the module globals)"""

    def __init__(self, S):
        self.S = S
        self.n = {"irfft": 0, "rfft": 0}

    def __enter__(self):
        S = self.S
        self.orig = (S.irfft, S.rfft)
        o_i, o_r = self.orig

        def irfft(x, res):
            self.n["irfft"] += 1
            return o_i(x, res)

        def rfft(x, l):
            self.n["rfft"] += 1
            return o_r(x, l)

        S.irfft, S.rfft = irfft, rfft
        return self

    def __exit__(self, *a):
        self.S.irfft, self.S.rfft = self.orig
        return False

    def take(self, which):
        v = self.n[which]
        self.n[which] = 0
        return v


# ---------------------------------------------------------------- the check
def run(ctx):
    warnings.filterwarnings("ignore")
    if os.environ.get("C11_SKIP_BUILD") == "1":
        ctx.log("C11_SKIP_BUILD=1: skipping lake build / audit (development only)")
        ctx.obligation("build:Props.C11", False, "skipped by C11_SKIP_BUILD=1 (development only)")
    else:
        # translator T5: the Legendre factor is regenerated from the FX graph of the running o3.Legendre
        try:
            import leg2poly
            rows, exact = leg2poly.translate(LEG_LMAX)
            ctx.write_generated("Legendre.lean", leg2poly.render(LEG_LMAX, rows))
            ctx.obligation("translator:T5 accepts o3.Legendre's FX graph", True)
            ctx.obligation("translator:T5 lifts every coefficient to (n/d)*sqrt(r)/sqrt(pi)", exact,
                           "a float coefficient of o3.Legendre(range(12)) is not of the documented form; it was emitted as an exact dyadic")
            ctx.notes["legendre_table"] = dict(lmax=LEG_LMAX, rows=len(rows), monomials=sum(len(r) for r in rows))
        except Exception as e:  # noqa: BLE001
            ctx.obligation("translator:T5 accepts o3.Legendre's FX graph", False, repr(e)[-1500:])
        ok, out = ctx.lake_build(["E3nnVerif.Props.C11"])
        ctx.obligation("build:Props.C11", ok, out[-3000:])
        okl, outl = ctx.lake_build(["E3nnVerif.Props.C11Leg", "E3nnVerif.Props.C11Ang"] + (["E3nnVerif.Props.C11AngExt"] if ctx.tier == "thorough" else []), timeout=7000)
        if okl:
            for l in range(LEG_LMAX + 1):
                ctx.obligation(f"cert:Leg.row{l} (decide +kernel: orthonormality of the regenerated Legendre rows of degree {l})", True)
            for l in range(0, 12 if ctx.tier == "thorough" else 9):
                ctx.obligation(f"cert:Ang.L{l} (decide +kernel: sh_l(angles_to_xyz) = sqrt(4 pi) * sha x Legendre as polynomials mod sin^2+cos^2=1)", True)
            ctx.obligation("build:Props.C11Leg", True)
        else:
            bad = sorted(set(re.findall(r"E3nnVerif\.[A-Za-z0-9_.]+", " ".join(x for x in outl.splitlines() if "✖" in x or "error" in x.lower()))))
            for l in range(LEG_LMAX + 1):
                ctx.obligation(f"cert:Leg.row{l} (decide +kernel: orthonormality of the regenerated Legendre rows of degree {l})",
                               f"E3nnVerif.Cert.Leg.Row{l}" not in bad and bool(bad), "kernel refuted / did not build: " + outl[-800:])
            ctx.obligation("build:Props.C11Leg", False, f"failing: {bad[:12]} :: " + outl[-1500:])
        files = [common_path("lean/E3nnVerif/Model/S2Grid.lean"), common_path("lean/E3nnVerif/Model/Scalar.lean"),
                 common_path("lean/E3nnVerif/Theory/ScalarReal.lean")]
        files += sorted(glob.glob(str(common_path("lean/E3nnVerif/Theory/S2Grid*.lean"))))
        files += [common_path("lean/E3nnVerif/Props/C11.lean"), common_path("lean/drivers/C11.lean")]
        files = [f for f in files if os.path.exists(str(f))]
        files += [common_path("lean/E3nnVerif/Model/Legendre.lean"), common_path("lean/E3nnVerif/Sound/LegendreChecks.lean"),
                  common_path("lean/E3nnVerif/Props/C11Leg.lean"), common_path("lean/E3nnVerif/Cert/Leg/All.lean")]
        files += sorted(glob.glob(str(common_path("lean/E3nnVerif/Cert/Leg/Row*.lean")))) + sorted(glob.glob(str(common_path("lean/E3nnVerif/Cert/Ang/L*.lean"))))
        files += [common_path("lean/E3nnVerif/Model/AngChecks.lean"), common_path("lean/E3nnVerif/Sound/AngChecks.lean"), common_path("lean/E3nnVerif/Props/C11Ang.lean")]
        files = [f for f in files if os.path.exists(str(f))]
        if ok and okl:
            ctx.audit(["E3nnVerif.Props.C11", "E3nnVerif.Props.C11Leg", "E3nnVerif.Props.C11Ang", "E3nnVerif.Cert.Leg.All"], files=files)
        elif ok:
            ctx.audit(["E3nnVerif.Props.C11"], files=files)
        else:
            ctx.obligation("audit:axioms:E3nnVerif.Props.C11", False, "not audited: build failed")

    import torch
    old_dtype = torch.get_default_dtype()
    old_threads = torch.get_num_threads()
    torch.set_default_dtype(torch.float64)
    torch.set_num_threads(1)   # tiny tensors: intra-op threads only add overhead (and the machine is shared)
    from e3nn.o3 import _s2grid as S
    orig_fft = (S.irfft, S.rfft)
    try:
        with torch.no_grad():
            _run(ctx, torch)
    finally:
        S.irfft, S.rfft = orig_fft
        torch.set_default_dtype(old_dtype)
        torch.set_num_threads(old_threads)


def _run(ctx, torch):
    from e3nn import o3
    from e3nn.o3 import _s2grid as S
    st = St(ctx)
    thorough = ctx.tier == "thorough"
    rng = ctx.rng
    workers = int(os.environ.get("C11_WORKERS", "4"))
    A = Batch(ctx)   # cheap ops, one process
    B = Batch(ctx)   # heavy ops (shb / forward / so3), several processes
    nconst_cache = {}   # (dir, kind, lp, lmax) -> np.ndarray (filled by batch A)

    def rnd(n):
        return np.array([rng.gauss(0, 1) for _ in range(n)])

    # ================================================================ 1. complete
    vals = [None] + (list(range(-4, 15)) if thorough else list(range(-3, 10)))
    inadmissible = []
    for a, b, c in itertools.product(vals, repeat=3):
        stt, r = status_of(lambda: S._complete_lmax_res(a, b, c))
        if stt == "ok":
            real = "ok %d %d %d" % tuple(r)
            bad = admissible_complete((a, b, c), r)
            ctx.count("complete:ok")
            if bad:
                inadmissible.append(dict(input=[a, b, c], returned=list(r), broken=bad))
        else:
            real = stt
            ctx.count("complete:" + stt)
        line = f"complete {tok(a)} {tok(b)} {tok(c)}"
        ctx.case(("complete", a, b, c), nontrivial=True, sample_every=997)
        A.add(line, lambda o, line=line, real=real: cmp_exact(st, "complete", line, o, real))
    st.oracle("_complete_lmax_res:admissible", float(len(inadmissible)), 0.0, "_complete_lmax_res/inadmissible", "complete",
              dict(call="o3._s2grid._complete_lmax_res(*input)", examples=inadmissible[:10],
                   expected="res_beta even, lmax+1 <= res_beta//2, 2lmax+1 <= res_alpha when completed, given args unchanged"))

    # ================================================================ 1b. init (constructors)
    LM = [None] + list(range(-2, 9))
    RI = list(range(-2, 9))
    RP = [None] + RI
    combos = [(lm, ("none",)) for lm in LM] + [(lm, ("int", n)) for lm in LM for n in RI]
    pairs = [(lm, ("pair", b, c)) for lm in LM for b in RP for c in RP]
    if thorough:
        combos += pairs
    else:
        combos = combos[::2] + rng.sample(pairs, 150)
    init_fwd_errors = []
    with PathSpy(S) as spy:
        for lm, res in combos:
            resarg = None if res[0] == "none" else (res[1] if res[0] == "int" else (res[1], res[2]))
            line = "init " + tok(lm) + " " + (res[0] if res[0] == "none" else res[0] + " " + " ".join(tok(v) for v in res[1:]))
            for cls in ("to", "from"):
                def ctor():
                    return o3.ToS2Grid(lm, resarg) if cls == "to" else o3.FromS2Grid(resarg, lm)
                stt, m = status_of(ctor)
                ctx.case(("init", cls, lm, res), nontrivial=True, sample_every=499)
                if stt != "ok":
                    ctx.count("init:" + stt)
                    A.add(line, lambda o, line=line, real=stt, cls=cls: cmp_exact(st, "init", line + " [" + cls + "]", o, real))
                    continue
                sa, sm = m.sha.shape
                flag_shape = 1 if (sa >= sm and sa % 2 == 1) else 0
                dim = (m.lmax + 1) ** 2
                x0 = torch.zeros(1, dim) if cls == "to" else torch.zeros(1, m.res_beta, m.res_alpha)
                spy.take("irfft"), spy.take("rfft")
                fs, y = status_of(lambda: m(x0))
                called = spy.take("irfft" if cls == "to" else "rfft")
                other = spy.take("rfft" if cls == "to" else "irfft")
                if fs != "ok":
                    init_fwd_errors.append(dict(cls=cls, lmax=lm, res=list(res), error=fs))
                    ctx.count("init:forward-" + fs)
                    flag_obs = called if called else flag_shape
                else:
                    flag_obs = 1 if called else 0
                    want_shape = (1, m.res_beta, m.res_alpha) if cls == "to" else (1, dim)
                    if tuple(y.shape) != want_shape:
                        st.disagree("init", line + " [" + cls + "]", f"forward shape {tuple(y.shape)}", str(want_shape), float("inf"))
                if flag_obs != flag_shape or other:
                    st.disagree("init", line + " [" + cls + "]", f"observed fft={flag_obs} other={other}", f"shape rule fft={flag_shape}", float("inf"))
                real = f"ok {m.lmax} {m.res_beta} {m.res_alpha} {flag_obs}"
                ctx.count("init:ok:" + ("fft" if flag_obs else "einsum"))
                A.add(line, lambda o, line=line, real=real, cls=cls: cmp_exact(st, "init", line + " [" + cls + "]", o, real))
    ctx.notes["init_forward_errors_on_accepted_configs"] = init_fwd_errors[:10]

    # ================================================================ 2. small functions
    # quadrature weights
    qsum_err, qpos = 0.0, True
    for b in range(1, 17 if thorough else 9):
        w = S._quadrature_weights(b)
        qsum_err = max(qsum_err, abs(float(w.sum()) * (2 * b) ** 2 - 1.0))
        qpos &= bool((w > 0).all()) and w.dtype == torch.float64 and tuple(w.shape) == (2 * b,)
        line = f"qw {b}"
        ctx.case(("qw", b))
        A.add(line, lambda o, line=line, w=tnp(w): cmp_floats(st, "qw", line, o, "ok", w, 1e-14, scaled=False))
    st.oracle("_quadrature_weights:sum*(2b)^2=1", qsum_err, 1e-13, "_quadrature_weights/sum", "s2",
              dict(call="_quadrature_weights(b).sum()*(2b)**2", expected=1.0))
    st.oracle("_quadrature_weights:positive", 0.0 if qpos else 1.0, 0.0, "_quadrature_weights/positive", "s2", dict(expected="w > 0"))
    # the quadrature exactness that Props/C11 proves (`quadrature_exact`), on the real weights:
    #   Σ_j w_j (2b)² cos(p π (j+½)/(2b)) = 1/(1-p²) (p even) | 0 (p odd),  p < 2b
    for b in range(1, 13 if thorough else 9):
        w = S._quadrature_weights(b) * (2 * b) ** 2
        j = torch.arange(2 * b)
        worst = 0.0
        for p_ in range(2 * b):
            v = float((w * torch.cos(p_ * PI * (j + 0.5) / (2 * b))).sum())
            worst = max(worst, abs(v - (1.0 / (1 - p_ * p_) if p_ % 2 == 0 else 0.0)))
        ctx.case(("quadrature-exact", b))
        st.oracle("quadrature_exact(cos p beta)", worst, 1e-13, "_quadrature_weights/cosine-exactness", "s2",
                  dict(call="sum_j _quadrature_weights(b)[j]*(2b)**2*cos(p*pi*(j+.5)/(2b)) vs 1/(1-p^2) | 0", b=b))
    # explicit Legendre factor for lmax <= 1 (ties theorem fromS2Grid_toS2Grid_lmax_le_1 to the real code)
    leg_state = {"n": 0, "ok": True}
    for N in range(2, 41 if thorough else 17, 2):
        P1 = S.spherical_harmonics_s2_grid(1, N, 3)[2]
        P0 = S.spherical_harmonics_s2_grid(0, N, 3)[2]
        ctx.case(("legendre1", N))

        def leg_cb(o, N=N, P1=tnp(P1), P0=tnp(P0)):
            before = len(st.dis)
            leg_state["n"] += 1
            if cmp_floats(st, "legendre1", f"legendre1 {N}", o, "ok", P1, 1e-15, scaled=False):
                col0 = unbits(o.split()[1:]).reshape(N, 4)[:, 0]
                if P0.shape != (N,) or float(np.abs(col0 - P0).max()) > 1e-15:
                    st.disagree("legendre1", f"legendre1 {N} (lmax=0 column)", P0, col0, float(np.abs(col0 - P0).max()) if P0.shape == (N,) else float("inf"))
            if len(st.dis) != before:
                leg_state["ok"] = False
        A.add(f"legendre1 {N}", leg_cb)
    # ---- the regenerated Legendre table (Generated/Legendre.lean, translator T5) next to the real factor, and the statements the
    #      kernel certificates + quadrature_exact_pow prove (KRExact for every lmax <= 11 and every b > lmax), on the REAL code
    leg_state2 = {"n": 0, "ok": True}
    legNs = [2 * (LEG_LMAX + 1), 2 * (LEG_LMAX + 1) + 2 * (1 + ctx.seed % 5)] + ([26, 40, 64] if thorough else [])
    for N in dict.fromkeys(legNs):
        Pfull = S.spherical_harmonics_s2_grid(LEG_LMAX, N, 3)[2]   # [N, (LEG_LMAX+1)^2]
        ctx.case(("legendre-table", N, LEG_LMAX))

        def leg2_cb(o, N=N, P=tnp(Pfull)):
            before = len(st.dis)
            leg_state2["n"] += 1
            cmp_floats(st, "legendre", f"legendre {N} {LEG_LMAX}", o, "ok", P, 1e-11, scaled=True)
            if len(st.dis) != before:
                leg_state2["ok"] = False
        A.add(f"legendre {N} {LEG_LMAX}", leg2_cb, 4.0)
        # KRExact on the real data: real weights, real Legendre factor, all l, l' <= 11, all orders
        w = S._quadrature_weights(N // 2) * N ** 2
        worst, where = 0.0, None
        for l in range(LEG_LMAX + 1):
            for lp in range(l, LEG_LMAX + 1):
                for mm in range(-l, l + 1):
                    v = float((w * Pfull[:, l * l + l + mm] * Pfull[:, lp * lp + lp + mm]).sum())
                    e = abs(v - (1.0 / (4 * PI) if l == lp else 0.0))
                    if e > worst:
                        worst, where = e, (l, lp, mm)
        st.oracle("KRExact(lmax<=11, real Legendre factor, real weights)", worst, 2e-13, "Legendre/orthonormality-on-the-grid", "s2",
                  dict(call="sum_b _quadrature_weights(N//2)[b]*N**2 * P[b,l,m]*P[b,l',m] vs delta/(4 pi), P = spherical_harmonics_s2_grid(11,N,3)[2]",
                       N=N, worst_at=where))
    # one round trip of the real modules at a band limit beyond the forward family (which stops at lmax 3 / 6)
    for lm in ([7 + ctx.seed % 5] if not thorough else [7, 9, 11]):
        cfg = dict(lmax=lm, res=(2 * (lm + 1) + 2 * (ctx.seed % 2), 2 * lm + 1 + (ctx.seed % 3)), kind=KINDS[(lm + ctx.seed) % 3])
        ctx.case(("roundtrip-high-lmax", lm, cfg["res"], cfg["kind"]))
        st.oracle("FromS2Grid∘ToS2Grid = id (lmax 7..11)", check_roundtrip(torch, o3, cfg), 1e-12, "roundtrip/high-lmax", "s2",
                  dict(call="o3.FromS2Grid(res, lmax, kind)(o3.ToS2Grid(lmax, res, kind)(eye))", config=cfg))
    # grids
    gmax = 14 if thorough else 9
    gridpairs = [(N, M) for N in range(1, gmax) for M in range(1, gmax)]
    if not thorough:
        gridpairs = gridpairs[::3]
    for N, M in gridpairs:
        bt, al = S.s2_grid(N, M)
        dbt, dal, dxyz = doc_grid(N, M)
        line = f"grid {N} {M}"
        ctx.case(("grid", N, M))
        A.add(line, lambda o, line=line, v=np.concatenate([tnp(bt), tnp(al)]): cmp_floats(st, "grid", line, o, "ok", v, 1e-15))
        st.oracle("s2_grid=documented-formula", float(max(np.abs(tnp(bt) - dbt).max(), np.abs(tnp(al) - dal).max())), 1e-14,
                  "s2_grid/documented-formula", "s2", dict(call="o3.s2_grid(N, M)", N=N, M=M))
    for (lmax, N, M) in [(0, 2, 1), (1, 4, 3), (1, 4, 6), (2, 6, 5), (2, 8, 4), (3, 8, 9)]:
        m = o3.ToS2Grid(lmax, (N, M))
        g = m.grid
        line = f"gridpt {N} {M}"
        ctx.case(("gridpt", N, M))
        A.add(line, lambda o, line=line, v=tnp(g): cmp_floats(st, "gridpt", line, o, "ok", v, 1e-14))
        st.oracle("ToS2Grid.grid=documented-points", float(np.abs(tnp(g) - doc_grid(N, M)[2].reshape(-1)).max()), 1e-14,
                  "ToS2Grid.grid/documented-points", "s2", dict(call="o3.ToS2Grid(lmax,(N,M)).grid", lmax=lmax, N=N, M=M))
        gf = o3.FromS2Grid((N, M), lmax).grid
        st.oracle("FromS2Grid.grid=documented-points", float(np.abs(tnp(gf) - doc_grid(N, M)[2].reshape(-1)).max()), 1e-14,
                  "FromS2Grid.grid/documented-points", "s2", dict(call="o3.FromS2Grid((N,M),lmax).grid", lmax=lmax, N=N, M=M))
    # spherical_harmonics_alpha
    for l in range(0, 7 if thorough else 5):
        al = np.array([rng.uniform(-7, 7) for _ in range(5)] + [0.0, PI, -PI / 2])
        r = o3.spherical_harmonics_alpha(l, torch.tensor(al))
        line = f"sha {l} " + bits(al)
        ctx.case(("sha", l))
        A.add(line, lambda o, l=l, v=tnp(r): cmp_floats(st, "sha", f"sha {l} <8 alphas>", o, "ok", v, 1e-12))
        for M in (1, 2 * l + 1, 2 * l + 2, 2 * l + 5):
            buf = S.spherical_harmonics_s2_grid(l, 2 * (l + 1), M)[3]
            line = f"shabuf {l} {M}"
            ctx.case(("shabuf", l, M))
            A.add(line, lambda o, line=line, v=tnp(buf): cmp_floats(st, "sha", line, o, "ok", v, 1e-12))
    # _expand_matrix
    lists = [[], [0], [1], [0, 1], [1, 0], [2, 2], [0, 1, 2], [2, 0, 1], [3], [0, 0, 0], [1, 1, 0, 2], [4, 0], list(range(6))]
    for _ in range(300 if thorough else 40):
        lists.append([rng.randrange(0, 5) for _ in range(rng.randrange(1, 6))])
    for ls in lists:
        stt, E = status_of(lambda: S._expand_matrix(ls))
        if stt == "ok":
            nz = torch.nonzero(E)
            onlyones = bool(((E == 0) | (E == 1)).all())
            real = "ok " + " ".join(map(str, list(E.shape) + [int(v) for v in nz.reshape(-1).tolist()]))
            if not onlyones:
                real += " non-01-entries"
        else:
            real = stt
        line = "expand " + " ".join(map(str, ls))
        ctx.case(("expand", tuple(ls)), nontrivial=True)
        ctx.count("expand:" + ("ok" if stt == "ok" else stt))
        A.add(line.strip(), lambda o, line=line, real=real: cmp_exact(st, "expand", line, o, real))
    # the constants, directly against the documented values (they are tested through the buffers shb in stage B too)
    for lmax in range(0, 9):
        for kind in KINDS:
            for (d, lp) in [("to", lmax)] + [("from", lp) for lp in range(max(0, lmax - 2), lmax + 3)]:
                key = (d, kind, lp, lmax)
                line = f"nconst {d} {kind} {lp} {lmax}"
                doc = doc_n_to(kind, lmax) if d == "to" else doc_n_from(kind, lp, lmax)
                ctx.case(("nconst",) + key)

                def cb(o, key=key, line=line, doc=doc):
                    if cmp_floats(st, "nconst", line, o, "ok", doc, 4e-16 * 8):
                        nconst_cache[key] = unbits(o.split()[1:])
                    else:
                        nconst_cache[key] = None
                A.add(line, cb)
    # rfft / irfft standalone (incl. rejected inputs)
    rmax = 14 if thorough else 10
    for res in range(1, rmax):
        for l in range(0, res // 2 + 3):
            x = rnd(res)
            stt, y = status_of(lambda: S.rfft(torch.tensor(x), l))
            line = f"rfft {l} {res} " + bits(x)
            ctx.case(("rfft", l, res))
            ctx.count("rfft:" + stt)
            A.add(line, lambda o, l=l, res=res, stt=stt, y=(tnp(y) if stt == "ok" else None):
                  cmp_floats(st, "rfft", f"rfft {l} {res} <x>", o, stt, y, 1e-12))
            if stt == "ok" and l >= 0:
                sha = S.spherical_harmonics_s2_grid(l, 2 * (l + 1), res)[3]
                st.oracle("rfft(x,l)=x@sha", float((y - torch.tensor(x) @ sha).abs().max()), 1e-11, "rfft/dense-projection", "s2",
                          dict(call="o3.rfft(x, l) vs x @ sha", l=l, res=res, x=x.tolist()))
    for sm in range(1, rmax):
        for res in range(1, rmax + 2):
            x = rnd(sm)
            stt, y = status_of(lambda: S.irfft(torch.tensor(x), res))
            line = f"irfft {sm} {res} " + bits(x)
            ctx.case(("irfft", sm, res))
            ctx.count("irfft:" + stt)
            A.add(line, lambda o, sm=sm, res=res, stt=stt, y=(tnp(y) if stt == "ok" else None):
                  cmp_floats(st, "irfft", f"irfft {sm} {res} <x>", o, stt, y, 1e-12))
            if stt == "ok":
                l = sm // 2
                sha = S.spherical_harmonics_s2_grid(l, 2 * (l + 1), res)[3]
                if sha.shape[1] != sm or tuple(y.shape) != (res,):
                    # accepted an input outside the documented domain (sm = 2l+1 odd, res odd, res >= sm) or returned another length
                    st.disagree("irfft", f"irfft {sm} {res} <x>", f"ok, result shape {tuple(y.shape)}", "sm = 2l+1 and a result of length res", float("inf"))
                else:
                    st.oracle("irfft(x,res)=sha@x", float((y - sha @ torch.tensor(x)).abs().max()), 1e-11, "irfft/dense-evaluation", "s2",
                              dict(call="o3.irfft(x, res) vs sha @ x", sm=sm, res=res, x=x.tolist()))
    # torch.fft vs the DFT definition of the model (trusted link)
    dft_state = {"ok": True, "max": 0.0, "n": 0}

    def dft_cb(o, op, v):
        before = len(st.dis)
        cmp_floats(st, "dft", op, o, "ok", v, 1e-12)
        dft_state["n"] += 1
        if len(st.dis) != before:
            dft_state["ok"] = False
    for n in range(1, 16 if thorough else 13):
        for rep in range(2):
            x = rnd(n)
            X = torch.fft.rfft(torch.tensor(x))
            ctx.case(("dft", n, rep))
            A.add(f"dft {n} " + bits(x), lambda o, n=n, v=np.concatenate([tnp(X.real), tnp(X.imag)]): dft_cb(o, f"dft {n} <x>", v))
            if n % 2 == 1:
                re, im = rnd(n // 2 + 1), rnd(n // 2 + 1)
                y = torch.fft.irfft(torch.complex(torch.tensor(re), torch.tensor(im)), n=n)
                ctx.case(("idft", n, rep))
                A.add(f"idft {n} " + bits(np.concatenate([re, im])), lambda o, n=n, v=tnp(y): dft_cb(o, f"idft {n} <X>", v))

    A.run(1)
    ctx.obligation("corr:legendre-table-vs-o3.Legendre", leg_state2["ok"] and leg_state2["n"] > 0,
                   "the Float instance of the regenerated Legendre table differs from spherical_harmonics_s2_grid(11,N,3)[2]")
    ctx.obligation("corr:legendre1-explicit-formula", leg_state["ok"] and leg_state["n"] > 0,
                   "the explicit Legendre factor for lmax <= 1 of the model differs from spherical_harmonics_s2_grid(1,N,3)[2]")
    ctx.obligation("trusted:torch.fft=DFT-definition", dft_state["ok"] and dft_state["n"] > 0,
                   "torch.fft.rfft / irfft(n odd) differ from the DFT definition used by the model")

    # ================================================================ 3. forward
    LMAX = 6 if thorough else 3

    def tensor_kind(lmax):
        return tuple(rng.uniform(0.5, 2.0) for _ in range(lmax + 1))

    def driver_n(kind, d, lp, lmax):
        if not isinstance(kind, str):
            if d == "to":
                return np.asarray(kind)
            return np.array([4 * PI / kind[l] if l < len(kind) else 1.0 for l in range(lmax + 1)])
        return nconst_cache.get((d, kind, lp, lmax))

    def s2_configs(lmax):
        out = [("auto", None), ("auto", 2 * (lmax + 1)), ("auto", 2 * (lmax + 1) + 2), ("auto", 2 * (lmax + 1) + 6),
               ("auto", (None, 2 * lmax + 1)), ("auto", (2 * (lmax + 1) + 2, None))]
        for N in (2 * (lmax + 1), 2 * (lmax + 1) + 2, 2 * (lmax + 1) + 4):
            for M in (2 * lmax + 1, 2 * lmax + 2, 2 * lmax + 3, 2 * lmax + 4, 2 * lmax + 9, 2 * lmax + 12):
                out.append(("pair", (N, M)))
        return out

    def op_cost(lmax, N, M, nvec):
        dim = (lmax + 1) ** 2
        return (2 * lmax + 1) * N * dim * (lmax + 1) * dim * 2.0 + nvec * N * M * (2 * lmax + 1) * 4.0 + nvec * N * (2 * lmax + 1) * dim

    kr_max, sha_orth_max = 0.0, 0.0
    fwd_seen = set()
    paths = {"to": {"fft": 0, "einsum": 0}, "from": {"fft": 0, "einsum": 0}}
    n_driver_cfg = 0
    with PathSpy(S) as spy:
        for lmax in range(0, LMAX + 1):
            dim = (lmax + 1) ** 2
            deg = deg_of(lmax)
            cfgs = s2_configs(lmax)
            for ci, (src, res) in enumerate(cfgs):
                kinds = list(KINDS) + [tensor_kind(lmax)]
                for ki, kind in enumerate(kinds):
                    nt, nf = norms_for(torch, kind, lmax)
                    stt, to = status_of(lambda: o3.ToS2Grid(lmax, res, normalization=nt))
                    if stt != "ok":
                        st.disagree("forward", f"ToS2Grid({lmax},{res},{kind_name(kind)})", stt, "constructor expected to succeed", float("inf"))
                        continue
                    N, M = to.res_beta, to.res_alpha
                    cfg = dict(lmax=lmax, res=[N, M], kind=(kind if isinstance(kind, str) else list(kind)), source=f"{src}:{res}")
                    stt, fr = status_of(lambda: o3.FromS2Grid(res, lmax, normalization=nf))
                    if stt != "ok" or (fr.res_beta, fr.res_alpha, fr.lmax) != (N, M, lmax):
                        st.disagree("forward", f"FromS2Grid({res},{lmax},{kind_name(kind)})", stt, f"expected config {(lmax, N, M)}", float("inf"), cfg)
                        continue
                    P = S.spherical_harmonics_s2_grid(lmax, N, M)[2]
                    X = torch.eye(dim)
                    spy.take("irfft"), spy.take("rfft")
                    G = to(X)                                           # [i, b, a]
                    p_to = "fft" if spy.take("irfft") else "einsum"
                    R = torch.tensor(rnd(2 * N * M)).reshape(2, N, M)
                    GR = torch.cat([G, R], 0)
                    FR = fr(GR)
                    p_fr = "fft" if spy.take("rfft") else "einsum"
                    paths["to"][p_to] += 1
                    paths["from"][p_fr] += 1
                    ctx.count("forward:path-to=" + p_to)
                    ctx.count("forward:path-from=" + p_fr)
                    ctx.count("forward:normalization=" + kind_name(kind))
                    ctx.count(f"forward:lmax={lmax}")
                    ctx.count("forward:res_alpha-" + ("odd" if M % 2 else "even"))
                    ctx.count("forward:" + ("auto-completed" if src == "auto" else "explicit-pair"))
                    ctx.case(("forward", lmax, N, M, kind_name(kind), src), nontrivial=True, sample_every=37)
                    expect_path = "fft" if (M >= 2 * lmax + 1 and M % 2 == 1) else "einsum"
                    if p_to != expect_path or p_fr != expect_path:
                        st.disagree("forward", f"path lmax={lmax} res=({N},{M})", f"to:{p_to} from:{p_fr}", expect_path, float("inf"), cfg)
                    # ---- b. direct evaluation
                    e = check_direct(torch, o3, cfg, G)
                    st.oracle("ToS2Grid=direct-evaluation", e, 1e-12, "ToS2Grid/direct-evaluation", "s2",
                              dict(call="o3.ToS2Grid(lmax, res, normalization)(eye) vs n_l Y^l(x_ij)", config=cfg))
                    # ---- d. round trips (real code)
                    e = float((FR[:dim] - X).abs().max())
                    st.oracle("From.To=id", e, 1e-10, "FromS2Grid.ToS2Grid/roundtrip", "s2",
                              dict(call="o3.FromS2Grid(res, lmax, normalization)(o3.ToS2Grid(lmax, res, normalization)(eye))", config=cfg))
                    cfgb = dict(cfg, fseed=rng.randrange(1 << 30))
                    e = check_bandlimited(torch, o3, cfgb, to, fr)
                    st.oracle("To.From=id-on-bandlimited", e, 1e-10, "ToS2Grid.FromS2Grid/roundtrip-bandlimited", "s2",
                              dict(call="To(From(g)) for g = To(F)", config=cfgb))
                    # batch shapes
                    if ki == 0:
                        Fb = torch.tensor(rnd(6 * dim)).reshape(2, 3, dim)
                        gb = to(Fb)
                        okb = tuple(gb.shape) == (2, 3, N, M) and float((gb.reshape(6, N, M) - to(Fb.reshape(6, dim))).abs().max()) < 1e-13
                        g1 = to(Fb[0, 0])
                        okb &= tuple(g1.shape) == (N, M) and float((g1 - gb[0, 0]).abs().max()) < 1e-13
                        fb = fr(gb)
                        okb &= tuple(fb.shape) == (2, 3, dim) and float((fb.reshape(6, dim) - fr(gb.reshape(6, N, M))).abs().max()) < 1e-13
                        f1 = fr(gb[1, 2])
                        okb &= tuple(f1.shape) == (dim,) and float((f1 - fb[1, 2]).abs().max()) < 1e-13
                        st.oracle("batch-shapes", 0.0 if okb else 1.0, 0.0, "S2Grid/batch-shapes", "s2", dict(config=cfg))
                    # ---- e. hypotheses of the Lean round-trip theorem, numerically
                    if ki == 0:
                        qw = S._quadrature_weights(N // 2) * N ** 2
                        Gm = torch.einsum("b,bi,bj->ij", qw, P, P)
                        want = torch.zeros(dim, dim)
                        same_m = torch.zeros(dim, dim, dtype=torch.bool)
                        for l in range(lmax + 1):
                            for l2 in range(lmax + 1):
                                for mm in range(-min(l, l2), min(l, l2) + 1):
                                    same_m[l * l + l + mm, l2 * l2 + l2 + mm] = True
                                    if l == l2:
                                        want[l * l + l + mm, l2 * l2 + l2 + mm] = 1 / (4 * PI)
                        kr = float(((Gm - want).abs() * same_m).max())
                        kr_max = max(kr_max, kr)
                        st.oracle("KRExact", kr, 1e-13, "hypothesis/KRExact", "hyp", dict(lmax=lmax, N=N))
                        shaT = to.sha
                        if M >= 2 * lmax + 1:
                            so = float((shaT.T @ shaT - M * torch.eye(2 * lmax + 1)).abs().max()) / M
                            sha_orth_max = max(sha_orth_max, so)
                            st.oracle("sha-orthogonality", so, 1e-12, "hypothesis/sha-orthogonality", "hyp", dict(lmax=lmax, M=M))
                    # ---- f. prefix consistency of the Legendre data
                    if ki == 0 and lmax > 0 and ci % 4 == 0:
                        for lp in range(lmax):
                            Pp = S.spherical_harmonics_s2_grid(lp, N, M)[2]
                            st.oracle("Legendre-prefix", float((Pp - P[:, :(lp + 1) ** 2]).abs().max()), 1e-13, "Legendre/prefix", "s2",
                                      dict(lmax=lmax, lmax_prefix=lp, N=N, M=M))
                    # ---- a./c. driver
                    if thorough:
                        use = lmax <= 3 or (lmax == 4 and ki == ci % 4) or (lmax == 5 and ki == ci % 4 and ci % 3 == 0) or (lmax == 6 and ki == ci % 4 and ci in (0, 1, 10, 15, 23))
                    else:
                        use = (lmax <= 2 and (ki == ci % 4 or ci in (0, 7))) or (lmax == 3 and ki == ci % 4 and ci in (0, 1, 9, 10, 15, 23))
                    if not use:
                        continue
                    n_driver_cfg += 1
                    n_to = driver_n(kind, "to", lmax, lmax)
                    n_fr = driver_n(kind, "from", lmax, lmax)
                    if n_to is None or n_fr is None:
                        continue  # nconst already reported
                    ctx.count("forward:driver-config")
                    fwd_seen.add((lmax, N, M, kind_name(kind)))
                    Pb = bits(tnp(P))
                    tag = f"lmax={lmax} res=({N},{M}) {kind_name(kind)}"
                    # one `to all` + one `from all` op: the buffer shb, the branch-selected path and the einsum path
                    B.add(f"to all {lmax} {N} {M} {dim} {bits(n_to)} {Pb} {bits(tnp(X))}",
                          lambda o, tag=tag, cfg=cfg, sb=tnp(to.shb), v=tnp(G): cmp_all(st, "to", tag, o, sb, v, cfg),
                          op_cost(lmax, N, M, dim))
                    B.add(f"from all {lmax} {N} {M} {dim + 2} {bits(n_fr)} {Pb} {bits(tnp(GR))}",
                          lambda o, tag=tag, cfg=cfg, sb=tnp(fr.shb), v=tnp(FR): cmp_all(st, "from", tag, o, sb, v, cfg),
                          op_cost(lmax, N, M, dim + 2))
                    if ci == 0 and ki == 0:
                        # the separate ops still exist: exercise them once per lmax
                        nv = min(2, dim)
                        B.add(f"to auto {lmax} {N} {M} {nv} {bits(n_to)} {Pb} {bits(tnp(X[:nv]))}",
                              lambda o, tag=tag, cfg=cfg, v=tnp(G[:nv]): cmp_floats(st, "forward", f"to auto {tag}", o, "ok", v, 1e-12, cfg), op_cost(lmax, N, M, 2))
                        B.add(f"from dense {lmax} {N} {M} 2 {bits(n_fr)} {Pb} {bits(tnp(R))}",
                              lambda o, tag=tag, cfg=cfg, v=tnp(FR[dim:]): cmp_floats(st, "forward", f"from dense {tag}", o, "ok", v, 1e-12, cfg), op_cost(lmax, N, M, 2))
                        B.add(f"shb to {lmax} {N} {M} 0 {bits(n_to)} {Pb}",
                              lambda o, tag=tag, v=tnp(to.shb), cfg=cfg: cmp_floats(st, "shb", f"shb to {tag}", o, "ok", v, 1e-13, cfg), op_cost(lmax, N, M, 0))
            # ---- d'. lmax_in != lmax (real code round trip; driver: constants through the buffer)
            for lout in [l for l in (lmax - 1, lmax + 1, lmax + 2) if l >= 0]:
                mx = max(lmax, lout)
                Mmin = max(lmax + lout + 1, 2 * lmax + 1)   # admissible: res_alpha >= lmax+lmax_out+1 (and >= 2lmax+1 for To itself)
                for N in ((2 * (mx + 1), 2 * (mx + 1) + 2) if thorough else (2 * (mx + 1),)):
                    for M in (sorted({Mmin, Mmin + 1, 2 * mx + 1, 2 * mx + 2}) if thorough else (Mmin, Mmin + 1)):
                        for kind in list(KINDS) + [tensor_kind(lmax)]:
                            cfg = dict(lmax=lmax, lmax_out=lout, res=[N, M], kind=(kind if isinstance(kind, str) else list(kind)))
                            stt, e = status_of(lambda: check_roundtrip(torch, o3, cfg))
                            ctx.case(("lmax_in", lmax, lout, N, M, kind_name(kind)), nontrivial=True, sample_every=41)
                            ctx.count("forward:lmax_in!=lmax:" + ("truncate" if lout < lmax else "pad"))
                            if stt != "ok":
                                st.disagree("forward", f"lmax_in roundtrip {cfg}", stt, "expected to run", float("inf"), cfg)
                                continue
                            st.oracle("From(lmax_out,lmax_in).To=trunc/pad", e, 1e-10, "FromS2Grid.ToS2Grid/roundtrip", "s2",
                                      dict(call="o3.FromS2Grid(res, lmax_out, normalization, lmax_in=lmax)(o3.ToS2Grid(lmax, res, normalization)(eye))", config=cfg))
                if lmax <= (4 if thorough else 2):
                    N, M = 2 * (mx + 1), 2 * mx + 1
                    kind = KINDS[(lmax + lout) % 2]   # integral does not depend on lmax_in
                    fr = o3.FromS2Grid((N, M), lout, normalization=kind, lmax_in=lmax)
                    n_fr = driver_n(kind, "from", lmax, lout) if (("from", kind, lmax, lout) in nconst_cache) else None
                    if n_fr is None:
                        n_fr = doc_n_from(kind, lmax, lout)  # documented constants; the (lp,lmax) pair was not in the nconst grid
                        ctx.count("shb:lmax_in-constants-from-python")
                    Pq = S.spherical_harmonics_s2_grid(lout, N, M)[2]
                    ctx.case(("shb-lmax_in", lmax, lout, kind))
                    B.add(f"shb from {lout} {N} {M} 0 {bits(n_fr)} {bits(tnp(Pq))}",
                          lambda o, v=tnp(fr.shb), t=f"shb from lmax={lout} lmax_in={lmax} res=({N},{M}) {kind}": cmp_floats(st, "shb", t, o, "ok", v, 1e-13),
                          op_cost(lout, N, M, 0))
    ctx.notes["KRExact_max_error"] = kr_max
    ctx.notes["sha_orthogonality_max_rel_error"] = sha_orth_max
    ctx.obligation("hypothesis:KRExact-numerically", "hypothesis/KRExact" not in st.fail, json.dumps(st.fail.get("hypothesis/KRExact", [])[:3]))
    ctx.obligation("hypothesis:sha-orthogonality-numerically", "hypothesis/sha-orthogonality" not in st.fail,
                   json.dumps(st.fail.get("hypothesis/sha-orthogonality", [])[:3]))
    both = all(v > 0 for d in paths.values() for v in d.values())
    ctx.obligation("coverage:both-paths-exercised", both, json.dumps(paths))
    ctx.notes["forward_paths"] = paths
    ctx.notes["forward_driver_configs"] = n_driver_cfg
    # the unchecked res_alpha: accepted by the constructor, round trip fails (NOT a violation: outside the admissible range)
    try:
        to = o3.ToS2Grid(2, (6, 3))
        fr = o3.FromS2Grid((6, 3), 2)
        err = float((fr(to(torch.eye(9))) - torch.eye(9)).abs().max())
        sh = to.sha
        ctx.notes["unchecked_res_alpha"] = dict(
            call="o3.FromS2Grid((6,3),2)(o3.ToS2Grid(2,(6,3))(eye(9)))", complete=list(S._complete_lmax_res(2, 6, 3)), roundtrip_error=err,
            sha_gram_error=float((sh.T @ sh - 3 * torch.eye(5)).abs().max()),
            note="_complete_lmax_res does not check a GIVEN res_alpha against lmax (M=3 < 2*2+1): the constructor accepts it and "
                 "From∘To != id; C11 is conditional on admissible resolutions, so this is recorded, not flagged")
        ctx.obligation("witness:unchecked-res_alpha-breaks-roundtrip", err > 1e-3, f"roundtrip error {err}")
    except Exception as e:  # noqa: BLE001
        ctx.notes["unchecked_res_alpha"] = "constructor now rejects (6,3) for lmax=2: " + type(e).__name__

    # coarse res_alpha (< 2 lmax + 1, accepted by the constructor): the round trip does not apply, but ToS2Grid still is the
    # evaluation of the signal at the documented grid points (dense path for every parity of res_alpha)
    for lmax_c in range(1, min(LMAX, 6) + 1):
        for M_c in sorted({2 * lmax_c - 1, 2 * lmax_c, max(1, lmax_c), max(1, lmax_c + 1), 3}):
            if M_c >= 2 * lmax_c + 1:
                continue
            for kind in KINDS:
                cfg = dict(lmax=lmax_c, res=[2 * (lmax_c + 1), M_c], kind=kind, source="coarse-res_alpha")
                try:
                    e = check_direct(torch, o3, cfg)
                except Exception as ex:  # noqa: BLE001
                    ctx.count("coarse-res_alpha:constructor-" + type(ex).__name__)
                    continue
                ctx.case(("coarse", lmax_c, M_c, kind_name(kind)), nontrivial=True, sample_every=11)
                ctx.count("forward:coarse-res_alpha-" + ("odd" if M_c % 2 else "even"))
                st.oracle("ToS2Grid=direct-evaluation", e, 1e-12, "ToS2Grid/direct-evaluation", "s2",
                          dict(call="o3.ToS2Grid(lmax, res, normalization)(eye) vs n_l Y^l(x_ij)  (res_alpha < 2 lmax + 1)", config=cfg))

    # ================================================================ 4. SO3Grid
    so3_cfgs = [(1, 2, 2), (2, 3, 2), (1, 3, 1), (2, 4, 1)]
    if thorough:
        so3_cfgs += [(0, 1, 1), (0, 1, 2), (1, 2, 1), (2, 3, 1), (3, 4, 1), (1, 1, 2), (2, 2, 1)]
    worth = 0.0
    first_nonexact = {}
    for (lmax, r, asp) in so3_cfgs:
        stt, g = status_of(lambda: o3.SO3Grid(lmax, r, aspect_ratio=asp))
        if stt != "ok":
            st.disagree("so3", f"SO3Grid({lmax},{r},aspect_ratio={asp})", stt, "expected to construct", float("inf"))
            continue
        nb, na, dim = g.res_beta, g.res_alpha, g.D.shape[-1]
        cfg = dict(lmax=lmax, resolution=r, aspect=asp)
        exact = r >= lmax + 1
        ctx.case(("so3", lmax, r, asp), nontrivial=True)
        ctx.count("so3:" + ("exact-resolution" if exact else "non-exact-resolution"))
        B.add(f"so3res {r} {asp}", lambda o, real=f"ok {nb} {na}", t=f"so3res {r} {asp}": cmp_exact(st, "so3", t, o, real), 1.0)
        B.add(f"so3dim {lmax}", lambda o, real=f"ok {dim}", t=f"so3dim {lmax}": cmp_exact(st, "so3", t, o, real), 1.0)
        B.add(f"so3qw {nb} {na}", lambda o, v=tnp(g.qw), t=f"so3qw {nb} {na}": cmp_floats(st, "so3", t, o, "ok", v, 1e-14, scaled=False), 1.0)
        if tuple(g.D.shape) != (na, nb, na, dim) or g.res_gamma != na:
            st.disagree("so3", f"SO3Grid({lmax},{r},{asp}).D.shape", tuple(g.D.shape), (na, nb, na, dim), float("inf"))
        X = torch.eye(dim)
        Fg = g.to_grid(X)                      # [i, a, b, c]
        back = g.from_grid(Fg)
        Db = bits(tnp(g.D))
        tag = f"lmax={lmax} resolution={r} aspect={asp}"
        B.add(f"so3to {dim} {nb} {na} {dim} 0 {Db} {bits(tnp(X))}",
              lambda o, v=tnp(Fg), tag=tag, cfg=cfg: cmp_floats(st, "so3", "so3to " + tag, o, "ok", v, 1e-12, cfg), 6.0 * na * nb * na * dim * dim)
        B.add(f"so3from {dim} {nb} {na} {dim} 0 {Db} {bits(tnp(Fg))}",
              lambda o, v=tnp(back), tag=tag, cfg=cfg: cmp_floats(st, "so3", "so3from " + tag, o, "ok", v, 1e-11, cfg), 6.0 * na * nb * na * dim * dim)
        Gram = torch.einsum("abci,abcj,b->ij", g.D, g.D, g.qw)
        orth = float((Gram - torch.eye(dim)).abs().max())
        rt = float((back - X).abs().max())
        if exact:
            worth = max(worth, orth)
            st.oracle("WignerGridOrth", orth, 1e-12, "hypothesis/WignerGridOrth", "hyp", cfg)
            st.oracle("SO3Grid:from.to=id", rt, 1e-10, "SO3Grid/roundtrip", "so3", dict(call="g.from_grid(g.to_grid(eye))", config=cfg))
            Fr = torch.tensor(rnd(2 * dim)).reshape(2, dim)
            sig = g.to_grid(Fr)
            e = float((g.to_grid(g.from_grid(sig)) - sig).abs().max())
            st.oracle("SO3Grid:to.from=id-on-bandlimited", e, 1e-10, "SO3Grid/roundtrip-bandlimited", "so3",
                      dict(call="g.to_grid(g.from_grid(s)) for s = g.to_grid(F)", config=cfg))
        else:
            first_nonexact[f"lmax={lmax}"] = dict(resolution=r, aspect=asp, roundtrip_error=rt, gram_error=orth)
    # ---- rational (non-integer) aspect ratios: na = round(2 * aspect_ratio * resolution) is ROUNDED (ties to even)
    # and qw = _quadrature_weights(nb // 2) * nb**2 / na**2 uses the rounded na.  Model: so3ResQ / so3QwOf take the
    # CONSTRUCTOR arguments (resolution, aspect = p/q), so a change of how the real code derives qw from them shows.
    from fractions import Fraction
    ASPECTS = [Fraction(1), Fraction(2), Fraction(3, 2), Fraction(13, 10), Fraction(9, 10), Fraction(27, 10),
               Fraction(5, 4), Fraction(7, 4), Fraction(5, 2)]
    rat_res = {1: (2, 3, 5, 6, 7), 2: (3, 5)}
    if thorough:
        rat_res = {0: (1, 2, 3), 1: (2, 3, 4, 5, 6, 7, 9), 2: (3, 4, 5, 6, 7), 3: (4, 6, 7)}
    rounded_cases = 0
    for lmax, rs in sorted(rat_res.items()):
        for r in rs:
            for fa in ASPECTS:
                asp = int(fa) if fa.denominator == 1 else float(fa)
                cfg = dict(lmax=lmax, resolution=r, aspect=asp, aspect_p=fa.numerator, aspect_q=fa.denominator)
                stt, g = status_of(lambda: o3.SO3Grid(lmax, r, aspect_ratio=asp))
                if stt != "ok":
                    st.disagree("so3", f"SO3Grid({lmax},{r},aspect_ratio={asp})", stt, "expected to construct", float("inf"))
                    continue
                nb, na, dim = g.res_beta, g.res_alpha, g.D.shape[-1]
                is_rounded = (2 * fa * r).denominator != 1
                rounded_cases += int(is_rounded)
                ctx.case(("so3-aspect", lmax, r, str(fa)), nontrivial=True)
                ctx.count("so3:aspect=" + str(fa))
                ctx.count("so3:2*aspect*resolution-" + ("rounded" if is_rounded else "integer"))
                t = f"so3resq {r} {fa.numerator} {fa.denominator}"
                B.add(t, lambda o, real=f"ok {nb} {na}", t=t: cmp_exact(st, "so3", t, o, real), 1.0)
                t = f"so3qwq {r} {fa.numerator} {fa.denominator}"
                B.add(t, lambda o, v=tnp(g.qw), t=t, cfg=cfg: cmp_floats(st, "so3", t, o, "ok", v, 1e-14, cfg, scaled=False), 1.0)
                if g.res_gamma != na or tuple(g.D.shape) != (na, nb, na, dim):
                    st.disagree("so3", f"SO3Grid({lmax},{r},{asp}).D.shape", tuple(g.D.shape), (na, nb, na, dim), float("inf"))
                exact = r >= lmax + 1 and na >= 2 * lmax + 1
                X = torch.eye(dim)
                Fg = g.to_grid(X)
                back = g.from_grid(Fg)
                if na * nb * na * dim <= 40000 and is_rounded:
                    Db = bits(tnp(g.D))
                    tag = f"lmax={lmax} resolution={r} aspect={fa}"
                    B.add(f"so3to {dim} {nb} {na} {dim} 0 {Db} {bits(tnp(X))}",
                          lambda o, v=tnp(Fg), tag=tag, cfg=cfg: cmp_floats(st, "so3", "so3to " + tag, o, "ok", v, 1e-12, cfg), 6.0 * na * nb * na * dim * dim)
                    B.add(f"so3from {dim} {nb} {na} {dim} 0 {Db} {bits(tnp(Fg))}",
                          lambda o, v=tnp(back), tag=tag, cfg=cfg: cmp_floats(st, "so3", "so3from " + tag, o, "ok", v, 1e-11, cfg), 6.0 * na * nb * na * dim * dim)
                if not exact:
                    continue
                Gram = torch.einsum("abci,abcj,b->ij", g.D, g.D, g.qw)
                orth = float((Gram - torch.eye(dim)).abs().max())
                worth = max(worth, orth)
                st.oracle("WignerGridOrth", orth, 1e-12, "hypothesis/WignerGridOrth", "hyp", cfg)
                rt = float((back - X).abs().max())
                st.oracle("SO3Grid:from.to=id", rt, 1e-10, "SO3Grid/roundtrip", "so3",
                          dict(call="g = SO3Grid(lmax, resolution, aspect_ratio=aspect); g.from_grid(g.to_grid(eye))", config=cfg,
                               res_beta=nb, res_alpha=na, expected_scale_if_qw_uses_unrounded_na=float(Fraction(na) / (2 * fa * r)) ** 2))
                Fr = torch.tensor(rnd(2 * dim)).reshape(2, dim)
                sig = g.to_grid(Fr)
                e = float((g.to_grid(g.from_grid(sig)) - sig).abs().max())
                st.oracle("SO3Grid:to.from=id-on-bandlimited", e, 1e-10, "SO3Grid/roundtrip-bandlimited", "so3",
                          dict(call="g.to_grid(g.from_grid(s)) for s = g.to_grid(F)", config=cfg))
    ctx.obligation("coverage:so3-rounded-aspect-ratios-exercised", rounded_cases >= 8, f"{rounded_cases} configurations with non-integer 2*aspect*resolution")
    # where exactness starts (real code only, cheap): resolution = lmax is the first non-exact one
    for lmax in (1, 2, 3):
        for asp in (1, 2):
            for r in range(1, lmax + 2):
                stt, e = status_of(lambda: check_so3_roundtrip(torch, o3, dict(lmax=lmax, resolution=r, aspect=asp)))
                if stt != "ok":
                    continue
                ctx.case(("so3-exactness", lmax, r, asp))
                if r >= lmax + 1:
                    st.oracle("SO3Grid:from.to=id", e, 1e-10, "SO3Grid/roundtrip", "so3",
                              dict(call="g.from_grid(g.to_grid(eye))", config=dict(lmax=lmax, resolution=r, aspect=asp)))
                elif r == lmax:
                    first_nonexact[f"lmax={lmax},aspect={asp}"] = dict(resolution=r, roundtrip_error=e)
    ctx.notes["so3_exactness_rule"] = "SO3Grid round trip is exact iff resolution >= lmax+1 (nb = 2*resolution >= 2(lmax+1)); measured"
    ctx.notes["so3_first_non_exact"] = first_nonexact
    ctx.notes["WignerGridOrth_max_error"] = worth
    ctx.obligation("hypothesis:WignerGridOrth-numerically", "hypothesis/WignerGridOrth" not in st.fail,
                   json.dumps(st.fail.get("hypothesis/WignerGridOrth", [])[:3]))

    B.run(workers)

    # ================================================================ 5. activations (real code only)
    activations(ctx, st, torch, o3)

    # ================================================================ 6. verdicts
    ctx.notes["max_rel_diff_model_vs_code"] = {k: float(f"{v:.3g}") for k, v in sorted(st.maxdiff.items())}
    ctx.notes["oracle_max_error"] = {k: float(f"{v:.3g}") for k, v in sorted(st.omax.items())}
    streams = sorted(set(FAMILY) | {d["stream"] for d in st.dis})
    by_stream = {}
    for d in st.dis:
        by_stream.setdefault(d["stream"], []).append(d)
    for s in streams:
        ds = by_stream.get(s, [])
        ctx.obligation("corr:" + s, not ds, "; ".join(f"{d['op']}: real={d['real']} model={d['model']} diff={d['diff']}" for d in ds[:4]))
    for name in sorted(st.omax):
        failed = [f for fs in st.fail.values() for f in fs if f["oracle"] == name]
        ctx.obligation("oracle:" + name, not failed, json.dumps(failed[:2], default=str)[:1500])
    # genuine property failures on the real code
    for key, fs in st.fail.items():
        if key.startswith("hypothesis/"):
            continue  # reported through the hypothesis obligations
        rep = dict(fs[0])
        rep["n_failing_cases"] = len(fs)
        rep["other_failing_cases"] = [dict(config=f.get("config"), error=f.get("error"), oracle=f.get("oracle")) for f in fs[1:12]]
        rep["model_vs_code_disagreements"] = st.dis[:10]
        ctx.violation(key, rep, found=True)
    # disagreements not explained by a failing oracle of the same family
    for s, ds in by_stream.items():
        fam = FAMILY.get(s, s)
        if fam in st.family_failed:
            continue
        ctx.violation("corr:" + s, dict(
            what="Float instance of the Lean model (drivers/C11.lean) and the real code disagree; every property oracle of this family holds on the real code",
            examples=ds[:20], n=len(ds)), found=False)

    import extra_oracles as _xo

    _xo.api_history_and_dtype(ctx, "C11")

    import extra_oracles as _xo
    _xo.module_instance_independence(ctx, "C11")
    ctx.notes["rule"] = (
        "complete: exhaustive cube of (lmax,res_beta,res_alpha) in ({None} ∪ [-3..9])^3 (thorough [-4..14]); init: both constructors on "
        "lmax ∈ {None,-2..8} × res ∈ {None, int, pair with None combos} (quick: subsample) incl. the observed FFT/einsum branch; "
        "small functions: quadrature weights, grids, sha, _expand_matrix on fixed+random lists, constants, rfft/irfft incl. rejected "
        "inputs, torch.fft vs DFT definition; forward: for lmax ≤ 3 (thorough 6) × 24 resolutions (auto-completed None/int/partial pair and "
        "explicit pairs N ∈ 2(lmax+1)+{0,2,4} × M ∈ 2lmax+{1,2,3,4,9,12}) × {component,norm,integral,random tensor}: real modules on the "
        "identity basis (+2 random grid signals) vs direct evaluation / round trips (all configs) and vs the driver's auto and dense path "
        "(a subset, see forward_driver_configs); lmax_in ≠ lmax truncation/padding; SO3Grid configs; S2Activation/SO3Activation identity "
        "and polynomial equivariance inside the exactness range.  A case is one compared (function, input) resp. one configuration; all "
        "distinct inputs are hashed as non-trivial.")
    ctx.assumptions += [
        "the forward / buffer streams of the driver take the Legendre factor P = o3.Legendre(range(lmax+1))(cos β, |sin β|) and the Wigner buffer SO3Grid.D as DATA from the real code; "
        "since round 4 the Legendre factor is ALSO a model: the table regenerated by translator T5 (Generated/Legendre.lean) is compared with the real factor on the grid (stream 'legendre'), "
        "KRExact is a theorem for lmax <= 11 (Props/C11Leg.lean) and the table times sha is the Cartesian harmonic of the grid point (Props/C11Ang.lean, lmax <= 8 / 11); "
        "beyond lmax 11 KRExact, and for SO3Grid WignerGridOrth, are checked numerically per configuration",
        "torch.fft.rfft / irfft ≡ the DFT definitions rfftRe/rfftIm/irfftOddDef of the model: trusted, spot-checked (obligation trusted:torch.fft=DFT-definition)",
        "Float model vs float64 code compared with tolerance (1e-12 forward, 1e-13 buffers, 1e-14/1e-15 weights and grids), theorems are about the ℝ instance of the same definitions",
        "the model is one batch element at a time; batch shapes are checked on the real code only (oracle batch-shapes)",
        "direct evaluation uses the real o3.spherical_harmonics (C05) as the reference Y^l",
        "SO3Grid: aspect_ratio modelled as an exact rational p/q with python's round-half-even (that the float product 2*aspect_ratio*resolution rounds the same way is compared per configuration); S2Activation/SO3Activation are checked on the real code only (the model has S2Activation.forward and the theorem for linear activations, not run by the driver; polynomial equivariance is oracle-checked only)",
        "rfft with res = 0 and irfft with sm = 0 (empty tensors) are not compared",
    ]


# ---------------------------------------------------------------- activations
def safe_angles(rng):
    """torch.matrix_exp (hence o3.wigner_D) loses ~5 digits for angles in (0.003, 0.05) (measured: orthogonality error up to 8e-12
    at 0.045); the equivariance test is about the grid transforms, so angles are drawn away from that band"""
    return [rng.uniform(0.3, 2 * PI - 0.3), rng.uniform(0.3, PI - 0.3), rng.uniform(0.3, 2 * PI - 0.3)]


def activations(ctx, st, torch, o3):
    from e3nn.nn import S2Activation, SO3Activation
    rng = ctx.rng
    thorough = ctx.tier == "thorough"

    def rnd(*shape):
        return torch.tensor([rng.gauss(0, 1) for _ in range(int(np.prod(shape)))]).reshape(*shape)

    # ---- identity activation: output = cst * input
    ident = lambda x: x  # noqa: E731
    csts = set()
    n_id = 0
    for lmax in range(0, 5 if thorough else 4):
        for res in (2 * (lmax + 1), 2 * (lmax + 1) + 2, (2 * (lmax + 1), 2 * lmax + 1),
                    (2 * (lmax + 1) + 2, 2 * lmax + 4), (2 * (lmax + 1), 2 * lmax + 2)):
            for normalization in ("component", "norm"):
                n_id += 1
                for pi_, (p_val, p_arg) in enumerate(((1, -1), (1, 1), (-1, -1))):
                    if not thorough and n_id % 3 != pi_:
                        continue   # quick: the parity pattern rotates instead of being crossed with everything
                    irreps = s2act_irreps(o3, lmax, p_val, p_arg)
                    stt, m = status_of(lambda: S2Activation(irreps, ident, res, normalization=normalization))
                    ctx.case(("s2act-identity", lmax, res, normalization, p_val, p_arg), nontrivial=True, sample_every=29)
                    if stt != "ok":
                        st.oracle("S2Activation(identity)=cst*input", float("inf"), 1e-10, "S2Activation/identity", "act",
                                  dict(lmax=lmax, res=res, normalization=normalization, p_val=p_val, p_arg=p_arg, error=stt))
                        continue
                    c = 1.0 if m.act._is_id else float(m.act.cst)
                    csts.add(c)
                    x = rnd(3, irreps.dim)
                    e = float((m(x) - c * x).abs().max())
                    okirr = str(m.irreps_out) == str(irreps)   # identity is odd: parity preserved
                    st.oracle("S2Activation(identity)=cst*input", e if okirr else float("inf"), 1e-10, "S2Activation/identity", "act",
                              dict(call="S2Activation(irreps, lambda x: x, res, normalization)(x) vs cst*x", lmax=lmax, res=res, normalization=normalization,
                                   p_val=p_val, p_arg=p_arg, cst=c, irreps_out=str(m.irreps_out), x=x.tolist()))
    ctx.notes["normalize2mom_identity_cst"] = sorted(csts)
    ctx.notes["normalize2mom_note"] = ("normalize2mom estimates <f(z)^2> from 1e6 samples of a generator seeded with 0 (deterministic); for the identity "
                                       "it gives cst = 1.00111 (> the 1e-4 window of _is_id), so S2Activation(identity) = 1.00111 * input, not input")
    for (lmax, r, asp) in [(1, 2, 2), (2, 3, 1), (1, 3, 1), (1, 6, 1.3), (1, 7, 0.9), (1, 3, 2.7), (2, 5, 1.75), (1, 3, 1.25), (1, 4, 1.5)] + (
            [(2, 3, 2), (3, 4, 1), (2, 6, 1.3), (3, 7, 0.9), (2, 5, 2.7), (3, 6, 1.25)] if thorough else []):
        stt, m = status_of(lambda: SO3Activation(lmax, lmax, ident, r, aspect_ratio=asp))
        ctx.case(("so3act-identity", lmax, r, asp))
        if stt != "ok":
            st.oracle("SO3Activation(identity)=cst*input", float("inf"), 1e-10, "SO3Activation/identity", "act", dict(lmax=lmax, resolution=r, aspect=asp, error=stt))
            continue
        c = 1.0 if m.act._is_id else float(m.act.cst)
        x = rnd(2, m.grid_in.D.shape[-1])
        st.oracle("SO3Activation(identity)=cst*input", float((m(x) - c * x).abs().max()), 1e-10, "SO3Activation/identity", "act",
                  dict(lmax=lmax, resolution=r, aspect=asp, cst=c))

    # ---- polynomial equivariance inside the exactness range
    # measured rule: exact iff res_beta >= need+1 and res_alpha >= need+1 with need = degree*lmax + lmax_out
    outside = []
    n_eq = 0
    for lmax in range(1, 4 if thorough else 3):
        for d in (1, 2, 3):
            for lout in sorted({lmax, d * lmax}):
                need = d * lmax + lout
                N0 = max(need + 1 + (need + 1) % 2, 2 * (max(lmax, lout) + 1))
                M0 = max(need + 1, 2 * lmax + 1)
                for (p_val, p_arg) in ((1, -1), (1, 1), (-1, -1), (-1, 1)):
                    for (N, M) in ((N0, M0), (N0, M0 + 1), (N0 + 2, M0 + 3)):
                        n_eq += 1
                        for k in (0, 1):
                            if not thorough and n_eq % 2 != k:
                                continue   # quick: the inversion flag alternates instead of being crossed with everything
                            irreps = s2act_irreps(o3, lmax, p_val, p_arg)
                            cfg = dict(lmax=lmax, degree=d, lmax_out=lout, res=[N, M], p_val=p_val, p_arg=p_arg, k=k,
                                       normalization="component" if (N + M + k) % 3 else "norm",
                                       angles=safe_angles(rng), x=rnd(2, irreps.dim).tolist())
                            stt, e = status_of(lambda: check_s2act_equiv(torch, o3, cfg))
                            ctx.case(("s2act-equiv", lmax, d, lout, N, M, p_val, p_arg, k), nontrivial=True, sample_every=53)
                            ctx.count(f"s2act:degree={d}")
                            ctx.count("s2act:res_alpha-" + ("odd" if M % 2 else "even"))
                            st.oracle("S2Activation:polynomial-equivariance", e if stt == "ok" else float("inf"), 1e-9,
                                      "S2Activation/equivariance-polynomial", "act",
                                      dict(call="S2Activation(irreps, x**degree, res, lmax_out)(D(R)x) vs D_out(R) S2Activation(x)", config=cfg, error_status=stt))
                # just outside the range (recorded only): res_alpha = need, or res_beta two smaller
                if need >= 2 * lmax + 1 and d > 1:
                    irreps = s2act_irreps(o3, lmax, 1, -1)
                    cfg = dict(lmax=lmax, degree=d, lmax_out=lout, res=[N0, need], p_val=1, p_arg=-1, k=0, angles=safe_angles(rng), x=rnd(2, irreps.dim).tolist())
                    stt, e = status_of(lambda: check_s2act_equiv(torch, o3, cfg))
                    if stt == "ok":
                        outside.append(dict(lmax=lmax, degree=d, lmax_out=lout, res=[N0, need], equivariance_error=e))
    ctx.notes["s2act_exactness_rule"] = ("S2Activation with act = x**d is exactly equivariant iff res_beta >= d*lmax+lmax_out+1 and res_alpha >= d*lmax+lmax_out+1 "
                                         "(measured; one res_alpha less gives the errors in s2act_just_outside)")
    ctx.notes["s2act_just_outside"] = outside[:8]
    # SO3Activation: exact iff 2*resolution >= d*lmax_in + lmax_out + 1; both the left (D^l ⊗ 1) and right (1 ⊗ D^l) action
    so3_cases = [(1, 1, 1), (1, 2, 1), (1, 2, 2), (1, 3, 1), (2, 1, 2), (2, 2, 2)]
    if thorough:
        so3_cases += [(1, 3, 3), (2, 3, 2), (2, 2, 3)]
    for (lin, d, lout) in so3_cases:
        need = d * lin + lout
        r0 = max((need + 2) // 2, max(lin, lout) + 1)
        for r, asp in ((r0, 1), (r0, 2), (r0 + 1, 1)):
            dim = sum((2 * l + 1) ** 2 for l in range(lin + 1))
            cfg = dict(lmax=lin, degree=d, lmax_out=lout, resolution=r, aspect=asp, angles=safe_angles(rng), x=rnd(2, dim).tolist())
            stt, e = status_of(lambda: check_so3act_equiv(torch, o3, cfg))
            ctx.case(("so3act-equiv", lin, d, lout, r, asp), nontrivial=True)
            ctx.count(f"so3act:degree={d}")
            st.oracle("SO3Activation:polynomial-equivariance", e if stt == "ok" else float("inf"), 1e-9, "SO3Activation/equivariance-polynomial", "act",
                      dict(call="SO3Activation(lmax, lmax_out, x**degree, resolution)(ρ(R)x) vs ρ_out(R)(…), ρ = D^l⊗1 and 1⊗D^l on the (2l+1)x(2l+1) blocks",
                           config=cfg, error_status=stt))
    ctx.notes["so3act_exactness_rule"] = "SO3Activation with act = x**d is exactly equivariant (left and right action) iff 2*resolution >= d*lmax_in+lmax_out+1 (measured)"


# ---------------------------------------------------------------- replay
def _replay_simple(torch, o3, S, key, rep):
    """the small oracles whose replay dict carries the input directly; returns (error, tol) or None"""
    try:
        if key == "s2_grid/documented-formula":
            bt, al = S.s2_grid(rep["N"], rep["M"])
            dbt, dal, _ = doc_grid(rep["N"], rep["M"])
            return float(max(np.abs(tnp(bt) - dbt).max(), np.abs(tnp(al) - dal).max())), 1e-14
        if key in ("ToS2Grid.grid/documented-points", "FromS2Grid.grid/documented-points"):
            lmax, N, M = rep["lmax"], rep["N"], rep["M"]
            g = o3.ToS2Grid(lmax, (N, M)).grid if key.startswith("To") else o3.FromS2Grid((N, M), lmax).grid
            return float(np.abs(tnp(g) - doc_grid(N, M)[2].reshape(-1)).max()), 1e-14
        if key == "rfft/dense-projection":
            l, res, x = rep["l"], rep["res"], torch.tensor(rep["x"], dtype=torch.float64)
            sha = S.spherical_harmonics_s2_grid(l, 2 * (l + 1), res)[3]
            return float((S.rfft(x, l) - x @ sha).abs().max()), 1e-11
        if key == "irfft/dense-evaluation":
            sm, res, x = rep["sm"], rep["res"], torch.tensor(rep["x"], dtype=torch.float64)
            sha = S.spherical_harmonics_s2_grid(sm // 2, 2 * (sm // 2 + 1), res)[3]
            return float((S.irfft(x, res) - sha @ x).abs().max()), 1e-11
        if key == "S2Activation/identity" and "x" in rep:
            from e3nn.nn import S2Activation
            irreps = s2act_irreps(o3, rep["lmax"], rep["p_val"], rep["p_arg"])
            res = rep["res"] if isinstance(rep["res"], int) else tuple(rep["res"])
            m = S2Activation(irreps, (lambda x: x), res, normalization=rep["normalization"])
            c = 1.0 if m.act._is_id else float(m.act.cst)
            x = torch.tensor(rep["x"], dtype=torch.float64)
            return float((m(x) - c * x).abs().max()), 1e-10
        if key == "SO3Activation/identity" and "resolution" in rep:
            from e3nn.nn import SO3Activation
            m = SO3Activation(rep["lmax"], rep["lmax"], (lambda x: x), rep["resolution"], aspect_ratio=rep["aspect"])
            c = 1.0 if m.act._is_id else float(m.act.cst)
            x = torch.randn(2, m.grid_in.D.shape[-1], generator=torch.Generator().manual_seed(0))
            return float((m(x) - c * x).abs().max()), 1e-10
        if key == "Legendre/orthonormality-on-the-grid" and "N" in rep:
            N = int(rep["N"])
            P = S.spherical_harmonics_s2_grid(LEG_LMAX, N, 3)[2]
            w = S._quadrature_weights(N // 2) * N ** 2
            worst = 0.0
            for l in range(LEG_LMAX + 1):
                for lp in range(l, LEG_LMAX + 1):
                    for mm in range(-l, l + 1):
                        v = float((w * P[:, l * l + l + mm] * P[:, lp * lp + lp + mm]).sum())
                        worst = max(worst, abs(v - (1.0 / (4 * PI) if l == lp else 0.0)))
            return worst, 2e-13
        if key == "roundtrip/high-lmax" and rep.get("config"):
            c = dict(rep["config"])
            c["res"] = tuple(c["res"])
            return check_roundtrip(torch, o3, c), 1e-12
        if key == "SO3Grid/roundtrip-bandlimited" and rep.get("config"):
            cfg = rep["config"]
            g = o3.SO3Grid(cfg["lmax"], cfg["resolution"], aspect_ratio=cfg["aspect"])
            sig = g.to_grid(torch.randn(2, g.D.shape[-1], generator=torch.Generator().manual_seed(0)))
            return float((g.to_grid(g.from_grid(sig)) - sig).abs().max()), 1e-10
    except Exception as ex:  # noqa: BLE001
        print("raised", type(ex).__name__, ex)
        return float("inf"), 0.0
    return None


def replay(ctx, path):
    """./check C11 --replay replays/<file>.json : re-run the recorded failing configuration on the working tree"""
    warnings.filterwarnings("ignore")
    rep = json.loads(open(path).read())
    key = rep.get("key", "")
    cfg = rep.get("config")
    print("replaying", key, json.dumps(cfg)[:300] if cfg else "")
    import torch
    old = torch.get_default_dtype()
    torch.set_default_dtype(torch.float64)
    try:
        from e3nn import o3
        from e3nn.o3 import _s2grid as S
        with torch.no_grad():
            table = {
                "ToS2Grid/direct-evaluation": (check_direct, 1e-12),
                "FromS2Grid.ToS2Grid/roundtrip": (check_roundtrip, 1e-10),
                "ToS2Grid.FromS2Grid/roundtrip-bandlimited": (check_bandlimited, 1e-10),
                "S2Activation/equivariance-polynomial": (check_s2act_equiv, 1e-9),
                "SO3Activation/equivariance-polynomial": (check_so3act_equiv, 1e-9),
                "SO3Grid/roundtrip": (check_so3_roundtrip, 1e-10),
            }
            if key in table and cfg:
                fn, tol = table[key]
                try:
                    e = fn(torch, o3, cfg)
                except Exception as ex:  # noqa: BLE001
                    print("raised", type(ex).__name__, ex)
                    return 1
                print(f"error {e:.3e} (tolerance {tol:g})")
                return 1 if not (e <= tol) else 0
            simple = _replay_simple(torch, o3, S, key, rep)
            if simple is not None:
                e, tol = simple
                print(f"error {e:.3e} (tolerance {tol:g})")
                return 1 if not (e <= tol) else 0
            if key == "_complete_lmax_res/inadmissible" and rep.get("examples"):
                still = 0
                for ex in rep["examples"]:
                    stt, r = status_of(lambda: S._complete_lmax_res(*ex["input"]))
                    bad = admissible_complete(tuple(ex["input"]), r) if stt == "ok" else []
                    print(ex["input"], "->", r if stt == "ok" else stt, bad)
                    still += bool(bad)
                return 1 if still else 0
    finally:
        torch.set_default_dtype(old)
    print("nothing to replay for this key; run ./check C11")
    return 2
