"""entry point:  ./check Cxx [--tier quick|thorough] [--replay path]"""
import argparse
import importlib
import os
import sys
import traceback

sys.path.insert(0, os.path.dirname(os.path.abspath(__file__)))
from common import Ctx  # noqa: E402


def main():
    ap = argparse.ArgumentParser()
    ap.add_argument("prop")
    ap.add_argument("--tier", default=os.environ.get("VERIF_TIER", "quick"), choices=["quick", "thorough"])
    ap.add_argument("--replay", default=None)
    a = ap.parse_args()
    seed = int(os.environ.get("VERIF_SEED", "0") or 0)
    mod = importlib.import_module(a.prop.lower())
    ctx = Ctx(a.prop.upper(), a.tier, seed, level=getattr(mod, "LEVEL", "proof"))
    if a.replay:
        if hasattr(mod, "replay"):
            sys.exit(mod.replay(ctx, a.replay))
        # generic replay: re-run the check and report whether the recorded key fails again
        import json
        rec = json.load(open(a.replay))
        print(f"replaying {a.replay}: key={rec.get('key')} (failing input recorded: {rec.get('failing_input_found')})")
        mod.run(ctx)
        rc = ctx.finish()
        again = [k for k, _, _ in ctx.violations if k == rec.get("key")] + [k for k, _ in ctx.known_hits if k == rec.get("key")]
        print("REPRODUCED" if again else "NOT REPRODUCED", rec.get("key"))
        sys.exit(1 if again else 0)
    try:
        mod.run(ctx)
    except Exception:
        # a crash of the machinery is not a verdict about e3nn: exit 2
        traceback.print_exc()
        ctx.log("harness error (no verdict)")
        sys.exit(2)
    sys.exit(ctx.finish())


if __name__ == "__main__":
    main()
