"""entry point:  ./check Cxx [--tier quick|thorough] [--replay path]"""
import argparse
import importlib
import os
import sys
import traceback

sys.path.insert(0, os.path.dirname(os.path.abspath(__file__)))
from common import Ctx  # noqa: E402


def main():
    ap = argparse.ArgumentParser()
    ap.add_argument("prop")
    ap.add_argument("--tier", default=os.environ.get("VERIF_TIER", "quick"), choices=["quick", "thorough"])
    ap.add_argument("--replay", default=None)
    a = ap.parse_args()
    seed = int(os.environ.get("VERIF_SEED", "0") or 0)
    mod = importlib.import_module(a.prop.lower())
    ctx = Ctx(a.prop.upper(), a.tier, seed, level=getattr(mod, "LEVEL", "proof"))
    if a.replay:
        if hasattr(mod, "replay"):
            rc = mod.replay(ctx, a.replay)
            if rc in (0, 1):
                sys.exit(rc)
            print("no dedicated replay for this key: re-running the whole check")
        # generic replay: re-run the check and report whether the recorded key fails again
        import json
        rec = json.load(open(a.replay))
        print(f"replaying {a.replay}: key={rec.get('key')} (failing input recorded: {rec.get('failing_input_found')})")
        mod.run(ctx)
        rc = ctx.finish()
        again = [k for k, _, _ in ctx.violations if k == rec.get("key")] + [k for k, _ in ctx.known_hits if k == rec.get("key")]
        print("REPRODUCED" if again else "NOT REPRODUCED", rec.get("key"))
        sys.exit(1 if again else 0)
    try:
        mod.run(ctx)
    except Exception as e:
        tb = traceback.format_exc()
        print(tb)
        frames = traceback.extract_tb(e.__traceback__)
        repo = os.environ.get("E3NN_REPO", "/repo")
        in_e3nn = [f for f in frames if f.filename.startswith(repo + "/e3nn") or "/site-packages/torch/" in f.filename]
        if in_e3nn:
            # the real code raised where the check did not expect it: on the unchanged tree this never happens, so it is a broken
            # correspondence (the harness could not even run the case) — reported, with the call site, as a violation without input
            site = next((f for f in reversed(frames) if f.filename.startswith(repo + "/e3nn")), in_e3nn[-1])
            ctx.violation(f"exception-in-real-code/{os.path.basename(site.filename)}:{site.name}",
                          {"broken": "the check could not complete: the implementation raised unexpectedly", "exception": repr(e)[:500], "traceback": tb[-4000:]}, False)
            sys.exit(ctx.finish())
        import subprocess
        here = os.path.dirname(os.path.abspath(__file__))
        mine = [f for f in frames if f.filename.startswith(here)]
        infra = (isinstance(e, (subprocess.TimeoutExpired, subprocess.CalledProcessError, MemoryError, OSError, ImportError, EOFError))
                 or not mine or os.path.basename(mine[-1].filename) in ("common.py", "main.py"))
        if not infra:
            # the property module itself failed while processing what the real code returned (a shape, a type, an attribute it relies
            # on).  On the unchanged tree this never happens (the checks are deterministic given VERIF_SEED), so the correspondence
            # between model and implementation can no longer be carried out: reported as a violation without a failing input,
            # naming the place where the comparison stopped.  Failures of the machinery (build, driver, timeout, memory, I/O) stay exit 2.
            site = mine[-1]
            ctx.violation(f"correspondence-aborted/{os.path.basename(site.filename)}:{site.name}",
                          {"broken": f"the correspondence stream in {os.path.basename(site.filename)}:{site.lineno} ({site.name}) could not be completed on the "
                                     "values returned by the implementation", "statement": (site.line or "")[:300], "exception": repr(e)[:500], "traceback": tb[-4000:]}, False)
            sys.exit(ctx.finish())
        # a crash of the machinery itself is not a verdict about e3nn: exit 2
        ctx.log("harness error (no verdict)")
        sys.exit(2)
    sys.exit(ctx.finish())


if __name__ == "__main__":
    main()
