"""C15 helper (Part 2): reconstruct the dataflow of a REAL forward pass at the granularity of the Lean IR.

How
  * a `TorchDispatchMode` sees every aten operation of the forward pass; module forward hooks (registered globally,
    in the harness process) delimit the e3nn primitives: everything executed inside a module whose class lives in
    `e3nn.o3` / `e3nn.nn` (not `e3nn.nn.models`) is collapsed into ONE `prim` instruction whose declared irreps are
    read from the module (`irreps_in1/irreps_in2/irreps_out`, ...); FullyConnectedNet and the module-level helper
    functions of the model files (`soft_one_hot_linspace`, `smooth_cutoff`) become `mapInv`; `radius_graph`
    (the model's own or the torch_cluster shim) defines the edge structure.
  * every tensor that depends on an input carries a provenance record (IR variable, shape class, width);
    integer tensors carry an index role (edge_index / src / dst / batch) through select/reshape/expand;
    tensors without provenance are constants (parameters, buffers, `new_ones`, Python floats).
  * the aten operations outside primitives are translated:  index -> gatherSrc/gatherDst,  sub/add -> sub/add,
    scatter_add_/index_add_ -> scatterDst/scatterBatch (by the role of the index),  mul/div by a number -> scale,
    [.,1]-row * rows -> mul,  rows * constant vector -> prim `mask:*` (block-constancy of the vector is verified
    against the irreps the Lean checker assigns),  cat -> cat,  vector_norm -> prim `norm`,  cos/sin/... -> mapInv,
    view/unsqueeze/expand/slice -> identity.   `(a*s + b) * x` with `s` a [.,1] row and `a, b` constant vectors is
    emitted as  mask_a(s*x) + mask_b(x).   Anything else touching a tracked tensor is an error (`unknown`).
  * the emitted program keeps, for every `prim`/`mapInv`/constant, the Python callable it stands for, so that
    `run_ir` can re-execute the PROGRAM (not the model) on a fresh input with the real primitives; the harness
    compares that with the real forward pass: the IR program is the model, not only a trace of one run.
"""
from __future__ import annotations

import re

import torch
from torch.utils._python_dispatch import TorchDispatchMode

IDENTITY_OPS = {
    "aten.unsqueeze.default", "aten.squeeze.dim", "aten.view.default", "aten._unsafe_view.default",
    "aten.reshape.default", "aten.expand.default", "aten.alias.default", "aten.detach.default",
    "aten.clone.default", "aten.contiguous.default", "aten._to_copy.default", "aten.slice.Tensor",
    "aten.lift_fresh.default", "aten.t.default", "aten.to.dtype", "aten.to.dtype_layout",
}
UNARY_INV = {"aten.cos.default", "aten.sin.default", "aten.neg.default", "aten.exp.default", "aten.tanh.default",
             "aten.sigmoid.default", "aten.abs.default", "aten.sqrt.default", "aten.pow.Tensor_Scalar",
             "aten.silu.default"}


SCATTER_OPS = ("aten.scatter_add_.default", "aten.scatter_add.default", "aten.index_add_.default",
               "aten.index_add.default")


def _san(s):
    return re.sub(r"[^A-Za-z0-9_.:\[\]\-+]", "_", str(s)) or "_"


def enc_irreps(ir):
    from e3nn import o3
    ir = o3.Irreps(ir)
    if len(ir) == 0:
        return "-"
    return ",".join(f"{mul}.{x.l}.{'e' if x.p == 1 else 'o'}" for mul, x in ir)


class Feat:
    __slots__ = ("var", "shape", "width", "irreps", "affine")

    def __init__(self, var, shape, width, irreps, affine=None):
        self.var, self.shape, self.width, self.irreps, self.affine = var, shape, width, irreps, affine


class Index:
    __slots__ = ("role",)

    def __init__(self, role):
        self.role = role


class ConstRows:
    """a constant tensor with one row per node/edge/graph (e.g. `pos.new_ones((n, 1))`)"""
    __slots__ = ("shape",)

    def __init__(self, shape):
        self.shape = shape


class TraceError(Exception):
    pass


class Tracer(TorchDispatchMode):
    def __init__(self, model, patch_modules):
        super().__init__()
        self.model = model
        self.names = {id(m): n or "<root>" for n, m in model.named_modules()}
        self.patch_modules = patch_modules
        self.rec = {}          # id(tensor) -> Feat | Index
        self.keep = []         # strong references: ids stay unique
        self.prog = []         # list of dict(line=..., fn=..., kind=...)
        self.depth = 0
        self.stack = []
        self.errors = []
        self.calls = []        # (module name, class, irreps in, irreps out)   outermost primitive calls, in order
        self.consts = {}       # scale constants name -> float
        self.n_inputs = 0
        self.dyn = 0
        self.graph_fn = None   # callable (pos, batch) -> edge_index   when the model builds its graph
        self.r_graph = None
        self.edge_sets = 0
        self._handles = []
        self._patched = []

    # ------------------------------------------------------------------ bookkeeping
    def get(self, t):
        return self.rec.get(id(t)) if isinstance(t, torch.Tensor) else None

    def put(self, t, r):
        self.rec[id(t)] = r
        self.keep.append(t)

    def emit(self, line, shape, width, irreps, fn=None, kind="glue", **kw):
        from e3nn import o3
        irreps = o3.Irreps(irreps)
        if irreps.dim != width:
            raise TraceError(f"{line}: irreps {irreps} of dimension {irreps.dim} for rows of width {width}")
        var = len(self.prog)
        self.prog.append(dict(line=line, fn=fn, kind=kind, shape=shape, width=width, irreps=str(irreps), **kw))
        return Feat(var, shape, width, irreps)

    def add_input(self, t, shape, irreps, tc="inv", name="?"):
        i = self.n_inputs
        self.n_inputs += 1
        f = self.emit(f"input {i} {shape} {enc_irreps(irreps)} {tc} 1", shape, t.shape[-1] if t.dim() > 1 else 1,
                      irreps, kind="input", input_name=name, input_id=i)
        self.put(t, f)
        return f

    def add_index(self, t, role):
        self.put(t, Index(role))

    def materialize(self, t, shape, irreps, what):
        """a constant tensor handed to a primitive: becomes a global constant row, broadcast to `shape`"""
        from e3nn import o3
        ir = o3.Irreps(irreps)
        if any(not (x.l == 0 and x.p == 1) for _, x in ir):
            raise TraceError(f"constant tensor passed as non-scalar irreps {ir} to {what}")
        rows = t.reshape(-1, t.shape[-1]) if t.dim() > 1 else t.reshape(-1, 1)
        if rows.shape[0] and not torch.equal(rows, rows[:1].expand_as(rows)):
            raise TraceError(f"non-constant untracked tensor passed to {what}")
        i = self.n_inputs
        self.n_inputs += 1
        row = rows[:1].clone() if rows.shape[0] else rows.new_ones(1, rows.shape[1])
        g = self.emit(f"input {i} glob {enc_irreps(ir)} inv 1", "glob", rows.shape[1], ir, kind="const", value=row,
                      input_id=i)
        return self.emit(f"bcast {shape} {g.var}", shape, rows.shape[1], ir)

    # ------------------------------------------------------------------ hooks on primitives
    @staticmethod
    def is_primitive(m):
        mod = type(m).__module__ or ""
        return (mod.startswith("e3nn.o3") or mod.startswith("e3nn.nn")) and not mod.startswith("e3nn.nn.models")

    def _pre(self, m, args):
        if not self.is_primitive(m):
            return
        self.depth += 1
        self.stack.append((m, args))

    def _post(self, m, args, out):
        if not self.is_primitive(m):
            return
        self.depth -= 1
        m0, a0 = self.stack.pop()
        if self.depth > 0:
            return
        try:
            self._emit_primitive(m, args, out)
        except TraceError as e:
            self.errors.append(str(e))

    def _emit_primitive(self, m, args, out):
        from e3nn import o3, nn
        cls = type(m).__name__
        name = self.names.get(id(m))
        if name is None:
            self.dyn += 1
            name = f"dyn{self.dyn}"
        pname = _san(f"{cls}:{name}")
        targs = [a for a in args if isinstance(a, torch.Tensor)]
        if isinstance(m, nn.FullyConnectedNet):
            ins, outir, as_inv = None, f"{m.hs[-1]}x0e", True
        elif isinstance(m, o3.TensorProduct):
            ins = [m.irreps_in1, m.irreps_in2] + ([o3.Irreps(f"{m.weight_numel}x0e")] if len(targs) == 3 else [])
            outir, as_inv = m.irreps_out, False
        elif hasattr(m, "irreps_in") and hasattr(m, "irreps_out") and len(targs) == 1:
            ins, outir, as_inv = [o3.Irreps(m.irreps_in)], o3.Irreps(m.irreps_out), False
        else:
            raise TraceError(f"primitive {pname}: unknown signature")
        recs = [self.get(a) for a in targs]
        shapes = {r.shape for r in recs if isinstance(r, Feat)} or {r.shape for r in recs if isinstance(r, ConstRows)}
        if len(shapes) != 1:
            raise TraceError(f"primitive {pname}: arguments of shape classes {shapes}")
        shape = shapes.pop()
        vars_ = []
        for j, (a, r) in enumerate(zip(targs, recs)):
            if isinstance(r, Feat):
                vars_.append(r.var)
            elif r is None or isinstance(r, ConstRows):
                vars_.append(self.materialize(a, shape, ins[j] if ins else f"{a.shape[-1]}x0e", pname).var)
            else:
                raise TraceError(f"primitive {pname}: index tensor as argument")
        width = out.shape[-1]
        if as_inv:
            f = self.emit(f"mapInv {pname} {width} {','.join(map(str, vars_))}", shape, width, f"{width}x0e", fn=m,
                          kind="mapInv")
        else:
            f = self.emit(f"prim {pname} {';'.join(enc_irreps(i) for i in ins)} {enc_irreps(outir)} "
                          f"{','.join(map(str, vars_))}", shape, width, outir, fn=m, kind="prim")
        self.calls.append((name, cls, None if ins is None else [str(i) for i in ins], str(outir)))
        self.put(out, f)

    # ------------------------------------------------------------------ wrapped helper functions of the model files
    def _wrap_inv(self, fname, f):
        def wrapper(*a, **k):
            if self.depth > 0:
                return f(*a, **k)
            self.depth += 1
            try:
                out = f(*a, **k)
            finally:
                self.depth -= 1
            x = k.get("x", a[0] if a else None)
            r = self.get(x)
            if not isinstance(r, Feat):
                self.errors.append(f"{fname}: argument without provenance")
                return out
            rest_a, rest_k = a[1:] if a else (), {kk: v for kk, v in k.items() if kk != "x"}

            def fn(t, f=f, rest_a=rest_a, rest_k=rest_k, was_kw=("x" in k), ndim=x.dim()):
                t = t.reshape(-1) if ndim == 1 else t
                y = f(x=t, *rest_a, **rest_k) if was_kw else f(t, *rest_a, **rest_k)
                return y.reshape(y.shape[0], y.shape[1:].numel())
            width = out.shape[-1] if out.dim() > 1 else 1
            self.put(out, self.emit(f"mapInv {_san(fname)} {width} {r.var}", r.shape, width, f"{width}x0e", fn=fn,
                                    kind="mapInv"))
            return out
        return wrapper

    def _wrap_graph(self, fname, f):
        def wrapper(*a, **k):
            if self.depth > 0:
                return f(*a, **k)
            self.depth += 1
            try:
                out = f(*a, **k)
            finally:
                self.depth -= 1
            pos = a[0]
            r = self.get(pos)
            if not (isinstance(r, Feat) and self.prog[r.var]["kind"] == "input"):
                self.errors.append(f"{fname}: first argument is not the position input")
            rest = a[2:] if len(a) > 2 else ()
            rr = a[1] if len(a) > 1 else k.get("r", k.get("r_max"))
            kk = {x: v for x, v in k.items() if x not in ("batch", "r", "r_max")}
            self.graph_fn = lambda p, b, f=f, rr=rr, kk=kk: f(p, rr, b, **kk)
            self.r_graph = float(rr)
            self.edge_sets += 1
            self.add_index(out, "edge_index")
            return out
        return wrapper

    def __enter__(self):
        import torch.nn.modules.module as M
        self._handles = [M.register_module_forward_pre_hook(self._pre), M.register_module_forward_hook(self._post)]
        for mod in self.patch_modules:
            for fname, kind in (("soft_one_hot_linspace", "inv"), ("smooth_cutoff", "inv"), ("radius_graph", "graph")):
                if hasattr(mod, fname):
                    f = getattr(mod, fname)
                    self._patched.append((mod, fname, f))
                    setattr(mod, fname, self._wrap_inv(fname, f) if kind == "inv" else self._wrap_graph(fname, f))
        return super().__enter__()

    def __exit__(self, *exc):
        r = super().__exit__(*exc)
        for h in self._handles:
            h.remove()
        for mod, fname, f in self._patched:
            setattr(mod, fname, f)
        self._patched = []
        return r

    # ------------------------------------------------------------------ aten operations outside primitives
    def __torch_dispatch__(self, func, types, args=(), kwargs=None):
        kwargs = kwargs or {}
        op = str(func)
        self._zero_base = None
        if self.depth == 0 and op in SCATTER_OPS:
            self._zero_base = not bool((args[0] != 0).any())
        out = func(*args, **kwargs)
        if self.depth > 0:
            return out
        try:
            self._translate(op, args, kwargs, out)
        except TraceError as e:
            self.errors.append(str(e))
        return out

    def _flat_tensors(self, args):
        res = []
        for a in args:
            if isinstance(a, torch.Tensor):
                res.append(a)
            elif isinstance(a, (list, tuple)):
                res += self._flat_tensors(a)
        return res

    def _translate(self, op, args, kwargs, out):
        tens = self._flat_tensors(args) + self._flat_tensors(list(kwargs.values()))
        recs = [self.get(t) for t in tens]
        if not any(r is not None for r in recs):
            return                                     # constants only
        feats = [r for r in recs if isinstance(r, Feat)]
        if op in ("aten.new_ones.default", "aten.new_zeros.default", "aten.new_full.default"):
            r = self.get(args[0])
            if isinstance(r, Feat) and out.dim() == 2 and args[0].dim() >= 1 and out.shape[0] == args[0].shape[0]:
                self.put(out, ConstRows(r.shape))
            return
        if op in IDENTITY_OPS:
            r = self.get(args[0])
            if isinstance(r, Feat):
                rows_in = args[0].shape[0] if args[0].dim() else 1
                rows_out = out.shape[0] if out.dim() else 1
                if rows_in != rows_out:
                    raise TraceError(f"{op}: changes the number of rows of a tracked tensor")
                w = out.shape[-1] if out.dim() > 1 else 1
                if w != r.width:
                    raise TraceError(f"{op}: changes the width of a tracked tensor")
                self.put(out, Feat(r.var, r.shape, w, r.irreps, r.affine))
            elif isinstance(r, Index):
                self.put(out, Index(r.role))
            return
        if op == "aten.select.int":
            r = self.get(args[0])
            if isinstance(r, Index) and r.role == "edge_index" and args[1] == 0:
                self.put(out, Index("src" if args[2] == 0 else "dst"))
                return
            if isinstance(r, Index):
                return
            raise TraceError(f"{op}: select on a tracked feature tensor")
        if not feats:
            return                                     # integer bookkeeping (max of batch, comparisons, ...)
        if op == "aten.index.Tensor":
            x, idx = args[0], [i for i in args[1] if i is not None]
            rx, ri = self.get(x), self.get(idx[0]) if len(idx) == 1 else None
            if isinstance(rx, Feat) and isinstance(ri, Index) and ri.role in ("src", "dst") and rx.shape == "node":
                g = "gatherSrc" if ri.role == "src" else "gatherDst"
                self.put(out, self.emit(f"{g} {rx.var}", "edge", rx.width, rx.irreps))
                return
            raise TraceError(f"{op}: indexing a tracked tensor by something that is not edge_src/edge_dst")
        if op in ("aten.sub.Tensor", "aten.add.Tensor"):
            a, b = args[0], args[1]
            ra, rb = self.get(a), self.get(b)
            if kwargs.get("alpha", 1) != 1:
                raise TraceError(f"{op}: alpha")
            if isinstance(ra, Feat) and isinstance(rb, Feat):
                if ra.shape != rb.shape or ra.width != rb.width:
                    raise TraceError(f"{op}: operands of different shape")
                self.put(out, self.emit(f"{'sub' if 'sub' in op else 'add'} {ra.var} {rb.var}", ra.shape, ra.width,
                                        ra.irreps))
                return
            # constant + invariant rows (e.g. (1 - m) + sin * m)
            r, c, first = (ra, b, True) if isinstance(ra, Feat) else (rb, a, False)
            sign = -1.0 if "sub" in op else 1.0
            if r.affine is not None:
                s, av, bv = r.affine
                cv = torch.as_tensor(c, dtype=av.dtype)
                nb = (bv + sign * cv) if first else (sign * bv + cv)
                na = av if first else sign * av
                f = self._emit_affine(s, na, nb, r.shape)
                self.put(out, f)
                return
            cc = c
            fn = (lambda t, cc=cc, sign=sign: t + sign * cc) if first else (lambda t, cc=cc, sign=sign: cc + sign * t)
            w = out.shape[-1] if out.dim() > 1 else 1
            self.put(out, self.emit(f"mapInv addconst {w} {r.var}", r.shape, w, f"{w}x0e", fn=fn, kind="mapInv"))
            return
        if op in ("aten.mul.Tensor", "aten.div.Tensor", "aten.div_.Tensor", "aten.mul_.Tensor", "aten.mul.Scalar",
                  "aten.div.Scalar"):
            a, b = args[0], args[1]
            ra, rb = self.get(a), self.get(b)
            isdiv = "div" in op
            if isinstance(ra, Feat) and isinstance(rb, Feat):
                if isdiv:
                    raise TraceError(f"{op}: division of two tracked tensors")
                if ra.shape != rb.shape:
                    raise TraceError(f"{op}: operands of different shape class")
                if rb.width == 1 and ra.width != 1:
                    ra, rb = rb, ra
                if ra.affine is not None or rb.affine is not None:
                    if rb.affine is not None and ra.affine is None:
                        ra, rb = rb, ra
                    s, av, bv = ra.affine
                    t1 = self.emit(f"mul {s} {rb.var}", rb.shape, rb.width, rb.irreps)
                    t2 = self._emit_mask(av, t1)
                    t3 = self._emit_mask(bv, rb)
                    self.put(out, self.emit(f"add {t2.var} {t3.var}", rb.shape, rb.width, rb.irreps))
                    return
                if ra.width == 1:
                    self.put(out, self.emit(f"mul {ra.var} {rb.var}", rb.shape, rb.width, rb.irreps))
                    return
                raise TraceError(f"{op}: elementwise product of two tracked tensors of widths {ra.width}, {rb.width}")
            r, c = (ra, b) if isinstance(ra, Feat) else (rb, a)
            if isinstance(rb, Feat) and isdiv:
                raise TraceError(f"{op}: constant / tracked")
            if isinstance(c, (int, float)) or (isinstance(c, torch.Tensor) and c.numel() == 1):
                v = float(c)
                v = 1.0 / v if isdiv else v
                nm = f"c{len(self.consts)}"
                self.consts[nm] = v
                f = self.emit(f"scale {nm} {r.var}", r.shape, r.width, r.irreps, value=v)
                if r.affine is not None:
                    s, av, bv = r.affine
                    f.affine = (s, av * v, bv * v)
                self.put(out, f)
                return
            if isinstance(c, torch.Tensor) and not isdiv:
                cv = c.reshape(-1)
                if r.width == 1 and cv.numel() > 1:          # [.,1] row * constant vector  ->  affine form
                    self.put(out, self._emit_affine(r.var, cv.clone(), torch.zeros_like(cv), r.shape))
                    return
                if cv.numel() == r.width:                     # rows * constant vector (output_mask mixing)
                    self.put(out, self._emit_mask(cv.clone(), r))
                    return
            raise TraceError(f"{op}: unsupported constant operand")
        if op == "aten.cat.default":
            ts, dim = args[0], (args[1] if len(args) > 1 else kwargs.get("dim", 0))
            rs = [self.get(t) for t in ts]
            if dim not in (1, -1) or not all(isinstance(r, Feat) for r in rs):
                raise TraceError(f"{op}: only concatenation of tracked rows along dim 1")
            acc = rs[0]
            for r in rs[1:]:
                acc = self.emit(f"cat {acc.width} {acc.var} {r.var}", acc.shape, acc.width + r.width,
                                acc.irreps + r.irreps)
            self.put(out, acc)
            return
        if op == "aten.linalg_vector_norm.default":
            r = self.get(args[0])
            dims = args[2] if len(args) > 2 else kwargs.get("dim")
            if isinstance(r, Feat) and r.width == 3 and list(dims) in ([1], [-1]) and (len(args) < 2 or args[1] == 2):
                self.put(out, self.emit(f"prim norm 1.1.o 1.0.e {r.var}", r.shape, 1, "1x0e", kind="prim",
                                        fn=lambda t: t.norm(dim=1, keepdim=True)))
                self.calls.append(("norm", "aten.linalg_vector_norm", ["1x1o"], "1x0e"))
                return
            raise TraceError(f"{op}: norm of something that is not a [.,3] vector row")
        if op in UNARY_INV:
            r = self.get(args[0])
            extra = args[1:]
            f_op = getattr(torch.ops.aten, op.split(".")[1])
            self.put(out, self.emit(f"mapInv {_san(op)} {r.width} {r.var}", r.shape, r.width, f"{r.width}x0e",
                                    kind="mapInv",
                                    fn=lambda t, f_op=f_op, extra=extra: f_op(t, *extra)))
            return
        if op in SCATTER_OPS:
            base, dim, idx, src = args[0], args[1], args[2], args[3]
            rb, ri, rs = self.get(base), self.get(idx), self.get(src)
            if not (rb is None or isinstance(rb, ConstRows)) or dim != 0 or not isinstance(ri, Index) \
                    or not isinstance(rs, Feat):
                raise TraceError(f"{op}: unsupported scatter")
            if not self._zero_base:
                raise TraceError(f"{op}: scatter into a non-zero tensor")
            if ri.role == "dst" and rs.shape == "edge":
                self.put(out, self.emit(f"scatterDst {rs.var}", "node", rs.width, rs.irreps))
            elif ri.role == "batch" and rs.shape == "node":
                self.put(out, self.emit(f"scatterBatch {rs.var}", "graph", rs.width, rs.irreps))
            else:
                raise TraceError(f"{op}: scatter of {rs.shape} rows by index role {ri.role}")
            return
        if op in ("aten.zeros_like.default", "aten.ones_like.default", "aten.new_empty.default", "aten.sym_size.int",
                  "aten.empty_like.default"):
            return
        raise TraceError(f"unknown glue operation {op} on a tracked tensor")

    def _emit_affine(self, s, av, bv, shape):
        """rows  a * s + b  (s: variable of width 1; a, b constant vectors): a function of invariants"""
        f = self.emit(f"mapInv affine {av.numel()} {s}", shape, av.numel(), f"{av.numel()}x0e", kind="mapInv",
                      fn=lambda t, av=av, bv=bv: t * av + bv)
        f.affine = (s, av, bv)
        return f

    def _emit_mask(self, vec, r):
        """rows * constant vector: equivariant iff the vector is constant on every irrep block of the rows"""
        off = 0
        for mul, ir in r.irreps:
            for _ in range(mul):
                blk = vec[off:off + ir.dim]
                if blk.numel() and not bool((blk == blk[0]).all()):
                    raise TraceError(f"constant vector multiplied with rows of irreps {r.irreps} is not constant on "
                                     f"the irrep block starting at component {off}")
                off += ir.dim
        k = sum(1 for p in self.prog if p.get("mask") is not None)
        e = enc_irreps(r.irreps)
        return self.emit(f"prim mask:{k} {e} {e} {r.var}", r.shape, r.width, r.irreps, kind="prim", mask=vec,
                         fn=lambda t, vec=vec: t * vec)


# ------------------------------------------------------------------------------------------------------
def run_ir(prog, inputs, graph):
    """re-execute an IR program with torch tensors.  inputs: input_name -> tensor; graph: dict(src,dst,batch,
    n_nodes,n_graphs).  Returns the list of the values of all variables ([rows, width] tensors)."""
    vals = []
    nrows = {"node": graph["n_nodes"], "graph": graph["n_graphs"], "glob": 1,
             "edge": int(graph["src"].shape[0]) if graph.get("src") is not None else 0}

    def rows(t):
        return t.reshape(t.shape[0], t.shape[1:].numel()) if t.dim() != 2 else t
    for p in prog:
        tok = p["line"].split(" ")
        op = tok[0]
        if op == "input":
            if p["kind"] == "const":
                v = p["value"]
            else:
                v = rows(inputs[p["input_name"]])
        elif op == "gatherSrc":
            v = vals[int(tok[1])][graph["src"]]
        elif op == "gatherDst":
            v = vals[int(tok[1])][graph["dst"]]
        elif op == "sub":
            v = vals[int(tok[1])] - vals[int(tok[2])]
        elif op == "add":
            v = vals[int(tok[1])] + vals[int(tok[2])]
        elif op == "scatterDst":
            x = vals[int(tok[1])]
            v = x.new_zeros(nrows["node"], x.shape[1]).index_add_(0, graph["dst"], x)
        elif op == "scatterBatch":
            x = vals[int(tok[1])]
            v = x.new_zeros(nrows["graph"], x.shape[1]).index_add_(0, graph["batch"], x)
        elif op == "bcast":
            x = vals[int(tok[2])]
            v = x.expand(nrows[tok[1]], x.shape[1])
        elif op == "cat":
            v = torch.cat([vals[int(tok[2])], vals[int(tok[3])]], dim=1)
        elif op == "mul":
            v = vals[int(tok[1])] * vals[int(tok[2])]
        elif op == "scale":
            v = vals[int(tok[2])] * p["value"]
        elif op in ("mapInv", "prim"):
            a = [vals[int(i)] for i in tok[-1].split(",")]
            v = rows(p["fn"](*a))
        else:
            raise RuntimeError("run_ir: " + op)
        vals.append(v)
    return vals
