"""C19 — module introspection (output mask, weight count, weight views, reported irreps) tells the truth.

Per generated program the kernel certifies (Cert/TP/C19/<name>.lean): mask[k]=0 ⇔ the coefficient polynomial of component k is
the zero polynomial (identically zero for ALL inputs and weights), mask[k]=1 ⇒ a provably non-zero coefficient; every monomial
sits in the weight slice / blocks of exactly one path; the views the module hands out are the model's slices; reported sizes.
Props/C19.lean: the slices partition [0, weight_numel) for ALL instruction lists, and the soundness of the mask check.
"""
import torch

import tp_check
from common import LEAN

LEVEL = "proof"


def view_aliasing(ctx, o3):
    """editing the k-th view changes exactly that path's contribution (real module, internal weights)"""
    torch.set_default_dtype(torch.float64)
    g = torch.Generator().manual_seed(ctx.seed + 9)
    try:
        cases = [
            ("2x0e+1x1o", "2x0e+2x1o", "2x1o+2x0e", [(0, 0, 1, "uuu", False), (0, 1, 0, "uvw", True), (1, 0, 0, "uvw", True), (1, 1, 1, "uvw", True)]),
            ("2x1o", "2x1o", "2x1e+2x0e", [(0, 0, 0, "uuu", True), (0, 0, 1, "uuu", False), (0, 0, 1, "uvw", True), (0, 0, 0, "uvu", True)]),
            ("1x0e", "2x1o+1x0e", "2x1o+3x0e", [(0, 1, 1, "uvw", True), (0, 0, 0, "uvv", False), (0, 0, 0, "uvv", True)]),
        ]
        for i1, i2, io, ins in cases:
            tp = o3.TensorProduct(i1, i2, io, ins)
            x1 = torch.randn(3, tp.irreps_in1.dim, generator=g)
            x2 = torch.randn(3, tp.irreps_in2.dim, generator=g)
            base = tp(x1, x2).detach().clone()
            byiter = [(k, v) for k, v in enumerate(tp.weight_views(yield_instruction=True))]
            wk = [k for k, insn in enumerate(tp.instructions) if insn.has_weight]
            if len(byiter) != len(wk):
                ctx.violation("TensorProduct.weight_views/count", {"instructions": ins}, True)
            # iteration with yield_instruction=True: (index in self.instructions, that instruction, the same slice as by-index lookup)
            it_ok = True
            for (j, insn, v), k in zip(tp.weight_views(yield_instruction=True), wk):
                same = False
                if j == k and insn is tp.instructions[k]:
                    u = tp.weight_view_for_instruction(k)
                    same = u.data_ptr() == v.data_ptr() and tuple(u.shape) == tuple(v.shape) == tuple(tp.instructions[k].path_shape)
                ctx.case(f"view-iteration {i1} {i2} {io} instruction {k}")
                if not same:
                    it_ok = False
                    ctx.violation("TensorProduct.weight_views/yielded-index-or-slice-wrong",
                                  {"irreps": [i1, i2, io], "instructions": ins, "yielded_index": j, "expected_index": k,
                                   "yielded_instruction_is_instructions[index]": bool(j < len(tp.instructions) and insn is tp.instructions[j]),
                                   "yielded_shape": list(v.shape), "path_shape": list(tp.instructions[k].path_shape)}, True)
                    break
            if not it_ok:
                continue
            total = 0
            for k in wk:
                try:
                    view = tp.weight_view_for_instruction(k)
                except Exception as e:
                    ctx.violation("TensorProduct.weight_view_for_instruction/raises", {"irreps": [i1, i2, io], "instructions": ins, "instruction": k, "error": repr(e)[:300]}, True)
                    continue
                total += view.numel()
                saved = view.detach().clone()
                with torch.no_grad():
                    view.zero_()
                out0 = tp(x1, x2).detach().clone()
                # reference: same module without instruction k
                ins2 = [t for j, t in enumerate(ins) if j != k]
                ref = o3.TensorProduct(i1, i2, io, [(a, b, c, m, w, float(tp.instructions[j].path_weight) ** 2) for j, (a, b, c, m, w) in enumerate(ins) if j != k],
                                       irrep_normalization="none", path_normalization="none")
                with torch.no_grad():
                    # copy remaining weights (through the iterator, which is independent of the by-index lookup)
                    src = [v.detach().clone() for (j, _ins, v) in tp.weight_views(yield_instruction=True) if j != k]
                    for dst, s_ in zip(ref.weight_views(), src):
                        dst.copy_(s_)
                exp = ref(x1, x2)
                with torch.no_grad():
                    view.copy_(saved)
                ctx.case(f"view-aliasing {i1} {i2} {io} instruction {k}")
                if (out0 - exp).abs().max().item() > 1e-10 or (tp(x1, x2) - base).abs().max().item() > 1e-12:
                    ctx.violation("TensorProduct.weight_view_for_instruction/aliases-wrong-weights",
                                  {"irreps": [i1, i2, io], "instructions": ins, "instruction": k, "dev": (out0 - exp).abs().max().item()}, True)
            if total != tp.weight_numel:
                ctx.violation("TensorProduct.weight_numel/views-do-not-cover", {"instructions": ins, "sum_of_views": total, "weight_numel": tp.weight_numel}, True)
            # ---- EXTERNAL weights in every memory layout: the view (by index and by iteration) must alias the tensor the USER passed —
            #      editing it edits the user's weights (exactly view.numel() entries per weight row) and that path's contribution only
            for shared in (True, False):
                tpe = o3.TensorProduct(i1, i2, io, ins, internal_weights=False, shared_weights=shared)
                n = tpe.weight_numel
                if n == 0:
                    continue
                rows = 1 if shared else 3
                layouts = {
                    "contiguous": lambda: torch.randn(rows, n, generator=g),
                    "column-block-of-a-larger-buffer": lambda: torch.randn(rows, n + 5, generator=g)[:, 2:2 + n],
                    "transposed": lambda: torch.randn(n, rows, generator=g).t(),
                    "every-other-column": lambda: torch.randn(rows, 2 * n, generator=g)[:, ::2],
                }
                for lname, mk in layouts.items():
                    for how in ("by-index", "by-iteration"):
                        W2 = mk()
                        W = W2[0] if shared else W2           # shared: a 1-D (possibly strided) row; unshared: (batch, numel)
                        before = W.detach().clone()
                        out_before = tpe(x1, x2, W).detach().clone()
                        kk = wk[len(wk) // 2]
                        try:
                            if how == "by-index":
                                view = tpe.weight_view_for_instruction(kk, W)
                            else:
                                view = dict((j, v) for j, _i, v in tpe.weight_views(W, yield_instruction=True))[kk]
                        except Exception as e:  # noqa: BLE001
                            ctx.violation("TensorProduct.weight_views/external-weights-raises",
                                          {"irreps": [i1, i2, io], "instructions": ins, "layout": lname, "how": how, "shared_weights": shared, "error": repr(e)[:300]}, True)
                            continue
                        with torch.no_grad():
                            view.zero_()
                        changed = int((W != before).sum())
                        per_row = view.numel() // (1 if shared else rows)
                        # entries of the slice that were non-zero before (all of them, for a normal sample)
                        Wz = before.clone().reshape(rows, n)
                        off = sum(int(torch.tensor(tpe.instructions[j].path_shape).prod()) for j in wk if j < kk)
                        Wz[:, off:off + per_row] = 0
                        ctx.case(f"view-aliasing-external {i1} {i2} {io} {lname} {how} shared={shared}")
                        ok_alias = bool(torch.equal(W.reshape(rows, n), Wz))
                        out_after = tpe(x1, x2, W).detach()
                        out_expected = tpe(x1, x2, Wz[0] if shared else Wz).detach()
                        ok_out = (out_after - out_expected).abs().max().item() <= 1e-12
                        if not (ok_alias and ok_out):
                            ctx.violation("TensorProduct.weight_views/external-weights-not-aliased",
                                          {"irreps": [i1, i2, io], "instructions": ins, "instruction": kk, "layout": lname, "how": how, "shared_weights": shared,
                                           "entries_of_the_user_tensor_changed": changed, "view_numel": view.numel(),
                                           "user_tensor_equals_expected_edit": ok_alias, "output_follows_the_edit": bool(ok_out),
                                           "call": "v = tp.weight_view_for_instruction(k, W) / tp.weight_views(W); v.zero_(); W must now have that slice zeroed"}, True)
    finally:
        torch.set_default_dtype(torch.float32)


def linear_part(ctx, o3):
    """Linear: the same introspection certificate per generated Linear program (machinery of property C08:
    Model/LinearChecks.lean `introspectionCheck`, Cert/LIN/C19/<name>.lean)"""
    import linear_family as LF
    info = LF.prepare(ctx, o3, ["C19"], extra_random=4 if ctx.tier == "quick" else 24)
    names = [n for n, v in info.items() if v["error"] is None]
    ok, out = ctx.lake_build(["E3nnVerif.Cert.LIN.C19.All", "E3nnVerif.Cert.LIN.C19.Rand"], timeout=7000)
    failed = {t.rsplit(".", 1)[1] for t in LF.failed_targets(out) if t.startswith("E3nnVerif.Cert.LIN.C19.")} - {"All", "Rand"} if not ok else set()
    if not ok and not failed:
        ctx.obligation("build:Cert.LIN.C19", False, out[-2000:])
    for n in names:
        ctx.obligation(f"cert:C19:LIN:{n}", n not in failed, "kernel rejected the certificate" if n in failed else "")
        ctx.count("family Linear")
    if ok:
        tp_check.audit_prefix(ctx, ["E3nnVerif.Cert.LIN.C19.All", "E3nnVerif.Cert.LIN.C19.Rand"], "E3nnVerif.Cert.LIN.C19")
    g = torch.Generator().manual_seed(ctx.seed + 17)
    for n in failed:
        cfg, lin = info[n]["cfg"], info[n]["lin"].to(torch.float64)
        hit = None
        try:
            mask = lin.output_mask.reshape(-1).tolist()
            fin = getattr(cfg, "f_in", None)
            x = torch.randn(*( (32, fin) if fin else (32,) ), lin.irreps_in.dim, generator=g, dtype=torch.float64)
            ws = []
            if lin.weight_numel and not lin.internal_weights:
                ws.append(torch.randn(*( () if lin.shared_weights else (32,) ), *lin.weight.shape[-3:-1] if False else (), lin.weight_numel, generator=g, dtype=torch.float64))
            out_ = lin(x, *ws)
            flat = out_.reshape(-1, out_.shape[-1])
            for k, mk in enumerate(mask):
                nz = flat[:, k].abs().max().item() > 0
                if mk == 0 and nz:
                    b = int(flat[:, k].abs().argmax())
                    hit = dict(kind="mask 0 but component not identically zero", component=k, value=flat[b, k].item())
                    break
            total = 0
            for k, insn, v in lin.weight_views(yield_instruction=True) if lin.internal_weights else []:
                total += v.numel()
            if hit is None and lin.internal_weights and total != lin.weight_numel:
                hit = dict(kind="weight views do not cover weight_numel", views=total, weight_numel=lin.weight_numel)
        except Exception as e:
            hit = dict(kind="introspection raises", error=repr(e)[:300])
        if hit:
            ctx.violation(f"Linear/introspection/{n}", {"broken": f"Cert.LIN.C19.{n}.introspection_ok", "config": cfg.describe(), **hit}, True)
        else:
            ctx.violation(f"cert:C19:LIN:{n}", {"broken": f"Cert.LIN.C19.{n}.introspection_ok", "config": cfg.describe()}, False)


def run(ctx):
    from e3nn import o3
    props = "E3nnVerif.Props.C19" if (LEAN / "E3nnVerif" / "Props" / "C19.lean").exists() else None
    info, names, failed, runs, infos = tp_check.run(ctx, "C19", props_module=props)
    bad = tp_check.compare_with_module(ctx, info, runs)
    for n, (kind, detail) in bad.items():
        ctx.violation(f"corr:{kind}/{n}", {"broken": kind, "detail": detail}, False)
    g = torch.Generator().manual_seed(ctx.seed + 4)
    for n in failed:
        cfg, tp = info[n]["cfg"], info[n]["tp"].to(torch.float64)
        inf = infos.get(n, {})
        mask = tp.output_mask.reshape(-1).tolist()
        zero = [c == "1" for c in inf.get("zero", "")]
        hit = None
        if len(zero) == len(mask):
            x1 = torch.randn(64, tp.irreps_in1.dim, generator=g, dtype=torch.float64)
            x2 = torch.randn(64, tp.irreps_in2.dim, generator=g, dtype=torch.float64)
            w = torch.randn(tp.weight_numel, generator=g, dtype=torch.float64) if cfg.shared else torch.randn(64, tp.weight_numel, generator=g, dtype=torch.float64)
            out = tp(x1, x2, w)
            for k, (mk, z) in enumerate(zip(mask, zero)):
                if mk == 0 and not z:
                    b = int(out[:, k].abs().argmax())
                    hit = dict(kind="mask 0 but component not identically zero", component=k, value=out[b, k].item(), x1=x1[b].tolist(), x2=x2[b].tolist(),
                               w=(w if cfg.shared else w[b]).tolist())
                    break
                if mk == 1 and z:
                    hit = dict(kind="mask 1 but the component is the zero polynomial (identically zero)", component=k, max_over_64_random_inputs=out[:, k].abs().max().item())
                    break
        if hit is None:
            # weight count / views
            offs = inf.get("offsets", "")
            views = []
            for k, insn in enumerate(tp.instructions):
                if insn.has_weight:
                    try:
                        wv = torch.arange(tp.weight_numel, dtype=torch.float64)
                        v = tp.weight_view_for_instruction(k, wv if cfg.shared else wv.reshape(1, -1)).reshape(-1)
                        views.append((k, int(v[0]) if v.numel() else 0, v.numel()))
                    except Exception as e:
                        views.append((k, "raises", repr(e)[:200]))
            model_offs = [int(o) for o in offs.split(",")] if offs else []
            for (k, start, ln) in views:
                if start == "raises" or (ln and k < len(model_offs) and start != model_offs[k]):
                    hit = dict(kind="weight_view_for_instruction returns the wrong slice", instruction=k, got=[start, ln], expected_offset=model_offs[k] if k < len(model_offs) else None)
                    break
            if hit is None and str(tp.weight_numel) != inf.get("weight_numel"):
                hit = dict(kind="weight_numel differs from the number of weights the specification reads", got=tp.weight_numel, expected=inf.get("weight_numel"))
        if hit:
            ctx.violation(f"TensorProduct/introspection/{n}", {"broken": f"Cert.TP.C19.{n}.introspection_ok", "config": cfg.describe(), **hit}, True)
        else:
            ctx.violation(f"cert:C19:{n}", {"broken": f"Cert.TP.C19.{n}.introspection_ok", "config": cfg.describe()}, False)
    # reported irreps are the true feature sizes
    for n in names:
        tp = info[n]["tp"]
        st = info[n]["stats"]
        ctx.case(f"dims {n}", nontrivial=False)
        if st.get("out_shape", [None, None])[-1] != tp.irreps_out.dim:
            ctx.violation(f"TensorProduct/irreps_out-dim/{n}", {"reported": tp.irreps_out.dim, "actual": st.get("out_shape")}, True)
    view_aliasing(ctx, o3)
    linear_part(ctx, o3)
    import extra_oracles
    extra_oracles.c19_views_after_conversion(ctx, o3)
    ctx.notes["rule"] = "one introspection certificate per generated program (mask ⇔ zero polynomial, weight slices ⇔ paths, sizes); view-aliasing histories on internal-weight modules"
    ctx.assumptions += [
        "mask[k]=1 ⇒ not identically zero relies on a single-term coefficient q·√r ≠ 0 of a monomial with distinct variables (sound; see Props/C19)",
        "Linear's mask/weight views are certified by the C08 machinery (Cert/LIN/C19) when present; nn.Identity has no mask logic to model",
    ]
    ctx.trusted += ["translator harness/fx2ir.py", "Mathlib v4.33.0"]
