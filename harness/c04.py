"""C04 — wigner_3j: normalised invariant tensor, standard symmetries, fresh copies.

proof part   : Props/C04.lean, Props/C04Main.lean + kernel certificates Cert/W3j*.lean, Cert/Gen.lean
               (all rotations, all inputs; certified range l ≤ 3 at setup, l ≤ 5 in the thorough tier)
correspondence: every entry of wigner_3j / so3_generators returned by the Python code against the exact Lean
               model (driver C04), |Δ| ≤ 1e-14; history stream for the copy-on-return clause
search       : property oracles on the real tensor (norm, invariance under random rotations, symmetries)
"""
import math
import torch

from common import Ctx
import wigner_exact as W

LEVEL = "proof"
TOL = 1e-14


def real_oracles(o3, l1, l2, l3):
    """numeric property oracles on the real code (float64): returns dict of deviations"""
    C = o3.wigner_3j(l1, l2, l3, dtype=torch.float64)
    out = {"norm_dev": abs(C.norm().item() - 1.0)}
    g = torch.Generator().manual_seed(12345)
    ang = (torch.rand(3, generator=g, dtype=torch.float64) * 6.0 - 3.0)
    D1, D2, D3 = (o3.wigner_D(l, ang[0], ang[1], ang[2]).to(torch.float64) for l in (l1, l2, l3))
    C2 = torch.einsum("ijk,il,jm,kn->lmn", C, D1, D2, D3)
    out["invariance_dev"] = (C2 - C).abs().max().item()
    out["cyclic_dev"] = (C - o3.wigner_3j(l2, l3, l1, dtype=torch.float64).permute(2, 0, 1)).abs().max().item()
    s = (-1) ** (l1 + l2 + l3)
    out["swap_dev"] = (C - s * o3.wigner_3j(l2, l1, l3, dtype=torch.float64).permute(1, 0, 2)).abs().max().item()
    return out


def run(ctx: Ctx):
    from e3nn import o3
    from e3nn.o3 import _wigner

    # ---- proof obligations ------------------------------------------------------------
    targets = ["E3nnVerif.Props.C04Main"]
    mods = ["E3nnVerif.Props.C04", "E3nnVerif.Props.C04Main", "E3nnVerif.Cert.W3jCore", "E3nnVerif.Cert.Gen"] + \
           [f"E3nnVerif.Cert.W3j.Core{i}" for i in range(8)]
    if ctx.tier == "thorough":
        ext = [f"E3nnVerif.Cert.W3j.Ext{i}" for i in range(16)]
        targets += ext
        mods += ext
    ok, out = ctx.lake_build(targets, timeout=7000)
    ctx.obligation("build:" + ",".join(targets[:2]), ok, out[-3000:])
    if ok:
        ctx.audit(mods)

    # ---- correspondence: tables ---------------------------------------------------------
    torch.set_default_dtype(torch.float32)  # the library default; tables requested in float64 explicitly
    lmax_all = 11 if ctx.tier == "thorough" else 4
    triples = W.admissible_triples(lmax_all)
    if ctx.tier == "quick":
        big = [t for t in W.admissible_triples(11) if max(t) > 4]
        triples += ctx.rng.sample(big, 40)
    gens = list(range(0, 12))
    lines = [f"w3j {a} {b} {c}" for (a, b, c) in triples] + [f"gen {l}" for l in gens]
    n_cert = 0
    if ctx.tier == "thorough":
        # decision procedures evaluated by the interpreter for the range the kernel does not certify
        certs = [t for t in W.admissible_triples(8) if max(t) > 5] + ctx.rng.sample([t for t in W.admissible_triples(11) if max(t) > 8], 24)
        lines += [f"cert {a} {b} {c}" for (a, b, c) in certs] + [f"gencert {l}" for l in range(6, 12)]
    outs = ctx.run_driver("C04", lines, timeout=7000)
    assert len(outs) == len(lines), (len(outs), len(lines))
    worst = 0.0
    for line, res in zip(lines, outs):
        if line.startswith("w3j"):
            (l1, l2, l3), imag0, ent = W.parse_w3j(res)
            try:
                C = o3.wigner_3j(l1, l2, l3, dtype=torch.float64)
            except Exception as e:  # the code rejects an admissible triple
                ctx.violation(f"wigner_3j/raises/{l1}_{l2}_{l3}", {"call": f"wigner_3j({l1},{l2},{l3})", "error": repr(e)}, True)
                continue
            ctx.case(f"w3j {l1} {l2} {l3} nnz={len(ent)}", nontrivial=len(ent) > 0)
            ctx.count(f"w3j lmax={max(l1, l2, l3)}")
            M = torch.zeros_like(C)
            for (i, j, k), v in ent.items():
                M[i, j, k] = W.val_float(v)
            dev = (C - M).abs().max().item() if C.numel() else 0.0
            worst = max(worst, dev)
            if not imag0:
                ctx.obligation(f"model:imag0:{l1}_{l2}_{l3}", False, "model has non-zero imaginary part")
            if dev > TOL or tuple(C.shape) != (2 * l1 + 1, 2 * l2 + 1, 2 * l3 + 1):
                idx = (C - M).abs().argmax().item()
                i, r = divmod(idx, (2 * l2 + 1) * (2 * l3 + 1))
                j, k = divmod(r, 2 * l3 + 1)
                ora = real_oracles(o3, l1, l2, l3)
                ctx.violation(f"wigner_3j/table/{l1}_{l2}_{l3}", {
                    "call": f"o3.wigner_3j({l1},{l2},{l3},dtype=float64)", "entry": [i, j, k],
                    "got": C[i, j, k].item(), "expected_standard_CG_real_basis": M[i, j, k].item(),
                    "max_abs_dev": dev, "oracles_on_real_tensor": ora,
                    "broken": "correspondence wigner_3j ↔ Model.Wigner.w3j (exact Racah model)"}, True)
        elif line.startswith("gen "):
            l, imag0, ent = W.parse_gen(res)
            X = o3.so3_generators(l).to(torch.float64)
            M = torch.zeros_like(X)
            for (a, i, j), v in ent.items():
                M[a, i, j] = W.val_float(v)
            dev = (X - M).abs().max().item()
            worst = max(worst, dev)
            ctx.case(f"gen {l}", nontrivial=l > 0)
            # so3_generators is computed in the default dtype (float32 here) unless ... : compare at its own precision
            tol = 1e-13 if o3.so3_generators(l).dtype == torch.float64 else 5e-6
            if dev > tol:
                ctx.violation(f"so3_generators/table/{l}", {"call": f"o3.so3_generators({l})", "max_abs_dev": dev}, True)
        elif line.startswith("cert"):
            p = res.split()
            n_cert += 1
            ctx.case(res)
            if p[-2:] != ["true", "true"]:
                ctx.obligation(f"interp-cert:{res}", False, "decision procedure false on the exact model")
        elif line.startswith("gencert"):
            if not res.endswith("true"):
                ctx.obligation(f"interp-cert:{res}", False, "")
    ctx.notes["max_table_deviation"] = worst
    ctx.notes["interpreter_evaluated_certs_beyond_kernel_range"] = n_cert

    # ---- generators in float64 default as well (C03 shares this) -------------------------
    torch.set_default_dtype(torch.float64)
    try:
        outs_g = {int(l.split()[1]): r for l, r in zip(lines, outs) if l.startswith("gen ")}
        for l, res in outs_g.items():
            _, _, ent = W.parse_gen(res)
            X = o3.so3_generators(l)
            M = torch.zeros_like(X)
            for (a, i, j), v in ent.items():
                M[a, i, j] = W.val_float(v)
            dev = (X - M).abs().max().item()
            ctx.case(f"gen64 {l}", nontrivial=l > 0)
            if dev > 1e-13:
                ctx.violation(f"so3_generators/table64/{l}", {"call": f"o3.so3_generators({l}) [default float64]", "max_abs_dev": dev}, True)
    finally:
        torch.set_default_dtype(torch.float32)

    # ---- property oracles on the real code for a sample (classification aid, also catches model≡code≡wrong) ----
    # (wigner_D builds its generators in the *default* dtype — C03's dtype clause — so the oracle runs under float64)
    torch.set_default_dtype(torch.float64)
    try:
        for (a, b, c) in ctx.rng.sample(W.admissible_triples(6), 12 if ctx.tier == "quick" else 60):
            ora = real_oracles(o3, a, b, c)
            ctx.case(f"oracle {a} {b} {c}")
            if max(ora.values()) > 1e-9:
                ctx.violation(f"wigner_3j/oracle/{a}_{b}_{c}", {"call": f"wigner_3j({a},{b},{c})", "oracles": ora}, True)
    finally:
        torch.set_default_dtype(torch.float32)

    # ---- history stream: fresh contiguous copies ---------------------------------------
    n_hist = 30 if ctx.tier == "quick" else 400
    ref = {}

    def table(t, dtype):
        key = (t, dtype)
        if key not in ref:
            # reference from a pristine computation path: the exact model where available, else first call copy
            ref[key] = o3.wigner_3j(*t, dtype=dtype).clone()
        return ref[key]

    small = W.admissible_triples(3)
    # references are taken BEFORE any mutation and validated against the model above (float64)
    for t in small:
        table(t, torch.float64)
        table(t, torch.float32)
    # deterministic sweep: call, mutate the result in place, call again — every small triple × both dtypes × default dtype
    for t in small:
        for dt in (torch.float64, torch.float32, None):
            kw = {} if dt is None else {"dtype": dt}
            a = o3.wigner_3j(*t, **kw)
            want = table(t, a.dtype)
            a.mul_(3.0).add_(1.0)
            b = o3.wigner_3j(*t, **kw)
            ctx.case(f"call-mutate-call {t} {dt}", nontrivial=True, sample_every=60)
            ctx.traces += 1
            if not torch.equal(b, want) or b.data_ptr() == a.data_ptr() or not b.is_contiguous():
                ctx.violation("wigner_3j/history/stale-or-shared", {"history": [f"call{t}{dt}", "mul_(3).add_(1)", f"call{t}{dt}"],
                              "equal_to_pristine": bool(torch.equal(b, want)), "fresh_storage": b.data_ptr() != a.data_ptr()}, True)
                return
    import extra_oracles
    extra_oracles.c04_device_spellings(ctx, o3, [(0, 0, 0), (1, 1, 1), (1, 2, 1), (2, 3, 4), (3, 2, 4)])
    if ctx.violations:
        return
    for h in range(n_hist):
        pool = ctx.rng.sample(small, 3)   # few triples per history so that repeated calls of the same triple are frequent
        handles = []
        hist = []
        for stepi in range(ctx.rng.randint(2, 10)):
            op = ctx.rng.choice(["call", "call", "mutate", "mutate", "module", "call_default"])
            if op == "call" or not handles and op == "mutate":
                t = ctx.rng.choice(pool)
                dt = ctx.rng.choice([torch.float64, torch.float32])
                C = o3.wigner_3j(*t, dtype=dt)
                hist.append(f"call{t}{str(dt)[6:]}")
                okc = C.is_contiguous() and C.dtype == dt and torch.equal(C, table(t, dt))
                fresh = all(C.data_ptr() != hh.data_ptr() for hh in handles)
                if not (okc and fresh):
                    ctx.violation("wigner_3j/history/stale-or-shared", {"history": hist, "contiguous": C.is_contiguous(),
                                  "dtype": str(C.dtype), "equal_to_pristine": bool(torch.equal(C, table(t, dt))), "fresh_storage": fresh}, True)
                    return
                handles.append(C)
            elif op == "call_default":
                t = ctx.rng.choice(pool)
                C = o3.wigner_3j(*t)
                hist.append(f"call_default{t}")
                if C.dtype != torch.get_default_dtype() or not torch.equal(C, table(t, C.dtype)):
                    ctx.violation("wigner_3j/history/default-dtype", {"history": hist, "dtype": str(C.dtype)}, True)
                    return
                handles.append(C)
            elif op == "mutate":
                C = ctx.rng.choice(handles)
                m = ctx.rng.choice(["zero_", "mul_", "add_", "fill_", "neg_", "copy_"])
                hist.append(m)
                if m == "zero_":
                    C.zero_()
                elif m == "mul_":
                    C.mul_(3.0)
                elif m == "add_":
                    C.add_(1.0)
                elif m == "fill_":
                    C.fill_(7.0)
                elif m == "neg_":
                    C.neg_()
                else:
                    C.copy_(torch.ones_like(C))
            else:
                # kernels built afterwards must see pristine coefficients
                t = ctx.rng.choice([t for t in small if t[0] <= 2 and t[1] <= 2 and t[2] <= 2])
                l1, l2, l3 = t
                hist.append(f"module{t}")
                try:
                    tp = o3.FullyConnectedTensorProduct(f"1x{l1}e", f"1x{l2}e", f"1x{l3}e", shared_weights=True, internal_weights=False)
                    x = torch.eye(2 * l1 + 1, dtype=torch.float32)[:, None, :].expand(-1, 2 * l2 + 1, -1).reshape(-1, 2 * l1 + 1)
                    y = torch.eye(2 * l2 + 1, dtype=torch.float32)[None, :, :].expand(2 * l1 + 1, -1, -1).reshape(-1, 2 * l2 + 1)
                    out = tp(x, y, torch.ones(1)).reshape(2 * l1 + 1, 2 * l2 + 1, 2 * l3 + 1)
                    expect = table(t, torch.float32) * math.sqrt(2 * l3 + 1)
                    if (out - expect).abs().max().item() > 1e-5:
                        ctx.violation("wigner_3j/history/module-built-from-mutated-table", {"history": hist, "dev": (out - expect).abs().max().item()}, True)
                        return
                except Exception as e:
                    ctx.violation("wigner_3j/history/module-construction-raises", {"history": hist, "error": repr(e)}, True)
                    return
        ctx.traces += 1
        ctx.case("history " + " ".join(hist), sample_every=50)
        ctx.count(f"history len={len(hist)}")

    import extra_oracles as _xo

    _xo.api_history_and_dtype(ctx, "C04")

    ctx.notes["rule"] = ("tables: every admissible triple with l ≤ %d (+ seeded sample up to 11 in quick) and so3 generators l ≤ 11, every entry compared; "
                         "histories: seeded op sequences over call/mutate/module-construction; a case is non-trivial when the table has non-zero entries") % lmax_all
    ctx.assumptions += [
        "torch.matrix_exp is the matrix exponential (wigner_D is modelled as eulerD of the certified generators)",
        "float rounding: code tables equal the exact model to ≤ 1e-14 (checked per entry each run), theorems are about the exact tables",
        "kernel-certified range: degrees ≤ 3 (setup) / ≤ 5 (thorough); beyond: exact decision procedure run by the interpreter (not a proof) and numeric oracles",
        "uniqueness of the invariant tensor is representation theory, not a statement about the code: not an obligation",
    ]
    ctx.trusted += ["hand-written exact model Model/Wigner.lean tied to e3nn by per-entry correspondence (this run)",
                    "Mathlib v4.33.0 (matrix exponential, calculus)"]
