import E3nnVerif.Model.Pointwise
/-
Line-protocol driver of C09 (pointwise layers).  One op per stdin line, fields separated by `|`.
  irreps   : `mul,l,p;mul,l,p;…` with p ∈ {e,o}; the empty irreps is `_`
  floats   : IEEE-754 bit patterns as decimal UInt64, space separated; `-` = no forward requested
  acts     : `;`-separated entries `-` (None) or `name:cstbits:isId:det` with det ∈ {E,O,N,B}
Output: `<constructor part> # <forward part>`; see harness/c09.py for the reader.
-/
open E3nnVerif E3nnVerif.Pointwise

def splitNE (s : String) (sep : String) : List String := (s.splitOn sep).filter (· ≠ "")

def parseNat (s : String) : Nat := s.trimAscii.toString.toNat?.getD 0

def parseIrreps (s : String) : Irreps :=
  if s.trimAscii.toString == "_" then [] else
  (splitNE s ";").map fun e =>
    match e.splitOn "," with
    | [m, l, p] => (parseNat m, parseNat l, p.trimAscii.toString == "o")
    | _ => (0, 0, false)

def showIrreps (irr : Irreps) : String :=
  if irr.isEmpty then "_" else
  ";".intercalate (irr.map fun (m, l, p) => s!"{m},{l},{if p then "o" else "e"}")

def parseFloats (s : String) : List Float :=
  if s.trimAscii.toString == "_" then [] else
  (splitNE s " ").map fun t => Float.ofBits (UInt64.ofNat (parseNat t))

def showFloats (x : List Float) : String :=
  if x.isEmpty then "_" else " ".intercalate (x.map fun f => toString f.toBits.toNat)

def sigmoidF (x : Float) : Float := 1.0 / (1.0 + Float.exp (-x))

def fnTable (name : String) : Float → Float :=
  match name with
  | "abs" => Float.abs
  | "sq" => fun x => x * x
  | "cos" => Float.cos
  | "tanh" => Float.tanh
  | "sin" => Float.sin
  | "cube" => fun x => x * x * x
  | "relu" => fun x => if x < 0.0 then 0.0 else x
  | "sigmoid" => sigmoidF
  | "silu" => fun x => x * sigmoidF x
  | "exp" => Float.exp
  | "wit" => fun x => x * x + 0.01 * Float.sin (25.5 * 3.141592653589793 * x)
  | _ => id

def parseDet (s : String) : Detect :=
  match s with
  | "E" => ⟨true, false⟩ | "O" => ⟨false, true⟩ | "B" => ⟨true, true⟩ | _ => ⟨false, false⟩

def parseActs (s : String) : List (Option (Act Float × Detect)) :=
  if s.trimAscii.toString == "_" then [] else
  (splitNE s ";").map fun e =>
    match e.splitOn ":" with
    | [name, cst, isId, det] =>
      some ({ f := fnTable name, cst := Float.ofBits (UInt64.ofNat (parseNat cst)), isId := isId == "1" },
            parseDet det)
    | _ => none

def showErr (e : Err) : String := "error:" ++ e.name

def showFwd (r : Except Err (List Float)) : String :=
  match r with
  | .ok y => "ok " ++ showFloats y
  | .error e => showErr e

def showNats (l : List Nat) : String := if l.isEmpty then "_" else ",".intercalate (l.map toString)
def parseNats (s : String) : List Nat :=
  if s.trimAscii.toString == "_" then [] else (splitNE s ",").map parseNat
def parseList {α} (f : String → α) (s : String) : List α := (splitNE s "/").map f
def showList {α} (f : α → String) (l : List α) : String := "/".intercalate (l.map f)

def handle (line : String) : String :=
  match line.splitOn "|" with
  | ["ACT", irr, acts, x] =>
    let irr := parseIrreps irr
    let acts := parseActs acts
    let c := activationCtor irr (acts.map (·.map (·.2)))
    let cs := match c with | .ok o => "ok|" ++ showIrreps o | .error e => showErr e
    let fs := if x.trimAscii.toString == "-" then "-" else
      showFwd (activationFwd irr (acts.map (·.map (·.1))) (parseFloats x))
    cs ++ " # " ++ fs
  | ["GATE", irrS, actS, irrG, actG, irrY, x] =>
    let irrS := parseIrreps irrS
    let irrG := parseIrreps irrG
    let irrY := parseIrreps irrY
    let actS := parseActs actS
    let actG := parseActs actG
    let c := gateCtor irrS (actS.map (·.map (·.2))) irrG (actG.map (·.map (·.2))) irrY
    let cs := match c with
      | .ok g => "ok|" ++ showIrreps g.irrepsIn ++ "|" ++ showIrreps g.irrepsOut ++ "|"
          ++ showList showNats g.sc.instructions ++ "|" ++ showList showIrreps g.sc.outs
          ++ "|" ++ showIrreps g.sc.sorted
      | .error e => showErr e
    let fs := if x.trimAscii.toString == "-" then "-" else
      showFwd (gateFwd irrS (actS.map (·.map (·.1))) irrG (actG.map (·.map (·.1))) irrY (parseFloats x))
    cs ++ " # " ++ fs
  | ["NACT", irr, fn, normalize, eps, bias, isStr, x] =>
    let irr := parseIrreps irr
    let normalize := normalize == "1"
    let eps : Option Float := if eps == "N" then none else some (Float.ofBits (UInt64.ofNat (parseNat eps)))
    let bias : Option (List Float) := if bias == "-" then none else some (parseFloats bias)
    let c := normActCtor normalize eps bias.isSome (isStr == "1")
    let cs := match c with
      | .ok (some e) => "ok|" ++ toString e.toBits.toNat
      | .ok none => "ok|N"
      | .error e => showErr e
    let stored := match c with | .ok r => r | .error _ => eps
    let fs := if x.trimAscii.toString == "-" then "-" else
      showFwd (normActFwd irr (fnTable fn) normalize stored bias (parseFloats x))
    cs ++ " # " ++ fs
  | ["NORM", irr, squared, x] =>
    let irr := parseIrreps irr
    let cs := "ok|" ++ showIrreps (normIrrepsIn irr) ++ "|" ++ showIrreps (normIrrepsOut irr)
    let fs := if x.trimAscii.toString == "-" then "-" else
      showFwd (normFwd irr (squared == "1") (parseFloats x))
    cs ++ " # " ++ fs
  | ["EXTRACT", irr, outs, ins, x] =>
    let irr := parseIrreps irr
    let outs := parseList parseIrreps outs
    let ins := parseList parseNats ins
    let cs := match extractCtor irr outs ins with | .ok _ => "ok" | .error e => showErr e
    let fs := if x.trimAscii.toString == "-" then "-" else
      match extractFwd irr outs ins (parseFloats x) with
      | .ok ys => "ok " ++ showList showFloats ys
      | .error e => showErr e
    cs ++ " # " ++ fs
  | ["EXTRACTIR", irr, ir, x] =>
    let irr := parseIrreps irr
    let ir : Ir := match ir.splitOn "," with
      | [l, p] => (parseNat l, p.trimAscii.toString == "o")
      | _ => (0, false)
    let cs := "ok|" ++ showIrreps (extractIrOut irr ir) ++ "|" ++ showNats (extractIrIns irr ir)
    let fs := if x.trimAscii.toString == "-" then "-" else showFwd (extractIrFwd irr ir (parseFloats x))
    cs ++ " # " ++ fs
  | ["IDENT", a, b, x] =>
    let cs := match identityCtor (parseIrreps a) (parseIrreps b) with
      | .ok r => "ok|" ++ showIrreps r
      | .error e => showErr e
    let fs := if x.trimAscii.toString == "-" then "-" else showFwd (.ok (identityFwd (parseFloats x)))
    cs ++ " # " ++ fs
  | _ => "error:parse"

partial def loop (h : IO.FS.Stream) (out : IO.FS.Stream) : IO Unit := do
  let line ← h.getLine
  if line.isEmpty then return
  let l := (line.dropEndWhile (fun c => c == '\n' || c == '\r')).toString
  out.putStrLn (handle l)
  loop h out

def main : IO Unit := do
  let stdin ← IO.getStdin
  let stdout ← IO.getStdout
  loop stdin stdout
