import E3nnVerif.Model.WignerChecks
/-
Line protocol for C04/C03 (exact Wigner model):
  w3j l1 l2 l3     -> "w3j l1 l2 l3 imag0=<bool> | i j k n d r [+ n d r ...] ; ..."   (non-zero entries, value Σ (n/d)·√r)
  gen l            -> "gen l imag0=<bool> | a i j n d r ; ..."
  cert l1 l2 l3    -> "cert l1 l2 l3 <w3jCert> <w3jSymCert>"    (decision procedures run by the interpreter: evidence, not proof)
  gencert l        -> "gencert l <genCert>"
-/
open E3nnVerif.Model.Wigner E3nnVerif.Exact

def showS (s : SqrtQ) : String :=
  " + ".intercalate (s.map fun t => s!"{t.2.n} {t.2.den} {t.1}")

def doW3j (l1 l2 l3 : Nat) : String := Id.run do
  let t := w3j l1 l2 l3
  let mut parts : Array String := #[]
  for i in List.range (2*l1+1) do
    for j in List.range (2*l2+1) do
      for k in List.range (2*l3+1) do
        let v := t.get i j k
        if !v.isZero then parts := parts.push s!"{i} {j} {k} {showS v}"
  return s!"w3j {l1} {l2} {l3} imag0={w3jImagZero l1 l2 l3} | " ++ " ; ".intercalate parts.toList

def doGen (l : Nat) : String := Id.run do
  let mut parts : Array String := #[]
  for a in [0, 1, 2] do
    let m := so3Gen l a
    for i in List.range (2*l+1) do
      for j in List.range (2*l+1) do
        let v := m.get i j
        if !v.isZero then parts := parts.push s!"{a} {i} {j} {showS v}"
  let im := so3GenImagZero l 0 && so3GenImagZero l 1 && so3GenImagZero l 2
  return s!"gen {l} imag0={im} | " ++ " ; ".intercalate parts.toList

def step (line : String) : String :=
  match line.trimAscii.toString.splitOn " " with
  | ["w3j", a, b, c] =>
    match a.toNat?, b.toNat?, c.toNat? with
    | some a, some b, some c => doW3j a b c
    | _, _, _ => "bad-op"
  | ["gen", l] => match l.toNat? with | some l => doGen l | none => "bad-op"
  | ["cert", a, b, c] =>
    match a.toNat?, b.toNat?, c.toNat? with
    | some a, some b, some c => s!"cert {a} {b} {c} {w3jCert a b c} {w3jSymCert a b c}"
    | _, _, _ => "bad-op"
  | ["gencert", l] => match l.toNat? with | some l => s!"gencert {l} {genCert l}" | none => "bad-op"
  | _ => "bad-op"

partial def loop (h : IO.FS.Stream) : IO Unit := do
  let line ← h.getLine
  if line.isEmpty then return ()
  IO.println (step line)
  loop h

def main : IO Unit := do loop (← IO.getStdin)
