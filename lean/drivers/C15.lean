/-
Line-protocol driver for property C15 (typed dataflow IR of the point-cloud models).

One request per input line, one answer line per request.

  prog <name>                       start a new program                       -> `prog <name>`
  <instruction>                     append one instruction and type it        -> `ok <var> <shape> <irreps> <tc> <loc>`
                                                                               | `illtyped <var>` | `skipped` | `parse-error`
  end                               run `check` on the whole program          -> `check ok <n>` | `check fail <index>`
  rg <r2num> <r2den> <pts>          exact radius graph on integer points      -> `rg idx=<pairs> pos=<pairs>`
                                    pts = `x,y,z,b;x,y,z,b;...` (`-` = none)

Instructions
  input <id> <shape> <irreps> <tc> <loc>      shape ∈ node|edge|graph|glob, tc ∈ inv|pos|diff, loc ∈ 0|1
  gatherSrc x | gatherDst x | sub x y | add x y | scatterDst x | scatterBatch x | reduceAll x
  bcast <shape> x | cat <d1> x y | mul s x | scale <cname> x
  mapInv <name> <outDim> <args>               args = `a,b,c` (`-` = none)
  prim <name> <ins> <out> <args>              ins = irreps separated by `;` (`_` = no input)
Irreps: `-` (empty) or `mul.l.p,mul.l.p,...` with p ∈ {e,o}.
-/
import E3nnVerif.Model.Dataflow
open E3nnVerif.Model.Irreps (Irreps Irrep MulIr Parity)
open E3nnVerif.Dataflow

def encP (p : Parity) : String := match p with | .odd => "o" | .even => "e"
def encIrreps (x : Irreps) : String :=
  if x.isEmpty then "-" else ",".intercalate (x.map fun e => s!"{e.1}.{e.2.l}.{encP e.2.p}")
def encShape : Shape → String
  | .node => "node" | .edge => "edge" | .graph => "graph" | .glob => "glob"
def encTc : TClass → String
  | .inv => "inv" | .pos => "pos" | .diff => "diff"
def encTy (τ : Ty) : String :=
  s!"{encShape τ.shape} {encIrreps τ.irreps} {encTc τ.tc} {if τ.loc then "1" else "0"}"

def decP (s : String) : Option Parity := if s == "e" then some .even else if s == "o" then some .odd else none
def decMulIr (s : String) : Option MulIr :=
  match s.splitOn "." with
  | [m, l, p] => do some (← m.toNat?, ⟨← l.toNat?, ← decP p⟩)
  | _ => none
def decIrreps (s : String) : Option Irreps := if s == "-" then some [] else (s.splitOn ",").mapM decMulIr
def decIrrepsList (s : String) : Option (List Irreps) := if s == "_" then some [] else (s.splitOn ";").mapM decIrreps
def decShape (s : String) : Option Shape :=
  if s == "node" then some .node else if s == "edge" then some .edge else if s == "graph" then some .graph
  else if s == "glob" then some .glob else none
def decTc (s : String) : Option TClass :=
  if s == "inv" then some .inv else if s == "pos" then some .pos else if s == "diff" then some .diff else none
def decBool (s : String) : Option Bool := if s == "1" then some true else if s == "0" then some false else none
def decVars (s : String) : Option (List Nat) := if s == "-" then some [] else (s.splitOn ",").mapM String.toNat?

def decInstr : List String → Option Instr
  | ["input", id, sh, ir, tc, loc] => do
    some (.input (← id.toNat?) ⟨← decShape sh, ← decIrreps ir, ← decTc tc, ← decBool loc⟩)
  | ["gatherSrc", x] => do some (.gatherSrc (← x.toNat?))
  | ["gatherDst", x] => do some (.gatherDst (← x.toNat?))
  | ["sub", x, y] => do some (.sub (← x.toNat?) (← y.toNat?))
  | ["add", x, y] => do some (.add (← x.toNat?) (← y.toNat?))
  | ["scatterDst", x] => do some (.scatterDst (← x.toNat?))
  | ["scatterBatch", x] => do some (.scatterBatch (← x.toNat?))
  | ["reduceAll", x] => do some (.reduceAll (← x.toNat?))
  | ["bcast", sh, x] => do some (.bcast (← decShape sh) (← x.toNat?))
  | ["cat", d, x, y] => do some (.cat (← d.toNat?) (← x.toNat?) (← y.toNat?))
  | ["mul", s, x] => do some (.mul (← s.toNat?) (← x.toNat?))
  | ["scale", c, x] => do some (.scale c (← x.toNat?))
  | ["mapInv", name, n, args] => do some (.mapInv name (← n.toNat?) (← decVars args))
  | ["prim", name, ins, out, args] => do
    some (.prim name (← decIrrepsList ins) (← decIrreps out) (← decVars args))
  | _ => none

def decPt (s : String) : Option (Pt × Nat) :=
  match s.splitOn "," with
  | [x, y, z, b] => do some ((← x.toInt?, ← y.toInt?, ← z.toInt?), ← b.toNat?)
  | _ => none

def encPairs (l : List (Nat × Nat)) : String :=
  if l.isEmpty then "-" else ",".intercalate (l.map fun p => s!"{p.1}-{p.2}")

structure St where
  prog : List Instr := []          -- reversed
  tys : Option (List Ty) := some []

def handle (st : St) (line : String) : St × String :=
  match line.splitOn " " with
  | ["prog", name] => ({}, s!"prog {name}")
  | ["end"] =>
    let p := st.prog.reverse
    match check p with
    | some tys => (st, s!"check ok {tys.length}")
    | none =>
      match firstError [] p with
      | some (k, _) => (st, s!"check fail {k}")
      | none => (st, "check fail ?")
  | ["rg", n, d, pts] =>
    match n.toNat?, d.toNat?, (if pts == "-" then some [] else (pts.splitOn ";").mapM decPt) with
    | some n, some d, some pts =>
      (st, s!"rg idx={encPairs (radiusGraph pts n d)} pos={encPairs (radiusGraphPosDist pts n d)}")
    | _, _, _ => (st, "parse-error")
  | toks =>
    match decInstr toks with
    | none => (st, "parse-error")
    | some i =>
      let st' := { st with prog := i :: st.prog }
      match st.tys with
      | none => (st', "skipped")
      | some tys =>
        match i.type tys with
        | some τ => ({ st' with tys := some (tys ++ [τ]) }, s!"ok {tys.length} {encTy τ}")
        | none => ({ st' with tys := none }, s!"illtyped {tys.length}")

partial def loop (h : IO.FS.Stream) (out : IO.FS.Stream) (st : St) : IO Unit := do
  let line ← h.getLine
  if line.isEmpty then return
  let line := String.ofList (line.toList.reverse.dropWhile (fun c => c == '\n' || c == '\r' || c == ' ')).reverse
  if line.isEmpty then
    out.putStrLn ""
    loop h out st
  else
    let (st', ans) := handle st line
    out.putStrLn ans
    loop h out st'

def main : IO Unit := do
  let stdin ← IO.getStdin
  let stdout ← IO.getStdout
  loop stdin stdout {}
  stdout.flush
