import E3nnVerif.Model.SphericalTensor
/-
Line protocol driver for C18 (Float instance of the `SphericalTensor` model).
Floats travel as the decimal value of their IEEE-754 bit pattern; integers in decimal.

  irreps <lmax> <pv> <pa>                  -> ok <irreps|-> dim=<d> lmax=<l|error:..> sh=<ok|error:..>   | error:ValueError
  norms  <lmax> <pv> <pa> <f>...           -> ok <f>...            (one per irrep)
  sxyz   <lmax> <pv> <pa> <n> <c>*n <x> <y> <z>            -> ok <f> | error:<Exc>
  diracs <lmax> <pv> <pa> <N> <xyz>*N <v>*N                -> ok <f>*dim | error:<Exc>
  peaks  <lmax> <pv> <pa> <hasvals> <N> <xyz>*N [<v>*N]    -> ok <f>*dim | error:<Exc>
  interp <N> <n> <num/den>*(N*n) <num/den>*N               -> ok <f>*n | error:<Exc>      (withPeaksAtCore + gaussSolve)
  grid   <lmax> <res>                                      -> ok <rb> <ra> <f>*(3*rb*ra) | error:<Exc>

The harmonics `Y` are a parameter of the model; for the ops that need them the driver plugs in the polynomial
formulas of `_spherical_harmonics.py` for l <= 3 ('integral' normalisation) — a driver-side stand-in (property C05
owns them), itself compared with `o3.spherical_harmonics` through `sxyz` on unit coefficient vectors.
`lstsq` is instantiated with the model's `gaussSolve`.
-/
open E3nnVerif E3nnVerif.Rotation E3nnVerif.SphericalTensor

def fbits (x : Float) : String := toString x.toBits.toNat
def okLine (xs : List Float) : String := " ".intercalate ("ok" :: xs.map fbits)
def ofBitsS (s : String) : Option Float := s.toNat?.map fun n => Float.ofBits (UInt64.ofNat n)

/-- `_spherical_harmonics(lmax, x, y, z) / sqrt(4 pi)` for lmax <= 3 (empty list above) -/
def shY (lmax : Nat) (v : Vec3 Float) : List Float :=
  let x := v.x; let y := v.y; let z := v.z
  let n := Float.sqrt (4.0 * 3.141592653589793)
  let l0 := [1.0]
  let l1 := [Float.sqrt 3 * x, Float.sqrt 3 * y, Float.sqrt 3 * z]
  let sh20 := Float.sqrt 15 * x * z
  let sh21 := Float.sqrt 15 * x * y
  let y2 := y * y
  let x2z2 := x * x + z * z
  let sh22 := Float.sqrt 5 * (y2 - (1 / 2) * x2z2)
  let sh23 := Float.sqrt 15 * y * z
  let sh24 := (1 / 2) * Float.sqrt 15 * (z * z - x * x)
  let l2 := [sh20, sh21, sh22, sh23, sh24]
  let l3 := [(1 / 6) * Float.sqrt 42 * (sh20 * z + sh24 * x),
             Float.sqrt 7 * sh20 * y,
             (1 / 8) * Float.sqrt 168 * (4.0 * y2 - x2z2) * x,
             (1 / 2) * Float.sqrt 7 * y * (2.0 * y2 - 3.0 * x2z2),
             (1 / 8) * Float.sqrt 168 * z * (4.0 * y2 - x2z2),
             Float.sqrt 7 * sh24 * y,
             (1 / 6) * Float.sqrt 42 * (sh24 * z - sh20 * x)]
  let all := match lmax with
    | 0 => l0
    | 1 => l0 ++ l1
    | 2 => l0 ++ l1 ++ l2
    | 3 => l0 ++ l1 ++ l2 ++ l3
    | _ => []
  all.map (· / n)

def showIr (ir : MulIr) : String :=
  s!"{ir.1}.{ir.2.1}.{if ir.2.2 == 1 then "e" else "o"}"

def showExc {α : Type} (f : α → String) : Except String α → String
  | .ok a => f a
  | .error e => "error:" ++ e

def vecs : List Float → List (Vec3 Float)
  | x :: y :: z :: rest => ⟨x, y, z⟩ :: vecs rest
  | _ => []

def parseRat (s : String) : Option Float :=
  match s.splitOn "/" with
  | [a, b] => match a.toInt?, b.toNat? with
    | some n, some d => some (Scalar.ofFrac n d)
    | _, _ => none
  | _ => none

def chunk (n : Nat) : Nat → List Float → List (List Float)
  | 0, _ => []
  | k + 1, l => l.take n :: chunk n k (l.drop n)

def handleF (op : String) (ints : List Int) (fl : List Float) : String :=
  match op, ints with
  | "norms", [lmax, pv, pa] =>
    match irreps lmax pv pa with
    | .error e => "error:" ++ e
    | .ok irs => okLine (norms irs fl)
  | "sxyz", [lmax, pv, pa, n] =>
    match irreps lmax pv pa with
    | .error e => "error:" ++ e
    | .ok irs =>
      let c := fl.take n.toNat
      match fl.drop n.toNat with
      | [x, y, z] => showExc (fun v => okLine [v]) (signalXyz (shY lmax.toNat) irs c ⟨x, y, z⟩)
      | _ => "error:bad-op"
  | "diracs", [lmax, pv, pa, N] =>
    match irreps lmax pv pa with
    | .error e => "error:" ++ e
    | .ok irs =>
      let N := N.toNat
      let pos := vecs (fl.take (3 * N))
      let vals := fl.drop (3 * N)
      if vals.length ≠ N then "error:bad-op"
      else showExc okLine (sumOfDiracs (shY lmax.toNat) irs pos vals)
  | "peaks", [lmax, pv, pa, hv, N] =>
    match irreps lmax pv pa with
    | .error e => "error:" ++ e
    | .ok irs =>
      let N := N.toNat
      let pos := vecs (fl.take (3 * N))
      let vals := fl.drop (3 * N)
      if hv = 1 ∧ vals.length ≠ N then "error:bad-op"
      else showExc okLine (withPeaksAt (shY lmax.toNat) gaussSolve irs pos (if hv = 1 then some vals else none))
  | _, _ => "error:bad-op"

def handle (toks : List String) : String :=
  match toks with
  | ["irreps", lmax, pv, pa] =>
    match lmax.toInt?, pv.toInt?, pa.toInt? with
    | some lmax, some pv, some pa =>
      match irreps lmax pv pa with
      | .error e => "error:" ++ e
      | .ok irs =>
        let s := if irs.isEmpty then "-" else ",".intercalate (irs.map showIr)
        s!"ok {s} dim={dimOf irs} lmax={showExc toString (lmaxOf irs)} sh={showExc (fun _ => "ok") (shGuard irs)}"
    | _, _, _ => "error:bad-op"
  | ["grid", lmax, res] =>
    match lmax.toNat?, res.toNat? with
    | some lmax, some res =>
      match completeRes lmax res with
      | .error e => "error:" ++ e
      | .ok (rb, ra) =>
        let pts : List (List (Vec3 Float)) := s2GridPoints rb ra
        s!"ok {rb} {ra} " ++ " ".intercalate ((pts.flatten.flatMap fun v => [v.x, v.y, v.z]).map fbits)
    | _, _ => "error:bad-op"
  | "interp" :: N :: n :: rest =>
    match N.toNat?, n.toNat?, rest.mapM parseRat with
    | some N, some n, some fl =>
      if fl.length ≠ N * n + N then "error:bad-op"
      else
        let coeff := chunk n N (fl.take (N * n))
        let vals := fl.drop (N * n)
        showExc okLine (withPeaksAtCore gaussSolve n coeff vals)
    | _, _, _ => "error:bad-op"
  | op :: args =>
    let nInts := match op with
      | "norms" => 3 | "sxyz" => 4 | "diracs" => 4 | "peaks" => 5 | _ => 0
    if nInts = 0 then "error:bad-op"
    else
      match (args.take nInts).mapM String.toInt?, (args.drop nInts).mapM ofBitsS with
      | some ints, some fl => handleF op ints fl
      | _, _ => "error:bad-op"
  | [] => "error:bad-op"

partial def loop (hin hout : IO.FS.Stream) : IO Unit := do
  let line ← hin.getLine
  if line.isEmpty then return
  let l := String.ofList (line.toList.filter fun c => c != '\n' && c != '\r')
  if l.isEmpty then loop hin hout
  else
    hout.putStrLn (handle ((l.splitOn " ").filter (· ≠ "")))
    loop hin hout

def main : IO Unit := do
  let hin ← IO.getStdin
  let hout ← IO.getStdout
  loop hin hout
  hout.flush
