import E3nnVerif.Model.TestHelpers
/-
Line protocol driver for C20 (models of e3nn/util/test.py, e3nn/util/_argtools.py).
float64 values travel as the decimal value of their bit pattern (never as text).

  wrap <code|fixed> <tensor|list|tuple> <m> <nOut>                  -> ok | assertLen | attrError
  nweight <numWeights> <none|k>                                     -> <k> | error:AssertionError
  cases <doParity> <hasCart> <doTranslation>                        -> k:t k:t ...
  norm <code|spec> <component|norm> <nInput> <atol> <nOuts> { skip | irreps <nb> (<mul> <l>)*nb <ncomp> <nbatch> <sum>*(ncomp*nbatch) }*
                                                                    -> pass|fail:<o>:<i> ; o:i:<err> ...   (logged errors)
  eqerr <doParity> <hasCart> <doTranslation> <nOut> <ntrials> <bot> <tol> { <len> <e>*len }*(ntrials*ncases)
                                                                    -> error:AssertionError | <outcome> ; k:t:<e>,<e> ...
  ri <n> <lmax> <mulMin> <mulMax> <lenMin> <lenMax> <clean> <allowEmpty> <oracle nat>*
                                                                    -> error:AssertionError | error:ValueError | ok T:mul,l,p;... | ...
  io <givenIn> <givenOut> <attrIn|noattr> <hasIn12> <attrOut|noattr> -> error:ValueError | in=<..> out=<..> warn=<0|1>
-/
open E3nnVerif.TestHelpers

def fbits (x : Float) : String := toString x.toBits.toNat
def ofBitsNat (n : Nat) : Float := Float.ofBits (UInt64.ofNat n)

def parseBool (s : String) : Bool := s == "1" || s == "true" || s == "True"

def toNats (ts : List String) : Option (List Nat) := ts.mapM (·.toNat?)
def toInts (ts : List String) : Option (List Int) := ts.mapM (·.toInt?)

def showOutcome : OutsOutcome → String
  | .ok => "ok"
  | .assertLen => "assertLen"
  | .attrError => "attrError"

def showCases (cs : List (Nat × Bool)) : String :=
  " ".intercalate (cs.map (fun c => s!"{c.1}:{if c.2 then "T" else "F"}"))

/-- split `k` items off the front -/
def takeN {α : Type} (k : Nat) (l : List α) : Option (List α × List α) :=
  if l.length < k then none else some (l.take k, l.drop k)

/-- parse one output spec of the `norm` op -/
def parseOut : List Nat → Option ((OutSpec × List (List Float)) × List Nat)
  | 0 :: rest => some ((.skip, []), rest)
  | 1 :: nb :: rest => do
      let (bl, rest) ← takeN (2 * nb) rest
      let rec pairs : List Nat → List (Nat × Nat)
        | a :: b :: r => (a, b) :: pairs r
        | _ => []
      match rest with
      | ncomp :: nbatch :: rest =>
        let (vals, rest) ← takeN (ncomp * nbatch) rest
        let rec chunk (fuel : Nat) (l : List Nat) : List (List Float) :=
          match fuel with
          | 0 => []
          | f + 1 => (l.take nbatch).map ofBitsNat :: chunk f (l.drop nbatch)
        some ((.irreps (pairs bl), chunk ncomp vals), rest)
      | _ => none
  | _ => none

def parseOuts : Nat → List Nat → Option (List (OutSpec × List (List Float)))
  | 0, [] => some []
  | 0, _ => none
  | k + 1, l => do
      let (o, rest) ← parseOut l
      let os ← parseOuts k rest
      some (o :: os)

/-- the errors the code logs: every non-empty irrep until (and including) the first failure -/
def logged (target : Nat → Float) (atol : Float) (n : Nat) :
    List (OutSpec × List (List Float)) → Nat → List String
  | [], _ => []
  | (.skip, _) :: rest, o => logged target atol n rest (o + 1)
  | (.irreps blocks, comps) :: rest, o =>
      let errs := irrepErrors target blocks (comps.map (runMean n))
      let stop := firstFailure atol errs 0
      let idx := (List.range errs.length).zip errs
      let shown := idx.filterMap (fun (i, e) =>
        match e, stop with
        | some x, some s => if i ≤ s then some s!"{o}:{i}:{fbits x}" else none
        | some x, none => some s!"{o}:{i}:{fbits x}"
        | none, _ => none)
      match stop with
      | some _ => shown
      | none => shown ++ logged target atol n rest (o + 1)

def parseVecs : Nat → List Nat → Option (List (List Float))
  | 0, [] => some []
  | 0, _ => none
  | k + 1, len :: rest => do
      let (v, rest) ← takeN len rest
      let vs ← parseVecs k rest
      some (v.map ofBitsNat :: vs)
  | _, _ => none

def showAssert : AssertOutcome → String
  | .pass => "pass"
  | .assertionError => "assertionError"
  | .runtimeError => "runtimeError"

def parseElems (s : String) : List IOElem :=
  s.toList.filterMap (fun ch => if ch == 'i' then some .irreps else if ch == 'c' then some .cartesian
    else if ch == 'n' then some .none else none)

def parseSpec (s : String) : Option IOSpec :=
  if s == "absent" then some .absent
  else if s == "irreps" then some .irrepsObj
  else if s == "cart" then some .cartesian
  else if s == "tuple" then some .tuple
  else if s == "other" then some .other
  else if s.startsWith "list:" then some (.list (parseElems (s.drop 5).toString))
  else none

def showElems (es : List IOElem) : String :=
  String.ofList (es.map (fun e => match e with
    | .irreps => 'i'
    | .cartesian => 'c'
    | .none => 'n'))

def showType : OutType → String
  | .irreps => "I"
  | .str => "S"
  | .list => "L"

def handle (toks : List String) : String :=
  match toks with
  | ["wrap", v, k, m, nOut] =>
    match m.toNat?, nOut.toNat? with
    | some m, some nOut =>
      let w := if v == "code" then wrapCond else wrapCondFixed
      let kind : OutKind := if k == "tensor" then .tensor else if k == "list" then .list m else .tuple m
      showOutcome (outsOutcome w kind nOut)
    | _, _ => "error:bad-op"
  | ["nweight", nw, k] =>
    match nw.toNat? with
    | some nw =>
      (match resolveNWeight nw (if k == "none" then none else k.toNat?) with
       | some r => toString r
       | none => "error:AssertionError")
    | none => "error:bad-op"
  | ["cases", p, c, t] => showCases (testCases (parseBool p) (parseBool c) (parseBool t))
  | "norm" :: v :: nz :: rest =>
    match toNats rest with
    | some (nInput :: atol :: nOuts :: rest) =>
      (match parseOuts nOuts rest with
       | some outs =>
         let nzn : Normalization := if nz == "norm" then .norm else .component
         let target : Nat → Float := if v == "code" then targetCode nzn else targetSpec nzn
         let atol := ofBitsNat atol
         let verdict := match checkOutputs target atol nInput outs 0 with
           | none => "pass"
           | some (o, i) => s!"fail:{o}:{i}"
         verdict ++ " ; " ++ " ".intercalate (logged target atol nInput outs 0)
       | none => "error:bad-op")
    | _ => "error:bad-op"
  | "eqerr" :: p :: c :: t :: rest =>
    match toNats rest with
    | some (nOut :: ntrials :: bot :: tol :: rest) =>
      let tests := testCases (parseBool p) (parseBool c) (parseBool t)
      (match parseVecs (ntrials * tests.length) rest with
       | some vecs =>
         let dev : Nat → (Nat × Bool) → List Float := fun i _ => vecs.getD i []
         (match errorLoopChecked tests nOut (ofBitsNat bot) dev ntrials with
          | none => "error:AssertionError"
          | some errs =>
            showAssert (assertEquivariant (ofBitsNat tol) errs) ++ " ; " ++
              " ".intercalate (errs.map (fun cv =>
                s!"{cv.1.1}:{if cv.1.2 then "T" else "F"}:" ++ ",".intercalate (cv.2.map fbits))))
       | none => "error:bad-op")
    | _ => "error:bad-op"
  | "ri" :: rest =>
    match toInts rest with
    | some (n :: lmax :: mulMin :: mulMax :: lenMin :: lenMax :: clean :: allowEmpty :: oracle) =>
      let a : RIArgs := ⟨n, lmax, mulMin, mulMax, lenMin, lenMax, clean != 0, allowEmpty != 0⟩
      let o : Nat → Nat := fun i => (oracle.getD i 0).toNat
      (match randomIrreps a o with
       | .error .assertion => "error:AssertionError"
       | .error .valueError => "error:ValueError"
       | .ok out => "ok " ++ " | ".intercalate (out.map (fun p =>
           showType p.2 ++ ":" ++ ";".intercalate (p.1.map (fun e => s!"{e.1},{e.2.1},{e.2.2}")))))
    | _ => "error:bad-op"
  | ["io", gi, go, ai, h12, ao] =>
    match parseSpec gi, parseSpec go with
    | some gi, some go =>
      let ai := if ai == "noattr" then none else parseSpec ai
      let ao := if ao == "noattr" then none else parseSpec ao
      (match getIOIrreps gi go ai (parseBool h12) ao with
       | none => "error:ValueError"
       | some (i, o, w) => s!"in={showElems i} out={showElems o} warn={if w then 1 else 0}")
    | _, _ => "error:bad-op"
  | _ => "error:bad-op"

partial def loop (hin hout : IO.FS.Stream) : IO Unit := do
  let line ← hin.getLine
  if line.isEmpty then return
  let toks := (line.trimAscii.toString.splitOn " ").filter (· ≠ "")
  if toks.isEmpty then
    hout.putStrLn "error:bad-op"
  else
    hout.putStrLn (handle toks)
  loop hin hout

def main : IO Unit := do
  let hin ← IO.getStdin
  let hout ← IO.getStdout
  loop hin hout
