import E3nnVerif.Model.S2Grid
import E3nnVerif.Generated.Legendre
/-
Line protocol driver for C11 (Float instance of the `_s2grid.py` / `_so3grid.py` model).
  input line :  <op> <tokens…>      ints in decimal (`N` = python None), every float64 as the decimal value of
                                    its bit pattern
  output line:  ok <tokens…>  |  error:ValueError | error:AssertionError | error:TypeError | error:RuntimeError
                | error:bad-op
`to`/`from` modes: `auto` = the model's forward with its branch condition, `dense` = the einsum path,
`all` = the buffer `shb` [m,b,i], then `auto`, then `dense` (one table for all three).
Floats are never printed as text: exact bit patterns travel both ways, the comparison (with tolerance) happens in
python.  Tensors are flattened row-major in the index order of the real buffers.
The model's index functions are tabulated into arrays here (`mkTab1/2/3`) between the stages of the model
(`expandStd` → `shbToWith`/`shbFromWith` → `toCoeff` → `toAlphaStep`, resp. `fromAlphaStep` → `fromCoeff`) — this
only caches values of the model functions (`shbTo = shbToWith (expandStd lmax)`, `toForwardWith = toAlphaStep ∘
toCoeff`, … hold by definition in the model), it does not change them.
-/
open E3nnVerif E3nnVerif.S2Grid

def fbits (x : Float) : String := toString x.toBits.toNat
def okF (xs : Array Float) : String := xs.foldl (fun s x => s ++ " " ++ fbits x) "ok"
def okN (xs : List Int) : String := " ".intercalate ("ok" :: xs.map toString)

def ofBits (n : Nat) : Float := Float.ofBits (UInt64.ofNat n)

def optInt (s : String) : Option (Option Int) :=
  if s == "N" then some none else (s.toInt?).map some

/-- a strict table of values of an index function (NOT a closure: the array is built once, when `mkTab*` is
called with all its arguments) -/
structure Tab where
  a : Array Float
  n1 : Nat
  n2 : Nat

@[noinline] def mkTab1 (n : Nat) (f : Nat → Float) : Tab :=
  ⟨Array.ofFn (n := n) fun i => f i.val, 1, 1⟩
@[noinline] def mkTab2 (n0 n1 : Nat) (f : Nat → Nat → Float) : Tab :=
  ⟨Array.ofFn (n := n0 * n1) fun k => f (k.val / n1) (k.val % n1), n1, 1⟩
@[noinline] def mkTab3 (n0 n1 n2 : Nat) (f : Nat → Nat → Nat → Float) : Tab :=
  ⟨Array.ofFn (n := n0 * n1 * n2) fun k => f (k.val / (n1 * n2)) (k.val / n2 % n1) (k.val % n2), n1, n2⟩
def Tab.get1 (t : Tab) (i : Nat) : Float := t.a.getD i 0.0
def Tab.get2 (t : Tab) (i j : Nat) : Float := if j < t.n1 then t.a.getD (i * t.n1 + j) 0.0 else 0.0
def Tab.get3 (t : Tab) (i j k : Nat) : Float :=
  if j < t.n1 ∧ k < t.n2 then t.a.getD ((i * t.n1 + j) * t.n2 + k) 0.0 else 0.0

/-- view of a slice of the float arguments as an index function -/
def slice (a : Array Float) (off : Nat) : Nat → Float := fun i => a.getD (off + i) 0.0

def flat2 (n0 n1 : Nat) (f : Nat → Nat → Float) : Array Float :=
  Array.ofFn (n := n0 * n1) fun k => f (k.val / n1) (k.val % n1)
def flat3 (n0 n1 n2 : Nat) (f : Nat → Nat → Nat → Float) : Array Float :=
  Array.ofFn (n := n0 * n1 * n2) fun k => f (k.val / (n1 * n2)) (k.val / n2 % n1) (k.val % n2)

def parseKind : String → Option Norm
  | "component" => some .component
  | "norm" => some .norm
  | "integral" => some .integral
  | _ => none

def nats (xs : List String) : Option (List Nat) := xs.mapM String.toNat?
def floats (xs : List String) : Option (Array Float) := (xs.mapM String.toNat?).map fun l => (l.map ofBits).toArray

def errS (e : Err) : String := e.toString

def handleComplete (a b c : String) : String :=
  match optInt a, optInt b, optInt c with
  | some a, some b, some c =>
    match completeLmaxRes a b c with
    | .ok (l, rb, ra) => okN [l, rb, ra]
    | .error e => errS e
  | _, _, _ => "error:bad-op"

def handleInit (lm : String) (res : List String) : String :=
  let r : Option ResArg := match res with
    | ["none"] => some .none
    | ["int", n] => n.toInt?.map .int
    | ["pair", b, c] => match optInt b, optInt c with
      | some b, some c => some (.pair b c)
      | _, _ => none
    | _ => none
  match optInt lm, r with
  | some lm, some r =>
    match initConfig lm r with
    | .ok (l, rb, ra) => okN [l, rb, ra, if useFFT l ra then 1 else 0]
    | .error e => errS e
  | _, _ => "error:bad-op"

def handleExpand (ls : List Nat) : String :=
  match expandMatrix (K := Float) ls with
  | .error e => errS e
  | .ok ((d0, d1, d2), E) =>
    let nz := Id.run do
      let mut acc : Array Nat := #[]
      for j in [0:d0] do
        for mm in [0:d1] do
          for i in [0:d2] do
            let v := E j mm i
            if v == 1.0 then acc := (acc.push j).push mm |>.push i
            else if v != 0.0 then acc := acc.push 999999
      return acc
    " ".intercalate ("ok" :: ([d0, d1, d2] ++ nz.toList).map toString)

/-- `to`/`from`/`shb` share the layout  n (lmax+1) ++ P (N*dim) ++ payload -/
def handleS2 (op mode : String) (lmax N M nvec : Nat) (a : Array Float) : String :=
  let dim := (lmax + 1) ^ 2
  let n := slice a 0
  let P : Nat → Nat → Float := fun b i => if i < dim then a.getD (lmax + 1 + b * dim + i) 0.0 else 0.0
  let off := lmax + 1 + N * dim
  let E := mkTab3 (lmax + 1) (2 * lmax + 1) dim (expandStd lmax)
  match op with
  | "to" =>
    if a.size != off + nvec * dim then "error:bad-op" else
    let shbT := mkTab3 (2 * lmax + 1) N dim (shbToWith E.get3 lmax n P)
    let run (dense : Bool) : Except Err (Array Float) :=
      ((List.range nvec).mapM fun z =>
        let x := slice a (off + z * dim)
        let y := mkTab2 N (2 * lmax + 1) (toCoeff lmax shbT.get3 x)
        if dense then Except.ok (flat2 N M fun b al => toAlphaDense lmax M (y.get2 b) al)
        else match toAlphaStep lmax M y.get2 with
          | .ok g => Except.ok (flat2 N M g)
          | .error e => Except.error e).map fun (arrs : List (Array Float)) => arrs.foldl (· ++ ·) #[]
    -- mode `all`: the buffer shb, then the branch-selected path, then the einsum path, sharing one table
    let res : Except Err (Array Float) :=
      if mode == "dense" then run true
      else if mode == "all" then
        match run false, run true with
        | .ok r1, .ok r2 => .ok (shbT.a ++ r1 ++ r2)
        | .error e, _ => .error e
        | _, .error e => .error e
      else run false
    match res with
    | .ok r => okF r
    | .error e => errS e
  | "from" =>
    if a.size != off + nvec * N * M then "error:bad-op" else
    let qw := mkTab1 N (qwFrom N M)
    let shbT := mkTab3 (2 * lmax + 1) N dim (shbFromWith E.get3 qw.get1 lmax n P)
    let run (dense : Bool) : Except Err (Array Float) :=
      ((List.range nvec).mapM fun z =>
        let g : Nat → Nat → Float := fun b al => if al < M then a.getD (off + (z * N + b) * M + al) 0.0 else 0.0
        let y? : Except Err (Nat → Nat → Float) :=
          if dense then Except.ok fun b => fromAlphaDense lmax M (g b) else fromAlphaStep lmax M g
        match y? with
        | .ok y =>
          let yT := mkTab2 N (2 * lmax + 1) y
          Except.ok (Array.ofFn (n := dim) fun i => fromCoeff lmax N shbT.get3 yT.get2 i.val)
        | .error e => Except.error e).map fun (arrs : List (Array Float)) => arrs.foldl (· ++ ·) #[]
    let res : Except Err (Array Float) :=
      if mode == "dense" then run true
      else if mode == "all" then
        match run false, run true with
        | .ok r1, .ok r2 => .ok (shbT.a ++ r1 ++ r2)
        | .error e, _ => .error e
        | _, .error e => .error e
      else run false
    match res with
    | .ok r => okF r
    | .error e => errS e
  | "shb" =>
    if a.size != off then "error:bad-op" else
    if mode == "to" then okF (flat3 (2 * lmax + 1) N dim (shbToWith E.get3 lmax n P))
    else
      let qw := mkTab1 N (qwFrom N M)
      okF (flat3 (2 * lmax + 1) N dim (shbFromWith E.get3 qw.get1 lmax n P))
  | _ => "error:bad-op"

def handleSO3 (op : String) (dim nb na nvec : Nat) (a : Array Float) : String :=
  let dsz := na * nb * na * dim
  let D : Nat → Nat → Nat → Nat → Float := fun x b c i =>
    if b < nb ∧ c < na ∧ i < dim then a.getD (((x * nb + b) * na + c) * dim + i) 0.0 else 0.0
  match op with
  | "so3to" =>
    if a.size != dsz + nvec * dim then "error:bad-op" else
    okF ((List.range nvec).foldl (fun acc z =>
      acc ++ flat3 na nb na (so3ToGrid dim D (slice a (dsz + z * dim)))) #[])
  | "so3from" =>
    if a.size != dsz + nvec * na * nb * na then "error:bad-op" else
    okF ((List.range nvec).foldl (fun acc z =>
      let f : Nat → Nat → Nat → Float := fun x b c =>
        if b < nb ∧ c < na then a.getD (dsz + ((z * na + x) * nb + b) * na + c) 0.0 else 0.0
      acc ++ Array.ofFn (n := dim) fun i => so3FromGrid dim nb na D f i.val) #[])
  | _ => "error:bad-op"

def handle (toks : List String) : String :=
  match toks with
  | ["complete", a, b, c] => handleComplete a b c
  | "init" :: lm :: res => handleInit lm res
  | ["qw", b] =>
    match b.toNat? with
    | some b => okF (Array.ofFn (n := 2 * b) fun j => quadratureWeight b j.val)
    | none => "error:bad-op"
  | ["qwfrom", N, M] =>
    match N.toNat?, M.toNat? with
    | some N, some M => okF (Array.ofFn (n := N) fun j => qwFrom N M j.val)
    | _, _ => "error:bad-op"
  | ["grid", N, M] =>
    match N.toNat?, M.toNat? with
    | some N, some M =>
      okF ((Array.ofFn (n := N) fun i => betas N i.val) ++ (Array.ofFn (n := M) fun j => alphas M j.val))
    | _, _ => "error:bad-op"
  | ["gridpt", N, M] =>
    match N.toNat?, M.toNat? with
    | some N, some M =>
      okF (flat3 N M 3 fun i j c =>
        let p : Float × Float × Float := gridPoint N M i j
        if c = 0 then p.1 else if c = 1 then p.2.1 else p.2.2)
    | _, _ => "error:bad-op"
  | "sha" :: l :: rest =>
    match l.toNat?, floats rest with
    | some l, some al => okF (flat2 al.size (2 * l + 1) fun a m => shaEntry l (al.getD a 0.0) m)
    | _, _ => "error:bad-op"
  | ["legendre1", N] =>
    -- the explicit Legendre factor for lmax ≤ 1, flattened [b, i], i < 4
    match N.toNat? with
    | some N => okF (flat2 N 4 fun j i => legendre1 N j i)
    | none => "error:bad-op"
  | ["legendre", N, lmax] =>
    -- the regenerated Legendre table (Generated/Legendre.lean) on the beta grid, flattened [b, i], i < (lmax+1)²
    match N.toNat?, lmax.toNat? with
    | some N, some lmax =>
      if lmax ≤ E3nnVerif.Generated.legLmax then
        okF (flat2 N ((lmax + 1) ^ 2) fun j i => E3nnVerif.Legendre.legendreGrid E3nnVerif.Generated.legTable N j i)
      else "error:bad-op"
    | _, _ => "error:bad-op"
  | ["shab", kind, lmax, a, b] =>
    -- model of spherical_harmonics_alpha_beta(range(lmax+1), α, β, kind) at one point
    match parseKind kind, lmax.toNat?, floats [a, b] with
    | some kind, some lmax, some ab =>
      if lmax ≤ E3nnVerif.Generated.legLmax then
        okF (Array.ofFn (n := (lmax + 1) ^ 2) fun i =>
          let l := Nat.sqrt i.val
          E3nnVerif.Legendre.shAlphaBeta E3nnVerif.Generated.legTable kind l (i.val - l ^ 2) (ab.getD 0 0.0) (ab.getD 1 0.0))
      else "error:bad-op"
    | _, _, _ => "error:bad-op"
  | ["shabuf", l, M] =>
    match l.toNat?, M.toNat? with
    | some l, some M => okF (flat2 M (2 * l + 1) fun a m => sha l M a m)
    | _, _ => "error:bad-op"
  | "expand" :: ls =>
    match nats ls with
    | some ls => handleExpand ls
    | none => "error:bad-op"
  | ["nconst", dir, kind, lp, lmax] =>
    match parseKind kind, lp.toNat?, lmax.toNat? with
    | some k, some lp, some lmax =>
      if dir == "to" then okF (Array.ofFn (n := lmax + 1) fun l => nTo k lp l.val)
      else if dir == "from" then okF (Array.ofFn (n := lmax + 1) fun l => nFrom k lp l.val)
      else "error:bad-op"
    | _, _, _ => "error:bad-op"
  | "rfft" :: l :: res :: xs =>
    match l.toNat?, res.toNat?, floats xs with
    | some l, some res, some x =>
      if x.size != res then "error:bad-op" else
      match rfft (slice x 0) l res with
      | .ok y => okF (Array.ofFn (n := 2 * l + 1) fun k => y k.val)
      | .error e => errS e
    | _, _, _ => "error:bad-op"
  | "irfft" :: sm :: res :: xs =>
    match sm.toNat?, res.toNat?, floats xs with
    | some sm, some res, some x =>
      if x.size != sm then "error:bad-op" else
      match irfft (slice x 0) sm res with
      | .ok y => okF (Array.ofFn (n := res) fun k => y k.val)
      | .error e => errS e
    | _, _, _ => "error:bad-op"
  | "dft" :: n :: xs =>
    -- the DFT definition standing for torch.fft.rfft: re(n//2+1) ++ im(n//2+1)
    match n.toNat?, floats xs with
    | some n, some x =>
      if x.size != n then "error:bad-op" else
      okF ((Array.ofFn (n := n / 2 + 1) fun k => rfftRe (slice x 0) n k.val)
        ++ (Array.ofFn (n := n / 2 + 1) fun k => rfftIm (slice x 0) n k.val))
    | _, _ => "error:bad-op"
  | "idft" :: n :: xs =>
    -- the DFT definition standing for torch.fft.irfft(X, n), n odd: input re(n//2+1) ++ im(n//2+1)
    match n.toNat?, floats xs with
    | some n, some x =>
      if x.size != 2 * (n / 2 + 1) ∨ n % 2 != 1 then "error:bad-op" else
      okF (Array.ofFn (n := n) fun a => irfftOddDef (slice x 0) (slice x (n / 2 + 1)) n a.val)
    | _, _ => "error:bad-op"
  | op :: mode :: lmax :: N :: M :: nvec :: rest =>
    if op == "to" ∨ op == "from" ∨ op == "shb" then
      match lmax.toNat?, N.toNat?, M.toNat?, nvec.toNat?, floats rest with
      | some lmax, some N, some M, some nvec, some a => handleS2 op mode lmax N M nvec a
      | _, _, _, _, _ => "error:bad-op"
    else if op == "so3to" ∨ op == "so3from" then
      -- so3to <dim> <nb> <na> <nvec> <unused> …   (mode = dim, lmax = nb, N = na, M = nvec, nvec = unused)
      match mode.toNat?, lmax.toNat?, N.toNat?, M.toNat?, floats rest with
      | some dim, some nb, some na, some nv, some a => handleSO3 op dim nb na nv a
      | _, _, _, _, _ => "error:bad-op"
    else "error:bad-op"
  | ["so3res", r, asp] =>
    match r.toNat?, asp.toNat? with
    | some r, some asp => okN [((so3Res r asp).1 : Int), ((so3Res r asp).2 : Int)]
    | _, _ => "error:bad-op"
  | ["so3resq", r, pn, qn] =>
    -- aspect_ratio = pn / qn
    match r.toNat?, pn.toNat?, qn.toNat? with
    | some r, some pn, some qn =>
      if qn = 0 then "error:bad-op" else okN [((so3ResQ r pn qn).1 : Int), ((so3ResQ r pn qn).2 : Int)]
    | _, _, _ => "error:bad-op"
  | ["so3qwq", r, pn, qn] =>
    -- the qw buffer from the constructor arguments (resolution, aspect_ratio = pn / qn)
    match r.toNat?, pn.toNat?, qn.toNat? with
    | some r, some pn, some qn =>
      if qn = 0 then "error:bad-op" else okF (Array.ofFn (n := 2 * r) fun b => so3QwOf r pn qn b.val)
    | _, _, _ => "error:bad-op"
  | ["so3dim", l] =>
    match l.toNat? with
    | some l => okN [(so3Dim l : Int)]
    | none => "error:bad-op"
  | ["so3qw", nb, na] =>
    match nb.toNat?, na.toNat? with
    | some nb, some na => okF (Array.ofFn (n := nb) fun b => so3Qw nb na b.val)
    | _, _ => "error:bad-op"
  | _ => "error:bad-op"

def parseLine (line : String) : String := handle ((line.splitOn " ").filter (· ≠ ""))

partial def loop (hin hout : IO.FS.Stream) : IO Unit := do
  let line ← hin.getLine
  if line.isEmpty then return
  let l := String.ofList (line.toList.filter fun c => c != '\n' && c != '\r')
  if l.isEmpty then loop hin hout
  else
    hout.putStrLn (parseLine l)
    loop hin hout

def main : IO Unit := do
  let hin ← IO.getStdin
  let hout ← IO.getStdout
  loop hin hout
  hout.flush
