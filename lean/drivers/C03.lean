import E3nnVerif.Model.WignerD
/-
Line protocol for C03 (discrete half of the Wigner-D model; the exact generator tables come from drivers/C04.lean):
  blocks m l p ; m l p ; ...   -> "blocks dim=<Irreps.dim> | l p off ; l p off ; ..."   (p ∈ {1,-1}; one entry per block, in order)
                                   or "error:IndexError" when there is no block at all (direct_sum of nothing)
  locate n1 n2 ... | i j       -> "in b r c" (row i and column j lie in block b, local indices r c) | "zero" | "out"
  ds n e.. ; n e.. | ...       -> "ds dim | e e e ..."  direct_sum of integer blocks (row-major), row-major result; "error:IndexError"
  yrot l                       -> "yrot l | r c cos m ; r c sin m ; ..."    closed form of matrix_exp(θ X[1])
  ycheck l                     -> "ycheck l <genYBlockCheck l>"             (interpreter run of the kernel check: evidence)
  l1check                      -> "l1check <genL1Check>"
  parity p k                   -> "parity <p ** k>"
  ksign d                      -> "ksign <(1-d)/2>"
-/
open E3nnVerif.Model.Wigner E3nnVerif.Model.WignerD E3nnVerif.Model.Irreps E3nnVerif.Exact

def parseNats (ws : List String) : Option (List Nat) := ws.mapM String.toNat?
def parseInts (ws : List String) : Option (List Int) := ws.mapM String.toInt?

def words (s : String) : List String := (s.splitOn " ").filter (· ≠ "")

def parityOf (i : Int) : Option Parity := if i == 1 then some .even else if i == -1 then some .odd else none

def doBlocks (body : String) : String :=
  let items := (body.splitOn ";").map words |>.filter (· ≠ [])
  let parsed : Option Irreps := items.mapM fun ws =>
    match ws with
    | [m, l, p] => do
      let m ← m.toNat?; let l ← l.toNat?; let p ← p.toInt?; let p ← parityOf p
      pure (m, (⟨l, p⟩ : Irrep))
    | _ => none
  match parsed with
  | none => "bad-op"
  | some irs =>
    let bs := blocks irs
    match bs with
    | [] => "error:IndexError"
    | _ =>
      let lay := layout (blockDims irs)
      let parts := (bs.zip lay).map fun (ir, (o, _)) => s!"{ir.l} {ir.p.toInt} {o}"
      s!"blocks dim={dim irs} | " ++ " ; ".intercalate parts

def doLocate (ds : List Nat) (i j : Nat) : String :=
  match locate ds i, locate ds j with
  | some (b, r), some (b', c) => if b == b' then s!"in {b} {r} {c}" else "zero"
  | _, _ => "out"

def mkBlock (ws : List String) : Option (Block Int) :=
  match ws with
  | [] => none
  | n :: es => do
    let n ← n.toNat?
    let es ← parseInts es
    if es.length != n * n then none else
    pure ⟨n, fun r c => es.getD (r * n + c) 0⟩

def doDs (body : String) : String :=
  let items := (body.splitOn ";").map words |>.filter (· ≠ [])
  match items.mapM mkBlock with
  | none => "bad-op"
  | some ms =>
    match directSum (0 : Int) ms with
    | none => "error:IndexError"
    | some b =>
      let es := (List.range b.n).flatMap fun i => (List.range b.n).map fun j => toString (b.e i j)
      s!"ds {b.n} | " ++ " ".intercalate es

def showTrig : Trig → String
  | .cos m => s!"cos {m}"
  | .sin m => s!"sin {m}"

def doYrot (l : Nat) : String :=
  let n := 2 * l + 1
  let parts := (List.range n).flatMap fun r => (List.range n).flatMap fun c =>
    (yRotTerms l r c).map fun t => s!"{r} {c} {showTrig t}"
  s!"yrot {l} | " ++ " ; ".intercalate parts

def step (line : String) : String :=
  let line := line.trimAscii.toString
  match line.splitOn " | " with
  | [lhs, rhs] =>
    match words lhs, words rhs with
    | "locate" :: ds, [i, j] =>
      match parseNats ds, i.toNat?, j.toNat? with
      | some ds, some i, some j => doLocate ds i j
      | _, _, _ => "bad-op"
    | _, _ => "bad-op"
  | _ =>
    if line.startsWith "blocks" then doBlocks (line.drop 6).toString
    else if line.startsWith "ds" then doDs (line.drop 2).toString
    else match words line with
    | ["yrot", l] => match l.toNat? with | some l => doYrot l | none => "bad-op"
    | ["ycheck", l] => match l.toNat? with | some l => s!"ycheck {l} {genYBlockCheck l}" | none => "bad-op"
    | ["l1check"] => s!"l1check {genL1Check}"
    | ["parity", p, k] =>
      match p.toInt?, k.toInt? with
      | some p, some k => match parityOf p with
        | some p => s!"parity {parityFactor p k}"
        | none => "bad-op"
      | _, _ => "bad-op"
    | ["ksign", d] => match d.toInt? with | some d => s!"ksign {kOfSign d}" | none => "bad-op"
    | _ => "bad-op"

partial def loop (h : IO.FS.Stream) : IO Unit := do
  let line ← h.getLine
  if line.isEmpty then return ()
  IO.println (step line)
  loop h

def main : IO Unit := do loop (← IO.getStdin)
