import E3nnVerif.Model.Radial
/-
Line protocol driver for C16 (Float instance of the scalar-generic model).
Floats travel as the decimal value of their IEEE-754 bit pattern (lossless, never printed raw).

  sus <x>                                         -> <y> <grad>
  soh <basis> <T|F|N> <start> <end> <number> <x>...   -> ok <row(x1)>... | error:<Name>
  grid <T|F> <start> <end> <number>               -> <step> <centre_0> ... <centre_{number-1}>
  sfc                                             -> <1.14136 * math.exp(2.0)>
  n2m <cst> <fx>...                               -> <is_id 0|1> <out>...
  cst <fz>...                                     -> <moment2> <cst>
-/
open E3nnVerif E3nnVerif.Radial

def fbits (s : String) : Float := Float.ofBits (UInt64.ofNat s.toNat!)
def bitsOf (x : Float) : String := toString x.toBits.toNat
def joinF (l : List Float) : String := " ".intercalate (l.map bitsOf)

def errName : Err → String
  | .cutoffUnspecified => "error:ValueError:cutoff"
  | .linspaceNegative => "error:RuntimeError"
  | .indexError => "error:IndexError"
  | .invalidBasis => "error:ValueError:basis"

def handle (line : String) : String :=
  match line.splitOn " " with
  | ["sus", x] =>
    let x := fbits x
    joinF [softUnitStep x, softUnitStepGrad x]
  | "soh" :: basis :: cut :: start :: stop :: number :: xs =>
    let cutoff : Option Bool := if cut == "T" then some true else if cut == "F" then some false else none
    let start := fbits start
    let stop := fbits stop
    let number := number.toInt!
    let rec go (xs : List String) (acc : List String) : Except Err (List String) :=
      match xs with
      | [] => .ok acc.reverse
      | x :: rest =>
        match softOneHot (fbits x) start stop number basis cutoff with
        | .error e => .error e
        | .ok row => go rest (joinF row :: acc)
    -- the error branches do not depend on x; probe with one element when the list is empty
    match (if xs.isEmpty then (softOneHot (0.0 : Float) start stop number basis cutoff).map (fun _ => [])
           else go xs []) with
    | .error e => errName e
    | .ok rows => " ".intercalate ("ok" :: rows.filter (· ≠ ""))
  | ["grid", cut, start, stop, number] =>
    let c := cut == "T"
    let start := fbits start
    let stop := fbits stop
    let n := number.toNat!
    joinF (stepOf start stop n c :: (List.range n).map (center start stop n c))
  | ["sfc"] => bitsOf (smoothFiniteConst : Float)
  | "n2m" :: cst :: fxs =>
    let cst := fbits cst
    " ".intercalate ((if isId cst then "1" else "0") :: fxs.map (fun s => bitsOf (normalize2momForward cst (fbits s))))
  | "cst" :: fzs =>
    let fz := fzs.map fbits
    joinF [moment fz 2, cstOf fz]
  | _ => "error:protocol"

partial def loop (h : IO.FS.Stream) : IO Unit := do
  let line ← h.getLine
  if line.isEmpty then return
  let l := line.trimAsciiEnd.toString
  if l ≠ "" then IO.println (handle l)
  loop h

def main : IO Unit := do loop (← IO.getStdin)
