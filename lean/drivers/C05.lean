import E3nnVerif.Model.SHChecks
import E3nnVerif.Generated.SH
/-
Line protocol for C05 (symbolic spherical harmonics of the current source):
  eval xn xd yn yd zn zd   -> "eval | l m : n d r [+ n d r ...] ; ..."   exact values Σ (n/d)√r of every sh_l_m at the rational point
  check l                  -> "check l homog=<b> unsold=<b> harmonic=<b> rec=<b>"   decision procedures run by the interpreter
  base                     -> "base wf=<b> stacks=<b> base=<b> lmax=<n>"
-/
open E3nnVerif.Model.SH E3nnVerif.Generated.SH E3nnVerif.IR E3nnVerif.Exact

def Ysym : List (List Poly) := select (evalProg prog) index

def showS (s : SqrtQ) : String :=
  if s.isEmpty then "0 1 1" else " + ".intercalate (s.map fun t => s!"{t.2.n} {t.2.den} {t.1}")

/-- exact evaluation of a polynomial at a rational point -/
def evalAt (p : Poly) (pt : List Q) : SqrtQ :=
  p.foldl (fun acc t =>
    let mv : Q := t.1.foldl (fun q v => Q.mul q (pt.getD v Q.zero)) Q.one
    acc + SqrtQ.scale mv t.2) []

def step (Y : List (List Poly)) (line : String) : String :=
  match line.trimAscii.toString.splitOn " " with
  | ["eval", a, b, c, d, e, f] =>
    match a.toInt?, b.toNat?, c.toInt?, d.toNat?, e.toInt?, f.toNat? with
    | some a, some b, some c, some d, some e, some f =>
      let pt := [Q.mk' a b, Q.mk' c d, Q.mk' e f]
      let parts := (List.range Y.length).flatMap fun l =>
        (List.range (Y.getD l []).length).map fun m => s!"{l} {m} : {showS (evalAt (polyGet Y l m) pt)}"
      "eval | " ++ " ; ".intercalate parts
    | _, _, _, _, _, _ => "bad-op"
  | ["check", l] =>
    match l.toNat? with
    | some l =>
      let r := if l == 0 then true else recurrenceCheck Y (l - 1)
      s!"check {l} homog={homogCheck Y l} unsold={unsoldCheck Y l} harmonic={harmonicCheck Y l} rec={r}"
    | none => "bad-op"
  | ["base"] => s!"base wf={wfProg prog} stacks={stacksCheck index stacks} base={baseCheck Y} lmax={lmax}"
  | _ => "bad-op"

partial def loop (h : IO.FS.Stream) (Y : List (List Poly)) : IO Unit := do
  let line ← h.getLine
  if line.isEmpty then return ()
  IO.println (step Y line)
  loop h Y

def main : IO Unit := do loop (← IO.getStdin) Ysym
