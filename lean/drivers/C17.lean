import E3nnVerif.Model.Reduce
/-
Line protocol driver for C17 (perm.py / _reduce.py models).
  input line :  <op> <arg> <arg> ...          (blank separated, arguments contain no blanks)
  encodings  :  tuple of ints  `0,2,1`  (empty tuple `-`);  set/list of tuples `p;p;p` (empty `~`);
                string = comma separated code points (empty `-`);  signed perms `s:p;s:p`;
                dims  `<codepoint>=<n>,...` (empty `-`)
  output line:  ok <payload> | error:<PythonExceptionName> | error:bad-op
-/
open E3nnVerif.PermModel E3nnVerif.ReduceModel

def parseNats (s : String) : List Nat :=
  if s == "-" || s == "" then [] else (s.splitOn ",").map String.toNat!

def parseSet (s : String) : List (List Nat) :=
  if s == "~" || s == "" then [] else (s.splitOn ";").map parseNats

def parseStr (s : String) : List Char := (parseNats s).map Char.ofNat

def parseSigned (s : String) : List SPerm :=
  if s == "~" || s == "" then [] else (s.splitOn ";").map fun t =>
    match t.splitOn ":" with
    | [a, b] => (a.toInt!, parseNats b)
    | _ => (0, [])

def parseDims (s : String) : Dims :=
  if s == "-" || s == "" then [] else (s.splitOn ",").map fun t =>
    match t.splitOn "=" with
    | [a, b] => (Char.ofNat a.toNat!, b.toNat!)
    | _ => (' ', 0)

def showNats (l : List Nat) : String := if l.isEmpty then "-" else ",".intercalate (l.map toString)
def showSet (l : List (List Nat)) : String := if l.isEmpty then "~" else ";".intercalate (l.map showNats)
def showStr (l : List Char) : String := showNats (l.map Char.toNat)
def showSigned (l : List SPerm) : String :=
  if l.isEmpty then "~" else ";".intercalate (l.map fun sp => s!"{sp.1}:{showNats sp.2}")

def errName : Err → String
  | .assertion => "error:AssertionError"
  | .value => "error:ValueError"
  | .index => "error:IndexError"
  | .runtime => "error:RuntimeError"
  | .diverge => "error:diverge"
  | .fuel => "error:model-fuel"

def ex {α : Type} (f : α → String) : Except Err α → String
  | .ok a => "ok " ++ f a
  | .error e => errName e

def showMat (m : List (List Int)) : String :=
  if m.isEmpty then "~" else ";".intercalate (m.map fun r => ",".intercalate (r.map toString))

def showOut (o : Out) : String :=
  let rows := "|".intercalate (o.rows.map fun r => ";".intercalate (r.map fun e => s!"{e.1}:{showNats e.2}"))
  let flat := "|".intercalate (o.rows.map fun r => ";".intercalate (r.map fun e => s!"{flatIndex o.dims e.2}:{e.1}"))
  s!"{showNats o.dims} # {o.rows.length} # {rows} # {flat}"

/-- executable form of `DimsCompatible` (hypothesis of the reduce_permutation theorems) -/
def dimsCompatibleB (g : List SPerm) (dims : List Nat) : Bool := g.all fun a => act dims a.2 == dims

def handle (op : String) (a : List String) : String :=
  match op, a with
  | "is_perm", [p] => "ok " ++ toString (isPerm (parseNats p))
  | "identity", [n] => "ok " ++ showNats (identity n.toNat!)
  | "compose", [p, q] => ex showNats (compose (parseNats p) (parseNats q))
  | "inverse", [p] => ex showNats (inverse (parseNats p))
  | "from_int", [i, n] => "ok " ++ showNats (fromInt i.toInt! n.toNat!)
  | "to_int", [p] => ex toString (toInt (parseNats p))
  | "group", [n] => "ok " ++ showSet (group n.toNat!)
  | "germinate", [s] => ex showSet (germinate (parseSet s))
  | "is_group", [s] => ex toString (isGroup (parseSet s))
  | "to_cycles", [p] => ex showSet (toCycles (parseNats p))
  | "from_cycles", [n, cs] => "ok " ++ showNats (fromCycles n.toNat! (parseSet cs))
  | "sign", [p] => ex toString (sign (parseNats p))
  | "natrep", [p] => ex showMat (naturalRepresentation (parseNats p))
  | "natrep_laws", [p, q] =>
      -- executable form of the representation laws on the list-of-rows matrices
      let p := parseNats p; let q := parseNats q; let n := p.length
      "ok " ++ toString (matMul (natRepRaw p) (natRepRaw q) n == natRepRaw (composeRaw p q)) ++ " " ++
        toString (matMul (natRepRaw p) (transpose (natRepRaw p) n) n == idMatrix n)
  | "gf", [f] => ex (fun r => showStr r.1 ++ " # " ++ showSigned r.2) (germinateFormulas (String.ofList (parseStr f)))
  | "rp", [f0, g, d] =>
      let G := parseSigned g
      ex (fun o => showOut o ++ " # " ++ toString (dimsCompatibleB G o.dims)) (reducePermutation (parseStr f0) G (parseDims d))
  | _, _ => "error:bad-op"

partial def loop (h : IO.FS.Stream) (out : IO.FS.Stream) : IO Unit := do
  let line ← h.getLine
  if line.isEmpty then return
  let l := (line.replace "\n" "").replace "\r" ""
  if l.isEmpty then
    out.putStrLn ""
  else
    match l.splitOn " " with
    | op :: args => out.putStrLn (handle op args)
    | [] => out.putStrLn "error:bad-op"
  loop h out

def main : IO Unit := do
  let i ← IO.getStdin
  let o ← IO.getStdout
  loop i o
