/-
Line-protocol driver for property C06 (Irreps bookkeeping).  One op per input line, one result line per op.

Encodings
  irreps   `-` (empty) or `mul.l.p,mul.l.p,...`   with p ∈ {e,o}
  irrep    `l.p`
  str      `-` (empty) or the code points in decimal joined by `_`
  int      decimal, optional leading `-`;  `N` = None (slice fields)
  result   `ok <value>` / `err:<name>`  for ops that can raise, the bare value otherwise

Ops: see `handle` below.
-/
import E3nnVerif.Model.Irreps
open E3nnVerif.Model.Irreps

def encP (p : Parity) : String := match p with | .odd => "o" | .even => "e"
def encIr (ir : Irrep) : String := s!"{ir.l}.{encP ir.p}"
def encMulIr (e : MulIr) : String := s!"{e.1}.{encIr e.2}"
def encIrreps (x : Irreps) : String := if x.isEmpty then "-" else ",".intercalate (x.map encMulIr)
def encNats (l : List Nat) : String := ",".intercalate (l.map toString)
def encStr (s : Str) : String := if s.isEmpty then "-" else "_".intercalate (s.map (fun c => toString c.toNat))
def encErr : Err → String
  | .value => "err:value"
  | .valueLmaxEmpty => "err:valueLmaxEmpty"
  | .valueMaxEmpty => "err:valueMaxEmpty"
  | .index => "err:index"
  | .attribute => "err:attribute"
  | .type => "err:type"
  | .notImplemented => "err:notImplemented"
def encExcept {α} (f : α → String) : Except Err α → String
  | .ok a => "ok " ++ f a
  | .error e => encErr e

def decP (s : String) : Option Parity := if s == "e" then some .even else if s == "o" then some .odd else none
def decIrParts : List String → Option Irrep
  | [l, p] => do some ⟨← l.toNat?, ← decP p⟩
  | _ => none
def decIr (s : String) : Option Irrep := decIrParts (s.splitOn ".")
def decMulIr (s : String) : Option MulIr :=
  match s.splitOn "." with
  | [m, l, p] => do some (← m.toNat?, ← decIrParts [l, p])
  | _ => none
def decIrreps (s : String) : Option Irreps := if s == "-" then some [] else (s.splitOn ",").mapM decMulIr
def decStr (s : String) : Option Str :=
  if s == "-" then some [] else (s.splitOn "_").mapM (fun t => do
    let n ← t.toNat?
    if n.isValidChar then some (Char.ofNat n) else none)
def decOptInt (s : String) : Option (Option Int) := if s == "N" then some none else s.toInt?.map some

def decScalar (s : String) : Option PyScalar :=
  if s == "o" then some .other
  else if s == "bT" then some (.bool true)
  else if s == "bF" then some (.bool false)
  else if s.startsWith "i" then (s.drop 1).toInt?.map .int
  else none

def decIrArg : List String → Option IrArg
  | ["I", ir] => (decIr ir).map .ir
  | ["S", s] => (decStr s).map .str
  | ["T", l, p] => do some (.tup (← decScalar l) (← decScalar p))
  | ["X"] => some .tupBad
  | ["V", v] => (decScalar v).map .scalar
  | _ => none

def decItem (s : String) : Option Item :=
  match s.splitOn ":" with
  | ["S", t] => (decStr t).map .str
  | ["I", ir] => (decIr ir).map .ir
  | ["M", e] => (decMulIr e).map (fun e => .mulir e.1 e.2)
  | "P" :: mul :: rest => do some (.pair (← decScalar mul) (← decIrArg rest))
  | ["B"] => some .badLen
  | ["N"] => some .noLen
  | _ => none

def encSort (r : SortResult) : String := s!"{encIrreps r.irreps}/{encNats r.p}/{encNats r.inv}"
def encSlices (l : List (Nat × Nat)) : String := ",".intercalate (l.map (fun s => s!"{s.1}:{s.2}"))

def unary (x : Irreps) : String :=
  let fields : List String := [
    "repr=" ++ String.ofList (printIrreps x),
    s!"len={x.length}",
    s!"dim={dim x}",
    s!"num={numIrreps x}",
    "ls=" ++ encNats (ls x),
    "lmax=" ++ encExcept toString (lmax x),
    "slices=" ++ encSlices (slices x),
    "simplify=" ++ encIrreps (simplify x),
    "rmz=" ++ encIrreps (removeZero x),
    "sort=" ++ encSort (sort x),
    "regroup=" ++ encIrreps (regroup x),
    "blocks=" ++ ",".intercalate ((blocks x).map encIr)]
  ";".intercalate fields

/-- classification of the code points in `[a, b)`, for the table check: `cp:s|n:tok` for each code point that
is a space or whose token is not `bad` -/
def scanRange (a b : Nat) : List String := Id.run do
  let mut out : Array String := #[]
  for n in [a:b] do
    if n.isValidChar then
      let c := Char.ofNat n
      let sp := isSpace c
      let t := tok c
      let ts := match t with
        | .ws => "w" | .plus => "p" | .minus => "m" | .us => "u" | .digit d => s!"d{d}" | .bad => "b"
      if sp || ts != "b" then
        out := out.push s!"{n}:{if sp then "s" else "n"}:{ts}"
  return out.toList

def decRange (s : String) : Option (Nat × Nat) :=
  match s.splitOn ":" with
  | [a, b] => do some (← a.toNat?, ← b.toNat?)
  | _ => none

def bad (line : String) : String := "PROTOCOL-ERROR " ++ line

def handle (line : String) : String :=
  let r : Option String :=
    match line.splitOn " " with
    | ["parse", s] => do some (encExcept encIrreps (parseIrreps (← decStr s)))
    | ["parseir", s] => do some (encExcept encIr (parseIrrep (← decStr s)))
    | ["lookup", s] => do some (encExcept encIr (lookup (← decStr s)))
    | ["int", s] => do
      match pyInt (← decStr s) with
      | some z => some s!"ok {z}"
      | none => some "err:value"
    | ["strip", s] => do some (encStr (strip (← decStr s)))
    | ["split", c, s] => do
      let n ← c.toNat?
      some ("|".intercalate ((splitOn (Char.ofNat n) (← decStr s)).map encStr))
    | ["un", x] => do some (unary (← decIrreps x))
    | ["print", x] => do some (String.ofList (printIrreps (← decIrreps x)))
    | ["printir", i] => do some (String.ofList (printIrrep (← decIr i)))
    | ["count", x, i] => do some (toString (count (← decIrreps x) (← decIr i)))
    | ["contains", x, i] => do some (toString (contains (← decIrreps x) (← decIr i)))
    | ["counts", x, s] => do some (encExcept toString (countStr (← decIrreps x) (← decStr s)))
    | ["containss", x, s] => do some (encExcept toString (containsStr (← decIrreps x) (← decStr s)))
    | ["get", x, i] => do some (encExcept encMulIr (getItem (← decIrreps x) (← i.toInt?)))
    | ["slice", x, a, b, c] => do
      some (encExcept encIrreps (getSlice (← decIrreps x) (← decOptInt a) (← decOptInt b) (← decOptInt c)))
    | ["add", x, y] => do some (encIrreps (add (← decIrreps x) (← decIrreps y)))
    | ["adds", x, s] => do some (encExcept encIrreps (addInput (← decIrreps x) (.str (← decStr s))))
    | ["mul", x, n] => do some (encIrreps (mulInt (← decIrreps x) (← n.toInt?)))
    | ["irmul", a, b] => do some (",".intercalate ((irrepMul (← decIr a) (← decIr b)).map encIr))
    | ["irrmul", n, a] => do some (encExcept encIrreps (irrepRMul (← n.toInt?) (← decIr a)))
    | ["iradd", a, b] => do some (encIrreps (irrepAdd (← decIr a) (← decIr b)))
    | ["irinfo", a] => do
      let ir ← decIr a
      some s!"dim={ir.dim};scalar={ir.isScalar}"
    | ["iter", n] => do some (",".intercalate ((iterator (← n.toNat?)).map encIr))
    | ["iterpre", n] => do some (",".intercalate (((List.range (← n.toNat?)).map iterNth).map encIr))
    | ["sh", n, p] => do some (encIrreps (sphericalHarmonics (← n.toInt?) (← decP p)))
    | ["irarg", a] => do some (encExcept encIr (irrepOfArg (← decIrArg (a.splitOn ":"))))
    | "items" :: its => do
      let its := its.filter (· != "")
      some (encExcept encIrreps (ofItems (← its.mapM decItem)))
    | ["scan", rs] => do
      let rs ← (rs.splitOn ",").mapM decRange
      some (",".intercalate (rs.flatMap (fun r => scanRange r.1 r.2)))
    | ["zeros"] => some (encNats decimalZeros)
    | _ => none
  r.getD (bad line)

partial def loop (stdin stdout : IO.FS.Stream) : IO Unit := do
  let line ← stdin.getLine
  if line.isEmpty then return
  let line := String.ofList (line.toList.reverse.dropWhile (fun c => c == '\n' || c == '\r')).reverse
  stdout.putStrLn (handle line)
  loop stdin stdout

def main : IO Unit := do
  let stdin ← IO.getStdin
  let stdout ← IO.getStdout
  loop stdin stdout
  stdout.flush
