import E3nnVerif.Generated.TP.Registry
/-
Line protocol for C02/C19 (tensor-product programs of this run):
  run <name> <seed>   -> "run <name> | prog: v0 ; v1 ; ... | spec: v0 ; v1 ; ..."   exact outputs (Σ (n/d)√r) of the translated
                         FX program and of the specification program on the deterministic integer inputs `inputVal seed i`
  info <name>         -> "info <name> weight_numel=<n> offsets=<o0,o1,..> mask=<0/1...> zero=<0/1...>"
                         model's weight count / per-instruction weight offsets / expected output mask, and which output
                         components of the PROGRAM are the zero polynomial (batch row 0)
-/
open E3nnVerif.IR E3nnVerif.Exact E3nnVerif.Model.TP E3nnVerif.Generated.TP

instance : Sca SqrtQ where
  zero := []
  one := SqrtQ.one
  ofC := id

def inputVal (seed i : Nat) : Int := ((seed * 7919 + i * 104729) % 7 : Nat) - 3

def showS (s : SqrtQ) : String :=
  if s.isEmpty then "0 1 1" else " + ".intercalate (s.map fun t => s!"{t.2.n} {t.2.den} {t.1}")

def showV (v : List SqrtQ) : String := " ; ".intercalate (v.map showS)

def step (line : String) : String :=
  match line.trimAscii.toString.splitOn " " with
  | ["run", name, seed] =>
    match registry.find? (fun e => e.1 == name), seed.toNat? with
    | some e, some sd =>
      let mk : Nat → SqrtQ := fun i => SqrtQ.ofInt (inputVal sd i)
      let a := interp mk e.2.2
      let b := interp mk (specProg e.2.1)
      s!"run {name} | prog: {showV a} | spec: {showV b}"
    | _, _ => "bad-op"
  | ["info", name] =>
    match registry.find? (fun e => e.1 == name) with
    | some e =>
      let c := e.2.1
      let offs := ",".intercalate ((List.range c.ins.length).map fun k => toString (weightOffset c k))
      let mask := String.join ((outputMask c).map fun b => if b then "1" else "0")
      let polys := interpPoly e.2.2
      let dO := totalDim c.out
      let zero := String.join ((polys.take dO).map fun p => if p.isZero then "1" else "0")
      s!"info {name} weight_numel={weightNumel c} offsets={offs} mask={mask} zero={zero}"
    | none => "bad-op"
  | _ => "bad-op"

partial def loop (h : IO.FS.Stream) : IO Unit := do
  let line ← h.getLine
  if line.isEmpty then return ()
  IO.println (step line)
  loop h

def main : IO Unit := do loop (← IO.getStdin)
