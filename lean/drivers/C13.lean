import E3nnVerif.Model.BatchNorm
/-
Line protocol driver for C13: the BatchNorm / Dropout model over EXACT rationals (core `Rat`).
Every field operation is exact; `sqrt` is the only approximation (relative error < 2^-96, see `ratSqrt`).
Numbers travel as `num/den` (or `num`) in both directions — no floats are printed.

  bn <irreps> <eps> <momentum> <affine> <reduce> <instance> <include_bias> <normalization>
        irreps   = comma separated  <mul>x<l><e|o>   (`-` for the empty Irreps)
        booleans = 0|1, reduce = mean|max, normalization = norm|component
        -> ok                                     (fresh module: training, mean 0, var 1, weight 1, bias 0)
  setw <r> ...     -> ok     (weight := the given vector)
  setb <r> ...     -> ok     (bias := the given vector)
  train | eval     -> ok
  fwd <shape , separated> <r> ...
        -> error | oos | out <r>… ; rm <r>… ; rv <r>…      (output, then running_mean / running_var after the call)
  state            -> st <0|1> ; rm … ; rv … ; w … ; b …
  drop <irreps> <p> <training 0|1> <shape> <mask bits, one string of 0/1 of length B*num_irreps> <r> ...
        -> error | bcast | out <r>…
-/
open E3nnVerif E3nnVerif.BN

/-- integer square root (floor), Newton iteration with explicit fuel -/
def isqrtAux : Nat → Nat → Nat → Nat
  | 0, _, x => x
  | fuel + 1, n, x =>
    let y := (x + n / x) / 2
    if y < x then isqrtAux fuel n y else x

def isqrt (n : Nat) : Nat :=
  if n < 2 then n else
    let x0 := 2 ^ (n.log2 / 2 + 1)
    isqrtAux (n.log2 + 8) n x0

/-- `sqrt (n/d)` as a rational with relative error < 2^-96: `isqrt (n * d * 4^k) / (d * 2^k)` -/
def ratSqrt (q : Rat) : Rat :=
  if q.num ≤ 0 then 0
  else
    let n := q.num.toNat
    let d := q.den
    let k := 96
    let r := isqrt (n * d * 4 ^ k)
    (r : Rat) / ((d * 2 ^ k : Nat) : Rat)

instance : Scalar Rat where
  ofNat := fun n => (n : Rat)
  sqrt := ratSqrt
  sin := fun _ => 0
  cos := fun _ => 0
  acos := fun _ => 0
  atan2 := fun _ _ => 0
  exp := fun _ => 0
  pi := 0
  lt := fun a b => decide (a < b)

def showRat (q : Rat) : String :=
  if q.den == 1 then toString q.num else toString q.num ++ "/" ++ toString q.den

def parseInt (s : String) : Option Int :=
  if s.startsWith "-" then (s.drop 1).toNat?.map (fun n => - (n : Int)) else s.toNat?.map (fun n => (n : Int))

def parseRat (s : String) : Option Rat :=
  match s.splitOn "/" with
  | [a] => (parseInt a).map (fun n => (n : Rat))
  | [a, b] => do
    let n ← parseInt a
    let d ← b.toNat?
    if d == 0 then none else some ((n : Rat) / (d : Rat))
  | _ => none

def parseIrrep (s : String) : Option (Nat × Irrep) :=
  match s.splitOn "x" with
  | [m, r] => do
    let mul ← m.toNat?
    let l ← (String.ofList r.toList.dropLast).toNat?
    let p ← if r.endsWith "e" then some (1 : Int) else if r.endsWith "o" then some (-1 : Int) else none
    some (mul, { l := l, p := p })
  | _ => none

def parseIrreps (s : String) : Option Irreps :=
  if s == "-" then some [] else (s.splitOn ",").mapM parseIrrep

def parseBool (s : String) : Option Bool :=
  if s == "1" then some true else if s == "0" then some false else none

def parseShape (s : String) : Option (List Nat) :=
  if s == "-" then some [] else (s.splitOn ",").mapM (·.toNat?)

def showVec (n : Nat) (f : Nat → Rat) : String := " ".intercalate ((List.range n).map fun j => showRat (f j))

structure Sess where
  o : Opts Rat
  st : State Rat

def vecOf (xs : Array Rat) : Nat → Rat := fun j => xs.getD j 0

def stateLine (s : Sess) : String :=
  "rm " ++ showVec s.o.irreps.numScalar s.st.runningMean ++ " ; rv " ++ showVec s.o.irreps.numIrreps s.st.runningVar

def handle (sess : Option Sess) (toks : List String) : Option Sess × String :=
  match toks, sess with
  | ["bn", irr, eps, mom, aff, red, inst, ib, nz], _ =>
    let r : Option Sess := do
      let irreps ← parseIrreps irr
      let eps ← parseRat eps
      let mom ← parseRat mom
      let aff ← parseBool aff
      let red ← if red == "mean" then some Reduce.mean else if red == "max" then some Reduce.max else none
      let inst ← parseBool inst
      let ib ← parseBool ib
      let nz ← if nz == "norm" then some Normalization.norm else if nz == "component" then some Normalization.component else none
      some { o := { irreps := irreps, eps := eps, momentum := mom, affine := aff, reduce := red, inst := inst,
                    includeBias := ib, normalization := nz }, st := State.init }
    match r with
    | some s => (some s, "ok")
    | none => (sess, "bad-op")
  | "setw" :: xs, some s =>
    match xs.mapM parseRat with
    | some v => (some { s with st := { s.st with weight := vecOf v.toArray } }, "ok")
    | none => (sess, "bad-op")
  | "setb" :: xs, some s =>
    match xs.mapM parseRat with
    | some v => (some { s with st := { s.st with bias := vecOf v.toArray } }, "ok")
    | none => (sess, "bad-op")
  | ["train"], some s => (some { s with st := (step s.o s.st .train).1 }, "ok")
  | ["eval"], some s => (some { s with st := (step s.o s.st .eval).1 }, "ok")
  | ["state"], some s =>
    (sess, "st " ++ (if s.st.training then "1" else "0") ++ " ; " ++ stateLine s ++ " ; w "
      ++ showVec s.o.irreps.numIrreps s.st.weight ++ " ; b " ++ showVec s.o.irreps.numScalar s.st.bias)
  | "fwd" :: shp :: xs, some s =>
    match parseShape shp, xs.mapM parseRat with
    | some shape, some data =>
      match shapeBSD shape with
      | none => (sess, "error")
      | some (B, S, dim) =>
        let r := step s.o s.st (.forward B S dim (ofFlat S dim data.toArray))
        let s' : Sess := { s with st := r.1 }
        match r.2 with
        | .error => (some s', "error")
        | .outOfScope => (some s', "oos")
        | .none => (some s', "bad-op")
        | .tensor B S dim y =>
          (some s', "out " ++ " ".intercalate ((toFlat B S dim y).map showRat) ++ " ; " ++ stateLine s')
    | _, _ => (sess, "bad-op")
  | "drop" :: irr :: p :: tr :: shp :: mask :: xs, _ =>
    let r : Option String := do
      let irreps ← parseIrreps irr
      let p ← parseRat p
      let tr ← parseBool tr
      let shape ← parseShape shp
      let data ← xs.mapM parseRat
      let bits := mask.toList.toArray
      let nI := irreps.numIrreps
      -- offset of block k in the flat list of copies = its `irv` counter
      let offs := ((dblocks irreps).map (·.irv)).toArray
      let m : Nat → Nat → Nat → Bool := fun b k u => bits.getD (b * nI + offs.getD k 0 + u) '0' == '1'
      match shape with
      | [] => some "error"
      | [_] => some "bcast"
      | B :: rest =>
        let dim := rest.getLast?.getD 0
        let S := (rest.dropLast).foldl (· * ·) 1
        if !tr then some ("out " ++ " ".intercalate (data.map showRat))
        else if dim != irreps.dim then (if dim == 1 || irreps.dim == 1 then some "bcast" else some "error")
        else
          let y := dropout irreps p tr m (ofFlat S dim data.toArray)
          some ("out " ++ " ".intercalate ((toFlat B S dim y).map showRat))
    (sess, r.getD "bad-op")
  | _, _ => (sess, "bad-op")

partial def loop (hin hout : IO.FS.Stream) (sess : Option Sess) : IO Unit := do
  let line ← hin.getLine
  if line.isEmpty then return
  let l := String.ofList (line.toList.filter fun c => c != '\n' && c != '\r')
  let toks := (l.splitOn " ").filter (· ≠ "")
  if toks.isEmpty then loop hin hout sess
  else
    let (sess', out) := handle sess toks
    hout.putStrLn out
    loop hin hout sess'

def main : IO Unit := do
  let hin ← IO.getStdin
  let hout ← IO.getStdout
  loop hin hout none
  hout.flush
