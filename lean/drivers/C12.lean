import E3nnVerif.Model.Rotation
/-
Line protocol driver for C12 (Float instance of the `_rotation.py` model).
  input line :  <function> <u64> <u64> ...      every float64 argument as the decimal value of its bit pattern
  output line:  ok <u64> ...   |   error:AssertionError   |   error:bad-op
Floats are never printed as text: exact bit patterns travel both ways, the comparison (with tolerance)
happens in python.
-/
open E3nnVerif E3nnVerif.Rotation

def fbits (x : Float) : String := toString x.toBits.toNat

def outV (v : Vec3 Float) : List Float := [v.x, v.y, v.z]
def outQ (q : Quat Float) : List Float := [q.w, q.x, q.y, q.z]
def outM (m : Mat3 Float) : List Float := [m.m00, m.m01, m.m02, m.m10, m.m11, m.m12, m.m20, m.m21, m.m22]
def outA (a : Angles Float) : List Float := [a.alpha, a.beta, a.gamma]
def outAA (a : AxisAngle Float) : List Float := [a.axis.x, a.axis.y, a.axis.z, a.angle]

def okLine (xs : List Float) : String := " ".intercalate ("ok" :: xs.map fbits)
def optLine {α : Type} (f : α → List Float) : Option α → String
  | some a => okLine (f a)
  | none => "error:AssertionError"

def mkM : List Float → Option (Mat3 Float)
  | [a, b, c, d, e, f, g, h, i] => some ⟨a, b, c, d, e, f, g, h, i⟩
  | _ => none

def handle (op : String) (a : List Float) : String :=
  match op, a with
  | "identity_angles", [] => okLine (outA (identity_angles : Angles Float))
  | "identity_quaternion", [] => okLine (outQ (identity_quaternion : Quat Float))
  | "matrix_x", [t] => okLine (outM (matrix_x t))
  | "matrix_y", [t] => okLine (outM (matrix_y t))
  | "matrix_z", [t] => okLine (outM (matrix_z t))
  | "angles_to_matrix", [x, y, z] => okLine (outM (angles_to_matrix x y z))
  | "angles_to_xyz", [x, y] => okLine (outV (angles_to_xyz x y))
  | "xyz_to_angles", [x, y, z] => let r := xyz_to_angles (⟨x, y, z⟩ : Vec3 Float); okLine [r.1, r.2]
  | "compose_angles", [a1, b1, c1, a2, b2, c2] => optLine outA (compose_angles a1 b1 c1 a2 b2 c2)
  | "inverse_angles", [x, y, z] => okLine (outA (inverse_angles x y z))
  | "compose_quaternion", [a0, a1, a2, a3, b0, b1, b2, b3] =>
      okLine (outQ (compose_quaternion ⟨a0, a1, a2, a3⟩ ⟨b0, b1, b2, b3⟩))
  | "inverse_quaternion", [a0, a1, a2, a3] => okLine (outQ (inverse_quaternion ⟨a0, a1, a2, a3⟩))
  | "axis_angle_to_quaternion", [x, y, z, t] => okLine (outQ (axis_angle_to_quaternion ⟨x, y, z⟩ t))
  | "quaternion_to_axis_angle", [a0, a1, a2, a3] => okLine (outAA (quaternion_to_axis_angle ⟨a0, a1, a2, a3⟩))
  | "axis_angle_to_matrix", [x, y, z, t] => okLine (outM (axis_angle_to_matrix ⟨x, y, z⟩ t))
  | "angles_to_axis_angle", [x, y, z] => optLine outAA (angles_to_axis_angle x y z)
  | "axis_angle_to_angles", [x, y, z, t] => optLine outA (axis_angle_to_angles ⟨x, y, z⟩ t)
  | "quaternion_to_matrix", [a0, a1, a2, a3] => okLine (outM (quaternion_to_matrix ⟨a0, a1, a2, a3⟩))
  | "quaternion_to_angles", [a0, a1, a2, a3] => optLine outA (quaternion_to_angles ⟨a0, a1, a2, a3⟩)
  | "angles_to_quaternion", [x, y, z] => okLine (outQ (angles_to_quaternion x y z))
  | "compose_axis_angle", [x1, y1, z1, t1, x2, y2, z2, t2] =>
      okLine (outAA (compose_axis_angle ⟨x1, y1, z1⟩ t1 ⟨x2, y2, z2⟩ t2))
  | "matrix_to_angles", m =>
      match mkM m with
      | some R => optLine outA (matrix_to_angles R)
      | none => "error:bad-op"
  | "matrix_to_axis_angle", m =>
      match mkM m with
      | some R => optLine outAA (matrix_to_axis_angle R)
      | none => "error:bad-op"
  | "matrix_to_quaternion", m =>
      match mkM m with
      | some R => optLine outQ (matrix_to_quaternion R)
      | none => "error:bad-op"
  | _, _ => "error:bad-op"

def parseLine (line : String) : String :=
  match (line.splitOn " ").filter (· ≠ "") with
  | [] => "error:bad-op"
  | op :: args =>
    match args.mapM (fun s => s.toNat?) with
    | some ns => handle op (ns.map fun n => Float.ofBits (UInt64.ofNat n))
    | none => "error:bad-op"

partial def loop (hin hout : IO.FS.Stream) : IO Unit := do
  let line ← hin.getLine
  if line.isEmpty then return
  let l := String.ofList (line.toList.filter fun c => c != '\n' && c != '\r')
  if l.isEmpty then loop hin hout
  else
    hout.putStrLn (parseLine l)
    loop hin hout

def main : IO Unit := do
  let hin ← IO.getStdin
  let hout ← IO.getStdout
  loop hin hout
  hout.flush
