import E3nnVerif.Generated.LIN.Registry
import E3nnVerif.Model.LinearSpec
/-
Line protocol for C08 (o3.Linear):
  run <name> <seed>   -> "run <name> | prog: v ; v ; ... | spec: ... | block: ..."
                         exact outputs (Σ (n/d)√r, printed "n d r + n d r") of the translated FX program, of the
                         specification program and of the entry-wise specification on the integer inputs `inputVal seed i`
  info <name>         -> "info <name> weight_numel=.. bias_numel=.. offsets=o0,o1,.. mask=0/1.. zero=0/1.."
  ctor <cfg>          -> "ctor ok weight_numel=.. bias_numel=.. ins=i:o,.. bias_outs=.. mask=.. coefs=n d r,.."  |  "ctor error:<Class>"
  eval <cfg> <seed>   -> "eval v ; v ; ..."   entry-wise specification of an ARBITRARY configuration at the integer inputs
  cfg := <inn> <out> <ins> <norm> <biases> <chan> <shared> <B>
         inn/out: "2:0:e,1:1:o" or "-" ; ins: "0:0,1:1" | "-" | "default" ; norm: 0 element / 1 path ;
         biases: "true" | "false" | "101" | "-" ; chan: "none" | "2:3" ; shared: 0/1
-/
open E3nnVerif.IR E3nnVerif.Exact E3nnVerif.Model.Lin E3nnVerif.Generated.LIN

instance : Sca SqrtQ where
  zero := []
  one := SqrtQ.one
  ofC := id

def inputVal (seed i : Nat) : Int := ((seed * 7919 + i * 104729) % 7 : Nat) - 3

def showS (s : SqrtQ) : String :=
  if s.isEmpty then "0 1 1" else " + ".intercalate (s.map fun t => s!"{t.2.n} {t.2.den} {t.1}")

def showV (v : List SqrtQ) : String := " ; ".intercalate (v.map showS)

def parseEntry (s : String) : Option Entry :=
  match s.splitOn ":" with
  | [m, l, p] =>
    match m.toNat?, l.toNat? with
    | some m, some l => if p == "e" then some (m, l, false) else if p == "o" then some (m, l, true) else none
    | _, _ => none
  | _ => none

def parseList {α} (f : String → Option α) (s : String) : Option (List α) :=
  if s == "-" then some [] else (s.splitOn ",").mapM f

def parsePair (s : String) : Option (Nat × Nat) :=
  match s.splitOn ":" with
  | [a, b] => match a.toNat?, b.toNat? with
    | some a, some b => some (a, b)
    | _, _ => none
  | _ => none

def parseCfg (t : List String) : Option Cfg :=
  match t with
  | [inn, out, ins, norm, biases, chan, shared, B] => do
    let inn ← parseList parseEntry inn
    let out ← parseList parseEntry out
    let ins ← if ins == "default" then some (defaultIns inn out) else parseList parsePair ins
    let norm ← norm.toNat?
    let biases ← if biases == "true" then some (defaultBiases out true)
      else if biases == "false" then some (defaultBiases out false)
      else if biases == "-" then some []
      else some (biases.toList.map fun ch => ch == '1')
    let chan ← if chan == "none" then some none else (parsePair chan).map some
    let B ← B.toNat?
    some { inn := inn, out := out, ins := ins, pathNorm := norm, biases := biases, chan := chan, shared := shared == "1", B := B }
  | _ => none

def bits (l : List Bool) : String := String.join (l.map fun b => if b then "1" else "0")

def step (line : String) : String :=
  match line.trimAscii.toString.splitOn " " with
  | ["run", name, seed] =>
    match registry.find? (fun e => e.1 == name), seed.toNat? with
    | some e, some sd =>
      let mk : Nat → SqrtQ := fun i => SqrtQ.ofInt (inputVal sd i)
      let a := interp mk e.2.2
      let b := interp mk (specProg e.2.1)
      let d := blockSpec e.2.1 mk
      s!"run {name} | prog: {showV a} | spec: {showV b} | block: {showV d}"
    | _, _ => "bad-op"
  | ["info", name] =>
    match registry.find? (fun e => e.1 == name) with
    | some e =>
      let c := e.2.1
      let offs := ",".intercalate ((List.range c.ins.length).map fun k => toString (weightOffset c k))
      let polys := interpPoly e.2.2
      let dO := totalDim c.out
      let zero := bits ((polys.take dO).map fun p => p.isZero)
      s!"info {name} weight_numel={weightNumel c} bias_numel={biasNumel c} offsets={offs} mask={bits (outputMask c)} zero={zero}"
    | none => "bad-op"
  | "ctor" :: rest =>
    match parseCfg rest with
    | some c =>
      match validate c with
      | .error .indexError => "ctor error:IndexError"
      | .error .valueError => "ctor error:ValueError"
      | .error .assertionError => "ctor error:AssertionError"
      | .ok () =>
        let ins := ",".intercalate (c.ins.map fun k => s!"{k.1}:{k.2}")
        let bo := ",".intercalate (((List.range c.out.length).filter (hasBias c)).map toString)
        let coefs := ",".intercalate (c.ins.map fun k => showS (coef c k))
        s!"ctor ok weight_numel={weightNumel c} bias_numel={biasNumel c} ins={ins} bias_outs={bo} mask={bits (outputMask c)} coefs={coefs}"
    | none => "bad-op"
  | "eval" :: rest =>
    match parseCfg (rest.take 8), (rest.getD 8 "").toNat? with
    | some c, some sd =>
      match validate c with
      | .ok () => s!"eval {showV (blockSpec c fun i => SqrtQ.ofInt (inputVal sd i))}"
      | .error _ => "eval rejected"
    | _, _ => "bad-op"
  | _ => "bad-op"

partial def loop (h : IO.FS.Stream) : IO Unit := do
  let line ← h.getLine
  if line.isEmpty then return ()
  IO.println (step line)
  loop h

def main : IO Unit := do loop (← IO.getStdin)
