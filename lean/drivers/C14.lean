/-
Line-protocol driver for C14 (executes the models of E3nnVerif.Model.OptDefaults / CodegenState).

  variant asWritten|tryFinally      start a new history with that implementation of disable_e3nn_codegen
  enter | exit_normal | exit_exception
  set k=v,k=v,...                   v ∈ {0,1};  `set -` = no kwargs
  get
  mutate i k v
  construct tp|linear|sh|codegen <spec> <einsum>      spec, einsum ∈ {none,0,1}
  repickle i
  prepare_ok <cls> | prepare_raise
     -> "<outcome> store=<k=v,...> stack=<bits innermost first|-> nmods=<n> mod=<last module|-> dict=<touched returned dict|->"
  cg <scripted 0/1> <pre names|-> <gen names|-> <post names|-> <extra listed names|-> pickle|direct
     -> "ok modules=<name:kind,...> codegen=<names> fresh=<0/1> orig=<name:kind,...>"  |  "error:<PythonException>"
-/
import E3nnVerif.Model.OptDefaults
import E3nnVerif.Model.CodegenState

open E3nnVerif.Model

namespace C14Driver
open OptDefaults

def bit (b : Bool) : String := if b then "1" else "0"
def showDict (d : Dict) : String :=
  if d.isEmpty then "-" else ",".intercalate (d.map fun kv => kv.1 ++ "=" ++ bit kv.2)
def showOB : Option Bool → String
  | none => "none"
  | some b => bit b
def showCls : Cls → String
  | .tensorProduct => "tp" | .linear => "linear" | .sphericalHarmonics => "sh" | .codegenOnly => "codegen"
def showMod (m : Captured) : String :=
  showCls m.cls ++ "/" ++ showOB m.spec ++ "/" ++ showOB m.einsum ++ "/" ++ bit m.scripted
def showOutcome : Outcome → String
  | .ok => "ok" | .valueError => "error:ValueError" | .keyError => "error:KeyError"
  | .noContext => "error:noContext" | .badIndex => "error:badIndex"

def parseBit (s : String) : Bool := s == "1"
def parseOB (s : String) : Option Bool := if s == "none" then none else some (parseBit s)
def parseCls : String → Option Cls
  | "tp" => some .tensorProduct | "linear" => some .linear | "sh" => some .sphericalHarmonics
  | "codegen" => some .codegenOnly | _ => none
def parseKvs (s : String) : List (String × Bool) :=
  if s == "-" then [] else
  (s.splitOn ",").filterMap fun kv =>
    match kv.splitOn "=" with
    | [k, v] => some (k, parseBit v)
    | _ => none

def parseOps (op : String) (a : List String) : Option (List Op) :=
  match op, a with
  | "enter", [] => some [.enter]
  | "exit_normal", [] => some [.exitNormal]
  | "exit_exception", [] => some [.exitException]
  | "set", [kvs] => some [.set (parseKvs kvs)]
  | "get", [] => some [.get]
  | "mutate", [i, k, v] => some [.mutate i.toNat! k (parseBit v)]
  | "construct", [c, s, e] => (parseCls c).map fun c => [.construct c (parseOB s) (parseOB e)]
  | "repickle", [i] => some [.repickle i.toNat!]
  | "prepare_ok", [c] => (parseCls c).map prepareOk
  | "prepare_raise", [] => some prepareRaise
  | _, _ => none

/-- run the ops; the reported outcome is the first non-ok one (python: the exception that escapes) -/
def runOps (var : Variant) (w : World) (ops : List Op) : World × Outcome × Option Captured × Option Dict :=
  ops.foldl (fun (acc : World × Outcome × Option Captured × Option Dict) op =>
    let (w, oc, lm, ld) := acc
    let (w', oc') := step var w op
    let lm' := if w'.mods.length > w.mods.length then w'.mods.getLast? else lm
    let ld' := match op with
      | .get => w'.rets.getLast?.bind w'.read
      | .mutate i _ _ => (w'.rets[i]?).bind w'.read
      | _ => ld
    (w', if oc == .ok then oc' else oc, lm', ld')) (w, .ok, none, none)

def report (w : World) (oc : Outcome) (lm : Option Captured) (ld : Option Dict) : String :=
  showOutcome oc ++ " store=" ++ showDict w.store ++ " stack=" ++
    (if w.stack.isEmpty then "-" else String.join (w.stack.map bit)) ++
    " nmods=" ++ toString w.mods.length ++ " mod=" ++ (match lm with | some m => showMod m | none => "-") ++
    " dict=" ++ (match ld with | some d => showDict d | none => "-")

/-! codegen state -/
open CodegenState

def names (s : String) : List String := if s == "-" then [] else s.splitOn ","
def showSub : Sub → String
  | .fx _ => "fx" | .ts _ => "torchscript" | .plain _ => "plain"
def showMods (ms : Modules) : String :=
  if ms.isEmpty then "-" else ",".intercalate (ms.map fun p => p.1 ++ ":" ++ showSub p.2)
def showErr : Err → String
  | .attributeError => "error:AttributeError" | .assertionError => "error:AssertionError"
  | .keyError => "error:KeyError"

/-- number the payloads so that every child is distinguishable -/
def enum (l : List String) (start : Nat) : List (String × Nat) :=
  (l.zipIdx start)

def cg (scripted : Bool) (pre gen post extra : List String) (mode : String) (swap : List String := []) : String :=
  let o0 : Obj := ⟨[("attr", 0)], 0, none⟩
  let h0 : Heap := [(enum pre 100).map fun p => (p.1, Sub.plain p.2)]
  -- one `_codegen_register` call per generated name (a second call with the same name is how a duplicate arises)
  let (h1, o1) := (enum gen 200).foldl (fun (acc : Heap × Obj) p => register acc.1 acc.2 scripted [p]) (h0, o0)
  let h2 := (enum post 300).foldl (fun hh p => addChild hh o1 p.1 (.plain p.2)) h1
  let o2 : Obj := if extra.isEmpty then o1 else { o1 with codegen := some ((o1.codegen.getD []) ++ extra) }
  -- what `e3nn.util.jit.compile(m)` does in place to generated fx children: `setattr(m, name, torch.jit.script(child))`
  let h2 := swap.foldl (fun hh nm =>
    match ODict.getKey? ((hh[o2.modules]?).getD []) nm with
    | some (.fx p) => addChild hh o2 nm (.ts p)
    | _ => hh) h2
  let orig := (h2[o2.modules]?).getD []
  let r := if mode == "direct" then roundtripDirect h2 o2 else roundtrip h2 o2
  match r with
  | .error e => showErr e
  | .ok (h3, o3) =>
      let ms := (h3[o3.modules]?).getD []
      "ok modules=" ++ showMods ms ++ " codegen=" ++
        (match o3.codegen with | none => "none" | some l => if l.isEmpty then "-" else ",".intercalate l) ++
        " fresh=" ++ bit (o3.modules != o2.modules) ++ " orig=" ++ showMods ((h3[o2.modules]?).getD []) ++
        " same=" ++ bit (orig == (h3[o2.modules]?).getD [])

end C14Driver

open C14Driver in
partial def loop (h : IO.FS.Stream) (out : IO.FS.Stream) (var : OptDefaults.Variant) (w : OptDefaults.World) : IO Unit := do
  let line ← h.getLine
  if line.isEmpty then return
  let l := (line.replace "\n" "").replace "\r" ""
  match l.splitOn " " with
  | ["variant", v] =>
      out.putStrLn ("ok variant " ++ v)
      loop h out (if v == "tryFinally" then .tryFinally else .asWritten) OptDefaults.init
  | ["cg", s, pre, gen, post, extra, mode] =>
      out.putStrLn (cg (parseBit s) (names pre) (names gen) (names post) (names extra) mode)
      loop h out var w
  | ["cg", s, pre, gen, post, extra, mode, swap] =>
      out.putStrLn (cg (parseBit s) (names pre) (names gen) (names post) (names extra) mode (names swap))
      loop h out var w
  | op :: args =>
      match parseOps op args with
      | none => out.putStrLn "error:bad-op"; loop h out var w
      | some ops =>
          let (w', oc, lm, ld) := runOps var w ops
          out.putStrLn (report w' oc lm ld)
          loop h out var w'
  | [] => out.putStrLn "error:bad-op"; loop h out var w

def main : IO Unit := do
  let i ← IO.getStdin
  let o ← IO.getStdout
  loop i o .asWritten OptDefaults.init
