import E3nnVerif.Generated.RTP.Registry
/-
Line protocol for C10 (the ReducedTensorProducts configurations of this run, Generated/RTP/Registry.lean):
  info <name>        -> "info <name> D=<n> dims=<d,..> irout=<l:p,..> irin=<l:p,..|..> terms=<s:p;..> group=<s:p;..> orbits=<n>
                         formula-terms=<ok|mismatch> complete=<0/1> nprog=<number of IR nodes>"
                        discrete content of the exact model; `group` is recomputed by C17's germinate model, `orbits` is the
                        number of rows of C17's reduce_permutation model, `formula-terms` compares `cfg.terms` with C17's parse
                        of the formula STRING
  row <name> <z>     -> "row <name> <z> | n d r ; n d r ; ..."   the exact entries (n/d)·√r of row z, row-major
  xout <name> <a>    -> "xout <name> <a> | r c n d rad ; ..."    non-zero entries of the block-diagonal generator of irreps_out
  run <name> <seed>  -> "run <name> | prog: v ; v ; ... | spec: v ; v ; ..."  exact outputs of the translated FX program and of
                        the contraction of the exact Q with the inputs, on the deterministic integer inputs `inputVal seed i`
-/
open E3nnVerif.IR E3nnVerif.Exact E3nnVerif.Model.RTP E3nnVerif.Generated.RTP E3nnVerif.ReduceModel E3nnVerif.Model.Wigner

instance : Sca SqrtQ where
  zero := []
  one := SqrtQ.one
  ofC := id

def inputVal (seed i : Nat) : Int := ((seed * 7919 + i * 104729) % 7 : Nat) - 3

def showS (s : SqrtQ) : String :=
  if s.isEmpty then "0 1 1" else " + ".intercalate (s.map fun t => s!"{t.2.n} {t.2.den} {t.1}")

def showV (v : List SqrtQ) : String := " ; ".intercalate (v.map showS)

def showNats (l : List Nat) : String := if l.isEmpty then "-" else ",".intercalate (l.map toString)
def showSigned (l : List SPerm) : String :=
  if l.isEmpty then "~" else ";".intercalate (l.map fun sp => s!"{sp.1}:{showNats sp.2}")
def showIrs (l : List Ir) : String := if l.isEmpty then "-" else ",".intercalate (l.map fun ir => s!"{ir.1}:{if ir.2 then "o" else "e"}")

/-- all multi-indices in row-major order -/
def allIdxList : List (List Ir) → List (List Nat)
  | [] => [[]]
  | s :: L => (List.range (irDim s)).flatMap fun k => (allIdxList L).map fun t => k :: t

/-- `Σ_x t[x] · Π_k xs[k][x_k]` -/
def contract : (L : List (List Ir)) → Tens L → List (List SqrtQ) → SqrtQ
  | [], v, _ => v
  | _ :: _, _, [] => []
  | s :: L, t, x :: xs =>
    dotRange (irDim s) fun k => (x.getD k []) * contract L (t.getD k (tz L)) xs

def termsOk (formula : String) (c : Cfg) : Bool :=
  match parseTerms formula with
  | [] => false
  | (s0, f0) :: rest => c.terms == (((s0, f0) :: rest).map (termPerm f0)) && c.nIdx == f0.length &&
      (match germinateFormulas formula with
       | .ok (_, g) => g == c.group
       | .error _ => false)

def step (line : String) : String :=
  match line.trimAscii.toString.splitOn " " with
  | ["info", name] =>
    match registry.find? (fun e => e.1 == name) with
    | some (_, formula, c, prog) =>
      let irin := "|".intercalate (c.irIn.map showIrs)
      s!"info {name} D={c.D} dims={showNats c.dims} irout={showIrs c.irOut} irin={irin} terms={showSigned c.terms} " ++
      s!"group={showSigned c.group} orbits={(reduceCore c.group c.dims).length} " ++
      s!"formula-terms={if termsOk formula c then "ok" else "mismatch"} complete={if c.complete then 1 else 0} nprog={prog.length}"
    | none => "bad-op"
  | ["row", name, z] =>
    match registry.find? (fun e => e.1 == name), z.toNat? with
    | some (_, _, c, _), some z =>
      s!"row {name} {z} | {showV ((allIdxList c.irIn).map fun x => tget c.irIn (c.row z) x)}"
    | _, _ => "bad-op"
  | ["xout", name, a] =>
    match registry.find? (fun e => e.1 == name), a.toNat? with
    | some (_, _, c, _), some a =>
      let X := bdMat a c.irOut
      let ents := (List.range c.D).flatMap fun r => (List.range c.D).filterMap fun col =>
        let v := X.get r col
        if v.isEmpty then none else some s!"{r} {col} {showS v}"
      s!"xout {name} {a} | {" ; ".intercalate ents}"
    | _, _ => "bad-op"
  | ["run", name, seed, bsz] =>
    match registry.find? (fun e => e.1 == name), seed.toNat?, bsz.toNat? with
    | some (_, _, c, prog), some sd, some B =>
      let mk : Nat → SqrtQ := fun i => SqrtQ.ofInt (inputVal sd i)
      let a := interp mk prog
      -- inputs: input k occupies B·d_k consecutive variables, row-major (batch, component)
      let spec := (List.range B).flatMap fun b =>
        let bases := varBases B b 0 c.irIn
        let xs := (List.zip bases c.dims).map fun bd => (List.range bd.2).map fun j => mk (bd.1 + j)
        (List.range c.D).map fun z => contract c.irIn (c.row z) xs
      s!"run {name} | prog: {showV a} | spec: {showV spec}"
    | _, _, _ => "bad-op"
  | _ => "bad-op"

partial def loop (h : IO.FS.Stream) : IO Unit := do
  let line ← h.getLine
  if line.isEmpty then return ()
  IO.println (step line)
  loop h

def main : IO Unit := do loop (← IO.getStdin)
