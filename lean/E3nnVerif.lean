-- Root of the `E3nnVerif` library (written by harness/gen_manifest.py): `lake build` = MANIFEST.setup_cmd builds all of it.
import E3nnVerif.Props.C04Main
import E3nnVerif.Props.C05Main
import E3nnVerif.Props.C04
import E3nnVerif.Props.C05
import E3nnVerif.Props.C06
import E3nnVerif.Props.C12
import E3nnVerif.Props.C13
import E3nnVerif.Props.C14
import E3nnVerif.Props.C17
import E3nnVerif.Props.C20
