import E3nnVerif.Cert.LIN.C19.R000
import E3nnVerif.Cert.LIN.C19.R001
import E3nnVerif.Cert.LIN.C19.R002
import E3nnVerif.Cert.LIN.C19.R003
