import E3nnVerif.Cert.LIN.C08.R000
import E3nnVerif.Cert.LIN.C08.R001
import E3nnVerif.Cert.LIN.C08.R002
import E3nnVerif.Cert.LIN.C08.R003
