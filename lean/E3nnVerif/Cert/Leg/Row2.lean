import E3nnVerif.Generated.Legendre
/- kernel certificate (static file; the table it speaks about is regenerated from o3.Legendre's FX graph on every run):
   orthonormality under ½∫(·) sin β dβ of the Legendre rows of degree 2 against every degree ≤ legLmax, all orders -/
namespace E3nnVerif.Cert.Leg
open E3nnVerif.Legendre E3nnVerif.Generated
theorem row2 : krCheckRow legTable 11 2 = true := by decide +kernel
end E3nnVerif.Cert.Leg
