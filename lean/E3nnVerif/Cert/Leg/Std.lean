import Mathlib.Tactic.IntervalCases
import E3nnVerif.Generated.Legendre
/- kernel certificates (static file; the table is regenerated from o3.Legendre's FX graph on every run): every row of degree l <= 11 equals,
   coefficient by coefficient (squares and signs, rational arithmetic), the documented formula
   sqrt((2l+1)/(4 pi) (l-m)!/(l+m)!) * y^m * 1/(2^l l!) * d^(l+m)/dz^(l+m) (z^2-1)^l -/
namespace E3nnVerif.Cert.Leg
open E3nnVerif.Legendre E3nnVerif.Generated

theorem std_0 : stdCheck legTable 0 = true := by decide +kernel
theorem std_1 : stdCheck legTable 1 = true := by decide +kernel
theorem std_2 : stdCheck legTable 2 = true := by decide +kernel
theorem std_3 : stdCheck legTable 3 = true := by decide +kernel
theorem std_4 : stdCheck legTable 4 = true := by decide +kernel
theorem std_5 : stdCheck legTable 5 = true := by decide +kernel
theorem std_6 : stdCheck legTable 6 = true := by decide +kernel
theorem std_7 : stdCheck legTable 7 = true := by decide +kernel
theorem std_8 : stdCheck legTable 8 = true := by decide +kernel
theorem std_9 : stdCheck legTable 9 = true := by decide +kernel
theorem std_10 : stdCheck legTable 10 = true := by decide +kernel
theorem std_11 : stdCheck legTable 11 = true := by decide +kernel

theorem std_le11 (l : Nat) (hl : l ≤ 11) : stdCheck legTable l = true := by
  interval_cases l
  · exact std_0
  · exact std_1
  · exact std_2
  · exact std_3
  · exact std_4
  · exact std_5
  · exact std_6
  · exact std_7
  · exact std_8
  · exact std_9
  · exact std_10
  · exact std_11

end E3nnVerif.Cert.Leg
