import Mathlib.Tactic.IntervalCases
import E3nnVerif.Cert.Leg.Row0
import E3nnVerif.Cert.Leg.Row1
import E3nnVerif.Cert.Leg.Row2
import E3nnVerif.Cert.Leg.Row3
import E3nnVerif.Cert.Leg.Row4
import E3nnVerif.Cert.Leg.Row5
import E3nnVerif.Cert.Leg.Row6
import E3nnVerif.Cert.Leg.Row7
import E3nnVerif.Cert.Leg.Row8
import E3nnVerif.Cert.Leg.Row9
import E3nnVerif.Cert.Leg.Row10
import E3nnVerif.Cert.Leg.Row11
/- the twelve row certificates assembled: `krCheckAll legTable 11 = true` -/
namespace E3nnVerif.Cert.Leg
open E3nnVerif.Legendre E3nnVerif.Generated

theorem legAll : krCheckAll legTable 11 = true := by
  unfold krCheckAll
  rw [List.all_eq_true]
  intro l hl
  have h := List.mem_range.mp hl
  interval_cases l
  · exact row0
  · exact row1
  · exact row2
  · exact row3
  · exact row4
  · exact row5
  · exact row6
  · exact row7
  · exact row8
  · exact row9
  · exact row10
  · exact row11

end E3nnVerif.Cert.Leg
