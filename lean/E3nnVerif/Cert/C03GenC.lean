import E3nnVerif.Model.WignerChecks
/- C03: generator certificates (skew, real, commutation relations, Casimir) beyond Cert/Gen.lean's l ≤ 5; kernel-decided, no axioms -/
namespace E3nnVerif.Cert.C03
open E3nnVerif.Model.Wigner

theorem gen_11 : genCert 11 = true := by decide +kernel

end E3nnVerif.Cert.C03
