import E3nnVerif.Model.WignerD
/- C03: kernel-decided structure of the exact generator tables (no axioms).
   `genYBlockCheck l`: `so3_generators(l)[1]` is the anti-diagonal matrix `(r, 2l−r) ↦ l−r`;
   `genL1Check`: for `l = 1` the generators are the so(3) basis in the library's axis order. -/
namespace E3nnVerif.Cert.C03
open E3nnVerif.Model.WignerD

theorem genL1 : genL1Check = true := by decide +kernel
theorem genY_0 : genYBlockCheck 0 = true := by decide +kernel
theorem genY_1 : genYBlockCheck 1 = true := by decide +kernel
theorem genY_2 : genYBlockCheck 2 = true := by decide +kernel
theorem genY_3 : genYBlockCheck 3 = true := by decide +kernel
theorem genY_4 : genYBlockCheck 4 = true := by decide +kernel
theorem genY_5 : genYBlockCheck 5 = true := by decide +kernel
theorem genY_6 : genYBlockCheck 6 = true := by decide +kernel
theorem genY_7 : genYBlockCheck 7 = true := by decide +kernel
theorem genY_8 : genYBlockCheck 8 = true := by decide +kernel
theorem genY_9 : genYBlockCheck 9 = true := by decide +kernel
theorem genY_10 : genYBlockCheck 10 = true := by decide +kernel
theorem genY_11 : genYBlockCheck 11 = true := by decide +kernel

end E3nnVerif.Cert.C03
