import Mathlib.Tactic.IntervalCases
import E3nnVerif.Model.AngChecks
import E3nnVerif.Generated.SH
import E3nnVerif.Generated.Legendre
/- kernel certificates (static file; both tables it speaks about are regenerated on every run — Generated/SH.lean from the source
   text of _spherical_harmonics, Generated/Legendre.lean from the FX graph of o3.Legendre): for degree 3 the Cartesian spherical
   harmonics at angles_to_xyz(alpha, beta) and the angular form sha(alpha) * Legendre(cos beta, sin beta) are the same polynomial
   modulo sin^2 + cos^2 = 1 -/
namespace E3nnVerif.Cert.Ang
open E3nnVerif.Ang E3nnVerif.Model.SH E3nnVerif.Generated.SH E3nnVerif.Generated E3nnVerif.IR

theorem ang_3_0 : angCheck1 (select (evalProg prog) index) legTable 3 0 = true := by decide +kernel
theorem ang_3_1 : angCheck1 (select (evalProg prog) index) legTable 3 1 = true := by decide +kernel
theorem ang_3_2 : angCheck1 (select (evalProg prog) index) legTable 3 2 = true := by decide +kernel
theorem ang_3_3 : angCheck1 (select (evalProg prog) index) legTable 3 3 = true := by decide +kernel
theorem ang_3_4 : angCheck1 (select (evalProg prog) index) legTable 3 4 = true := by decide +kernel
theorem ang_3_5 : angCheck1 (select (evalProg prog) index) legTable 3 5 = true := by decide +kernel
theorem ang_3_6 : angCheck1 (select (evalProg prog) index) legTable 3 6 = true := by decide +kernel

theorem ang_3 : angCheck (select (evalProg prog) index) legTable 3 = true := by
  unfold angCheck
  rw [List.all_eq_true]
  intro k hk
  have h := List.mem_range.mp hk
  interval_cases k
  · exact ang_3_0
  · exact ang_3_1
  · exact ang_3_2
  · exact ang_3_3
  · exact ang_3_4
  · exact ang_3_5
  · exact ang_3_6

end E3nnVerif.Cert.Ang
