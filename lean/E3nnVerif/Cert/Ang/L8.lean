import Mathlib.Tactic.IntervalCases
import E3nnVerif.Model.AngChecks
import E3nnVerif.Generated.SH
import E3nnVerif.Generated.Legendre
/- kernel certificates (static file; both tables it speaks about are regenerated on every run — Generated/SH.lean from the source
   text of _spherical_harmonics, Generated/Legendre.lean from the FX graph of o3.Legendre): for degree 8 the Cartesian spherical
   harmonics at angles_to_xyz(alpha, beta) and the angular form sha(alpha) * Legendre(cos beta, sin beta) are the same polynomial
   modulo sin^2 + cos^2 = 1 -/
namespace E3nnVerif.Cert.Ang
open E3nnVerif.Ang E3nnVerif.Model.SH E3nnVerif.Generated.SH E3nnVerif.Generated E3nnVerif.IR

theorem ang_8_0 : angCheck1 (select (evalProg prog) index) legTable 8 0 = true := by decide +kernel
theorem ang_8_1 : angCheck1 (select (evalProg prog) index) legTable 8 1 = true := by decide +kernel
theorem ang_8_2 : angCheck1 (select (evalProg prog) index) legTable 8 2 = true := by decide +kernel
theorem ang_8_3 : angCheck1 (select (evalProg prog) index) legTable 8 3 = true := by decide +kernel
theorem ang_8_4 : angCheck1 (select (evalProg prog) index) legTable 8 4 = true := by decide +kernel
theorem ang_8_5 : angCheck1 (select (evalProg prog) index) legTable 8 5 = true := by decide +kernel
theorem ang_8_6 : angCheck1 (select (evalProg prog) index) legTable 8 6 = true := by decide +kernel
theorem ang_8_7 : angCheck1 (select (evalProg prog) index) legTable 8 7 = true := by decide +kernel
theorem ang_8_8 : angCheck1 (select (evalProg prog) index) legTable 8 8 = true := by decide +kernel
theorem ang_8_9 : angCheck1 (select (evalProg prog) index) legTable 8 9 = true := by decide +kernel
theorem ang_8_10 : angCheck1 (select (evalProg prog) index) legTable 8 10 = true := by decide +kernel
theorem ang_8_11 : angCheck1 (select (evalProg prog) index) legTable 8 11 = true := by decide +kernel
theorem ang_8_12 : angCheck1 (select (evalProg prog) index) legTable 8 12 = true := by decide +kernel
theorem ang_8_13 : angCheck1 (select (evalProg prog) index) legTable 8 13 = true := by decide +kernel
theorem ang_8_14 : angCheck1 (select (evalProg prog) index) legTable 8 14 = true := by decide +kernel
theorem ang_8_15 : angCheck1 (select (evalProg prog) index) legTable 8 15 = true := by decide +kernel
theorem ang_8_16 : angCheck1 (select (evalProg prog) index) legTable 8 16 = true := by decide +kernel

theorem ang_8 : angCheck (select (evalProg prog) index) legTable 8 = true := by
  unfold angCheck
  rw [List.all_eq_true]
  intro k hk
  have h := List.mem_range.mp hk
  interval_cases k
  · exact ang_8_0
  · exact ang_8_1
  · exact ang_8_2
  · exact ang_8_3
  · exact ang_8_4
  · exact ang_8_5
  · exact ang_8_6
  · exact ang_8_7
  · exact ang_8_8
  · exact ang_8_9
  · exact ang_8_10
  · exact ang_8_11
  · exact ang_8_12
  · exact ang_8_13
  · exact ang_8_14
  · exact ang_8_15
  · exact ang_8_16

end E3nnVerif.Cert.Ang
