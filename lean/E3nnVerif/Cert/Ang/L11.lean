import Mathlib.Tactic.IntervalCases
import E3nnVerif.Model.AngChecks
import E3nnVerif.Generated.SH
import E3nnVerif.Generated.Legendre
/- kernel certificates (static file; both tables it speaks about are regenerated on every run — Generated/SH.lean from the source
   text of _spherical_harmonics, Generated/Legendre.lean from the FX graph of o3.Legendre): for degree 11 the Cartesian spherical
   harmonics at angles_to_xyz(alpha, beta) and the angular form sha(alpha) * Legendre(cos beta, sin beta) are the same polynomial
   modulo sin^2 + cos^2 = 1 -/
namespace E3nnVerif.Cert.Ang
open E3nnVerif.Ang E3nnVerif.Model.SH E3nnVerif.Generated.SH E3nnVerif.Generated E3nnVerif.IR

theorem ang_11_0 : angCheck1 (select (evalProg prog) index) legTable 11 0 = true := by decide +kernel
theorem ang_11_1 : angCheck1 (select (evalProg prog) index) legTable 11 1 = true := by decide +kernel
theorem ang_11_2 : angCheck1 (select (evalProg prog) index) legTable 11 2 = true := by decide +kernel
theorem ang_11_3 : angCheck1 (select (evalProg prog) index) legTable 11 3 = true := by decide +kernel
theorem ang_11_4 : angCheck1 (select (evalProg prog) index) legTable 11 4 = true := by decide +kernel
theorem ang_11_5 : angCheck1 (select (evalProg prog) index) legTable 11 5 = true := by decide +kernel
theorem ang_11_6 : angCheck1 (select (evalProg prog) index) legTable 11 6 = true := by decide +kernel
theorem ang_11_7 : angCheck1 (select (evalProg prog) index) legTable 11 7 = true := by decide +kernel
theorem ang_11_8 : angCheck1 (select (evalProg prog) index) legTable 11 8 = true := by decide +kernel
theorem ang_11_9 : angCheck1 (select (evalProg prog) index) legTable 11 9 = true := by decide +kernel
theorem ang_11_10 : angCheck1 (select (evalProg prog) index) legTable 11 10 = true := by decide +kernel
theorem ang_11_11 : angCheck1 (select (evalProg prog) index) legTable 11 11 = true := by decide +kernel
theorem ang_11_12 : angCheck1 (select (evalProg prog) index) legTable 11 12 = true := by decide +kernel
theorem ang_11_13 : angCheck1 (select (evalProg prog) index) legTable 11 13 = true := by decide +kernel
theorem ang_11_14 : angCheck1 (select (evalProg prog) index) legTable 11 14 = true := by decide +kernel
theorem ang_11_15 : angCheck1 (select (evalProg prog) index) legTable 11 15 = true := by decide +kernel
theorem ang_11_16 : angCheck1 (select (evalProg prog) index) legTable 11 16 = true := by decide +kernel
theorem ang_11_17 : angCheck1 (select (evalProg prog) index) legTable 11 17 = true := by decide +kernel
theorem ang_11_18 : angCheck1 (select (evalProg prog) index) legTable 11 18 = true := by decide +kernel
theorem ang_11_19 : angCheck1 (select (evalProg prog) index) legTable 11 19 = true := by decide +kernel
theorem ang_11_20 : angCheck1 (select (evalProg prog) index) legTable 11 20 = true := by decide +kernel
theorem ang_11_21 : angCheck1 (select (evalProg prog) index) legTable 11 21 = true := by decide +kernel
theorem ang_11_22 : angCheck1 (select (evalProg prog) index) legTable 11 22 = true := by decide +kernel

theorem ang_11 : angCheck (select (evalProg prog) index) legTable 11 = true := by
  unfold angCheck
  rw [List.all_eq_true]
  intro k hk
  have h := List.mem_range.mp hk
  interval_cases k
  · exact ang_11_0
  · exact ang_11_1
  · exact ang_11_2
  · exact ang_11_3
  · exact ang_11_4
  · exact ang_11_5
  · exact ang_11_6
  · exact ang_11_7
  · exact ang_11_8
  · exact ang_11_9
  · exact ang_11_10
  · exact ang_11_11
  · exact ang_11_12
  · exact ang_11_13
  · exact ang_11_14
  · exact ang_11_15
  · exact ang_11_16
  · exact ang_11_17
  · exact ang_11_18
  · exact ang_11_19
  · exact ang_11_20
  · exact ang_11_21
  · exact ang_11_22

end E3nnVerif.Cert.Ang
