import Mathlib.Tactic.IntervalCases
import E3nnVerif.Model.AngChecks
import E3nnVerif.Generated.SH
import E3nnVerif.Generated.Legendre
/- kernel certificates (static file; both tables it speaks about are regenerated on every run — Generated/SH.lean from the source
   text of _spherical_harmonics, Generated/Legendre.lean from the FX graph of o3.Legendre): for degree 4 the Cartesian spherical
   harmonics at angles_to_xyz(alpha, beta) and the angular form sha(alpha) * Legendre(cos beta, sin beta) are the same polynomial
   modulo sin^2 + cos^2 = 1 -/
namespace E3nnVerif.Cert.Ang
open E3nnVerif.Ang E3nnVerif.Model.SH E3nnVerif.Generated.SH E3nnVerif.Generated E3nnVerif.IR

theorem ang_4_0 : angCheck1 (select (evalProg prog) index) legTable 4 0 = true := by decide +kernel
theorem ang_4_1 : angCheck1 (select (evalProg prog) index) legTable 4 1 = true := by decide +kernel
theorem ang_4_2 : angCheck1 (select (evalProg prog) index) legTable 4 2 = true := by decide +kernel
theorem ang_4_3 : angCheck1 (select (evalProg prog) index) legTable 4 3 = true := by decide +kernel
theorem ang_4_4 : angCheck1 (select (evalProg prog) index) legTable 4 4 = true := by decide +kernel
theorem ang_4_5 : angCheck1 (select (evalProg prog) index) legTable 4 5 = true := by decide +kernel
theorem ang_4_6 : angCheck1 (select (evalProg prog) index) legTable 4 6 = true := by decide +kernel
theorem ang_4_7 : angCheck1 (select (evalProg prog) index) legTable 4 7 = true := by decide +kernel
theorem ang_4_8 : angCheck1 (select (evalProg prog) index) legTable 4 8 = true := by decide +kernel

theorem ang_4 : angCheck (select (evalProg prog) index) legTable 4 = true := by
  unfold angCheck
  rw [List.all_eq_true]
  intro k hk
  have h := List.mem_range.mp hk
  interval_cases k
  · exact ang_4_0
  · exact ang_4_1
  · exact ang_4_2
  · exact ang_4_3
  · exact ang_4_4
  · exact ang_4_5
  · exact ang_4_6
  · exact ang_4_7
  · exact ang_4_8

end E3nnVerif.Cert.Ang
