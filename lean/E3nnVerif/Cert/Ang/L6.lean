import Mathlib.Tactic.IntervalCases
import E3nnVerif.Model.AngChecks
import E3nnVerif.Generated.SH
import E3nnVerif.Generated.Legendre
/- kernel certificates (static file; both tables it speaks about are regenerated on every run — Generated/SH.lean from the source
   text of _spherical_harmonics, Generated/Legendre.lean from the FX graph of o3.Legendre): for degree 6 the Cartesian spherical
   harmonics at angles_to_xyz(alpha, beta) and the angular form sha(alpha) * Legendre(cos beta, sin beta) are the same polynomial
   modulo sin^2 + cos^2 = 1 -/
namespace E3nnVerif.Cert.Ang
open E3nnVerif.Ang E3nnVerif.Model.SH E3nnVerif.Generated.SH E3nnVerif.Generated E3nnVerif.IR

theorem ang_6_0 : angCheck1 (select (evalProg prog) index) legTable 6 0 = true := by decide +kernel
theorem ang_6_1 : angCheck1 (select (evalProg prog) index) legTable 6 1 = true := by decide +kernel
theorem ang_6_2 : angCheck1 (select (evalProg prog) index) legTable 6 2 = true := by decide +kernel
theorem ang_6_3 : angCheck1 (select (evalProg prog) index) legTable 6 3 = true := by decide +kernel
theorem ang_6_4 : angCheck1 (select (evalProg prog) index) legTable 6 4 = true := by decide +kernel
theorem ang_6_5 : angCheck1 (select (evalProg prog) index) legTable 6 5 = true := by decide +kernel
theorem ang_6_6 : angCheck1 (select (evalProg prog) index) legTable 6 6 = true := by decide +kernel
theorem ang_6_7 : angCheck1 (select (evalProg prog) index) legTable 6 7 = true := by decide +kernel
theorem ang_6_8 : angCheck1 (select (evalProg prog) index) legTable 6 8 = true := by decide +kernel
theorem ang_6_9 : angCheck1 (select (evalProg prog) index) legTable 6 9 = true := by decide +kernel
theorem ang_6_10 : angCheck1 (select (evalProg prog) index) legTable 6 10 = true := by decide +kernel
theorem ang_6_11 : angCheck1 (select (evalProg prog) index) legTable 6 11 = true := by decide +kernel
theorem ang_6_12 : angCheck1 (select (evalProg prog) index) legTable 6 12 = true := by decide +kernel

theorem ang_6 : angCheck (select (evalProg prog) index) legTable 6 = true := by
  unfold angCheck
  rw [List.all_eq_true]
  intro k hk
  have h := List.mem_range.mp hk
  interval_cases k
  · exact ang_6_0
  · exact ang_6_1
  · exact ang_6_2
  · exact ang_6_3
  · exact ang_6_4
  · exact ang_6_5
  · exact ang_6_6
  · exact ang_6_7
  · exact ang_6_8
  · exact ang_6_9
  · exact ang_6_10
  · exact ang_6_11
  · exact ang_6_12

end E3nnVerif.Cert.Ang
