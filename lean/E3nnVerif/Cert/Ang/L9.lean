import Mathlib.Tactic.IntervalCases
import E3nnVerif.Model.AngChecks
import E3nnVerif.Generated.SH
import E3nnVerif.Generated.Legendre
/- kernel certificates (static file; both tables it speaks about are regenerated on every run — Generated/SH.lean from the source
   text of _spherical_harmonics, Generated/Legendre.lean from the FX graph of o3.Legendre): for degree 9 the Cartesian spherical
   harmonics at angles_to_xyz(alpha, beta) and the angular form sha(alpha) * Legendre(cos beta, sin beta) are the same polynomial
   modulo sin^2 + cos^2 = 1 -/
namespace E3nnVerif.Cert.Ang
open E3nnVerif.Ang E3nnVerif.Model.SH E3nnVerif.Generated.SH E3nnVerif.Generated E3nnVerif.IR

theorem ang_9_0 : angCheck1 (select (evalProg prog) index) legTable 9 0 = true := by decide +kernel
theorem ang_9_1 : angCheck1 (select (evalProg prog) index) legTable 9 1 = true := by decide +kernel
theorem ang_9_2 : angCheck1 (select (evalProg prog) index) legTable 9 2 = true := by decide +kernel
theorem ang_9_3 : angCheck1 (select (evalProg prog) index) legTable 9 3 = true := by decide +kernel
theorem ang_9_4 : angCheck1 (select (evalProg prog) index) legTable 9 4 = true := by decide +kernel
theorem ang_9_5 : angCheck1 (select (evalProg prog) index) legTable 9 5 = true := by decide +kernel
theorem ang_9_6 : angCheck1 (select (evalProg prog) index) legTable 9 6 = true := by decide +kernel
theorem ang_9_7 : angCheck1 (select (evalProg prog) index) legTable 9 7 = true := by decide +kernel
theorem ang_9_8 : angCheck1 (select (evalProg prog) index) legTable 9 8 = true := by decide +kernel
theorem ang_9_9 : angCheck1 (select (evalProg prog) index) legTable 9 9 = true := by decide +kernel
theorem ang_9_10 : angCheck1 (select (evalProg prog) index) legTable 9 10 = true := by decide +kernel
theorem ang_9_11 : angCheck1 (select (evalProg prog) index) legTable 9 11 = true := by decide +kernel
theorem ang_9_12 : angCheck1 (select (evalProg prog) index) legTable 9 12 = true := by decide +kernel
theorem ang_9_13 : angCheck1 (select (evalProg prog) index) legTable 9 13 = true := by decide +kernel
theorem ang_9_14 : angCheck1 (select (evalProg prog) index) legTable 9 14 = true := by decide +kernel
theorem ang_9_15 : angCheck1 (select (evalProg prog) index) legTable 9 15 = true := by decide +kernel
theorem ang_9_16 : angCheck1 (select (evalProg prog) index) legTable 9 16 = true := by decide +kernel
theorem ang_9_17 : angCheck1 (select (evalProg prog) index) legTable 9 17 = true := by decide +kernel
theorem ang_9_18 : angCheck1 (select (evalProg prog) index) legTable 9 18 = true := by decide +kernel

theorem ang_9 : angCheck (select (evalProg prog) index) legTable 9 = true := by
  unfold angCheck
  rw [List.all_eq_true]
  intro k hk
  have h := List.mem_range.mp hk
  interval_cases k
  · exact ang_9_0
  · exact ang_9_1
  · exact ang_9_2
  · exact ang_9_3
  · exact ang_9_4
  · exact ang_9_5
  · exact ang_9_6
  · exact ang_9_7
  · exact ang_9_8
  · exact ang_9_9
  · exact ang_9_10
  · exact ang_9_11
  · exact ang_9_12
  · exact ang_9_13
  · exact ang_9_14
  · exact ang_9_15
  · exact ang_9_16
  · exact ang_9_17
  · exact ang_9_18

end E3nnVerif.Cert.Ang
