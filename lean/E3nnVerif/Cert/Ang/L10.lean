import Mathlib.Tactic.IntervalCases
import E3nnVerif.Model.AngChecks
import E3nnVerif.Generated.SH
import E3nnVerif.Generated.Legendre
/- kernel certificates (static file; both tables it speaks about are regenerated on every run — Generated/SH.lean from the source
   text of _spherical_harmonics, Generated/Legendre.lean from the FX graph of o3.Legendre): for degree 10 the Cartesian spherical
   harmonics at angles_to_xyz(alpha, beta) and the angular form sha(alpha) * Legendre(cos beta, sin beta) are the same polynomial
   modulo sin^2 + cos^2 = 1 -/
namespace E3nnVerif.Cert.Ang
open E3nnVerif.Ang E3nnVerif.Model.SH E3nnVerif.Generated.SH E3nnVerif.Generated E3nnVerif.IR

theorem ang_10_0 : angCheck1 (select (evalProg prog) index) legTable 10 0 = true := by decide +kernel
theorem ang_10_1 : angCheck1 (select (evalProg prog) index) legTable 10 1 = true := by decide +kernel
theorem ang_10_2 : angCheck1 (select (evalProg prog) index) legTable 10 2 = true := by decide +kernel
theorem ang_10_3 : angCheck1 (select (evalProg prog) index) legTable 10 3 = true := by decide +kernel
theorem ang_10_4 : angCheck1 (select (evalProg prog) index) legTable 10 4 = true := by decide +kernel
theorem ang_10_5 : angCheck1 (select (evalProg prog) index) legTable 10 5 = true := by decide +kernel
theorem ang_10_6 : angCheck1 (select (evalProg prog) index) legTable 10 6 = true := by decide +kernel
theorem ang_10_7 : angCheck1 (select (evalProg prog) index) legTable 10 7 = true := by decide +kernel
theorem ang_10_8 : angCheck1 (select (evalProg prog) index) legTable 10 8 = true := by decide +kernel
theorem ang_10_9 : angCheck1 (select (evalProg prog) index) legTable 10 9 = true := by decide +kernel
theorem ang_10_10 : angCheck1 (select (evalProg prog) index) legTable 10 10 = true := by decide +kernel
theorem ang_10_11 : angCheck1 (select (evalProg prog) index) legTable 10 11 = true := by decide +kernel
theorem ang_10_12 : angCheck1 (select (evalProg prog) index) legTable 10 12 = true := by decide +kernel
theorem ang_10_13 : angCheck1 (select (evalProg prog) index) legTable 10 13 = true := by decide +kernel
theorem ang_10_14 : angCheck1 (select (evalProg prog) index) legTable 10 14 = true := by decide +kernel
theorem ang_10_15 : angCheck1 (select (evalProg prog) index) legTable 10 15 = true := by decide +kernel
theorem ang_10_16 : angCheck1 (select (evalProg prog) index) legTable 10 16 = true := by decide +kernel
theorem ang_10_17 : angCheck1 (select (evalProg prog) index) legTable 10 17 = true := by decide +kernel
theorem ang_10_18 : angCheck1 (select (evalProg prog) index) legTable 10 18 = true := by decide +kernel
theorem ang_10_19 : angCheck1 (select (evalProg prog) index) legTable 10 19 = true := by decide +kernel
theorem ang_10_20 : angCheck1 (select (evalProg prog) index) legTable 10 20 = true := by decide +kernel

theorem ang_10 : angCheck (select (evalProg prog) index) legTable 10 = true := by
  unfold angCheck
  rw [List.all_eq_true]
  intro k hk
  have h := List.mem_range.mp hk
  interval_cases k
  · exact ang_10_0
  · exact ang_10_1
  · exact ang_10_2
  · exact ang_10_3
  · exact ang_10_4
  · exact ang_10_5
  · exact ang_10_6
  · exact ang_10_7
  · exact ang_10_8
  · exact ang_10_9
  · exact ang_10_10
  · exact ang_10_11
  · exact ang_10_12
  · exact ang_10_13
  · exact ang_10_14
  · exact ang_10_15
  · exact ang_10_16
  · exact ang_10_17
  · exact ang_10_18
  · exact ang_10_19
  · exact ang_10_20

end E3nnVerif.Cert.Ang
