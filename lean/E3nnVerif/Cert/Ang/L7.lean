import Mathlib.Tactic.IntervalCases
import E3nnVerif.Model.AngChecks
import E3nnVerif.Generated.SH
import E3nnVerif.Generated.Legendre
/- kernel certificates (static file; both tables it speaks about are regenerated on every run — Generated/SH.lean from the source
   text of _spherical_harmonics, Generated/Legendre.lean from the FX graph of o3.Legendre): for degree 7 the Cartesian spherical
   harmonics at angles_to_xyz(alpha, beta) and the angular form sha(alpha) * Legendre(cos beta, sin beta) are the same polynomial
   modulo sin^2 + cos^2 = 1 -/
namespace E3nnVerif.Cert.Ang
open E3nnVerif.Ang E3nnVerif.Model.SH E3nnVerif.Generated.SH E3nnVerif.Generated E3nnVerif.IR

theorem ang_7_0 : angCheck1 (select (evalProg prog) index) legTable 7 0 = true := by decide +kernel
theorem ang_7_1 : angCheck1 (select (evalProg prog) index) legTable 7 1 = true := by decide +kernel
theorem ang_7_2 : angCheck1 (select (evalProg prog) index) legTable 7 2 = true := by decide +kernel
theorem ang_7_3 : angCheck1 (select (evalProg prog) index) legTable 7 3 = true := by decide +kernel
theorem ang_7_4 : angCheck1 (select (evalProg prog) index) legTable 7 4 = true := by decide +kernel
theorem ang_7_5 : angCheck1 (select (evalProg prog) index) legTable 7 5 = true := by decide +kernel
theorem ang_7_6 : angCheck1 (select (evalProg prog) index) legTable 7 6 = true := by decide +kernel
theorem ang_7_7 : angCheck1 (select (evalProg prog) index) legTable 7 7 = true := by decide +kernel
theorem ang_7_8 : angCheck1 (select (evalProg prog) index) legTable 7 8 = true := by decide +kernel
theorem ang_7_9 : angCheck1 (select (evalProg prog) index) legTable 7 9 = true := by decide +kernel
theorem ang_7_10 : angCheck1 (select (evalProg prog) index) legTable 7 10 = true := by decide +kernel
theorem ang_7_11 : angCheck1 (select (evalProg prog) index) legTable 7 11 = true := by decide +kernel
theorem ang_7_12 : angCheck1 (select (evalProg prog) index) legTable 7 12 = true := by decide +kernel
theorem ang_7_13 : angCheck1 (select (evalProg prog) index) legTable 7 13 = true := by decide +kernel
theorem ang_7_14 : angCheck1 (select (evalProg prog) index) legTable 7 14 = true := by decide +kernel

theorem ang_7 : angCheck (select (evalProg prog) index) legTable 7 = true := by
  unfold angCheck
  rw [List.all_eq_true]
  intro k hk
  have h := List.mem_range.mp hk
  interval_cases k
  · exact ang_7_0
  · exact ang_7_1
  · exact ang_7_2
  · exact ang_7_3
  · exact ang_7_4
  · exact ang_7_5
  · exact ang_7_6
  · exact ang_7_7
  · exact ang_7_8
  · exact ang_7_9
  · exact ang_7_10
  · exact ang_7_11
  · exact ang_7_12
  · exact ang_7_13
  · exact ang_7_14

end E3nnVerif.Cert.Ang
