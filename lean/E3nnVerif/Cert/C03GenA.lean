import E3nnVerif.Model.WignerChecks
/- C03: generator certificates (skew, real, commutation relations, Casimir) beyond Cert/Gen.lean's l ≤ 5; kernel-decided, no axioms -/
namespace E3nnVerif.Cert.C03
open E3nnVerif.Model.Wigner

theorem gen_6 : genCert 6 = true := by decide +kernel
theorem gen_7 : genCert 7 = true := by decide +kernel
theorem gen_8 : genCert 8 = true := by decide +kernel
theorem gen_9 : genCert 9 = true := by decide +kernel

end E3nnVerif.Cert.C03
