import E3nnVerif.Theory.SphericalTensor
/-
C18 — `SphericalTensor` (e3nn/io/_spherical_tensor.py) evaluates, fits and transforms sphere signals consistently.

All statements are about the model `E3nnVerif/Model/SphericalTensor.lean` (discrete parts exact, analytic parts at the
ℝ instance of the scalar-generic definitions that `drivers/C18.lean` runs at `Float` next to the real code).

The spherical harmonics are a PARAMETER: `Yf : Vec3 ℝ → Fin n → ℝ` (`ofY Yf x = List.ofFn (Yf x)` is the model's
`Y`; every list-valued `Y` with outputs of constant length `n` is of this form).  What is assumed about them is
stated where it is used and is property C05's:   `Yf (R x) = D (Yf x)`  for the pair `(R, D)` at hand, `D` orthogonal.
`torch.linalg.lstsq` is a parameter too, with its specification as hypothesis.

Negative results (the property as stated FAILS on the code as written; replayed by `harness/c18.py`):
  `signal_xyz_rejects_odd_pval`, `sum_of_diracs_rejects_odd_pval`   p_val = -1  →  ValueError
  `with_peaks_at_all_zero_raises`                                     all values 0 → RuntimeError (not the zero tensor)
  `with_peaks_at_ignores_zero_values`, `witness_zero_value`           a requested value 0 is silently dropped
`find_peaks` has no model: not applicable to this technique, exercised by the harness only.
-/
namespace E3nnVerif.Props.C18
open E3nnVerif E3nnVerif.Rotation E3nnVerif.SphericalTensor

/-! ## 1. the constructor -/

/-- `SphericalTensor(lmax, p_val, p_arg)` for parities in {±1}, every integer `lmax` (negative: empty):
the irreps are `1 x (l, p_val·p_arg^l)` for `l = 0..lmax`, every parity is ±1, and in closed form the parity of
degree `l` is `p_val` if `l` is even or `p_arg = 1`, else `-p_val`. -/
theorem irreps_formula {pv pa : Int} (hv : pv = 1 ∨ pv = -1) (ha : pa = 1 ∨ pa = -1) (lmax : Int) :
    irreps lmax pv pa = .ok ((List.range (lmax + 1).toNat).map fun l => (1, l, pv * pa ^ l)) ∧
    (∀ l : Nat, pv * pa ^ l = (if l % 2 = 0 ∨ pa = 1 then pv else -pv)) ∧
    (∀ l : Nat, pv * pa ^ l = 1 ∨ pv * pa ^ l = -1) := by
  refine ⟨?_, fun l => mul_pow_parity ha l, fun l => ?_⟩
  · rw [irreps_eq hv ha]; unfold stIrreps
    congr 1; apply List.map_congr_left; intro l _; rw [mul_pow_parity ha]
  · rw [mul_pow_parity ha]; exact parityOf_pm hv pa l
example : irreps 3 1 (-1) = .ok [(1, 0, 1), (1, 1, -1), (1, 2, 1), (1, 3, -1)] := by decide

/-- which integer arguments the constructor accepts at all (the `Irrep(l, p)` check `p ∈ (-1, 1)`) -/
theorem irreps_accepts_iff (lmax pv pa : Int) :
    (∃ irs, irreps lmax pv pa = .ok irs) ↔
      lmax < 0 ∨ ((pv = 1 ∨ pv = -1) ∧ (lmax = 0 ∨ pa = 1 ∨ pa = -1)) := irreps_ok_iff lmax pv pa
example : irreps 2 1 0 = .error "ValueError" := by decide
example : irreps 0 (-1) 7 = .ok [(1, 0, -1)] := by decide

/-- `dim = (lmax+1)²`, `lmax` is `lmax`, `ls = [0..lmax]`, for all `lmax ≥ 0` -/
theorem irreps_dim_lmax {pv pa : Int} (hv : pv = 1 ∨ pv = -1) (ha : pa = 1 ∨ pa = -1) (lmax : Nat) :
    ∃ irs, irreps lmax pv pa = .ok irs ∧ dimOf irs = (lmax + 1) ^ 2 ∧ lmaxOf irs = .ok lmax ∧
      lsOf irs = List.range (lmax + 1) ∧ irs.length = lmax + 1 := by
  refine ⟨_, irreps_eq hv ha lmax, ?_, ?_, ?_, ?_⟩
  · simpa using dimOf_stIrreps (lmax + 1) pv pa
  · simpa using lmaxOf_stIrreps lmax pv pa
  · simpa using lsOf_stIrreps (lmax + 1) pv pa
  · simp [stIrreps]

/-- the empty tensor (`lmax < 0`) has no `lmax` -/
theorem irreps_negative_lmax (lmax pv pa : Int) (h : lmax < 0) :
    irreps lmax pv pa = .ok [] ∧ lmaxOf [] = .error "ValueError" := by
  have : (lmax + 1).toNat = 0 := by omega
  refine ⟨?_, rfl⟩
  simp [irreps, this]; rfl

/-- `o3.spherical_harmonics(self, …)` — the call made by `signal_xyz`, `sum_of_diracs`, `with_peaks_at` — accepts
a SphericalTensor exactly when `p_val = 1` (and `lmax ≤ 11`): for `p_val = -1` it raises `ValueError`. -/
theorem sh_guard_iff {pv pa : Int} (hv : pv = 1 ∨ pv = -1) (ha : pa = 1 ∨ pa = -1) (lmax : Nat) :
    ∃ irs, irreps lmax pv pa = .ok irs ∧
      (shGuard irs = .ok () ↔ pv = 1 ∧ lmax ≤ 11) ∧
      (pv = -1 → shGuard irs = .error "ValueError") ∧
      (pv = 1 → 11 < lmax → shGuard irs = .error "NotImplementedError") := by
  refine ⟨_, irreps_eq hv ha lmax, ?_, ?_, ?_⟩
  all_goals
    have e : ((lmax : Int) + 1).toNat = lmax + 1 := by omega
    rw [e, shGuard_stIrreps lmax hv ha]
  · by_cases h1 : pv = 1
    · by_cases h2 : lmax > 11
      · simp [h1, h2]
      · simp [h1, h2]; omega
    · simp [h1]
  · rintro rfl; simp
  · rintro rfl h; simp [h]

/-! ## 2. `norms` -/

/-- `norms` of the concatenation of blocks of sizes `2l+1` (in the order of the irreps) is the list of the
Euclidean norms of the blocks — any irreps, any number of blocks (the offset bookkeeping `i += ir.dim` is right). -/
theorem norms_eq_block_norms (irs : List MulIr) (blocks : List (List ℝ))
    (h : List.Forall₂ (fun ir b => b.length = 2 * ir.2.1 + 1) irs blocks) :
    norms irs blocks.flatten = blocks.map fun b => Real.sqrt ((b.map fun x => x ^ 2).sum) := by
  rw [norms_flatten irs blocks h]
  apply List.map_congr_left; intro b _; rw [dot_self_eq_sum_sq]

/-- `norms` is invariant under every block-orthogonal action: each degree-`l` block is replaced by its image under an
arbitrary orthogonal matrix (in particular the Wigner matrices `D^l(g)`, `g ∈ O(3)`). -/
theorem norms_invariant (irs : List MulIr) (blocks blocks' : List (List ℝ))
    (h : List.Forall₂ (fun ir b => b.length = 2 * ir.2.1 + 1) irs blocks)
    (hD : List.Forall₂ OrthoImage blocks blocks') :
    norms irs blocks'.flatten = norms irs blocks.flatten := by
  have h' : List.Forall₂ (fun ir b => b.length = 2 * ir.2.1 + 1) irs blocks' := by
    induction h generalizing blocks' with
    | nil => cases hD; exact .nil
    | cons hab _ ih =>
      cases hD with
      | cons hd hds => exact .cons (by rw [hd.spec.1]; exact hab) (ih _ hds)
  rw [norms_flatten irs blocks h, norms_flatten irs blocks' h']
  clear h h'
  induction hD with
  | nil => rfl
  | cons hd _ ih => simp only [List.map_cons, ih, hd.spec.2]

/-- for a SphericalTensor: blocks of sizes 1, 3, 5, …, 2·lmax+1 -/
theorem norms_sphericalTensor {pv pa : Int} (hv : pv = 1 ∨ pv = -1) (ha : pa = 1 ∨ pa = -1) (lmax : Nat)
    (blocks : List (List ℝ)) (hlen : blocks.length = lmax + 1)
    (hb : ∀ (l : Nat) (h : l < blocks.length), blocks[l].length = 2 * l + 1) :
    ∃ irs, irreps lmax pv pa = .ok irs ∧
      norms irs blocks.flatten = blocks.map fun b => Real.sqrt ((b.map fun x => x ^ 2).sum) := by
  refine ⟨_, irreps_eq hv ha lmax, norms_eq_block_norms _ _ ?_⟩
  rw [List.forall₂_iff_get]
  have e : ((lmax : Int) + 1).toNat = lmax + 1 := by omega
  refine ⟨by simp [stIrreps, e, hlen], fun i h1 h2 => ?_⟩
  simp only [List.get_eq_getElem, stIrreps, List.getElem_map, List.getElem_range]
  exact hb i h2
example : norms [(1, 0, 1), (1, 1, -1)] [(3 / 2 : ℝ), 0, 3, 4] = [3 / 2, 5] := by
  have := norms_eq_block_norms [(1, 0, 1), (1, 1, -1)] [[(3 / 2 : ℝ)], [0, 3, 4]] (.cons rfl (.cons rfl .nil))
  simp only [List.flatten_cons, List.flatten_nil, List.append_nil, List.cons_append, List.nil_append] at this
  rw [this]
  simp only [List.map_cons, List.map_nil, List.sum_cons, List.sum_nil]
  rw [show ((3 / 2 : ℝ) ^ 2 + 0) = (3 / 2) ^ 2 by ring, show ((0 : ℝ) ^ 2 + (3 ^ 2 + (4 ^ 2 + 0))) = 5 ^ 2 by norm_num,
    Real.sqrt_sq (by norm_num), Real.sqrt_sq (by norm_num)]
/-- non-vacuity of `OrthoImage`: a quarter turn in the plane of the last two coordinates -/
example : OrthoImage [0, 3, 4] [0, -4, 3] := by
  refine ⟨3, !![1, 0, 0; 0, 0, -1; 0, 1, 0], ![0, 3, 4], ?_, by simp [List.ofFn_succ], ?_⟩
  · rw [Matrix.mem_orthogonalGroup_iff']
    ext i j; fin_cases i <;> fin_cases j <;> simp [Matrix.mul_apply, Fin.sum_univ_succ]
  · simp [List.ofFn_succ]

/-! ## 3. `signal_xyz`

Guards of the real code = hypotheses: `hg` (the `spherical_harmonics` call accepts the irreps), `hl` (`self.lmax`),
the coefficient vector has `(lmax+1)²` entries (`hn`; otherwise `reshape` raises, `signal_xyz_wrong_length`). -/

section signal
variable {n L : Nat} (Yf : Vec3 ℝ → Fin n → ℝ) (irs : List MulIr)
  (hg : shGuard irs = .ok ()) (hl : lmaxOf irs = .ok L) (hn : n = (L + 1) ^ 2)
include hg hl hn

/-- `signal_xyz(c, r) = Σ_i c_i · Y_i(r / max(‖r‖, 1e-12))` -/
theorem signal_xyz_eq (c : Fin n → ℝ) (r : Vec3 ℝ) :
    signalXyz (ofY Yf) irs (List.ofFn c) r = .ok (∑ i, c i * Yf (normalize r) i) := by
  subst hn
  unfold signalXyz
  simp only [hg, hl, bind, Except.bind, List.length_ofFn, if_true, signalXyzVal, ofY, dot_ofFn, pure, Except.pure]
  congr 1; apply Finset.sum_congr rfl; intro i _; ring

/-- linear in the coefficients -/
theorem signal_xyz_linear (a b : ℝ) (c c' : Fin n → ℝ) (r : Vec3 ℝ) :
    ∃ v v', signalXyz (ofY Yf) irs (List.ofFn c) r = .ok v ∧ signalXyz (ofY Yf) irs (List.ofFn c') r = .ok v' ∧
      signalXyz (ofY Yf) irs (List.ofFn (a • c + b • c')) r = .ok (a * v + b * v') := by
  refine ⟨_, _, signal_xyz_eq Yf irs hg hl hn c r, signal_xyz_eq Yf irs hg hl hn c' r, ?_⟩
  rw [signal_xyz_eq Yf irs hg hl hn]
  congr 1
  simp only [Pi.add_apply, Pi.smul_apply, smul_eq_mul, Finset.mul_sum, ← Finset.sum_add_distrib]
  apply Finset.sum_congr rfl; intro i _; ring

/-- rotating the coefficients by `D` while rotating the evaluation point by `R` leaves the value unchanged:
for EVERY coefficient vector, EVERY point (any radius, also `0`), every `R ∈ O(3)` (proper or not) and every
orthogonal `D` intertwining the harmonics, `Y(R x) = D Y(x)`. -/
theorem signal_xyz_rotation_invariant (R : Mat3 ℝ) (hR : IsOrtho R) (D : Matrix (Fin n) (Fin n) ℝ)
    (hD : D ∈ Matrix.orthogonalGroup (Fin n) ℝ) (hY : ∀ x, Yf (R.mulVec x) = D.mulVec (Yf x))
    (c : Fin n → ℝ) (r : Vec3 ℝ) :
    signalXyz (ofY Yf) irs (List.ofFn (D.mulVec c)) (R.mulVec r) = signalXyz (ofY Yf) irs (List.ofFn c) r := by
  rw [signal_xyz_eq Yf irs hg hl hn, signal_xyz_eq Yf irs hg hl hn, hR.normalize, hY]
  congr 1
  exact ortho_dot ((Matrix.mem_orthogonalGroup_iff' (Fin n) ℝ).mp hD) c (Yf (normalize r))

/-- the value depends on the direction only — for radii the code's `normalize` can resolve (`≥ 1e-12`) -/
theorem signal_xyz_radius_independent (c : Fin n → ℝ) (r : Vec3 ℝ) (t : ℝ) (ht : 0 < t)
    (h1 : eps ≤ r.norm) (h2 : eps ≤ t * r.norm) :
    signalXyz (ofY Yf) irs (List.ofFn c) ⟨t * r.x, t * r.y, t * r.z⟩ = signalXyz (ofY Yf) irs (List.ofFn c) r := by
  rw [signal_xyz_eq Yf irs hg hl hn, signal_xyz_eq Yf irs hg hl hn, normalize_scale r t ht h1 h2]

/-- … and the zero vector is forwarded: `signal_xyz(c, 0) = c · Y(0)` (for the real harmonics: the `l = 0` term) -/
theorem signal_xyz_zero_radius (c : Fin n → ℝ) :
    signalXyz (ofY Yf) irs (List.ofFn c) ⟨0, 0, 0⟩ = .ok (∑ i, c i * Yf ⟨0, 0, 0⟩ i) := by
  rw [signal_xyz_eq Yf irs hg hl hn, normalize_zero]

omit hn in
/-- a coefficient vector of another length is rejected -/
theorem signal_xyz_wrong_length (c : List ℝ) (hc : c.length ≠ (L + 1) ^ 2) (r : Vec3 ℝ) :
    signalXyz (ofY Yf) irs c r = .error "RuntimeError" := by
  unfold signalXyz
  simp only [hg, hl, bind, Except.bind, hc, if_false]
end signal

/-- the guards are satisfiable: every SphericalTensor with `p_val = 1`, `lmax ≤ 11` -/
example (pa : Int) (ha : pa = 1 ∨ pa = -1) (lmax : Nat) (h : lmax ≤ 11) :
    ∃ irs, irreps lmax 1 pa = .ok irs ∧ shGuard irs = .ok () ∧ lmaxOf irs = .ok lmax := by
  obtain ⟨irs, h1, h2, _⟩ := sh_guard_iff (Or.inl rfl) ha lmax
  obtain ⟨irs', h1', _, h3, _⟩ := irreps_dim_lmax (Or.inl rfl) ha lmax
  rw [h1] at h1'; cases h1'
  exact ⟨irs, h1, h2.mpr ⟨rfl, h⟩, h3⟩

/-- the hypotheses on `(Yf, R, D)` are satisfiable non-trivially: the degree ≤ 1 harmonics (up to scaling)
`Y(x) = (1, x, y, z)`, any `R ∈ O(3)`, `D = 1 ⊕ R` -/
example (R : Mat3 ℝ) (hR : IsOrtho R) :
    let Yf : Vec3 ℝ → Fin 4 → ℝ := fun v => ![1, v.x, v.y, v.z]
    let D : Matrix (Fin 4) (Fin 4) ℝ := !![1, 0, 0, 0; 0, R.m00, R.m01, R.m02; 0, R.m10, R.m11, R.m12; 0, R.m20, R.m21, R.m22]
    D ∈ Matrix.orthogonalGroup (Fin 4) ℝ ∧ ∀ x, Yf (R.mulVec x) = D.mulVec (Yf x) := by
  intro Yf D
  constructor
  · rw [Matrix.mem_orthogonalGroup_iff']
    unfold IsOrtho at hR
    simp only [Mat3.mul, Mat3.transpose, Mat3.one, Mat3.mk.injEq, one_real, zero_real] at hR
    obtain ⟨h00, h01, h02, h10, h11, h12, h20, h21, h22⟩ := hR
    ext i j
    fin_cases i <;> fin_cases j <;>
      simp [D, Matrix.mul_apply, Fin.sum_univ_succ, Matrix.transpose_apply] <;> linarith
  · intro x
    ext i
    fin_cases i <;> simp [Yf, D, Matrix.mulVec, dotProduct, Fin.sum_univ_succ, Mat3.mulVec] <;> ring

/-- NEGATIVE: for `p_val = -1` (both `p_arg`) `signal_xyz` raises `ValueError` on EVERY input — the property's
"for all parity settings" fails for the code as written (`signal_on_grid` evaluates the same tensors happily). -/
theorem signal_xyz_rejects_odd_pval {pa : Int} (ha : pa = 1 ∨ pa = -1) (lmax : Nat) (Y : Vec3 ℝ → List ℝ)
    (c : List ℝ) (r : Vec3 ℝ) :
    ∃ irs, irreps lmax (-1) pa = .ok irs ∧ signalXyz Y irs c r = .error "ValueError" := by
  obtain ⟨irs, h1, _, h2, _⟩ := sh_guard_iff (Or.inr rfl) ha lmax
  refine ⟨irs, h1, ?_⟩
  unfold signalXyz
  simp only [h2 rfl, bind, Except.bind]

/-! ## 4. `sum_of_diracs`

`positions`/`values` are the (already broadcast) lists `List.ofFn p`, `List.ofFn v` of a common length `N` (any `N`). -/

section diracs
variable {n N L : Nat} (Yf : Vec3 ℝ → Fin n → ℝ) (irs : List MulIr)
  (hg : shGuard irs = .ok ()) (hl : lmaxOf irs = .ok L) (hd : dimOf irs = n)
include hg hl hd

/-- `sum_of_diracs(p, v)_k = 4π/(lmax+1)² · Σ_i v_i · Y_k(p_i / max(‖p_i‖, 1e-12))` -/
theorem sum_of_diracs_eq (p : Fin N → Vec3 ℝ) (v : Fin N → ℝ) :
    sumOfDiracs (ofY Yf) irs (List.ofFn p) (List.ofFn v)
      = .ok (List.ofFn fun k => 4 * Real.pi / ((L : ℝ) + 1) ^ 2 * ∑ i, v i * Yf (normalize (p i)) k) := by
  rw [sumOfDiracs_ofFn Yf irs hg hl hd]
  congr 2; funext k
  simp [Finset.sum_apply]

/-- linear in the values -/
theorem sum_of_diracs_linear (p : Fin N → Vec3 ℝ) (a b : ℝ) (v w : Fin N → ℝ) :
    ∃ x y : Fin n → ℝ, sumOfDiracs (ofY Yf) irs (List.ofFn p) (List.ofFn v) = .ok (List.ofFn x) ∧
      sumOfDiracs (ofY Yf) irs (List.ofFn p) (List.ofFn w) = .ok (List.ofFn y) ∧
      sumOfDiracs (ofY Yf) irs (List.ofFn p) (List.ofFn (a • v + b • w)) = .ok (List.ofFn (a • x + b • y)) := by
  refine ⟨_, _, sumOfDiracs_ofFn Yf irs hg hl hd p v, sumOfDiracs_ofFn Yf irs hg hl hd p w, ?_⟩
  rw [sumOfDiracs_ofFn Yf irs hg hl hd]
  congr 2
  simp only [Pi.add_apply, Pi.smul_apply, smul_eq_mul, add_smul, mul_smul, Finset.sum_add_distrib, ← Finset.smul_sum,
    smul_add]
  rw [smul_comm a, smul_comm b]

/-- equivariant in the positions: rotating every position by `R ∈ O(3)` rotates the coefficients by `D`, for every
`D` with `Y(R x) = D Y(x)` (here `D` need not even be orthogonal: linearity is enough) -/
theorem sum_of_diracs_equivariant (R : Mat3 ℝ) (hR : IsOrtho R) (D : Matrix (Fin n) (Fin n) ℝ)
    (hY : ∀ x, Yf (R.mulVec x) = D.mulVec (Yf x)) (p : Fin N → Vec3 ℝ) (v : Fin N → ℝ) :
    ∃ x : Fin n → ℝ, sumOfDiracs (ofY Yf) irs (List.ofFn p) (List.ofFn v) = .ok (List.ofFn x) ∧
      sumOfDiracs (ofY Yf) irs (List.ofFn fun i => R.mulVec (p i)) (List.ofFn v) = .ok (List.ofFn (D.mulVec x)) := by
  refine ⟨_, sumOfDiracs_ofFn Yf irs hg hl hd p v, ?_⟩
  rw [sumOfDiracs_ofFn Yf irs hg hl hd]
  congr 2
  simp only [hR.normalize, hY, Matrix.mulVec_smul, Matrix.mulVec_sum]
end diracs

/-- the empty set gives the zero tensor — before the harmonics are built, so for EVERY irreps (also `p_val = -1`) -/
theorem sum_of_diracs_empty (Y : Vec3 ℝ → List ℝ) (irs : List MulIr) (values : List ℝ) :
    sumOfDiracs Y irs [] values = .ok (List.replicate (dimOf irs) 0) := by
  simp [sumOfDiracs, zeros]

/-- NEGATIVE: for `p_val = -1` a non-empty `sum_of_diracs` raises `ValueError` -/
theorem sum_of_diracs_rejects_odd_pval {pa : Int} (ha : pa = 1 ∨ pa = -1) (lmax : Nat) (Y : Vec3 ℝ → List ℝ)
    (p : Vec3 ℝ) (ps : List (Vec3 ℝ)) (values : List ℝ) :
    ∃ irs, irreps lmax (-1) pa = .ok irs ∧ sumOfDiracs Y irs (p :: ps) values = .error "ValueError" := by
  obtain ⟨irs, h1, _, h2, _⟩ := sh_guard_iff (Or.inr rfl) ha lmax
  refine ⟨irs, h1, ?_⟩
  unfold sumOfDiracs
  simp only [List.isEmpty_cons, Bool.false_eq_true, if_false, h2 rfl, bind, Except.bind]

/-! ## 5. `with_peaks_at`

`kept` = the pairs `(v_a, value_a)` that survive `values != 0` (`values` = the radii when not given);
`C = keptC Yf kept` is the collocation matrix `C[a,i] = Y_i(normalize v_a)`, `A = C Cᵀ` the Gram matrix the code
hands to `torch.linalg.lstsq`.  Guards of the real code = hypotheses: non-empty `vectors` (`hv`; else zeros),
`self[0][1].p == 1` (`hp`), the `spherical_harmonics` call (`hg`). -/

section peaks
variable {n L : Nat} (Yf : Vec3 ℝ → Fin n → ℝ) (lstsq : List (List ℝ) → List ℝ → List ℝ) (irs : List MulIr)
  (vectors : List (Vec3 ℝ)) (values : Option (List ℝ))
  (hv : vectors ≠ []) (hp : firstParity irs = .ok 1) (hg : shGuard irs = .ok ()) (hl : lmaxOf irs = .ok L)
  (hd : dimOf irs = n) (hn : n = (L + 1) ^ 2)

/-- `(vectors[values != 0], values[values != 0])` -/
noncomputable abbrev kept : List (Vec3 ℝ × ℝ) := keptPairs vectors (values.getD (vectors.map Vec3.norm))

omit hl hn in
/-- what the filter keeps: exactly the pairs with a non-zero value -/
theorem kept_iff (q : Vec3 ℝ × ℝ) :
    q ∈ kept vectors values ↔ q ∈ vectors.zip (values.getD (vectors.map Vec3.norm)) ∧ q.2 ≠ 0 :=
  keptPairs_real _ _ q

include hv hp hg hl hd hn

/-- The residual `assert` makes the result approximately interpolating for ANY `lstsq` (only its output shape is
used): if `with_peaks_at` returns `x` then at every retained direction
`|signal_xyz(x, v_a) − value_a| < 1e-5 · max_b |value_b|`. -/
theorem with_peaks_at_residual (hshape : ∀ A b, (lstsq A b).length = b.length) (x : List ℝ)
    (hx : withPeaksAt (ofY Yf) lstsq irs vectors values = .ok x) :
    ∀ q ∈ kept vectors values, ∃ y, signalXyz (ofY Yf) irs x q.1 = .ok y ∧
      |y - q.2| < 1 / 100000 * maxAbs ((kept vectors values).map (·.2)) := by
  intro q hq
  rw [withPeaksAt_unfold Yf lstsq irs vectors values hv hp hg hd] at hx
  set K := kept vectors values with hK
  set C := keptC Yf K with hC
  obtain ⟨s, hs⟩ := exists_ofFn_of_length K.length (lstsq (LL (C * C.transpose)) (List.ofFn (keptVals K)))
    (by rw [hshape]; simp)
  rw [core_ofFn lstsq C (keptVals K) s hs] at hx
  split at hx
  · cases hx
  split at hx
  · rename_i hN hres
    cases hx
    obtain ⟨a, ha, rfl⟩ := List.mem_iff_getElem.mp hq
    refine ⟨_, signal_xyz_eq Yf irs hg hl hn _ _, ?_⟩
    have e : ∑ i, Matrix.vecMul s C i * Yf (normalize K[a].1) i = (C * C.transpose).mulVec s ⟨a, ha⟩ := by
      rw [← eval_vecMul C s ⟨a, ha⟩]
      simp only [dotProduct, hC, keptC, Fin.getElem_fin]
      apply Finset.sum_congr rfl; intro i _; ring
    rw [e, kept_vals]
    have hm : (keptVals K - (C * C.transpose).mulVec s) ⟨a, ha⟩ ∈ List.ofFn (keptVals K - (C * C.transpose).mulVec s) :=
      (List.mem_ofFn' _ _).mpr ⟨⟨a, ha⟩, rfl⟩
    have := le_maxAbs hm
    rw [Pi.sub_apply, abs_sub_comm] at this
    exact lt_of_le_of_lt this hres
  · cases hx

/-- if `lstsq` returns an exact solution `s` of `A s = values` then the assert passes and the returned coefficients
`x = s @ C` take the requested value at every retained direction, exactly -/
theorem with_peaks_at_of_solution (hk : kept vectors values ≠ [])
    (hs : ∃ s : Fin (kept vectors values).length → ℝ,
      lstsq (LL (keptC Yf (kept vectors values) * (keptC Yf (kept vectors values)).transpose))
        (List.ofFn (keptVals (kept vectors values))) = List.ofFn s ∧
      (keptC Yf (kept vectors values) * (keptC Yf (kept vectors values)).transpose).mulVec s
        = keptVals (kept vectors values)) :
    ∃ x : Fin n → ℝ, withPeaksAt (ofY Yf) lstsq irs vectors values = .ok (List.ofFn x) ∧
      ∀ q ∈ kept vectors values, signalXyz (ofY Yf) irs (List.ofFn x) q.1 = .ok q.2 := by
  set K := kept vectors values with hK
  set C := keptC Yf K with hC
  obtain ⟨s, hs, hsol⟩ := hs
  refine ⟨Matrix.vecMul s C, ?_, ?_⟩
  · rw [withPeaksAt_unfold Yf lstsq irs vectors values hv hp hg hd, core_ofFn lstsq C (keptVals K) s hs, hsol]
    have hN : K.length ≠ 0 := fun h => hk (List.length_eq_zero_iff.mp h)
    have hpos : 0 < maxAbs (List.ofFn (keptVals K)) := by
      obtain ⟨q, hq⟩ := List.exists_mem_of_ne_nil K hk
      have hq0 : q.2 ≠ 0 := ((kept_iff vectors values q).mp hq).2
      rw [← kept_vals]
      exact maxAbs_pos (List.mem_map.mpr ⟨q, hq, rfl⟩) hq0
    have hz : maxAbs (List.ofFn (keptVals K - keptVals K)) = 0 :=
      maxAbs_eq_zero fun x hx => by
        obtain ⟨i, rfl⟩ := (List.mem_ofFn' _ _).mp hx
        simp
    rw [if_neg hN, hz, if_pos (by positivity)]
  · intro q hq
    obtain ⟨a, ha, rfl⟩ := List.mem_iff_getElem.mp hq
    rw [signal_xyz_eq Yf irs hg hl hn]
    congr 1
    have e : ∑ i, Matrix.vecMul s C i * Yf (normalize K[a].1) i = (C * C.transpose).mulVec s ⟨a, ha⟩ := by
      rw [← eval_vecMul C s ⟨a, ha⟩]
      simp only [dotProduct, hC, keptC, Fin.getElem_fin]
      apply Finset.sum_congr rfl; intro i _; ring
    rw [e, hsol]; rfl

/-- EXACT interpolation: if the Gram matrix is invertible (which forces: number of retained directions ≤ number of
coefficients, `gram_invertible_card_le`, and pairwise different `Y(v_a)`, `gram_singular_of_repeated`) and `lstsq`
returns a least-squares minimiser (its specification), then the assert passes and the returned coefficients take
the requested value at every retained direction. -/
theorem with_peaks_at_interpolates (hk : kept vectors values ≠ [])
    (hdet : (keptC Yf (kept vectors values) * (keptC Yf (kept vectors values)).transpose).det ≠ 0)
    (hls : ∃ s : Fin (kept vectors values).length → ℝ,
      lstsq (LL (keptC Yf (kept vectors values) * (keptC Yf (kept vectors values)).transpose))
        (List.ofFn (keptVals (kept vectors values))) = List.ofFn s ∧
      ∀ x : Fin (kept vectors values).length → ℝ,
        ∑ i, ((keptC Yf (kept vectors values) * (keptC Yf (kept vectors values)).transpose).mulVec s i
              - keptVals (kept vectors values) i) ^ 2
          ≤ ∑ i, ((keptC Yf (kept vectors values) * (keptC Yf (kept vectors values)).transpose).mulVec x i
              - keptVals (kept vectors values) i) ^ 2) :
    ∃ x : Fin n → ℝ, withPeaksAt (ofY Yf) lstsq irs vectors values = .ok (List.ofFn x) ∧
      ∀ q ∈ kept vectors values, signalXyz (ofY Yf) irs (List.ofFn x) q.1 = .ok q.2 := by
  obtain ⟨s, hs, hmin⟩ := hls
  exact with_peaks_at_of_solution Yf lstsq irs vectors values hv hp hg hl hd hn hk
    ⟨s, hs, lstsq_exact _ hdet _ _ hmin⟩

/-- the same with the model's executable solver in the place of `lstsq` (what `drivers/C18.lean` runs): whenever the
elimination succeeds (no zero pivot) the result interpolates exactly -/
theorem with_peaks_at_gauss (hk : kept vectors values ≠ []) (y : List ℝ)
    (hsome : gaussSolveAux (kept vectors values).length
      ((LL (keptC Yf (kept vectors values) * (keptC Yf (kept vectors values)).transpose)).zip
        (List.ofFn (keptVals (kept vectors values)))) = some y) :
    ∃ x : Fin n → ℝ, withPeaksAt (ofY Yf) gaussSolve irs vectors values = .ok (List.ofFn x) ∧
      ∀ q ∈ kept vectors values, signalXyz (ofY Yf) irs (List.ofFn x) q.1 = .ok q.2 := by
  apply with_peaks_at_of_solution Yf gaussSolve irs vectors values hv hp hg hl hd hn hk
  set K := kept vectors values with hK
  set A := keptC Yf K * (keptC Yf K).transpose with hA
  have hlen : (List.ofFn (keptVals K)).length = K.length := by simp
  obtain ⟨h1, h2, h3⟩ := gaussSolve_sound (LL A) (List.ofFn (keptVals K)) y (by simp [LL])
    (by intro row hrow; simp only [LL, List.mem_ofFn'] at hrow; obtain ⟨i, rfl⟩ := hrow; simp)
    (by rw [hlen]; exact hsome)
  obtain ⟨s, rfl⟩ := exists_ofFn_of_length K.length y (by rw [h2, hlen])
  refine ⟨s, h1, ?_⟩
  rw [matVec_ofFn] at h3
  exact List.ofFn_injective h3

omit hl hn in
/-- NEGATIVE (1): if every value is zero (e.g. `with_peaks_at(torch.zeros(1,3))`, or explicit zero values) the code
does not return the zero tensor: `.max()` of an empty tensor raises `RuntimeError`. -/
theorem with_peaks_at_all_zero_raises (hk : kept vectors values = []) :
    withPeaksAt (ofY Yf) lstsq irs vectors values = .error "RuntimeError" := by
  rw [withPeaksAt_unfold Yf lstsq irs vectors values hv hp hg hd]
  unfold withPeaksAtCore
  simp only [hk]
  simp [keptVals]
end peaks

/-- an invertible Gram matrix needs: number of retained directions ≤ number of coefficients … -/
theorem gram_invertible_card_le {n : Nat} (Yf : Vec3 ℝ → Fin n → ℝ) (K : List (Vec3 ℝ × ℝ))
    (hdet : (keptC Yf K * (keptC Yf K).transpose).det ≠ 0) : K.length ≤ n := gram_card_le _ hdet

/-- … and directions that the harmonics tell apart (in particular: distinct) -/
theorem gram_singular_of_repeated {n : Nat} (Yf : Vec3 ℝ → Fin n → ℝ) (K : List (Vec3 ℝ × ℝ))
    (a b : Fin K.length) (hab : a ≠ b) (h : Yf (normalize K[a].1) = Yf (normalize K[b].1)) :
    (keptC Yf K * (keptC Yf K).transpose).det = 0 := gram_det_zero_of_repeated _ a b hab h

/-- the empty set of vectors returns the zero tensor for every irreps (before any assert) -/
theorem with_peaks_at_empty (Y : Vec3 ℝ → List ℝ) (lstsq : List (List ℝ) → List ℝ → List ℝ) (irs : List MulIr)
    (values : Option (List ℝ)) : withPeaksAt Y lstsq irs [] values = .ok (List.replicate (dimOf irs) 0) := by
  simp [withPeaksAt, zeros]

/-- `p_val = -1` is rejected by the explicit assert (also when values are given) -/
theorem with_peaks_at_rejects_odd_pval {pa : Int} (ha : pa = 1 ∨ pa = -1) (lmax : Nat) (Y : Vec3 ℝ → List ℝ)
    (lstsq : List (List ℝ) → List ℝ → List ℝ) (v : Vec3 ℝ) (vs : List (Vec3 ℝ)) (values : Option (List ℝ)) :
    ∃ irs, irreps lmax (-1) pa = .ok irs ∧ withPeaksAt Y lstsq irs (v :: vs) values = .error "AssertionError" := by
  refine ⟨_, irreps_eq (Or.inr rfl) ha lmax, ?_⟩
  have e : ((lmax : Int) + 1).toNat = lmax + 1 := by omega
  rw [e]
  simp [withPeaksAt, stIrreps, List.range_succ_eq_map, firstParity, parityOf, bind, Except.bind]

/-! ### concrete instances (non-vacuity) and the zero-value defect -/

/-- non-vacuity of `with_peaks_at_interpolates` (and of `with_peaks_at_residual`): degree ≤ 1, two directions -/
example : ∃ x : Fin 4 → ℝ,
    withPeaksAt (ofY Y1) (fun _ _ => [-1, 3]) irs1 [⟨1, 0, 0⟩, ⟨0, 1, 0⟩] (some [1, 5]) = .ok (List.ofFn x) ∧
    signalXyz (ofY Y1) irs1 (List.ofFn x) ⟨1, 0, 0⟩ = .ok 1 ∧
    signalXyz (ofY Y1) irs1 (List.ofFn x) ⟨0, 1, 0⟩ = .ok 5 := by
  have hK : kept [⟨1, 0, 0⟩, ⟨0, 1, 0⟩] (some [1, 5]) = [(⟨1, 0, 0⟩, 1), (⟨0, 1, 0⟩, 5)] := by
    have h5 : isNonzero (5 : ℝ) = true := (isNonzero_real 5).mpr (by norm_num)
    simp [kept, keptPairs, isNonzero_one, h5]
  obtain ⟨_, h1, h2, h3, h4⟩ := irs1_guards
  have key := with_peaks_at_interpolates Y1 (fun _ _ => [-1, 3]) irs1 [⟨1, 0, 0⟩, ⟨0, 1, 0⟩] (some [1, 5])
    (by simp) h1 h2 h3 h4 rfl
  rw [hK] at key
  obtain ⟨x, hx, hq⟩ := key (by simp) (by rw [gram_example, Matrix.det_fin_two_of]; norm_num)
    ⟨![-1, 3], by simp [List.ofFn_succ], fun y => by
      have : (keptC Y1 [(⟨1, 0, 0⟩, 1), (⟨0, 1, 0⟩, 5)] * (keptC Y1 [(⟨1, 0, 0⟩, 1), (⟨0, 1, 0⟩, 5)]).transpose).mulVec ![-1, 3]
          = keptVals [(⟨1, 0, 0⟩, 1), (⟨0, 1, 0⟩, 5)] := by
        rw [gram_example]
        funext i; fin_cases i <;> simp [keptVals, Matrix.mulVec, dotProduct, Fin.sum_univ_succ] <;> norm_num
      rw [this]
      simp only [sub_self, ne_eq, OfNat.ofNat_ne_zero, not_false_eq_true, zero_pow, Finset.sum_const_zero]
      exact Finset.sum_nonneg fun i _ => sq_nonneg _⟩
  exact ⟨x, hx, hq (⟨1, 0, 0⟩, 1) (by simp), hq (⟨0, 1, 0⟩, 5) (by simp)⟩

/-- NEGATIVE (2): pairs whose requested value is `0` have no influence on the result at all — the returned signal is
not constrained to vanish there (concrete instance: `witness_zero_value`). -/
theorem with_peaks_at_ignores_zero_values {K : Type} [Scalar K] (Y : Vec3 K → List K)
    (lstsq : List (List K) → List K → List K) (irs : List MulIr)
    (vectors : List (Vec3 K)) (vals : List K) (hk : keptPairs vectors vals ≠ []) :
    withPeaksAt Y lstsq irs vectors (some vals) =
      withPeaksAt Y lstsq irs ((keptPairs vectors vals).map (·.1)) (some ((keptPairs vectors vals).map (·.2))) := by
  have h1 : vectors.isEmpty = false := by
    cases vectors with
    | nil => simp [keptPairs] at hk
    | cons => rfl
  have h2 : ((keptPairs vectors vals).map (·.1)).isEmpty = false := by
    cases h : keptPairs vectors vals with
    | nil => exact absurd h hk
    | cons => rfl
  unfold withPeaksAt
  simp only [h1, h2, Option.getD_some, keptPairs_idem]

/-- NEGATIVE (2), concrete witness: degree ≤ 1 harmonics `(1,x,y,z)`, peaks requested at `e_x` with value 1 and at `e_y` with
value 0; `lstsq` solves the (1×1) system exactly.  The returned signal takes the value 1/2 at `e_y`, not 0. -/
theorem witness_zero_value :
    withPeaksAt (ofY Y1) (fun _ _ => [1 / 2]) irs1 [⟨1, 0, 0⟩, ⟨0, 1, 0⟩] (some [1, 0]) = .ok [1 / 2, 1 / 2, 0, 0] ∧
    signalXyz (ofY Y1) irs1 [1 / 2, 1 / 2, 0, 0] ⟨0, 1, 0⟩ = .ok (1 / 2) := by
  constructor
  · simp only [withPeaksAt, List.isEmpty_cons, Bool.false_eq_true, if_false, irs1_guards.2.1, irs1_guards.2.2.1,
      irs1_guards.2.2.2.2, bind, Except.bind, ne_eq, not_true_eq_false, Option.getD_some, keptPairs, List.zip_cons_cons,
      List.zip_nil_right, List.filter_cons, isNonzero_one, isNonzero_zero, if_true, List.filter_nil, List.map_cons, List.map_nil,
      ofY, Y1]
    simp [norm_ex, withPeaksAtCore, gram, dot, matVec, vsub, maxAbs, vecMat, smul, vsum, vadd, zeros, residualTol_real, List.ofFn_succ]
    norm_num
  · simp only [signalXyz, irs1_guards.2.2.1, irs1_guards.2.2.2.1, bind, Except.bind]
    simp [signalXyzVal, ofY, Y1, norm_ey, dot, List.ofFn_succ, pure, Except.pure]

/-! ## 6. `signal_on_grid` -/

/-- `ToS2Grid(lmax, res)`: accepted iff `res` is even and `lmax + 1 ≤ res/2`; then `res_beta = res`,
`res_alpha = max(2·lmax+1, res−1)` -/
theorem completeRes_eq (lmax res : Nat) :
    completeRes lmax res =
      if res % 2 = 0 ∧ lmax + 1 ≤ res / 2 then .ok (res, max (2 * lmax + 1) (res - 1)) else .error "AssertionError" := by
  unfold completeRes
  by_cases h1 : res % 2 = 0 <;> by_cases h2 : lmax + 1 ≤ res / 2 <;> simp [h1, h2]

/-- the reported grid: `res_beta × res_alpha` points `(sin β sin α, cos β, sin β cos α)`,
`β_b = (b + ½)/res_beta · π`, `α_a = a/res_alpha · 2π`, all of them unit vectors -/
theorem grid_points (rb ra : Nat) :
    (s2GridPoints rb ra : List (List (Vec3 ℝ))).length = rb ∧
    (∀ row ∈ (s2GridPoints rb ra : List (List (Vec3 ℝ))), row.length = ra ∧ ∀ v ∈ row, v.normSq = 1) ∧
    ∀ (b a : Nat) (_ : b < rb) (_ : a < ra),
      ((s2GridPoints rb ra : List (List (Vec3 ℝ)))[b]?.bind (·[a]?)) =
        some (let β : ℝ := ((b : ℝ) + 1 / 2) / rb * Real.pi; let α : ℝ := (a : ℝ) / ra * 2 * Real.pi
              ⟨Real.sin β * Real.sin α, Real.cos β, Real.sin β * Real.cos α⟩) := by
  refine ⟨by simp [s2GridPoints, s2Betas], ?_, ?_⟩
  · intro row hrow
    simp only [s2GridPoints, List.mem_map] at hrow
    obtain ⟨b, _, rfl⟩ := hrow
    refine ⟨by simp [s2Alphas], fun v hv => ?_⟩
    simp only [List.mem_map] at hv
    obtain ⟨a, _, rfl⟩ := hv
    exact angles_to_xyz_normSq a b
  · intro b a hb ha
    simp [s2GridPoints, s2Betas, s2Alphas, hb, ha, angles_to_xyz, Scalar.ofFrac, Scalar.ofInt]

/-- `signal_on_grid` returns values that equal `signal_xyz` at the grid points it reports — GIVEN the evaluation
property of `ToS2Grid` (`hT`, property C11's theorem: `ToS2Grid(c)[b,a] = Σ_i c_i Y_i(x_ba)`); what is proved here is
the glue: the resolution completion, and that `signal_xyz`'s normalisation is the identity on the grid points. -/
theorem signal_on_grid_values {n L : Nat} (Yf : Vec3 ℝ → Fin n → ℝ) (irs : List MulIr)
    (hg : shGuard irs = .ok ()) (hl : lmaxOf irs = .ok L) (hn : n = (L + 1) ^ 2)
    (toGrid : Nat → Nat → List ℝ → List (List ℝ)) (c : Fin n → ℝ) (res : Nat)
    (hres : res % 2 = 0 ∧ L + 1 ≤ res / 2)
    (hT : ∀ rb ra, toGrid rb ra (List.ofFn c) =
      (s2GridPoints rb ra).map fun row => row.map fun x => ∑ i, c i * Yf x i) :
    ∃ grid values, signalOnGrid toGrid irs (List.ofFn c) res = .ok (grid, values) ∧
      grid = s2GridPoints res (max (2 * L + 1) (res - 1)) ∧
      List.Forall₂ (List.Forall₂ fun x v => signalXyz (ofY Yf) irs (List.ofFn c) x = .ok v) grid values := by
  refine ⟨s2GridPoints res (max (2 * L + 1) (res - 1)), toGrid res (max (2 * L + 1) (res - 1)) (List.ofFn c), ?_, rfl, ?_⟩
  · unfold signalOnGrid
    simp only [hl, completeRes_eq, hres, and_self, if_true, bind, Except.bind, pure, Except.pure]
  · rw [hT, List.forall₂_map_right_iff, List.forall₂_same]
    intro row hrow
    rw [List.forall₂_map_right_iff, List.forall₂_same]
    intro x hx
    rw [signal_xyz_eq Yf irs hg hl hn, normalize_unit x (((grid_points _ _).2.1 row hrow).2 x hx)]
/-- `hT` is satisfiable: the direct evaluation `values[b][a] = Y(x_ba) · c` -/
example {n : Nat} (Yf : Vec3 ℝ → Fin n → ℝ) (c : Fin n → ℝ) :
    ∃ toGrid : Nat → Nat → List ℝ → List (List ℝ), ∀ rb ra, toGrid rb ra (List.ofFn c) =
      (s2GridPoints rb ra).map fun row => row.map fun x => ∑ i, c i * Yf x i := by
  refine ⟨fun rb ra l => (s2GridPoints rb ra).map fun row => row.map fun x => dot (ofY Yf x) l, fun rb ra => ?_⟩
  simp only [ofY, dot_ofFn]
  congr 1; funext row; congr 1; funext x
  apply Finset.sum_congr rfl; intro i _; ring
example : completeRes 3 20 = .ok (20, 19) := by decide
example : completeRes 3 7 = .error "AssertionError" := by decide
example : completeRes 4 8 = .error "AssertionError" := by decide

end E3nnVerif.Props.C18
