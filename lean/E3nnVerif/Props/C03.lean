import E3nnVerif.Theory.WignerDSound
import E3nnVerif.Theory.IrrepsBook
import E3nnVerif.Props.C12
import E3nnVerif.Cert.Gen
import E3nnVerif.Cert.C03GenY
import E3nnVerif.Cert.C03GenA
import E3nnVerif.Cert.C03GenB
import E3nnVerif.Cert.C03GenC
import Mathlib.Tactic.IntervalCases
/-
C03 — Wigner D matrices are an orthogonal representation of O(3) in every form.

Model (over ℝ; `matrix_exp` is Mathlib's `NormedSpace.exp`, the generators are the exact tables of
`Model/Wigner.lean`, the rotation conversions are the ℝ instance of `Model/Rotation.lean` (C12), `direct_sum`,
the list of blocks and the parity factor are `Model/WignerD.lean`):

  wigner_D l α β γ            = wignerD l (α mod 2π) (β mod 2π) (γ mod 2π)           _wigner.py:92-97
  wignerD l α β γ             = exp(α X[1]) exp(β X[0]) exp(γ X[1])                   (Props/C04)
  irrepD ir α β γ k           = p^k • wigner_D l α β γ                               _irreps.py:146-150
  irrepD_from_matrix ir R     = d := sign det R; irrepD ir (matrix_to_angles (d R)) ((1-d)/2)   :194-197
  irrepD_from_quaternion / _axis_angle                                                        :168,216
  irrepsD irs α β γ k         = direct_sum [irrepD ir α β γ k | mul, ir ∈ irs, _ ∈ range mul]   :668
  irrepsD_from_matrix / _quaternion / _axis_angle                                              :686-722

Certificates: `genCert l` (generators real, skew, `[X₀,X₁]=X₂` cyclic, Casimir) and `genYBlockCheck l`
(`X[1]` is the anti-diagonal matrix `(r, 2l−r) ↦ l−r`) are kernel-decided for `l ≤ 11` (`certified`); the theorems
take them as hypotheses so that any further degree only needs its two `decide +kernel` lines.

All theorems are for ALL real angles.  What is NOT proved here (and why) is stated at `WignerDHom`.
-/
namespace E3nnVerif.Props.C03
open E3nnVerif E3nnVerif.Model.Wigner E3nnVerif.Model.WignerD E3nnVerif.Model.Irreps E3nnVerif.Theory
open E3nnVerif.Theory.DirectSum E3nnVerif.Props.C04 E3nnVerif.Rotation
open Matrix
open scoped BigOperators

/-! ## 0. certificates for the degrees e3nn is used with -/

theorem certified (l : ℕ) (h : l ≤ 11) : genCert l = true ∧ genYBlockCheck l = true := by
  interval_cases l
  · exact ⟨Cert.Gen.gen_0, Cert.C03.genY_0⟩
  · exact ⟨Cert.Gen.gen_1, Cert.C03.genY_1⟩
  · exact ⟨Cert.Gen.gen_2, Cert.C03.genY_2⟩
  · exact ⟨Cert.Gen.gen_3, Cert.C03.genY_3⟩
  · exact ⟨Cert.Gen.gen_4, Cert.C03.genY_4⟩
  · exact ⟨Cert.Gen.gen_5, Cert.C03.genY_5⟩
  · exact ⟨Cert.C03.gen_6, Cert.C03.genY_6⟩
  · exact ⟨Cert.C03.gen_7, Cert.C03.genY_7⟩
  · exact ⟨Cert.C03.gen_8, Cert.C03.genY_8⟩
  · exact ⟨Cert.C03.gen_9, Cert.C03.genY_9⟩
  · exact ⟨Cert.C03.gen_10, Cert.C03.genY_10⟩
  · exact ⟨Cert.C03.gen_11, Cert.C03.genY_11⟩

/-! ## 1. the model of the code -/

/-- torch's `x % (2π)` (floor-mod: result in `[0, 2π)`) -/
noncomputable def mod2pi (x : ℝ) : ℝ := x - ⌊x / (2 * Real.pi)⌋ * (2 * Real.pi)

/-- `o3.wigner_D(l, α, β, γ)` as written: the angles are reduced mod 2π before exponentiation -/
noncomputable def wigner_D (l : ℕ) (α β γ : ℝ) : Matrix (Fin (2 * l + 1)) (Fin (2 * l + 1)) ℝ :=
  wignerD l (mod2pi α) (mod2pi β) (mod2pi γ)

/-- `Irrep.D_from_angles(α, β, γ, k)` = `wigner_D(l, α, β, γ) * p ** k` for an integer `k` -/
noncomputable def irrepD (ir : Irrep) (α β γ : ℝ) (k : ℤ) : Matrix (Fin (2 * ir.l + 1)) (Fin (2 * ir.l + 1)) ℝ :=
  ((parityFactor ir.p k : ℤ) : ℝ) • wigner_D ir.l α β γ

/-- the two exceptions of the `D_from_*` family: the determinant assertion of `matrix_to_angles`, and
`matrices[0]` of `direct_sum` when an `Irreps` has no block at all -/
inductive DErr
  | assertion
  | index
deriving DecidableEq, Repr

def orAssert {α : Type} : Option α → Except DErr α
  | some a => .ok a
  | none => .error .assertion

/-- `torch.sign` -/
noncomputable def signR (x : ℝ) : ℤ := if 0 < x then 1 else if x < 0 then -1 else 0

/-- `d[..., None, None] * R` -/
def smul3 (d : ℝ) (R : Mat3 ℝ) : Mat3 ℝ :=
  ⟨d * R.m00, d * R.m01, d * R.m02, d * R.m10, d * R.m11, d * R.m12, d * R.m20, d * R.m21, d * R.m22⟩

/-- `Irrep.D_from_matrix(R)`; for `det R = 0` the code's `k` would be `1/2`, but then `d·R = 0` fails the
determinant assertion first (`irrepD_from_matrix_det_zero`), so the value of `kOfSign 0` is never used -/
noncomputable def irrepD_from_matrix (ir : Irrep) (R : Mat3 ℝ) :
    Except DErr (Matrix (Fin (2 * ir.l + 1)) (Fin (2 * ir.l + 1)) ℝ) :=
  (orAssert (matrix_to_angles (smul3 (signR R.det) R))).map
    fun a => irrepD ir a.alpha a.beta a.gamma (kOfSign (signR R.det))

/-- `Irrep.D_from_quaternion(q, k)` -/
noncomputable def irrepD_from_quaternion (ir : Irrep) (q : Quat ℝ) (k : ℤ) :
    Except DErr (Matrix (Fin (2 * ir.l + 1)) (Fin (2 * ir.l + 1)) ℝ) :=
  (orAssert (quaternion_to_angles q)).map fun a => irrepD ir a.alpha a.beta a.gamma k

/-- `Irrep.D_from_axis_angle(axis, angle)` (`k = None`, i.e. 0) -/
noncomputable def irrepD_from_axis_angle (ir : Irrep) (axis : Vec3 ℝ) (angle : ℝ) :
    Except DErr (Matrix (Fin (2 * ir.l + 1)) (Fin (2 * ir.l + 1)) ℝ) :=
  (orAssert (axis_angle_to_angles axis angle)).map fun a => irrepD ir a.alpha a.beta a.gamma 0

/-- the matrices `Irreps.D_from_angles` hands to `direct_sum`, in order -/
noncomputable def irrepsBlocks (irs : Irreps) (α β γ : ℝ) (k : ℤ) : List (Block ℝ) :=
  (blocks irs).map fun ir => ofMatrix (irrepD ir α β γ k)

/-- `Irreps.D_from_angles(α, β, γ, k)` -/
noncomputable def irrepsD (irs : Irreps) (α β γ : ℝ) (k : ℤ) : Except DErr (Block ℝ) :=
  match directSum (0 : ℝ) (irrepsBlocks irs α β γ k) with
  | some b => .ok b
  | none => .error .index

/-- `Irreps.D_from_matrix(R)`: the angles are computed first (so the assertion wins over the `IndexError`) -/
noncomputable def irrepsD_from_matrix (irs : Irreps) (R : Mat3 ℝ) : Except DErr (Block ℝ) :=
  (orAssert (matrix_to_angles (smul3 (signR R.det) R))).bind
    fun a => irrepsD irs a.alpha a.beta a.gamma (kOfSign (signR R.det))

noncomputable def irrepsD_from_quaternion (irs : Irreps) (q : Quat ℝ) (k : ℤ) : Except DErr (Block ℝ) :=
  (orAssert (quaternion_to_angles q)).bind fun a => irrepsD irs a.alpha a.beta a.gamma k

noncomputable def irrepsD_from_axis_angle (irs : Irreps) (axis : Vec3 ℝ) (angle : ℝ) : Except DErr (Block ℝ) :=
  (orAssert (axis_angle_to_angles axis angle)).bind fun a => irrepsD irs a.alpha a.beta a.gamma 0

/-! ## 2. `l = 1`: the Wigner matrix IS the rotation matrix (library axis order) -/

/-- the three generators for `l = 1` are the so(3) basis `X_a v = e_a × v`, `(x,y,z) = (0,1,2)` -/
theorem genR_one (a : Fin 3) : genR 1 a = Theory.so3Gen a := genR_one_eq Cert.C03.genL1 a

/-- `exp(θ X[0]) = matrix_x θ`, `exp(θ X[1]) = matrix_y θ`, `exp(θ X[2]) = matrix_z θ` for `l = 1` -/
theorem expM_genR_one (θ : ℝ) :
    expM (θ • genR 1 0) = toMatrix (matrix_x θ) ∧ expM (θ • genR 1 1) = toMatrix (matrix_y θ) ∧
    expM (θ • genR 1 2) = toMatrix (matrix_z θ) := by
  have h0 := genR_one 0
  have h1 := genR_one 1
  have h2 := genR_one 2
  simp only [Fin.isValue, Fin.val_zero, Fin.val_one, Fin.val_two] at h0 h1 h2
  refine ⟨?_, ?_, ?_⟩
  · rw [h0]; exact expM_so3Gen_x θ
  · rw [h1]; exact expM_so3Gen_y θ
  · rw [h2]; exact expM_so3Gen_z θ

/-- **`D^1(α,β,γ) = angles_to_matrix(α,β,γ)`** for all angles -/
theorem wignerD_one (α β γ : ℝ) : wignerD 1 α β γ = toMatrix (angles_to_matrix α β γ) := by
  unfold wignerD eulerD
  rw [(expM_genR_one α).2.1, (expM_genR_one β).1, (expM_genR_one γ).2.1]
  simp only [angles_to_matrix, toMatrix_mul]

/-! ## 3. closed form of the y rotations, conjugacy of the x rotations, periodicity -/

section periodic
variable {l : ℕ}

/-- `matrix_exp(θ·X[1])` is the explicit block rotation: `cos((l−i)θ)` on the diagonal, `sin((l−i)θ)` on the
anti-diagonal — rotations about the y axis act on the pair `(l−m, l+m)` by the angle `mθ` -/
theorem expM_genY (hy : genYBlockCheck l = true) (θ : ℝ) : expM (θ • genR l 1) = blockRotY l θ := by
  rw [genR_y_eq hy, expM_smul_yGen]

theorem expM_genY_periodic (hy : genYBlockCheck l = true) (θ : ℝ) (n : ℤ) :
    expM ((θ + n * (2 * Real.pi)) • genR l 1) = expM (θ • genR l 1) := by
  rw [expM_genY hy, expM_genY hy, blockRotY_add_int_mul_two_pi]

/-- the x rotations are conjugate to the y rotations by the quarter turn about z -/
theorem expM_genX_conj (hg : genCert l = true) (t : ℝ) :
    expM (t • genR l 0)
      = expM ((-(Real.pi / 2)) • genR l 2) * expM (t • genR l 1) * expM ((Real.pi / 2) • genR l 2) := by
  obtain ⟨_, c1, c2⟩ := genCert_comm hg
  exact expM_conj_quarter _ _ _ c1 c2 t

theorem expM_genX_periodic (hg : genCert l = true) (hy : genYBlockCheck l = true) (θ : ℝ) (n : ℤ) :
    expM ((θ + n * (2 * Real.pi)) • genR l 0) = expM (θ • genR l 0) := by
  obtain ⟨_, c1, c2⟩ := genCert_comm hg
  exact expM_period_transfer _ _ _ c1 c2 θ _ (expM_genY_periodic hy θ n)

/-- **periodicity**: adding any integer multiples of `2π` to the three angles does not change `D` -/
theorem wignerD_periodic (hg : genCert l = true) (hy : genYBlockCheck l = true) (α β γ : ℝ) (a b c : ℤ) :
    wignerD l (α + a * (2 * Real.pi)) (β + b * (2 * Real.pi)) (γ + c * (2 * Real.pi)) = wignerD l α β γ := by
  unfold wignerD eulerD
  rw [expM_genY_periodic hy, expM_genY_periodic hy, expM_genX_periodic hg hy]

theorem mod2pi_eq (x : ℝ) : mod2pi x = x + ((-⌊x / (2 * Real.pi)⌋ : ℤ) : ℝ) * (2 * Real.pi) := by
  unfold mod2pi; push_cast; ring

/-- the reduction `% (2π)` in `wigner_D` is harmless: the code computes `exp(αX₁)exp(βX₀)exp(γX₁)` of the
unreduced angles -/
theorem wigner_D_eq (hg : genCert l = true) (hy : genYBlockCheck l = true) (α β γ : ℝ) :
    wigner_D l α β γ = wignerD l α β γ := by
  unfold wigner_D
  rw [mod2pi_eq α, mod2pi_eq β, mod2pi_eq γ, wignerD_periodic hg hy]

theorem wigner_D_periodic (hg : genCert l = true) (hy : genYBlockCheck l = true) (α β γ : ℝ) (a b c : ℤ) :
    wigner_D l (α + a * (2 * Real.pi)) (β + b * (2 * Real.pi)) (γ + c * (2 * Real.pi)) = wigner_D l α β γ := by
  rw [wigner_D_eq hg hy, wigner_D_eq hg hy, wignerD_periodic hg hy]

end periodic

theorem mod2pi_zero : mod2pi 0 = 0 := by simp [mod2pi]

/-! ## 4. one irrep: orthogonal, identity, inverse, parity -/

section irrep
variable {l : ℕ}

theorem wigner_D_orthogonal (hg : genCert l = true) (α β γ : ℝ) :
    (wigner_D l α β γ)ᵀ * wigner_D l α β γ = 1 ∧ wigner_D l α β γ * (wigner_D l α β γ)ᵀ = 1 :=
  wignerD_orthogonal hg _ _ _

/-- … with determinant `+1`: `D^l` maps into `SO(2l+1)` -/
theorem wigner_D_det (hg : genCert l = true) (α β γ : ℝ) : (wigner_D l α β γ).det = 1 :=
  det_eulerD_of_skew _ _ (genCert_skew hg 0 (by omega)) (genCert_skew hg 1 (by omega)) _ _ _

theorem wigner_D_mem_SO (hg : genCert l = true) (α β γ : ℝ) :
    wigner_D l α β γ ∈ Matrix.specialOrthogonalGroup (Fin (2 * l + 1)) ℝ := by
  rw [Matrix.mem_specialOrthogonalGroup_iff, Matrix.mem_orthogonalGroup_iff]
  exact ⟨(wigner_D_orthogonal hg α β γ).2, wigner_D_det hg α β γ⟩

theorem wigner_D_zero (l : ℕ) : wigner_D l 0 0 0 = 1 := by
  unfold wigner_D; rw [mod2pi_zero]; exact wignerD_zero l

/-- `D(g⁻¹) = D(g)ᵀ` for the code WITH its mod-2π reduction (this needs periodicity:
`(−γ) mod 2π ≠ −(γ mod 2π)`) -/
theorem wigner_D_inverse (hg : genCert l = true) (hy : genYBlockCheck l = true) (α β γ : ℝ) :
    wigner_D l (-γ) (-β) (-α) = (wigner_D l α β γ)ᵀ := by
  rw [wigner_D_eq hg hy, wigner_D_eq hg hy, wignerD_inverse hg]

/-- for `l = 1` the code returns the rotation matrix itself -/
theorem wigner_D_one (α β γ : ℝ) : wigner_D 1 α β γ = toMatrix (angles_to_matrix α β γ) := by
  rw [wigner_D_eq Cert.Gen.gen_1 Cert.C03.genY_1, wignerD_one]

/-- for `l = 0` it is the 1×1 identity -/
theorem wignerD_zero_degree (α β γ : ℝ) : wignerD 0 α β γ = 1 := by
  have h0 : ∀ a, a < 3 → genR 0 a = 0 := by
    intro a ha
    have hs := genCert_skew Cert.Gen.gen_0 a ha
    ext i j
    have hi : i = ⟨0, by omega⟩ := Fin.ext (by omega)
    have hj : j = ⟨0, by omega⟩ := Fin.ext (by omega)
    have := congrFun (congrFun hs ⟨0, by omega⟩) ⟨0, by omega⟩
    simp only [Matrix.transpose_apply, Matrix.neg_apply] at this
    rw [hi, hj, Matrix.zero_apply]; linarith
  unfold wignerD eulerD
  rw [h0 0 (by omega), h0 1 (by omega)]
  simp [expM_zero]

/-! parity factor -/

theorem parityFactor_even (k : ℤ) : parityFactor .even k = 1 := rfl
theorem parityFactor_zero (p : Parity) : parityFactor p 0 = 1 := by cases p <;> rfl
theorem parityFactor_one (p : Parity) : parityFactor p 1 = p.toInt := by cases p <;> rfl
theorem parityFactor_sq (p : Parity) (k : ℤ) : parityFactor p k * parityFactor p k = 1 := by
  cases p
  · simp only [parityFactor]; split <;> rfl
  · rfl
/-- `p^k` depends on `k` only mod 2 and is multiplicative: `k ↦ p^k` is a character of ℤ/2 -/
theorem parityFactor_add (p : Parity) (j k : ℤ) :
    parityFactor p (j + k) = parityFactor p j * parityFactor p k := by
  cases p
  · simp only [parityFactor, beq_iff_eq]
    rcases Int.emod_two_eq_zero_or_one j with hj | hj <;> rcases Int.emod_two_eq_zero_or_one k with hk | hk <;>
      · have : (j + k) % 2 = (j % 2 + k % 2) % 2 := Int.add_emod j k 2
        rw [hj, hk] at this
        simp [hj, hk, this]
  · rfl
theorem parityFactor_add_two (p : Parity) (k : ℤ) : parityFactor p (k + 2) = parityFactor p k := by
  rw [parityFactor_add]; cases p <;> simp [parityFactor]
theorem parityFactor_neg (p : Parity) (k : ℤ) : parityFactor p (-k) = parityFactor p k := by
  cases p
  · simp only [parityFactor, Int.neg_emod_two]
  · rfl

/-- improper elements carry the factor `p`: `D(g, k) = p^k · D(g, 0)` -/
theorem irrepD_parity (ir : Irrep) (α β γ : ℝ) (k : ℤ) :
    irrepD ir α β γ k = ((parityFactor ir.p k : ℤ) : ℝ) • irrepD ir α β γ 0 := by
  simp [irrepD, parityFactor_zero]

theorem irrepD_add_k (ir : Irrep) (α β γ : ℝ) (j k : ℤ) :
    irrepD ir α β γ (j + k) = ((parityFactor ir.p j : ℤ) : ℝ) • irrepD ir α β γ k := by
  simp only [irrepD, parityFactor_add, smul_smul]; push_cast; rfl

theorem irrepD_orthogonal (ir : Irrep) (hg : genCert ir.l = true) (α β γ : ℝ) (k : ℤ) :
    (irrepD ir α β γ k)ᵀ * irrepD ir α β γ k = 1 := by
  have hsq : ((parityFactor ir.p k : ℤ) : ℝ) * ((parityFactor ir.p k : ℤ) : ℝ) = 1 := by
    rw [← Int.cast_mul, parityFactor_sq]; simp
  simp only [irrepD, Matrix.transpose_smul, Matrix.smul_mul, Matrix.mul_smul, smul_smul, hsq, one_smul]
  exact (wigner_D_orthogonal hg α β γ).1

/-- `det D(g, k) = p^k` (the dimension `2l+1` is odd): improper elements of an odd irrep are improper matrices -/
theorem irrepD_det (ir : Irrep) (hg : genCert ir.l = true) (α β γ : ℝ) (k : ℤ) :
    (irrepD ir α β γ k).det = ((parityFactor ir.p k : ℤ) : ℝ) := by
  have hsq : ((parityFactor ir.p k : ℤ) : ℝ) * ((parityFactor ir.p k : ℤ) : ℝ) = 1 := by
    rw [← Int.cast_mul, parityFactor_sq]; simp
  simp only [irrepD, Matrix.det_smul, Fintype.card_fin, wigner_D_det hg, mul_one]
  rw [pow_succ, pow_mul, pow_two, hsq, one_pow, one_mul]

/-- identity of O(3) ↦ identity matrix -/
theorem irrepD_identity (ir : Irrep) : irrepD ir 0 0 0 0 = 1 := by
  simp [irrepD, parityFactor_zero, wigner_D_zero]

/-- the inversion `−1 ∈ O(3)` (angles 0, `k = 1`) ↦ `p · 1` -/
theorem irrepD_inversion (ir : Irrep) : irrepD ir 0 0 0 1 = ((ir.p.toInt : ℤ) : ℝ) • 1 := by
  simp [irrepD, parityFactor_one, wigner_D_zero]

/-- inverse of a (possibly improper) element `(g, k)` is `(g⁻¹, k)` -/
theorem irrepD_inverse (ir : Irrep) (hg : genCert ir.l = true) (hy : genYBlockCheck ir.l = true)
    (α β γ : ℝ) (k : ℤ) : irrepD ir (-γ) (-β) (-α) k = (irrepD ir α β γ k)ᵀ := by
  simp only [irrepD, Matrix.transpose_smul, wigner_D_inverse hg hy]

/-- composing with the inversion: `(g,j)·(h,k) = (gh, j+k)`, parity part -/
theorem irrepD_mul_parity (ir : Irrep) (a b c a' b' c' a'' b'' c'' : ℝ) (j k : ℤ)
    (h : irrepD ir a b c 0 * irrepD ir a' b' c' 0 = irrepD ir a'' b'' c'' 0) :
    irrepD ir a b c j * irrepD ir a' b' c' k = irrepD ir a'' b'' c'' (j + k) := by
  rw [irrepD_parity ir a b c j, irrepD_parity ir a' b' c' k, irrepD_parity ir a'' b'' c'' (j + k),
    Matrix.smul_mul, Matrix.mul_smul, h, smul_smul, parityFactor_add]
  push_cast; rfl

end irrep

/-! ## 5. the homomorphism property

`D(g₁ g₂) = D(g₁) D(g₂)` where `g₁ g₂` is the product of the rotation MATRICES (what `o3.compose_angles` returns,
C12 `compose_angles_matrix`).  Proved below: every composition along a common axis (all `l`, no certificate), and
the full statement for `l ≤ 1`.  The general case is the integration of the Lie-algebra homomorphism `so(3) → gl(2l+1)`
(certified by `genCert`) to the group `SO(3)`; Mathlib v4.33 has no Lie-group/Lie-algebra correspondence (nor
Baker–Campbell–Hausdorff, nor that `SO(3)` is generated by one-parameter subgroups with the relations of `l = 1`), so
it is NOT proved here: it is the named hypothesis `WignerDHom l` of the `_partial` theorems and is carried by the
correspondence check (`harness/c03.py`: random pairs and singular strata, `l ≤ 11`, 1e-10). -/

/-- the missing lemma, exactly: whenever the rotation matrices multiply, so do the Wigner matrices -/
def WignerDHom (l : ℕ) : Prop :=
  ∀ a b c a₁ b₁ c₁ a₂ b₂ c₂ : ℝ,
    toMatrix (angles_to_matrix a b c) = toMatrix (angles_to_matrix a₁ b₁ c₁) * toMatrix (angles_to_matrix a₂ b₂ c₂) →
    wignerD l a b c = wignerD l a₁ b₁ c₁ * wignerD l a₂ b₂ c₂

/-- its corollary `wignerD_factors_through_SO3`: `D^l` depends on the angles only through the rotation matrix -/
def WignerDFactorsThroughSO3 (l : ℕ) : Prop :=
  ∀ a b c a' b' c' : ℝ, angles_to_matrix a b c = angles_to_matrix a' b' c' → wignerD l a b c = wignerD l a' b' c'

theorem wignerD_factors_through_SO3_of_hom {l : ℕ} (h : WignerDHom l) : WignerDFactorsThroughSO3 l := by
  intro a b c a' b' c' e
  have hid : toMatrix (angles_to_matrix (0 : ℝ) 0 0) = 1 := by
    have := C12.identity_angles_matrix
    simpa only [identity_angles, zero_real] using this
  have := h a b c a' b' c' 0 0 0 (by rw [e, hid, Matrix.mul_one])
  rw [this, wignerD_zero, Matrix.mul_one]

/-- `l = 0` -/
theorem wignerDHom_zero : WignerDHom 0 := by
  intro a b c a₁ b₁ c₁ a₂ b₂ c₂ _
  simp [wignerD_zero_degree]

/-- `l = 1` -/
theorem wignerDHom_one : WignerDHom 1 := by
  intro a b c a₁ b₁ c₁ a₂ b₂ c₂ h
  rw [wignerD_one, wignerD_one, wignerD_one, h]

theorem wignerD_factors_through_SO3_zero : WignerDFactorsThroughSO3 0 :=
  wignerD_factors_through_SO3_of_hom wignerDHom_zero
theorem wignerD_factors_through_SO3_one : WignerDFactorsThroughSO3 1 :=
  wignerD_factors_through_SO3_of_hom wignerDHom_one

/-- **homomorphism with `compose_angles`, `l = 1`** (all six angles) -/
theorem wignerD_compose_one (a₁ b₁ c₁ a₂ b₂ c₂ : ℝ) :
    ∃ a, compose_angles a₁ b₁ c₁ a₂ b₂ c₂ = some a ∧
      wignerD 1 a.alpha a.beta a.gamma = wignerD 1 a₁ b₁ c₁ * wignerD 1 a₂ b₂ c₂ := by
  obtain ⟨a, h1, h2⟩ := C12.compose_angles_matrix a₁ b₁ c₁ a₂ b₂ c₂
  exact ⟨a, h1, wignerDHom_one _ _ _ _ _ _ _ _ _ h2⟩

/-- **homomorphism with `compose_angles`**, any degree, from the named missing lemma -/
theorem wignerD_compose_partial {l : ℕ} (hom : WignerDHom l) (a₁ b₁ c₁ a₂ b₂ c₂ : ℝ) :
    ∃ a, compose_angles a₁ b₁ c₁ a₂ b₂ c₂ = some a ∧
      wignerD l a.alpha a.beta a.gamma = wignerD l a₁ b₁ c₁ * wignerD l a₂ b₂ c₂ := by
  obtain ⟨a, h1, h2⟩ := C12.compose_angles_matrix a₁ b₁ c₁ a₂ b₂ c₂
  exact ⟨a, h1, hom _ _ _ _ _ _ _ _ _ h2⟩

/-! compositions along a common axis: all degrees, all angles, no certificate -/

theorem wignerD_split (l : ℕ) (α β γ : ℝ) :
    wignerD l α β γ = wignerD l α 0 0 * wignerD l 0 β 0 * wignerD l 0 0 γ := by
  simp [wignerD, eulerD, expM_zero]

/-- a y rotation applied after `g`: `D(Ry(δ) g) = D(Ry(δ)) D(g)` and `Ry(δ) g` has angles `(δ+α, β, γ)` -/
theorem wignerD_y_left (l : ℕ) (δ α β γ : ℝ) :
    wignerD l δ 0 0 * wignerD l α β γ = wignerD l (δ + α) β γ ∧
    toMatrix (angles_to_matrix δ 0 0) * toMatrix (angles_to_matrix α β γ) = toMatrix (angles_to_matrix (δ + α) β γ) := by
  constructor
  · simp only [wignerD, eulerD, expM_zero_smul, Matrix.mul_one, expM_add_smul, Matrix.mul_assoc]
  · rw [← wignerD_one, ← wignerD_one, ← wignerD_one]
    simp only [wignerD, eulerD, expM_zero_smul, Matrix.mul_one, expM_add_smul, Matrix.mul_assoc]

/-- a y rotation applied before `g` -/
theorem wignerD_y_right (l : ℕ) (α β γ δ : ℝ) :
    wignerD l α β γ * wignerD l 0 0 δ = wignerD l α β (γ + δ) ∧
    toMatrix (angles_to_matrix α β γ) * toMatrix (angles_to_matrix 0 0 δ) = toMatrix (angles_to_matrix α β (γ + δ)) := by
  constructor
  · simp only [wignerD, eulerD, expM_zero_smul, Matrix.mul_one, Matrix.one_mul, expM_add_smul, Matrix.mul_assoc]
  · rw [← wignerD_one, ← wignerD_one, ← wignerD_one]
    simp only [wignerD, eulerD, expM_zero_smul, Matrix.mul_one, Matrix.one_mul, expM_add_smul, Matrix.mul_assoc]

/-- two x rotations -/
theorem wignerD_x_x (l : ℕ) (β β' : ℝ) : wignerD l 0 β 0 * wignerD l 0 β' 0 = wignerD l 0 (β + β') 0 := by
  simp only [wignerD, eulerD, expM_zero_smul, Matrix.mul_one, Matrix.one_mul, expM_add_smul]

/-- `g · g⁻¹ = 1` on the representation, all degrees (no certificate) -/
theorem wignerD_mul_inverse (l : ℕ) (α β γ : ℝ) :
    wignerD l α β γ * wignerD l (-γ) (-β) (-α) = 1 ∧ wignerD l (-γ) (-β) (-α) * wignerD l α β γ = 1 :=
  ⟨eulerD_mul_neg _ _ α β γ, eulerD_neg_mul _ _ α β γ⟩

/-! ## 6. direct sums (`Irreps.D_from_angles`) -/

section irreps

theorem irrepsBlocks_length (irs : Irreps) (α β γ : ℝ) (k : ℤ) :
    (irrepsBlocks irs α β γ k).length = (blocks irs).length := by simp [irrepsBlocks]

theorem irrepsBlocks_dims (irs : Irreps) (α β γ : ℝ) (k : ℤ) :
    (irrepsBlocks irs α β γ k).map Block.n = blockDims irs := by
  simp [irrepsBlocks, blockDims, Function.comp, ofMatrix_n, Irrep.dim]

/-- total size = `Irreps.dim` -/
theorem irrepsBlocks_dim (irs : Irreps) (α β γ : ℝ) (k : ℤ) :
    dsDim (irrepsBlocks irs α β γ k) = Model.Irreps.dim irs := by
  unfold irrepsBlocks
  rw [dsDim_map_ofMatrix (n := fun ir : Irrep => 2 * ir.l + 1), Theory.Irreps.dim_eq_blocks]
  rfl

/-- **error branch**: an `Irreps` without any block (empty, or all multiplicities 0) makes `direct_sum` raise
`IndexError`; otherwise the result is the `dim × dim` matrix `dsEntry` -/
theorem irrepsD_eq (irs : Irreps) (α β γ : ℝ) (k : ℤ) :
    irrepsD irs α β γ k =
      if (∀ e ∈ irs, e.1 = 0) then .error .index
      else .ok ⟨Model.Irreps.dim irs, ds (irrepsBlocks irs α β γ k)⟩ := by
  unfold irrepsD directSum
  have hnil : (∀ e ∈ irs, e.1 = 0) ↔ blocks irs = [] := (Theory.Irreps.blocks_eq_nil_iff irs).symm
  by_cases h : ∀ e ∈ irs, e.1 = 0
  · rw [if_pos h]
    have := hnil.mp h
    simp [irrepsBlocks, this]
  · rw [if_neg h]
    have hb : blocks irs ≠ [] := fun e => h (hnil.mpr e)
    have hd := irrepsBlocks_dim irs α β γ k
    have hlen := irrepsBlocks_length irs α β γ k
    cases hbl : irrepsBlocks irs α β γ k with
    | nil =>
      exfalso; apply hb
      rw [hbl] at hlen
      exact List.length_eq_zero_iff.mp hlen.symm
    | cons x xs =>
      rw [hbl] at hd
      simp [← hd]

/-- offsets of the blocks are the running sums of `2l+1`, in the order of the `Irreps` (with repetitions) -/
theorem irrepsBlocks_layout (irs : Irreps) (α β γ : ℝ) (k : ℤ) :
    layout (blockDims irs) = (List.range (blocks irs).length).map fun b =>
      (off (irrepsBlocks irs α β γ k) b, 2 * ((blocks irs).getD b ⟨0, .even⟩).l + 1) := by
  rw [← irrepsBlocks_dims irs α β γ k, off_eq_layout, irrepsBlocks_length]
  apply List.map_congr_left
  intro b hb
  have hb' : b < (blocks irs).length := List.mem_range.mp hb
  simp [irrepsBlocks, List.getD_eq_getElem?_getD, List.getElem?_map, List.getElem?_eq_getElem hb', ofMatrix_n]

/-- **block-diagonal in order**: block `b` of the direct sum is `D` of the `b`-th irrep of
`[ir for mul, ir in irreps for _ in range(mul)]`, and every entry outside the diagonal blocks is exactly 0 -/
theorem irrepsD_blocks (irs : Irreps) (α β γ : ℝ) (k : ℤ) (b : ℕ) (hb : b < (blocks irs).length) :
    (∀ r c (hr : r < 2 * (blocks irs)[b].l + 1) (hc : c < 2 * (blocks irs)[b].l + 1),
      ds (irrepsBlocks irs α β γ k) (off (irrepsBlocks irs α β γ k) b + r) (off (irrepsBlocks irs α β γ k) b + c)
        = irrepD (blocks irs)[b] α β γ k ⟨r, hr⟩ ⟨c, hc⟩) ∧
    (∀ b' (hb' : b' < (blocks irs).length), b ≠ b' → ∀ r c, r < 2 * (blocks irs)[b].l + 1 →
      c < 2 * (blocks irs)[b'].l + 1 →
      ds (irrepsBlocks irs α β γ k) (off (irrepsBlocks irs α β γ k) b + r) (off (irrepsBlocks irs α β γ k) b' + c) = 0) := by
  have hlen := irrepsBlocks_length irs α β γ k
  have hget : ∀ b (hb : b < (blocks irs).length),
      (irrepsBlocks irs α β γ k)[b]'(by rw [hlen]; exact hb) = ofMatrix (irrepD (blocks irs)[b] α β γ k) := by
    intro b hb; simp [irrepsBlocks]
  constructor
  · intro r c hr hc
    have := dsEntry_block (irrepsBlocks irs α β γ k) b (by rw [hlen]; exact hb) r c
      (by rw [hget b hb]; exact hr) (by rw [hget b hb]; exact hc)
    rw [this, hget b hb, ofMatrix_e _ r c hr hc]
  · intro b' hb' hne r c hr hc
    exact dsEntry_off_block (irrepsBlocks irs α β γ k) b b' (by rw [hlen]; exact hb) (by rw [hlen]; exact hb') hne r c
      (by rw [hget b hb]; exact hr) (by rw [hget b' hb']; exact hc)

/-- **orthogonal**, any `Irreps` whose degrees are certified -/
theorem irrepsD_orthogonal (irs : Irreps) (hg : ∀ ir ∈ blocks irs, genCert ir.l = true) (α β γ : ℝ) (k : ℤ) :
    (dsMat (irrepsBlocks irs α β γ k))ᵀ * dsMat (irrepsBlocks irs α β γ k) = 1 :=
  dsMat_map_orthogonal (n := fun ir : Irrep => 2 * ir.l + 1) (fun ir => irrepD ir α β γ k) (blocks irs)
    (fun ir hir => irrepD_orthogonal ir (hg ir hir) α β γ k)

theorem mem_blocks {irs : Irreps} {ir : Irrep} (h : ir ∈ blocks irs) : ∃ e ∈ irs, e.2 = ir := by
  simp only [blocks, List.mem_flatMap, List.mem_replicate] at h
  obtain ⟨e, he, _, rfl⟩ := h
  exact ⟨e, he, rfl⟩

/-- in the certified range (`l ≤ 11`, every degree e3nn ships spherical harmonics for) no hypothesis is left -/
theorem irrepsD_orthogonal_le11 (irs : Irreps) (h : ∀ e ∈ irs, e.2.l ≤ 11) (α β γ : ℝ) (k : ℤ) :
    (dsMat (irrepsBlocks irs α β γ k))ᵀ * dsMat (irrepsBlocks irs α β γ k) = 1 :=
  irrepsD_orthogonal irs (fun ir hir => by
    obtain ⟨e, he, rfl⟩ := mem_blocks hir
    exact (certified _ (h e he)).1) α β γ k

/-- identity ↦ identity -/
theorem irrepsD_identity (irs : Irreps) : dsMat (irrepsBlocks irs 0 0 0 0) = 1 :=
  dsMat_map_one (n := fun ir : Irrep => 2 * ir.l + 1) (fun ir => irrepD ir 0 0 0 0) (blocks irs)
    (fun ir _ => irrepD_identity ir)

/-- the inversion ↦ `diag(p_b · 1)` -/
theorem irrepsD_inversion (irs : Irreps) (b : ℕ) (hb : b < (blocks irs).length) (r c : ℕ)
    (hr : r < 2 * (blocks irs)[b].l + 1) (hc : c < 2 * (blocks irs)[b].l + 1) :
    ds (irrepsBlocks irs 0 0 0 1) (off (irrepsBlocks irs 0 0 0 1) b + r) (off (irrepsBlocks irs 0 0 0 1) b + c)
      = if r = c then (((blocks irs)[b].p.toInt : ℤ) : ℝ) else 0 := by
  rw [(irrepsD_blocks irs 0 0 0 1 b hb).1 r c hr hc, irrepD_inversion]
  simp [Matrix.one_apply, Fin.ext_iff]

/-- products are blockwise: if every irrep multiplies (`D(g₁)D(g₂) = D(g₃)`), so does the direct sum -/
theorem irrepsD_mul (irs : Irreps) (a b c a' b' c' a'' b'' c'' : ℝ) (j k m : ℤ)
    (h : ∀ ir ∈ blocks irs, irrepD ir a b c j * irrepD ir a' b' c' k = irrepD ir a'' b'' c'' m) (r s : ℕ) :
    ∑ t ∈ Finset.range (Model.Irreps.dim irs), ds (irrepsBlocks irs a b c j) r t * ds (irrepsBlocks irs a' b' c' k) t s
      = ds (irrepsBlocks irs a'' b'' c'' m) r s := by
  rw [← irrepsBlocks_dim irs a b c j]
  exact ds_map_mul (n := fun ir : Irrep => 2 * ir.l + 1) (fun ir => irrepD ir a b c j)
    (fun ir => irrepD ir a' b' c' k) (fun ir => irrepD ir a'' b'' c'' m) (blocks irs) h r s

/-- `D(g⁻¹) = D(g)ᵀ` for direct sums -/
theorem irrepsD_inverse (irs : Irreps) (hg : ∀ ir ∈ blocks irs, genCert ir.l = true)
    (hy : ∀ ir ∈ blocks irs, genYBlockCheck ir.l = true) (α β γ : ℝ) (k : ℤ) (r s : ℕ) :
    ds (irrepsBlocks irs (-γ) (-β) (-α) k) r s = ds (irrepsBlocks irs α β γ k) s r := by
  rw [← dsEntry_transpose]
  apply dsEntry_congr
  unfold irrepsBlocks
  rw [List.map_map]
  apply forall₂_map_self
  intro ir hir
  refine ⟨rfl, ?_⟩
  intro r hr c hc
  have hr' : r < 2 * ir.l + 1 := hr
  have hc' : c < 2 * ir.l + 1 := hc
  simp only [Function.comp, transposeBlock]
  rw [ofMatrix_e _ r c hr' hc', ofMatrix_e _ c r hc' hr', irrepD_inverse ir (hg ir hir) (hy ir hir)]
  rfl

end irreps

/-! ## 7. the four input forms -/

section forms

theorem signR_one : signR 1 = 1 := by simp [signR]
theorem signR_neg_one : signR (-1) = -1 := by simp [signR]
theorem smul3_one (R : Mat3 ℝ) : smul3 1 R = R := by cases R; simp [smul3]
theorem det_smul3 (d : ℝ) (R : Mat3 ℝ) : (smul3 d R).det = d ^ 3 * R.det := by
  simp only [smul3, Mat3.det]; ring
theorem smul3_smul3 (d e : ℝ) (R : Mat3 ℝ) : smul3 d (smul3 e R) = smul3 (d * e) R := by
  cases R; simp [smul3, mul_assoc]

/-- **proper rotations**: `D_from_matrix(R)` for `R ∈ SO(3)` is `D_from_angles` of angles whose rotation matrix
is `R` (never an error), with `k = 0` -/
theorem irrepD_from_matrix_rotation (ir : Irrep) (R : Mat3 ℝ) (hR : toMatrix R ∈ SO3) :
    ∃ a, matrix_to_angles R = some a ∧ angles_to_matrix a.alpha a.beta a.gamma = R ∧
      irrepD_from_matrix ir R = .ok (irrepD ir a.alpha a.beta a.gamma 0) := by
  obtain ⟨a, h1, h2⟩ := C12.matrix_to_angles_roundtrip R hR
  have hdet : R.det = 1 := ((isRot_iff R).mpr hR).2
  refine ⟨a, h1, h2, ?_⟩
  simp only [irrepD_from_matrix, hdet, signR_one, Int.cast_one, smul3_one, h1, orAssert, kOfSign]
  rfl

/-- **improper elements carry `p`**: `D_from_matrix(−R) = p · D_from_matrix(R)` for every rotation `R` -/
theorem irrepD_from_matrix_improper (ir : Irrep) (R : Mat3 ℝ) (hR : toMatrix R ∈ SO3) :
    ∃ a, matrix_to_angles R = some a ∧ angles_to_matrix a.alpha a.beta a.gamma = R ∧
      irrepD_from_matrix ir (smul3 (-1) R)
        = .ok (((ir.p.toInt : ℤ) : ℝ) • irrepD ir a.alpha a.beta a.gamma 0) := by
  obtain ⟨a, h1, h2⟩ := C12.matrix_to_angles_roundtrip R hR
  have hdet : R.det = 1 := ((isRot_iff R).mpr hR).2
  refine ⟨a, h1, h2, ?_⟩
  have hd : (smul3 (-1) R).det = -1 := by rw [det_smul3, hdet]; norm_num
  have hk : kOfSign (-1) = 1 := by decide
  simp only [irrepD_from_matrix, hd, signR_neg_one, Int.cast_neg, Int.cast_one, smul3_smul3, hk]
  rw [show (-1 : ℝ) * -1 = 1 by norm_num, smul3_one, h1]
  simp only [orAssert, Except.map]
  rw [irrepD_parity ir _ _ _ 1, parityFactor_one]

/-- the docstring's example: `D_from_matrix(−1₃) = p · 1` exactly -/
theorem irrepD_from_matrix_neg_one (ir : Irrep) :
    irrepD_from_matrix ir (smul3 (-1) Mat3.one) = .ok (((ir.p.toInt : ℤ) : ℝ) • 1) := by
  have hd : (smul3 (-1) (Mat3.one : Mat3 ℝ)).det = -1 := by
    have h1 : (Mat3.one : Mat3 ℝ).det = 1 := by simp [Mat3.det, Mat3.one, Scalar.one, Scalar.zero]
    rw [det_smul3, h1]; norm_num
  have hk : kOfSign (-1) = 1 := by decide
  simp only [irrepD_from_matrix, hd, signR_neg_one, Int.cast_neg, Int.cast_one, smul3_smul3, hk]
  rw [show (-1 : ℝ) * -1 = 1 by norm_num, smul3_one, matrix_to_angles_one]
  simp only [orAssert, Except.map]
  rw [irrepD_inversion]

theorem irrepD_from_matrix_one (ir : Irrep) : irrepD_from_matrix ir Mat3.one = .ok 1 := by
  have hd : (Mat3.one : Mat3 ℝ).det = 1 := by simp [Mat3.det, Mat3.one, Scalar.one, Scalar.zero]
  simp only [irrepD_from_matrix, hd, signR_one, Int.cast_one, smul3_one, matrix_to_angles_one, orAssert, Except.map]
  rw [show kOfSign 1 = 0 by decide, irrepD_identity]

/-- **error branch**: a singular matrix is rejected (`AssertionError` of `matrix_to_angles` on `0·R`) -/
theorem irrepD_from_matrix_det_zero (ir : Irrep) (R : Mat3 ℝ) (h : R.det = 0) :
    irrepD_from_matrix ir R = .error .assertion := by
  have hs : signR (0 : ℝ) = 0 := by simp [signR]
  have hz : matrix_to_angles (smul3 ((0 : ℤ) : ℝ) R) = none := by
    rw [C12.matrix_to_angles_rejects, det_smul3]; norm_num
  simp only [irrepD_from_matrix, h, hs, hz, orAssert, Except.map]

/-- more generally: `D_from_matrix` raises exactly when `|det(sign(det R)·R) − 1| > 1e-8 + 1e-5` -/
theorem irrepD_from_matrix_error_iff (ir : Irrep) (R : Mat3 ℝ) :
    irrepD_from_matrix ir R = .error .assertion ↔
      ¬ |(smul3 (signR R.det) R).det - 1| ≤ 1 / 100000000 + 1 / 100000 := by
  rw [← C12.matrix_to_angles_rejects]
  unfold irrepD_from_matrix
  cases matrix_to_angles (smul3 (signR R.det) R) <;> simp [orAssert, Except.map]

/-- **angles ↔ matrix**: `D_from_matrix(angles_to_matrix(α,β,γ))` and `D_from_angles(α,β,γ)` are `D` of angle triples
with the SAME rotation matrix — for every degree -/
theorem irrepD_from_matrix_angles (ir : Irrep) (α β γ : ℝ) :
    ∃ a : Angles ℝ, angles_to_matrix a.alpha a.beta a.gamma = angles_to_matrix α β γ ∧
      irrepD_from_matrix ir (angles_to_matrix α β γ) = .ok (irrepD ir a.alpha a.beta a.gamma 0) := by
  obtain ⟨a, _, h2, h3⟩ := irrepD_from_matrix_rotation ir _ (C12.angles_to_matrix_mem_SO3 α β γ)
  exact ⟨a, h2, h3⟩

/-- … hence EQUAL once `D^l` factors through SO(3) (`wignerD_factors_through_SO3`, the named missing lemma) -/
theorem irrepD_from_matrix_angles_partial (ir : Irrep) (hg : genCert ir.l = true) (hy : genYBlockCheck ir.l = true)
    (hf : WignerDFactorsThroughSO3 ir.l) (α β γ : ℝ) :
    irrepD_from_matrix ir (angles_to_matrix α β γ) = .ok (irrepD ir α β γ 0) := by
  obtain ⟨a, h1, h2⟩ := irrepD_from_matrix_angles ir α β γ
  rw [h2]
  simp only [irrepD, wigner_D_eq hg hy, hf _ _ _ _ _ _ h1]

/-- proved outright for `l = 0` and `l = 1` (both parities) -/
theorem irrepD_from_matrix_angles_l01 (p : Parity) (α β γ : ℝ) :
    irrepD_from_matrix ⟨0, p⟩ (angles_to_matrix α β γ) = .ok (irrepD ⟨0, p⟩ α β γ 0) ∧
    irrepD_from_matrix ⟨1, p⟩ (angles_to_matrix α β γ) = .ok (irrepD ⟨1, p⟩ α β γ 0) :=
  ⟨irrepD_from_matrix_angles_partial ⟨0, p⟩ Cert.Gen.gen_0 Cert.C03.genY_0 wignerD_factors_through_SO3_zero α β γ,
   irrepD_from_matrix_angles_partial ⟨1, p⟩ Cert.Gen.gen_1 Cert.C03.genY_1 wignerD_factors_through_SO3_one α β γ⟩

/-- quaternion and axis-angle forms never raise and are `D` of angles with the same rotation matrix as
`quaternion_to_matrix q` / `axis_angle_to_matrix axis angle` (which C12 identifies with the conjugation by `q` /
Rodrigues' rotation away from the singular strata) -/
theorem irrepD_from_quaternion_matrix (ir : Irrep) (q : Quat ℝ) (k : ℤ) :
    ∃ a : Angles ℝ, angles_to_matrix a.alpha a.beta a.gamma = quaternion_to_matrix q ∧
      irrepD_from_quaternion ir q k = .ok (irrepD ir a.alpha a.beta a.gamma k) := by
  obtain ⟨a, h1, h2⟩ := C12.quaternion_to_angles_matrix q
  exact ⟨a, h2, by simp [irrepD_from_quaternion, h1, orAssert, Except.map]⟩

theorem irrepD_from_axis_angle_matrix (ir : Irrep) (axis : Vec3 ℝ) (angle : ℝ) :
    ∃ a : Angles ℝ, angles_to_matrix a.alpha a.beta a.gamma = axis_angle_to_matrix axis angle ∧
      irrepD_from_axis_angle ir axis angle = .ok (irrepD ir a.alpha a.beta a.gamma 0) := by
  obtain ⟨a, h1, h2⟩ := C12.axis_angle_to_angles_matrix axis angle
  exact ⟨a, h2, by simp [irrepD_from_axis_angle, h1, orAssert, Except.map]⟩

/-- the three derived forms of the same rotation agree with the matrix form once `D^l` factors through SO(3) -/
theorem irrepD_forms_agree_partial (ir : Irrep) (hf : WignerDFactorsThroughSO3 ir.l)
    (hg : genCert ir.l = true) (hy : genYBlockCheck ir.l = true) (q : Quat ℝ) (axis : Vec3 ℝ) (angle : ℝ)
    (h : quaternion_to_matrix q = axis_angle_to_matrix axis angle) :
    irrepD_from_quaternion ir q 0 = irrepD_from_axis_angle ir axis angle ∧
    irrepD_from_matrix ir (quaternion_to_matrix q) = irrepD_from_quaternion ir q 0 := by
  obtain ⟨a, ha, hq⟩ := irrepD_from_quaternion_matrix ir q 0
  obtain ⟨b, hb, hx⟩ := irrepD_from_axis_angle_matrix ir axis angle
  obtain ⟨c, _, hc, hm⟩ := irrepD_from_matrix_rotation ir _ (C12.quaternion_to_matrix_mem_SO3 q)
  rw [hq, hx, hm]
  have e1 : wignerD ir.l a.alpha a.beta a.gamma = wignerD ir.l b.alpha b.beta b.gamma :=
    hf _ _ _ _ _ _ (by rw [ha, hb, h])
  have e2 : wignerD ir.l c.alpha c.beta c.gamma = wignerD ir.l a.alpha a.beta a.gamma :=
    hf _ _ _ _ _ _ (by rw [ha, hc])
  simp only [irrepD, wigner_D_eq hg hy, e1, e2, and_self]

/-- for `l = 1` (the vector irrep, either parity) the matrix form returns `±R` itself:
`D_from_matrix(R) = R` for `1e` and `det(R)·R`… precisely `p^k R'` with `R' = det·R` -/
theorem irrepD_from_matrix_l1 (p : Parity) (R : Mat3 ℝ) (hR : toMatrix R ∈ SO3) :
    irrepD_from_matrix ⟨1, p⟩ R = .ok (toMatrix R) ∧
    irrepD_from_matrix ⟨1, p⟩ (smul3 (-1) R) = .ok (((p.toInt : ℤ) : ℝ) • toMatrix R) := by
  obtain ⟨a, _, h2, h3⟩ := irrepD_from_matrix_rotation ⟨1, p⟩ R hR
  obtain ⟨a', h1', h2', h3'⟩ := irrepD_from_matrix_improper ⟨1, p⟩ R hR
  constructor
  · rw [h3]; simp only [irrepD, parityFactor_zero, Int.cast_one, one_smul]
    rw [wigner_D_one, h2]
  · rw [h3']; simp only [irrepD, parityFactor_zero, Int.cast_one, one_smul]
    rw [wigner_D_one, h2']

/-- Irreps versions: the error precedence of the code (assertion first, then `IndexError`) -/
theorem irrepsD_from_matrix_eq (irs : Irreps) (R : Mat3 ℝ) (hR : toMatrix R ∈ SO3) :
    ∃ a : Angles ℝ, angles_to_matrix a.alpha a.beta a.gamma = R ∧
      irrepsD_from_matrix irs R = irrepsD irs a.alpha a.beta a.gamma 0 ∧
      irrepsD_from_matrix irs (smul3 (-1) R) = irrepsD irs a.alpha a.beta a.gamma 1 := by
  obtain ⟨a, h1, h2⟩ := C12.matrix_to_angles_roundtrip R hR
  have hdet : R.det = 1 := ((isRot_iff R).mpr hR).2
  have hd : (smul3 (-1) R).det = -1 := by rw [det_smul3, hdet]; norm_num
  refine ⟨a, h2, ?_, ?_⟩
  · simp only [irrepsD_from_matrix, hdet, signR_one, Int.cast_one, smul3_one, h1, orAssert]
    rfl
  · simp only [irrepsD_from_matrix, hd, signR_neg_one, Int.cast_neg, Int.cast_one, smul3_smul3]
    rw [show (-1 : ℝ) * -1 = 1 by norm_num, smul3_one, h1]
    rfl

theorem irrepsD_from_matrix_det_zero (irs : Irreps) (R : Mat3 ℝ) (h : R.det = 0) :
    irrepsD_from_matrix irs R = .error .assertion := by
  have hs : signR (0 : ℝ) = 0 := by simp [signR]
  have hz : matrix_to_angles (smul3 ((0 : ℤ) : ℝ) R) = none := by
    rw [C12.matrix_to_angles_rejects, det_smul3]; norm_num
  simp only [irrepsD_from_matrix, h, hs, hz, orAssert]
  rfl

end forms

/-! ## 8. non-vacuity -/

example : genCert 3 = true ∧ genYBlockCheck 3 = true := certified 3 (by omega)
/-- a non-trivial value: `D^1(π/2, 0, 0)` maps `e_z ↦ e_x` (`matrix_y(π/2)`) -/
example : wigner_D 1 (Real.pi / 2) 0 0 = !![0, 0, 1; 0, 1, 0; -1, 0, 0] := by
  rw [wigner_D_one]
  simp only [angles_to_matrix, matrix_x_zero, matrix_y_zero, Mat3.mul_one']
  simp [toMatrix, matrix_y]
/-- `blockRotY` at `l = 1` really is `matrix_y` -/
example (θ : ℝ) : blockRotY 1 θ = toMatrix (matrix_y θ) := by
  rw [← expM_genY Cert.C03.genY_1, (expM_genR_one θ).2.1]
/-- the hypothesis of `irrepD_mul_parity` / `irrepsD_mul` is satisfiable non-trivially (same-axis composition) -/
example (ir : Irrep) (hg : genCert ir.l = true) (hy : genYBlockCheck ir.l = true) (δ α β γ : ℝ) :
    irrepD ir δ 0 0 0 * irrepD ir α β γ 0 = irrepD ir (δ + α) β γ 0 := by
  simp only [irrepD, parityFactor_zero, Int.cast_one, one_smul, wigner_D_eq hg hy]
  exact (wignerD_y_left ir.l δ α β γ).1
/-- a mixed, unsorted `Irreps` with a repetition and a zero multiplicity: blocks `1o, 1o, 0e, 2e` at 0,3,6,7 -/
example : blockDims [(2, ⟨1, .odd⟩), (0, ⟨3, .even⟩), (1, ⟨0, .even⟩), (1, ⟨2, .even⟩)] = [3, 3, 1, 5] ∧
    layout [3, 3, 1, 5] = [(0, 3), (3, 3), (6, 1), (7, 5)] := by decide
/-- … and one without blocks raises -/
example (α β γ : ℝ) (k : ℤ) : irrepsD [(0, ⟨1, .odd⟩)] α β γ k = .error .index := by
  rw [irrepsD_eq]; simp
example : toMatrix (matrix_y 1) ∈ SO3 := C12.matrix_y_mem_SO3 1
/-- the hypothesis of `irrepD_forms_agree_partial` holds e.g. for the axis-angle the code itself derives from `q` -/
example (q : Quat ℝ) : quaternion_to_matrix q
    = axis_angle_to_matrix (quaternion_to_axis_angle q).axis (quaternion_to_axis_angle q).angle := rfl
/-- a singular matrix -/
example : (⟨1, 0, 0, 0, 1, 0, 0, 0, 0⟩ : Mat3 ℝ).det = 0 := by simp [Mat3.det]
/-- `WignerDHom` / `WignerDFactorsThroughSO3` are not vacuous assumptions: they hold for `l = 1` -/
example : WignerDHom 1 ∧ WignerDFactorsThroughSO3 1 := ⟨wignerDHom_one, wignerD_factors_through_SO3_one⟩
example : ∀ e ∈ ([(2, ⟨1, .odd⟩), (0, ⟨3, .even⟩), (1, ⟨11, .even⟩)] : Irreps), e.2.l ≤ 11 := by decide

end E3nnVerif.Props.C03
