import Mathlib.Tactic.IntervalCases
import E3nnVerif.Theory.BatchNormEquiv
import E3nnVerif.Theory.BatchNormStat
import E3nnVerif.Theory.DropoutReal
/-
C13 — BatchNorm / Dropout: correct statistics over any call history, always equivariant.

Model: `E3nnVerif/Model/BatchNorm.lean` (`step`, `run`, `dropout`), instantiated at `ℝ`.
All theorems quantify over every option combination (`Opts ℝ`: irreps layout, eps, momentum, affine, reduce,
instance, include_bias, normalization), every state (buffers and parameters arbitrary), every call history
(`List (Op ℝ)`, by induction) and every batch.  The only hypotheses are the guards of the real code
(`accepted`: non-empty batch, matching last dimension, no empty block; `S ≠ 0`) and, for the value of the
output statistic, `0 ≤ eps`.
-/
namespace E3nnVerif.Props.C13
open E3nnVerif E3nnVerif.BN Finset

variable (o : Opts ℝ)

/-! ## (1) running statistics = exponential moving average of the training-mode batch statistics -/

theorem step_forward_state (st : State ℝ) (B S dim : Nat) (x : T3 ℝ) :
    (step o st (.forward B S dim x)).1
      = if accepted o B dim && S != 0 then (forwardCore o st B S x).1 else st := by
  simp only [step]
  cases accepted o B dim <;> cases h : (S == 0) <;> simp [h, bne]

theorem run_runningVar_fold (hinst : o.inst = false) (st : State ℝ) (ops : List (Op ℝ)) {j : Nat}
    (hj : j < o.irreps.numIrreps) :
    (run o st ops).1.runningVar j
      = emaFold o.momentum (st.runningVar j)
          ((trainedBatches o st.training ops).map fun t => varStat o t.1 t.2.1 t.2.2 j) := by
  induction ops generalizing st with
  | nil => rfl
  | cons op ops ih =>
    cases op with
    | train => simpa only [run, step, trainedBatches] using ih { st with training := true }
    | eval => simpa only [run, step, trainedBatches] using ih { st with training := false }
    | forward B S dim x =>
      simp only [run, trainedBatches]
      rw [ih, step_forward_state]
      cases hc : (accepted o B dim && S != 0)
      · simp
      · cases ht : st.training
        · simp [forwardCore_frozen o st B S x (Or.inl ht), ht]
        · have h3 := (forwardCore_other o st B S x).1
          simp only [Bool.and_self, if_true, h3, ht, List.map_cons, emaFold, List.foldl_cons]
          rw [forwardCore_runningVar o st B S x ht hinst hj]

theorem run_runningMean_fold (hinst : o.inst = false) (st : State ℝ) (ops : List (Op ℝ)) {j : Nat}
    (hj : j < o.irreps.numScalar) :
    (run o st ops).1.runningMean j
      = emaFold o.momentum (st.runningMean j)
          ((trainedBatches o st.training ops).map fun t => meanStat o t.1 t.2.1 t.2.2 j) := by
  induction ops generalizing st with
  | nil => rfl
  | cons op ops ih =>
    cases op with
    | train => simpa only [run, step, trainedBatches] using ih { st with training := true }
    | eval => simpa only [run, step, trainedBatches] using ih { st with training := false }
    | forward B S dim x =>
      simp only [run, trainedBatches]
      rw [ih, step_forward_state]
      cases hc : (accepted o B dim && S != 0)
      · simp
      · cases ht : st.training
        · simp [forwardCore_frozen o st B S x (Or.inl ht), ht]
        · have h3 := (forwardCore_other o st B S x).1
          simp only [Bool.and_self, if_true, h3, ht, List.map_cons, emaFold, List.foldl_cons]
          rw [forwardCore_runningMean o st B S x ht hinst hj]

/-- **running_var after ANY history** (non-instance module): with `u₀ … u_{n-1}` the batch statistics
`varStat` of exactly those forwards that were accepted and executed in training mode,
`running_var[j] = (1-m)ⁿ r₀[j] + Σ_{i<n} m (1-m)^{n-1-i} u_i[j]`.
Eval-mode forwards, rejected forwards and `train()`/`eval()` calls contribute nothing. -/
theorem running_var_ema (hinst : o.inst = false) (st : State ℝ) (ops : List (Op ℝ)) {j : Nat}
    (hj : j < o.irreps.numIrreps) :
    (run o st ops).1.runningVar j
      = emaClosed o.momentum (st.runningVar j)
          ((trainedBatches o st.training ops).map fun t => varStat o t.1 t.2.1 t.2.2 j) := by
  rw [run_runningVar_fold o hinst st ops hj, emaFold_eq_closed]

/-- **running_mean after ANY history**: the same closed form with the batch means `meanStat`
(mean over the batch AND the middle dimensions of every even-scalar feature). -/
theorem running_mean_ema (hinst : o.inst = false) (st : State ℝ) (ops : List (Op ℝ)) {j : Nat}
    (hj : j < o.irreps.numScalar) :
    (run o st ops).1.runningMean j
      = emaClosed o.momentum (st.runningMean j)
          ((trainedBatches o st.training ops).map fun t => meanStat o t.1 t.2.1 t.2.2 j) := by
  rw [run_runningMean_fold o hinst st ops hj, emaFold_eq_closed]

/-- what `varStat` is, feature `irv + u` of block `blk`: the batch mean of the sample-reduced
(`mean` or `max` over the middle dimensions) component norm (`sum` or `mean` of squares over the `2l+1`
components) of the field, centred by the batch mean on even scalars -/
theorem varStat_at (B S : Nat) (x : T3 ℝ) {blk : Block} (hb : blk ∈ blocks o) {u : Nat} (hu : u < blk.mul) :
    varStat o B S x (blk.irv + u)
      = (∑ b ∈ range B,
          (match o.reduce with
            | .mean => (∑ s ∈ range S, compNorm o.normalization blk.d (centredBatch o B S x blk) b s u) / S
            | .max => maxN1 (S - 1) fun s => compNorm o.normalization blk.d (centredBatch o B S x blk) b s u)) / B := by
  have := cat_at' (f := fun blk => batchStat o B S blk (centredBatch o B S x blk))
    (layout_irv o.affine o.includeBias o.irreps 0 0 0 0 0 0) hb hu
  simp only [varStat, blocks]
  rw [this]
  simp only [batchStat, sampleStat, reduceS, sumN_real, Scalar.ofNat_real]
  cases o.reduce <;> simp

/-- what `meanStat` is, feature `irm + u` of an even-scalar block: the mean over batch AND middle dimensions -/
theorem meanStat_at (B S : Nat) (x : T3 ℝ) {blk : Block} (hb : blk ∈ blocks o) (hs : blk.isScalar = true)
    {u : Nat} (hu : u < blk.mul) :
    meanStat o B S x (blk.irm + u) = (∑ b ∈ range B, ∑ s ∈ range S, x b s (blk.ix + u)) / ((B * S : ℕ) : ℝ) := by
  have hd := (scalar_d o.affine o.includeBias o.irreps 0 0 0 0 0 0 blk hb).2 hs
  have := cat_at' (f := fun blk => batchMean B S (field x blk))
    (layout_irm o.affine o.includeBias o.irreps 0 0 0 0 0 0)
    (List.mem_filter.2 ⟨hb, by simpa using hs⟩) hu
  simp only [meanStat, blocks]
  rw [this]
  simp [batchMean, field, sumN_real, hd]

/-! ## (2) what does not change the state -/

/-- a forward in eval mode leaves the whole state untouched -/
theorem eval_forward_keeps_state (st : State ℝ) (ht : st.training = false) (B S dim : Nat) (x : T3 ℝ) :
    (step o st (.forward B S dim x)).1 = st := by
  rw [step_forward_state]; split
  · exact forwardCore_frozen o st B S x (Or.inl ht)
  · rfl

/-- a forward of an instance-norm module leaves the whole state untouched, in training mode too -/
theorem instance_forward_keeps_state (hinst : o.inst = true) (st : State ℝ) (B S dim : Nat) (x : T3 ℝ) :
    (step o st (.forward B S dim x)).1 = st := by
  rw [step_forward_state]; split
  · exact forwardCore_frozen o st B S x (Or.inr hinst)
  · rfl

/-- a rejected forward (the call raises) leaves the state untouched -/
theorem rejected_forward (st : State ℝ) (B S dim : Nat) (x : T3 ℝ) (h : accepted o B dim = false) :
    step o st (.forward B S dim x) = (st, .error) := by
  simp [step, h]

/-- NEGATIVE (the code as written): a layout with a zero-multiplicity entry (e.g. `0x1e+2x0e`) or of
dimension 0 is constructible, but EVERY forward raises, whatever the input and the mode
(`field.reshape(batch, -1, mul, d)` / `input.reshape(batch, -1, dim)` with zero elements is ambiguous).
Reproduced on the implementation by harness/c13.py (`BatchNorm.forward/zero-multiplicity`, `…/empty-irreps`). -/
theorem zero_multiplicity_always_rejected (h : ∃ p ∈ o.irreps, p.1 = 0) (st : State ℝ) (B S dim : Nat) (x : T3 ℝ) :
    step o st (.forward B S dim x) = (st, .error) := by
  apply rejected_forward
  obtain ⟨p, hp, h0⟩ := h
  have : o.irreps.all (fun p => p.1 != 0) = false := by
    rw [Bool.eq_false_iff]
    intro hall
    have := List.all_eq_true.1 hall p hp
    simp [h0] at this
  simp [accepted, this]

theorem empty_irreps_always_rejected (h : o.irreps.dim = 0) (st : State ℝ) (B S dim : Nat) (x : T3 ℝ) :
    step o st (.forward B S dim x) = (st, .error) := by
  apply rejected_forward
  simp only [accepted, h]
  cases hd : (dim == 0)
  · simp
  · have : dim = 0 := by simpa using hd
    simp [this]

/-- instance-norm module: after ANY history only the training flag may differ from the initial state -/
theorem instance_history_keeps_state (hinst : o.inst = true) (st : State ℝ) (ops : List (Op ℝ)) :
    (run o st ops).1 = { st with training := finalTraining st.training ops } := by
  induction ops generalizing st with
  | nil => rfl
  | cons op ops ih =>
    cases op with
    | train => simpa only [run, step, finalTraining] using ih { st with training := true }
    | eval => simpa only [run, step, finalTraining] using ih { st with training := false }
    | forward B S dim x =>
      simp only [run, finalTraining]
      rw [instance_forward_keeps_state o hinst, ih]

/-- parameters are never written; the training flag follows the `train()`/`eval()` calls, after ANY history -/
theorem history_keeps_parameters (st : State ℝ) (ops : List (Op ℝ)) :
    (run o st ops).1.weight = st.weight ∧ (run o st ops).1.bias = st.bias ∧
      (run o st ops).1.training = finalTraining st.training ops := by
  induction ops generalizing st with
  | nil => exact ⟨rfl, rfl, rfl⟩
  | cons op ops ih =>
    cases op with
    | train => simpa only [run, step, finalTraining] using ih { st with training := true }
    | eval => simpa only [run, step, finalTraining] using ih { st with training := false }
    | forward B S dim x =>
      simp only [run, finalTraining]
      obtain ⟨h1, h2, h3⟩ := ih (step o st (.forward B S dim x)).1
      have hs : (step o st (.forward B S dim x)).1.weight = st.weight ∧
          (step o st (.forward B S dim x)).1.bias = st.bias ∧
          (step o st (.forward B S dim x)).1.training = st.training := by
        rw [step_forward_state]; split
        · obtain ⟨a, b, c⟩ := forwardCore_other o st B S x; exact ⟨b, c, a⟩
        · exact ⟨rfl, rfl, rfl⟩
      rw [h1, h2, h3, hs.1, hs.2.1, hs.2.2]
      exact ⟨rfl, rfl, rfl⟩

/-! ## (3) eval mode: the affine map of the stored statistics -/

/-- every feature position belongs to exactly one (block, copy, component) — so (3) below describes
the whole output -/
theorem features_covered {j : Nat} (hj : j < o.irreps.dim) :
    ∃ blk ∈ blocks o, ∃ u i, u < blk.mul ∧ i < blk.d ∧ j = blk.ix + u * blk.d + i := cover_ix o hj

/-- **eval-mode output**: the state is unchanged and component `i` of copy `u` of block `blk` is
`(x − running_mean) · (running_var + eps)^(-1/2) · weight + bias`
(mean and bias only on even scalars, weight only if affine, bias only if affine and include_bias) -/
theorem eval_output_affine (st : State ℝ) (ht : st.training = false) (hinst : o.inst = false)
    (B S dim : Nat) (x : T3 ℝ) (ha : accepted o B dim = true) (hS : S ≠ 0) :
    ∃ y, step o st (.forward B S dim x) = (st, .tensor B S dim y) ∧
      ∀ blk ∈ blocks o, ∀ u i, u < blk.mul → i < blk.d → ∀ b s,
        y b s (blk.ix + u * blk.d + i)
          = (x b s (blk.ix + u * blk.d + i) - (if blk.isScalar then st.runningMean (blk.irm + u) else 0))
              * (1 / Real.sqrt (st.runningVar (blk.irv + u) + o.eps)
                  * (if o.affine then st.weight (blk.iw + u) else 1))
            + (if o.affine && o.includeBias && blk.isScalar then st.bias (blk.ib + u) else 0) := by
  refine ⟨(forwardCore o st B S x).2, ?_, ?_⟩
  · have hS' : (S == 0) = false := by simpa using hS
    simp only [step, ha, hS', Bool.not_true, Bool.false_eq_true, if_false]
    rw [forwardCore_frozen o st B S x (Or.inl ht)]
  · intro blk hb u i hu hi b s
    exact field_out_eval st B S x hb hu hi ht hinst b s

/-! ## (4) training mode: zero mean, normalised statistic -/

theorem accepted_pos {B dim : Nat} (ha : accepted o B dim = true) : 0 < B := by
  simp only [accepted, Bool.and_eq_true, bne_iff_ne, ne_eq] at ha
  omega

/-- **training-mode output** (non-instance): the module's own batch statistics of its output `y` are
* mean over batch and middle dimensions of every even-scalar feature `= bias` (`0` without bias),
* reduced squared-norm statistic of every feature `= w² · v / (v + eps)`, `v` the statistic of the input —
for `reduce = mean` AND `max`, `normalization = norm` AND `component`; and the state moves by `_roll_avg`. -/
theorem train_output_stats (st : State ℝ) (ht : st.training = true) (hinst : o.inst = false)
    (B S dim : Nat) (x : T3 ℝ) (ha : accepted o B dim = true) (hS : S ≠ 0) (heps : 0 ≤ o.eps) :
    ∃ st' y, step o st (.forward B S dim x) = (st', .tensor B S dim y) ∧
      (∀ j, j < o.irreps.numScalar →
        meanStat o B S y j = if o.affine && o.includeBias then st.bias j else 0) ∧
      (∀ j, j < o.irreps.numIrreps →
        varStat o B S y j = (if o.affine then st.weight j else 1) ^ 2 * varStat o B S x j
          / (varStat o B S x j + o.eps)) ∧
      (∀ j, j < o.irreps.numIrreps →
        st'.runningVar j = (1 - o.momentum) * st.runningVar j + o.momentum * varStat o B S x j) ∧
      (∀ j, j < o.irreps.numScalar →
        st'.runningMean j = (1 - o.momentum) * st.runningMean j + o.momentum * meanStat o B S x j) := by
  have hB := accepted_pos o ha
  have hS0 : 0 < S := Nat.pos_of_ne_zero hS
  refine ⟨(forwardCore o st B S x).1, (forwardCore o st B S x).2, ?_, ?_, ?_, ?_, ?_⟩
  · have hS' : (S == 0) = false := by simpa using hS
    simp only [step, ha, hS', Bool.not_true, Bool.false_eq_true, if_false]
  · intro j hj; exact meanStat_out_train st B S x ht hinst hB hS0 hj
  · intro j hj; exact varStat_out_train st B S x ht hinst hB hS0 heps hj
  · intro j hj; rw [forwardCore_runningVar o st B S x ht hinst hj]; simp [rollAvg]
  · intro j hj; rw [forwardCore_runningMean o st B S x ht hinst hj]; simp [rollAvg]

/-- **instance mode** (training flag irrelevant): nothing is stored, and for EVERY sample `b` separately
the per-sample mean of every even-scalar feature of the output is its bias and the per-sample statistic of
every feature is `w² · v_b / (v_b + eps)`, `v_b` the per-sample statistic of the input. -/
theorem instance_output_stats (st : State ℝ) (hinst : o.inst = true)
    (B S dim : Nat) (x : T3 ℝ) (ha : accepted o B dim = true) (hS : S ≠ 0) (heps : 0 ≤ o.eps) :
    ∃ y, step o st (.forward B S dim x) = (st, .tensor B S dim y) ∧
      (∀ b j, j < o.irreps.numScalar →
        instMeanStat o S y b j = if o.affine && o.includeBias then st.bias j else 0) ∧
      (∀ b j, j < o.irreps.numIrreps →
        instVarStat o S y b j = (if o.affine then st.weight j else 1) ^ 2 * instVarStat o S x b j
          / (instVarStat o S x b j + o.eps)) := by
  have hS0 : 0 < S := Nat.pos_of_ne_zero hS
  refine ⟨(forwardCore o st B S x).2, ?_, ?_, ?_⟩
  · have hS' : (S == 0) = false := by simpa using hS
    simp only [step, ha, hS', Bool.not_true, Bool.false_eq_true, if_false]
    rw [forwardCore_frozen o st B S x (Or.inr hinst)]
  · intro b j hj; exact instMeanStat_out st B S x hinst hS0 b hj
  · intro b j hj; exact instVarStat_out st B S x hinst hS0 heps b hj

/-- with unit weight (or `affine = False`) and `eps = 0` the output statistic is exactly `1`
wherever the input statistic does not vanish -/
theorem train_output_unit_stat (st : State ℝ) (ht : st.training = true) (hinst : o.inst = false)
    (B S : Nat) (x : T3 ℝ) (hB : 0 < B) (hS : 0 < S) (heps : o.eps = 0) {j : Nat} (hj : j < o.irreps.numIrreps)
    (hw : o.affine = true → st.weight j = 1) (hv : varStat o B S x j ≠ 0) :
    varStat o B S (forwardCore o st B S x).2 j = 1 := by
  rw [varStat_out_train st B S x ht hinst hB hS (by rw [heps]) hj, heps, add_zero]
  cases ha : o.affine
  · simp [hv]
  · simp [hw ha, hv]

/-! ## (5) equivariance in every mode, over whole histories -/

/-- **equivariance**: let `D` be block-diagonal, orthogonal on the `2l+1` components of every irrep block and `1`
on the even scalars.  Feeding `D x` instead of `x` to every forward of ANY history produces `D y` instead of
`y` at every call and exactly the same final state (running statistics included) — in training, eval and
instance mode, for every option combination. -/
theorem history_equivariant {D : Nat → Nat → Nat → ℝ} (hD : OrthBlocks o D) (st : State ℝ) (ops : List (Op ℝ)) :
    run o st (ops.map (actOp o D)) = ((run o st ops).1, (run o st ops).2.map (actOut o D)) :=
  run_equiv hD st ops

/-- single call: `forward (D x) = D (forward x)`, same new state -/
theorem forward_equivariant {D : Nat → Nat → Nat → ℝ} (hD : OrthBlocks o D) (st : State ℝ) (B S dim : Nat) (x : T3 ℝ) :
    step o st (.forward B S dim (act o D x))
      = ((step o st (.forward B S dim x)).1, actOut o D (step o st (.forward B S dim x)).2) :=
  step_equiv hD st (.forward B S dim x)

/-! ## (6) Dropout -/

/-- eval mode is the identity -/
theorem dropout_eval (irreps : Irreps) (p : ℝ) (mask : Nat → Nat → Nat → Bool) (x : T3 ℝ) :
    dropout irreps p false mask x = x := rfl

/-- training mode: every component `i` of copy `u` of block `blk`, at every middle position `s`, is multiplied
by ONE factor that depends only on (sample, block, copy) -/
theorem dropout_train (irreps : Irreps) (p : ℝ) (mask : Nat → Nat → Nat → Bool) (x : T3 ℝ) {blk : Block}
    (hb : blk ∈ dblocks irreps) {u i : Nat} (hu : u < blk.mul) (hi : i < blk.d) (b s : Nat) :
    dropout irreps p true mask x b s (blk.ix + u * blk.d + i)
      = x b s (blk.ix + u * blk.d + i) * dropFactor p (mask b blk.k u) := by
  simp only [dropout, Bool.not_true, Bool.false_eq_true, if_false]
  rw [dropNoise_at irreps p mask hb b hu hi]

/-- the factor is `0` or `1/(1-p)` for `0 < p < 1`, always `0` for `p ≥ 1`, always `1` for `p ≤ 0` -/
theorem dropout_factor (p : ℝ) (keep : Bool) :
    (1 ≤ p → dropFactor p keep = 0) ∧ (p ≤ 0 → dropFactor p keep = 1) ∧
      (0 < p → p < 1 → dropFactor p keep = if keep then 1 / (1 - p) else 0) :=
  ⟨fun h => dropFactor_ge_one h keep, fun h => dropFactor_le_zero h keep, fun h0 h1 => dropFactor_mid h0 h1 keep⟩

/-- Dropout commutes with EVERY block-wise linear map (in particular with all of O(3)), for every mask,
every `p`, in both modes -/
theorem dropout_equivariant (irreps : Irreps) (p : ℝ) (training : Bool) (mask : Nat → Nat → Nat → Bool)
    (D : Nat → Nat → Nat → ℝ) (x : T3 ℝ) :
    dropout irreps p training mask (actB (dblocks irreps) D x)
      = actB (dblocks irreps) D (dropout irreps p training mask x) :=
  dropout_actB irreps p training mask D x

/-! ## the hypotheses are satisfiable (non-vacuity) -/

section examples

/-- `2x0e + 1x1o`, default-like options -/
noncomputable def o₁ : Opts ℝ :=
  { irreps := [(2, ⟨0, 1⟩), (1, ⟨1, -1⟩)], eps := 1 / 100000, momentum := 1 / 10, affine := true,
    reduce := .max, inst := false, includeBias := true, normalization := .component }

/-- the cyclic permutation of the three components of the `1o` block, identity on the scalars -/
noncomputable def D₁ : Nat → Nat → Nat → ℝ := fun k i a =>
  if k = 0 then (if i = a then 1 else 0) else (if (i + 1) % 3 = a then 1 else 0)

example : blocks o₁ =
    [⟨0, 2, 1, true, 0, 0, 0, 0, 0⟩, ⟨1, 1, 3, false, 2, 2, 2, 2, 2⟩] := by
  simp [blocks, blocksFrom, o₁, Irrep.dim, Irrep.isScalar]

example : OrthBlocks o₁ D₁ := by
  intro blk hb
  have : blk = ⟨0, 2, 1, true, 0, 0, 0, 0, 0⟩ ∨ blk = ⟨1, 1, 3, false, 2, 2, 2, 2, 2⟩ := by
    simpa [blocks, blocksFrom, o₁, Irrep.dim, Irrep.isScalar] using hb
  rcases this with rfl | rfl
  · refine ⟨?_, fun _ => by simp [D₁]⟩
    intro a b ha hb
    have ha' : a = 0 := by simp only at ha; omega
    have hb' : b = 0 := by simp only at hb; omega
    subst ha' hb'
    simp [D₁]
  · refine ⟨?_, fun h => by simp at h⟩
    intro a b ha hb
    simp only at ha hb
    interval_cases a <;> interval_cases b <;> simp [D₁, Finset.sum_range_succ]

example : accepted o₁ 4 5 = true := by
  simp [accepted, o₁, Irreps.dim, Irrep.dim]

example : (0 : ℝ) ≤ o₁.eps ∧ o₁.inst = false ∧ 1 < o₁.irreps.numIrreps ∧ 1 < o₁.irreps.numScalar := by
  refine ⟨by simp [o₁], rfl, by simp [o₁, Irreps.numIrreps], by simp [o₁, Irreps.numScalar, Irrep.isScalar]⟩

/-- a history with two training forwards, an eval forward and a rejected forward in between:
exactly the two training batches enter the moving average -/
example (x₁ x₂ x₃ x₄ : T3 ℝ) :
    (trainedBatches o₁ true [.forward 4 1 5 x₁, .eval, .forward 2 3 5 x₂, .train, .forward 4 1 6 x₃,
        .forward 1 2 5 x₄]).map (fun t => (t.1, t.2.1))
      = [(4, 1), (1, 2)] := by
  simp [trainedBatches, accepted, o₁, Irreps.dim, Irrep.dim]

example : ∃ blk ∈ dblocks [(2, ⟨0, 1⟩), (1, ⟨1, -1⟩)], blk.mul = 1 ∧ blk.d = 3 :=
  ⟨⟨1, 1, 3, false, 2, 2, 2, 0, 0⟩, by simp [dblocks, blocksFrom, Irrep.dim, Irrep.isScalar], rfl, rfl⟩

example : (0 : ℝ) < 1 / 2 ∧ (1 / 2 : ℝ) < 1 ∧ dropFactor (1 / 2 : ℝ) true = 2 := by
  refine ⟨by norm_num, by norm_num, ?_⟩
  rw [dropFactor_mid (by norm_num) (by norm_num)]; norm_num

end examples

end E3nnVerif.Props.C13
