import E3nnVerif.Model.BatchNorm
namespace E3nnVerif.Props.C13
end E3nnVerif.Props.C13
