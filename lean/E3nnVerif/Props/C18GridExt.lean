import E3nnVerif.Props.C18Grid
import E3nnVerif.Props.C11AngExt
/-
Thorough tier: `signal_on_grid` = `signal_xyz` on the reported grid for every band limit the library supports (≤ 11; the guard of
`o3.spherical_harmonics` rejects larger degrees), using the angular certificates of degrees 9, 10, 11 as well.
-/
namespace E3nnVerif.Props.C18
open E3nnVerif E3nnVerif.Rotation E3nnVerif.SphericalTensor

theorem signal_on_grid_values_certified_le11 {L : ℕ} (irs : List MulIr) (hg : shGuard irs = .ok ()) (hl : lmaxOf irs = .ok L)
    (hL : L ≤ 11) (c : Fin ((L + 1) ^ 2) → ℝ) (res : ℕ) (hres : res % 2 = 0 ∧ L + 1 ≤ res / 2) :
    ∃ grid values, signalOnGrid (toGridC11 L) irs (List.ofFn c) res = .ok (grid, values) ∧
      grid = s2GridPoints res (max (2 * L + 1) (res - 1)) ∧
      List.Forall₂ (List.Forall₂ fun x v => signalXyz (ofY (YInt ((L + 1) ^ 2))) irs (List.ofFn c) x = .ok v) grid values :=
  signal_on_grid_values (YInt ((L + 1) ^ 2)) irs hg hl rfl (toGridC11 L) c res hres
    (toGridC11_evaluates_of_check L (fun l h => C11.ang_le11 l (by omega)) c)

end E3nnVerif.Props.C18
