import E3nnVerif.Sound.Tensor
import E3nnVerif.Model.TPSpec
/-
C02 — the generated tensor-product kernel computes exactly the specified contraction.

For a configuration `cfg` and the FX program `prog` the code generator emitted for it (translated by T1 into the IR
of `IR/Tensor.lean`), the kernel decides `polysEq (interpPoly prog) (interpPoly (specProg cfg)) = true`
(one certificate per program in `Cert/TP/C02/`).  The theorem below turns each such certificate into:
for EVERY real assignment of inputs and weights, program and specification return the same output vector.
-/
namespace E3nnVerif.Props.C02
open E3nnVerif.IR E3nnVerif.Model.TP

/-- **program = specification on all real inputs**, from the kernel certificate -/
theorem program_computes_spec (cfg : Cfg) (prog : List Node)
    (cert : polysEq (interpPoly prog) (interpPoly (specProg cfg)) = true) (env : ℕ → ℝ) :
    interp (K := ℝ) env prog = interp (K := ℝ) env (specProg cfg) :=
  interp_eq_of_polysEq env prog (specProg cfg) cert

/-- the output of a program depends on the inputs only through its coefficient polynomials: two programs with the same
    certificate target agree (e.g. the same configuration generated under different code-generation options) -/
theorem programs_agree (cfg : Cfg) (p q : List Node)
    (hp : polysEq (interpPoly p) (interpPoly (specProg cfg)) = true)
    (hq : polysEq (interpPoly q) (interpPoly (specProg cfg)) = true) (env : ℕ → ℝ) :
    interp (K := ℝ) env p = interp (K := ℝ) env q := by
  rw [program_computes_spec cfg p hp, program_computes_spec cfg q hq]

end E3nnVerif.Props.C02
