import E3nnVerif.Props.C11Ang
import E3nnVerif.Cert.Ang.L9
import E3nnVerif.Cert.Ang.L10
import E3nnVerif.Cert.Ang.L11
/-
Thorough tier: the angular form equals the Cartesian form, `ToS2Grid` evaluates the signal — degrees 9, 10, 11 (the kernel
certificates of these degrees take 1–5 minutes each).
-/
namespace E3nnVerif.Props.C11
open E3nnVerif E3nnVerif.S2Grid E3nnVerif.Legendre E3nnVerif.Generated E3nnVerif.Ang Finset
open E3nnVerif.Model.SH E3nnVerif.IR E3nnVerif.Generated.SH

theorem ang_le11 (l : ℕ) (hl : l ≤ 11) : angCheck (select (evalProg prog) index) legTable l = true := by
  by_cases h8 : l ≤ 8
  · exact ang_le8 l h8
  · have : l = 9 ∨ l = 10 ∨ l = 11 := by omega
    rcases this with rfl | rfl | rfl
    · exact Cert.Ang.ang_9
    · exact Cert.Ang.ang_10
    · exact Cert.Ang.ang_11

/-- the angular form equals the Cartesian form for every supported degree -/
theorem sh_angular_form_le11 (l k : ℕ) (hl : l ≤ 11) (hk : k ≤ 2 * l) (α β : ℝ) :
    realSH prog index l k (anglesToXyz α β)
      = Real.sqrt (4 * Real.pi)
        * ((shaEntry l α k : ℝ) * rowEval (Real.cos β) (Real.sin β) (legTable.getD (l ^ 2 + k) [])) :=
  sh_angular_form_of_check l k (ang_le11 l hl) hk α β
example : (11 : ℕ) ≤ 11 ∧ 22 ≤ 2 * 11 := by omega

/-- `ToS2Grid` evaluates the band-limited signal at the documented grid points, every `lmax ≤ 11` -/
theorem toS2Grid_evaluates_signal_le11 (lmax N M : ℕ) (n : ℕ → ℝ) (F : ℕ → ℝ) (hl : lmax ≤ 11) :
    ∃ g, toS2Grid lmax M n (fun j i => (legendreGrid legTable N j i : ℝ)) F = .ok g ∧
      ∀ j a, j < N → g j a =
        ∑ l ∈ range (lmax + 1), ∑ k ∈ range (2 * l + 1),
          n l * F (l ^ 2 + k) * (realSH prog index l k (gridVec N M j a) / Real.sqrt (4 * Real.pi)) :=
  toS2Grid_evaluates_signal_of_check lmax N M n F fun l h => ang_le11 l (by omega)

end E3nnVerif.Props.C11
