import E3nnVerif.Theory.S2GridComplete
import E3nnVerif.Theory.S2GridForward
import E3nnVerif.Theory.S2GridDFT
import E3nnVerif.Theory.S2GridKR
/-
C11 — sphere / SO(3) grid transforms (`e3nn/o3/_s2grid.py`, `_so3grid.py`, `spherical_harmonics_alpha`).

Everything is about the ℝ instance of the scalar-generic model `E3nnVerif/Model/S2Grid.lean` (the Float
instance of the very same definitions is what `drivers/C11.lean` runs next to the real modules), for ALL
sizes `lmax`, `res_beta = N`, `res_alpha = M`, all coefficient vectors, all python ints / `None`.

Trusted / data, not proved here
  * `torch.fft.rfft/irfft` ≡ the DFT (section 3a proves that the model's `rfftRe/rfftIm/irfftOddDef` ARE the
    complex DFT / inverse DFT of the Hermitian extension; that torch implements them is trusted and
    spot-checked by the harness),
  * in THIS file the Legendre factor `P b i` (`o3.Legendre`, sympy-generated) and the Wigner matrices `D` are DATA (parameters);
    `Props/C11Leg.lean` / `Props/C11Ang.lean` instantiate `P` with the table regenerated from `o3.Legendre`'s FX graph and discharge
    `KRExact` for band limits ≤ 11,
  * `KRExact` (exactness of the beta quadrature on products of Legendre factors up to the band limit) is a
    HYPOTHESIS of the round-trip theorems (`…_partial`), checked numerically per configuration by the harness.
    Section 5b proves its quadrature half for ALL resolutions (`quadrature_exact`), reduces the rest to a
    statement about the Legendre data alone (`krExact_of_legendre_data`), and proves `KRExact` itself — hence
    the round trip without any hypothesis — for band limits `lmax ≤ 1` (`fromS2Grid_toS2Grid_lmax_le_1`).
-/
namespace E3nnVerif.Props.C11
open E3nnVerif E3nnVerif.S2Grid Finset

/-! ## 1. `_complete_lmax_res`: every returned triple is admissible (all ints, all `None` combinations) -/

/-- For EVERY input: a returned `(lmax, res_beta, res_alpha)` has even `res_beta`, `lmax + 1 ≤ res_beta // 2`
(the two asserts), given arguments are returned unchanged, and whenever `lmax` or `res_alpha` was left to the
function also `2 lmax + 1 ≤ res_alpha` ("minimum req. to go on sphere and back"). -/
theorem complete_admissible (lmax res_beta res_alpha : Option Int) (l rb ra : Int)
    (h : completeLmaxRes lmax res_beta res_alpha = .ok (l, rb, ra)) :
    rb % 2 = 0 ∧ l + 1 ≤ rb / 2 ∧ (lmax = none ∨ res_alpha = none → 2 * l + 1 ≤ ra) ∧
    (∀ x, lmax = some x → l = x) ∧ (∀ x, res_beta = some x → rb = x) ∧ (∀ x, res_alpha = some x → ra = x) :=
  completeLmaxRes_ok lmax res_beta res_alpha l rb ra h
example : completeLmaxRes none (some 8) none = .ok (3, 8, 7) := by decide
example : completeLmaxRes none none (some 6) = .ok (2, 6, 6) := by decide

/-- the only exceptions are `ValueError` (exactly when all three are `None`) and `AssertionError` (exactly when
a given `res_beta` is odd or too small for a given `lmax`); the `None - 1` / `None % 2` paths are dead -/
theorem complete_errors (lmax res_beta res_alpha : Option Int) :
    completeLmaxRes lmax res_beta res_alpha ≠ .error .typeError ∧
    completeLmaxRes lmax res_beta res_alpha ≠ .error .runtimeError ∧
    (completeLmaxRes lmax res_beta res_alpha = .error .valueError ↔
      lmax = none ∧ res_beta = none ∧ res_alpha = none) ∧
    (completeLmaxRes lmax res_beta res_alpha = .error .assertionError ↔
      ∃ rb, res_beta = some rb ∧ (rb % 2 ≠ 0 ∨ ∃ l, lmax = some l ∧ rb / 2 < l + 1)) :=
  ⟨(completeLmaxRes_no_typeError _ _ _).1, (completeLmaxRes_no_typeError _ _ _).2,
    completeLmaxRes_valueError_iff _ _ _, completeLmaxRes_assertionError_iff _ _ _⟩

/-- only `lmax` given: the minimal resolutions `(2(lmax+1), 2 lmax+1)` — always the FFT path -/
theorem complete_minimal (l : Int) : completeLmaxRes (some l) none none = .ok (l, 2 * (l + 1), 2 * l + 1) := by
  rw [completeLmaxRes_cases]
  simp only []
  rw [if_neg (by omega)]
  congr 3; omega

/-- `res` given as one int (what `S2Activation(…, res)` does for BOTH of its transforms): `res_alpha = res − 1`
whatever `lmax` is, so the two transforms of an activation share one grid -/
theorem complete_int_res (lmax : Option Int) (res l rb ra : Int)
    (h : completeLmaxRes lmax (some res) none = .ok (l, rb, ra)) : rb = res ∧ ra = res - 1 := by
  rw [completeLmaxRes_cases] at h
  cases lmax <;> simp only [] at h <;> (try split at h) <;> (try split at h) <;> (try cases h) <;>
    (simp_all; try omega)

/-- NEGATIVE: when `lmax` AND `res_alpha` are both given, nothing checks `res_alpha ≥ 2 lmax + 1`: the
inadmissible `(2, 6, 3)` is accepted (the harness shows `FromS2Grid ∘ ToS2Grid ≠ id` there) -/
theorem complete_unchecked_alpha :
    completeLmaxRes (some 2) (some 6) (some 3) = .ok (2, 6, 3) ∧ ¬ (2 * 2 + 1 ≤ (3 : Int)) := by decide

/-- the constructors: a configuration that comes out of `ToS2Grid(lmax, res)` / `FromS2Grid(res, lmax)` has
even `N ≥ 2(lmax+1)`; unless the user fixed both `lmax` and `res_alpha`, also `M ≥ 2 lmax + 1` -/
theorem initConfig_admissible (lmax : Option Int) (res : ResArg) (l N M : ℕ)
    (h : initConfig lmax res = .ok (l, N, M)) :
    N % 2 = 0 ∧ 2 * (l + 1) ≤ N ∧
    ((lmax = none ∨ res = .none ∨ (∃ n, res = .int n) ∨ (∃ rb, res = .pair rb none)) → 2 * l + 1 ≤ M) := by
  unfold initConfig at h
  split at h
  · cases h
  · rename_i l' rb ra hres
    split at h
    · cases h
    · rename_i hneg
      simp only [Except.ok.injEq, Prod.mk.injEq] at h
      obtain ⟨h1, h2, h3⟩ := h
      have key : ∀ a b c, completeLmaxRes a b c = .ok (l', rb, ra) →
          rb % 2 = 0 ∧ l' + 1 ≤ rb / 2 ∧ (a = none ∨ c = none → 2 * l' + 1 ≤ ra) :=
        fun a b c hh => let t := completeLmaxRes_ok a b c l' rb ra hh; ⟨t.1, t.2.1, t.2.2.1⟩
      cases res with
      | none =>
        have hres' : completeLmaxRes lmax none none = .ok (l', rb, ra) := hres
        obtain ⟨k1, k2, k3⟩ := key _ _ _ hres'
        have := k3 (Or.inr rfl)
        refine ⟨by omega, by omega, fun _ => by omega⟩
      | int n =>
        have hres' : completeLmaxRes lmax (some n) none = .ok (l', rb, ra) := hres
        obtain ⟨k1, k2, k3⟩ := key _ _ _ hres'
        have := k3 (Or.inr rfl)
        refine ⟨by omega, by omega, fun _ => by omega⟩
      | pair b c =>
        have hres' : completeLmaxRes lmax b c = .ok (l', rb, ra) := hres
        obtain ⟨k1, k2, k3⟩ := key _ _ _ hres'
        refine ⟨by omega, by omega, fun hh => ?_⟩
        have : lmax = none ∨ c = none := by
          rcases hh with hh | hh | ⟨n, hh⟩ | ⟨rb', hh⟩
          · exact Or.inl hh
          · cases hh
          · cases hh
          · right; cases hh; rfl
        have := k3 this
        omega
example : initConfig (some 3) (.int 8) = .ok (3, 8, 7) := by decide

/-! ## 2. discrete orthogonality of the alpha basis on `α_j = 2πj/M`, `M ≥ 2 lmax + 1` -/

/-- the model's grid is the documented one -/
theorem grid_documented (N M i j : ℕ) :
    (betas N i : ℝ) = Real.pi * (i + 1 / 2) / N ∧ (alphas M j : ℝ) = 2 * Real.pi * j / M ∧
    (gridPoint N M i j : ℝ × ℝ × ℝ) =
      (Real.sin (betas N i) * Real.sin (alphas M j), Real.cos (betas N i), Real.sin (betas N i) * Real.cos (alphas M j)) :=
  ⟨betas_real N i, alphas_real M j, rfl⟩

theorem alpha_orthogonality (lmax M m m' : ℕ) (hM : 2 * lmax + 1 ≤ M) (hm : m ≤ lmax) (hm' : m' ≤ lmax) :
    (∑ j ∈ range M, Real.cos (m * alphas M j) * Real.cos (m' * alphas M j)
        = if m = m' then (if m = 0 then (M : ℝ) else M / 2) else 0) ∧
    (∑ j ∈ range M, Real.sin (m * alphas M j) * Real.sin (m' * alphas M j)
        = if m = m' ∧ m ≠ 0 then (M : ℝ) / 2 else 0) ∧
    (∑ j ∈ range M, Real.sin (m * alphas M j) * Real.cos (m' * alphas M j) = 0) :=
  ⟨sum_cos_cos M m m' (by omega), sum_sin_sin M m m' (by omega), sum_sin_cos M m m' (by omega)⟩
example : 2 * 3 + 1 ≤ 7 ∧ 3 ≤ 3 := by omega

/-- in terms of the buffer `sha = spherical_harmonics_alpha(lmax, alphas)`: `shaᵀ sha = M · 1`
(also between two different band limits, as in `S2Activation` with `lmax_out ≠ lmax`) -/
theorem sha_gram (M l l' k k' : ℕ) (hM : l + l' + 1 ≤ M) (hk : k < 2 * l + 1) (hk' : k' < 2 * l' + 1) :
    ∑ a ∈ range M, sha l M a k * sha l' M a k' = if (k : ℤ) - l = (k' : ℤ) - l' then (M : ℝ) else 0 :=
  sum_sha_mul M l l' k k' (by omega) (by omega) (by omega)

/-- the bound is sharp: with `M = 2 lmax` the frequencies `lmax` alias (cos(lmax·α_j)² sums to `M`, not `M/2`) -/
theorem alpha_orthogonality_sharp :
    ∑ j ∈ range 2, Real.cos ((1 : ℕ) * alphas 2 j) * Real.cos ((1 : ℕ) * alphas 2 j) = 2 := by
  simp [Finset.sum_range_succ, alphas_real]
  norm_num

/-! ## 3a. the model's stand-ins for `torch.fft` are the DFT definition -/

/-- `rfftRe + i·rfftIm = Σ_a x[a] e^{-2πi k a / n}` -/
theorem rfft_model_is_dft (x : ℕ → ℝ) (n k : ℕ) :
    ((rfftRe x n k : ℝ) : ℂ) + ((rfftIm x n k : ℝ) : ℂ) * Complex.I
      = ∑ a ∈ range n, (x a : ℂ) * (starRingEnd ℂ) (Complex.exp (2 * Real.pi * Complex.I * k * a / n)) := by
  rw [rfft_is_dft]; simp only [dftE_formula]

/-- `irfftOddDef = (1/n) Σ_{k<n} X̃[k] e^{2πi k a / n}` with `X̃` the Hermitian extension (`n = 2L+1` odd) -/
theorem irfft_model_is_idft (re im : ℕ → ℝ) (L a : ℕ) :
    ((irfftOddDef re im (2 * L + 1) a : ℝ) : ℂ)
      = (1 / ((2 * L + 1 : ℕ) : ℂ)) * ∑ k ∈ range (2 * L + 1),
          hermExt re im (2 * L + 1) k * Complex.exp (2 * Real.pi * Complex.I * k * a / (2 * L + 1 : ℕ)) := by
  rw [irfft_is_idft]; simp only [dftE_formula]

/-! ## 3. FFT path = dense path -/

/-- `rfft(x, l)` (with `torch.fft.rfft` := DFT definition) is `x @ sha`; it is accepted iff `l ≤ res // 2` -/
theorem rfft_eq_dense (x : ℕ → ℝ) (l res : ℕ) (h : l ≤ res / 2) :
    ∃ y, rfft x l res = .ok y ∧ ∀ k, y k = ∑ a ∈ range res, sha l res a k * x a := by
  refine ⟨rfftCore x l res, ?_, fun k => rfftCore_eq_dense x l res k⟩
  simp only [rfft, rfftCheck]
  rw [if_neg (by omega)]

/-- `irfft(x, res)` (with `torch.fft.irfft` := DFT definition) is `sha @ x` for odd `res ≥ 2l+1` -/
theorem irfft_eq_dense (x : ℕ → ℝ) (l res : ℕ) (hodd : res % 2 = 1) (hle : 2 * l + 1 ≤ res) :
    ∃ y, irfft x (2 * l + 1) res = .ok y ∧ ∀ a, y a = ∑ k ∈ range (2 * l + 1), sha l res a k * x k := by
  refine ⟨irfftCore x (2 * l + 1) res, ?_, fun a => irfftCore_eq_dense x l res a hodd hle⟩
  simp only [irfft, irfftCheck_ok l res hle hodd]
example : (7 : ℕ) % 2 = 1 ∧ 2 * 3 + 1 ≤ 7 := by omega

/-- which inputs `irfft` rejects -/
theorem irfft_rejects (x : ℕ → ℝ) (sm res : ℕ) :
    (res % 2 = 0 → irfft x sm res = .error .assertionError) ∧
    (res % 2 = 1 → res < sm → irfft x sm res = .error .runtimeError) ∧
    (res % 2 = 1 → sm ≤ res → sm % 2 = 0 → irfft x sm res = .error .assertionError) := by
  refine ⟨fun h => ?_, fun h1 h2 => ?_, fun h1 h2 h3 => ?_⟩
  · simp only [irfft, irfftCheck]; rw [if_pos (by omega)]
  · simp only [irfft, irfftCheck]; rw [if_neg (by omega), if_pos h2]
  · simp only [irfft, irfftCheck]; rw [if_neg (by omega), if_neg (by omega), if_pos (by omega)]

/-- `ToS2Grid.forward`: for every configuration and whichever branch the code takes (`irfft` iff
`res_alpha` is odd and `≥ 2 lmax + 1`), no assert fires and the result is the einsum with `sha` -/
theorem toS2Grid_fft_eq_dense (lmax M : ℕ) (n : ℕ → ℝ) (P : ℕ → ℕ → ℝ) (x : ℕ → ℝ) :
    toS2Grid lmax M n P x = .ok (toForwardDenseWith lmax M (shbTo lmax n P) x) ∧
    (useFFT lmax M = true ↔ (2 * lmax + 1 ≤ M ∧ M % 2 = 1)) :=
  ⟨toForwardWith_eq_dense lmax M _ x, useFFT_iff lmax M⟩

/-- `FromS2Grid.forward`: likewise (`rfft` iff `res_alpha` is odd and `≥ 2 lmax + 1`) -/
theorem fromS2Grid_fft_eq_dense (lmax N M : ℕ) (n : ℕ → ℝ) (P : ℕ → ℕ → ℝ) (g : ℕ → ℕ → ℝ) :
    fromS2Grid lmax N M n P g = .ok (fromForwardDenseWith lmax N M (shbFrom lmax N M n P) g) :=
  fromForwardWith_eq_dense lmax N M _ g

/-! ## 4. normalisation constants are inverse pairs, `ToS2Grid` is direct evaluation -/

/-- as the code combines them (`FromS2Grid` carries the quadrature weights, which integrate to `1/4π · ∫`),
the constants of `ToS2Grid(lmax, …)` and `FromS2Grid(…, lmax_in = lmax)` multiply to `4π` for every degree -/
theorem norm_constants_inverse (kind : Norm) (lmax l : ℕ) :
    (nTo kind lmax l : ℝ) * nFrom kind lmax l = 4 * Real.pi := nTo_mul_nFrom kind lmax l

/-- the documented values -/
theorem norm_constants_values (lmax l : ℕ) :
    (nTo .component lmax l : ℝ) = Real.sqrt (4 * Real.pi) / Real.sqrt (2 * l + 1) / Real.sqrt (lmax + 1) ∧
    (nTo .norm lmax l : ℝ) = Real.sqrt (4 * Real.pi) / Real.sqrt (lmax + 1) ∧
    (nTo .integral lmax l : ℝ) = 1 := by
  refine ⟨?_, ?_, ?_⟩ <;>
    simp only [nTo, one_real, Scalar.sqrt_real, Scalar.ofNat_real, Scalar.pi_real, Nat.cast_ofNat] <;>
    push_cast <;> ring

/-- `_expand_matrix(range(lmax+1))[l, m, i] = 1` iff `i = l² + k` sits in block `l` and `m = lmax − l + k` -/
theorem expand_matrix_std (lmax l m l' k : ℕ) (hl : l ≤ lmax) (hk : k ≤ 2 * l') :
    listMax (List.range (lmax + 1)) = some lmax ∧
    (expandStd lmax l m (l' ^ 2 + k) : ℝ) = if l = l' ∧ m = lmax - l + k then 1 else 0 :=
  ⟨listMax_range lmax, expandStd_flat lmax l m l' k hl hk⟩

/-- `ToS2Grid(lmax, (N, M), n)(F)[b, a] = Σ_l n_l Σ_k F_{l,k} · Y_{l,k}(β_b, α_a)` with
`Y_{l,k}(β, α) = S^l_k(α) · P_{l,k}(β)` (the angular form of `spherical_harmonics_alpha_beta`), at the
documented grid angles -/
theorem toS2Grid_direct_evaluation (lmax M : ℕ) (n : ℕ → ℝ) (P : ℕ → ℕ → ℝ) (F : ℕ → ℝ) :
    ∃ g, toS2Grid lmax M n P F = .ok g ∧ ∀ b a, g b a =
      ∑ l ∈ range (lmax + 1), ∑ k ∈ range (2 * l + 1),
        n l * F (l ^ 2 + k) * (shaEntry l (alphas M a) k * P b (l ^ 2 + k)) :=
  ⟨_, toForwardWith_eq_dense lmax M _ F, fun b a => toForwardDense_direct lmax M n P F b a⟩

/-! ## 5. `FromS2Grid ∘ ToS2Grid = id`, reduced to ONE hypothesis on the beta quadrature

Full statement (NOT proved in general — `KRExact` is the Kostelec–Rockmore exactness, a discrete sine
transform identity plus the orthogonality of associated Legendre functions):

    ∀ lmax N M, N % 2 = 0 → 2 (lmax + 1) ≤ N → 2 lmax + 1 ≤ M →
      FromS2Grid((N, M), lmax, norm) (ToS2Grid(lmax, (N, M), norm) F) = F
    with `P` the real Legendre factor.

Proved: the same with `N % 2 = 0 → 2 (lmax + 1) ≤ N` replaced by `KRExact P N lmax`. -/

/-- general form (`S2Activation`: `ToS2Grid(lin)` then `FromS2Grid(lout, lmax_in = lin)`): truncation /
zero padding of the coefficient vector -/
theorem fromS2Grid_toS2Grid_partial (lin lout N M : ℕ) (nT nF : ℕ → ℝ) (P : ℕ → ℕ → ℝ) (F : ℕ → ℝ)
    (hM : lin + lout + 1 ≤ M) (hn : ∀ l, l ≤ lin → l ≤ lout → nT l * nF l = 4 * Real.pi)
    (hKR : KRExact P N (max lin lout)) :
    ∃ g F', toS2Grid lin M nT P F = .ok g ∧ fromS2Grid lout N M nF P g = .ok F' ∧
      ∀ l' k', l' ≤ lout → k' ≤ 2 * l' → F' (l' ^ 2 + k') = if l' ≤ lin then F (l' ^ 2 + k') else 0 :=
  ⟨_, _, toForwardWith_eq_dense lin M _ F, fromForwardWith_eq_dense lout N M _ _,
    fun l' k' hl' hk' => roundtrip_dense lin lout N M nT nF P F (by omega) hn hKR l' k' hl' hk'⟩

theorem flat_decomp (L i : ℕ) (h : i < (L + 1) ^ 2) : ∃ l k, l ≤ L ∧ k ≤ 2 * l ∧ i = l ^ 2 + k := by
  refine ⟨Nat.sqrt i, i - Nat.sqrt i ^ 2, ?_, ?_, ?_⟩
  · have h1 := Nat.sqrt_le' i
    have h2 : Nat.sqrt i ^ 2 < (L + 1) ^ 2 := lt_of_le_of_lt h1 h
    have := lt_of_pow_lt_pow_left₀ 2 (Nat.zero_le _) h2
    omega
  · have h1 := Nat.sqrt_le' i
    have h2 := Nat.lt_succ_sqrt' i
    have e : (Nat.sqrt i).succ ^ 2 = Nat.sqrt i ^ 2 + 2 * Nat.sqrt i + 1 := by
      rw [Nat.succ_eq_add_one]; ring
    omega
  · have h1 := Nat.sqrt_le' i
    omega

/-- the three named normalisations, same band limit, every coefficient index, both code paths -/
theorem fromS2Grid_toS2Grid_named_partial (kind : Norm) (lmax N M : ℕ) (P : ℕ → ℕ → ℝ) (F : ℕ → ℝ)
    (hM : 2 * lmax + 1 ≤ M) (hKR : KRExact P N lmax) :
    ∃ g F', toS2Grid lmax M (nTo kind lmax) P F = .ok g ∧
      fromS2Grid lmax N M (nFrom kind lmax) P g = .ok F' ∧ ∀ i, i < (lmax + 1) ^ 2 → F' i = F i := by
  obtain ⟨g, F', h1, h2, h3⟩ := fromS2Grid_toS2Grid_partial lmax lmax N M (nTo kind lmax) (nFrom kind lmax) P F
    (by omega) (fun l _ _ => nTo_mul_nFrom kind lmax l) (by rwa [max_self])
  refine ⟨g, F', h1, h2, fun i hi => ?_⟩
  obtain ⟨l, k, hl, hk, rfl⟩ := flat_decomp lmax i hi
  rw [h3 l k hl hk, if_pos hl]

/-- `ToS2Grid ∘ FromS2Grid = id` on band-limited grid signals `g = ToS2Grid(F)` -/
theorem toS2Grid_fromS2Grid_bandlimited_partial (kind : Norm) (lmax N M : ℕ) (P : ℕ → ℕ → ℝ) (F : ℕ → ℝ)
    (hM : 2 * lmax + 1 ≤ M) (hKR : KRExact P N lmax) :
    ∃ g F' g', toS2Grid lmax M (nTo kind lmax) P F = .ok g ∧
      fromS2Grid lmax N M (nFrom kind lmax) P g = .ok F' ∧
      toS2Grid lmax M (nTo kind lmax) P F' = .ok g' ∧ ∀ b a, g' b a = g b a := by
  obtain ⟨g, F', h1, h2, h3⟩ := fromS2Grid_toS2Grid_named_partial kind lmax N M P F hM hKR
  refine ⟨g, F', _, h1, h2, toForwardWith_eq_dense lmax M _ F', fun b a => ?_⟩
  have hg : g = toForwardDenseWith lmax M (shbTo lmax (nTo kind lmax) P) F := by
    have := (toForwardWith_eq_dense lmax M (shbTo lmax (nTo kind lmax) P) F)
    rw [toS2Grid, this] at h1
    exact (Except.ok.inj h1).symm
  rw [hg]
  simp only [toForwardDenseWith, toAlphaDense, toCoeff, sumRange_real]
  refine Finset.sum_congr rfl fun m _ => ?_
  congr 1
  refine Finset.sum_congr rfl fun i hi => ?_
  rw [h3 i (Finset.mem_range.mp hi)]

/-! ## 5b. how much of `KRExact` is proved

The quadrature half is a theorem for all resolutions; what stays a hypothesis is a statement about the Legendre
DATA alone.  For band limits `lmax ≤ 1` everything is proved. -/

/-- **Exactness of `_quadrature_weights(b)`** on the grid `β_j = π(j+½)/(2b)` for every `cos(pβ)`, `p < 2b`
(hence for every polynomial of degree `< 2b` in `cos β`), for ALL `b ≥ 1`:
`Σ_j w_j (2b)² cos(p β_j) = ½∫_0^π cos(pβ) sin β dβ = [p even]/(1 − p²)`.  In particular (`p = 0`) the weights
are normalised: `Σ_j w_j (2b)² = 1`. -/
theorem quadrature_exact (b p : ℕ) (hb : 0 < b) (hp : p < 2 * b) :
    ∑ j ∈ range (2 * b), (quadratureWeight b j : ℝ) * (((2 * b) ^ 2 : ℕ) : ℝ) * Real.cos (p * betas (2 * b) j)
      = if p % 2 = 0 then 1 / (1 - (p : ℝ) ^ 2) else 0 :=
  quadrature_exact_cos b p hb hp
example : (0 : ℕ) < 3 ∧ 4 < 2 * 3 := by omega

/-- `KRExact` follows from facts about the Legendre data alone: each product `P_{l,m} P_{l',m}` is on the grid a
cosine polynomial `Σ_{p<N} c_p cos(pβ)` whose exact integral `Σ_{p even} c_p/(1−p²)` is `δ_{ll'}/4π` -/
theorem krExact_of_legendre_data (P : ℕ → ℕ → ℝ) (b L : ℕ) (hb : 0 < b)
    (h : ∀ l l' k k' : ℕ, l ≤ L → l' ≤ L → k ≤ 2 * l → k' ≤ 2 * l' → (k : ℤ) - l = (k' : ℤ) - l' →
      ∃ c : ℕ → ℝ,
        (∀ j, j < 2 * b → P j (l ^ 2 + k) * P j (l' ^ 2 + k')
            = ∑ p ∈ range (2 * b), c p * Real.cos (p * betas (2 * b) j)) ∧
        ∑ p ∈ range (2 * b), c p * (if p % 2 = 0 then 1 / (1 - (p : ℝ) ^ 2) else 0)
            = if l = l' then 1 / (4 * Real.pi) else 0) :
    KRExact P (2 * b) L :=
  krExact_of_cosine_expansion P b L hb h

/-- the hypothesis is satisfiable, for every even `N ≥ 2`: band limit `0`, `P = Y_0 = 1/√(4π)` -/
theorem krExact_band_limit_0 (b : ℕ) (hb : 0 < b) :
    KRExact (fun _ _ => 1 / Real.sqrt (4 * Real.pi)) (2 * b) 0 := by
  apply krExact_band0 b hb
  rw [div_mul_div_comm, Real.mul_self_sqrt (by positivity), one_mul]

/-- … and for band limit `1` with the explicit Legendre factor, every even `N ≥ 4` -/
theorem krExact_band_limit_1 (b : ℕ) (hb : 2 ≤ b) : KRExact (legendre1 (2 * b)) (2 * b) 1 :=
  krExact_lmax1 b hb

/-- **`FromS2Grid ∘ ToS2Grid = id` without any hypothesis** for `lmax ≤ 1`: every even `res_beta = 2b ≥ 4`, every
`res_alpha ≥ 2 lmax + 1` (odd: FFT path, even: einsum path), the three normalisations, every coefficient vector;
`P = legendre1` is the explicit Legendre factor (compared with `o3.Legendre` by the harness) -/
theorem fromS2Grid_toS2Grid_lmax_le_1 (kind : Norm) (lmax b M : ℕ) (F : ℕ → ℝ) (hl : lmax ≤ 1) (hb : 2 ≤ b)
    (hM : 2 * lmax + 1 ≤ M) :
    ∃ g F', toS2Grid lmax M (nTo kind lmax) (legendre1 (2 * b)) F = .ok g ∧
      fromS2Grid lmax (2 * b) M (nFrom kind lmax) (legendre1 (2 * b)) g = .ok F' ∧
      ∀ i, i < (lmax + 1) ^ 2 → F' i = F i :=
  fromS2Grid_toS2Grid_named_partial kind lmax (2 * b) M _ F hM ((krExact_lmax1 b hb).mono hl)

/-- `S2Activation` with a linear activation `x ↦ c·x` (the identity has `c = 1` after `normalize2mom`): the
output is `c ·` (input truncated / zero-padded to `lmax_out`) -/
theorem s2Activation_linear_partial (kind : Norm) (lin lout N M : ℕ) (c : ℝ) (P : ℕ → ℕ → ℝ) (F : ℕ → ℝ)
    (hM : lin + lout + 1 ≤ M) (hKR : KRExact P N (max lin lout)) :
    ∃ F', s2Activation kind lin lout N M (fun x => c * x) P F = .ok F' ∧
      ∀ l' k', l' ≤ lout → k' ≤ 2 * l' → F' (l' ^ 2 + k') = c * (if l' ≤ lin then F (l' ^ 2 + k') else 0) := by
  refine ⟨fromForwardDenseWith lout N M (shbFrom lout N M (nFrom kind lin) P)
      (fun b a => c * toForwardDenseWith lin M (shbTo lin (nTo kind lin) P) F b a), ?_, fun l' k' hl' hk' => ?_⟩
  · simp only [s2Activation, toS2Grid, toForwardWith_eq_dense, fromS2Grid, fromForwardWith_eq_dense]
  · rw [fromForwardDense_smul,
      roundtrip_dense lin lout N M (nTo kind lin) (nFrom kind lin) P F (by omega)
        (fun l _ _ => nTo_mul_nFrom kind lin l) hKR l' k' hl' hk']

/-! ## 6. SO3Grid -/

/-- `from_grid ∘ to_grid = id`, reduced to the discrete orthonormality of the (scaled) Wigner matrices on the
grid `Σ_{abc} qw_b D_i(a,b,c) D_j(a,b,c) = δ_ij` (data `D`; checked numerically per configuration) -/
theorem so3_from_grid_to_grid_partial (dim nb na : ℕ) (D : ℕ → ℕ → ℕ → ℕ → ℝ) (F : ℕ → ℝ) (hdim : 0 < dim)
    (horth : ∀ i j, i < dim → j < dim →
      ∑ a ∈ range na, ∑ b ∈ range nb, ∑ c ∈ range na, so3Qw nb na b * (D a b c i * D a b c j)
        = if i = j then 1 else 0)
    (i : ℕ) (hi : i < dim) :
    so3FromGrid dim nb na D (so3ToGrid dim D F) i = F i :=
  so3_roundtrip dim nb na D F hdim horth i hi

/-- python's `round` on `n / q`: the result is a nearest integer (`|na − n/q| ≤ ½`), and on a tie it is even -/
theorem roundHalfEven_nearest (n q : ℕ) (hq : 0 < q) :
    2 * (roundHalfEven n q * q) ≤ 2 * n + q ∧ 2 * n ≤ 2 * (roundHalfEven n q * q) + q ∧
    (2 * (n % q) = q → roundHalfEven n q % 2 = 0) := by
  have h1 := Nat.div_add_mod' n q
  have h2 := Nat.mod_lt n hq
  unfold roundHalfEven
  simp only []
  split_ifs with a b c
  · refine ⟨by omega, by omega, fun h => by omega⟩
  · rw [Nat.add_mul, one_mul]; refine ⟨by omega, by omega, fun h => by omega⟩
  · refine ⟨by omega, by omega, fun _ => c⟩
  · rw [Nat.add_mul, one_mul]; refine ⟨by omega, by omega, fun _ => by omega⟩
example : roundHalfEven 35 2 = 18 ∧ roundHalfEven 25 2 = 12 ∧ roundHalfEven 156 10 = 16 ∧ roundHalfEven 126 10 = 13 := by
  decide

/-- the grid sizes of `SO3Grid(lmax, resolution, aspect_ratio)`: for an integer aspect ratio nothing is rounded;
for `aspect_ratio = 1.3`, `resolution = 6` the `15.6` alpha points become `16` -/
theorem so3Res_values (r a : ℕ) :
    so3Res r a = (2 * r, 2 * a * r) ∧ so3ResQ 6 13 10 = (12, 16) ∧ so3ResQ 5 7 4 = (10, 18) ∧ so3ResQ 7 9 10 = (14, 13) := by
  refine ⟨?_, by decide, by decide, by decide⟩
  simp only [so3Res, so3ResQ, roundHalfEven, Nat.mod_one, Nat.div_one]
  simp

/-- the weights use the ROUNDED `na`: `qw = _quadrature_weights(resolution) · (2 resolution)² / na²` -/
theorem so3QwOf_eq (r p q b : ℕ) :
    (so3QwOf r p q b : ℝ)
      = quadratureWeight r b * ((2 * r : ℕ) : ℝ) ^ 2 / ((roundHalfEven (2 * p * r) q : ℕ) : ℝ) ^ 2 := by
  have e : 2 * r / 2 = r := by omega
  simp only [so3QwOf, so3Qw, so3ResQ, e, Scalar.ofNat_real]
  push_cast; ring

/-- … and that matters: "simplifying" `nb² / na²` to `1 / aspect_ratio²` changes the weights as soon as
`2 · aspect_ratio · resolution` is not an integer (witness `aspect_ratio = 1.3`, `resolution = 1`: `na = 3`,
`qw₀ = 1/18`, whereas `_quadrature_weights(1)[0] / 1.3² = 1/13.52`) -/
theorem so3Qw_rounding_matters :
    (so3QwOf 1 13 10 0 : ℝ) = 1 / 18 ∧ (quadratureWeight 1 0 : ℝ) / (13 / 10) ^ 2 ≠ 1 / 18 := by
  have s0 : Real.sin (Real.pi / 4) = Real.sqrt 2 / 2 := Real.sin_pi_div_four
  have hs2 : Real.sqrt 2 * Real.sqrt 2 = 2 := Real.mul_self_sqrt (by norm_num)
  have hq : (quadratureWeight 1 0 : ℝ) = 1 / 8 := by
    simp only [quadratureWeight, sumRange, two_real, one_real, zero_real, Scalar.ofNat_real, Scalar.sin_real,
      Scalar.pi_real]
    norm_num
    rw [show 2 * (Real.sqrt 2 / 2) * (Real.sqrt 2 / 2) = (Real.sqrt 2 * Real.sqrt 2) / 2 by ring, hs2]
    norm_num
  refine ⟨?_, ?_⟩
  · rw [so3QwOf_eq, hq]
    have : roundHalfEven (2 * 13 * 1) 10 = 3 := by decide
    rw [this]; norm_num
  · rw [hq]; norm_num

/-- `D.shape[-1] = Σ_{l ≤ lmax} (2l+1)²`, positive -/
theorem so3Dim_pos (lmax : ℕ) : 0 < so3Dim lmax := by
  cases lmax <;> simp [so3Dim]

end E3nnVerif.Props.C11
