namespace E3nnVerif.Props.T00
theorem foo (n : Nat) : n + 0 = n := by simp
theorem bar : (List.range 50).length = 50 := by decide +kernel
end E3nnVerif.Props.T00
