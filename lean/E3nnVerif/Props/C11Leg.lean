import E3nnVerif.Props.C11
import E3nnVerif.Sound.LegendreChecks
import E3nnVerif.Cert.Leg.All
/-
C11, continued — the round trip WITHOUT the hypothesis `KRExact`, for every band limit `lmax ≤ 11`, EVERY
admissible resolution and every coefficient vector.

What changes with respect to `Props/C11.lean`: the Legendre factor is no longer data.  `harness/leg2poly.py`
interprets the FX graph of the running `o3.Legendre(range(12))` on every run and regenerates
`Generated/Legendre.lean` (every float coefficient lifted to `(n/d)·√r/√π`, compared with the running module on the
grid); `Model/Legendre.lean` gives the table its meaning (`legendreGrid`, scalar-generic); the kernel decides
(`Cert/Leg`, `decide +kernel`) that all products `P_l^m P_{l'}^m` are polynomials of degree `≤ l + l'` in `cos β`
whose integrals `½∫_{-1}^{1}` are `δ_{ll'}/4π`; and `quadrature_exact_pow` — proved for ALL `b` — says that
`_quadrature_weights(b)` integrates every polynomial of degree `< 2b` in `cos β` exactly.
-/
namespace E3nnVerif.Props.C11
open E3nnVerif E3nnVerif.S2Grid E3nnVerif.Legendre E3nnVerif.Generated Finset

/-- **Kostelec–Rockmore exactness in polynomial form**, all `b ≥ 1`: on the grid `β_j = π(j+½)/(2b)` the weights
`_quadrature_weights(b)` integrate `cos^n β`, `n < 2b`, exactly:
`Σ_j w_j (2b)² cos^n β_j = ½∫_0^π cos^n β sin β dβ = ½∫_{-1}^{1} z^n dz`. -/
theorem quadrature_exact_polynomial (b n : ℕ) (hb : 0 < b) (hn : n < 2 * b) :
    ∑ j ∈ range (2 * b), (quadratureWeight b j : ℝ) * (((2 * b) ^ 2 : ℕ) : ℝ) * Real.cos (betas (2 * b) j) ^ n
      = if n % 2 = 0 then 1 / ((n : ℝ) + 1) else 0 :=
  quadrature_exact_pow b n hb hn
example : (0 : ℕ) < 4 ∧ 7 < 2 * 4 := by omega

/-- the exactness range is sharp in the model too: the statement is about `n < 2b` only, and `n = 2b` fails already
for `b = 1` (`Σ_j w_j 4 cos² β_j = ½ ≠ ⅓`) -/
theorem quadrature_not_exact_beyond :
    ∑ j ∈ range (2 * 1), (quadratureWeight 1 j : ℝ) * (((2 * 1) ^ 2 : ℕ) : ℝ) * Real.cos (betas (2 * 1) j) ^ 2
      ≠ 1 / ((2 : ℝ) + 1) := by
  have h0 := quadrature_exact_pow 1 0 (by omega) (by omega)
  simp only [pow_zero, mul_one] at h0
  have c0 : Real.cos (betas (2 * 1) 0 : ℝ) ^ 2 = 1 / 2 := by
    rw [betas_eq_betaR, betaR]
    have : Real.pi * (2 * ((0 : ℕ) : ℝ) + 1) / (2 * ((2 * 1 : ℕ) : ℝ)) = Real.pi / 4 := by push_cast; ring
    rw [this, Real.cos_pi_div_four, div_pow, Real.sq_sqrt (by norm_num)]; norm_num
  have c1 : Real.cos (betas (2 * 1) 1 : ℝ) ^ 2 = 1 / 2 := by
    rw [betas_eq_betaR, betaR]
    have : Real.pi * (2 * ((1 : ℕ) : ℝ) + 1) / (2 * ((2 * 1 : ℕ) : ℝ)) = Real.pi - Real.pi / 4 := by push_cast; ring
    rw [this, Real.cos_pi_sub, neg_sq, Real.cos_pi_div_four, div_pow, Real.sq_sqrt (by norm_num)]; norm_num
  rw [Finset.sum_range_succ, Finset.sum_range_one] at h0 ⊢
  rw [c0, c1]
  intro h
  norm_num at h0
  linarith

/-- **`KRExact` is a theorem for the regenerated Legendre table**: every band limit `L ≤ 11`, every even resolution
`2b`, `b > L` -/
theorem krExact_legendre (L b : ℕ) (hL : L ≤ 11) (hb : L < b) :
    KRExact (fun j i => (legendreGrid legTable (2 * b) j i : ℝ)) (2 * b) L :=
  krExact_of_check legTable 11 L b hL hb Cert.Leg.legAll

/-- **`FromS2Grid ∘ ToS2Grid = id`, no hypothesis left**: every `lmax ≤ 11`, every even `res_beta = 2b ≥ 2(lmax+1)`,
every `res_alpha ≥ 2 lmax + 1` (odd: FFT path, even: einsum path), the three normalisations, every coefficient vector;
the Legendre factor is the regenerated table of `o3.Legendre` -/
theorem fromS2Grid_toS2Grid (kind : Norm) (lmax b M : ℕ) (F : ℕ → ℝ) (hl : lmax ≤ 11) (hb : lmax + 1 ≤ b)
    (hM : 2 * lmax + 1 ≤ M) :
    ∃ g F', toS2Grid lmax M (nTo kind lmax) (fun j i => (legendreGrid legTable (2 * b) j i : ℝ)) F = .ok g ∧
      fromS2Grid lmax (2 * b) M (nFrom kind lmax) (fun j i => (legendreGrid legTable (2 * b) j i : ℝ)) g = .ok F' ∧
      ∀ i, i < (lmax + 1) ^ 2 → F' i = F i :=
  fromS2Grid_toS2Grid_named_partial kind lmax (2 * b) M _ F hM (krExact_legendre lmax b hl (by omega))
example : (5 : ℕ) ≤ 11 ∧ 5 + 1 ≤ 6 ∧ 2 * 5 + 1 ≤ 11 := by omega

/-- `ToS2Grid ∘ FromS2Grid = id` on band-limited grid signals, same range -/
theorem toS2Grid_fromS2Grid_bandlimited (kind : Norm) (lmax b M : ℕ) (F : ℕ → ℝ) (hl : lmax ≤ 11) (hb : lmax + 1 ≤ b)
    (hM : 2 * lmax + 1 ≤ M) :
    ∃ g F' g', toS2Grid lmax M (nTo kind lmax) (fun j i => (legendreGrid legTable (2 * b) j i : ℝ)) F = .ok g ∧
      fromS2Grid lmax (2 * b) M (nFrom kind lmax) (fun j i => (legendreGrid legTable (2 * b) j i : ℝ)) g = .ok F' ∧
      toS2Grid lmax M (nTo kind lmax) (fun j i => (legendreGrid legTable (2 * b) j i : ℝ)) F' = .ok g' ∧
      ∀ β a, g' β a = g β a :=
  toS2Grid_fromS2Grid_bandlimited_partial kind lmax (2 * b) M _ F hM (krExact_legendre lmax b hl (by omega))

/-- truncation / zero padding between different band limits (`FromS2Grid(lmax = lout, lmax_in = lin)` after
`ToS2Grid(lin)`), arbitrary inverse-pair constants -/
theorem fromS2Grid_toS2Grid_truncation (lin lout b M : ℕ) (nT nF : ℕ → ℝ) (F : ℕ → ℝ)
    (hl : max lin lout ≤ 11) (hb : max lin lout + 1 ≤ b) (hM : lin + lout + 1 ≤ M)
    (hn : ∀ l, l ≤ lin → l ≤ lout → nT l * nF l = 4 * Real.pi) :
    ∃ g F', toS2Grid lin M nT (fun j i => (legendreGrid legTable (2 * b) j i : ℝ)) F = .ok g ∧
      fromS2Grid lout (2 * b) M nF (fun j i => (legendreGrid legTable (2 * b) j i : ℝ)) g = .ok F' ∧
      ∀ l' k', l' ≤ lout → k' ≤ 2 * l' → F' (l' ^ 2 + k') = if l' ≤ lin then F (l' ^ 2 + k') else 0 :=
  fromS2Grid_toS2Grid_partial lin lout (2 * b) M nT nF _ F hM hn (krExact_legendre _ b hl (by omega))

/-- `S2Activation` with a linear activation `x ↦ c·x` returns `c ·` (input truncated / zero-padded), same range -/
theorem s2Activation_linear (kind : Norm) (lin lout b M : ℕ) (c : ℝ) (F : ℕ → ℝ)
    (hl : max lin lout ≤ 11) (hb : max lin lout + 1 ≤ b) (hM : lin + lout + 1 ≤ M) :
    ∃ F', s2Activation kind lin lout (2 * b) M (fun x => c * x) (fun j i => (legendreGrid legTable (2 * b) j i : ℝ)) F
        = .ok F' ∧
      ∀ l' k', l' ≤ lout → k' ≤ 2 * l' → F' (l' ^ 2 + k') = c * (if l' ≤ lin then F (l' ^ 2 + k') else 0) :=
  s2Activation_linear_partial kind lin lout (2 * b) M c _ F hM (krExact_legendre _ b hl (by omega))

end E3nnVerif.Props.C11
