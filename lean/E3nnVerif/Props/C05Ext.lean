import E3nnVerif.Props.C05Main
import E3nnVerif.Cert.SH.L9
import E3nnVerif.Cert.SH.L10
import E3nnVerif.Cert.SH.L11
import E3nnVerif.Cert.W3j.Rec8
import E3nnVerif.Cert.W3j.Rec9
import E3nnVerif.Cert.W3j.Rec10
/-
C05 continued to every degree the library accepts (l ≤ 11): built by the thorough tier only (the certificates for
l = 9, 10, 11 take minutes and several GB each).
-/
namespace E3nnVerif.Props.C05
open E3nnVerif.Model.SH E3nnVerif.Model.Wigner E3nnVerif.IR E3nnVerif.Cert
open E3nnVerif.Generated.SH
open E3nnVerif.Props.C04
open Matrix
open scoped BigOperators

theorem eq9 : Equivariant prog index 9 := equivariant_step prog index SH.wf 8 SH.rec_8 W3j.cert_8_1_9 eq8 eq1
theorem eq10 : Equivariant prog index 10 := equivariant_step prog index SH.wf 9 SH.rec_9 W3j.cert_9_1_10 eq9 eq1
theorem eq11 : Equivariant prog index 11 := equivariant_step prog index SH.wf 10 SH.rec_10 W3j.cert_10_1_11 eq10 eq1

theorem homog_le11 : ∀ l, l ≤ 11 → homogCheck (select (evalProg prog) index) l = true := by
  intro l h
  by_cases h8 : l ≤ 8
  · exact homog_le8 l h8
  · interval_cases l
    exacts [SH.homog_9, SH.homog_10, SH.homog_11]

theorem unsold_le11 : ∀ l, l ≤ 11 → unsoldCheck (select (evalProg prog) index) l = true := by
  intro l h
  by_cases h8 : l ≤ 8
  · exact unsold_le8 l h8
  · interval_cases l
    exacts [SH.unsold_9, SH.unsold_10, SH.unsold_11]

theorem equivariant_le11 : ∀ l, l ≤ 11 → Equivariant prog index l := by
  intro l h
  by_cases h8 : l ≤ 8
  · exact equivariant_le8 l h8
  · interval_cases l
    exacts [eq9, eq10, eq11]

/-- **C05 for the current source, every supported degree (l ≤ 11).** -/
theorem spherical_harmonics_main_le11 (l : ℕ) (hl : l ≤ 11) :
    (∀ (α β γ : ℝ) (x : Fin 3 → ℝ), Y l (wignerD 1 α β γ *ᵥ x) = wignerD l α β γ *ᵥ Y l x) ∧
    (∀ (t : ℝ) (x : Fin 3 → ℝ), Y l (t • x) = t ^ l • Y l x) ∧
    (∀ x : Fin 3 → ℝ, Y l (-x) = (-1 : ℝ) ^ l • Y l x) ∧
    (∀ x : Fin 3 → ℝ, ∑ m, (Y l x m) ^ 2 = (2 * l + 1 : ℝ) * (x 0 ^ 2 + x 1 ^ 2 + x 2 ^ 2) ^ l) :=
  ⟨equivariant_le11 l hl,
   sh_homogeneous prog index SH.wf l (homog_le11 l hl),
   sh_parity prog index SH.wf l (homog_le11 l hl),
   sh_norm_component prog index SH.wf l (homog_le11 l hl) (unsold_le11 l hl)⟩

end E3nnVerif.Props.C05
