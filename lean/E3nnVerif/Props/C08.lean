import E3nnVerif.Theory.Linear
/-
C08 — `o3.Linear` is the block-structured equivariant map its instructions describe.

Objects
  * `Model/LinearSpec.lean`  `Cfg` (irreps_in/out as (mul, l, odd), instructions, path normalisation, bias mask, optional
    channel dimensions, shared / per-sample weights, batch size of the certified instance), `validate` (the constructor's
    guards), `specProg` (the documentation as an IR program), `blockSpec` (the documentation entry by entry).
  * `Theory/Linear.lean`     `linearSpecR` / `biasR` / `fullSpecR`: the real-valued block map on structured features
    `x b xc k u i` (batch row, channel, block, copy, component); `act D`: a family of matrices `D (l, p)` acting on the
    component index of every copy of every block; `actEnv`: the same action on the input variables of a program.
  * `Generated/LIN/<name>.lean`: `cfg` and `prog`, the FX graph `_codegen_linear` emitted for `cfg`, translated by T1
    (harness/fx2ir.py);  `Cert/LIN/C08/<name>.lean`: the kernel certificates `spec_ok`, `block_ok`, `valid_ok`.

What is proved
  (a) per certified program, for ALL real inputs, weights and biases: program = `specProg` = the flattened block map
      (`program_computes_spec`, `program_computes_block_map`, `program_entry`);
  (b) for ALL configurations that pass the constructor's guards, all weights, all coefficients, all inputs: the block map
      commutes with every family `D` (`linear_part_equivariant`), the bias is invariant when `D (0, even) = (1)`
      (`bias_invariant`), hence the full map is equivariant (`linear_equivariant`); the map is the identity on the
      component index and only reads blocks connected by an instruction (`linear_locality`); the coefficient is
      `1/√fan-in` (`coefficient_is_inverse_sqrt_fan_in`);
  (c) both combined, on the flat program variables: `program_equivariant`.
Every O(3) element acts through such a family (`D (l, p) = (±1)^p · D^l(R)`, trivial on `0e`), so (b), (c) are statements
about all of O(3); no property of `D` other than `D (0, even) 0 0 = 1` is used.
-/
namespace E3nnVerif.Props.C08
open E3nnVerif.IR E3nnVerif.Exact E3nnVerif.Model.Lin

/-- **program = specification on all real inputs**, from the kernel certificate `spec_ok` -/
theorem program_computes_spec (cfg : Cfg) (prog : List Node)
    (cert : polysEq (interpPoly prog) (interpPoly (specProg cfg)) = true) (env : ℕ → ℝ) :
    interp (K := ℝ) env prog = interp (K := ℝ) env (specProg cfg) :=
  interp_eq_of_polysEq env prog (specProg cfg) cert

/-- **program = entry-wise documented formula on all real inputs**, from `spec_ok` and `block_ok` -/
theorem program_computes_block_map (cfg : Cfg) (prog : List Node)
    (cert : polysEq (interpPoly prog) (interpPoly (specProg cfg)) = true) (hblock : specAgrees cfg = true)
    (env : ℕ → ℝ) :
    interp (K := ℝ) env prog = blockSpec (K := ℝ) cfg env := by
  rw [program_computes_spec cfg prog cert, specProg_eq_blockSpec env cfg hblock]

/-- **every output entry of a certified program is the block map**: at flat position `t = (b, yc, io, w, i)`,
    `Σ_{k → io} a_k Σ_{xc, u} W_k[b, xc, yc, u, w] · x[b, xc, i_in(k), u, i]  (+ bias[yc, io, w, i])`
    with `x`, `W`, `bias` the arrays encoded by the program variables. -/
theorem program_entry (cfg : Cfg) (prog : List Node)
    (cert : polysEq (interpPoly prog) (interpPoly (specProg cfg)) = true) (hblock : specAgrees cfg = true)
    (env : ℕ → ℝ) (t : ℕ) (ht : t < cfg.B * fOut cfg * totalDim cfg.out) :
    (interp (K := ℝ) env prog).getD t 0 =
      fullSpecR cfg (coefR cfg) (unflatW cfg env) (unflatB cfg env) (unflatX cfg env)
        (outPos cfg t).1 (outPos cfg t).2.1 (outPos cfg t).2.2.1 (outPos cfg t).2.2.2.1 (outPos cfg t).2.2.2.2 := by
  rw [program_computes_block_map cfg prog cert hblock, blockSpec_eq, getD_map_range _ _ _ ht]

/-- two programs certified against the same configuration (e.g. `_optimize_einsums` on / off) agree on all inputs -/
theorem programs_agree (cfg : Cfg) (p q : List Node)
    (hp : polysEq (interpPoly p) (interpPoly (specProg cfg)) = true)
    (hq : polysEq (interpPoly q) (interpPoly (specProg cfg)) = true) (env : ℕ → ℝ) :
    interp (K := ℝ) env p = interp (K := ℝ) env q := by
  rw [program_computes_spec cfg p hp, program_computes_spec cfg q hq]

/-- **the linear part commutes with every block-scalar family** `D` — for every configuration accepted by the
    constructor, all coefficients, all weights (shared or per-sample), all channel counts, all inputs. -/
theorem linear_part_equivariant (c : Cfg) (hok : (validate c).isOk = true)
    (D : ℕ × Bool → ℕ → ℕ → ℝ) (a : ℕ → ℝ) (W : Weights) (x : Feat) :
    linearSpecR c a W (act D c.inn x) = act D c.out (linearSpecR c a W x) :=
  linearSpecR_equivariant c (validate_ok c hok).2.1 D a W x

/-- **the bias is invariant**: accepted configurations carry biases only on `0e` blocks, where `D` is trivial -/
theorem bias_invariant (c : Cfg) (hok : (validate c).isOk = true)
    (D : ℕ × Bool → ℕ → ℕ → ℝ) (hD : D (0, false) 0 0 = 1) (β : ℕ → ℕ → ℝ) (b yc io w i : ℕ)
    (hi : i < irDim (c.out.getD io default)) :
    act D c.out (biasR c β) b yc io w i = biasR c β b yc io w i :=
  biasR_invariant c (validate_ok c hok).2.2 D hD β b yc io w i hi

/-- **`Linear` is equivariant** (weights and biases fixed, input transformed ⇒ output transformed), on every valid
    output component -/
theorem linear_equivariant (c : Cfg) (hok : (validate c).isOk = true)
    (D : ℕ × Bool → ℕ → ℕ → ℝ) (hD : D (0, false) 0 0 = 1) (a : ℕ → ℝ) (W : Weights) (β : ℕ → ℕ → ℝ) (x : Feat)
    (b yc io w i : ℕ) (hi : i < irDim (c.out.getD io default)) :
    fullSpecR c a W β (act D c.inn x) b yc io w i = act D c.out (fullSpecR c a W β x) b yc io w i :=
  fullSpecR_equivariant c (validate_ok c hok).2.1 (validate_ok c hok).2.2 D hD a W β x b yc io w i hi

/-- **block structure**: output entry `(b, yc, io, w, i)` reads the input only at batch row `b`, component `i`, and blocks
    that an instruction connects to `io` (identity on the irrep index, nothing between unconnected blocks, batch rows
    and components never mix). -/
theorem linear_locality (c : Cfg) (a : ℕ → ℝ) (W : Weights) (x x' : Feat) (b yc io w i : ℕ)
    (h : ∀ kk, kk < c.ins.length → (insAt c kk).2 = io → ∀ xc, xc < fIn c → ∀ u, u < mulIn c (insAt c kk) →
      x b xc (insAt c kk).1 u i = x' b xc (insAt c kk).1 u i) :
    linearSpecR c a W x b yc io w i = linearSpecR c a W x' b yc io w i :=
  linearSpecR_congr c a W x x' b yc io w i h

/-- an output block that no instruction reaches is identically zero (the `output_mask = 0` blocks) -/
theorem unreached_block_zero (c : Cfg) (a : ℕ → ℝ) (W : Weights) (x : Feat) (b yc io w i : ℕ)
    (h : ∀ k ∈ c.ins, k.2 ≠ io) : linearSpecR c a W x b yc io w i = 0 := by
  unfold linearSpecR
  apply Finset.sum_eq_zero
  intro kk hkk
  rw [if_neg (h _ (insAt_mem c (Finset.mem_range.mp hkk)))]

/-- the coefficient the certificates use is the documented `1/√fan-in` (`1` for an empty fan-in) -/
theorem coefficient_is_inverse_sqrt_fan_in (c : Cfg) (kk : ℕ) :
    coefR c kk = if fanIn c (insAt c kk) = 0 then 1 else 1 / Real.sqrt (fanIn c (insAt c kk)) :=
  coefR_eq c kk

/-- **equivariance of a certified program, on its flat variables**: transform the input variables by `D`
    (`actEnv`: weights and biases untouched); then the value at every output position `t = (b, yc, io, w, i)` is
    `Σ_j D(l_io, p_io)[i, j] · (old output at (b, yc, io, w, j))`. -/
theorem program_equivariant (cfg : Cfg) (prog : List Node)
    (cert : polysEq (interpPoly prog) (interpPoly (specProg cfg)) = true) (hblock : specAgrees cfg = true)
    (hok : (validate cfg).isOk = true)
    (D : ℕ × Bool → ℕ → ℕ → ℝ) (hD : D (0, false) 0 0 = 1) (env : ℕ → ℝ) (t : ℕ)
    (ht : t < cfg.B * fOut cfg * totalDim cfg.out) :
    (interp (K := ℝ) (actEnv cfg D env) prog).getD t 0 =
      ∑ j ∈ Finset.range (irDim (cfg.out.getD (outPos cfg t).2.2.1 default)),
        D (cfg.out.getD (outPos cfg t).2.2.1 default).2 (outPos cfg t).2.2.2.2 j *
          (interp (K := ℝ) env prog).getD
            (outIdx cfg (outPos cfg t).1 (outPos cfg t).2.1 (outPos cfg t).2.2.1 (outPos cfg t).2.2.2.1 j) 0 := by
  rw [program_computes_block_map cfg prog cert hblock, program_computes_block_map cfg prog cert hblock,
    blockSpec_equivariant cfg hok D hD env t ht]
  obtain ⟨_, hb, hyc, hio, hw, _⟩ := outIdx_outPos cfg t ht
  simp only [act]
  apply Finset.sum_congr rfl; intro j hj
  congr 1
  have hj' := Finset.mem_range.mp hj
  rw [blockSpec_eq, getD_map_range _ _ _ (outIdx_lt cfg _ _ _ _ _ hb hyc hio hw hj')]
  simp only [outPos_outIdx cfg _ _ _ _ _ hyc hio hw hj']

/-- the end-to-end statement about one program: every output entry is the documented block map of the encoded arrays -/
def IsBlockMap (cfg : Cfg) (prog : List Node) : Prop :=
  ∀ (env : ℕ → ℝ) (t : ℕ), t < cfg.B * fOut cfg * totalDim cfg.out →
    (interp (K := ℝ) env prog).getD t 0 =
      fullSpecR cfg (coefR cfg) (unflatW cfg env) (unflatB cfg env) (unflatX cfg env)
        (outPos cfg t).1 (outPos cfg t).2.1 (outPos cfg t).2.2.1 (outPos cfg t).2.2.2.1 (outPos cfg t).2.2.2.2

/-- the end-to-end statement about one program: it commutes with every block-scalar family that is trivial on `0e` -/
def Equivariant (cfg : Cfg) (prog : List Node) : Prop :=
  ∀ (D : ℕ × Bool → ℕ → ℕ → ℝ), D (0, false) 0 0 = 1 → ∀ (env : ℕ → ℝ) (t : ℕ), t < cfg.B * fOut cfg * totalDim cfg.out →
    (interp (K := ℝ) (actEnv cfg D env) prog).getD t 0 =
      ∑ j ∈ Finset.range (irDim (cfg.out.getD (outPos cfg t).2.2.1 default)),
        D (cfg.out.getD (outPos cfg t).2.2.1 default).2 (outPos cfg t).2.2.2.2 j *
          (interp (K := ℝ) env prog).getD
            (outIdx cfg (outPos cfg t).1 (outPos cfg t).2.1 (outPos cfg t).2.2.1 (outPos cfg t).2.2.2.1 j) 0

/-- the three kernel certificates of a program give both end-to-end statements (instantiated for every program of a
    run in `Cert/LIN/C08/Chain.lean`) -/
theorem isBlockMap_of_certs (cfg : Cfg) (prog : List Node)
    (cert : polysEq (interpPoly prog) (interpPoly (specProg cfg)) = true) (hblock : specAgrees cfg = true) :
    IsBlockMap cfg prog :=
  fun env t ht => program_entry cfg prog cert hblock env t ht

theorem equivariant_of_certs (cfg : Cfg) (prog : List Node)
    (cert : polysEq (interpPoly prog) (interpPoly (specProg cfg)) = true) (hblock : specAgrees cfg = true)
    (hok : (validate cfg).isOk = true) : Equivariant cfg prog :=
  fun D hD env t ht => program_equivariant cfg prog cert hblock hok D hD env t ht

/-! ### the hypotheses are satisfiable -/

/-- `2x0e + 1x1o → 3x0e + 1x1o + 1x1e`, default instructions, bias on the scalars, channels (2, 3) -/
def exampleCfg : Cfg :=
  { inn := [(2, 0, false), (1, 1, true)], out := [(3, 0, false), (1, 1, true), (1, 1, false)],
    ins := defaultIns [(2, 0, false), (1, 1, true)] [(3, 0, false), (1, 1, true), (1, 1, false)],
    pathNorm := 0, biases := defaultBiases [(3, 0, false), (1, 1, true), (1, 1, false)] true,
    chan := some (2, 3), shared := true, B := 2 }

example : (validate exampleCfg).isOk = true := by decide
example : exampleCfg.ins = [(0, 0), (1, 1)] := by decide
example : specAgrees exampleCfg = true := by decide +kernel
/-- spatial inversion (`D (l, p) = ±1` by parity) satisfies the hypothesis on `D`; so does the identity -/
example : (fun (ir : ℕ × Bool) (i j : ℕ) => if i = j then (if ir.2 then (-1 : ℝ) else 1) else 0) (0, false) 0 0 = 1 := by
  simp
/-- the guards reject what the constructor rejects -/
example : validate { exampleCfg with ins := [(0, 1)] } = .error .valueError := by decide
example : validate { exampleCfg with ins := [(2, 0)] } = .error .indexError := by decide
example : validate { exampleCfg with biases := [false, true, false] } = .error .assertionError := by decide
example : validate { exampleCfg with biases := [true] } = .error .assertionError := by decide

/-! ### configurations that satisfy every guard but that `_codegen_linear` cannot build (reported by harness/c08.py)

The specification gives them a meaning (a pure bias on the block / an empty sum); the real constructor raises. -/

/-- `Linear("1x1e", "1x0e", biases=True)`: bias-only output block -/
def biasOnlyCfg : Cfg :=
  { inn := [(1, 1, false)], out := [(1, 0, false)], ins := [], pathNorm := 0, biases := [true], chan := none,
    shared := true, B := 2 }
example : (validate biasOnlyCfg).isOk = true := by decide
example : defaultIns biasOnlyCfg.inn biasOnlyCfg.out = [] := by decide
/-- its specified value: the bias, broadcast over the batch -/
example : polysEq (blockSpec biasOnlyCfg Poly.var) [Poly.var 6, Poly.var 6] = true := by decide +kernel

/-- `Linear("0x1o", "1x0e", biases=True)`: zero-dimensional input with a bias -/
example : (validate { biasOnlyCfg with inn := [(0, 1, true)] }).isOk = true := by decide
/-- `Linear("2x0e", "2x0e", biases=True, shared_weights=False)` -/
def unsharedBiasCfg : Cfg :=
  { inn := [(2, 0, false)], out := [(2, 0, false)], ins := [(0, 0)], pathNorm := 0, biases := [true], chan := none,
    shared := false, B := 2 }
example : (validate unsharedBiasCfg).isOk = true := by decide

end E3nnVerif.Props.C08
