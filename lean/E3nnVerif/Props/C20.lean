import Mathlib.LinearAlgebra.Matrix.Determinant.Basic
import E3nnVerif.Theory.TestHelpers
/-
C20 — the shipped test helpers accept exactly what they claim to verify.

Theorems about the models of `assert_normalized`, `equivariance_error`, `assert_equivariant`, `_transform`,
`random_irreps`, `_get_io_irreps` (Model/TestHelpers.lean), over ℝ for the numeric parts and for ALL
functions under test, all PRNG outcomes, all sizes.

Where the code as written contradicts the property there are two theorems: a NEGATIVE one about the
as-written model (`…_code_…`) and a POSITIVE one about the corrected model (`…_fixed_…` / `…Spec…`).
harness/c20.py decides by running the real code which of the two models the current tree follows.
-/
namespace E3nnVerif.Props.C20
open E3nnVerif.TestHelpers

/-! ## A. assert_normalized -/

/-- **A1** the running average of test.py:466-472 equals the plain mean of squares over all
`n_input · n_weight` samples, for every sequence of batches.  Guard: `n_input ≠ 0` (with `n_input = 0`
torch divides by zero). -/
theorem running_average_is_mean (n : Nat) (hn : n ≠ 0) (sums : List ℝ) :
    runMean n sums = sums.sum / ((n : ℝ) * sums.length) :=
  runMean_eq_mean n hn sums

example : runMean 2 [(3 : ℝ), 5, 10] = 3 := by
  rw [running_average_is_mean 2 (by decide)]; norm_num

/-- the running average is the mean of the per-batch means `S_b / n_input` -/
theorem running_average_is_mean_of_batch_means (n : Nat) (hn : n ≠ 0) (sums : List ℝ) :
    runMean n sums = (sums.map (fun S => S / (n : ℝ))).sum / sums.length := by
  rw [running_average_is_mean n hn]
  have h : (sums.map (fun S => S / (n : ℝ))).sum = sums.sum / n := by
    induction sums with
    | nil => simp
    | cons S rest ih => simp only [List.map_cons, List.sum_cons, ih]; ring
  rw [h, div_div]

/-- **A2** what 'norm' means for the helper itself (test.py:452-455): it divides component-normalised
inputs by `√dim`, so their second moment per component becomes `1/dim` (not `1/√dim`). -/
theorem norm_input_second_moment (d : Nat) (xs : List ℝ) :
    (xs.map (fun x : ℝ => (x / Real.sqrt (d : ℝ)) ^ 2)).sum = (xs.map (fun x : ℝ => x ^ 2)).sum / (d : ℝ) := by
  have hd' : (0 : ℝ) ≤ d := by positivity
  have key : ∀ x : ℝ, (x / Real.sqrt (d : ℝ)) ^ 2 = x ^ 2 / (d : ℝ) := fun x => by
    rw [div_pow, Real.sq_sqrt hd']
  simp only [key]
  induction xs with
  | nil => simp
  | cons x rest ih => simp only [List.map_cons, List.sum_cons, ih]; ring

/-- **A3** acceptance criterion of the check loop (test.py:475-491), for any target function:
`assert_normalized` passes iff, for every output that is an `Irreps`, every component of every non-empty
irrep block has running mean within `atol` of the target of its irrep.  (`blockSlices_cover`: the blocks
are consecutive and cover all `irreps.dim` components.) -/
theorem accepts_iff (target : Nat → ℝ) (atol : ℝ) (n : Nat) (outs : List (OutSpec × List (List ℝ))) :
    ∀ o, checkOutputs target atol n outs o = none ↔
      ∀ p ∈ outs, ∀ blocks, p.1 = .irreps blocks →
        ∀ ds ∈ blockSlices blocks (p.2.map (runMean n)), ∀ e ∈ ds.2, |e - target ds.1| ≤ atol := by
  induction outs with
  | nil => intro o; simp [checkOutputs]
  | cons p rest ih =>
    intro o
    obtain ⟨spec, comps⟩ := p
    cases spec with
    | skip =>
      simp only [checkOutputs, ih, List.mem_cons, forall_eq_or_imp, reduceCtorEq, false_implies,
        implies_true, true_and]
    | irreps blocks =>
      simp only [checkOutputs]
      cases hf : firstFailure atol (irrepErrors target blocks (comps.map (runMean n))) 0 with
      | some i =>
        simp only [reduceCtorEq, false_iff]
        intro h
        have h0 := h (.irreps blocks, comps) (by simp) blocks rfl
        rw [← firstFailure_irrepErrors_none_iff, hf] at h0
        simp at h0
      | none =>
        simp only [ih, List.mem_cons, forall_eq_or_imp]
        rw [firstFailure_irrepErrors_none_iff] at hf
        constructor
        · intro h
          refine ⟨?_, h⟩
          intro blocks' hb
          simp only [OutSpec.irreps.injEq] at hb
          subst hb
          exact hf
        · intro h; exact h.2

example : checkOutputs (targetCode .component) (0.1 : ℝ) 1 [(.skip, []), (.irreps [(0, 3), (1, 0)], [[1]])] 0 = none := by
  rw [accepts_iff]
  intro p hp blocks hb ds hds e he
  simp only [List.mem_cons, List.not_mem_nil, or_false] at hp
  rcases hp with rfl | rfl
  · simp at hb
  · simp only [OutSpec.irreps.injEq] at hb
    subst hb
    simp only [List.map_cons, List.map_nil, running_average_is_mean 1 (by decide)] at hds
    simp [blockSlices] at hds
    rcases hds with rfl | rfl
    · simp at he
    · simp at he; subst he; simp [targetCode]; norm_num

/-- **A4** output wrapping as written (`(not is_list) or is_tuple`): tensors AND tuples are wrapped, lists not. -/
theorem wrapCond_table : wrapCond false false = true ∧ wrapCond true false = false ∧ wrapCond false true = true := by
  decide

/-- intended wrapping `not (is_list or is_tuple)`: only tensors are wrapped; the two conditions differ
exactly on tuples. -/
theorem wrapCond_differs_iff (isList isTuple : Bool) :
    wrapCond isList isTuple ≠ wrapCondFixed isList isTuple ↔ isTuple = true := by
  cases isList <;> cases isTuple <;> decide

/-- NEGATIVE (as written): a `forward` returning a tuple is never measured, whatever its length:
it fails the length assertion, or (one output) `tuple.square()`. -/
theorem tuple_output_code_rejected (m nOut : Nat) :
    outsOutcome wrapCond (.tuple m) nOut = (if nOut = 1 then .attrError else .assertLen) := by
  by_cases h : nOut = 1
  · subst h; simp [outsOutcome, wrapCond, OutKind.isList, OutKind.isTuple]
  · have : (1 != nOut) = true := by simpa [bne_iff_ne] using (Ne.symm h)
    simp [outsOutcome, wrapCond, OutKind.isList, OutKind.isTuple, h, this]

/-- witness used by the harness: a module with two outputs returned as a tuple -/
example : outsOutcome wrapCond (.tuple 2) 2 = .assertLen := by decide

/-- POSITIVE (corrected condition): a tuple of the right length is measured like a list -/
theorem tuple_output_fixed_ok (m nOut : Nat) :
    outsOutcome wrapCondFixed (.tuple m) nOut = .ok ↔ m = nOut := by
  by_cases h : m = nOut
  · subst h; simp [outsOutcome, wrapCondFixed, OutKind.isList, OutKind.isTuple, OutKind.len]
  · have : (m != nOut) = true := by simpa [bne_iff_ne] using h
    simp [outsOutcome, wrapCondFixed, OutKind.isList, OutKind.isTuple, OutKind.len, h, this]

/-- tensors and lists are handled identically (and correctly) by both conditions -/
theorem non_tuple_outputs_ok (wrap : Bool → Bool → Bool) (hw : wrap = wrapCond ∨ wrap = wrapCondFixed) (nOut : Nat) :
    (outsOutcome wrap .tensor nOut = .ok ↔ nOut = 1) ∧ ∀ m, (outsOutcome wrap (.list m) nOut = .ok ↔ m = nOut) := by
  rcases hw with rfl | rfl
  · refine ⟨?_, fun m => ?_⟩
    · by_cases h : nOut = 1
      · subst h; decide
      · have : (1 != nOut) = true := by simpa [bne_iff_ne] using (Ne.symm h)
        simp [outsOutcome, wrapCond, OutKind.isList, OutKind.isTuple, h, this]
    · by_cases h : m = nOut
      · subst h; simp [outsOutcome, wrapCond, OutKind.isList, OutKind.isTuple, OutKind.len]
      · have : (m != nOut) = true := by simpa [bne_iff_ne] using h
        simp [outsOutcome, wrapCond, OutKind.isList, OutKind.isTuple, OutKind.len, h, this]
  · refine ⟨?_, fun m => ?_⟩
    · by_cases h : nOut = 1
      · subst h; decide
      · have : (1 != nOut) = true := by simpa [bne_iff_ne] using (Ne.symm h)
        simp [outsOutcome, wrapCondFixed, OutKind.isList, OutKind.isTuple, h, this]
    · by_cases h : m = nOut
      · subst h; simp [outsOutcome, wrapCondFixed, OutKind.isList, OutKind.isTuple, OutKind.len]
      · have : (m != nOut) = true := by simpa [bne_iff_ne] using h
        simp [outsOutcome, wrapCondFixed, OutKind.isList, OutKind.isTuple, OutKind.len, h, this]

/-- **A5** the target of the code for 'norm' agrees with the promised second moment only for scalars -/
theorem code_target_eq_spec_iff (d : Nat) (hd : 1 ≤ d) :
    (targetCode .norm d : ℝ) = targetSpec .norm d ↔ d = 1 := by
  simp only [targetCode, targetSpec, ofNat_real, sqrt_real, Nat.cast_one]
  have hd0 : (0 : ℝ) < d := by exact_mod_cast hd
  have hs0 : 0 < Real.sqrt d := Real.sqrt_pos.mpr hd0
  rw [div_eq_div_iff hs0.ne' hd0.ne', one_mul, one_mul]
  constructor
  · intro h
    have h2 : Real.sqrt d * Real.sqrt d = d := Real.mul_self_sqrt hd0.le
    have : Real.sqrt d = 1 := by
      have : Real.sqrt d * (Real.sqrt d - 1) = 0 := by rw [mul_sub, mul_one, h2]; linarith
      rcases mul_eq_zero.mp this with h | h
      · exact absurd h hs0.ne'
      · linarith
    have hd1 : (d : ℝ) = 1 := by rw [← h2, this]; ring
    exact_mod_cast hd1
  · intro h; subst h; simp

theorem component_target_eq_spec (d : Nat) : (targetCode .component d : ℝ) = targetSpec .component d := rfl

/-- the gap between the code's 'norm' target and the promised one exceeds the default `atol = 0.1`
for every irrep with `1 ≤ l ≤ 38` (dimensions 2 … 78) -/
theorem norm_target_gap (d : Nat) (h2 : 2 ≤ d) (h78 : d ≤ 78) :
    (targetCode .norm d : ℝ) - targetSpec .norm d > 1 / 10 := by
  simp only [targetCode, targetSpec, ofNat_real, sqrt_real, Nat.cast_one]
  have hd2 : (2 : ℝ) ≤ d := by exact_mod_cast h2
  have hd78 : (d : ℝ) ≤ 78 := by exact_mod_cast h78
  have hd0 : (0 : ℝ) < d := by linarith
  set s := Real.sqrt d with hs
  have hs0 : 0 < s := Real.sqrt_pos.mpr hd0
  have hss : s * s = d := Real.mul_self_sqrt hd0.le
  have hlo : (1.2 : ℝ) < s := by nlinarith
  have hhi : s < (8.85 : ℝ) := by nlinarith
  have key : (1 : ℝ) / s - 1 / d = (s - 1) / (s * s) := by
    rw [← hss]; field_simp
  rw [key, gt_iff_lt, lt_div_iff₀ (by positivity)]
  nlinarith

/-- statistics of an exactly normalised module: every component of a `(2l+1)`-dimensional irrep has
running mean `val (2l+1)` -/
def ExactStats (val : Nat → ℝ) (n : Nat) (blocks : List (Nat × Nat)) (comps : List (List ℝ)) : Prop :=
  comps.map (runMean n) = exactE val blocks

/-- POSITIVE (corrected target): with the promised target (`1` resp. `1/dim`) every exactly normalised
module is accepted, for every tolerance `atol ≥ 0`, every irreps, both normalisations. -/
theorem spec_target_accepts_exactly_normalized (nz : Normalization) (atol : ℝ) (hat : 0 ≤ atol) (n : Nat)
    (blocks : List (Nat × Nat)) (comps : List (List ℝ)) (hE : ExactStats (targetSpec nz) n blocks comps) :
    checkOutputs (targetSpec nz) atol n [(.irreps blocks, comps)] 0 = none := by
  rw [accepts_iff]
  intro p hp blocks' hb ds hds e he
  simp only [List.mem_singleton] at hp
  subst hp
  simp only [OutSpec.irreps.injEq] at hb
  subst hb
  rw [hE, blockSlices_exactE, List.mem_map] at hds
  obtain ⟨b, _, rfl⟩ := hds
  simp only [List.mem_replicate] at he
  rw [he.2]
  simpa using hat

/-- the same for 'component' and the code's target (no defect there) -/
theorem code_target_accepts_exactly_normalized_component (atol : ℝ) (hat : 0 ≤ atol) (n : Nat)
    (blocks : List (Nat × Nat)) (comps : List (List ℝ)) (hE : ExactStats (targetSpec .component) n blocks comps) :
    checkOutputs (targetCode .component) atol n [(.irreps blocks, comps)] 0 = none :=
  spec_target_accepts_exactly_normalized .component atol hat n blocks comps hE

/-- NEGATIVE (as written): under `normalization='norm'` and the default `atol = 0.1` the helper REJECTS
every exactly normalised module that has a non-empty irrep with `1 ≤ l ≤ 38`. -/
theorem norm_target_code_rejects_exactly_normalized (n : Nat) (blocks : List (Nat × Nat)) (comps : List (List ℝ))
    (hE : ExactStats (targetSpec .norm) n blocks comps)
    (hb : ∃ b ∈ blocks, 1 ≤ b.1 ∧ 1 ≤ b.2 ∧ b.2 ≤ 38) :
    checkOutputs (targetCode .norm) (1 / 10 : ℝ) n [(.irreps blocks, comps)] 0 ≠ none := by
  intro h
  rw [accepts_iff] at h
  obtain ⟨b, hbm, hmul, hl1, hl38⟩ := hb
  have h0 := h (.irreps blocks, comps) (by simp) blocks rfl
  rw [hE, blockSlices_exactE] at h0
  have h1 := h0 (2 * b.2 + 1, List.replicate (b.1 * (2 * b.2 + 1)) (targetSpec .norm (2 * b.2 + 1)))
    (by rw [List.mem_map]; exact ⟨b, hbm, rfl⟩) (targetSpec .norm (2 * b.2 + 1))
    (List.mem_replicate.mpr ⟨Nat.mul_ne_zero (by omega) (by omega), rfl⟩)
  have hgap := norm_target_gap (2 * b.2 + 1) (by omega) (by omega)
  dsimp only at h1
  rw [abs_le] at h1
  linarith [h1.1]

/-- the witness replayed by the harness: identity on `8x1o`, one batch of `n` samples whose per-component
sum of squares is exactly `n/3` -/
example : checkOutputs (targetCode .norm) (1 / 10 : ℝ) 4 [(.irreps [(8, 1)], List.replicate 24 [4 / 3])] 0 ≠ none := by
  apply norm_target_code_rejects_exactly_normalized
  · simp only [ExactStats, exactE, List.map_replicate, running_average_is_mean 4 (by decide)]
    simp [targetSpec]; norm_num
  · exact ⟨(8, 1), by simp, by decide, by decide, by decide⟩

example : checkOutputs (targetSpec .norm) (1 / 10 : ℝ) 4 [(.irreps [(8, 1)], List.replicate 24 [4 / 3])] 0 = none := by
  apply spec_target_accepts_exactly_normalized _ _ (by norm_num)
  simp only [ExactStats, exactE, List.map_replicate, running_average_is_mean 4 (by decide)]
  simp [targetSpec]; norm_num

/-- NEGATIVE, other direction (as written): the helper ACCEPTS (for every `atol ≥ 0`) a module whose second
moment per component is `1/√dim`, although that is off the promised `1/dim` by more than `0.1`
whenever `1 ≤ l ≤ 38`: the check is too lenient as well as too strict. -/
theorem norm_target_code_accepts_off_normalized (atol : ℝ) (hat : 0 ≤ atol) (n : Nat)
    (blocks : List (Nat × Nat)) (comps : List (List ℝ)) (hE : ExactStats (targetCode .norm) n blocks comps) :
    checkOutputs (targetCode .norm) atol n [(.irreps blocks, comps)] 0 = none := by
  rw [accepts_iff]
  intro p hp blocks' hb ds hds e he
  simp only [List.mem_singleton] at hp
  subst hp
  simp only [OutSpec.irreps.injEq] at hb
  subst hb
  rw [hE, blockSlices_exactE, List.mem_map] at hds
  obtain ⟨b, _, rfl⟩ := hds
  simp only [List.mem_replicate] at he
  rw [he.2]
  simpa using hat

/-- n_weight (test.py:435-439): without weights only `None`/`1` are accepted and one pass is made;
with weights the default is 20. -/
theorem resolveNWeight_spec (numWeights : Nat) (nw : Option Nat) :
    resolveNWeight numWeights nw =
      (if numWeights = 0 then (if nw = none ∨ nw = some 1 then some 1 else none) else some (nw.getD 20)) := by
  unfold resolveNWeight
  by_cases h : numWeights = 0
  · subst h
    rcases nw with _ | k
    · simp
    · by_cases hk : k = 1 <;> simp [hk]
  · simp [h]

/-! ## B. _transform, equivariance_error, assert_equivariant -/

section Equivariance
variable {G T X Irr : Type}

/-- **B1** `_transform` dispatches on the kind of each argument only: `None` → unchanged, `'cartesian_points'`
→ rotate then translate, `Irreps` → representation matrix, no translation. -/
theorem transform_dispatch (A : Geom G T X Irr) (g : G) (t : T) (a : X) (ir : Irr) :
    transformArg A .none g t a = a ∧
    transformArg A .cartesian g t a = A.addTrans (A.rotPoints g a) t ∧
    transformArg A (.irreps ir) g t a = A.actIrreps ir g a := ⟨rfl, rfl, rfl⟩

/-- translations act on `'cartesian_points'` arguments only -/
theorem translation_only_on_cartesian (A : Geom G T X Irr) (k : ArgKind Irr) (hk : k.isCartesian = false)
    (g : G) (t t' : T) (a : X) : transformArg A k g t a = transformArg A k g t' a := by
  cases k with
  | none => rfl
  | cartesian => simp [ArgKind.isCartesian] at hk
  | irreps ir => rfl

theorem transform_translation_irrelevant (A : Geom G T X Irr) (kinds : List (ArgKind Irr))
    (hk : kinds.any ArgKind.isCartesian = false) (dat : List X) (g : G) (t t' : T) :
    transform A kinds dat g t = transform A kinds dat g t' := by
  induction kinds generalizing dat with
  | nil => simp [transform]
  | cons k ks ih =>
    cases dat with
    | nil => simp [transform]
    | cons a as =>
      simp only [List.any_cons, Bool.or_eq_false_iff] at hk
      simp only [transform, List.zipWith_cons_cons] at ih ⊢
      rw [translation_only_on_cartesian A k hk.1 g t t' a, ih hk.2 as]

theorem transform_length (A : Geom G T X Irr) (kinds : List (ArgKind Irr)) (dat : List X) (g : G) (t : T) :
    (transform A kinds dat g t).length = min kinds.length dat.length := by
  simp [transform]

/-- **B2** the cases: parity ∈ {0,1} iff `do_parity`; a translated case exists iff `do_translation` and some
input is `'cartesian_points'`; the untranslated case is always there. -/
theorem testCases_mem (doParity hasCart doTranslation : Bool) (k : Nat) (tr : Bool) :
    (k, tr) ∈ testCases doParity hasCart doTranslation ↔
      (k = 0 ∨ (k = 1 ∧ doParity = true)) ∧ (tr = true → doTranslation = true ∧ hasCart = true) := by
  cases doParity <;> cases hasCart <;> cases doTranslation <;> cases tr <;>
    simp [testCases]

theorem testCases_eq (doParity hasCart doTranslation : Bool) :
    testCases doParity hasCart doTranslation =
      match doParity, (doTranslation && hasCart) with
      | false, false => [(0, false)]
      | false, true => [(0, false), (0, true)]
      | true, false => [(0, false), (1, false)]
      | true, true => [(0, false), (0, true), (1, false), (1, true)] := by
  cases doParity <;> cases hasCart <;> cases doTranslation <;> rfl

/-- a translation is drawn only in translated cases, otherwise it is `0.0` -/
theorem drawnTrans_untranslated (A : Geom G T X Irr) (randTr : Nat → T) (i k : Nat) :
    drawnTrans A randTr i (k, false) = A.zeroT := rfl

variable {C : Type}

/-- **B3** soundness of the per-output maximum: for every trial `t < ntrials`, every case `c` (the `j`-th),
the vector reported for `c` is, output by output, at least the error measured on the transformation drawn
in that trial for that case (draw number `t·L + j`).  Guard: every error vector has `len(irreps_out)`
entries (the `assert` of test.py:296).  The deviations are real numbers (no NaN). -/
theorem reported_error_ge_each_draw (tests : List C) (nOut : Nat) (bot : ℝ) (dev : Nat → C → List ℝ)
    (ntrials : Nat) (hlen : ∀ i c, (dev i c).length = nOut)
    (t : Nat) (ht : t < ntrials) (j : Nat) (c : C) (hc : tests[j]? = some c) :
    ∃ v, (errorLoop tests nOut bot dev ntrials)[j]? = some (c, v) ∧ VLe (dev (t * tests.length + j) c) v := by
  refine ⟨_, errorLoop_getElem tests nOut bot dev ntrials j c hc, ?_⟩
  have hm := mem_caseDevs dev c tests.length ntrials j t ht
  rw [Nat.add_comm] at hm
  have hall : ∀ v ∈ caseDevs dev c tests.length ntrials j, v.length = (List.replicate nOut bot).length := by
    intro v hv
    obtain ⟨t', _, rfl⟩ := caseDevs_mem dev c tests.length ntrials j v hv
    simp [hlen]
  exact (foldl_updBiggest_ge _ _ hall).2 _ hm

/-- component form of `VLe` -/
theorem VLe_get {a b : List ℝ} (h : VLe a b) : ∀ (o : Nat) (e : ℝ), a[o]? = some e → ∃ m, b[o]? = some m ∧ e ≤ m := by
  induction h with
  | nil => intro o e he; simp at he
  | cons hab _ ih =>
    intro o e he
    cases o with
    | zero => simp only [List.getElem?_cons_zero, Option.some.injEq] at he; subst he; exact ⟨_, by simp, hab⟩
    | succ o => simp only [List.getElem?_cons_succ] at he ⊢; exact ih o e he

/-- **B4** tightness: every reported entry is either the start value `-inf` (only possible when nothing
was drawn) or the error of one of the drawn transformations of that case: it IS the maximum. -/
theorem reported_error_attained (tests : List C) (nOut : Nat) (bot : ℝ) (dev : Nat → C → List ℝ)
    (ntrials : Nat) (j : Nat) (c : C) (hc : tests[j]? = some c) (v : List ℝ)
    (hv : (errorLoop tests nOut bot dev ntrials)[j]? = some (c, v)) (o : Nat) (r : ℝ) (hr : v[o]? = some r) :
    r = bot ∨ ∃ t, t < ntrials ∧ (dev (t * tests.length + j) c)[o]? = some r := by
  rw [errorLoop_getElem tests nOut bot dev ntrials j c hc] at hv
  simp only [Option.some.injEq, Prod.mk.injEq, true_and] at hv
  subst hv
  rcases foldl_updBiggest_mem _ _ o r hr with h | ⟨w, hw, h⟩
  · left
    rw [List.getElem?_replicate] at h
    split at h <;> simp_all
  · right
    obtain ⟨t, ht, rfl⟩ := caseDevs_mem dev c tests.length ntrials j w hw
    exact ⟨t, ht, by rw [Nat.add_comm]; exact h⟩

/-- non-vacuity of B3/B4: two cases, two trials, one output, the `i`-th draw has error `i`: the entry reported
for the second case bounds the error `3` of its second draw -/
example : ∃ v, (errorLoop [(0, false), (1, false)] 1 (-1 : ℝ) (fun i _ => [(i : ℝ)]) 2)[1]? = some ((1, false), v) ∧
    VLe [3] v := by
  have h := reported_error_ge_each_draw [(0, false), (1, false)] 1 (-1 : ℝ) (fun i (_ : Nat × Bool) => [(i : ℝ)]) 2
    (fun _ _ => rfl) 1 (by decide) 1 (1, false) rfl
  simpa using h

/-- the assertion of test.py:296 is the only way the loop can fail: if every error vector has
`len(irreps_out)` entries the checked loop returns the value of `errorLoop` -/
theorem errorLoopChecked_eq (tests : List C) (nOut : Nat) (bot : ℝ) (dev : Nat → C → List ℝ) (ntrials : Nat)
    (hlen : ∀ i c, (dev i c).length = nOut) :
    errorLoopChecked tests nOut bot dev ntrials = some (errorLoop tests nOut bot dev ntrials) := by
  unfold errorLoopChecked
  rw [if_pos]
  rw [List.all_eq_true]
  intro t _
  rw [List.all_eq_true]
  intro j _
  cases tests[j]? with
  | none => rfl
  | some c => simp [hlen]

/-- **B5** `assert_equivariant` passes iff every reported error of every case is `≤ tolerance`
(guard: at least one output, otherwise `err.max()` raises). -/
theorem assert_equivariant_pass_iff (tol : ℝ) (errs : List (C × List ℝ)) (hne : ∀ cv ∈ errs, cv.2 ≠ []) :
    assertEquivariant tol errs = .pass ↔ ∀ cv ∈ errs, ∀ e ∈ cv.2, e ≤ tol := by
  unfold assertEquivariant
  have h1 : errs.any (fun cv => cv.2.isEmpty) = false := by
    rw [List.any_eq_false]
    intro cv hcv
    simpa [List.isEmpty_iff] using hne cv hcv
  rw [h1]
  simp only [Bool.false_eq_true, if_false]
  constructor
  · intro h cv hcv e he
    split at h
    · simp at h
    · rename_i hany
      rw [Bool.not_eq_true, List.any_eq_false] at hany
      have := hany cv hcv
      cases hm : vecMax cv.2 with
      | none => rw [vecMax_eq_none] at hm; exact absurd hm (hne cv hcv)
      | some m =>
        simp only [hm, lt_real, not_lt] at this
        exact (vecMax_le_iff hm).mp this e he
  · intro h
    rw [if_neg]
    rw [Bool.not_eq_true, List.any_eq_false]
    intro cv hcv
    cases hm : vecMax cv.2 with
    | none => simp
    | some m =>
      simp only [lt_real, not_lt]
      exact (vecMax_le_iff hm).mpr (h cv hcv)

/-- it raises `AssertionError` iff some reported error exceeds the tolerance -/
theorem assert_equivariant_fails_iff (tol : ℝ) (errs : List (C × List ℝ)) (hne : ∀ cv ∈ errs, cv.2 ≠ []) :
    assertEquivariant tol errs = .assertionError ↔ ∃ cv ∈ errs, ∃ e ∈ cv.2, tol < e := by
  have hp := assert_equivariant_pass_iff tol errs hne
  have h1 : errs.any (fun cv => cv.2.isEmpty) = false := by
    rw [List.any_eq_false]
    intro cv hcv
    simpa [List.isEmpty_iff] using hne cv hcv
  constructor
  · intro h
    by_contra hcon
    simp only [not_exists, not_and, not_lt] at hcon
    rw [hp.mpr hcon] at h
    simp at h
  · intro ⟨cv, hcv, e, he, hlt⟩
    have : assertEquivariant tol errs ≠ .pass := fun hpass => absurd (hp.mp hpass cv hcv e he) (not_le.mpr hlt)
    unfold assertEquivariant at this ⊢
    rw [h1] at this ⊢
    simp only [Bool.false_eq_true, if_false] at this ⊢
    split
    · rfl
    · rename_i hh; rw [if_neg hh] at this; exact absurd rfl this

example : assertEquivariant (1 : ℝ) [((0, false), [0.5, 2])] = .assertionError := by
  rw [assert_equivariant_fails_iff _ _ (by simp)]
  exact ⟨_, List.mem_singleton.mpr rfl, 2, by simp, by norm_num⟩

/-- zero outputs: `err.max()` raises -/
theorem assert_equivariant_no_outputs (tol : ℝ) (c : C) (rest : List (C × List ℝ)) :
    assertEquivariant tol ((c, []) :: rest) = .runtimeError := by
  simp [assertEquivariant]

theorem deviationAt_length (A : Geom G T X Irr) (dist : X → X → ℝ) (func : List X → List X)
    (kindsIn kindsOut : List (ArgKind Irr)) (args : List X)
    (hfun : ∀ inp, (func inp).length = kindsOut.length) (g : G) (t : T) :
    (deviationAt A dist func kindsIn kindsOut args g t).length = kindsOut.length := by
  simp [deviationAt, transform_length, hfun]

/-- **B6** soundness of `assert_equivariant ∘ equivariance_error` for ALL functions under test: if the
assertion passes, then on every transformation that was drawn (every trial, every case; rotation
`rand_matrix()·(-1)^k`, translation `10·randn` or `0`) every output of `func` deviates from equivariance by
at most `tolerance`.  Guard: `func` returns `len(irreps_out)` outputs (test.py:296). -/
theorem assert_pass_sound (A : Geom G T X Irr) (dist : X → X → ℝ) (func : List X → List X)
    (kindsIn kindsOut : List (ArgKind Irr)) (args : List X) (ntrials : Nat) (doParity doTranslation : Bool)
    (bot tol : ℝ) (randRot : Nat → G) (randTr : Nat → T)
    (hfun : ∀ inp, (func inp).length = kindsOut.length)
    (hpass : assertEquivariant tol (equivarianceError A dist func kindsIn kindsOut args ntrials doParity
      doTranslation bot randRot randTr) = .pass) :
    let tests := testCases doParity (kindsIn.any ArgKind.isCartesian) doTranslation
    ∀ t, t < ntrials → ∀ j c, tests[j]? = some c →
      ∀ e ∈ deviationAt A dist func kindsIn kindsOut args
              (drawnRot A randRot (t * tests.length + j) c) (drawnTrans A randTr (t * tests.length + j) c),
        e ≤ tol := by
  intro tests t ht j c hc e he
  obtain ⟨v, hv, hle⟩ := reported_error_ge_each_draw tests kindsOut.length bot
    (fun i c => deviationAt A dist func kindsIn kindsOut args (drawnRot A randRot i c) (drawnTrans A randTr i c))
    ntrials (fun i c => deviationAt_length A dist func kindsIn kindsOut args hfun _ _) t ht j c hc
  obtain ⟨m, hm, hem⟩ := hle.mem e he
  have hmem : (c, v) ∈ equivarianceError A dist func kindsIn kindsOut args ntrials doParity doTranslation bot
      randRot randTr := List.mem_of_getElem? hv
  -- passing means no entry exceeds tol (also without the non-emptiness guard)
  unfold assertEquivariant at hpass
  split at hpass
  · simp at hpass
  · split at hpass
    · simp at hpass
    · rename_i _ hany
      rw [Bool.not_eq_true, List.any_eq_false] at hany
      have h2 := hany (c, v) hmem
      cases hmx : vecMax v with
      | none => rw [vecMax_eq_none] at hmx; subst hmx; simp at hm
      | some mx =>
        simp only [hmx, lt_real, not_lt] at h2
        exact le_trans hem (le_trans ((vecMax_spec hmx).1 m hm) h2)

theorem zipWith_self_zero (dist : X → X → ℝ) (hd : ∀ x, dist x x = 0) (y : List X) :
    List.zipWith dist y y = List.replicate y.length 0 := by
  induction y with
  | nil => rfl
  | cons x xs _ => simp [List.replicate_succ, hd]

theorem updBiggest_replicate (n : Nat) (a e : ℝ) :
    updBiggest (List.replicate n a) (List.replicate n e) = List.replicate n (if a < e then e else a) := by
  induction n with
  | zero => simp [updBiggest]
  | succ n ih =>
    simp only [updBiggest, List.replicate_succ, List.zipWith_cons_cons] at ih ⊢
    rw [ih]
    by_cases h : a < e
    · have hb : HNum.lt a e = true := (lt_real _ _).mpr h
      simp [hb, h]
    · have hb : HNum.lt a e = false := by simpa [← Bool.not_eq_true] using h
      simp [hb, h]

theorem foldl_updBiggest_zero (n : Nat) (vs : List (List ℝ)) (hvs : ∀ v ∈ vs, v = List.replicate n 0) :
    vs.foldl updBiggest (List.replicate n 0) = List.replicate n 0 := by
  induction vs with
  | nil => rfl
  | cons v vs ih =>
    rw [List.foldl_cons, hvs v (by simp), updBiggest_replicate]
    simpa using ih (fun w hw => hvs w (by simp [hw]))

/-- **B7** completeness in exact arithmetic: for a function that IS equivariant at `args` under the action
modelled by `A` (`f(g·x) = g·f(x)` for every rotation/translation that can be drawn), every reported error
is `0` (for `ntrials ≥ 1`), so `assert_equivariant` passes for every `tolerance ≥ 0`. -/
theorem equivariant_reports_zero (A : Geom G T X Irr) (dist : X → X → ℝ) (func : List X → List X)
    (kindsIn kindsOut : List (ArgKind Irr)) (args : List X) (ntrials : Nat) (doParity doTranslation : Bool)
    (bot : ℝ) (randRot : Nat → G) (randTr : Nat → T)
    (heq : ∀ g t, func (transform A kindsIn args g t) = transform A kindsOut (func args) g t)
    (hd : ∀ x, dist x x = 0) (hlen : (func args).length = kindsOut.length) (hbot : bot < 0) (hn : 1 ≤ ntrials) :
    ∀ cv ∈ equivarianceError A dist func kindsIn kindsOut args ntrials doParity doTranslation bot randRot randTr,
      cv.2 = List.replicate kindsOut.length 0 := by
  intro cv hcv
  obtain ⟨j, hj⟩ := List.getElem?_of_mem hcv
  unfold equivarianceError at hj
  set tests := testCases doParity (kindsIn.any ArgKind.isCartesian) doTranslation with htests
  set dev := (fun (i : Nat) (c : Nat × Bool) => deviationAt A dist func kindsIn kindsOut args
    (drawnRot A randRot i c) (drawnTrans A randTr i c)) with hdev
  have hdevz : ∀ i c, dev i c = List.replicate kindsOut.length 0 := by
    intro i c
    simp only [hdev, deviationAt, heq, zipWith_self_zero dist hd, transform_length, hlen, min_self]
  have hjlt : j < tests.length := by
    have := (List.getElem?_eq_some_iff.mp hj).1
    rwa [errorLoop_length] at this
  have hc : tests[j]? = some tests[j] := List.getElem?_eq_getElem hjlt
  rw [errorLoop_getElem tests _ bot dev ntrials j _ hc] at hj
  simp only [Option.some.injEq] at hj
  subst hj
  dsimp only
  obtain ⟨k, rfl⟩ : ∃ k, ntrials = k + 1 := ⟨ntrials - 1, by omega⟩
  simp only [caseDevs, List.foldl_cons, hdevz, updBiggest_replicate, hbot, if_true]
  apply foldl_updBiggest_zero
  intro v hv
  obtain ⟨t, _, rfl⟩ := caseDevs_mem dev _ _ _ _ v hv
  exact hdevz _ _

theorem equivariant_function_passes (A : Geom G T X Irr) (dist : X → X → ℝ) (func : List X → List X)
    (kindsIn kindsOut : List (ArgKind Irr)) (args : List X) (ntrials : Nat) (doParity doTranslation : Bool)
    (bot tol : ℝ) (randRot : Nat → G) (randTr : Nat → T)
    (heq : ∀ g t, func (transform A kindsIn args g t) = transform A kindsOut (func args) g t)
    (hd : ∀ x, dist x x = 0) (hlen : (func args).length = kindsOut.length) (hbot : bot < 0) (hn : 1 ≤ ntrials)
    (hout : kindsOut ≠ []) (htol : 0 ≤ tol) :
    assertEquivariant tol (equivarianceError A dist func kindsIn kindsOut args ntrials doParity doTranslation
      bot randRot randTr) = .pass := by
  have hz := equivariant_reports_zero A dist func kindsIn kindsOut args ntrials doParity doTranslation bot
    randRot randTr heq hd hlen hbot hn
  have hpos : 0 < kindsOut.length := List.length_pos_iff.mpr hout
  rw [assert_equivariant_pass_iff]
  · intro cv hcv e he
    rw [hz cv hcv, List.mem_replicate] at he
    rw [he.2]; exact htol
  · intro cv hcv h
    rw [hz cv hcv] at h
    have := congrArg List.length h
    rw [List.length_replicate, List.length_nil] at this
    omega

/-- non-vacuity of B6/B7: a one-dimensional toy action (`g·x = g x + t`), the identity as function under test on a
`'cartesian_points'` argument: equivariant, hence it passes with every tolerance `≥ 0`, for every PRNG outcome -/
example (randRot randTr : Nat → ℝ) (ntrials : Nat) (hn : 1 ≤ ntrials) (x : ℝ) :
    assertEquivariant (0 : ℝ)
      (equivarianceError (⟨fun g a => g * a, fun a t => a + t, fun _ g a => g * a, fun k g => (-1) ^ k * g, 0⟩ : Geom ℝ ℝ ℝ Unit)
        (fun a b => |a - b|) id [.cartesian] [.cartesian] [x] ntrials true true (-1) randRot randTr) = .pass := by
  apply equivariant_function_passes
  · intro g t; rfl
  · intro a; simp
  · rfl
  · norm_num
  · exact hn
  · simp
  · exact le_rfl

/-- **B8** `rot_mat *= (-1)**k` on a proper 3×3 rotation has determinant `(-1)^k`: parity case 1 is improper -/
theorem det_parity_flip (R : Matrix (Fin 3) (Fin 3) ℝ) (hR : R.det = 1) (k : Nat) :
    (((-1 : ℝ) ^ k) • R).det = (-1) ^ k := by
  rw [Matrix.det_smul, hR, mul_one, Fintype.card_fin, ← pow_mul]
  rcases Nat.even_or_odd k with h | h
  · rw [Even.neg_one_pow h, Even.neg_one_pow (h.mul_right 3)]
  · rw [Odd.neg_one_pow h, Odd.neg_one_pow (h.mul (by decide))]

/-- with `do_parity` every trial draws a proper AND an improper element (and the reported errors bound the
deviation on both, by `reported_error_ge_each_draw`); without it only proper ones. `det` is any function
with the two stated properties — `det_parity_flip` shows the matrix determinant has them. -/
theorem proper_and_improper_drawn (A : Geom G T X Irr) (det : G → ℝ) (randRot : Nat → G)
    (hrot : ∀ i, det (randRot i) = 1) (hneg : ∀ k g, det (A.negPow k g) = (-1) ^ k * det g)
    (hasCart doTranslation : Bool) (t : Nat) :
    let tests := testCases true hasCart doTranslation
    ∃ j₀ j₁ c₀ c₁, tests[j₀]? = some c₀ ∧ tests[j₁]? = some c₁ ∧
      det (drawnRot A randRot (t * tests.length + j₀) c₀) = 1 ∧
      det (drawnRot A randRot (t * tests.length + j₁) c₁) = -1 := by
  intro tests
  have ht : tests = testCases true hasCart doTranslation := rfl
  rw [testCases_eq] at ht
  cases hb : (doTranslation && hasCart) with
  | false =>
    rw [hb] at ht
    refine ⟨0, 1, (0, false), (1, false), by simp [ht], by simp [ht], ?_, ?_⟩ <;>
      simp [drawnRot, hneg, hrot]
  | true =>
    rw [hb] at ht
    refine ⟨0, 2, (0, false), (1, false), by simp [ht], by simp [ht], ?_, ?_⟩ <;>
      simp [drawnRot, hneg, hrot]

theorem only_proper_without_parity (A : Geom G T X Irr) (det : G → ℝ) (randRot : Nat → G)
    (hrot : ∀ i, det (randRot i) = 1) (hneg : ∀ k g, det (A.negPow k g) = (-1) ^ k * det g)
    (hasCart doTranslation : Bool) (i : Nat) :
    ∀ c ∈ testCases false hasCart doTranslation, det (drawnRot A randRot i c) = 1 := by
  intro c hc
  obtain ⟨k, tr⟩ := c
  rw [testCases_mem] at hc
  have hk : k = 0 := by
    rcases hc.1 with h | h
    · exact h
    · simp at h
  subst hk
  simp [drawnRot, hneg, hrot]

/-- non-vacuity of the hypotheses of `proper_and_improper_drawn`: 3×3 real matrices, `negPow k R = (-1)^k • R` -/
example : ∃ (A : Geom (Matrix (Fin 3) (Fin 3) ℝ) Unit Unit Unit) (randRot : Nat → Matrix (Fin 3) (Fin 3) ℝ),
    (∀ i, (randRot i).det = 1) ∧ ∀ k g, (A.negPow k g).det = (-1) ^ k * g.det := by
  refine ⟨⟨fun _ x => x, fun x _ => x, fun _ _ x => x, fun k R => ((-1 : ℝ) ^ k) • R, ()⟩, fun _ => 1, by simp, ?_⟩
  intro k g
  rw [Matrix.det_smul, Fintype.card_fin, ← pow_mul]
  congr 1
  rcases Nat.even_or_odd k with h | h
  · rw [Even.neg_one_pow h, Even.neg_one_pow (h.mul_right 3)]
  · rw [Odd.neg_one_pow h, Odd.neg_one_pow (h.mul (by decide))]

end Equivariance

/-! ## C. random_irreps -/

theorem guards_iff (a : RIArgs) : a.guards = true ↔
    1 ≤ a.n ∧ 0 ≤ a.lmax ∧ 0 ≤ a.mulMin ∧ a.mulMin ≤ a.mulMax ∧ 0 ≤ a.lenMin' ∧ a.lenMin' ≤ a.lenMax := by
  simp [RIArgs.guards, and_assoc]

/-- the effective lower length bound: `len_min`, raised to 1 when empty irreps are not allowed -/
theorem lenMin'_spec (a : RIArgs) : a.lenMin ≤ a.lenMin' ∧ (a.allowEmpty = false → 0 ≤ a.lenMin' → 1 ≤ a.lenMin') := by
  unfold RIArgs.lenMin'
  constructor
  · split
    · rename_i h; simp at h; omega
    · omega
  · intro hae h0
    split
    · omega
    · rename_i h
      simp only [hae, Bool.not_false, Bool.true_and, beq_iff_eq] at h
      rw [if_neg (by simpa [hae] using h)] at h0
      omega

theorem patchEmpty_spec (a : RIArgs) (hg : a.guards = true) (o : Nat → Nat) (i : Nat) (es es' : List MulIr) (i' : Nat)
    (h : patchEmpty a o i es = some (es', i')) (hes : ∀ e ∈ es, EntryOk a e) :
    es'.length = es.length ∧ (∀ e ∈ es', EntryOk a e) ∧ (a.allowEmpty = false → es ≠ [] → ∃ e ∈ es', 0 < e.1) := by
  obtain ⟨_, _, hmin, _, _, _⟩ := (guards_iff a).mp hg
  unfold patchEmpty at h
  split at h
  · rename_i hcond
    simp only [Bool.and_eq_true, Bool.not_eq_true', List.all_eq_true, beq_iff_eq] at hcond
    obtain ⟨_, hzero⟩ := hcond
    split at h
    · rename_i m hm
      simp only [Option.some.injEq, Prod.mk.injEq] at h
      obtain ⟨rfl, rfl⟩ := h
      have hb := randint_bounds hm
      refine ⟨setLastMul_length m es, ?_, ?_⟩
      · intro e he
        rcases setLastMul_mem m es e he with h | ⟨h1, e', he', h2⟩
        · exact hes e h
        · have hz := hzero e' he'
          obtain ⟨q1, q2, q3, q4, q5⟩ := hes e' he'
          unfold EntryOk
          rw [h1, h2]
          exact ⟨by omega, by omega, q3, q4, q5⟩
      · intro _ hne
        obtain ⟨e, he, hm'⟩ := setLastMul_has m es hne
        exact ⟨e, he, by omega⟩
    · simp at h
  · rename_i hcond
    simp only [Option.some.injEq, Prod.mk.injEq] at h
    obtain ⟨rfl, rfl⟩ := h
    refine ⟨rfl, hes, ?_⟩
    intro hae _
    simp only [hae, Bool.not_false, Bool.true_and, List.all_eq_true, beq_iff_eq, not_forall] at hcond
    obtain ⟨e, he, hne⟩ := hcond
    have := (hes e he).1
    exact ⟨e, he, by omega⟩

/-- every output of `genOne` honours all bounds -/
def IrrepsOk (a : RIArgs) (p : List MulIr × OutType) : Prop :=
  a.lenMin' ≤ p.1.length ∧ (p.1.length : Int) ≤ a.lenMax ∧ (∀ e ∈ p.1, EntryOk a e) ∧
    (a.allowEmpty = false → ∃ e ∈ p.1, 0 < e.1) ∧ (a.clean = true → p.2 = .irreps)

theorem genOne_spec (a : RIArgs) (hg : a.guards = true) (o : Nat → Nat) (i : Nat) (es : List MulIr) (ty : OutType) (i' : Nat)
    (h : genOne a o i = .ok (es, ty, i')) : IrrepsOk a (es, ty) := by
  have hg' := (guards_iff a).mp hg
  unfold genOne at h
  split at h
  · simp at h
  · rename_i len hlen
    have hb := randint_bounds hlen
    split at h
    · simp at h
    · rename_i es0 hes0
      obtain ⟨hl0, hall0⟩ := genEntries_spec a o _ _ _ hes0
      split at h
      · simp at h
      · rename_i es1 i1 hp
        simp only [Except.ok.injEq, Prod.mk.injEq] at h
        obtain ⟨rfl, rfl, rfl⟩ := h
        obtain ⟨p1, p2, p3⟩ := patchEmpty_spec a hg o _ es0 _ _ hp hall0
        have hlen1 : (es1.length : Int) = len := by rw [p1, hl0]; omega
        refine ⟨by dsimp only; omega, by dsimp only; omega, p2, ?_, ?_⟩
        · intro hae
          apply p3 hae
          have := (lenMin'_spec a).2 hae hg'.2.2.2.2.1
          intro hnil
          rw [hnil] at hl0
          simp at hl0
          omega
        · intro hc
          simp [pickType, hc]

theorem genMany_spec (a : RIArgs) (hg : a.guards = true) (o : Nat → Nat) : ∀ (k i : Nat) (out : List (List MulIr × OutType)),
    genMany a o k i = .ok out → out.length = k ∧ ∀ p ∈ out, IrrepsOk a p := by
  intro k
  induction k with
  | zero => intro i out h; simp [genMany] at h; subst h; simp
  | succ k ih =>
    intro i out h
    simp only [genMany] at h
    split at h
    · simp at h
    · rename_i es ty i' h1
      split at h
      · simp at h
      · rename_i rest h2
        simp only [Except.ok.injEq] at h
        subst h
        obtain ⟨hl, hall⟩ := ih i' rest h2
        refine ⟨by simp [hl], ?_⟩
        intro p hp
        rcases List.mem_cons.mp hp with rfl | hp
        · exact genOne_spec a hg o i es ty i' h1
        · exact hall p hp

/-- **C1** `random_irreps` honours its bounds for ALL outcomes of the PRNG: whenever it returns, it returns
`n` irreps, each with `len_min' ≤ len ≤ len_max` entries, each entry with `mul_min ≤ mul ≤ mul_max`,
`0 ≤ l ≤ lmax`, `p = ±1`; not empty (some `mul > 0`) unless `allow_empty`; only `Irreps` objects if `clean`. -/
theorem randomIrreps_bounds (a : RIArgs) (o : Nat → Nat) (out : List (List MulIr × OutType))
    (h : randomIrreps a o = .ok out) : (out.length : Int) = a.n ∧ ∀ p ∈ out, IrrepsOk a p := by
  unfold randomIrreps at h
  split at h
  · rename_i hg
    obtain ⟨hl, hall⟩ := genMany_spec a hg o _ _ _ h
    have := ((guards_iff a).mp hg).1
    exact ⟨by rw [hl]; omega, hall⟩
  · simp at h

theorem patchEmpty_isSome (a : RIArgs) (o : Nat → Nat) (i : Nat) (es : List MulIr)
    (h : a.allowEmpty = true ∨ 1 ≤ a.mulMax) : ∃ r, patchEmpty a o i es = some r := by
  unfold patchEmpty
  split
  · rename_i hcond
    simp only [Bool.and_eq_true, Bool.not_eq_true'] at hcond
    have h1 : 1 ≤ a.mulMax := by
      rcases h with h | h
      · rw [h] at hcond; simp at hcond
      · exact h
    obtain ⟨m, hm⟩ := randint_isSome o i h1
    rw [hm]; exact ⟨_, rfl⟩
  · exact ⟨_, rfl⟩

theorem genOne_total (a : RIArgs) (hg : a.guards = true) (h : a.allowEmpty = true ∨ 1 ≤ a.mulMax)
    (o : Nat → Nat) (i : Nat) : ∃ r, genOne a o i = .ok r := by
  obtain ⟨_, hl, _, hm, _, hlen⟩ := (guards_iff a).mp hg
  obtain ⟨len, hlen'⟩ := randint_isSome o i hlen
  obtain ⟨es, hes⟩ := genEntries_isSome a o hm hl len.toNat (i + 1)
  obtain ⟨⟨es', i'⟩, hp⟩ := patchEmpty_isSome a o (i + 1 + 3 * len.toNat) es h
  exact ⟨(es', (pickType a o i').1, (pickType a o i').2), by simp only [genOne, hlen', hes, hp]⟩

theorem genMany_total (a : RIArgs) (hg : a.guards = true) (h : a.allowEmpty = true ∨ 1 ≤ a.mulMax)
    (o : Nat → Nat) : ∀ k i, ∃ out, genMany a o k i = .ok out := by
  intro k
  induction k with
  | zero => intro i; exact ⟨[], rfl⟩
  | succ k ih =>
    intro i
    obtain ⟨⟨es, ty, i'⟩, h1⟩ := genOne_total a hg h o i
    obtain ⟨rest, h2⟩ := ih i'
    exact ⟨(es, ty) :: rest, by simp only [genMany, h1, h2]⟩

theorem genOne_fails (a : RIArgs) (hg : a.guards = true) (hae : a.allowEmpty = false) (hmax : a.mulMax = 0)
    (o : Nat → Nat) (i : Nat) : genOne a o i = .error .valueError := by
  obtain ⟨_, hl, hmin, hm, _, hlen⟩ := (guards_iff a).mp hg
  obtain ⟨len, hlen'⟩ := randint_isSome o i hlen
  obtain ⟨es, hes⟩ := genEntries_isSome a o hm hl len.toNat (i + 1)
  obtain ⟨_, hall⟩ := genEntries_spec a o _ _ _ hes
  have hz : es.all (fun e => e.1 == 0) = true := by
    rw [List.all_eq_true]
    intro e he
    obtain ⟨q1, q2, _⟩ := hall e he
    simp only [beq_iff_eq]; omega
  have hp : patchEmpty a o (i + 1 + 3 * len.toNat) es = none := by
    simp only [patchEmpty, hae, hz, Bool.not_false, Bool.and_self, if_true]
    rw [randint_none (by omega)]
  simp only [genOne, hlen', hes, hp]

/-- **C2** which arguments are rejected, for ALL PRNG outcomes: AssertionError iff a guard of lines 95-103
fails; otherwise ValueError (`randint(1, 0)`) iff `allow_empty=False` and `mul_max = 0`; otherwise it returns. -/
theorem randomIrreps_outcome (a : RIArgs) (o : Nat → Nat) :
    (a.guards = false → randomIrreps a o = .error .assertion) ∧
    (a.guards = true → a.allowEmpty = false → a.mulMax = 0 → randomIrreps a o = .error .valueError) ∧
    (a.guards = true → (a.allowEmpty = true ∨ 1 ≤ a.mulMax) → ∃ out, randomIrreps a o = .ok out) := by
  refine ⟨?_, ?_, ?_⟩
  · intro h; simp [randomIrreps, h]
  · intro hg hae hmax
    have hn := ((guards_iff a).mp hg).1
    obtain ⟨k, hk⟩ : ∃ k, a.n.toNat = k + 1 := ⟨a.n.toNat - 1, by omega⟩
    simp only [randomIrreps, hg, if_true, hk, genMany, genOne_fails a hg hae hmax]
  · intro hg h
    simp only [randomIrreps, hg, if_true]
    exact genMany_total a hg h o _ _

/-- non-vacuity: the default arguments with `allow_empty=False`, an arbitrary PRNG -/
example (o : Nat → Nat) : ∃ out, randomIrreps ⟨3, 4, 0, 5, 0, 4, false, false⟩ o = .ok out ∧
    out.length = 3 ∧ ∀ p ∈ out, ∃ e ∈ p.1, 0 < e.1 := by
  obtain ⟨out, h⟩ := (randomIrreps_outcome ⟨3, 4, 0, 5, 0, 4, false, false⟩ o).2.2 (by decide) (Or.inr (by decide))
  obtain ⟨h1, h2⟩ := randomIrreps_bounds _ o out h
  have h3 : (out.length : Int) = 3 := h1
  exact ⟨out, h, by omega, fun p hp => (h2 p hp).2.2.2.1 rfl⟩

example (o : Nat → Nat) : randomIrreps ⟨1, 4, 0, 0, 0, 4, false, false⟩ o = .error .valueError :=
  (randomIrreps_outcome _ o).2.1 (by decide) rfl rfl

/-! ## D. _get_io_irreps -/

/-- explicitly given specs are never overridden by attributes of the function, and inference fails
(ValueError) exactly when a spec is absent and the function has no matching attribute. -/
theorem getIOIrreps_none_iff (gi go : IOSpec) (ai : Option IOSpec) (h12 : Bool) (ao : Option IOSpec) :
    getIOIrreps gi go ai h12 ao = none ↔
      (gi = .absent ∧ ai = none ∧ h12 = false) ∨ (go = .absent ∧ ao = none) := by
  cases gi <;> cases go <;> cases ai <;> cases ao <;> cases h12 <;> simp [getIOIrreps, inferSpec]

theorem getIOIrreps_explicit (gi go : IOSpec) (hi : gi ≠ .absent) (ho : go ≠ .absent)
    (ai : Option IOSpec) (h12 : Bool) (ao : Option IOSpec) :
    getIOIrreps gi go ai h12 ao = some ((normalizeSpec gi).1, (normalizeSpec go).1, (normalizeSpec gi).2) := by
  cases gi <;> cases go <;> simp_all [getIOIrreps, inferSpec]

/-- the special values survive normalisation: a list is taken element by element (so `'cartesian_points'`
and `None` entries are kept), a single special value becomes a one-element list -/
theorem normalizeSpec_special :
    (normalizeSpec .cartesian).1 = [.cartesian] ∧ ∀ es, (normalizeSpec (.list es)).1 = es := ⟨rfl, fun _ => rfl⟩

/-- tensor-product-like modules: `irreps_in1`/`irreps_in2` give two inputs -/
example : getIOIrreps .absent .absent none true (some .irrepsObj) = some ([.irreps, .irreps], [.irreps], false) := rfl

end E3nnVerif.Props.C20
