import E3nnVerif.Props.C11Leg
import E3nnVerif.Sound.AngChecks
import E3nnVerif.Cert.SH.Base
import E3nnVerif.Cert.Ang.L0
import E3nnVerif.Cert.Ang.L1
import E3nnVerif.Cert.Ang.L2
import E3nnVerif.Cert.Ang.L3
import E3nnVerif.Cert.Ang.L4
import E3nnVerif.Cert.Ang.L5
import E3nnVerif.Cert.Ang.L6
import E3nnVerif.Cert.Ang.L7
import E3nnVerif.Cert.Ang.L8
/-
C11 (and the angular-form clause of C05, the grid clause of C18) — the angular form IS the Cartesian form.

Two objects regenerated from /repo on every run meet here: the polynomials of `_spherical_harmonics` (translator T2,
`Generated/SH.lean`) and the Legendre table of `o3.Legendre` (translator T5, `Generated/Legendre.lean`).  The kernel decides
(`Cert/Ang`, `decide +kernel`, per degree and component) that after the substitution `angles_to_xyz` both are the same
polynomial in `cos β, sin β, cos α, sin α` modulo `sin² + cos² = 1`; `Sound/AngChecks.lean` turns that into the statement for ALL
angles.  Consequently `ToS2Grid` returns the values of the band-limited signal `Σ F_{l,k} Y_{l,k}` at exactly the documented grid
points, with `Y` the spherical harmonics the source computes (degrees ≤ 8 in the default build; `Props/C11AngExt.lean`: ≤ 11).
-/
namespace E3nnVerif.Props.C11
open E3nnVerif E3nnVerif.S2Grid E3nnVerif.Legendre E3nnVerif.Generated E3nnVerif.Ang Finset
open E3nnVerif.Model.SH E3nnVerif.IR E3nnVerif.Generated.SH

theorem sqrt_four_pi : Real.sqrt (4 * Real.pi) = 2 * Real.sqrt Real.pi := by
  rw [show (4 : ℝ) * Real.pi = 2 ^ 2 * Real.pi by norm_num, Real.sqrt_mul (by positivity), Real.sqrt_sq (by norm_num)]

/-- generic form: from the certificate of degree `l` -/
theorem sh_angular_form_of_check (l k : ℕ) (h : angCheck (select (evalProg prog) index) legTable l = true)
    (hk : k ≤ 2 * l) (α β : ℝ) :
    realSH prog index l k (anglesToXyz α β)
      = Real.sqrt (4 * Real.pi)
        * ((shaEntry l α k : ℝ) * rowEval (Real.cos β) (Real.sin β) (legTable.getD (l ^ 2 + k) [])) := by
  rw [angCheck1_sound prog index Cert.SH.wf legTable l k (angCheck_spec _ _ l k h hk) α β, sqrt_four_pi]
  have : rowEval (Real.cos β) (Real.sin β) (legTable.getD (l ^ 2 + k) [])
      = rowSum (Real.cos β) (Real.sin β) (legTable.getD (l ^ 2 + k) []) / Real.sqrt Real.pi := rfl
  rw [this]
  have hpi : Real.sqrt Real.pi ≠ 0 := (Real.sqrt_pos.mpr Real.pi_pos).ne'
  field_simp

theorem ang_le8 (l : ℕ) (hl : l ≤ 8) : angCheck (select (evalProg prog) index) legTable l = true := by
  interval_cases l
  · exact Cert.Ang.ang_0
  · exact Cert.Ang.ang_1
  · exact Cert.Ang.ang_2
  · exact Cert.Ang.ang_3
  · exact Cert.Ang.ang_4
  · exact Cert.Ang.ang_5
  · exact Cert.Ang.ang_6
  · exact Cert.Ang.ang_7
  · exact Cert.Ang.ang_8

/-- **The angular form equals the Cartesian form**, all angles: what the source `_spherical_harmonics` computes
('component' normalisation) at the point `angles_to_xyz(α, β) = (sin β sin α, cos β, sin β cos α)` is
`√(4π) · spherical_harmonics_alpha(l, α)[k] · Legendre(l)(cos β, sin β)[k]` — the formula behind
`spherical_harmonics_alpha_beta`, `spherical_harmonics_s2_grid` and `SphericalTensor.signal_on_grid`.  Note `sin β`, NOT `|sin β|`:
for `β ∉ [0, π]` the odd orders change sign with it. -/
theorem sh_angular_form (l k : ℕ) (hl : l ≤ 8) (hk : k ≤ 2 * l) (α β : ℝ) :
    realSH prog index l k (anglesToXyz α β)
      = Real.sqrt (4 * Real.pi)
        * ((shaEntry l α k : ℝ) * rowEval (Real.cos β) (Real.sin β) (legTable.getD (l ^ 2 + k) [])) :=
  sh_angular_form_of_check l k (ang_le8 l hl) hk α β
example : (3 : ℕ) ≤ 8 ∧ 5 ≤ 2 * 3 := by omega

/-- **`spherical_harmonics_alpha_beta` is the Cartesian `spherical_harmonics` of `angles_to_xyz(α, β)`**, model level: for the
three normalisations, all angles (also `β ∉ [0, π]`), degrees ≤ 8 -/
theorem shAlphaBeta_eq_cartesian (l k : ℕ) (hl : l ≤ 8) (hk : k ≤ 2 * l) (α β : ℝ) :
    (shAlphaBeta legTable .component l k α β : ℝ) = realSH prog index l k (anglesToXyz α β) ∧
    (shAlphaBeta legTable .integral l k α β : ℝ) = realSH prog index l k (anglesToXyz α β) / Real.sqrt (4 * Real.pi) ∧
    (shAlphaBeta legTable .norm l k α β : ℝ) = realSH prog index l k (anglesToXyz α β) / Real.sqrt (2 * l + 1) := by
  have h := sh_angular_form l k hl hk α β
  have h4 : Real.sqrt (4 * Real.pi) ≠ 0 := (Real.sqrt_pos.mpr (by positivity)).ne'
  have hl0 : Real.sqrt (2 * (l : ℝ) + 1) ≠ 0 := (Real.sqrt_pos.mpr (by positivity)).ne'
  refine ⟨?_, ?_, ?_⟩
  · rw [h]; simp only [shAlphaBeta, Scalar.sqrt_real, Scalar.ofNat_real, Scalar.pi_real, Scalar.cos_real, Scalar.sin_real]
    push_cast; ring
  · rw [h, mul_div_cancel_left₀ _ h4]; simp only [shAlphaBeta, Scalar.cos_real, Scalar.sin_real]
  · rw [h]; simp only [shAlphaBeta, Scalar.sqrt_real, Scalar.ofNat_real, Scalar.pi_real, Scalar.cos_real, Scalar.sin_real]
    push_cast
    field_simp

theorem sin_betas_pos (N j : ℕ) (hj : j < N) : 0 < Real.sin (betas N j : ℝ) := by
  have hN : (0 : ℝ) < N := by exact_mod_cast (by omega : 0 < N)
  have hβ0 : 0 < (betas N j : ℝ) := by rw [betas_real]; positivity
  have hβ1 : (betas N j : ℝ) < Real.pi := by
    rw [betas_real, div_lt_iff₀ hN]
    have : ((j : ℝ) + 1 / 2) < N := by
      have : (j : ℝ) + 1 ≤ N := by exact_mod_cast hj
      linarith
    nlinarith [Real.pi_pos]
  exact Real.sin_pos_of_pos_of_lt_pi hβ0 hβ1

/-- the documented grid point `ToS2Grid.grid[j, a]` as a vector -/
noncomputable def gridVec (N M j a : ℕ) : Fin 3 → ℝ :=
  ![(gridPoint (K := ℝ) N M j a).1, (gridPoint (K := ℝ) N M j a).2.1, (gridPoint (K := ℝ) N M j a).2.2]

theorem gridVec_eq (N M j a : ℕ) : gridVec N M j a = anglesToXyz (alphas M a) (betas N j) := by
  simp [gridVec, gridPoint, anglesToXyz]

/-- on the grid the Legendre factor of the model (`|sin β_j|`, as in `spherical_harmonics_s2_grid`) times `sha` is the
spherical harmonic of the grid point -/
theorem sha_mul_legendreGrid_of_check (N M j a l k : ℕ) (hj : j < N)
    (hc : angCheck (select (evalProg prog) index) legTable l = true) (hk : k ≤ 2 * l) :
    (shaEntry l (alphas M a : ℝ) k : ℝ) * legendreGrid legTable N j (l ^ 2 + k)
      = realSH prog index l k (gridVec N M j a) / Real.sqrt (4 * Real.pi) := by
  have h4 : Real.sqrt (4 * Real.pi) ≠ 0 := (Real.sqrt_pos.mpr (by positivity)).ne'
  rw [gridVec_eq, sh_angular_form_of_check l k hc hk, mul_div_cancel_left₀ _ h4]
  have : (legendreGrid legTable N j (l ^ 2 + k) : ℝ)
      = rowEval (Real.cos (betas N j)) (Real.sin (betas N j)) (legTable.getD (l ^ 2 + k) []) := by
    rw [legendreGrid_real, abs_of_pos (sin_betas_pos N j hj)]; rfl
  rw [this]

theorem sha_mul_legendreGrid (N M j a l k : ℕ) (hj : j < N) (hl : l ≤ 8) (hk : k ≤ 2 * l) :
    (shaEntry l (alphas M a : ℝ) k : ℝ) * legendreGrid legTable N j (l ^ 2 + k)
      = realSH prog index l k (gridVec N M j a) / Real.sqrt (4 * Real.pi) :=
  sha_mul_legendreGrid_of_check N M j a l k hj (ang_le8 l hl) hk

/-- generic form: from the certificates of the degrees `≤ lmax` -/
theorem toS2Grid_evaluates_signal_of_check (lmax N M : ℕ) (n : ℕ → ℝ) (F : ℕ → ℝ)
    (hc : ∀ l, l ≤ lmax → angCheck (select (evalProg prog) index) legTable l = true) :
    ∃ g, toS2Grid lmax M n (fun j i => (legendreGrid legTable N j i : ℝ)) F = .ok g ∧
      ∀ j a, j < N → g j a =
        ∑ l ∈ range (lmax + 1), ∑ k ∈ range (2 * l + 1),
          n l * F (l ^ 2 + k) * (realSH prog index l k (gridVec N M j a) / Real.sqrt (4 * Real.pi)) := by
  obtain ⟨g, hg, hval⟩ := toS2Grid_direct_evaluation lmax M n (fun j i => (legendreGrid legTable N j i : ℝ)) F
  refine ⟨g, hg, fun j a hj => ?_⟩
  rw [hval j a]
  refine Finset.sum_congr rfl fun l hl' => Finset.sum_congr rfl fun k hk => ?_
  have h1 : l ≤ lmax := by have := Finset.mem_range.mp hl'; omega
  have h2 : k ≤ 2 * l := by have := Finset.mem_range.mp hk; omega
  rw [sha_mul_legendreGrid_of_check N M j a l k hj (hc l h1) h2]

/-- **`ToS2Grid` evaluates the band-limited signal at exactly the documented grid points**: for every `lmax ≤ 8`, every
resolution `(N, M)`, all constants `n` and coefficients `F`,
`ToS2Grid(lmax, (N, M), n)(F)[j, a] = Σ_l n_l Σ_k F_{l,k} · Y_{l,k}(x_{j,a}) / √(4π)`, where `Y_{l,k}` is what the source
`_spherical_harmonics` computes ('component'; `/√(4π)` = 'integral') and `x_{j,a} = ToS2Grid.grid[j, a]` -/
theorem toS2Grid_evaluates_signal (lmax N M : ℕ) (n : ℕ → ℝ) (F : ℕ → ℝ) (hl : lmax ≤ 8) :
    ∃ g, toS2Grid lmax M n (fun j i => (legendreGrid legTable N j i : ℝ)) F = .ok g ∧
      ∀ j a, j < N → g j a =
        ∑ l ∈ range (lmax + 1), ∑ k ∈ range (2 * l + 1),
          n l * F (l ^ 2 + k) * (realSH prog index l k (gridVec N M j a) / Real.sqrt (4 * Real.pi)) :=
  toS2Grid_evaluates_signal_of_check lmax N M n F fun l h => ang_le8 l (by omega)
example : (8 : ℕ) ≤ 8 := le_refl _

end E3nnVerif.Props.C11
