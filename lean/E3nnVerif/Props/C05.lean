import E3nnVerif.Sound.SHChecks
import E3nnVerif.Props.C04
/-
C05 — spherical harmonics: homogeneous, parity, norm (Unsöld), equivariance under all rotations.

`realSH prog index l m x` is the value of `sh_l_m` that the *translated Python source* computes over ℝ
(`Sound/SExpr.lean`), so every statement here is about `_spherical_harmonics` as it is written in /repo now:
the translator regenerates `Generated/SH.lean` on every run, and the hypotheses (`…Check … = true`) are
re-decided by the kernel in `Cert/SH*.lean`.

Rotations act on `x ∈ ℝ³` by `wignerD 1 α β γ` — which is the 3×3 rotation matrix `angles_to_matrix α β γ`
itself (property C03, `Props/C03.lean`) — and on `Y^l` by `wignerD l α β γ`.
-/
namespace E3nnVerif.Props.C05
open E3nnVerif.Model.SH E3nnVerif.Model.Wigner E3nnVerif.Theory E3nnVerif.Exact E3nnVerif.IR
open E3nnVerif.Props.C04
open Matrix
open scoped BigOperators

variable (prog : List SExpr) (index : List (List ℕ))

/-- `Y^l(x)` as a vector -/
noncomputable def shVec (l : ℕ) (x : Fin 3 → ℝ) : Fin (2 * l + 1) → ℝ := fun m => realSH prog index l m x

local notation "Ysym" => select (evalProg prog) index

/-- **homogeneous of degree l** -/
theorem sh_homogeneous (hwf : wfProg prog = true) (l : ℕ) (h : homogCheck Ysym l = true) (t : ℝ) (x : Fin 3 → ℝ) :
    shVec prog index l (t • x) = t ^ l • shVec prog index l x := by
  funext m; simp [shVec, homog_of_check prog index hwf l h m t x]

/-- **parity** `Y^l(-x) = (-1)^l Y^l(x)` -/
theorem sh_parity (hwf : wfProg prog = true) (l : ℕ) (h : homogCheck Ysym l = true) (x : Fin 3 → ℝ) :
    shVec prog index l (-x) = (-1 : ℝ) ^ l • shVec prog index l x := by
  have := sh_homogeneous prog index hwf l h (-1) x
  simpa using this

/-- **component normalisation**: `‖Y^l(x)‖² = (2l+1)·|x|^{2l}`, in particular `2l+1` on the unit sphere -/
theorem sh_norm_component (hwf : wfProg prog = true) (l : ℕ) (hh : homogCheck Ysym l = true)
    (h : unsoldCheck Ysym l = true) (x : Fin 3 → ℝ) :
    ∑ m, (shVec prog index l x m) ^ 2 = (2 * l + 1 : ℝ) * (x 0 ^ 2 + x 1 ^ 2 + x 2 ^ 2) ^ l := by
  rw [← unsold_of_check prog index hwf l hh h x]
  exact Fin.sum_univ_eq_sum_range (fun m => (realSH prog index l m x) ^ 2) (2 * l + 1)

/-- `'norm'`: `component / √(2l+1)` has unit norm on the sphere; `'integral'`: `component / √(4π)` has squared
    norm `(2l+1)/(4π)` -/
theorem sh_norm_variants (hwf : wfProg prog = true) (l : ℕ) (hh : homogCheck Ysym l = true)
    (h : unsoldCheck Ysym l = true) (x : Fin 3 → ℝ) (hx : x 0 ^ 2 + x 1 ^ 2 + x 2 ^ 2 = 1) :
    (∑ m, (shVec prog index l x m / Real.sqrt (2 * l + 1)) ^ 2 = 1) ∧
    (∑ m, (shVec prog index l x m / Real.sqrt (4 * Real.pi)) ^ 2 = (2 * l + 1 : ℝ) / (4 * Real.pi)) := by
  have hc := sh_norm_component prog index hwf l hh h x
  rw [hx, one_pow, mul_one] at hc
  have hpos : (0 : ℝ) < 2 * l + 1 := by positivity
  have hpi : (0 : ℝ) < 4 * Real.pi := by positivity
  constructor
  · simp only [div_pow, Real.sq_sqrt hpos.le, ← Finset.sum_div, hc]
    exact div_self hpos.ne'
  · simp only [div_pow, Real.sq_sqrt hpi.le, ← Finset.sum_div, hc]

/-- recurrence in vector form -/
theorem sh_recurrence (hwf : wfProg prog = true) (l : ℕ) (h : recurrenceCheck Ysym l = true) (x : Fin 3 → ℝ) :
    shVec prog index (l + 1) x
      = (recConst l).eval • bil (w3jR l 1 (l + 1)) (shVec prog index l x) (shVec prog index 1 x) := by
  funext k
  simp only [shVec, Pi.smul_apply, smul_eq_mul, bil, w3jR, T3.toReal]
  rw [recurrence_of_check prog index hwf l h x k k.2]
  congr 1
  rw [← Fin.sum_univ_eq_sum_range (fun i => ∑ j ∈ Finset.range 3,
      ((w3j l 1 (l + 1)).get i j k).eval * realSH prog index l i x * realSH prog index 1 j x) (2 * l + 1)]
  apply Finset.sum_congr rfl; intro i _
  exact (Fin.sum_univ_eq_sum_range (fun j =>
      ((w3j l 1 (l + 1)).get i j k).eval * realSH prog index l i x * realSH prog index 1 j x) 3).symm

/-- the statement "`Y^l` intertwines the rotation `(α,β,γ)` on ℝ³ with `wignerD l`" -/
def Equivariant (l : ℕ) : Prop :=
  ∀ (α β γ : ℝ) (x : Fin 3 → ℝ),
    shVec prog index l (wignerD 1 α β γ *ᵥ x) = wignerD l α β γ *ᵥ shVec prog index l x

/-- induction step: equivariance of `Y^l` and `Y^1` gives equivariance of `Y^{l+1}` -/
theorem equivariant_step (hwf : wfProg prog = true) (l : ℕ) (hrec : recurrenceCheck Ysym l = true)
    (hw : w3jCert l 1 (l + 1) = true) (ihl : Equivariant prog index l) (ih1 : Equivariant prog index 1) :
    Equivariant prog index (l + 1) := by
  intro α β γ x
  rw [sh_recurrence prog index hwf l hrec, sh_recurrence prog index hwf l hrec, ihl α β γ x, ih1 α β γ x,
    w3j_equivariant hw α β γ, Matrix.mulVec_smul]

/-- `Y^1 = √3·x` is equivariant -/
theorem equivariant_one (hwf : wfProg prog = true) (hb : baseCheck Ysym = true) : Equivariant prog index 1 := by
  intro α β γ x
  have h1 : ∀ y : Fin 3 → ℝ, shVec prog index 1 y = Real.sqrt 3 • y := by
    intro y; funext k; exact (base_of_check prog index hwf hb y).2 k
  rw [h1, h1, Matrix.mulVec_smul]

/-- a skew 1×1 matrix is 0, so `wignerD 0 = 1` -/
theorem wignerD_zero_degree (hg : genCert 0 = true) (α β γ : ℝ) : wignerD 0 α β γ = 1 := by
  have hz : ∀ a < 3, genR 0 a = 0 := by
    intro a ha
    have hs := genCert_skew hg a ha
    ext i j
    have hij : i = j := by apply Fin.ext; have := i.2; have := j.2; omega
    subst hij
    have := congrFun (congrFun hs i) i
    simp only [Matrix.transpose_apply, Matrix.neg_apply] at this
    simp only [Matrix.zero_apply]; linarith
  simp [wignerD, eulerD, hz 0 (by omega), hz 1 (by omega), expM_zero]

theorem equivariant_zero (hwf : wfProg prog = true) (hb : baseCheck Ysym = true) (hg : genCert 0 = true) :
    Equivariant prog index 0 := by
  intro α β γ x
  rw [wignerD_zero_degree hg, Matrix.one_mulVec]
  funext k
  have hk : k = 0 := by apply Fin.ext; have := k.2; simp
  subst hk
  simp [shVec, (base_of_check prog index hwf hb _).1]

end E3nnVerif.Props.C05
