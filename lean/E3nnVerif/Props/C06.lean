/-
Property C06 — Irreps bookkeeping is a faithful algebra of representations.

Model: E3nnVerif/Model/Irreps.lean (mirrors e3nn/o3/_irreps.py line by line; tied to the real code by the
exact correspondence stream of harness/c06.py).  Every theorem below quantifies over ALL values of the model:
`Irreps = List (Nat × Irrep)` of any length (incl. empty), any multiplicities (incl. 0), any `l`, both parities,
repeated and unsorted entries.  No theorem is proved by enumeration.

About "the representation matrix of the result is the original one conjugated by the block permutation":
`Irreps.D_from_angles` (l.668) is `direct_sum(*[ir.D(...) for mul, ir in self for _ in range(mul)])`, i.e. the
block-diagonal matrix whose diagonal blocks are `D^{ir}` for `ir` running through `blocks x` in order.  Hence
  * `blocks y = blocks x`  (simplify, remove_zero_multiplicities)  ⇒  the two matrices are identical,
  * `blocks y = inv.flatMap (blocks of entry j of x)`  (sort)  ⇒  the matrix of `y` is the matrix of `x` with its
    diagonal blocks permuted as the entries are, i.e. `P D_x Pᵀ` for the block permutation matrix `P` that moves
    entry `i` of `x` to position `p[i]`.
These statements are made here at the level of block lists; the link "matrix = direct sum over `blocks`" (and
`wigner_D` itself) is property C03's.  The harness checks the matrix identities numerically on the real code.
-/
import E3nnVerif.Theory.IrrepsString
import E3nnVerif.Theory.IrrepsBook
import E3nnVerif.Theory.IrrepsSort
import E3nnVerif.Theory.IrrepProduct

open E3nnVerif.Model.Irreps E3nnVerif.Theory.Irreps

namespace E3nnVerif.Props.C06

/-! ## 1. printing and parsing -/

/-- `Irreps(repr(x)) == x` for every `x`. -/
theorem parse_print (x : Irreps) : parseIrreps (printIrreps x) = .ok x :=
  parseIrreps_printIrreps x

/-- consequently `repr` is injective: different values never print alike -/
theorem print_injective (x y : Irreps) (h : printIrreps x = printIrreps y) : x = y := by
  have hx := parse_print x
  rw [h, parse_print y] at hx
  exact (Except.ok.inj hx).symm

/-- `Irrep(repr(ir)) == ir` -/
theorem parseIrrep_print (ir : Irrep) : parseIrrep (printIrrep ir) = .ok ir :=
  parseIrrep_printIrrep ir

/-- `getattr(e3nn.o3.irrep, "l" + repr(ir)) == ir` -/
theorem lookup_print (ir : Irrep) : lookup ('l' :: printIrrep ir) = .ok ir := by
  obtain ⟨d, r, _, h⟩ := natStr_head ir.l
  have hne : printIrrep ir ≠ [] := by simp [printIrrep]
  simp [lookup, hne, parseIrrep_printIrrep]

/-- `int(str(n)) == n` for the decimal layer the parser relies on -/
theorem int_of_decimal (n : Nat) : pyInt (natStr n) = some (n : Int) := pyInt_natStr n

/-- Every tolerated textual spelling denotes the same value: pieces joined by `+`, each piece either
`<blanks>mul<blanks>x<spaces>l<letter><spaces>` or (implicit multiplicity 1) `<spaces>l<letter><spaces>`, the letter
being `e`, `o` or `y` (= parity `(-1)^l`); blanks around `mul` are what `int()` skips, spaces around the irrep
are what `str.strip()` removes.  (Leading zeros, `_` separators, non-ASCII digits and `-0` are also accepted by
the code and the model; they are covered by the correspondence stream only.) -/
theorem parse_spellings {pieces : List Str} {x : Irreps} (hne : pieces ≠ [])
    (h : List.Forall₂ SpellsStr pieces x) : parseIrreps (List.intercalate ['+'] pieces) = .ok x :=
  parseIrreps_spellings hne h

/-- the empty / all-whitespace string is the empty Irreps -/
theorem parse_blank (s : Str) (h : ∀ c ∈ s, isSpace c = true) : parseIrreps s = .ok [] := by
  have : strip s = [] := by
    have := strip_pad s [] [] h (by simp) (by simp) (by simp)
    simpa using this
  simp [parseIrreps, this]

example : ∀ c ∈ " \t\n".toList, isSpace c = true := by decide

example : parseIrreps " 2 x 1y +0e+ 3x2y".toList = .ok [(2, ⟨1, .odd⟩), (1, ⟨0, .even⟩), (3, ⟨2, .even⟩)] := by
  decide +kernel

example : List.Forall₂ SpellsStr [" 2 x 1y ".toList, "0e".toList] [(2, ⟨1, .odd⟩), (1, ⟨0, .even⟩)] := by
  refine .cons ?_ (.cons ?_ .nil)
  · exact SpellsStr.explicit 2 1 'y' .odd [' '] [' '] [' '] [' '] (by decide) (by decide) (by decide)
  · exact SpellsStr.implicit 0 'e' .even [] [] (by decide) (by decide)

example : printIrreps [(1, ⟨0, .even⟩), (20, ⟨11, .odd⟩), (0, ⟨3, .even⟩)] = "1x0e+20x11o+0x3e".toList := by
  decide +kernel

/-- Every structured spelling of the entries (`_MulIr`, `(mul, Irrep)`, `(mul, (l, p))`, `(mul, "1e")`, a bare
`Irrep`, a bare string, `True` as multiplicity) denotes the same value. -/
theorem items_spellings {items : List Item} {x : Irreps} (h : List.Forall₂ Spells items x) :
    ofItems items = .ok x :=
  ofItems_spells h

example : List.Forall₂ Spells
    [.pair (.int 3) (.tup (.int 1) (.int (-1))), .str "2e".toList, .mulir 0 ⟨4, .even⟩]
    [(3, ⟨1, .odd⟩), (1, ⟨2, .even⟩), (0, ⟨4, .even⟩)] := by
  refine .cons (Spells.pairTuple 3 ⟨1, .odd⟩) (.cons ?_ (.cons (Spells.mulir 0 ⟨4, .even⟩) .nil))
  exact Spells.bareStr ⟨2, .even⟩

/-- the parser is *not* injective: distinct strings denote the same value (so `repr ∘ parse ≠ id`) -/
theorem parse_not_injective :
    parseIrreps "-0x1y".toList = parseIrreps "0x1o".toList ∧ "-0x1y".toList ≠ "0x1o".toList := by
  decide +kernel

/-! ## 2. dim, num_irreps, ls, slices, count, membership, lmax -/

/-- `dim = Σ mul·(2l+1)` = total dimension of the blocks -/
theorem dim_eq_sum (x : Irreps) :
    dim x = (x.map (fun e => e.1 * (2 * e.2.l + 1))).sum ∧ dim x = ((blocks x).map Irrep.dim).sum :=
  ⟨rfl, dim_eq_blocks x⟩

theorem ls_length (x : Irreps) : (ls x).length = numIrreps x ∧ ls x = (blocks x).map (·.l) := by
  rw [ls_eq_blocks, numIrreps_eq_blocks]; simp

/-- The slices are a contiguous partition of `[0, dim)` starting at 0: there is one slice per entry, slice `k`
is `[dim(x[:k]), dim(x[:k+1]))`.  (So the first starts at 0, each starts where the previous one stops, the last
stops at `dim x`, and slice `k` has length `mul_k·(2 l_k+1)`.) -/
theorem slices_spec (x : Irreps) :
    (slices x).length = x.length ∧
    ∀ k, k < x.length → (slices x)[k]? = some (dim (x.take k), dim (x.take (k + 1))) := by
  refine ⟨slicesAux_length 0 x, fun k hk => ?_⟩
  have hlt : k < (slices x).length := by rw [slices, slicesAux_length]; exact hk
  rw [List.getElem?_eq_getElem hlt]
  have := slicesAux_getElem 0 x k hk
  simp only [Nat.zero_add] at this
  exact congrArg some this

theorem slice_width (x : Irreps) (k : Nat) (hk : k < x.length) (s : Nat × Nat)
    (h : (slices x)[k]? = some s) : s.2 = s.1 + x[k].1 * (2 * x[k].2.l + 1) := by
  rw [(slices_spec x).2 k hk] at h
  have e : x.take (k + 1) = x.take k ++ [x[k]] := by
    rw [List.take_add_one]; simp [List.getElem?_eq_getElem hk]
  have hs : s = (dim (x.take k), dim (x.take (k + 1))) := (Option.some.inj h).symm
  subst hs
  show dim (x.take (k + 1)) = dim (x.take k) + _
  rw [e, dim_append, dim_cons, dim_nil]
  simp [Irrep.dim]

theorem slices_cover (x : Irreps) :
    (∀ s, (slices x).head? = some s → s.1 = 0) ∧ (∀ s, (slices x).getLast? = some s → s.2 = dim x) ∧
    (slices x).IsChain (fun s t => s.2 = t.1) := by
  obtain ⟨hl, hs⟩ := slices_spec x
  refine ⟨?_, ?_, ?_⟩
  · intro s h
    cases x with
    | nil => simp [slices, slicesAux] at h
    | cons e r =>
      have := hs 0 (by simp)
      rw [List.head?_eq_getElem?, this] at h
      cases h; simp
  · intro s h
    rw [List.getLast?_eq_getElem?, hl] at h
    cases x with
    | nil => simp [slices, slicesAux] at h
    | cons e r =>
      rw [hs (List.length (e :: r) - 1) (by simp)] at h
      cases h
      simp
  · rw [List.isChain_iff_getElem]
    intro i hi
    have h1 : i < x.length := by omega
    have h2 : i + 1 < x.length := by omega
    have a := hs i h1
    have b := hs (i + 1) h2
    rw [List.getElem?_eq_getElem (by omega)] at a b
    rw [Option.some.inj a, Option.some.inj b]

/-- `count` is the number of blocks carrying that irrep; `in` looks at the entry list (also zero multiplicities) -/
theorem count_contains (x : Irreps) (ir : Irrep) :
    count x ir = (blocks x).count ir ∧ (contains x ir = true ↔ ∃ m, (m, ir) ∈ x) ∧
    (0 < count x ir → contains x ir = true) := by
  refine ⟨count_eq_blocks x ir, contains_iff x ir, fun h => ?_⟩
  rw [count_eq_blocks] at h
  have hmem : ir ∈ blocks x := List.count_pos_iff.mp h
  simp only [blocks, List.mem_flatMap, List.mem_replicate] at hmem
  obtain ⟨e, he, _, rfl⟩ := hmem
  exact (contains_iff x e.2).mpr ⟨e.1, he⟩

/-- the converse fails: an entry of multiplicity 0 is "contained" although it contributes no block -/
theorem contains_without_blocks :
    contains [(0, ⟨1, .even⟩)] ⟨1, .even⟩ = true ∧ count [(0, ⟨1, .even⟩)] ⟨1, .even⟩ = 0 := by decide +kernel

/-- `lmax`: the largest `l` among the blocks; the two error cases of the code -/
theorem lmax_spec (x : Irreps) :
    (∀ m, lmax x = .ok m ↔ (∃ ir ∈ blocks x, ir.l = m) ∧ ∀ ir ∈ blocks x, ir.l ≤ m) ∧
    (lmax x = .error .valueLmaxEmpty ↔ x = []) ∧
    (lmax x = .error .valueMaxEmpty ↔ x ≠ [] ∧ ∀ e ∈ x, e.1 = 0) :=
  ⟨lmax_eq_ok_iff x, lmax_error_empty_iff x, lmax_error_max_iff x⟩

example : lmax [(100, ⟨0, .even⟩), (50, ⟨1, .even⟩), (0, ⟨2, .even⟩)] = .ok 1 := by decide +kernel
example : lmax [(0, ⟨2, .even⟩)] = .error .valueMaxEmpty := by decide

/-! ## 3. indexing, `+`, `*` -/

theorem getItem_spec (x : Irreps) :
    (∀ i (h : i < x.length), getItem x (i : Int) = .ok x[i]) ∧
    (∀ i (h0 : 0 < i) (h : i ≤ x.length), getItem x (-(i : Int)) = .ok (x[x.length - i]'(by omega))) ∧
    (∀ i : Int, getItem x i = .error .index ↔ i < -(x.length : Int) ∨ (x.length : Int) ≤ i) :=
  ⟨getItem_nonneg x, getItem_neg x, getItem_error_iff x⟩

/-- `x[start:stop]` for arbitrary (negative, out-of-range, absent) bounds, and `x[:k] + x[k:] == x` for every
integer `k`; `x[::-1]` reverses; a zero step raises ValueError. -/
theorem getSlice_spec (x : Irreps) :
    (∀ start stop, getSlice x start stop none
      = .ok ((x.drop (loBound x.length start)).take (hiBound x.length stop - loBound x.length start))) ∧
    (∀ k : Int, ∃ a b, getSlice x none (some k) none = .ok a ∧ getSlice x (some k) none none = .ok b ∧ a ++ b = x) ∧
    getSlice x none none (some (-1)) = .ok x.reverse ∧
    (∀ a b, getSlice x a b (some 0) = .error .value) := by
  refine ⟨getSlice_step_one x, fun k => ?_, getSlice_reverse x, getSlice_step_zero x⟩
  obtain ⟨h1, h2, h3⟩ := getSlice_prefix_suffix x k
  exact ⟨_, _, h1, h2, h3⟩

example : getSlice [(1, ⟨0, .even⟩), (2, ⟨1, .odd⟩), (3, ⟨2, .even⟩)] (some (-2)) none none
    = .ok [(2, ⟨1, .odd⟩), (3, ⟨2, .even⟩)] := by decide +kernel

theorem add_mul_spec (x y : Irreps) (n : Int) :
    blocks (add x y) = blocks x ++ blocks y ∧ dim (add x y) = dim x + dim y ∧
    blocks (mulInt x n) = (List.replicate n.toNat (blocks x)).flatten ∧ dim (mulInt x n) = n.toNat * dim x ∧
    (n ≤ 0 → mulInt x n = []) :=
  ⟨blocks_append x y, dim_append x y, blocks_repeatList _ x, dim_repeatList _ x, mulInt_nonpos x n⟩

/-- `Irreps.spherical_harmonics(lmax, p)` has dimension `(lmax+1)²` -/
theorem dim_spherical_harmonics (lmax : Nat) (p : Parity) :
    dim (sphericalHarmonics (lmax : Int) p) = (lmax + 1) * (lmax + 1) :=
  dim_sphericalHarmonics lmax p

/-! ## 4. simplify and remove_zero_multiplicities never change the representation -/

/-- same blocks in the same order ⇒ identical representation matrix -/
theorem blocks_simplify_eq (x : Irreps) : blocks (simplify x) = blocks x := blocks_simplify x

theorem blocks_removeZero_eq (x : Irreps) : blocks (removeZero x) = blocks x := blocks_removeZero x

theorem dim_preserved (x : Irreps) :
    dim (simplify x) = dim x ∧ dim (removeZero x) = dim x ∧
    numIrreps (simplify x) = numIrreps x ∧ numIrreps (removeZero x) = numIrreps x ∧
    ls (simplify x) = ls x ∧ ls (removeZero x) = ls x := by
  simp only [dim_eq_blocks, numIrreps_eq_blocks, ls_eq_blocks, blocks_simplify, blocks_removeZero, and_self]

/-- the result of `simplify` has no zero multiplicity and no two neighbours with the same irrep -/
theorem simplify_shape (x : Irreps) :
    (∀ e ∈ simplify x, 0 < e.1) ∧ (simplify x).IsChain (fun a b => a.2 ≠ b.2) :=
  simplified_simplify x

/-- `simplify` is the canonical form of the block list: two Irreps simplify to the same value iff they carry
the same blocks in the same order; in particular it is idempotent and absorbs `remove_zero_multiplicities`. -/
theorem simplify_canonical (x y : Irreps) : simplify x = simplify y ↔ blocks x = blocks y :=
  simplify_eq_iff_blocks_eq x y

theorem simplify_idem (x : Irreps) :
    simplify (simplify x) = simplify x ∧ simplify (removeZero x) = simplify x :=
  ⟨(simplify_canonical _ _).mpr (blocks_simplify x), (simplify_canonical _ _).mpr (blocks_removeZero x)⟩

example : simplify [(1, ⟨1, .even⟩), (0, ⟨0, .even⟩), (1, ⟨1, .even⟩), (1, ⟨0, .even⟩), (1, ⟨1, .even⟩)]
    = [(2, ⟨1, .even⟩), (1, ⟨0, .even⟩), (1, ⟨1, .even⟩)] := by decide

/-! ## 5. sort -/

/-- `p` and `inv` are permutations of `0..n-1`, inverse of each other -/
theorem sort_perms (x : Irreps) :
    (sort x).inv.Perm (List.range x.length) ∧ (sort x).p.Perm (List.range x.length) ∧
    ∀ i j : Nat, (sort x).inv[j]? = some i ↔ (sort x).p[i]? = some j := by
  refine ⟨sort_inv_perm x, sort_p_perm x, fun i j => ?_⟩
  constructor
  · intro h
    obtain ⟨hj, rfl⟩ := List.getElem?_eq_some_iff.mp h
    have hj' : j < x.length := by rw [← sort_inv_length]; exact hj
    have := sort_p_inv x j hj'
    rw [List.getElem?_eq_some_iff]
    exact ⟨_, this⟩
  · intro h
    obtain ⟨hi, rfl⟩ := List.getElem?_eq_some_iff.mp h
    have hi' : i < x.length := by rw [← sort_p_length]; exact hi
    obtain ⟨hlt, e⟩ := sort_inv_p x i hi'
    rw [List.getElem?_eq_some_iff]
    exact ⟨hlt, e⟩

/-- the convention of the code: `inv[j]` is the original index of the entry now at position `j`, `p[i]` is the new
position of the original entry `i`:  `sorted[j] = x[inv[j]]`  and  `sorted[p[i]] = x[i]`. -/
theorem sort_entries (x : Irreps) :
    (sort x).irreps.length = x.length ∧
    (∀ i j : Nat, (sort x).inv[j]? = some i → (sort x).irreps[j]? = x[i]?) ∧
    (∀ i j : Nat, (sort x).p[i]? = some j → (sort x).irreps[j]? = x[i]?) := by
  have key : ∀ i j : Nat, (sort x).inv[j]? = some i → (sort x).irreps[j]? = x[i]? := by
    intro i j h
    obtain ⟨hj, rfl⟩ := List.getElem?_eq_some_iff.mp h
    have hj' : j < (sort x).irreps.length := by rw [sort_irreps_length, ← sort_inv_length]; exact hj
    rw [List.getElem?_eq_getElem hj']
    exact (sort_irreps_getElem x j hj').symm
  exact ⟨sort_irreps_length x, key, fun i j h => key i j (((sort_perms x).2.2 i j).mpr h)⟩

/-- The result is sorted by the code's key — the tuple `(l, p)` with `-1 < 1`, i.e. `0e < 1o < 1e < 2o < …` — and
the sort is stable: along the result either the irrep strictly increases, or it stays the same and the original
index increases. -/
theorem sort_sorted_and_stable (x : Irreps) :
    (sort x).irreps.Pairwise (fun u v => irrepLe u.2 v.2) ∧
    ((sort x).irreps.zip (sort x).inv).Pairwise
      (fun u v => irrepLt u.1.2 v.1.2 ∨ (u.1.2 = v.1.2 ∧ u.2 < v.2)) :=
  ⟨sort_irreps_sorted x, sort_sorted_stable x⟩

/-- the order is the Python tuple order on `(l, p)` -/
theorem irrepLe_iff (a b : Irrep) :
    irrepLe a b ↔ (a.l < b.l ∨ (a.l = b.l ∧ a.p.toInt ≤ b.p.toInt)) := Iff.rfl

/-- Modelling `sorted` by insertion sort loses nothing: any permutation of the triples `(ir, i, mul)` that is
sorted for Python's tuple order is the list the model computes. -/
theorem sorted_is_unique (l l' : List Triple) (hp : l'.Perm l)
    (hs : l'.Pairwise (fun a b => tripleLe a b = true)) : l' = sortTriples l :=
  sortTriples_unique l l' hp hs

/-- the hypotheses are satisfiable by a list that is not already in input order -/
example : let l : List Triple := [(⟨2, .odd⟩, 0, 1), (⟨1, .even⟩, 1, 1), (⟨0, .even⟩, 2, 1), (⟨1, .even⟩, 3, 1)]
    let l' : List Triple := [(⟨0, .even⟩, 2, 1), (⟨1, .even⟩, 1, 1), (⟨1, .even⟩, 3, 1), (⟨2, .odd⟩, 0, 1)]
    l'.Perm l ∧ l'.Pairwise (fun a b => tripleLe a b = true) := by
  decide +kernel

/-- Blocks of the sorted Irreps = the blocks of the entries of `x` taken in the order `inv`: the block list is
permuted entry-wise (block permutation), nothing else changes.  In particular same dimension, same multiset
of blocks. -/
theorem sort_blocks (x : Irreps) :
    (sort x).irreps = (sort x).inv.map (fun j => x.getD j default) ∧
    blocks (sort x).irreps
      = (sort x).inv.flatMap (fun j => List.replicate (x.getD j default).1 (x.getD j default).2) ∧
    (blocks (sort x).irreps).Perm (blocks x) ∧ (sort x).irreps.Perm x ∧
    dim (sort x).irreps = dim x ∧ numIrreps (sort x).irreps = numIrreps x := by
  refine ⟨sort_irreps_eq_map_inv x, blocks_sort x, blocks_sort_perm x, sort_irreps_perm x, ?_, ?_⟩
  · rw [dim_eq_blocks, dim_eq_blocks]
    exact ((blocks_sort_perm x).map _).sum_nat
  · rw [numIrreps_eq_blocks, numIrreps_eq_blocks]
    exact (blocks_sort_perm x).length_eq

/-- the docstring example of `sort` -/
example : sort [(1, ⟨2, .odd⟩), (1, ⟨1, .even⟩), (1, ⟨0, .even⟩), (1, ⟨1, .even⟩)]
    = { irreps := [(1, ⟨0, .even⟩), (1, ⟨1, .even⟩), (1, ⟨1, .even⟩), (1, ⟨2, .odd⟩)],
        p := [3, 1, 0, 2], inv := [2, 1, 3, 0] } := by decide

/-! ## 6. regroup = simplify ∘ sort -/

/-- `regroup` (defined, as in the code, as `self.sort().irreps.simplify()`) has no zero multiplicities, strictly
increasing keys, the same multiset of blocks (hence the same dimension and the same `count`s) as `x`. -/
theorem regroup_spec (x : Irreps) :
    regroup x = simplify (sort x).irreps ∧
    (∀ e ∈ regroup x, 0 < e.1) ∧
    (regroup x).Pairwise (fun a b => irrepLt a.2 b.2) ∧
    (blocks (regroup x)).Perm (blocks x) ∧
    dim (regroup x) = dim x ∧ numIrreps (regroup x) = numIrreps x ∧
    ∀ ir, count (regroup x) ir = count x ir := by
  refine ⟨rfl, (regroup_simplified x).1, regroup_strict x, blocks_regroup_perm x, ?_, ?_, count_regroup x⟩
  · rw [dim_eq_blocks, dim_eq_blocks]
    exact ((blocks_regroup_perm x).map _).sum_nat
  · rw [numIrreps_eq_blocks, numIrreps_eq_blocks]
    exact (blocks_regroup_perm x).length_eq

/-- complete description of the entries: exactly the irreps of non-zero total multiplicity, each once, with its
total multiplicity -/
theorem mem_regroup (x : Irreps) (m : Nat) (ir : Irrep) : (m, ir) ∈ regroup x ↔ 0 < m ∧ m = count x ir :=
  mem_regroup_iff x m ir

/-- `regroup` is a canonical form for "same representation up to the order of the blocks" -/
theorem regroup_canonical (x y : Irreps) : regroup x = regroup y ↔ (blocks x).Perm (blocks y) := by
  constructor
  · intro h
    exact (blocks_regroup_perm x).symm.trans (h ▸ blocks_regroup_perm y)
  · exact regroup_eq_of_blocks_perm x y

example : regroup [(1, ⟨1, .even⟩), (1, ⟨0, .even⟩), (1, ⟨1, .even⟩), (0, ⟨2, .even⟩)]
    = [(1, ⟨0, .even⟩), (2, ⟨1, .even⟩)] := by decide

/-! ## 7. product of two irreps (triangle rule), iterator -/

/-- `ir ∈ ir1 * ir2  ↔  |l1 - l2| ≤ l ≤ l1 + l2  and  p = p1·p2` -/
theorem mem_product (a b ir : Irrep) :
    ir ∈ irrepMul a b ↔ (((a.l : Int) - b.l).natAbs ≤ ir.l ∧ ir.l ≤ a.l + b.l) ∧ ir.p = a.p.mul b.p :=
  mem_irrepMul a b ir

/-- the product lists each allowed `l` exactly once, in increasing order; parity is the product parity; the
dimensions add up to `dim a · dim b`; the product is commutative -/
theorem product_spec (a b : Irrep) :
    (irrepMul a b).map (·.l) = List.range' ((a.l : Int) - b.l).natAbs (2 * min a.l b.l + 1) ∧
    (irrepMul a b).Pairwise (fun u v => u.l < v.l) ∧
    (∀ ir ∈ irrepMul a b, ir.p.toInt = a.p.toInt * b.p.toInt) ∧
    ((irrepMul a b).map Irrep.dim).sum = a.dim * b.dim ∧
    irrepMul a b = irrepMul b a := by
  refine ⟨irrepMul_map_l a b, irrepMul_strictMono a b, ?_, irrepMul_dim_sum a b, irrepMul_comm a b⟩
  intro ir h
  rw [((mem_irrepMul a b ir).mp h).2, parity_mul_toInt]

example : irrepMul ⟨1, .odd⟩ ⟨2, .odd⟩ = [⟨1, .even⟩, ⟨2, .even⟩, ⟨3, .even⟩] := by decide

/-- `Irrep.iterator(lmax)` yields every irrep with `l ≤ lmax` exactly once -/
theorem iterator_spec (lmax : Nat) :
    (iterator lmax).Nodup ∧ ∀ ir, ir ∈ iterator lmax ↔ ir.l ≤ lmax :=
  ⟨iterator_nodup lmax, mem_iterator lmax⟩

example : iterator 1 = [⟨0, .even⟩, ⟨0, .odd⟩, ⟨1, .odd⟩, ⟨1, .even⟩] := by decide

end E3nnVerif.Props.C06
