import E3nnVerif.Props.C04
import E3nnVerif.Cert.W3jCore
import E3nnVerif.Cert.Gen
/-
C04, closed form: the general theorems of `Props/C04.lean` with their certificate hypotheses discharged by the
kernel for every admissible triple of degrees ≤ 3 (`Cert/W3jCore.lean`; the thorough tier extends the
certified range with `Cert/W3j/Ext*.lean`).
-/
namespace E3nnVerif.Props.C04
open E3nnVerif.Model.Wigner E3nnVerif.Theory E3nnVerif.Cert
open Matrix
open scoped BigOperators

theorem genCert_le3 : ∀ l : ℕ, l ≤ 3 → genCert l = true := by
  intro l h; interval_cases l
  · exact Gen.gen_0
  · exact Gen.gen_1
  · exact Gen.gen_2
  · exact Gen.gen_3

/-- **C04 (invariance, norm, symmetries) for all admissible triples of degrees ≤ 3, all rotations.** -/
theorem wigner_3j_invariant_normalized_symmetric (l1 l2 l3 : ℕ) (h1 : l1 ≤ 3) (h2 : l2 ≤ 3) (h3 : l3 ≤ 3)
    (ha : admissible l1 l2 l3 = true) :
    (∀ (α β γ : ℝ) l m n,
      ∑ i, ∑ j, ∑ k, w3jR l1 l2 l3 i j k * wignerD l1 α β γ i l * wignerD l2 α β γ j m * wignerD l3 α β γ k n
        = w3jR l1 l2 l3 l m n) ∧
    (∑ i, ∑ j, ∑ k, (w3jR l1 l2 l3 i j k) ^ 2 = 1) ∧
    (∀ i j k, w3jR l1 l2 l3 i j k = w3jR l2 l3 l1 j k i ∧
              w3jR l1 l2 l3 i j k = (-1 : ℝ) ^ (l1 + l2 + l3) * w3jR l2 l1 l3 j i k) := by
  obtain ⟨hc, hs⟩ := W3j.cert_core l1 l2 l3 h1 h2 h3 ha
  exact ⟨fun α β γ l m n => w3j_invariant hc (genCert_le3 l3 h3) α β γ l m n, w3j_norm hc,
         fun i j k => w3j_symmetries hs i j k⟩

/-- the Clebsch–Gordan contraction is equivariant for all rotations, all inputs (degrees ≤ 3) -/
theorem wigner_3j_contraction_equivariant (l1 l2 l3 : ℕ) (h1 : l1 ≤ 3) (h2 : l2 ≤ 3) (h3 : l3 ≤ 3)
    (ha : admissible l1 l2 l3 = true) (α β γ : ℝ) (u : Fin (2 * l1 + 1) → ℝ) (v : Fin (2 * l2 + 1) → ℝ) :
    bil (w3jR l1 l2 l3) (wignerD l1 α β γ *ᵥ u) (wignerD l2 α β γ *ᵥ v)
      = wignerD l3 α β γ *ᵥ bil (w3jR l1 l2 l3) u v :=
  w3j_equivariant (W3j.cert_core l1 l2 l3 h1 h2 h3 ha).1 α β γ u v

end E3nnVerif.Props.C04
