import E3nnVerif.Theory.Rotation
/-
C12 — all rotation parametrisations of `e3nn/o3/_rotation.py` describe the same group and convert
losslessly … except on the singular strata, where the code as written does not (negative theorems at the
end, replayed on the real code by `harness/c12.py`).

Everything is about the ℝ instance of the scalar-generic model `E3nnVerif/Model/Rotation.lean`
(the Float instance of the very same definitions is what `drivers/C12.lean` runs next to the real code).
Bridges to Mathlib: `toMatrix : Mat3 ℝ → Matrix (Fin 3) (Fin 3) ℝ`, `toQuat : Quat ℝ → Quaternion ℝ`,
`toVec : Vec3 ℝ → Fin 3 → ℝ`, `SO3 = Matrix.specialOrthogonalGroup (Fin 3) ℝ`.

`eps = 1e-12` is the `eps` of `torch.nn.functional.normalize`: the hypotheses `eps ≤ ‖v‖` below are exactly
the condition under which the code's `normalize` really returns a unit vector.
-/
namespace E3nnVerif.Props.C12
open E3nnVerif E3nnVerif.Rotation

/-! ## 1. elementary rotations and Euler angles: always in SO(3) -/

theorem matrix_x_mem_SO3 (t : ℝ) : toMatrix (matrix_x t) ∈ SO3 := (isRot_iff _).mp (matrix_x_isRot t)
theorem matrix_y_mem_SO3 (t : ℝ) : toMatrix (matrix_y t) ∈ SO3 := (isRot_iff _).mp (matrix_y_isRot t)
theorem matrix_z_mem_SO3 (t : ℝ) : toMatrix (matrix_z t) ∈ SO3 := (isRot_iff _).mp (matrix_z_isRot t)

/-- for ALL angle triples (negative, > 2π, β ∈ {0,π}, …): orthogonal with determinant 1 -/
theorem angles_to_matrix_mem_SO3 (a b c : ℝ) : toMatrix (angles_to_matrix a b c) ∈ SO3 :=
  (isRot_iff _).mp (angles_to_matrix_isRot a b c)

/-- unfolded form of the previous statement -/
theorem angles_to_matrix_orthogonal_det (a b c : ℝ) :
    toMatrix (angles_to_matrix a b c) * (toMatrix (angles_to_matrix a b c)).transpose = 1 ∧
    (toMatrix (angles_to_matrix a b c)).det = 1 := by
  have h := angles_to_matrix_mem_SO3 a b c
  rw [Matrix.mem_specialOrthogonalGroup_iff, Matrix.mem_orthogonalGroup_iff] at h
  exact h

/-- `inverse_angles` gives the transpose … -/
theorem inverse_angles_transpose (a b c : ℝ) :
    toMatrix (angles_to_matrix (inverse_angles a b c).alpha (inverse_angles a b c).beta (inverse_angles a b c).gamma)
      = (toMatrix (angles_to_matrix a b c)).transpose := by
  rw [Rotation.inverse_angles_transpose, toMatrix_transpose]

/-- … which is the inverse -/
theorem inverse_angles_inverse (a b c : ℝ) :
    toMatrix (angles_to_matrix (inverse_angles a b c).alpha (inverse_angles a b c).beta (inverse_angles a b c).gamma)
      * toMatrix (angles_to_matrix a b c) = 1 := by
  rw [inverse_angles_transpose, ← toMatrix_transpose, ← toMatrix_mul, (angles_to_matrix_isRot a b c).transpose_mul,
    toMatrix_one]

theorem identity_angles_matrix :
    toMatrix (angles_to_matrix (identity_angles : Angles ℝ).alpha (identity_angles : Angles ℝ).beta
      (identity_angles : Angles ℝ).gamma) = 1 := by
  simp only [identity_angles, zero_real, angles_to_matrix, matrix_y_zero, matrix_x_zero, Mat3.mul_one', toMatrix_one]

/-! ## 2. quaternions -/

/-- `compose_quaternion` is the Hamilton product of Mathlib's `Quaternion ℝ` -/
theorem compose_quaternion_hamilton (p q : Quat ℝ) :
    toQuat (compose_quaternion p q) = toQuat p * toQuat q := toQuat_compose p q

/-- the norm is multiplicative (so unit quaternions compose to unit quaternions) -/
theorem compose_quaternion_normSq (p q : Quat ℝ) :
    (compose_quaternion p q).normSq = p.normSq * q.normSq := compose_normSq p q

theorem identity_quaternion_one : toQuat (identity_quaternion : Quat ℝ) = 1 := toQuat_identity

/-- `inverse_quaternion` is the conjugate; it is the inverse exactly under the documented guard `‖q‖ = 1` -/
theorem inverse_quaternion_inv (q : Quat ℝ) (h : q.normSq = 1) :
    toQuat (inverse_quaternion q) = (toQuat q)⁻¹ ∧
    compose_quaternion q (inverse_quaternion q) = identity_quaternion ∧
    compose_quaternion (inverse_quaternion q) q = identity_quaternion := by
  refine ⟨toQuat_inverse_unit q h, ?_, ?_⟩ <;>
  · simp only [Quat.normSq] at h
    simp only [compose_quaternion, inverse_quaternion, identity_quaternion, Quat.mk.injEq, one_real, zero_real]
    refine ⟨?_, ?_, ?_, ?_⟩ <;> linarith
example : (⟨1 / 2, 1 / 2, 1 / 2, 1 / 2⟩ : Quat ℝ).normSq = 1 := by simp [Quat.normSq]; norm_num

/-! ## 3. axis-angle -/

/-- `axis_angle_to_matrix` lands in SO(3) for EVERY axis (unit or not, even the zero axis) -/
theorem axis_angle_to_matrix_mem_SO3 (v : Vec3 ℝ) (t : ℝ) : toMatrix (axis_angle_to_matrix v t) ∈ SO3 :=
  (isRot_iff _).mp (axis_angle_to_matrix_isRot v t)

/-- … and for `‖axis‖ ≥ eps` the code's construction `R(α,β,0) Ry(t) R(α,β,0)ᵀ` is Rodrigues' rotation about
the normalised axis `n = axis/‖axis‖`:  `w ↦ cos t · w + sin t · n × w + (1 - cos t)(n·w) n` -/
theorem axis_angle_to_matrix_rodrigues (v : Vec3 ℝ) (t : ℝ) (h : eps ≤ v.norm) (w : Fin 3 → ℝ) :
    (normalize v).normSq = 1 ∧
    normalize v = ⟨v.x / v.norm, v.y / v.norm, v.z / v.norm⟩ ∧
    (toMatrix (axis_angle_to_matrix v t)).mulVec w
      = Real.cos t • w + Real.sin t • (crossProduct (toVec (normalize v)) w)
        + ((1 - Real.cos t) * (toVec (normalize v) ⬝ᵥ w)) • toVec (normalize v) := by
  refine ⟨normalize_normSq v h, normalize_of_le v h, ?_⟩
  rw [axis_angle_to_matrix_eq_rodrigues v t h, rodrigues_mulVec]
example : (eps : ℝ) ≤ (⟨0, 3, 4⟩ : Vec3 ℝ).norm := by
  rw [Vec3.norm_real]; simp only [Vec3.normSq]
  rw [show (0 * 0 + 3 * 3 + 4 * 4 : ℝ) = 5 * 5 by norm_num, Real.sqrt_mul_self (by norm_num), eps_real]; norm_num

/-- a zero axis is silently treated as the z axis -/
theorem axis_angle_to_matrix_zero_axis (t : ℝ) :
    axis_angle_to_matrix (⟨0, 0, 0⟩ : Vec3 ℝ) t = matrix_z t := Rotation.axis_angle_to_matrix_zero_axis t

/-- unit quaternion for every axis of length ≥ eps (any angle) -/
theorem axis_angle_to_quaternion_unit (v : Vec3 ℝ) (t : ℝ) (h : eps ≤ v.norm) :
    (axis_angle_to_quaternion v t).normSq = 1 := axis_angle_to_quaternion_normSq v t h

/-- "any non-zero axis" would be false for the code as written: a non-zero axis shorter than `eps`
is divided by `eps`, not by its norm -/
theorem axis_angle_to_quaternion_tiny_axis_not_unit :
    ∃ (v : Vec3 ℝ) (t : ℝ), v.norm ≠ 0 ∧ (axis_angle_to_quaternion v t).normSq ≠ 1 := by
  refine ⟨⟨eps / 10, 0, 0⟩, Real.pi, ?_, ?_⟩
  · rw [Vec3.norm_real]; simp only [Vec3.normSq, mul_zero, add_zero]
    rw [Real.sqrt_mul_self (by have := eps_pos; linarith)]
    have := eps_pos; intro h0; linarith
  · rw [axis_angle_to_quaternion_tiny_axis]; simp [Quat.normSq]; norm_num

/-- the quaternion route and the matrix route agree: `quatMatrix (cos(t/2), n sin(t/2))` = `axis_angle_to_matrix` -/
theorem axis_angle_quaternion_matrix (v : Vec3 ℝ) (t : ℝ) (h : eps ≤ v.norm) :
    quatMatrix (axis_angle_to_quaternion v t) = axis_angle_to_matrix v t := by
  rw [quatMatrix_axis_angle v t h, axis_angle_to_matrix_eq_rodrigues v t h]

/-! ## 4. quaternion → matrix (the code goes through axis-angle) -/

/-- SO(3) for EVERY quaternion, unit or not -/
theorem quaternion_to_matrix_mem_SO3 (q : Quat ℝ) : toMatrix (quaternion_to_matrix q) ∈ SO3 := by
  simp only [quaternion_to_matrix]; exact axis_angle_to_matrix_mem_SO3 _ _

/-- for a unit quaternion whose vector part is at least `eps` long, `quaternion_to_matrix q` is the matrix
of the conjugation `v ↦ q v q*` on pure quaternions -/
theorem quaternion_to_matrix_conjugation (q : Quat ℝ) (hq : q.normSq = 1) (hv : eps ≤ q.vec.norm) (v : Vec3 ℝ) :
    toQuat q * toQuat ⟨0, v.x, v.y, v.z⟩ * star (toQuat q)
      = toQuat ⟨0, ((quaternion_to_matrix q).mulVec v).x, ((quaternion_to_matrix q).mulVec v).y,
          ((quaternion_to_matrix q).mulVec v).z⟩ := by
  rw [quaternion_to_matrix_eq q hq hv]; exact quatMatrix_conj q hq v
example : (⟨1 / 2, 1 / 2, 1 / 2, 1 / 2⟩ : Quat ℝ).normSq = 1 ∧ (eps : ℝ) ≤ (⟨1 / 2, 1 / 2, 1 / 2, 1 / 2⟩ : Quat ℝ).vec.norm := by
  constructor
  · simp [Quat.normSq]; norm_num
  · rw [Vec3.norm_real, eps_real]; simp only [Vec3.normSq, Quat.vec]
    apply Real.le_sqrt_of_sq_le; norm_num

/-- `q` and `-q` give the same matrix -/
theorem quaternion_to_matrix_neg (q : Quat ℝ) (hq : q.normSq = 1) (hv : eps ≤ q.vec.norm) :
    quaternion_to_matrix ⟨-q.w, -q.x, -q.y, -q.z⟩ = quaternion_to_matrix q := by
  rw [quaternion_to_matrix_eq q hq hv,
    quaternion_to_matrix_eq _ (by simpa [Quat.normSq] using hq) (by rw [vec_norm_neg]; exact hv), quatMatrix_neg]

/-- composition of quaternions ↔ product of matrices -/
theorem quaternion_to_matrix_compose (p q : Quat ℝ) (hp : p.normSq = 1) (hq : q.normSq = 1)
    (hpv : eps ≤ p.vec.norm) (hqv : eps ≤ q.vec.norm) (hpq : eps ≤ (compose_quaternion p q).vec.norm) :
    toMatrix (quaternion_to_matrix (compose_quaternion p q))
      = toMatrix (quaternion_to_matrix p) * toMatrix (quaternion_to_matrix q) := by
  rw [quaternion_to_matrix_eq p hp hpv, quaternion_to_matrix_eq q hq hqv,
    quaternion_to_matrix_eq _ (by rw [compose_normSq, hp, hq, mul_one]) hpq, quatMatrix_compose p q hp hq,
    toMatrix_mul]

/-- inversion of quaternions ↔ transpose of matrices -/
theorem quaternion_to_matrix_inverse (q : Quat ℝ) (hq : q.normSq = 1) (hv : eps ≤ q.vec.norm) :
    toMatrix (quaternion_to_matrix (inverse_quaternion q)) = (toMatrix (quaternion_to_matrix q)).transpose := by
  rw [quaternion_to_matrix_eq q hq hv,
    quaternion_to_matrix_eq _ (by simpa [Quat.normSq, inverse_quaternion] using hq)
      (by rw [vec_norm_inverse]; exact hv), quatMatrix_inverse, toMatrix_transpose]

theorem identity_quaternion_matrix : toMatrix (quaternion_to_matrix (identity_quaternion : Quat ℝ)) = 1 := by
  simp only [quaternion_to_matrix, quaternion_to_axis_angle_identity, Rotation.axis_angle_to_matrix_zero_axis,
    matrix_z_zero, toMatrix_one]

/-- Euler angles → quaternion → matrix = Euler angles → matrix, and the quaternion is unit (all angles) -/
theorem angles_to_quaternion_matrix (a b c : ℝ) :
    quatMatrix (angles_to_quaternion a b c) = angles_to_matrix a b c ∧
    (angles_to_quaternion a b c).normSq = 1 := quatMatrix_angles_to_quaternion a b c

/-! ## 5. the sphere -/

theorem angles_to_xyz_on_sphere (a b : ℝ) : (angles_to_xyz a b).normSq = 1 := angles_to_xyz_normSq a b

/-- `angles_to_xyz ∘ xyz_to_angles = id` on the whole unit sphere, poles included -/
theorem angles_to_xyz_xyz_to_angles (v : Vec3 ℝ) (h : v.normSq = 1) :
    angles_to_xyz (xyz_to_angles v).1 (xyz_to_angles v).2 = v := by
  rw [Rotation.angles_to_xyz_xyz_to_angles v (unit_norm_ge_eps v h), normalize_unit v h]
example : (⟨2 / 3, -1 / 3, 2 / 3⟩ : Vec3 ℝ).normSq = 1 := by simp [Vec3.normSq]; norm_num

/-- more generally it is the radial projection for every `‖v‖ ≥ eps` -/
theorem angles_to_xyz_xyz_to_angles_normalize (v : Vec3 ℝ) (h : eps ≤ v.norm) :
    angles_to_xyz (xyz_to_angles v).1 (xyz_to_angles v).2 = ⟨v.x / v.norm, v.y / v.norm, v.z / v.norm⟩ := by
  rw [Rotation.angles_to_xyz_xyz_to_angles v h, normalize_of_le v h]

/-- the converse on the fundamental domain `α ∈ (-π, π]`, `β ∈ (0, π)` -/
theorem xyz_to_angles_angles_to_xyz (a b : ℝ) (ha : a ∈ Set.Ioc (-Real.pi) Real.pi) (hb : b ∈ Set.Ioo 0 Real.pi) :
    xyz_to_angles (angles_to_xyz a b) = (a, b) := Rotation.xyz_to_angles_angles_to_xyz a b ha hb
example : (1 : ℝ) ∈ Set.Ioc (-Real.pi) Real.pi ∧ (1 : ℝ) ∈ Set.Ioo 0 Real.pi := by
  have := Real.two_le_pi
  constructor <;> constructor <;> linarith

/-- value at the zero vector (F.normalize forwards 0): `(α, β) = (0, π/2)`, i.e. the point `e_z` -/
theorem xyz_to_angles_zero : xyz_to_angles (⟨0, 0, 0⟩ : Vec3 ℝ) = (0, Real.pi / 2) := Rotation.xyz_to_angles_zero

/-- at the poles α is lost (so the converse round trip cannot hold there): the north pole gives `(0, 0)` -/
theorem xyz_to_angles_north_pole (a : ℝ) : xyz_to_angles (angles_to_xyz a 0) = (0, 0) := by
  have hu := angles_to_xyz_normSq a 0
  rw [xyz_to_angles_of_le _ (unit_norm_ge_eps _ hu), normalize_unit _ hu]
  have : (⟨0, 0⟩ : ℂ) = 0 := rfl
  simp [angles_to_xyz, this]

/-! ## 6. matrix → Euler angles: exact round trip on all of SO(3) -/

/-- for EVERY rotation matrix `R` the assertion passes and `angles_to_matrix (matrix_to_angles R) = R` -/
theorem matrix_to_angles_roundtrip (R : Mat3 ℝ) (hR : toMatrix R ∈ SO3) :
    ∃ a, matrix_to_angles R = some a ∧ angles_to_matrix a.alpha a.beta a.gamma = R :=
  Rotation.matrix_to_angles_roundtrip R ((isRot_iff R).mpr hR)

/-- in particular `matrix_to_angles ∘ angles_to_matrix` returns the same MATRIX for all angle triples,
including `β ∈ {0, π}`, negative angles and angles beyond 2π -/
theorem matrix_to_angles_angles_to_matrix (a b c : ℝ) :
    ∃ a', matrix_to_angles (angles_to_matrix a b c) = some a' ∧
      angles_to_matrix a'.alpha a'.beta a'.gamma = angles_to_matrix a b c :=
  Rotation.matrix_to_angles_roundtrip _ (angles_to_matrix_isRot a b c)

/-- `compose_angles` ↔ matrix product, all angles -/
theorem compose_angles_matrix (a1 b1 c1 a2 b2 c2 : ℝ) :
    ∃ a, compose_angles a1 b1 c1 a2 b2 c2 = some a ∧
      toMatrix (angles_to_matrix a.alpha a.beta a.gamma)
        = toMatrix (angles_to_matrix a1 b1 c1) * toMatrix (angles_to_matrix a2 b2 c2) := by
  obtain ⟨a, h1, h2⟩ := Rotation.matrix_to_angles_roundtrip _
    ((angles_to_matrix_isRot a1 b1 c1).mul (angles_to_matrix_isRot a2 b2 c2))
  exact ⟨a, h1, by rw [h2, toMatrix_mul]⟩

/-- chain quaternion → matrix → angles → matrix, every quaternion -/
theorem quaternion_to_angles_matrix (q : Quat ℝ) :
    ∃ a, quaternion_to_angles q = some a ∧ angles_to_matrix a.alpha a.beta a.gamma = quaternion_to_matrix q :=
  Rotation.matrix_to_angles_roundtrip _ ((isRot_iff _).mpr (quaternion_to_matrix_mem_SO3 q))

/-- chain axis-angle → matrix → angles → matrix, every axis and angle -/
theorem axis_angle_to_angles_matrix (v : Vec3 ℝ) (t : ℝ) :
    ∃ a, axis_angle_to_angles v t = some a ∧ angles_to_matrix a.alpha a.beta a.gamma = axis_angle_to_matrix v t :=
  Rotation.matrix_to_angles_roundtrip _ (axis_angle_to_matrix_isRot v t)

/-- the error branch: the model (like the code's `assert torch.allclose(det R, 1)`) rejects exactly the
matrices with `|det R − 1| > 1e-8 + 1e-5` -/
theorem matrix_to_angles_rejects (R : Mat3 ℝ) :
    matrix_to_angles R = none ↔ ¬ |R.det - 1| ≤ 1 / 100000000 + 1 / 100000 := by
  have e : detIsOne R = true ↔ |R.det - 1| ≤ 1 / 100000000 + 1 / 100000 := by
    simp [detIsOne, atol, rtol, Scalar.ofFrac, Scalar.ofInt]
  rw [← e]
  by_cases h : detIsOne R = true <;> simp [matrix_to_angles, h]
theorem matrix_to_axis_angle_rejects (R : Mat3 ℝ) :
    matrix_to_axis_angle R = none ↔ ¬ |R.det - 1| ≤ 1 / 100000000 + 1 / 100000 := by
  have e : detIsOne R = true ↔ |R.det - 1| ≤ 1 / 100000000 + 1 / 100000 := by
    simp [detIsOne, atol, rtol, Scalar.ofFrac, Scalar.ofInt]
  rw [← e]
  by_cases h : detIsOne R = true <;> simp [matrix_to_axis_angle, h]

/-! ## 7. matrix → axis-angle / quaternion on the generic stratum

`skewVec R = (R₂₁−R₁₂, R₀₂−R₂₀, R₁₀−R₀₁) = 2 sin θ · axis`.  The guard `eps ≤ ‖skewVec R‖` excludes exactly
the identity and the rotations by π (and an `eps`-neighbourhood of them). -/

theorem matrix_to_axis_angle_roundtrip (R : Mat3 ℝ) (hR : toMatrix R ∈ SO3) (h : eps ≤ (skewVec R).norm) :
    ∃ aa, matrix_to_axis_angle R = some aa ∧ aa.axis.normSq = 1 ∧ axis_angle_to_matrix aa.axis aa.angle = R :=
  Rotation.matrix_to_axis_angle_roundtrip R ((isRot_iff R).mpr hR) h
example : toMatrix (matrix_y (Real.pi / 2)) ∈ SO3 ∧ (eps : ℝ) ≤ (skewVec (matrix_y (Real.pi / 2))).norm := by
  refine ⟨matrix_y_mem_SO3 _, ?_⟩
  rw [Vec3.norm_real, eps_real]
  apply Real.le_sqrt_of_sq_le
  simp [skewVec, matrix_y, Vec3.normSq]; norm_num

/-- same for `angles_to_axis_angle` -/
theorem angles_to_axis_angle_roundtrip (a b c : ℝ) (h : eps ≤ (skewVec (angles_to_matrix a b c)).norm) :
    ∃ aa, angles_to_axis_angle a b c = some aa ∧ aa.axis.normSq = 1 ∧
      axis_angle_to_matrix aa.axis aa.angle = angles_to_matrix a b c :=
  Rotation.matrix_to_axis_angle_roundtrip _ (angles_to_matrix_isRot a b c) h

/-- `matrix_to_quaternion` returns a unit quaternion whose rotation matrix is `R` -/
theorem matrix_to_quaternion_roundtrip (R : Mat3 ℝ) (hR : toMatrix R ∈ SO3) (h : eps ≤ (skewVec R).norm) :
    ∃ q, matrix_to_quaternion R = some q ∧ q.normSq = 1 ∧ quatMatrix q = R := by
  obtain ⟨aa, h1, h2, h3⟩ := matrix_to_axis_angle_roundtrip R hR h
  have he := unit_norm_ge_eps _ h2
  refine ⟨axis_angle_to_quaternion aa.axis aa.angle, by simp [matrix_to_quaternion, h1],
    axis_angle_to_quaternion_normSq _ _ he, ?_⟩
  rw [axis_angle_quaternion_matrix _ _ he, h3]

/-- `compose_axis_angle` ↔ matrix product (axes of length ≥ eps; composite not within `eps` of the identity) -/
theorem compose_axis_angle_matrix (v1 : Vec3 ℝ) (t1 : ℝ) (v2 : Vec3 ℝ) (t2 : ℝ)
    (h1 : eps ≤ v1.norm) (h2 : eps ≤ v2.norm)
    (h12 : eps ≤ (compose_quaternion (axis_angle_to_quaternion v1 t1) (axis_angle_to_quaternion v2 t2)).vec.norm) :
    toMatrix (axis_angle_to_matrix (compose_axis_angle v1 t1 v2 t2).axis (compose_axis_angle v1 t1 v2 t2).angle)
      = toMatrix (axis_angle_to_matrix v1 t1) * toMatrix (axis_angle_to_matrix v2 t2) := by
  have n1 := axis_angle_to_quaternion_normSq v1 t1 h1
  have n2 := axis_angle_to_quaternion_normSq v2 t2 h2
  have e : axis_angle_to_matrix (compose_axis_angle v1 t1 v2 t2).axis (compose_axis_angle v1 t1 v2 t2).angle
      = quaternion_to_matrix (compose_quaternion (axis_angle_to_quaternion v1 t1) (axis_angle_to_quaternion v2 t2)) := rfl
  rw [e, quaternion_to_matrix_eq _ (by rw [compose_normSq, n1, n2, mul_one]) h12, quatMatrix_compose _ _ n1 n2,
    toMatrix_mul, axis_angle_quaternion_matrix v1 t1 h1, axis_angle_quaternion_matrix v2 t2 h2]

/-! ## 8. the singular strata: what the code as written returns there (negative results)

Rotation angle π (`rodrigues n π = 2 n nᵀ − 1`, any unit axis `n`) and the identity are exactly where
`R − Rᵀ = 0`; `F.normalize` then forwards the zero vector. -/

/-- at angle π, for EVERY unit axis, `matrix_to_axis_angle` returns the axis `(0,0,0)` (and angle π) -/
theorem matrix_to_axis_angle_angle_pi (n : Vec3 ℝ) (hn : n.normSq = 1) :
    toMatrix (rodrigues n Real.pi) ∈ SO3 ∧
    matrix_to_axis_angle (rodrigues n Real.pi) = some ⟨⟨0, 0, 0⟩, Real.pi⟩ :=
  ⟨(isRot_iff _).mp (rodrigues_isRot n hn _), matrix_to_axis_angle_pi n hn⟩

/-- … hence the round trip matrix → axis-angle → matrix returns `diag(-1,-1,1)` whatever the axis was … -/
theorem axis_angle_roundtrip_angle_pi (n : Vec3 ℝ) (hn : n.normSq = 1) :
    (matrix_to_axis_angle (rodrigues n Real.pi)).map (fun aa => axis_angle_to_matrix aa.axis aa.angle)
      = some ⟨-1, 0, 0, 0, -1, 0, 0, 0, 1⟩ := axis_angle_roundtrip_pi n hn

/-- … which is wrong for every axis other than `±e_z` -/
theorem axis_angle_roundtrip_angle_pi_wrong (n : Vec3 ℝ) (hn : n.normSq = 1) (hz : n.z * n.z ≠ 1) :
    (matrix_to_axis_angle (rodrigues n Real.pi)).map (fun aa => axis_angle_to_matrix aa.axis aa.angle)
      ≠ some (rodrigues n Real.pi) := by
  rw [axis_angle_roundtrip_pi n hn, rodrigues_pi]
  intro h
  simp only [Option.some.injEq, Mat3.mk.injEq] at h
  apply hz; linarith [h.2.2.2.2.2.2.2.2]

/-- the concrete witness replayed on the real code: `R = diag(-1,1,-1) = angles_to_matrix(π,0,0)` is a rotation,
the returned axis is `(0,0,0)` (not a unit vector) and the round trip gives `diag(-1,-1,1) ≠ R` -/
theorem witness_angle_pi :
    angles_to_matrix Real.pi 0 0 = (⟨-1, 0, 0, 0, 1, 0, 0, 0, -1⟩ : Mat3 ℝ) ∧
    matrix_to_axis_angle (⟨-1, 0, 0, 0, 1, 0, 0, 0, -1⟩ : Mat3 ℝ) = some ⟨⟨0, 0, 0⟩, Real.pi⟩ ∧
    (⟨0, 0, 0⟩ : Vec3 ℝ).normSq ≠ 1 ∧
    axis_angle_to_matrix (⟨0, 0, 0⟩ : Vec3 ℝ) Real.pi = ⟨-1, 0, 0, 0, -1, 0, 0, 0, 1⟩ ∧
    (⟨-1, 0, 0, 0, -1, 0, 0, 0, 1⟩ : Mat3 ℝ) ≠ ⟨-1, 0, 0, 0, 1, 0, 0, 0, -1⟩ := by
  have hy : (⟨0, 1, 0⟩ : Vec3 ℝ).normSq = 1 := by simp [Vec3.normSq]
  have e : rodrigues ⟨0, 1, 0⟩ Real.pi = (⟨-1, 0, 0, 0, 1, 0, 0, 0, -1⟩ : Mat3 ℝ) := by
    rw [rodrigues_pi]; simp; norm_num
  refine ⟨?_, ?_, ?_, ?_, ?_⟩
  · simp [angles_to_matrix, matrix_x, matrix_y, Mat3.mul]
  · rw [← e]; exact matrix_to_axis_angle_pi _ hy
  · simp [Vec3.normSq]
  · simp [Rotation.axis_angle_to_matrix_zero_axis, matrix_z]
  · intro h; simp only [Mat3.mk.injEq] at h; linarith [h.2.2.2.2.1]

/-- at angle π `matrix_to_quaternion` returns the zero quaternion — not a unit quaternion -/
theorem matrix_to_quaternion_angle_pi (n : Vec3 ℝ) (hn : n.normSq = 1) :
    matrix_to_quaternion (rodrigues n Real.pi) = some ⟨0, 0, 0, 0⟩ ∧ (⟨0, 0, 0, 0⟩ : Quat ℝ).normSq ≠ 1 :=
  ⟨matrix_to_quaternion_pi n hn, by simp [Quat.normSq]⟩

/-- at the identity the returned axis is `(0,0,0)`, not a unit vector (the matrix round trip still holds) -/
theorem matrix_to_axis_angle_identity :
    matrix_to_axis_angle (Mat3.one : Mat3 ℝ) = some ⟨⟨0, 0, 0⟩, 0⟩ ∧ (⟨0, 0, 0⟩ : Vec3 ℝ).normSq ≠ 1 ∧
    axis_angle_to_matrix (⟨0, 0, 0⟩ : Vec3 ℝ) 0 = Mat3.one :=
  ⟨matrix_to_axis_angle_one, by simp [Vec3.normSq], by
    rw [Rotation.axis_angle_to_matrix_zero_axis, matrix_z_zero]⟩

/-- same for the identity quaternion -/
theorem quaternion_to_axis_angle_identity :
    quaternion_to_axis_angle (identity_quaternion : Quat ℝ) = ⟨⟨0, 0, 0⟩, 0⟩ :=
  Rotation.quaternion_to_axis_angle_identity

/-- `matrix_to_quaternion` at the identity is fine -/
theorem matrix_to_quaternion_identity :
    matrix_to_quaternion (Mat3.one : Mat3 ℝ) = some identity_quaternion := by
  simp [matrix_to_quaternion, matrix_to_axis_angle_one, axis_angle_to_quaternion, normalize_zero,
    identity_quaternion]

end E3nnVerif.Props.C12
