import E3nnVerif.Sound.RTPChecks
import E3nnVerif.Props.C04
import E3nnVerif.Props.C17
import E3nnVerif.Cert.Gen
import Mathlib.LinearAlgebra.Matrix.DotProduct
/-
C10 — `o3.ReducedTensorProducts` / `io.CartesianTensor`.

Objects.  A configuration `c : Cfg` (Model/RTPChecks.lean) is the exact content of one module the real code built:
the formula's terms, the index irreps, `irreps_out` and the buffer `change_of_basis` with every entry lifted to
`±(n/d)√r`; it is regenerated from the code on every run and compared entry by entry with the float buffer.
  `Qreal c : Matrix (Fin D) (Idx irIn) ℝ`   the matrix `change_of_basis.flatten(1)` (`Idx` = multi-indices, row-major)
  `c.group`                                 the signed permutation group `germinate_formulas` returns (C17's model)
  `IsSym c t`                               `t[x] = s·t[x∘p]` for every `(s,p)` of the group: the tensors with the formula's symmetries
  `genBD a s`                               `direct_sum(so3_generators(l)[a] for l in s)`: the generator of `Irreps.D_from_angles`
  `Dirr s α β γ`                            `matrix_exp(α X_y) matrix_exp(β X_x) matrix_exp(γ X_y)` for those generators,
                                            i.e. `s.D_from_angles(α,β,γ)` (`Dirr_block`: block `(o,l)` of it is the code's `wigner_D(l,α,β,γ)`)
  `Pirr s`                                  the diagonal matrix of the parities, i.e. `s.D_from_angles(0,0,0,k=1)`

  `termsCheck c`, `isSym_iff_terms`          `IsSym` ⇔ the equalities literally written in the formula (C17's closure induction)

Theorems.  Hypotheses are only the kernel-decidable certificates (`Certified c`, `Complete c`), discharged by
`decide +kernel` per configuration in Cert/RTP/*.lean.  Everything is for ALL Euler angles, all `k`, all real tensors —
and for any number of indices (the product representation is built by recursion on the list of indices).
-/
namespace E3nnVerif.Props.C10
open E3nnVerif.Model.RTP E3nnVerif.Model.Wigner E3nnVerif.Theory E3nnVerif.Exact E3nnVerif.ReduceModel E3nnVerif.PermModel
open Matrix
open scoped BigOperators

/-- the certificates every configuration gets -/
structure Certified (c : Cfg) : Prop where
  group : groupCheck c = true
  ortho : orthoCheck c = true
  sym : symCheck c = true
  interX : interCheck c 0 = true
  interY : interCheck c 1 = true
  parity : parityCheck c = true

/-- the additional certificates of an unfiltered configuration -/
structure Complete (c : Cfg) : Prop where
  compl : complCheck c = true
  count : countCheck c = true

variable {c : Cfg}

/-! ## the representations -/

/-- `Irreps(s).D_from_angles(α, β, γ)` built from the code's generators (YXY convention of `wigner_D`) -/
noncomputable def Dirr (s : List Ir) (α β γ : ℝ) : Matrix (Fin (irDim s)) (Fin (irDim s)) ℝ :=
  eulerD (genBD 0 s) (genBD 1 s) α β γ

/-- inversion on `Irreps(s)`: `diag(p)` -/
noncomputable def Pirr (s : List Ir) : Matrix (Fin (irDim s)) (Fin (irDim s)) ℝ := Matrix.diagonal (parBD s)

/-- `irreps_out.D_from_angles(α, β, γ)` -/
noncomputable def Dout (c : Cfg) (α β γ : ℝ) : Matrix (Fin c.D) (Fin c.D) ℝ :=
  eulerD (XoutR c 0) (XoutR c 1) α β γ

/-- the product representation on the indices: `D₁(g) ⊗ … ⊗ Dₙ(g)` -/
noncomputable def Din (c : Cfg) (α β γ : ℝ) : Matrix (Idx c.irIn) (Idx c.irIn) ℝ :=
  kronProdL (fun s => Dirr s α β γ) c.irIn

theorem Dout_eq (c : Cfg) (α β γ : ℝ) : Dout c α β γ = Dirr c.irOut α β γ := rfl

/-- **the direct-sum representation really is the direct sum of the code's Wigner matrices**: on the block `(o, l)` of
    `Irreps(s)` the matrix `Dirr s α β γ` acts as `wigner_D(l, α, β, γ)` (C04's `wignerD`), for all angles -/
theorem Dirr_block (s : List Ir) (o l : ℕ) (h : (o, l) ∈ blocksFrom 0 s) (α β γ : ℝ) :
    Dirr s α β γ * blockIncl (irDim s) o (2 * l + 1)
      = blockIncl (irDim s) o (2 * l + 1) * C04.wignerD l α β γ :=
  intertwiner_eulerD (C04.genR l 0) (C04.genR l 1) (genBD 0 s) (genBD 1 s) (blockIncl (irDim s) o (2 * l + 1))
    (genBD_mul_blockIncl 0 s o l h) (genBD_mul_blockIncl 1 s o l h) α β γ

/-! ## (i) orthonormal rows, (ii) the formula's symmetries -/

/-- the rows of `change_of_basis` are orthonormal: `Q Qᵀ = 1` (the code's `correction` normalises every irrep block to
    squared norm `ir.dim`, i.e. every row to norm 1) -/
theorem rows_orthonormal (h : Certified c) : Qreal c * (Qreal c)ᵀ = 1 := ortho_of_check h.ortho

/-- every row is a tensor with the symmetries of the formula (all elements of the generated group) -/
theorem rows_symmetric (h : Certified c) (z : Fin c.D) : IsSym c (Qreal c z) :=
  fun a ha x y hy => sym_of_check h.group h.sym a ha z x y hy

/-- in particular the symmetries literally written in the formula: for every term `(s, p)` of the formula string,
    `Q[z, x] = s · Q[z, x∘p]` -/
theorem rows_formula_terms (h : Certified c) (t : SPerm) (ht : t ∈ c.terms) (z : Fin c.D) (x y : Idx c.irIn)
    (hy : y.toList = act x.toList t.2) : Qreal c z x = (t.1 : ℝ) * Qreal c z y :=
  rows_symmetric h z t ((group_of_check h.group).2.2.1 t ht) x y hy

/-- `c.group` is exactly what C17's model of `germinate_formulas` returns on the formula whose terms are `c.terms` -/
theorem group_eq_germinate {formula : String} {f0 : List Char} {G : List SPerm}
    (hg : germinateFormulas formula = .ok (f0, G)) (hn : c.nIdx = f0.length)
    (ht : c.terms = (parseTerms formula).map (termPerm f0)) : c.group = G := by
  unfold germinateFormulas at hg
  split at hg
  · cases hg
  · rename_i s0 f0' rest hp
    split_ifs at hg
    split at hg
    · rename_i g hgs
      cases hg
      unfold Cfg.group
      rw [hn, ht, hp, hgs]
    · cases hg

/-! ## (iv) equivariance under all of O(3) -/

/-- generator level: `X_out^a Q = Q (X^a ⊗ 1 ⊗ … + … + 1 ⊗ … ⊗ X^a)` for the x- and y-generators -/
theorem intertwines_generators (h : Certified c) :
    XoutR c 0 * Qreal c = Qreal c * kronSumL (genBD 0) c.irIn ∧
    XoutR c 1 * Qreal c = Qreal c * kronSumL (genBD 1) c.irIn :=
  ⟨inter_of_check h.interX, inter_of_check h.interY⟩

/-- **equivariance under every rotation**: `D_out(g) Q = Q (D₁(g) ⊗ … ⊗ Dₙ(g))` for all Euler angles -/
theorem equivariant_rotations (h : Certified c) (α β γ : ℝ) :
    Dout c α β γ * Qreal c = Qreal c * Din c α β γ := by
  have := intertwiner_eulerD (kronSumL (genBD 0) c.irIn) (kronSumL (genBD 1) c.irIn) (XoutR c 0) (XoutR c 1)
    (Qreal c) (inter_of_check h.interX) (inter_of_check h.interY) α β γ
  rw [eulerD_kronSumL] at this
  exact this

/-- inversion: `P_out Q = Q (P₁ ⊗ … ⊗ Pₙ)` — the parity of an output irrep is the product of the parities of the
    index irreps it is built from -/
theorem equivariant_inversion (h : Certified c) :
    PoutR c * Qreal c = Qreal c * kronProdL Pirr c.irIn := parity_of_check h.parity

/-- **equivariance under every element of O(3)**, in the parametrisation of `Irreps.D_from_angles(α, β, γ, k)`
    (`D(g) = p^k · D(α,β,γ)` on every irrep): `D_out(g) Q = Q (D₁(g) ⊗ … ⊗ Dₙ(g))` -/
theorem equivariant_O3 (h : Certified c) (k : ℕ) (α β γ : ℝ) :
    (PoutR c ^ k * Dout c α β γ) * Qreal c
      = Qreal c * kronProdL (fun s => Pirr s ^ k * Dirr s α β γ) c.irIn := by
  induction k with
  | zero =>
    simp only [pow_zero, Matrix.one_mul]
    exact equivariant_rotations h α β γ
  | succ k ih =>
    have e : (fun s => Pirr s ^ (k + 1) * Dirr s α β γ) = fun s => Pirr s * (Pirr s ^ k * Dirr s α β γ) := by
      funext s; rw [pow_succ', Matrix.mul_assoc]
    rw [e, ← kronProdL_mul, ← Matrix.mul_assoc (Qreal c), ← equivariant_inversion h, Matrix.mul_assoc (PoutR c),
      ← ih, pow_succ']
    simp only [Matrix.mul_assoc]

/-- equivariance on vectors: contracting rotated/inverted inputs = rotating/inverting the output
    (`t` any tensor on the indices, in particular `x₁ ⊗ … ⊗ xₙ`) -/
theorem equivariant_mulVec (h : Certified c) (k : ℕ) (α β γ : ℝ) (t : Idx c.irIn → ℝ) :
    Qreal c *ᵥ (kronProdL (fun s => Pirr s ^ k * Dirr s α β γ) c.irIn *ᵥ t)
      = (PoutR c ^ k * Dout c α β γ) *ᵥ (Qreal c *ᵥ t) := by
  rw [Matrix.mulVec_mulVec, Matrix.mulVec_mulVec, equivariant_O3 h]

/-! ## (iii) completeness -/

/-- `QᵀQ` is the group average `P = (1/|G|) Σ_{(s,p) ∈ G} s·Π_p` -/
theorem gram_eq_groupAverage (h : Certified c) (hc : Complete c) : (Qreal c)ᵀ * Qreal c = Pavg c :=
  compl_of_check h.group hc.compl

/-- symmetric tensors form a subspace (closed under linear combinations of the rows of `Q`, and under differences) -/
theorem isSym_vecMul (h : Certified c) (v : Fin c.D → ℝ) : IsSym c (v ᵥ* Qreal c) := by
  intro a ha x y hy
  simp only [Matrix.vecMul, dotProduct]
  rw [Finset.mul_sum]
  apply Finset.sum_congr rfl
  intro z _
  rw [rows_symmetric h z a ha x y hy]
  ring

theorem isSym_sub {t₁ t₂ : Idx c.irIn → ℝ} (h₁ : IsSym c t₁) (h₂ : IsSym c t₂) : IsSym c (t₁ - t₂) := by
  intro a ha x y hy
  simp only [Pi.sub_apply]
  rw [h₁ a ha x y hy, h₂ a ha x y hy]
  ring

/-- **completeness / no missing rows**: every tensor with the formula's symmetries is reproduced by `QᵀQ`, i.e. lies in
    the span of the rows -/
theorem complete (h : Certified c) (hc : Complete c) {t : Idx c.irIn → ℝ} (ht : IsSym c t) :
    ((Qreal c)ᵀ * Qreal c) *ᵥ t = t := by
  rw [gram_eq_groupAverage h hc]
  exact pavg_mulVec_of_isSym h.group ht

/-- **no spurious rows**: the image of `QᵀQ` consists of symmetric tensors -/
theorem range_symmetric (h : Certified c) (t : Idx c.irIn → ℝ) : IsSym c (((Qreal c)ᵀ * Qreal c) *ᵥ t) := by
  rw [← Matrix.mulVec_mulVec, Matrix.mulVec_transpose]
  exact isSym_vecMul h _

/-- the number of rows is `irreps_out.dim` (by construction of `Qreal`) and equals the number of non-cancelling orbits of
    `reduce_permutation` on the group (C17: `reduce_rows_support`), the dimension of the symmetric tensors -/
theorem row_count (hc : Complete c) : c.D = (reduceCore c.group c.dims).length := by
  have := hc.count
  simp only [countCheck, beq_iff_eq] at this
  exact this

/-! ## `CartesianTensor`: `from_cartesian(t) = t.flatten() @ Q.flatten(1).T`, `to_cartesian(v) = v @ Q.flatten(1)` -/

/-- `CartesianTensor.from_cartesian` (`rtp.change_of_basis` contracted with the tensor) -/
noncomputable def fromCartesian (c : Cfg) (t : Idx c.irIn → ℝ) : Fin c.D → ℝ := Qreal c *ᵥ t
/-- `CartesianTensor.to_cartesian` -/
noncomputable def toCartesian (c : Cfg) (v : Fin c.D → ℝ) : Idx c.irIn → ℝ := v ᵥ* Qreal c

/-- `from_cartesian(to_cartesian(v)) = v` for every `v` -/
theorem from_to_cartesian (h : Certified c) (v : Fin c.D → ℝ) : fromCartesian c (toCartesian c v) = v := by
  unfold fromCartesian toCartesian
  rw [← Matrix.mulVec_transpose, Matrix.mulVec_mulVec, rows_orthonormal h, Matrix.one_mulVec]

theorem to_from_eq (t : Idx c.irIn → ℝ) :
    toCartesian c (fromCartesian c t) = ((Qreal c)ᵀ * Qreal c) *ᵥ t := by
  unfold fromCartesian toCartesian
  rw [← Matrix.mulVec_transpose, Matrix.mulVec_mulVec]

/-- **`to_cartesian ∘ from_cartesian` is the orthogonal projection onto the symmetric tensors**:
    the result is symmetric, symmetric tensors are fixed, and the residual is orthogonal to every symmetric tensor -/
theorem to_from_cartesian_projection (h : Certified c) (hc : Complete c) (t : Idx c.irIn → ℝ) :
    IsSym c (toCartesian c (fromCartesian c t)) ∧
    (IsSym c t → toCartesian c (fromCartesian c t) = t) ∧
    ∀ s, IsSym c s → (t - toCartesian c (fromCartesian c t)) ⬝ᵥ s = 0 := by
  refine ⟨by rw [to_from_eq]; exact range_symmetric h t, fun ht => by rw [to_from_eq]; exact complete h hc ht, ?_⟩
  intro s hs
  rw [to_from_eq, sub_dotProduct]
  have hM : ((Qreal c)ᵀ * Qreal c)ᵀ = (Qreal c)ᵀ * Qreal c := by
    rw [Matrix.transpose_mul, Matrix.transpose_transpose]
  have : (((Qreal c)ᵀ * Qreal c) *ᵥ t) ⬝ᵥ s = t ⬝ᵥ (((Qreal c)ᵀ * Qreal c) *ᵥ s) := by
    rw [dotProduct_comm, Matrix.dotProduct_mulVec, ← Matrix.mulVec_transpose, hM, dotProduct_comm]
  rw [this, complete h hc hs, sub_self]

/-- the orthogonal projection onto the symmetric tensors is unique: any symmetric `p` whose residual `t - p` is
    orthogonal to all symmetric tensors is `to_cartesian(from_cartesian(t))` -/
theorem projection_unique (h : Certified c) (hc : Complete c) (t p : Idx c.irIn → ℝ) (hp : IsSym c p)
    (horth : ∀ s, IsSym c s → (t - p) ⬝ᵥ s = 0) : p = toCartesian c (fromCartesian c t) := by
  obtain ⟨h1, _, h3⟩ := to_from_cartesian_projection h hc t
  set q := toCartesian c (fromCartesian c t) with hq
  have hd : IsSym c (p - q) := isSym_sub hp h1
  have e1 := horth _ hd
  have e2 := h3 _ hd
  have : (p - q) ⬝ᵥ (p - q) = 0 := by
    have : (p - q) = (t - q) - (t - p) := by abel
    calc (p - q) ⬝ᵥ (p - q) = ((t - q) - (t - p)) ⬝ᵥ (p - q) := by rw [← this]
      _ = 0 := by rw [sub_dotProduct, e1, e2, sub_zero]
  have hz := (dotProduct_self_eq_zero (v := p - q)).mp this
  exact sub_eq_zero.mp hz

/-! ## `main` = contraction with `change_of_basis` -/

/-- for all real inputs, output component `z` of batch row `b` of the FX program `main` (translated by fx2ir, sub-modules
    inlined) is `Σ_x Q[z,x] · x₁[b,x₁] ⋯ xₙ[b,xₙ]` (`env` assigns the input components: input `k`, batch row `b`,
    component `j` is variable `varBases … k + j`) -/
theorem main_eq_contraction {B : ℕ} {prog : List IR.Node} (h : progCheck c B prog = true) (env : ℕ → ℝ)
    (b : ℕ) (hb : b < B) (z : Fin c.D) :
    (IR.interp (K := ℝ) env prog).getD (b * c.D + z.val) 0
      = ∑ x : Idx c.irIn, Qreal c z x * prodVars env c.irIn (varBases B b 0 c.irIn) x :=
  prog_of_check h env b hb z

/-! ## the symmetric tensors are those satisfying the equalities written in the formula -/

/-- the formula's terms are signed permutations of the `n` indices (what `germinate_formulas` accepts) -/
def termsCheck (c : Cfg) : Bool :=
  !c.terms.isEmpty && c.terms.all fun a => (a.1 == 1 || a.1 == -1) && isPerm a.2 && a.2.length == c.nIdx

theorem length_toList : ∀ {L : List (List Ir)} (x : Idx L), x.toList.length = L.length
  | [], _ => rfl
  | _ :: L, (_, x) => by rw [IdxL.toList_cons, List.length_cons, length_toList (L := L) x, List.length_cons]


/-- **the symmetric tensors are exactly the tensors satisfying the equalities written in the formula**: a tensor that
    satisfies `t[x] = s·t[x∘p]` for the TERMS of the formula satisfies it for every element of the group they generate -/
theorem isSym_of_terms (ht : termsCheck c = true) (hg : groupCheck c = true) {t : Idx c.irIn → ℝ}
    (h : ∀ a ∈ c.terms, ∀ x y : Idx c.irIn, y.toList = act x.toList a.2 → t x = (a.1 : ℝ) * t y) : IsSym c t := by
  simp only [termsCheck, Bool.and_eq_true, Bool.not_eq_true', List.all_eq_true, Bool.or_eq_true, beq_iff_eq] at ht
  obtain ⟨hne, hterms⟩ := ht
  have hne' : c.terms ≠ [] := by intro e; rw [e] at hne; simp at hne
  obtain ⟨G, hG, _, _, _, hind⟩ := C17.germinate_signed_spec (n := c.nIdx) (gens := c.terms) hne'
    (fun a ha => ⟨(hterms a ha).1.1, (hterms a ha).1.2, (hterms a ha).2⟩)
  have hgrp : c.group = G := by unfold Cfg.group; rw [hG]
  obtain ⟨_, _, hmem, hval⟩ := group_of_check hg
  let T : SPerm → Prop := fun a => (a.1 = 1 ∨ a.1 = -1) ∧ IsPerm a.2 ∧ a.2.length = c.nIdx ∧
    (∀ x : Idx c.irIn, ∃ y : Idx c.irIn, y.toList = act x.toList a.2) ∧
    (∀ x y : Idx c.irIn, y.toList = act x.toList a.2 → t x = (a.1 : ℝ) * t y)
  have hlen : ∀ x : Idx c.irIn, x.toList.length = c.nIdx := fun x => length_toList x
  have hall : ∀ a ∈ G, T a := by
    apply hind T
    · intro a ha
      exact ⟨(hterms a ha).1.1, isPerm_iff.1 (hterms a ha).1.2, (hterms a ha).2, hval a (hmem a ha), h a ha⟩
    · -- inverse
      rintro ⟨s, p⟩ ⟨hs, hp, hl, hv, hsym⟩
      have back : ∀ x y : Idx c.irIn, y.toList = act x.toList (inverseRaw p) → x.toList = act y.toList p := by
        intro x y hy
        rw [hy, act_act hp (by simp), inverseRaw_composeRaw hp, act_identity]
        rw [hlen x, hl]
      -- x ↦ x∘p is injective on the (finite) index set, hence surjective
      choose f hf using hv
      have finj : Function.Injective f := by
        intro x x' e
        apply IdxL.toList_injective
        have h1 := act_act_inverseRaw (x := x.toList) hp (by rw [hlen x, hl])
        have h2 := act_act_inverseRaw (x := x'.toList) hp (by rw [hlen x', hl])
        rw [← h1, ← h2, ← hf x, ← hf x', e]
      have fsurj := Finite.surjective_of_injective finj
      refine ⟨hs, hp.inverseRaw, by simp [sInv, hl], ?_, ?_⟩
      · intro x
        obtain ⟨w, hw⟩ := fsurj x
        refine ⟨w, ?_⟩
        show w.toList = act x.toList (inverseRaw p)
        rw [← hw, hf w, act_act_inverseRaw hp (by rw [hlen w, hl])]
      · intro x y hy
        have := hsym y x (back x y hy)
        show t x = (s : ℝ) * t y
        rcases hs with rfl | rfl <;> simp at this ⊢ <;> linarith
    · -- product
      rintro ⟨s, p⟩ ⟨s', q⟩ ⟨hs, hp, hl, hv, hsym⟩ ⟨hs', hq, hl', hv', hsym'⟩
      have hcomp : ∀ x : List ℕ, act x (composeRaw p q) = act (act x p) q := fun x =>
        (act_act hq (by rw [hl, hl'])).symm
      refine ⟨?_, hp.composeRaw hq (by rw [hl, hl']), by simp [sMul, hl], ?_, ?_⟩
      · show s * s' = 1 ∨ s * s' = -1
        rcases hs with rfl | rfl <;> rcases hs' with rfl | rfl <;> simp
      · intro x
        obtain ⟨w, hw⟩ := hv x
        obtain ⟨y, hy⟩ := hv' w
        exact ⟨y, by show y.toList = act x.toList (composeRaw p q); rw [hcomp, ← hw, hy]⟩
      · intro x y hy
        obtain ⟨w, hw⟩ := hv x
        have hy' : y.toList = act w.toList q := by
          rw [hw, ← hcomp]; exact hy
        show t x = ((s * s' : ℤ) : ℝ) * t y
        rw [hsym x w hw, hsym' w y hy']
        push_cast; ring
  intro a ha x y hy
  rw [hgrp] at ha
  exact (hall a ha).2.2.2.2 x y hy

/-- … and conversely (the terms belong to the group) -/
theorem isSym_iff_terms (ht : termsCheck c = true) (hg : groupCheck c = true) (t : Idx c.irIn → ℝ) :
    IsSym c t ↔ ∀ a ∈ c.terms, ∀ x y : Idx c.irIn, y.toList = act x.toList a.2 → t x = (a.1 : ℝ) * t y :=
  ⟨fun h a ha => h a ((group_of_check hg).2.2.1 a ha), isSym_of_terms ht hg⟩



/-! ## orthogonality of the representations; equivariance of `to_cartesian` -/

/-- entries of the direct-sum generator are antisymmetric when every block is -/
theorem bdGet_skew (a : ℕ) : ∀ (s : List Ir), (∀ ir ∈ s, skewCheck (2 * ir.1 + 1) (so3Gen ir.1 a) = true) →
    ∀ r c : ℕ, (bdGet a s r c).eval + (bdGet a s c r).eval = 0
  | [], _, _, _ => by simp [bdGet]
  | ir :: rest, h, r, c => by
    have hsk := h ir (List.mem_cons_self ..)
    have ih := bdGet_skew a rest (fun ir' h' => h ir' (List.mem_cons_of_mem _ h'))
    unfold bdGet
    simp only
    by_cases hr : r < 2 * ir.1 + 1 <;> by_cases hc : c < 2 * ir.1 + 1
    · have e1 : Nat.blt r (2 * ir.1 + 1) = true := by rw [Nat.blt_eq]; exact hr
      have e2 : Nat.blt c (2 * ir.1 + 1) = true := by rw [Nat.blt_eq]; exact hc
      rw [e1, e2]
      simp only [cond_true]
      have := SqrtQ.eval_of_isZero (all2_spec hsk r hr c hc)
      rw [SqrtQ.eval_hadd] at this
      exact this
    · have e1 : Nat.blt r (2 * ir.1 + 1) = true := by rw [Nat.blt_eq]; exact hr
      have e2 : Nat.blt c (2 * ir.1 + 1) = false := by
        cases h' : Nat.blt c (2 * ir.1 + 1)
        · rfl
        · rw [Nat.blt_eq] at h'; exact absurd h' hc
      rw [e1, e2]; simp
    · have e1 : Nat.blt r (2 * ir.1 + 1) = false := by
        cases h' : Nat.blt r (2 * ir.1 + 1)
        · rfl
        · rw [Nat.blt_eq] at h'; exact absurd h' hr
      have e2 : Nat.blt c (2 * ir.1 + 1) = true := by rw [Nat.blt_eq]; exact hc
      rw [e1, e2]; simp
    · have e1 : Nat.blt r (2 * ir.1 + 1) = false := by
        cases h' : Nat.blt r (2 * ir.1 + 1)
        · rfl
        · rw [Nat.blt_eq] at h'; exact absurd h' hr
      have e2 : Nat.blt c (2 * ir.1 + 1) = false := by
        cases h' : Nat.blt c (2 * ir.1 + 1)
        · rfl
        · rw [Nat.blt_eq] at h'; exact absurd h' hc
      rw [e1, e2]
      simp only [cond_false]
      exact ih _ _

theorem genCert_skewCheck {l : ℕ} (h : genCert l = true) (a : ℕ) (ha : a < 3) :
    skewCheck (2 * l + 1) (so3Gen l a) = true := by
  simp only [genCert, Bool.and_eq_true] at h
  obtain ⟨⟨⟨⟨⟨⟨⟨⟨⟨_, _⟩, _⟩, h0⟩, h1⟩, h2⟩, _⟩, _⟩, _⟩, _⟩ := h
  interval_cases a
  · exact h0
  · exact h1
  · exact h2

/-- the direct-sum generators are antisymmetric -/
theorem genBD_skew (a : ℕ) (ha : a < 3) (s : List Ir) (hs : ∀ ir ∈ s, genCert ir.1 = true) :
    (genBD a s)ᵀ = -genBD a s := by
  ext r c
  have := bdGet_skew a s (fun ir h => genCert_skewCheck (hs ir h) a ha) r.val c.val
  rw [Matrix.transpose_apply, Matrix.neg_apply, genBD_apply, genBD_apply, bdMat, get_tabulate2 _ _ _ _ _ c.isLt r.isLt,
    get_tabulate2 _ _ _ _ _ r.isLt c.isLt]
  linarith

/-- `Irreps.D_from_angles` is orthogonal, and the inverse rotation has Euler angles `(-γ, -β, -α)` -/
theorem Dirr_orthogonal (s : List Ir) (hs : ∀ ir ∈ s, genCert ir.1 = true) (α β γ : ℝ) :
    (Dirr s α β γ)ᵀ * Dirr s α β γ = 1 ∧ Dirr s (-γ) (-β) (-α) = (Dirr s α β γ)ᵀ :=
  ⟨eulerD_orthogonal_of_skew _ _ (genBD_skew 0 (by omega) s hs) (genBD_skew 1 (by omega) s hs) α β γ,
   eulerD_neg_eq_transpose_of_skew _ _ (genBD_skew 0 (by omega) s hs) (genBD_skew 1 (by omega) s hs) α β γ⟩

/-- the certified range of the generator certificates (C04): degrees ≤ 5 -/
theorem genCert_le5 : ∀ l : ℕ, l ≤ 5 → genCert l = true := by
  intro l h; interval_cases l
  · exact Cert.Gen.gen_0
  · exact Cert.Gen.gen_1
  · exact Cert.Gen.gen_2
  · exact Cert.Gen.gen_3
  · exact Cert.Gen.gen_4
  · exact Cert.Gen.gen_5


/-- the product representation on the indices is orthogonal -/
theorem Din_orthogonal (hs : ∀ s ∈ c.irIn, ∀ ir ∈ s, genCert ir.1 = true) (α β γ : ℝ) :
    (Din c α β γ)ᵀ * Din c α β γ = 1 :=
  kronProdL_orthogonal _ _ (fun s h => (Dirr_orthogonal s (hs s h) α β γ).1)

theorem kronProdL_congr {σ : Type} {dim : σ → ℕ} (D E : MatFam dim) : ∀ (L : List σ), (∀ s ∈ L, D s = E s) →
    kronProdL D L = kronProdL E L
  | [], _ => rfl
  | s :: L, h => by
    rw [kronProdL_cons, kronProdL_cons, h s (List.mem_cons_self ..),
      kronProdL_congr D E L (fun s' hs' => h s' (List.mem_cons_of_mem _ hs'))]

/-- **`to_cartesian` is equivariant too**: `to_cartesian(D_out(g) v) = (D₁(g) ⊗ … ⊗ Dₙ(g)) to_cartesian(v)` -/
theorem toCartesian_equivariant (h : Certified c) (hout : ∀ ir ∈ c.irOut, genCert ir.1 = true)
    (hin : ∀ s ∈ c.irIn, ∀ ir ∈ s, genCert ir.1 = true) (α β γ : ℝ) (v : Fin c.D → ℝ) :
    toCartesian c (Dout c α β γ *ᵥ v) = Din c α β γ *ᵥ toCartesian c v := by
  have e := equivariant_rotations h (-γ) (-β) (-α)
  have e1 : Dout c (-γ) (-β) (-α) = (Dout c α β γ)ᵀ := (Dirr_orthogonal c.irOut hout α β γ).2
  have e2 : Din c (-γ) (-β) (-α) = (Din c α β γ)ᵀ := by
    unfold Din
    rw [kronProdL_transpose]
    exact kronProdL_congr _ _ _ (fun s hs => (Dirr_orthogonal s (hin s hs) α β γ).2)
  rw [e1, e2] at e
  unfold toCartesian
  rw [← Matrix.vecMul_transpose, Matrix.vecMul_vecMul, e, ← Matrix.vecMul_vecMul, Matrix.vecMul_transpose]

def lLe5 (s : List Ir) : Bool := s.all fun ir => Nat.ble ir.1 5

theorem genCert_of_lLe5 {s : List Ir} (h : lLe5 s = true) : ∀ ir ∈ s, genCert ir.1 = true := by
  intro ir hir
  simp only [lLe5, List.all_eq_true, Nat.ble_eq] at h
  exact genCert_le5 ir.1 (h ir hir)

/-! ## non-vacuity: `ReducedTensorProducts("ij=-ji", i="1o")` (= `CartesianTensor("ij=-ji")`, the cross product) -/

namespace Example
def row0 : Tens [[(1, true)], [(1, true)]] := [[[], [], []], [[], [], [(2, ⟨1, 1⟩)]], [[], [(2, ⟨-1, 1⟩)], []]]
def row1 : Tens [[(1, true)], [(1, true)]] := [[[], [], [(2, ⟨-1, 1⟩)]], [[], [], []], [[(2, ⟨1, 1⟩)], [], []]]
def row2 : Tens [[(1, true)], [(1, true)]] := [[[], [(2, ⟨1, 1⟩)], []], [[(2, ⟨-1, 1⟩)], [], []], [[], [], []]]
/-- exact content of the module the real code builds for `ij=-ji`, `i = 1o`: `irreps_out = 1x1e`, entries `±1/√2` -/
def cfg : Cfg :=
  { terms := [(1, [0, 1]), (-1, [1, 0])], irIn := [[(1, true)], [(1, true)]], irOut := [(1, false)], complete := true,
    Q := [row0, row1, row2] }
end Example

example : Certified Example.cfg :=
  ⟨by decide +kernel, by decide +kernel, by decide +kernel, by decide +kernel, by decide +kernel, by decide +kernel⟩
example : Complete Example.cfg := ⟨by decide +kernel, by decide +kernel⟩
example : Example.cfg.group = [(1, [0, 1]), (-1, [1, 0])] := by decide +kernel
example : (0, 1) ∈ blocksFrom 0 Example.cfg.irOut := by decide
example : termsCheck Example.cfg = true := by decide +kernel
example : lLe5 Example.cfg.irOut = true ∧ Example.cfg.irIn.all lLe5 = true := by decide

end E3nnVerif.Props.C10
