import E3nnVerif.Props.C03
import E3nnVerif.Theory.BilSpan
import E3nnVerif.Sound.WignerGram
import E3nnVerif.Cert.W3jCore
import E3nnVerif.Cert.W3j.Rec3
import E3nnVerif.Cert.W3j.Rec4
import E3nnVerif.Cert.W3j.Rec5
import E3nnVerif.Cert.W3j.Rec6
import E3nnVerif.Cert.W3j.Rec7
import E3nnVerif.Cert.W3j.Gram1
import E3nnVerif.Cert.W3j.Gram2
import E3nnVerif.Cert.W3j.Gram3
import E3nnVerif.Cert.W3j.Gram4
import E3nnVerif.Cert.W3j.Gram5
import E3nnVerif.Cert.W3j.Gram6
import E3nnVerif.Cert.W3j.Gram7
/-
C03, the homomorphism property `D^l(g₁ g₂) = D^l(g₁) D^l(g₂)` — the `WignerDHom l` that `Props/C03.lean` leaves as
a named hypothesis for `l ≥ 2` — PROVED for every degree `l ≤ 8` (setup / quick tier; `Props/C03HomExt.lean`
continues the chain to `l ≤ 12` in the thorough tier).

No Lie theory: induction on `l` through the Clebsch–Gordan intertwiner `T = wigner_3j(l, 1, l+1)`.
  * `C04.w3j_equivariant` (from the kernel certificate `w3jCert l 1 (l+1)`, valid for EVERY Euler triple):
        D^{l+1}(g) (T(u,v)) = T(D^l(g) u, D^1(g) v)
    so if `R(g₃) = R(g₁)R(g₂)` then, by the induction hypotheses for `l` and for `1` (`D^1 = R`, `wignerDHom_one`),
        D^{l+1}(g₃) T(u,v) = T(D^l(g₁)D^l(g₂)u, D^1(g₁)D^1(g₂)v) = D^{l+1}(g₁) D^{l+1}(g₂) T(u,v)   for all u, v;
  * the new kernel certificate `gramCheck l 1 (l+1)` (`Model/WignerGram.lean`, soundness `Sound/WignerGram.lean`):
        Σ_{ij} T[i,j,k] T[i,j,k'] = δ_{kk'}/(2l+3),
    hence the image of `T` spans ℝ^{2l+3} (`Theory/BilSpan.lean`) and the two matrices are equal.

Everything is for ALL real angles.  The statements of `Props/C03.lean` that carried the hypothesis
(`wignerD_compose_partial`, `irrepD_from_matrix_angles_partial`, `irrepD_forms_agree_partial`, the hypothesis of
`irrepD_mul_parity` / `irrepsD_mul`) are restated here without it for `l ≤ 8`.
-/
namespace E3nnVerif.Props.C03
open E3nnVerif E3nnVerif.Model.Wigner E3nnVerif.Model.WignerD E3nnVerif.Model.Irreps E3nnVerif.Theory
open E3nnVerif.Theory.DirectSum E3nnVerif.Props.C04 E3nnVerif.Rotation E3nnVerif.Cert
open Matrix
open scoped BigOperators

/-! ## 1. the induction step -/

/-- the Gram matrix of the real table `wigner_3j(l1,l2,l3)` (last index) is `1/(2·l3+1)·1` -/
theorem w3j_gram {l1 l2 l3 : ℕ} (h : gramCheck l1 l2 l3 = true) (k k' : Fin (2 * l3 + 1)) :
    ∑ i, ∑ j, w3jR l1 l2 l3 i j k * w3jR l1 l2 l3 i j k' = if k = k' then 1 / (2 * (l3 : ℝ) + 1) else 0 :=
  gram_of_check h k k'

/-- the Clebsch–Gordan contraction `l1 ⊗ l2 → l3` is onto: every basis vector is a combination of values of `bil` -/
theorem w3j_onto {l1 l2 l3 : ℕ} (h : gramCheck l1 l2 l3 = true) (k : Fin (2 * l3 + 1)) :
    (Pi.single k 1 : Fin (2 * l3 + 1) → ℝ)
      = (2 * (l3 : ℝ) + 1) • ∑ i, ∑ j, w3jR l1 l2 l3 i j k • bil (w3jR l1 l2 l3) (Pi.single i 1) (Pi.single j 1) := by
  have hpos : (2 * (l3 : ℝ) + 1) ≠ 0 := by positivity
  rw [← BilSpan.single_eq_sum (w3jR l1 l2 l3) (1 / (2 * (l3 : ℝ) + 1)) (w3j_gram h) k, smul_smul,
    mul_one_div_cancel hpos, one_smul]

/-- **induction step**: the homomorphism property passes from `l` (and `1`) to `l+1` -/
theorem wignerDHom_step {l : ℕ} (hl : WignerDHom l) (h1 : WignerDHom 1)
    (hw : w3jCert l 1 (l + 1) = true) (hg : gramCheck l 1 (l + 1) = true) : WignerDHom (l + 1) := by
  intro a b c a₁ b₁ c₁ a₂ b₂ c₂ h
  have hc : (1 / (2 * ((l + 1 : ℕ) : ℝ) + 1)) ≠ 0 := by positivity
  refine BilSpan.matrix_eq_of_gram (w3jR l 1 (l + 1)) _ hc (w3j_gram hg) _ _ fun u v => ?_
  rw [← w3j_equivariant hw a b c, hl _ _ _ _ _ _ _ _ _ h, h1 _ _ _ _ _ _ _ _ _ h, ← Matrix.mulVec_mulVec,
    ← Matrix.mulVec_mulVec, w3j_equivariant hw a₁ b₁ c₁, w3j_equivariant hw a₂ b₂ c₂, Matrix.mulVec_mulVec]

/-! ## 2. the chain `l = 0 … 8` -/

theorem wignerDHom_two : WignerDHom 2 := wignerDHom_step wignerDHom_one wignerDHom_one W3j.cert_1_1_2 W3j.gram_1_1_2
theorem wignerDHom_three : WignerDHom 3 := wignerDHom_step wignerDHom_two wignerDHom_one W3j.cert_2_1_3 W3j.gram_2_1_3
theorem wignerDHom_four : WignerDHom 4 := wignerDHom_step wignerDHom_three wignerDHom_one W3j.cert_3_1_4 W3j.gram_3_1_4
theorem wignerDHom_five : WignerDHom 5 := wignerDHom_step wignerDHom_four wignerDHom_one W3j.cert_4_1_5 W3j.gram_4_1_5
theorem wignerDHom_six : WignerDHom 6 := wignerDHom_step wignerDHom_five wignerDHom_one W3j.cert_5_1_6 W3j.gram_5_1_6
theorem wignerDHom_seven : WignerDHom 7 := wignerDHom_step wignerDHom_six wignerDHom_one W3j.cert_6_1_7 W3j.gram_6_1_7
theorem wignerDHom_eight : WignerDHom 8 := wignerDHom_step wignerDHom_seven wignerDHom_one W3j.cert_7_1_8 W3j.gram_7_1_8

/-- **`D^l(g₁ g₂) = D^l(g₁) D^l(g₂)` for every `l ≤ 8`**: whenever the rotation matrices of three Euler triples
multiply, so do their Wigner matrices — all real angles, no hypothesis left -/
theorem wignerDHom_le8 : ∀ l, l ≤ 8 → WignerDHom l := by
  intro l h; interval_cases l
  exacts [wignerDHom_zero, wignerDHom_one, wignerDHom_two, wignerDHom_three, wignerDHom_four, wignerDHom_five,
    wignerDHom_six, wignerDHom_seven, wignerDHom_eight]

/-! ## 3. consequences, stated for any degree with the property (used again by `Props/C03HomExt.lean`) -/

/-- one irrep, possibly improper elements: `D(g₁,j) D(g₂,k) = D(g₁g₂, j+k)` -/
theorem irrepD_mul_of_hom (ir : Irrep) (hom : WignerDHom ir.l) (hg : genCert ir.l = true)
    (hy : genYBlockCheck ir.l = true) (a b c a' b' c' a'' b'' c'' : ℝ) (j k : ℤ)
    (hR : toMatrix (angles_to_matrix a'' b'' c'')
      = toMatrix (angles_to_matrix a b c) * toMatrix (angles_to_matrix a' b' c')) :
    irrepD ir a b c j * irrepD ir a' b' c' k = irrepD ir a'' b'' c'' (j + k) := by
  apply irrepD_mul_parity
  simp only [irrepD, parityFactor_zero, Int.cast_one, one_smul, wigner_D_eq hg hy]
  exact (hom _ _ _ _ _ _ _ _ _ hR).symm

/-- `Irrep.D_from_matrix` is multiplicative on SO(3): for rotation matrices `R`, `S` none of the three calls raises and
`D(R·S) = D(R)·D(S)` -/
theorem irrepD_from_matrix_mul_of_hom (ir : Irrep) (hom : WignerDHom ir.l) (hg : genCert ir.l = true)
    (hy : genYBlockCheck ir.l = true) (R S : Mat3 ℝ) (hR : toMatrix R ∈ SO3) (hS : toMatrix S ∈ SO3) :
    ∃ A B, irrepD_from_matrix ir R = .ok A ∧ irrepD_from_matrix ir S = .ok B ∧
      irrepD_from_matrix ir (R.mul S) = .ok (A * B) := by
  have hRS : toMatrix (R.mul S) ∈ SO3 := by rw [toMatrix_mul]; exact mul_mem hR hS
  obtain ⟨a, _, ha, hA⟩ := irrepD_from_matrix_rotation ir R hR
  obtain ⟨b, _, hb, hB⟩ := irrepD_from_matrix_rotation ir S hS
  obtain ⟨c, _, hc, hC⟩ := irrepD_from_matrix_rotation ir (R.mul S) hRS
  refine ⟨_, _, hA, hB, ?_⟩
  rw [hC, irrepD_mul_of_hom ir hom hg hy a.alpha a.beta a.gamma b.alpha b.beta b.gamma c.alpha c.beta c.gamma 0 0
    (by rw [ha, hb, hc, toMatrix_mul])]
  rfl

/-- direct sums: if every degree of the `Irreps` has the property, `D(g₁,j) D(g₂,k) = D(g₁g₂, j+k)` entrywise -/
theorem irrepsD_mul_of_hom (irs : Irreps) (hom : ∀ ir ∈ blocks irs, WignerDHom ir.l)
    (hg : ∀ ir ∈ blocks irs, genCert ir.l = true) (hy : ∀ ir ∈ blocks irs, genYBlockCheck ir.l = true)
    (a b c a' b' c' a'' b'' c'' : ℝ) (j k : ℤ)
    (hR : toMatrix (angles_to_matrix a'' b'' c'')
      = toMatrix (angles_to_matrix a b c) * toMatrix (angles_to_matrix a' b' c')) (r s : ℕ) :
    ∑ t ∈ Finset.range (Model.Irreps.dim irs), ds (irrepsBlocks irs a b c j) r t * ds (irrepsBlocks irs a' b' c' k) t s
      = ds (irrepsBlocks irs a'' b'' c'' (j + k)) r s :=
  irrepsD_mul irs a b c a' b' c' a'' b'' c'' j k (j + k)
    (fun ir hir => irrepD_mul_of_hom ir (hom ir hir) (hg ir hir) (hy ir hir) a b c a' b' c' a'' b'' c'' j k hR) r s

/-! ## 4. `l ≤ 8`: the `_partial` theorems of `Props/C03.lean` with the hypothesis discharged -/

/-- **homomorphism with `compose_angles`** (all six angles, `l ≤ 8`): `o3.compose_angles` never fails and the Wigner
matrix of the angles it returns is the product — `wignerD_compose_partial` without its hypothesis -/
theorem wignerD_compose_le8 (l : ℕ) (hl : l ≤ 8) (a₁ b₁ c₁ a₂ b₂ c₂ : ℝ) :
    ∃ a, compose_angles a₁ b₁ c₁ a₂ b₂ c₂ = some a ∧
      wignerD l a.alpha a.beta a.gamma = wignerD l a₁ b₁ c₁ * wignerD l a₂ b₂ c₂ :=
  wignerD_compose_partial (wignerDHom_le8 l hl) a₁ b₁ c₁ a₂ b₂ c₂

/-- … and for the code's `wigner_D` with its `% 2π` reduction -/
theorem wigner_D_compose_le8 (l : ℕ) (hl : l ≤ 8) (a₁ b₁ c₁ a₂ b₂ c₂ : ℝ) :
    ∃ a, compose_angles a₁ b₁ c₁ a₂ b₂ c₂ = some a ∧
      wigner_D l a.alpha a.beta a.gamma = wigner_D l a₁ b₁ c₁ * wigner_D l a₂ b₂ c₂ := by
  obtain ⟨hg, hy⟩ := certified l (by omega)
  simp only [wigner_D_eq hg hy]
  exact wignerD_compose_le8 l hl a₁ b₁ c₁ a₂ b₂ c₂

/-- **`D^l` factors through SO(3)** (`l ≤ 8`): angle triples with the same rotation matrix have the same Wigner matrix -/
theorem wignerD_factors_through_SO3_le8 (l : ℕ) (hl : l ≤ 8) : WignerDFactorsThroughSO3 l :=
  wignerD_factors_through_SO3_of_hom (wignerDHom_le8 l hl)

/-- **angles ↔ matrix** (`l ≤ 8`, both parities): `D_from_matrix(angles_to_matrix(α,β,γ)) = D_from_angles(α,β,γ)` —
`irrepD_from_matrix_angles_partial` without its hypotheses -/
theorem irrepD_from_matrix_angles_le8 (ir : Irrep) (hl : ir.l ≤ 8) (α β γ : ℝ) :
    irrepD_from_matrix ir (angles_to_matrix α β γ) = .ok (irrepD ir α β γ 0) :=
  irrepD_from_matrix_angles_partial ir (certified _ (by omega)).1 (certified _ (by omega)).2
    (wignerD_factors_through_SO3_le8 _ hl) α β γ

/-- **the four input forms agree** (`l ≤ 8`) — `irrepD_forms_agree_partial` without its hypotheses -/
theorem irrepD_forms_agree_le8 (ir : Irrep) (hl : ir.l ≤ 8) (q : Quat ℝ) (axis : Vec3 ℝ) (angle : ℝ)
    (h : quaternion_to_matrix q = axis_angle_to_matrix axis angle) :
    irrepD_from_quaternion ir q 0 = irrepD_from_axis_angle ir axis angle ∧
    irrepD_from_matrix ir (quaternion_to_matrix q) = irrepD_from_quaternion ir q 0 :=
  irrepD_forms_agree_partial ir (wignerD_factors_through_SO3_le8 _ hl) (certified _ (by omega)).1
    (certified _ (by omega)).2 q axis angle h

/-- **one irrep is a representation of O(3)** (`l ≤ 8`): `D(g₁,j) D(g₂,k) = D(g₁g₂, j+k)` whenever the rotation matrices
multiply — the hypothesis of `irrepD_mul_parity` discharged -/
theorem irrepD_mul_le8 (ir : Irrep) (hl : ir.l ≤ 8) (a b c a' b' c' a'' b'' c'' : ℝ) (j k : ℤ)
    (hR : toMatrix (angles_to_matrix a'' b'' c'')
      = toMatrix (angles_to_matrix a b c) * toMatrix (angles_to_matrix a' b' c')) :
    irrepD ir a b c j * irrepD ir a' b' c' k = irrepD ir a'' b'' c'' (j + k) :=
  irrepD_mul_of_hom ir (wignerDHom_le8 _ hl) (certified _ (by omega)).1 (certified _ (by omega)).2
    a b c a' b' c' a'' b'' c'' j k hR

/-- `Irrep.D_from_matrix` is multiplicative on SO(3) (`l ≤ 8`) -/
theorem irrepD_from_matrix_mul_le8 (ir : Irrep) (hl : ir.l ≤ 8) (R S : Mat3 ℝ)
    (hR : toMatrix R ∈ SO3) (hS : toMatrix S ∈ SO3) :
    ∃ A B, irrepD_from_matrix ir R = .ok A ∧ irrepD_from_matrix ir S = .ok B ∧
      irrepD_from_matrix ir (R.mul S) = .ok (A * B) :=
  irrepD_from_matrix_mul_of_hom ir (wignerDHom_le8 _ hl) (certified _ (by omega)).1 (certified _ (by omega)).2 R S hR hS

/-- **direct sums are representations** (every degree `≤ 8`): the hypothesis of `irrepsD_mul` discharged -/
theorem irrepsD_mul_le8 (irs : Irreps) (h : ∀ e ∈ irs, e.2.l ≤ 8) (a b c a' b' c' a'' b'' c'' : ℝ) (j k : ℤ)
    (hR : toMatrix (angles_to_matrix a'' b'' c'')
      = toMatrix (angles_to_matrix a b c) * toMatrix (angles_to_matrix a' b' c')) (r s : ℕ) :
    ∑ t ∈ Finset.range (Model.Irreps.dim irs), ds (irrepsBlocks irs a b c j) r t * ds (irrepsBlocks irs a' b' c' k) t s
      = ds (irrepsBlocks irs a'' b'' c'' (j + k)) r s := by
  have hl : ∀ ir ∈ blocks irs, ir.l ≤ 8 := fun ir hir => by
    obtain ⟨e, he, rfl⟩ := mem_blocks hir
    exact h e he
  exact irrepsD_mul_of_hom irs (fun ir hir => wignerDHom_le8 _ (hl ir hir))
    (fun ir hir => (certified _ (by have := hl ir hir; omega)).1)
    (fun ir hir => (certified _ (by have := hl ir hir; omega)).2) a b c a' b' c' a'' b'' c'' j k hR r s

/-- … with the angles `o3.compose_angles` returns -/
theorem irrepsD_compose_le8 (irs : Irreps) (h : ∀ e ∈ irs, e.2.l ≤ 8) (a₁ b₁ c₁ a₂ b₂ c₂ : ℝ) (j k : ℤ) :
    ∃ a, compose_angles a₁ b₁ c₁ a₂ b₂ c₂ = some a ∧ ∀ r s : ℕ,
      ∑ t ∈ Finset.range (Model.Irreps.dim irs),
          ds (irrepsBlocks irs a₁ b₁ c₁ j) r t * ds (irrepsBlocks irs a₂ b₂ c₂ k) t s
        = ds (irrepsBlocks irs a.alpha a.beta a.gamma (j + k)) r s := by
  obtain ⟨a, h1, h2⟩ := C12.compose_angles_matrix a₁ b₁ c₁ a₂ b₂ c₂
  exact ⟨a, h1, fun r s => irrepsD_mul_le8 irs h a₁ b₁ c₁ a₂ b₂ c₂ a.alpha a.beta a.gamma j k h2 r s⟩

/-! ## 5. non-vacuity -/

/-- the certificates of one step -/
example : w3jCert 7 1 8 = true ∧ gramCheck 7 1 8 = true := ⟨W3j.cert_7_1_8, W3j.gram_7_1_8⟩

/-- two concrete NON-commuting rotations, `g₁ = Rx(π/2)` (angles `(0, π/2, 0)`) and `g₂ = Ry(π/2)Rx(π/2)` (angles
`(π/2, π/2, 0)`): their product is `Ry(π/2)Rx(π/2)Ry(π/2)` (angles `(π/2, π/2, π/2)`), which is not a same-axis
composition, and `g₁g₂ ≠ g₂g₁` -/
theorem nonvacuous_matrices :
    toMatrix (angles_to_matrix (Real.pi / 2) (Real.pi / 2) (Real.pi / 2))
        = toMatrix (angles_to_matrix 0 (Real.pi / 2) 0) * toMatrix (angles_to_matrix (Real.pi / 2) (Real.pi / 2) 0) ∧
    toMatrix (angles_to_matrix 0 (Real.pi / 2) 0) * toMatrix (angles_to_matrix (Real.pi / 2) (Real.pi / 2) 0)
        ≠ toMatrix (angles_to_matrix (Real.pi / 2) (Real.pi / 2) 0) * toMatrix (angles_to_matrix 0 (Real.pi / 2) 0) := by
  have e3 : toMatrix (angles_to_matrix (Real.pi / 2) (Real.pi / 2) (Real.pi / 2)) = !![0, 1, 0; 1, 0, 0; 0, 0, -1] := by
    ext i j; fin_cases i <;> fin_cases j <;>
      simp [toMatrix, angles_to_matrix, matrix_x, matrix_y, Mat3.mul]
  have e1 : toMatrix (angles_to_matrix 0 (Real.pi / 2) 0) = !![1, 0, 0; 0, 0, -1; 0, 1, 0] := by
    ext i j; fin_cases i <;> fin_cases j <;>
      simp [toMatrix, angles_to_matrix, matrix_x, matrix_y, Mat3.mul]
  have e2 : toMatrix (angles_to_matrix (Real.pi / 2) (Real.pi / 2) 0) = !![0, 1, 0; 0, 0, -1; -1, 0, 0] := by
    ext i j; fin_cases i <;> fin_cases j <;>
      simp [toMatrix, angles_to_matrix, matrix_x, matrix_y, Mat3.mul]
  rw [e1, e2, e3]
  constructor
  · ext i j; fin_cases i <;> fin_cases j <;> simp [Matrix.mul_apply, Fin.sum_univ_three]
  · intro h
    have := congrFun (congrFun h 0) 1
    simp [Matrix.mul_apply, Fin.sum_univ_three] at this

/-- … so for every `l ≤ 8` the generators satisfy
`exp(π/2·X₁)exp(π/2·X₀)exp(π/2·X₁) = exp(π/2·X₀)·exp(π/2·X₁)exp(π/2·X₀)`, a relation that is not a same-axis one -/
example (l : ℕ) (hl : l ≤ 8) :
    wignerD l (Real.pi / 2) (Real.pi / 2) (Real.pi / 2)
      = wignerD l 0 (Real.pi / 2) 0 * wignerD l (Real.pi / 2) (Real.pi / 2) 0 :=
  wignerDHom_le8 l hl _ _ _ _ _ _ _ _ _ nonvacuous_matrices.1

/-- the hypotheses of `irrepsD_mul_le8` hold for a mixed `Irreps` with repetitions and both parities -/
example : ∀ e ∈ ([(2, ⟨1, .odd⟩), (0, ⟨3, .even⟩), (1, ⟨8, .even⟩), (3, ⟨5, .odd⟩)] : Irreps), e.2.l ≤ 8 := by decide

end E3nnVerif.Props.C03
