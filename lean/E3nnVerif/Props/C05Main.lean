import E3nnVerif.Props.C05
import E3nnVerif.Cert.SH.Base
import E3nnVerif.Cert.SH.L0
import E3nnVerif.Cert.SH.L1
import E3nnVerif.Cert.SH.L2
import E3nnVerif.Cert.SH.L3
import E3nnVerif.Cert.SH.L4
import E3nnVerif.Cert.SH.L5
import E3nnVerif.Cert.SH.L6
import E3nnVerif.Cert.SH.L7
import E3nnVerif.Cert.SH.L8
import E3nnVerif.Cert.W3jCore
import E3nnVerif.Cert.W3j.Rec3
import E3nnVerif.Cert.W3j.Rec4
import E3nnVerif.Cert.W3j.Rec5
import E3nnVerif.Cert.W3j.Rec6
import E3nnVerif.Cert.W3j.Rec7
import E3nnVerif.Cert.Gen
/-
C05, closed form for the spherical harmonics source as it is in /repo now (`Generated/SH.lean`), degrees 0 … 8
(setup / quick tier; `Props/C05Ext.lean` continues the chain to 11 in the thorough tier).
-/
namespace E3nnVerif.Props.C05
open E3nnVerif.Model.SH E3nnVerif.Model.Wigner E3nnVerif.IR E3nnVerif.Cert
open E3nnVerif.Generated.SH
open E3nnVerif.Props.C04
open Matrix
open scoped BigOperators

/-- `Y^l(x)` of the current source -/
noncomputable abbrev Y (l : ℕ) (x : Fin 3 → ℝ) : Fin (2 * l + 1) → ℝ := shVec prog index l x

theorem eq0 : Equivariant prog index 0 := equivariant_zero prog index SH.wf SH.base Gen.gen_0
theorem eq1 : Equivariant prog index 1 := equivariant_one prog index SH.wf SH.base
theorem eq2 : Equivariant prog index 2 := equivariant_step prog index SH.wf 1 SH.rec_1 W3j.cert_1_1_2 eq1 eq1
theorem eq3 : Equivariant prog index 3 := equivariant_step prog index SH.wf 2 SH.rec_2 W3j.cert_2_1_3 eq2 eq1
theorem eq4 : Equivariant prog index 4 := equivariant_step prog index SH.wf 3 SH.rec_3 W3j.cert_3_1_4 eq3 eq1
theorem eq5 : Equivariant prog index 5 := equivariant_step prog index SH.wf 4 SH.rec_4 W3j.cert_4_1_5 eq4 eq1
theorem eq6 : Equivariant prog index 6 := equivariant_step prog index SH.wf 5 SH.rec_5 W3j.cert_5_1_6 eq5 eq1
theorem eq7 : Equivariant prog index 7 := equivariant_step prog index SH.wf 6 SH.rec_6 W3j.cert_6_1_7 eq6 eq1
theorem eq8 : Equivariant prog index 8 := equivariant_step prog index SH.wf 7 SH.rec_7 W3j.cert_7_1_8 eq7 eq1

theorem homog_le8 : ∀ l, l ≤ 8 → homogCheck (select (evalProg prog) index) l = true := by
  intro l h; interval_cases l
  exacts [SH.homog_0, SH.homog_1, SH.homog_2, SH.homog_3, SH.homog_4, SH.homog_5, SH.homog_6, SH.homog_7, SH.homog_8]

theorem unsold_le8 : ∀ l, l ≤ 8 → unsoldCheck (select (evalProg prog) index) l = true := by
  intro l h; interval_cases l
  exacts [SH.unsold_0, SH.unsold_1, SH.unsold_2, SH.unsold_3, SH.unsold_4, SH.unsold_5, SH.unsold_6, SH.unsold_7, SH.unsold_8]

theorem equivariant_le8 : ∀ l, l ≤ 8 → Equivariant prog index l := by
  intro l h; interval_cases l
  exacts [eq0, eq1, eq2, eq3, eq4, eq5, eq6, eq7, eq8]

/-- **C05 for the current source, degrees ≤ 8**: for every real `x`, every rotation `(α,β,γ)`, every scale `t`:
    equivariance, homogeneity, parity, and the component norm. -/
theorem spherical_harmonics_main (l : ℕ) (hl : l ≤ 8) :
    (∀ (α β γ : ℝ) (x : Fin 3 → ℝ), Y l (wignerD 1 α β γ *ᵥ x) = wignerD l α β γ *ᵥ Y l x) ∧
    (∀ (t : ℝ) (x : Fin 3 → ℝ), Y l (t • x) = t ^ l • Y l x) ∧
    (∀ x : Fin 3 → ℝ, Y l (-x) = (-1 : ℝ) ^ l • Y l x) ∧
    (∀ x : Fin 3 → ℝ, ∑ m, (Y l x m) ^ 2 = (2 * l + 1 : ℝ) * (x 0 ^ 2 + x 1 ^ 2 + x 2 ^ 2) ^ l) :=
  ⟨equivariant_le8 l hl,
   sh_homogeneous prog index SH.wf l (homog_le8 l hl),
   sh_parity prog index SH.wf l (homog_le8 l hl),
   sh_norm_component prog index SH.wf l (homog_le8 l hl) (unsold_le8 l hl)⟩

end E3nnVerif.Props.C05
