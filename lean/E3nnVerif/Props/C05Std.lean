import E3nnVerif.Props.C11Ang
import E3nnVerif.Sound.LegendreStd
import E3nnVerif.Cert.Leg.Std
/-
C05 — "they coincide with the standard real spherical harmonics under the documented axis order".

Two regenerated objects and two families of kernel certificates meet: `Cert/Leg/Std` (the Legendre table of `o3.Legendre` = the documented
formula of `_sympy_legendre`, all degrees ≤ 11) and `Cert/Ang` (the Cartesian polynomials of `_spherical_harmonics` at `angles_to_xyz` =
`spherical_harmonics_alpha` × Legendre table).  Together: what the source computes at the point with polar angle `β` (from the `y` axis) and
azimuth `α` is `√((2l+1)·(l−m)!/(l+m)!) · P_l^m(cos β) · {√2 sin(|m|α), 1, √2 cos(mα)}` with
`P_l^m(z) = (1−z²)^{m/2} · 1/(2^l l!) · d^{l+m}/dz^{l+m} (z² − 1)^l` — the real spherical harmonics in 'component' normalisation, without
Condon–Shortley phase, `y` the polar axis.
-/
namespace E3nnVerif.Props.C05
open E3nnVerif E3nnVerif.S2Grid E3nnVerif.Legendre E3nnVerif.Generated E3nnVerif.Ang
open E3nnVerif.Model.SH E3nnVerif.IR E3nnVerif.Generated.SH

/-- **the Legendre factor of `o3.Legendre` is the documented formula**, degrees ≤ 11, all real `z, y` -/
theorem legendre_is_documented_formula (l k : ℕ) (hl : l ≤ 11) (hk : k ≤ 2 * l) (z y : ℝ) :
    rowEval z y (legTable.getD (l ^ 2 + k) [])
      = Real.sqrt (((2 * (l : ℝ) + 1) * (((l - absDiff k l).factorial : ℕ) : ℝ)) / (4 * (((l + absDiff k l).factorial : ℕ) : ℝ)))
          / Real.sqrt Real.pi
        * (y ^ absDiff k l * (1 / ((2 : ℝ) ^ l * (l.factorial : ℝ))
            * iteratedDeriv (l + absDiff k l) (fun z : ℝ => (z ^ 2 - 1) ^ l) z)) := by
  have h := Cert.Leg.std_le11 l hl
  unfold stdCheck at h
  rw [List.all_eq_true] at h
  exact stdCheck1_sound legTable l k (h k (List.mem_range.mpr (by omega))) z y
example : (5 : ℕ) ≤ 11 ∧ 3 ≤ 2 * 5 := by omega

/-- **the spherical harmonics of the source are the standard real spherical harmonics** (degrees ≤ 8; `Props/C11AngExt` extends the
angular identity to 11): at `angles_to_xyz(α, β)`, component `k` of degree `l`, `m = |k − l|` -/
theorem sh_is_standard_real_sh (l k : ℕ) (hl : l ≤ 8) (hk : k ≤ 2 * l) (α β : ℝ) :
    realSH prog index l k (anglesToXyz α β)
      = Real.sqrt (4 * Real.pi) * ((shaEntry l α k : ℝ)
          * (Real.sqrt (((2 * (l : ℝ) + 1) * (((l - absDiff k l).factorial : ℕ) : ℝ)) / (4 * (((l + absDiff k l).factorial : ℕ) : ℝ)))
              / Real.sqrt Real.pi
            * (Real.sin β ^ absDiff k l * (1 / ((2 : ℝ) ^ l * (l.factorial : ℝ))
                * iteratedDeriv (l + absDiff k l) (fun z : ℝ => (z ^ 2 - 1) ^ l) (Real.cos β))))) := by
  rw [C11.sh_angular_form l k hl hk α β, legendre_is_documented_formula l k (by omega) hk]
example : (8 : ℕ) ≤ 8 ∧ 16 ≤ 2 * 8 := by omega

end E3nnVerif.Props.C05
