import E3nnVerif.Sound.WignerChecks
import E3nnVerif.Theory.Invariant
/-
C04 — wigner_3j is a normalised O(3)-invariant tensor with the standard symmetries.

Objects.  `w3jR l1 l2 l3` is the real tensor denoted by the exact model of `wigner_3j` (Model/Wigner.lean: Racah
formula with Condon–Shortley phases, e3nn's real↔complex change of basis, real part, Frobenius normalisation —
"the standard Clebsch–Gordan coefficients expressed in the library's real basis, including sign" *is* this
table; the correspondence check compares every entry of every triple with what the Python code returns).
`genR l a` are the so(3) generators as `so3_generators(l)` builds them, and `wignerD l α β γ` is
`matrix_exp(α X[1]) @ matrix_exp(β X[0]) @ matrix_exp(γ X[1])`, the code's `wigner_D`.

Theorems.  Everything below is for ALL real angles (no sampling) and all real input vectors; the only
hypothesis is the kernel-decidable certificate `w3jCert l1 l2 l3 = true` (resp. `genCert l = true`), discharged
by `decide +kernel` in `Cert/W3j*.lean` for every admissible triple in the certified range.
-/
namespace E3nnVerif.Props.C04
open E3nnVerif.Model.Wigner E3nnVerif.Theory E3nnVerif.Exact
open Matrix
open scoped BigOperators

/-- the code's so(3) generator `so3_generators(l)[a]` over ℝ -/
noncomputable def genR (l a : ℕ) : Matrix (Fin (2 * l + 1)) (Fin (2 * l + 1)) ℝ :=
  (so3Gen l a).toReal (2 * l + 1) (2 * l + 1)

/-- the code's `wigner_D(l, α, β, γ)` over ℝ -/
noncomputable def wignerD (l : ℕ) (α β γ : ℝ) : Matrix (Fin (2 * l + 1)) (Fin (2 * l + 1)) ℝ :=
  eulerD (genR l 0) (genR l 1) α β γ

/-- the code's `wigner_3j(l1,l2,l3)` over ℝ -/
noncomputable def w3jR (l1 l2 l3 : ℕ) : Fin (2 * l1 + 1) → Fin (2 * l2 + 1) → Fin (2 * l3 + 1) → ℝ :=
  (w3j l1 l2 l3).toReal (2 * l1 + 1) (2 * l2 + 1) (2 * l3 + 1)

section generators
variable {l : ℕ}

theorem genCert_skew (h : genCert l = true) (a : ℕ) (ha : a < 3) : (genR l a)ᵀ = -(genR l a) := by
  simp only [genCert, Bool.and_eq_true] at h
  obtain ⟨⟨⟨⟨⟨⟨⟨⟨⟨_, _⟩, _⟩, h0⟩, h1⟩, h2⟩, _⟩, _⟩, _⟩, _⟩ := h
  interval_cases a
  · exact skew_of_check h0
  · exact skew_of_check h1
  · exact skew_of_check h2

/-- commutation relations `[X₀,X₁]=X₂`, `[X₁,X₂]=X₀`, `[X₂,X₀]=X₁` of the code's generators -/
theorem genCert_comm (h : genCert l = true) :
    genR l 0 * genR l 1 - genR l 1 * genR l 0 = genR l 2 ∧
    genR l 1 * genR l 2 - genR l 2 * genR l 1 = genR l 0 ∧
    genR l 2 * genR l 0 - genR l 0 * genR l 2 = genR l 1 := by
  simp only [genCert, Bool.and_eq_true] at h
  obtain ⟨⟨⟨⟨⟨⟨⟨⟨⟨_, _⟩, _⟩, _⟩, _⟩, _⟩, c0⟩, c1⟩, c2⟩, _⟩ := h
  exact ⟨comm_of_check c0, comm_of_check c1, comm_of_check c2⟩

/-- Wigner D is orthogonal for all angles -/
theorem wignerD_orthogonal (h : genCert l = true) (α β γ : ℝ) :
    (wignerD l α β γ)ᵀ * wignerD l α β γ = 1 ∧ wignerD l α β γ * (wignerD l α β γ)ᵀ = 1 :=
  ⟨eulerD_orthogonal_of_skew _ _ (genCert_skew h 0 (by omega)) (genCert_skew h 1 (by omega)) α β γ,
   eulerD_orthogonal_of_skew' _ _ (genCert_skew h 0 (by omega)) (genCert_skew h 1 (by omega)) α β γ⟩

/-- identity at the identity -/
theorem wignerD_zero (l : ℕ) : wignerD l 0 0 0 = 1 := eulerD_zero _ _

/-- `D(g⁻¹) = D(g)ᵀ`: the inverse rotation has Euler angles `(-γ,-β,-α)` -/
theorem wignerD_inverse (h : genCert l = true) (α β γ : ℝ) :
    wignerD l (-γ) (-β) (-α) = (wignerD l α β γ)ᵀ :=
  eulerD_neg_eq_transpose_of_skew _ _ (genCert_skew h 0 (by omega)) (genCert_skew h 1 (by omega)) α β γ

end generators

section w3j
variable {l1 l2 l3 : ℕ}

/-- **Equivariance of the Clebsch–Gordan contraction** for every rotation given by Euler angles. -/
theorem w3j_equivariant (h : w3jCert l1 l2 l3 = true) (α β γ : ℝ)
    (u : Fin (2 * l1 + 1) → ℝ) (v : Fin (2 * l2 + 1) → ℝ) :
    bil (w3jR l1 l2 l3) (wignerD l1 α β γ *ᵥ u) (wignerD l2 α β γ *ᵥ v)
      = wignerD l3 α β γ *ᵥ bil (w3jR l1 l2 l3) u v := by
  simp only [w3jCert, Bool.and_eq_true] at h
  obtain ⟨⟨⟨⟨_, _⟩, _⟩, hx⟩, hy⟩ := h
  exact bil_eulerD_equivariant _ _ _ _ _ _ _ (inv_of_check hx) (inv_of_check hy) α β γ u v

/-- **Invariance** in the docstring's form: `C_lmn = Σ C_ijk D_il D_jm D_kn` for all rotations. -/
theorem w3j_invariant (h : w3jCert l1 l2 l3 = true) (hg : genCert l3 = true) (α β γ : ℝ)
    (l : Fin (2 * l1 + 1)) (m : Fin (2 * l2 + 1)) (n : Fin (2 * l3 + 1)) :
    ∑ i, ∑ j, ∑ k, w3jR l1 l2 l3 i j k * wignerD l1 α β γ i l * wignerD l2 α β γ j m * wignerD l3 α β γ k n
      = w3jR l1 l2 l3 l m n :=
  tensor_invariant_of_bil_equivariant _ _ _ _ (wignerD_orthogonal hg α β γ).1
    (fun u v => w3j_equivariant h α β γ u v) l m n

/-- **Unit Frobenius norm.** -/
theorem w3j_norm (h : w3jCert l1 l2 l3 = true) : ∑ i, ∑ j, ∑ k, (w3jR l1 l2 l3 i j k) ^ 2 = 1 := by
  simp only [w3jCert, Bool.and_eq_true] at h
  obtain ⟨⟨⟨⟨hd, _⟩, hn⟩, _⟩, _⟩ := h
  exact norm_of_check hd hn

theorem all3_eval_eq {a b c : ℕ} {f g : ℕ → ℕ → ℕ → SqrtQ}
    (h : all3 a b c (fun i j k => (f i j k - g i j k).isZero) = true) :
    ∀ i < a, ∀ j < b, ∀ k < c, (f i j k).eval = (g i j k).eval := by
  intro i hi j hj k hk
  have := SqrtQ.eval_of_isZero (all3_spec h i hi j hj k hk)
  rw [SqrtQ.eval_hsub] at this; linarith

/-- **Cyclic symmetry** `C^{l1 l2 l3}_{ijk} = C^{l2 l3 l1}_{jki}` and **transposition sign**
    `C^{l1 l2 l3}_{ijk} = (-1)^{l1+l2+l3} C^{l2 l1 l3}_{jik}`. -/
theorem w3j_symmetries (h : w3jSymCert l1 l2 l3 = true)
    (i : Fin (2 * l1 + 1)) (j : Fin (2 * l2 + 1)) (k : Fin (2 * l3 + 1)) :
    w3jR l1 l2 l3 i j k = w3jR l2 l3 l1 j k i ∧
    w3jR l1 l2 l3 i j k = (-1 : ℝ) ^ (l1 + l2 + l3) * w3jR l2 l1 l3 j i k := by
  simp only [w3jSymCert, Bool.and_eq_true] at h
  obtain ⟨hc, hs⟩ := h
  constructor
  · exact all3_eval_eq hc i i.2 j j.2 k k.2
  · have := SqrtQ.eval_of_isZero (all3_spec hs i i.2 j j.2 k k.2)
    simp only [w3jR, T3.toReal]
    rcases Nat.even_or_odd (l1 + l2 + l3) with he | ho
    · have hm : (l1 + l2 + l3) % 2 = 0 := Nat.even_iff.mp he
      simp only [hm] at this
      simp only [he.neg_one_pow, one_mul]
      simp at this; linarith
    · have hm : (l1 + l2 + l3) % 2 = 1 := Nat.odd_iff.mp ho
      simp only [hm] at this
      simp only [ho.neg_one_pow]
      simp at this; linarith

end w3j

/-! Non-vacuity: the hypotheses are satisfiable (the certificates for concrete triples are proved in `Cert/`),
    here the smallest non-trivial one inline. -/
example : w3jCert 1 1 1 = true := by decide +kernel
example : genCert 1 = true := by decide +kernel
example : w3jSymCert 1 1 2 = true := by decide +kernel

end E3nnVerif.Props.C04
