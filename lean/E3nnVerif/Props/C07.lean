import E3nnVerif.Theory.TPMoment
import E3nnVerif.Cert.TP.C19.M003
import E3nnVerif.Cert.TP.C19.M004
import E3nnVerif.Cert.TP.C07.M003
import E3nnVerif.Cert.TP.C07.M004
/-
C07 — initialisation preserves the documented normalisation (`o3.TensorProduct`): with inputs normalised as the
chosen `irrep_normalization` prescribes (second moment `in_var` per component, `in_var/(2l+1)` under `'norm'`),
independent standard-normal weights and unit path weights, every reached output component has second moment exactly
`out_var` (`out_var/(2l+1)` under `'norm'`), and unreached components have second moment 0 — EXACTLY (rational
arithmetic in the kernel), for the program e3nn generates.

(a) `Expectation var` (Theory/TPMoment.lean): the abstract notion of an expectation under which the variables are
    independent centred Gaussians of variances `var` — a functional, additive and homogeneous on polynomial functions,
    whose mixed moments up to total order 6 are the Gaussian ones.  These are hypotheses (structure fields), not axioms.
    `expectation_poly`, `expectation_sq`: `E[p] = eval (polyExpect var p)`, `E[p²] = eval (polyExpect var (p*p))` for
    kernel polynomials.
(b) `second_moment`: soundness of the kernel certificate `momentCheck` for the REAL semantics of the program:
    `E[(out_k)²] = declaredVar` on reached components and `0` on masked ones, for EVERY such expectation.
(c) `alpha_value`, `alpha_element`, `alpha_path`, `alpha_none`, `sum_alpha_fanIn_element`, `sum_alpha_fanIn_path`:
    the documented coefficient for ALL configurations; `Σ_{paths into an output} alpha·fan_in = dimFactor·out_var`.
(d) non-vacuity: `Expectation.dirac` is an instance (all variances 0).  For non-zero variances an instance is
    integration against a product of centred Gaussian measures (`E z² = σ²`, `E z⁴ = 3σ⁴`, `E z⁶ = 15σ⁶`, odd moments
    0, independence ⇒ factorisation over distinct variables; polynomials are integrable, so additivity and homogeneity
    hold on polynomial functions).  Constructing that measure on `ℕ → ℝ` in Mathlib is out of scope here, so no
    instance of `Expectation (varOf cfg)` is exhibited; the structure's fields are exactly those standard identities
    (`monoExpect_as_product`, `moment_values`).
-/
namespace E3nnVerif.Props.C07
open E3nnVerif.Exact E3nnVerif.IR E3nnVerif.Model.TP

/-! ## (a) expectations of kernel polynomials -/

/-- what the factorisation field of `Expectation` says: `E[∏_runs z_v^e] = ∏_runs M(var v, e)` -/
theorem monoExpect_as_product (var : ℕ → Q) (env : ℕ → ℝ) (m : Mono) :
    Mono.eval env m = ((runs m).map fun ve => env ve.1 ^ ve.2).prod ∧
    (monoExpect var m).eval = ((runs m).map fun ve => (moment (var ve.1) ve.2).eval).prod :=
  ⟨Mono.eval_runs env m, monoExpect_eval var m⟩

/-- the one-variable Gaussian moments used: `1, 0, σ², 0, 3σ⁴, 0, 15σ⁶, 0` for orders `0 … 7` -/
theorem moment_values (s : Q) :
    (moment s 0).eval = 1 ∧ (moment s 2).eval = s.eval ∧ (moment s 4).eval = 3 * s.eval ^ 2 ∧
    (moment s 6).eval = 15 * s.eval ^ 3 ∧ ∀ e, e % 2 = 1 → (moment s e).eval = 0 :=
  ⟨moment_eval_zero s, moment_eval_two s, moment_eval_four s, moment_eval_six s, moment_eval_odd s⟩

/-- **normalised** (a consequence of the moment field at the empty monomial) -/
theorem expectation_one {var : ℕ → Q} (Ex : Expectation var) : Ex.E (fun _ => 1) = 1 := Ex.E_one

/-- **`E[p] = polyExpect p`** for every kernel polynomial whose monomials are sorted of degree ≤ 6
    (terms with a syntactically zero coefficient are exempt) -/
theorem expectation_poly {var : ℕ → Q} (Ex : Expectation var) (p : Poly)
    (hp : ∀ t ∈ p, SqrtQ.isZero t.2 = true ∨ (Mono.Sorted t.1 ∧ t.1.length ≤ 6)) :
    Ex.E (fun env => Poly.eval env p) = (polyExpect var p).eval := Ex.E_poly p hp

/-- **`E[p²] = polyExpect (p·p)`** for every kernel polynomial with sorted monomials of degree ≤ 3 -/
theorem expectation_sq {var : ℕ → Q} (Ex : Expectation var) (p : Poly)
    (hs : ∀ t ∈ p, Mono.Sorted t.1) (hl : ∀ t ∈ p, t.1.length ≤ 3) :
    Ex.E (fun env => (Poly.eval env p) ^ 2) = (polyExpect var (p * p)).eval := Ex.E_sq p hs hl

/-! ## (b) soundness of `momentCheck` -/

/-- `momentCheck` for an arbitrary list of polynomials, with the side conditions explicit -/
theorem second_moment_poly {c : Cfg} {polys : List Poly} (h07 : momentCheck c polys = true)
    (happ : momentApplies c = true) (Ex : Expectation (varOf c)) {k : ℕ} (hk : k < totalDim c.out)
    (hs : ∀ t ∈ polys.getD k [], Mono.Sorted t.1) (hl : ∀ t ∈ polys.getD k [], t.1.length ≤ 3) :
    Ex.E (fun env => (Poly.eval env (polys.getD k [])) ^ 2)
      = if (polys.getD k []).isZero then 0 else declaredVar c k := by
  rw [Ex.E_sq _ hs hl, momentCheck_spec h07 happ hk]

section
variable {c : Cfg} {prog : List Node} {mask : List Bool} {numel : Nat} {views : List (Nat × Nat × Nat)}
  {dims : Nat × Nat × Nat}

/-- **exact second moments of the program**: if the kernel certificates `introspectionCheck` (C19) and `momentCheck`
    (C07) hold for the program and the normalisation law applies (a normalisation is chosen, unit path weights), then
    for EVERY expectation under which the inputs are independent centred Gaussians with the documented variances
    (`varOf c`: `in_var` per component, `in_var/(2l+1)` under `'norm'`) and the weights independent standard normal,
    output component `k` (batch row 0) of the real semantics of the program has second moment exactly the declared
    output variance if it is reached (`mask[k] = true`) and `0` otherwise. -/
theorem second_moment (h19 : introspectionCheck c (interpPoly prog) mask numel views dims = true)
    (h07 : momentCheck c (interpPoly prog) = true) (happ : momentApplies c = true) (hB : 0 < c.B)
    (Ex : Expectation (varOf c)) {k : ℕ} (hk : k < totalDim c.out) :
    Ex.E (fun env => ((interp (K := ℝ) env prog).getD k 0) ^ 2)
      = if mask.getD k false = true then declaredVar c k else 0 := by
  have hi := introspection_of_check h19
  have hfun : (fun env : ℕ → ℝ => ((interp (K := ℝ) env prog).getD k 0) ^ 2)
      = fun env => (Poly.eval env ((interpPoly prog).getD k [])) ^ 2 := by
    funext env; rw [interp_getD]
  have hwf := interpPoly_getD_wf prog k
  have hpl := hi.placed 0 k hB hk
  simp only [Nat.zero_mul, Nat.zero_add] at hpl
  rw [hfun, second_moment_poly h07 happ Ex hk hwf.monos (placed_length_le hwf hpl)]
  cases hm : mask.getD k false with
  | false =>
    have := hi.mask_false 0 k hB hk hm
    simp only [Nat.zero_mul, Nat.zero_add] at this
    rw [if_pos this, if_neg (by decide)]
  | true =>
    have := hasNonzeroTerm_not_isZero (hi.mask_true 0 k hB hk hm)
    simp only [Nat.zero_mul, Nat.zero_add] at this
    rw [if_neg (by rw [this]; decide), if_pos rfl]

/-- the declared variance, spelled out -/
theorem declaredVar_eq (c : Cfg) (k : ℕ) :
    declaredVar c k =
      if c.irrepNorm = 1 then
        (c.outVar.getD (locate c.out k).1 Q.one).eval / ((2 * (c.out.getD (locate c.out k).1 (0, 0)).2 + 1 : ℕ) : ℝ)
      else (c.outVar.getD (locate c.out k).1 Q.one).eval := rfl

end

/-! ## (c) the documented coefficient `alpha`, all configurations -/

/-- **value of `alpha`**: `dimFactor / denominator · out_var · path_weight` (no division when the denominator is
    not positive), with `dimFactor = 2l_out+1 | (2l_1+1)(2l_2+1) | 1` and
    `denominator = Σ_{paths into the same output} in1_var·in2_var·num_elements | in1_var·in2_var·num_elements·#paths | 1` -/
theorem alpha_value (c : Cfg) (p : Ins) :
    (alpha c p).eval = (if 0 < normDenominator c p then dimFactor c p / normDenominator c p else dimFactor c p)
      * (c.outVar.getD p.io Q.one).eval * p.pw.eval := alpha_eval c p

/-- `'element'` path normalisation: `alpha · Σ_{q → same output} fanIn q = dimFactor · out_var · path_weight` -/
theorem alpha_element (c : Cfg) (p : Ins) (hn : c.pathNorm = 0)
    (hx : 0 < ((samePaths c p).map (fanIn c)).sum) :
    (alpha c p).eval * ((samePaths c p).map (fanIn c)).sum
      = dimFactor c p * (c.outVar.getD p.io Q.one).eval * p.pw.eval := by
  have hX : normDenominator c p = ((samePaths c p).map (fanIn c)).sum := by unfold normDenominator; rw [hn]; rfl
  rw [alpha_eval, hX, if_pos hx]
  have hne := hx.ne'
  field_simp

/-- `'path'` path normalisation: `alpha · fanIn p · #paths = dimFactor · out_var · path_weight` -/
theorem alpha_path (c : Cfg) (p : Ins) (hn : c.pathNorm = 1)
    (hx : 0 < fanIn c p * ((samePaths c p).length : ℝ)) :
    (alpha c p).eval * (fanIn c p * ((samePaths c p).length : ℝ))
      = dimFactor c p * (c.outVar.getD p.io Q.one).eval * p.pw.eval := by
  have hX : normDenominator c p = fanIn c p * ((samePaths c p).length : ℝ) := by
    unfold normDenominator; rw [hn]; rfl
  rw [alpha_eval, hX, if_pos hx]
  generalize fanIn c p * ((samePaths c p).length : ℝ) = Y at hx ⊢
  have hne := hx.ne'
  field_simp

/-- no path normalisation -/
theorem alpha_none (c : Cfg) (p : Ins) (hn : 2 ≤ c.pathNorm) :
    (alpha c p).eval = dimFactor c p * (c.outVar.getD p.io Q.one).eval * p.pw.eval := by
  have hX : normDenominator c p = 1 := by
    unfold normDenominator
    split
    · rename_i h; rw [h] at hn; omega
    · rename_i h; rw [h] at hn; omega
    · rfl
  rw [alpha_eval, hX]; simp

/-- **the normalisation law at the level of the formula** (`'component'` + `'element'`, unit path weights): the
    coefficients of the paths into one output block, weighted by their fan-ins, add up to `(2l_out+1)·out_var` -/
theorem sum_alpha_fanIn_element (c : Cfg) (p : Ins) (hi : c.irrepNorm = 0) (hn : c.pathNorm = 0)
    (hpw : ∀ q ∈ samePaths c p, q.pw.eval = 1) (hx : 0 < ((samePaths c p).map (fanIn c)).sum) :
    ((samePaths c p).map fun q => (alpha c q).eval * fanIn c q).sum
      = ((2 * lO c p + 1 : ℕ) : ℝ) * (c.outVar.getD p.io Q.one).eval := by
  set X := ((samePaths c p).map (fanIn c)).sum with hXdef
  have hterm : ∀ q ∈ samePaths c p, (alpha c q).eval * fanIn c q
      = (((2 * lO c p + 1 : ℕ) : ℝ) / X * (c.outVar.getD p.io Q.one).eval) * fanIn c q := by
    intro q hq
    have hio := samePaths_io hq
    have hXq : normDenominator c q = X := by unfold normDenominator; rw [hn, samePaths_congr hio]; rfl
    have hDq : dimFactor c q = ((2 * lO c p + 1 : ℕ) : ℝ) := by
      unfold dimFactor; rw [hi]; simp only [lO, hio]
    rw [alpha_eval, hXq, if_pos hx, hDq, hio, hpw q hq]; ring
  rw [List.map_congr_left hterm, List.sum_map_mul_left, ← hXdef]
  field_simp

/-- the same law for `'path'` normalisation (every path into the block has positive fan-in) -/
theorem sum_alpha_fanIn_path (c : Cfg) (p : Ins) (hi : c.irrepNorm = 0) (hn : c.pathNorm = 1)
    (hpw : ∀ q ∈ samePaths c p, q.pw.eval = 1) (hpos : ∀ q ∈ samePaths c p, 0 < fanIn c q)
    (hne : samePaths c p ≠ []) :
    ((samePaths c p).map fun q => (alpha c q).eval * fanIn c q).sum
      = ((2 * lO c p + 1 : ℕ) : ℝ) * (c.outVar.getD p.io Q.one).eval := by
  have hN : (0 : ℝ) < ((samePaths c p).length : ℝ) := by
    have : 0 < (samePaths c p).length := List.length_pos_of_ne_nil hne
    exact_mod_cast this
  have hterm : ∀ q ∈ samePaths c p, (alpha c q).eval * fanIn c q
      = ((2 * lO c p + 1 : ℕ) : ℝ) * (c.outVar.getD p.io Q.one).eval / ((samePaths c p).length : ℝ) := by
    intro q hq
    have hio := samePaths_io hq
    have hXq : normDenominator c q = fanIn c q * ((samePaths c p).length : ℝ) := by
      unfold normDenominator; rw [hn, samePaths_congr hio]; rfl
    have hDq : dimFactor c q = ((2 * lO c p + 1 : ℕ) : ℝ) := by
      unfold dimFactor; rw [hi]; simp only [lO, hio]
    have hf := hpos q hq
    rw [alpha_eval, hXq, if_pos (mul_pos hf hN), hDq, hio, hpw q hq]
    field_simp
  rw [List.map_congr_left hterm, List.map_const', List.sum_replicate, nsmul_eq_mul]
  field_simp

/-! ## (d) non-vacuity -/

/-- the hypotheses of `Expectation` are satisfiable: the Dirac mass at the origin (all variances 0) -/
noncomputable example : Expectation (fun _ => Q.zero) := Expectation.dirac

example : Expectation.dirac.E (fun env => (Poly.eval env (Poly.var 3 * Poly.var 5)) ^ 2) = 0 := by
  simp [Expectation.dirac]

section Examples
open E3nnVerif.Generated.TP

/-- M003 (`2x1o+1x2e ⊗ 1x1o → 1x0e+2x1e+1x3o`, four weighted paths, two of them into the same block, `'norm'` +
    `'element'`, `in1_var = [2, 1/2]`, `in2_var = [4]`, `out_var = [1, 1/4, 2]`): for every Gaussian expectation the
    second moment of output component 2 (block `2x1e`) is exactly the declared `out_var/(2l+1) = (1/4)/3` -/
example (Ex : Expectation (varOf M003.cfg)) :
    Ex.E (fun env => ((interp (K := ℝ) env M003.prog).getD 2 0) ^ 2) = declaredVar M003.cfg 2 := by
  have := second_moment E3nnVerif.Cert.TP.C19.M003.introspection_ok E3nnVerif.Cert.TP.C07.M003.moments_ok
    (by decide) (by decide) Ex (k := 2) (by decide)
  rw [this, if_pos (by decide)]

example : declaredVar M003.cfg 2 = 1 / 12 := by
  have h : locate M003.cfg.out 2 = (1, 1) := by decide
  rw [declaredVar_eq, h]
  norm_num [M003.cfg, Q.eval_mk']

/-- M004: the masked-out `1o` block has second moment 0, the live scalar components have second moment `out_var = 1` -/
example (Ex : Expectation (varOf M004.cfg)) :
    Ex.E (fun env => ((interp (K := ℝ) env M004.prog).getD 3 0) ^ 2) = 0 := by
  have := second_moment E3nnVerif.Cert.TP.C19.M004.introspection_ok E3nnVerif.Cert.TP.C07.M004.moments_ok
    (by decide) (by decide) Ex (k := 3) (by decide)
  rw [this, if_neg (by decide)]

example (Ex : Expectation (varOf M004.cfg)) :
    Ex.E (fun env => ((interp (K := ℝ) env M004.prog).getD 1 0) ^ 2) = declaredVar M004.cfg 1 := by
  have := second_moment E3nnVerif.Cert.TP.C19.M004.introspection_ok E3nnVerif.Cert.TP.C07.M004.moments_ok
    (by decide) (by decide) Ex (k := 1) (by decide)
  rw [this, if_pos (by decide)]

/-- `alpha` of M003's instruction 1 (`'norm'` + `'element'`; two paths into block 1, common denominator
    `Σ fanIn = 2·4·1 + 2·4·2 = 24`, `dimFactor = 3·3`, `out_var = 1/4`): `alpha = 9·(1/4)/24` -/
example : (alpha M003.cfg (insAt M003.cfg 1)).eval * 24 = 9 * (1 / 4) * 1 := by
  have hs : samePaths M003.cfg (insAt M003.cfg 1) = [insAt M003.cfg 1, insAt M003.cfg 3] := rfl
  have hsum : ((samePaths M003.cfg (insAt M003.cfg 1)).map (fanIn M003.cfg)).sum = 24 := by
    rw [hs]; norm_num [fanIn, insAt, M003.cfg, numElements, mul1, mul2, Q.eval_mk']
  have := alpha_element M003.cfg (insAt M003.cfg 1) rfl (by rw [hsum]; norm_num)
  rw [hsum] at this
  rw [this]
  norm_num [dimFactor, insAt, M003.cfg, l1, l2, Q.eval_mk']

/-- the formula-level law at M004 (`'component'` + `'element'`), output block 0 -/
example : ((samePaths M004.cfg (insAt M004.cfg 1)).map fun q => (alpha M004.cfg q).eval * fanIn M004.cfg q).sum
    = ((2 * lO M004.cfg (insAt M004.cfg 1) + 1 : ℕ) : ℝ) * (M004.cfg.outVar.getD (insAt M004.cfg 1).io Q.one).eval := by
  have hs : samePaths M004.cfg (insAt M004.cfg 1) = [insAt M004.cfg 1] := rfl
  apply sum_alpha_fanIn_element M004.cfg (insAt M004.cfg 1) rfl rfl
  · intro q hq
    rw [hs, List.mem_singleton] at hq
    subst hq
    norm_num [insAt, M004.cfg, Q.eval_mk']
  · rw [hs]
    norm_num [fanIn, insAt, M004.cfg, numElements, mul1, mul2, Q.eval_mk']

end Examples

end E3nnVerif.Props.C07
