import E3nnVerif.Props.C18
import E3nnVerif.Props.C11Ang
/-
C18, continued — `signal_on_grid` WITHOUT the hypothesis on `ToS2Grid`.

`Props/C18.lean` proves that `signal_on_grid` returns the values of `signal_xyz` at the grid points it reports GIVEN that `ToS2Grid`
evaluates the signal there (`hT`).  That is now property C11's theorem `toS2Grid_evaluates_signal` (`Props/C11Ang.lean`: the model of
`ToS2Grid` with the Legendre table regenerated from `o3.Legendre`, and the spherical harmonics regenerated from the source text of
`_spherical_harmonics`).  Here the two models are glued: same grid, same flat index, 'integral' normalisation.
-/
namespace E3nnVerif.Props.C18
open E3nnVerif E3nnVerif.Rotation E3nnVerif.SphericalTensor E3nnVerif.S2Grid E3nnVerif.Legendre E3nnVerif.Generated
open E3nnVerif.Model.SH E3nnVerif.IR E3nnVerif.Generated.SH Finset

/-- what the source `_spherical_harmonics` computes, 'integral' normalisation (`/√(4π)`), flat index `i = l² + k` -/
noncomputable def YInt (n : ℕ) (x : Vec3 ℝ) (i : Fin n) : ℝ :=
  realSH prog index (Nat.sqrt i) (i - Nat.sqrt i ^ 2) ![x.x, x.y, x.z] / Real.sqrt (4 * Real.pi)

/-- `ToS2Grid(lmax = L, res = (rb, ra), normalization = 'integral')` of the C11 model (Legendre factor = the regenerated table),
tabulated as the nested list `signal_on_grid` returns -/
noncomputable def toGridC11 (L rb ra : ℕ) (sig : List ℝ) : List (List ℝ) :=
  (List.range rb).map fun j => (List.range ra).map fun a =>
    match toS2Grid L ra (nTo .integral L) (fun j i => (legendreGrid legTable rb j i : ℝ)) (fun i => sig.getD i 0) with
    | .ok g => g j a
    | .error _ => 0

theorem sqrt_flat (l k : ℕ) (hk : k ≤ 2 * l) : Nat.sqrt (l ^ 2 + k) = l := by
  rw [sq]; exact Nat.sqrt_add_eq l (by omega)

theorem gridVec_eq_vec3 (rb ra j a : ℕ) :
    C11.gridVec rb ra j a =
      ![(angles_to_xyz ((Scalar.ofNat a / Scalar.ofNat ra * Scalar.ofNat 2 * Scalar.pi : ℝ))
          ((Scalar.ofNat j + Scalar.ofFrac 1 2) / Scalar.ofNat rb * Scalar.pi : ℝ)).x,
        (angles_to_xyz ((Scalar.ofNat a / Scalar.ofNat ra * Scalar.ofNat 2 * Scalar.pi : ℝ))
          ((Scalar.ofNat j + Scalar.ofFrac 1 2) / Scalar.ofNat rb * Scalar.pi : ℝ)).y,
        (angles_to_xyz ((Scalar.ofNat a / Scalar.ofNat ra * Scalar.ofNat 2 * Scalar.pi : ℝ))
          ((Scalar.ofNat j + Scalar.ofFrac 1 2) / Scalar.ofNat rb * Scalar.pi : ℝ)).z] := by
  simp [C11.gridVec, gridPoint, angles_to_xyz, betas, alphas, Scalar.two]

/-- the hypothesis `hT` of `signal_on_grid_values` holds for the C11 model of `ToS2Grid`, given the angular certificates of the degrees
`≤ L` -/
theorem toGridC11_evaluates_of_check (L : ℕ) (hc : ∀ l, l ≤ L → Ang.angCheck (select (evalProg prog) index) legTable l = true)
    (c : Fin ((L + 1) ^ 2) → ℝ) (rb ra : ℕ) :
    toGridC11 L rb ra (List.ofFn c) =
      (s2GridPoints rb ra).map fun row => row.map fun x => ∑ i, c i * YInt ((L + 1) ^ 2) x i := by
  obtain ⟨g, hg, hval⟩ := C11.toS2Grid_evaluates_signal_of_check L rb ra (nTo .integral L)
    (fun i => (List.ofFn c).getD i 0) hc
  unfold toGridC11 s2GridPoints s2Betas s2Alphas
  rw [hg]
  simp only [List.map_map]
  refine List.map_congr_left fun j hj => ?_
  have hj' : j < rb := List.mem_range.mp hj
  simp only [Function.comp, List.map_map]
  refine List.map_congr_left fun a _ => ?_
  simp only [Function.comp]
  rw [hval j a hj', Finset.sum_fin_eq_sum_range, sum_flat]
  refine Finset.sum_congr rfl fun l hl => Finset.sum_congr rfl fun k hk => ?_
  have hl' : l ≤ L := by have := Finset.mem_range.mp hl; omega
  have hk' : k ≤ 2 * l := by have := Finset.mem_range.mp hk; omega
  have hlt : l ^ 2 + k < (L + 1) ^ 2 := flat_lt L l k hl' hk'
  rw [dif_pos hlt]
  have hn : (nTo .integral L l : ℝ) = 1 := (C11.norm_constants_values L l).2.2
  have hF : (List.ofFn c).getD (l ^ 2 + k) 0 = c ⟨l ^ 2 + k, hlt⟩ := by
    simp [List.getD, hlt]
  have hs : Nat.sqrt (l ^ 2 + k) = l := sqrt_flat l k hk'
  simp only [YInt, hn, hF, one_mul, hs, Nat.add_sub_cancel_left]
  rw [gridVec_eq_vec3]

/-- band limits ≤ 8 (default build) -/
theorem toGridC11_evaluates (L : ℕ) (hL : L ≤ 8) (c : Fin ((L + 1) ^ 2) → ℝ) (rb ra : ℕ) :
    toGridC11 L rb ra (List.ofFn c) =
      (s2GridPoints rb ra).map fun row => row.map fun x => ∑ i, c i * YInt ((L + 1) ^ 2) x i :=
  toGridC11_evaluates_of_check L (fun l h => C11.ang_le8 l (by omega)) c rb ra

/-- **`signal_on_grid` returns the values of `signal_xyz` at the grid points it reports — no hypothesis on `ToS2Grid` left**
(band limits ≤ 8; the spherical harmonics are the ones the source computes, 'integral' normalisation; `toGridC11` is the C11 model of
`ToS2Grid(lmax, res, 'integral')` with the regenerated Legendre table) -/
theorem signal_on_grid_values_certified {L : ℕ} (irs : List MulIr) (hg : shGuard irs = .ok ()) (hl : lmaxOf irs = .ok L)
    (hL : L ≤ 8) (c : Fin ((L + 1) ^ 2) → ℝ) (res : ℕ) (hres : res % 2 = 0 ∧ L + 1 ≤ res / 2) :
    ∃ grid values, signalOnGrid (toGridC11 L) irs (List.ofFn c) res = .ok (grid, values) ∧
      grid = s2GridPoints res (max (2 * L + 1) (res - 1)) ∧
      List.Forall₂ (List.Forall₂ fun x v => signalXyz (ofY (YInt ((L + 1) ^ 2))) irs (List.ofFn c) x = .ok v) grid values :=
  signal_on_grid_values (YInt ((L + 1) ^ 2)) irs hg hl rfl (toGridC11 L) c res hres (toGridC11_evaluates L hL c)

/-- the premises are satisfiable: `SphericalTensor(2, 1, -1)` = `0e + 1o + 2e`, `res = 6` -/
example : shGuard [(1, 0, 1), (1, 1, -1), (1, 2, 1)] = .ok () ∧ lmaxOf [(1, 0, 1), (1, 1, -1), (1, 2, 1)] = .ok 2 ∧
    (6 % 2 = 0 ∧ 2 + 1 ≤ 6 / 2) := by decide

end E3nnVerif.Props.C18
