import E3nnVerif.Theory.TPIntrospect
import E3nnVerif.Cert.TP.C19.M003
import E3nnVerif.Cert.TP.C19.M004
import E3nnVerif.Generated.TP.M001
import E3nnVerif.Generated.TP.M007
/-
C19 — module introspection tells the truth (`o3.TensorProduct`: `weight_numel`, `weight_view_for_instruction` /
`weight_views`, `output_mask`, `irreps_*.dim`).

(a) **weight slices, for ALL instruction lists** (any number, order and mix of weighted / unweighted instructions,
    empty paths, arbitrary multiplicities): the slices `[weightOffset c k, weightOffset c k + pathSize c ins_k)` of the
    weighted instructions are consecutive in instruction order, pairwise disjoint, inside `[0, weightNumel c)`, their
    lengths add up to `weightNumel c`, every index below `weightNumel c` lies in exactly one of them, unweighted
    instructions do not move the offset, and `pathOfWeight` inverts the slicing.
    (`Model/TPSpec.lean` is the specification: offsets count only *weighted* predecessors.  The historical
    `weight_view_for_instruction` counted all predecessors — fixed in /repo b3cef8d; `offset_counting_all_is_wrong`
    below is the refutation of that reading on the 2-instruction witness.)
(b) **`output_mask`**: if `introspectionCheck` holds for a program, then `mask[k] = false` ⇔ output component `k` of
    the program is identically zero over ℝ (all inputs, all weights, every batch row); in particular
    `mask[k] = true` ⇒ some real input/weight assignment makes it non-zero.
(c) **weight views mean what they say**: every monomial containing the weight variable `w[·,n]` is
    `x1[b,i]·x2[b,j]·w[·,n]` with `i`, `j` in the input blocks and the output component in the output block of the
    instruction `pathOfWeight c n`; hence changing the weights of slice `kk` changes the output only inside the output
    block `ins_kk.io`.
(d) **reported sizes**: number of outputs, mask length, `weight_numel`, `irreps_in1/in2/out.dim`, list of views.

Everything in (b)–(d) is derived from the kernel-decided Boolean `introspectionCheck cfg (interpPoly prog) …`
(`Cert/TP/C19/*.lean`, one per generated program) through `interp_natural`; nothing is assumed about the program.
-/
namespace E3nnVerif.Props.C19
open E3nnVerif.Exact E3nnVerif.IR E3nnVerif.Model.TP

/-! ## (a) weight slices — all instruction lists -/

/-- **offsets ignore unweighted instructions** (and advance by the path size over a weighted one) -/
theorem offset_step (c : Cfg) (k : Nat) :
    weightOffset c (k + 1) = weightOffset c k + (if (insAt c k).hasW then pathSize c (insAt c k) else 0) :=
  weightOffset_succ c k

theorem offset_zero (c : Cfg) : weightOffset c 0 = 0 := weightOffset_zero c

/-- the offset after the last instruction is `weight_numel` -/
theorem offset_end (c : Cfg) : weightOffset c c.ins.length = weightNumel c := weightOffset_length c

/-- **inside `[0, weightNumel)`** -/
theorem slice_inside (c : Cfg) {k : Nat} (hw : (insAt c k).hasW = true) :
    weightOffset c k + pathSize c (insAt c k) ≤ weightNumel c := slice_le_numel c hw

/-- **instruction order**: an earlier weighted slice ends before any later offset -/
theorem slice_order (c : Cfg) {j k : Nat} (hjk : j < k) (hw : (insAt c j).hasW = true) :
    weightOffset c j + pathSize c (insAt c j) ≤ weightOffset c k := slice_before c hjk hw

/-- **consecutive**: with only unweighted (or empty) instructions in between, slice `k` starts where slice `j` ends -/
theorem slice_consecutive (c : Cfg) {j k : Nat} (hjk : j < k) (hw : (insAt c j).hasW = true)
    (hbetween : ∀ i, j < i → i < k → (insAt c i).hasW = false ∨ pathSize c (insAt c i) = 0) :
    weightOffset c k = weightOffset c j + pathSize c (insAt c j) := slices_consecutive c hjk hw hbetween

/-- **pairwise disjoint** -/
theorem slice_disjoint (c : Cfg) {j k n : Nat} (hj : (insAt c j).hasW = true) (hk : (insAt c k).hasW = true)
    (hnj : InSlice c j n) (hnk : InSlice c k n) : j = k := slices_disjoint c hj hk hnj hnk

/-- **the lengths add up to `weight_numel`** -/
theorem slice_lengths_sum (c : Cfg) :
    ((List.range c.ins.length).map fun k => if (insAt c k).hasW then pathSize c (insAt c k) else 0).sum
      = weightNumel c := sum_slice_lengths c

/-- **partition of `[0, weightNumel)`**: every flat index below `weight_numel` lies in the slice of exactly one
    weighted instruction, and that instruction exists in the list -/
theorem slice_partition_numel (c : Cfg) {n : Nat} (hn : n < weightNumel c) :
    (∃! k, (insAt c k).hasW = true ∧ InSlice c k n) ∧
    (∃ k, k < c.ins.length ∧ (insAt c k).hasW = true ∧ InSlice c k n) :=
  ⟨slice_partition c hn, slice_cover c hn⟩

/-- no index `≥ weight_numel` lies in a weighted slice -/
theorem slice_lt_numel (c : Cfg) {k n : Nat} (hw : (insAt c k).hasW = true) (h : InSlice c k n) :
    n < weightNumel c := inSlice_lt_numel c hw h

/-- **`pathOfWeight` is the inverse of the slicing** -/
theorem pathOfWeight_iff (c : Cfg) (n k : Nat) :
    pathOfWeight c n = some k ↔ ((insAt c k).hasW = true ∧ InSlice c k n) := pathOfWeight_eq_some_iff c n k

theorem pathOfWeight_defined_iff (c : Cfg) (n : Nat) : (pathOfWeight c n).isSome = true ↔ n < weightNumel c :=
  pathOfWeight_isSome_iff c n

/-- the reading "offset = sizes of ALL preceding instructions" (the pre-b3cef8d `weight_view_for_instruction`) is not
    the weight layout: on `[(0,0,0,'uuu',False), (0,0,0,'uvw',True)]` over `2x0e` it puts the 8 weights of
    instruction 1 at `[2, 10)`, beyond `weight_numel = 8`; the layout is `[0, 8)`. -/
theorem offset_counting_all_is_wrong :
    let c := E3nnVerif.Generated.TP.M007.cfg
    weightNumel c = 8 ∧ weightOffset c 1 = 0 ∧ pathSize c (insAt c 1) = 8 ∧
    ((c.ins.take 1).map (pathSize c)).foldl (· + ·) 0 = 2 ∧ 2 + 8 > weightNumel c := by decide

/-! ## (b) the output mask -/

section
variable {c : Cfg} {polys : List Poly} {mask : List Bool} {numel : Nat} {views : List (Nat × Nat × Nat)}
  {dims : Nat × Nat × Nat}

/-- `mask[k] = false` ⇒ the coefficient polynomial evaluates to 0 at every real point -/
theorem mask_false_eval_zero (h : introspectionCheck c polys mask numel views dims = true)
    {b k : Nat} (hb : b < c.B) (hk : k < totalDim c.out) (hm : mask.getD k false = false) (env : ℕ → ℝ) :
    Poly.eval env (polys.getD (b * totalDim c.out + k) []) = 0 :=
  Poly.eval_of_isZero env ((introspection_of_check h).mask_false b k hb hk hm)

/-- `mask[k] = true` ⇒ some real point makes the polynomial non-zero — for an ARBITRARY list of polynomials under the
    (decidable) side condition that the monomials of the polynomial are sorted and pairwise distinct; the side
    condition holds automatically for the polynomials of a program (`mask_true_nonzero`). -/
theorem mask_true_eval_nonzero (h : introspectionCheck c polys mask numel views dims = true)
    {b k : Nat} (hb : b < c.B) (hk : k < totalDim c.out) (hm : mask.getD k false = true)
    (hd : DistinctMonos (polys.getD (b * totalDim c.out + k) [])) :
    ∃ env : ℕ → ℝ, Poly.eval env (polys.getD (b * totalDim c.out + k) []) ≠ 0 :=
  exists_env_ne_zero hd ((introspection_of_check h).placed b k hb hk) ((introspection_of_check h).mask_true b k hb hk hm)
end

section
variable {c : Cfg} {prog : List Node} {mask : List Bool} {numel : Nat} {views : List (Nat × Nat × Nat)}
  {dims : Nat × Nat × Nat}

/-- **mask 0 ⇒ identically zero**: for every real assignment of inputs and weights and every batch row, the
    output component of the program is 0 -/
theorem mask_false_zero (h : introspectionCheck c (interpPoly prog) mask numel views dims = true)
    {b k : Nat} (hb : b < c.B) (hk : k < totalDim c.out) (hm : mask.getD k false = false) (env : ℕ → ℝ) :
    (interp (K := ℝ) env prog).getD (b * totalDim c.out + k) 0 = 0 := by
  rw [interp_getD]; exact mask_false_eval_zero h hb hk hm env

/-- **mask 1 ⇒ not identically zero**: some real assignment of inputs and weights makes the output component
    non-zero (no side condition: the polynomials of a program always have sorted, pairwise distinct monomials) -/
theorem mask_true_nonzero (h : introspectionCheck c (interpPoly prog) mask numel views dims = true)
    {b k : Nat} (hb : b < c.B) (hk : k < totalDim c.out) (hm : mask.getD k false = true) :
    ∃ env : ℕ → ℝ, (interp (K := ℝ) env prog).getD (b * totalDim c.out + k) 0 ≠ 0 := by
  obtain ⟨env, henv⟩ := mask_true_eval_nonzero h hb hk hm (distinctMonos_of_wf (interpPoly_getD_wf prog _))
  exact ⟨env, by rw [interp_getD]; exact henv⟩

/-- **the mask is exactly "identically zero"** -/
theorem mask_false_iff_zero (h : introspectionCheck c (interpPoly prog) mask numel views dims = true)
    {b k : Nat} (hb : b < c.B) (hk : k < totalDim c.out) :
    mask.getD k false = false ↔ ∀ env : ℕ → ℝ, (interp (K := ℝ) env prog).getD (b * totalDim c.out + k) 0 = 0 := by
  constructor
  · exact fun hm env => mask_false_zero h hb hk hm env
  · intro hz
    cases hm : mask.getD k false with
    | false => rfl
    | true =>
      obtain ⟨env, henv⟩ := mask_true_nonzero h hb hk hm
      exact absurd (hz env) henv

/-! ## (c) weight views and paths -/

/-- **a monomial that contains the weight `w[bw,n]`** (with a coefficient that is not syntactically zero) of output
    component `k`, batch row `b`, is `x1[b,i]·x2[b,j]·w[bw,n]` up to the order of the factors; `n` lies in the slice of
    the weighted instruction `kk = pathOfWeight c n`, `i` in its first input block, `j` in its second input block
    and `k` in its output block; `bw` is the batch row (row 0 for shared weights). -/
theorem weight_variable_path (h : introspectionCheck c (interpPoly prog) mask numel views dims = true)
    {b k : Nat} (hb : b < c.B) (hk : k < totalDim c.out)
    {tm : Mono × SqrtQ} (htm : tm ∈ (interpPoly prog).getD (b * totalDim c.out + k) []) (hnz : tm.2.isZero = false)
    {w bw n : Nat} (hmem : w ∈ tm.1) (hw : classify c w = .w bw n) :
    ∃ kk x y i j, pathOfWeight c n = some kk ∧ (insAt c kk).hasW = true ∧ InSlice c kk n ∧
      tm.1.Perm [x, y, w] ∧ x = x1Var c b i ∧ y = x2Var c b j ∧ w = wVar c bw n ∧
      bw = (if c.shared then 0 else b) ∧
      (insAt c kk).i1 = (locate c.in1 i).1 ∧ (insAt c kk).i2 = (locate c.in2 j).1 ∧
      (insAt c kk).io = (locate c.out k).1 := by
  have hpl : monoPlaced c b k tm.1 = true := by
    rcases (introspection_of_check h).placed b k hb hk tm htm with hz | hp
    · rw [hz] at hnz; exact absurd hnz (by decide)
    · exact hp
  obtain ⟨kk, x, y, i, j, hpath, hperm, hx, hy, hbw, h1, h2, h3⟩ := weight_monomial_path hpl hmem hw
  obtain ⟨hw2, hs2⟩ := (pathOfWeight_eq_some_iff c n kk).mp hpath
  exact ⟨kk, x, y, i, j, hpath, hw2, hs2, hperm, (classify_x1 hx).2.2.2, (classify_x2 hy).2.2.2.2,
    (classify_w hw).2.2.2, hbw, h1, h2, h3⟩

/-- **changing the weights of slice `kk` changes only the output block of instruction `kk`**: if two real
    environments agree on every variable except the weights `w[·,n]` with `n` in the slice of the weighted
    instruction `kk`, the program outputs agree on every component outside the output block `ins_kk.io`
    (all inputs, all other weights, every batch row). -/
theorem weights_local (h : introspectionCheck c (interpPoly prog) mask numel views dims = true)
    {kk : Nat} (hwkk : (insAt c kk).hasW = true) {env env' : ℕ → ℝ} (hag : AgreeOutsideSlice c kk env env')
    {b k : Nat} (hb : b < c.B) (hk : k < totalDim c.out) (hblock : (locate c.out k).1 ≠ (insAt c kk).io) :
    (interp (K := ℝ) env prog).getD (b * totalDim c.out + k) 0
      = (interp (K := ℝ) env' prog).getD (b * totalDim c.out + k) 0 := by
  rw [interp_getD, interp_getD]
  exact eval_eq_of_agree ((introspection_of_check h).placed b k hb hk) hwkk hblock hag

/-- the hypothesis of `weights_local` in terms of the variable layout: the environments agree except at the
    variables `w[bw,n] = B·d1 + B·d2 + bw·weight_numel + n`, `n` in slice `kk` -/
theorem agreeOutsideSlice_of_layout {kk : Nat} (hwkk : (insAt c kk).hasW = true) {env env' : ℕ → ℝ}
    (hag : ∀ v, (∀ bw n, bw < Bw c → InSlice c kk n → v ≠ wVar c bw n) → env v = env' v) :
    AgreeOutsideSlice c kk env env' := by
  intro v hv
  apply hag v
  intro bw n hbw hin he
  exact hv bw n (by rw [he]; exact classify_wVar hbw (inSlice_lt_numel c hwkk hin)) hin

/-! ## (d) reported sizes -/

theorem reported_sizes (h : introspectionCheck c (interpPoly prog) mask numel views dims = true) :
    dims = (totalDim c.in1, totalDim c.in2, totalDim c.out) ∧
    (interpPoly prog).length = c.B * totalDim c.out ∧
    (∀ env : ℕ → ℝ, (interp (K := ℝ) env prog).length = c.B * totalDim c.out) ∧
    mask.length = totalDim c.out ∧ numel = weightNumel c ∧ views = modelViews c := by
  have hi := introspection_of_check h
  refine ⟨hi.dims_eq, hi.polys_len, ?_, hi.mask_len, hi.numel_eq, hi.views_eq⟩
  intro env
  rw [← interp_natural, List.length_map, hi.polys_len]

/-- the reported views are the model's slices: one per weighted instruction, in order, at the model's offsets -/
theorem reported_view (h : introspectionCheck c (interpPoly prog) mask numel views dims = true)
    (k off len : Nat) :
    (k, off, len) ∈ views ↔ (k < c.ins.length ∧ (insAt c k).hasW = true ∧ len = pathSize c (insAt c k) ∧
      off = if pathSize c (insAt c k) = 0 then 0 else weightOffset c k) := by
  rw [(introspection_of_check h).views_eq]
  unfold modelViews
  simp only [List.mem_filterMap, List.mem_range]
  constructor
  · rintro ⟨k', hk', he⟩
    change (if (insAt c k').hasW = true then _ else none) = _ at he
    split at he
    · rename_i hw
      simp only [Option.some.injEq, Prod.mk.injEq] at he
      obtain ⟨rfl, rfl, rfl⟩ := he
      refine ⟨hk', hw, rfl, ?_⟩
      simp [insAt]
    · exact absurd he (by simp)
  · rintro ⟨hk, hw, rfl, rfl⟩
    refine ⟨k, hk, ?_⟩
    change (if (insAt c k).hasW = true then _ else none) = _
    rw [if_pos hw]
    simp [insAt]

end

/-! ## non-vacuity: the theorems instantiated at generated certificates -/

section Examples
open E3nnVerif.Generated.TP

/-- M004 (`0x1o+2x0e ⊗ 1x0e+0x1o → 2x0e+1x1o`, three weighted instructions of which two are empty): the `1o` block of
    the output (components 2,3,4) is masked out and is identically zero; component 1 is live -/
example (env : ℕ → ℝ) : (interp (K := ℝ) env M004.prog).getD (1 * totalDim M004.cfg.out + 3) 0 = 0 :=
  mask_false_zero E3nnVerif.Cert.TP.C19.M004.introspection_ok (by decide) (by decide) (by decide) env

example : ∃ env : ℕ → ℝ, (interp (K := ℝ) env M004.prog).getD (1 * totalDim M004.cfg.out + 1) 0 ≠ 0 :=
  mask_true_nonzero E3nnVerif.Cert.TP.C19.M004.introspection_ok (by decide) (by decide) (by decide)

example : M004.moduleMask.getD 4 false = false ↔
    ∀ env : ℕ → ℝ, (interp (K := ℝ) env M004.prog).getD (0 * totalDim M004.cfg.out + 4) 0 = 0 :=
  mask_false_iff_zero E3nnVerif.Cert.TP.C19.M004.introspection_ok (by decide) (by decide)

example : M004.moduleViews = modelViews M004.cfg ∧ M004.moduleWeightNumel = weightNumel M004.cfg :=
  let h := reported_sizes E3nnVerif.Cert.TP.C19.M004.introspection_ok
  ⟨h.2.2.2.2.2, h.2.2.2.2.1⟩

/-- the general-polynomial form of `mask_true_nonzero`, its side condition decided by the kernel -/
example : ∃ env : ℕ → ℝ, Poly.eval env ((interpPoly M004.prog).getD (1 * totalDim M004.cfg.out + 1) []) ≠ 0 :=
  mask_true_eval_nonzero E3nnVerif.Cert.TP.C19.M004.introspection_ok (by decide) (by decide) (by decide)
    (by decide +kernel)

/-- M004, batch row 1, output component 1 is the single monomial `x1[1,3]·x2[1,0]·w[0,1]` (variables 3, 5, 7): the weight
    `w[0,1]` lies in the slice of instruction `kk = 1`, and the blocks of `x1`, `x2` and of the output are those of
    instruction 1 -/
example : ∃ kk x y i j, pathOfWeight M004.cfg 1 = some kk ∧ (insAt M004.cfg kk).hasW = true ∧ InSlice M004.cfg kk 1 ∧
      ([3, 5, 7] : Mono).Perm [x, y, 7] ∧ x = x1Var M004.cfg 1 i ∧ y = x2Var M004.cfg 1 j ∧ 7 = wVar M004.cfg 0 1 ∧
      0 = (if M004.cfg.shared then 0 else 1) ∧
      (insAt M004.cfg kk).i1 = (locate M004.cfg.in1 i).1 ∧ (insAt M004.cfg kk).i2 = (locate M004.cfg.in2 j).1 ∧
      (insAt M004.cfg kk).io = (locate M004.cfg.out 1).1 :=
  weight_variable_path E3nnVerif.Cert.TP.C19.M004.introspection_ok (b := 1) (k := 1) (by decide) (by decide)
    (tm := ([3, 5, 7], [(1, (⟨1, 0⟩ : Q))])) (by decide +kernel) (by decide) (w := 7) (by decide) rfl

/-- the reported view of instruction 1 of M004 is the model's slice `[0, 2)`; the empty instructions report `(k, 0, 0)` -/
example : 1 < M004.cfg.ins.length ∧ (insAt M004.cfg 1).hasW = true ∧ 2 = pathSize M004.cfg (insAt M004.cfg 1) ∧
      0 = if pathSize M004.cfg (insAt M004.cfg 1) = 0 then 0 else weightOffset M004.cfg 1 :=
  (reported_view E3nnVerif.Cert.TP.C19.M004.introspection_ok 1 0 2).mp (by decide)

/-- M003 (`2x1o+1x2e ⊗ 1x1o → 1x0e+2x1e+1x3o`, four weighted instructions, instructions 1 and 3 into the same block):
    the weights of instruction 2 (slice `[4,5)`, output block 2 = `1x3o`) do not reach component 2 (block 1) -/
example {env env' : ℕ → ℝ} (hag : AgreeOutsideSlice M003.cfg 2 env env') :
    (interp (K := ℝ) env M003.prog).getD (1 * totalDim M003.cfg.out + 2) 0
      = (interp (K := ℝ) env' M003.prog).getD (1 * totalDim M003.cfg.out + 2) 0 :=
  weights_local E3nnVerif.Cert.TP.C19.M003.introspection_ok (by decide) hag (by decide) (by decide) (by decide)

/-- … in particular overwriting the single weight `w[0,4]` of instruction 2 by any real number -/
example (env : ℕ → ℝ) (r : ℝ) :
    (interp (K := ℝ) env M003.prog).getD (1 * totalDim M003.cfg.out + 2) 0
      = (interp (K := ℝ) (Function.update env (wVar M003.cfg 0 4) r) M003.prog).getD (1 * totalDim M003.cfg.out + 2) 0 := by
  apply weights_local E3nnVerif.Cert.TP.C19.M003.introspection_ok (kk := 2) (by decide) _ (by decide) (by decide)
    (by decide)
  apply agreeOutsideSlice_of_layout (by decide)
  intro v hv
  rw [Function.update_of_ne (hv 0 4 (by decide) (by decide))]

example : weightOffset M003.cfg 2 = 4 ∧ pathSize M003.cfg (insAt M003.cfg 2) = 1 ∧ (insAt M003.cfg 2).io = 2 ∧
    (locate M003.cfg.out 2).1 = 1 := by decide

/-- the slicing of M001 (`unweighted, weighted, unweighted, weighted`, model only): offsets skip the unweighted instructions 0 and 2 -/
example : weightOffset M001.cfg 1 = 0 ∧ weightOffset M001.cfg 3 = 2 ∧ weightNumel M001.cfg = 4 ∧
    pathOfWeight M001.cfg 3 = some 3 := by decide

end Examples

end E3nnVerif.Props.C19
