/-
C14 — "Compiling, copying, saving and option changes never alter what a module computes".
Theorems about the MODELLED logic (global optimisation defaults, `disable_e3nn_codegen`/`prepare`,
option capture at construction, `CodeGenMixin.__getstate__/__setstate__`), for ALL histories.
The runtime clauses (TorchScript compilation, equality of functions after pickle/save/deepcopy) have
no Lean model; they are carried by the differential stream of harness/c14.py (level "other").
-/
import E3nnVerif.Theory.OptDefaults
import E3nnVerif.Theory.CodegenState

namespace E3nnVerif.Props.C14
open E3nnVerif.Model.OptDefaults

/-! ## (0) the key set of `_OPT_DEFAULTS` is invariant -/

/-- No history adds, removes or reorders the keys of `_OPT_DEFAULTS` (as long as no alias of the
store was handed out — which `get_returns_fresh_reference` shows never happens). -/
theorem store_keys_invariant (var : Variant) (h : List Op) (w : World) (hw : NoAlias w) :
    (run var h w).store.keys = w.store.keys := by
  induction h generalizing w with
  | nil => rfl
  | cons op h ih =>
    simp only [run]
    rw [ih _ (noAlias_step var w op hw)]
    rcases step_store_keys var w op with hk | ⟨i, k, v, r, _, hr, h0⟩
    · exact hk
    · exact absurd h0 (hw r (List.mem_of_getElem? hr))

theorem store_keys_from_init (var : Variant) (h : List Op) :
    (run var h init).store.keys = ["specialized_code", "optimize_einsums", "jit_script_fx"] :=
  store_keys_invariant var h init noAlias_init

/-- `set_optimization_defaults` raises exactly when some key is unknown (the guard of `__init__.py:23`). -/
theorem set_raises_iff_unknown_key (d : Dict) (kvs : List (String × Bool)) :
    (setDefaults d kvs).2 = true ↔ ∃ kv ∈ kvs, d.hasKey kv.1 = false := by
  induction kvs generalizing d with
  | nil => simp [setDefaults]
  | cons kv kvs ih =>
    obtain ⟨k, v⟩ := kv
    by_cases hc : d.hasKey k = true
    · have hkeys : ∀ k', (d.setKey k v).hasKey k' = d.hasKey k' := by
        intro k'
        by_cases hk : k' = k
        · subst hk; simp [Dict.hasKey, Dict.getKey?_setKey_same] at hc ⊢; simp [hc]
        · simp [Dict.hasKey, Dict.getKey?_setKey_other d k k' v hk]
      simp [setDefaults, hc, ih, hkeys]
    · simp [setDefaults, hc]

example : (setDefaults defaults [(kEinsum, false), ("bogus", true), (kSpec, false)])
    = ([(kSpec, true), (kEinsum, false), (kJit, true)], true) := by decide

/-! ## (a) `get_optimization_defaults` returns a copy -/

/-- Every reference handed out by `get` is a new object, never `_OPT_DEFAULTS` itself, after any history. -/
theorem get_returns_fresh_reference (var : Variant) (h : List Op) :
    ∀ r ∈ (run var h init).rets, r ≠ 0 :=
  noAlias_run var h init noAlias_init

/-- The returned dict has the items of the store at the time of the call. -/
theorem get_returns_same_items (var : Variant) (w : World) :
    let w' := (step var w .get).1
    ∃ r, w'.rets.getLast? = some r ∧ w'.read r = some w.store := by
  refine ⟨w.others.length + 1, ?_, ?_⟩
  · simp [step]
  · simp [step, World.read]

/-- Mutating a dict returned by `get` never changes the store, after any history. -/
theorem mutate_returned_dict_keeps_store (var : Variant) (h : List Op) (i : Nat) (k : String) (v : Bool) :
    (step var (run var h init) (.mutate i k v)).1.store = (run var h init).store := by
  have hw := get_returns_fresh_reference var h
  generalize run var h init = w at hw ⊢
  simp only [step]
  split
  · rfl
  · rename_i r hr
    have : r ≠ 0 := hw r (List.mem_of_getElem? hr)
    obtain ⟨r', rfl⟩ := Nat.exists_eq_succ_of_ne_zero this
    split <;> simp

/-- (a), full strength: for ALL histories, deleting every "mutate a returned dict" operation from the
history changes nothing that the library can observe (store, references handed out, context stack,
captured options of all modules). -/
theorem get_returns_copy (var : Variant) (h : List Op) (w w' : World) (hw : NoAlias w)
    (hc : w.core = w'.core) :
    (run var h w).core = (run var (h.filter (fun op => !op.isMutate)) w').core := by
  induction h generalizing w w' with
  | nil => exact hc
  | cons op h ih =>
    have hw1 := noAlias_step var w op hw
    cases hm : op.isMutate with
    | true =>
      cases op with
      | mutate i k v =>
        simp only [List.filter, hm, run, Bool.not_true]
        exact ih _ _ hw1 ((step_mutate_core var w hw i k v).trans hc)
      | _ => simp [Op.isMutate] at hm
    | false =>
      simp only [List.filter, hm, run, Bool.not_false]
      exact ih _ _ hw1 (step_core_congr var w w' op hm hc)

theorem get_returns_copy_from_init (var : Variant) (h : List Op) :
    (run var h init).store = (run var (h.filter (fun op => !op.isMutate)) init).store :=
  congrArg Core.store (get_returns_copy var h init init noAlias_init rfl)

/-- non-vacuity: the hypothesis `NoAlias` is what a copying `get` provides; in a world where the store
object itself had been handed out, the same mutation DOES change the defaults -/
example :
    let aliased : World := { init with rets := [0] }
    (step .asWritten aliased (.mutate 0 kJit false)).1.store ≠ aliased.store := by decide
example : (run .asWritten [.get, .mutate 0 kJit false, .mutate 0 "new_key" true] init).store = defaults
    ∧ (run .asWritten [.get, .mutate 0 kJit false, .mutate 0 "new_key" true] init).read 1
        = some [(kSpec, true), (kEinsum, true), (kJit, false), ("new_key", true)] := by decide

/-! ## (b) options are captured at construction -/

/-- Existing modules are never modified by any later history (set/enter/exit/get/mutate/other constructions). -/
theorem modules_frozen (var : Variant) (h : List Op) (w : World) (i : Nat) (hi : i < w.mods.length) :
    (run var h w).mods[i]? = w.mods[i]? := by
  obtain ⟨l, hl⟩ := run_mods_prefix var h w
  rw [hl, List.getElem?_append_left hi]

/-- (b), full strength: for ALL histories `h1`, `h2`: the module constructed after `h1` holds exactly the
options read from the store at that moment (explicit kwargs win), and still holds them after `h2`. -/
theorem constructed_module_frozen (var : Variant) (h1 h2 : List Op) (w : World) (c : Cls) (oS oE : Option Bool)
    (m : Captured) (hm : capture (run var h1 w).store c oS oE = some m) :
    (run var (h1 ++ .construct c oS oE :: h2) w).mods[(run var h1 w).mods.length]? = some m := by
  rw [run_append]
  simp only [run]
  have hstep : (step var (run var h1 w) (.construct c oS oE)).1.mods = (run var h1 w).mods ++ [m] := by
    simp [step, hm]
  rw [modules_frozen var h2 _ _ (by rw [hstep]; simp), hstep]
  simp

/-- A module rebuilt by unpickling has the captured options of its source, whatever the defaults are
at that moment (`__setstate__` reads no option). -/
theorem repickled_module_same (var : Variant) (h1 h2 : List Op) (w : World) (i : Nat) (m : Captured)
    (hm : (run var h1 w).mods[i]? = some m) :
    (run var (h1 ++ .repickle i :: h2) w).mods[(run var h1 w).mods.length]? = some m := by
  rw [run_append]
  simp only [run]
  have hstep : (step var (run var h1 w) (.repickle i)).1.mods = (run var h1 w).mods ++ [m] := by
    simp [step, hm]
  rw [modules_frozen var h2 _ _ (by rw [hstep]; simp), hstep]
  simp

/-- explicit `_specialized_code=` / `_optimize_einsums=` kwargs make the module independent of the defaults -/
theorem explicit_kwargs_ignore_defaults (d d' : Dict) (s e : Bool) (hj : d.getKey? kJit = d'.getKey? kJit) :
    capture d .tensorProduct (some s) (some e) = capture d' .tensorProduct (some s) (some e) := by
  simp [capture, pick, hj]

example : (run .asWritten
      [.set [(kEinsum, false)], .construct .tensorProduct none (some true), .construct .linear none none,
       .set [(kEinsum, true), (kSpec, false)], .enter, .construct .linear none none, .repickle 1] init).mods
    = [⟨.tensorProduct, some true, some true, true⟩, ⟨.linear, none, some false, true⟩,
       ⟨.linear, none, some true, false⟩, ⟨.linear, none, some false, true⟩] := by decide

/-! ## (c) the temporary helpers restore the defaults on every exit path -/

theorem good_reachable (var : Variant) (h : List Op) : Good (run var h init) := good_run var h init good_init

/-- (c) for the FIXED code (`try: yield finally: restore`): for every world satisfying the invariant of reachable
worlds (`good_reachable`), every well-nested body `b` — which may call `set_optimization_defaults` on ANY key
(also `jit_script_fx`), nest further blocks left normally or by exceptions, build and re-pickle modules, mutate
returned dicts — and EVERY way `x` of leaving the block: after `with disable_e3nn_codegen(): b` the value of
`jit_script_fx` and the stack of active contexts are what they were before the `with`. -/
theorem restore_tryFinally (w : World) (b : List Op) (x : Op) (hw : Good w) (hb : Balanced false b)
    (hx : x = .exitNormal ∨ x = .exitException) :
    (run .tryFinally (.enter :: b ++ [x]) w).store.getKey? kJit = w.store.getKey? kJit ∧
    (run .tryFinally (.enter :: b ++ [x]) w).stack = w.stack :=
  restoresOn_of .tryFinally false (Or.inr rfl) w b x hw hb
    (hx.elim Or.inl (fun h => Or.inr ⟨rfl, h⟩))

/-- (c) for the code AS WRITTEN (jit.py:328-334), partial: the same conclusion when neither the block nor any
block nested in its body is left by an exception.
Full statement (FALSE for this code, see `restore_asWritten_false`): the statement of `restore_tryFinally`
with `.asWritten`.  Missing: the exception exit path. -/
theorem restore_asWritten_partial (w : World) (b : List Op) (hw : Good w) (hb : Balanced true b) :
    (run .asWritten (.enter :: b ++ [.exitNormal]) w).store.getKey? kJit = w.store.getKey? kJit ∧
    (run .asWritten (.enter :: b ++ [.exitNormal]) w).stack = w.stack :=
  restoresOn_of .asWritten true (Or.inl rfl) w b .exitNormal hw hb (Or.inl rfl)

/-- (c) is FALSE for the code as written: `with disable_e3nn_codegen(): raise …` started from the initial
defaults leaves `jit_script_fx = False`.  Witness: world `init`, empty body, exit by exception, i.e. the
history `[enter, exitException]`. -/
theorem restore_asWritten_false :
    ¬ ∀ (w : World) (b : List Op) (x : Op), Good w → Balanced false b → (x = .exitNormal ∨ x = .exitException) →
      (run .asWritten (.enter :: b ++ [x]) w).store.getKey? kJit = w.store.getKey? kJit ∧
      (run .asWritten (.enter :: b ++ [x]) w).stack = w.stack := by
  intro h
  have := (h init [] .exitException good_init .nil (Or.inr rfl)).1
  revert this
  decide

/-- the witness, spelled out (this is what harness/c14.py replays on the real code) -/
theorem witness_asWritten :
    (run .asWritten [.enter, .exitException] init).store.getKey? kJit = some false ∧
    (run .asWritten [.enter, .exitException] init).stack = [] ∧
    (run .tryFinally [.enter, .exitException] init).store.getKey? kJit = some true ∧
    (run .asWritten prepareRaise init).store.getKey? kJit = some false := by decide

/-- non-vacuity: a nested body with sets on every key, a construction, an inner block left by an exception -/
example : Balanced false
    [.set [(kJit, true), (kSpec, false)], .enter, .construct .linear none none, .exitException, .get,
     .enter, .set [(kJit, true)], .exitNormal] :=
  .plain _ _ rfl (.blockException [_] _ rfl (.plain _ _ rfl .nil)
    (.plain _ _ rfl (.blockNormal [_] [] (.plain _ _ rfl .nil) .nil)))
example : Balanced true (prepareOk .tensorProduct ++ [.set [(kJit, false)]] ++ prepareOk .linear) :=
  .blockNormal [_] _ (.plain _ _ rfl .nil) (.plain _ _ rfl (.blockNormal [_] [] (.plain _ _ rfl .nil) .nil))

/-! ### the stack-bottom invariant, for ALL histories (no well-nestedness assumed) -/

/-- For the FIXED code and ALL histories (arbitrary interleavings, unmatched exits, exceptions, sets of the
other keys, constructions, dict mutations): the value to which `jit_script_fx` returns is invariant. -/
theorem bottom_invariant_tryFinally (h : List Op) (w : World) (hw : Good w) (hn : NoJitSet h) :
    bottom (run .tryFinally h w) = bottom w := by
  induction h generalizing w with
  | nil => rfl
  | cons op h ih =>
    have hg := good_step .tryFinally w op hw
    simp only [run]
    cases op with
    | set kvs =>
      rw [ih _ hg hn.2]
      simp [step, bottom, setDefaults_getKey?_other _ _ _ hn.1]
    | enter =>
      rw [ih _ hg hn]
      obtain ⟨j, hj⟩ := (Dict.hasKey_iff_getKey? _ _).1 hw.2
      cases hs : w.stack with
      | nil => simp [step, bottom, hj, hs]
      | cons b s =>
        rw [bottom_nonempty w b s hs, bottom_nonempty _ j (b :: s) (by simp [step, hj, hs]),
          List.getLast?_cons_cons]
    | exitNormal =>
      rw [ih _ hg hn]
      cases hs : w.stack with
      | nil => simp [step, hs]
      | cons b s => simp only [step, hs]; exact bottom_restore w b s hw hs
    | exitException =>
      rw [ih _ hg hn]
      cases hs : w.stack with
      | nil => simp [step, hs]
      | cons b s => simp only [step, hs]; exact bottom_restore w b s hw hs
    | get => rw [ih _ hg hn]; rfl
    | mutate i k v =>
      rw [ih _ hg hn]
      have := congrArg Core.store (step_mutate_core .tryFinally w hw.1 i k v)
      have hst := plain_stack .tryFinally w (.mutate i k v) rfl
      simp only [World.core] at this
      simp [bottom, this, hst]
    | construct c oS oE =>
      rw [ih _ hg hn]
      have hst := plain_stack .tryFinally w (.construct c oS oE) rfl
      have : (step .tryFinally w (.construct c oS oE)).1.store = w.store := by
        simp only [step]; split <;> rfl
      simp [bottom, this, hst]
    | repickle i =>
      rw [ih _ hg hn]
      have hst := plain_stack .tryFinally w (.repickle i) rfl
      have : (step .tryFinally w (.repickle i)).1.store = w.store := by
        simp only [step]; split <;> rfl
      simp [bottom, this, hst]

/-- consequence: once every context has been left, `jit_script_fx` has its initial value -/
theorem defaults_restored_when_idle (h : List Op) (hn : NoJitSet h)
    (hidle : (run .tryFinally h init).stack = []) :
    (run .tryFinally h init).store.getKey? kJit = some true := by
  have := bottom_invariant_tryFinally h init good_init hn
  simp only [bottom, hidle] at this
  rw [show ([] : List Bool).getLast? = none from rfl] at this
  simpa [init, defaults, Dict.getKey?, kSpec, kEinsum, kJit] using this

/-- … and this is false for the code as written -/
theorem bottom_invariant_asWritten_false :
    ¬ ∀ (h : List Op) (w : World), Good w → NoJitSet h → bottom (run .asWritten h w) = bottom w := by
  intro h
  have := h [.enter, .exitException] init good_init (by simp [NoJitSet])
  revert this
  decide

example : NoJitSet [.enter, .set [(kSpec, false)], .enter, .exitException, .construct .linear none none, .exitNormal] := by
  simp [NoJitSet, kSpec, kJit]

/-! ## (d) `CodeGenMixin.__getstate__` / `__setstate__` -/

section Codegen
open E3nnVerif.Model.CodegenState

/-- `__getstate__` never writes to an existing object and returns a NEW `_modules` object (any success). -/
theorem getstate_pure (h h' : Heap) (o : Obj) (st : State) (hg : getstate h o = .ok (h', st)) :
    st.modules = h.length ∧ h'.length = h.length + 1 ∧ (∀ r, r < h.length → h'[r]? = h[r]?) ∧
      st.attrs = o.attrs := by
  unfold getstate at hg
  split at hg
  · simp at hg
  · split at hg
    · simp only [Except.ok.injEq, Prod.mk.injEq] at hg
      obtain ⟨rfl, rfl⟩ := hg
      exact ⟨rfl, by simp, fun r hr => List.getElem?_append_left hr, rfl⟩
    · split at hg
      · simp at hg
      · simp only [Except.ok.injEq, Prod.mk.injEq] at hg
        obtain ⟨rfl, rfl⟩ := hg
        exact ⟨rfl, by simp, fun r hr => List.getElem?_append_left hr, rfl⟩

/-- `__getstate__` on a registered module: succeeds; the state's `_modules` is a new object holding the
ordinary children only; `__codegen__` maps every generated name, in order, to its serialised form. -/
theorem getstate_spec (h : Heap) (o : Obj) (names : List String) (ms : Modules) (hr : Registered h o names ms) :
    getstate h o = .ok (h ++ [ordinary ms names],
      ⟨o.attrs, h.length, some (names.map (fun f => (f, blobOf ms f)))⟩) := by
  have hloop := getstateLoop_ok ms names ms [] hr.nodup hr.code (fun f hf => by
    obtain ⟨s, _, hs, _⟩ := hr.code f hf
    simp [ODict.hasKey, hs])
  simp [getstate, hr.live, hr.listed, hloop, ordinary]

/-- pickle / deepcopy / torch.save+load of a registered module: succeeds; the copy has the same other
attributes, the same `__codegen__` list, and a NEW `_modules` object (two allocations after the old heap:
the stripped copy made by `__getstate__` and the transported one) that contains the ordinary children in
their order followed by the re-loaded generated children in `__codegen__` order; nothing that existed
before is written to. -/
theorem roundtrip_spec (h : Heap) (o : Obj) (names : List String) (ms : Modules) (hr : Registered h o names ms) :
    ∃ h2, roundtrip h o = .ok (h2, ⟨o.attrs, h.length + 1, some names⟩) ∧
      h2[h.length + 1]? = some (restored ms names) ∧ (∀ r, r < h.length → h2[r]? = h[r]?) := by
  have hfold := foldl_setKey_append names (blobOf ms) (ordinary ms names) hr.nodup
    (fun f hf => ordinary_absent ms names f hf)
  refine ⟨(h ++ [ordinary ms names] ++ [ordinary ms names]).set (h.length + 1) (restored ms names), ?_, ?_, ?_⟩
  · simp only [roundtrip, getstate_spec h o names ms hr, transport, setstate]
    simp [hfold, restored, Function.comp_def]
  · simp
  · intro r hr'
    rw [List.getElem?_set_ne (by simp; omega)]
    simp [List.getElem?_append_left, hr']

/-- `m2.__setstate__(m.__getstate__())` without a pickle in between (copy.copy): same result, one allocation. -/
theorem roundtripDirect_spec (h : Heap) (o : Obj) (names : List String) (ms : Modules)
    (hr : Registered h o names ms) :
    ∃ h2, roundtripDirect h o = .ok (h2, ⟨o.attrs, h.length, some names⟩) ∧
      h2[h.length]? = some (restored ms names) ∧ (∀ r, r < h.length → h2[r]? = h[r]?) := by
  have hfold := foldl_setKey_append names (blobOf ms) (ordinary ms names) hr.nodup
    (fun f hf => ordinary_absent ms names f hf)
  refine ⟨(h ++ [ordinary ms names]).set h.length (restored ms names), ?_, ?_, ?_⟩
  · simp only [roundtripDirect, getstate_spec h o names ms hr, setstate]
    simp [hfold, restored, Function.comp_def]
  · simp
  · intro r hr'
    rw [List.getElem?_set_ne (by simp; omega)]
    simp [List.getElem?_append_left, hr']

/-- setstate∘getstate restores the same children under the same names: as a finite map the restored
`_modules` EQUALS the original one (generated children are re-loaded from their own serialisation, the
kind fx / torchscript is preserved). -/
theorem roundtrip_same_children (ms : Modules) (names : List String) (hcode : ∀ f ∈ names, IsCode ms f)
    (k : String) : (restored ms names).getKey? k = ms.getKey? k := by
  rw [restored, ODict.getKey?_append]
  by_cases hk : k ∈ names
  · rw [ordinary_absent ms names k hk, ODict.getKey?_map_of_mem names (fun f => (blobOf ms f).load) k hk,
      load_blobOf ms k (hcode k hk)]
    rfl
  · rw [ODict.getKey?_map_of_not_mem names (fun f => (blobOf ms f).load) k hk, ordinary,
      ODict.getKey?_filter_of_keep ms (fun k => !names.contains k) k (by simp [hk])]
    cases ms.getKey? k <;> rfl

/-- … in particular the same set of submodule names -/
theorem roundtrip_same_names (ms : Modules) (names : List String) (hcode : ∀ f ∈ names, IsCode ms f)
    (k : String) : (restored ms names).hasKey k = ms.hasKey k := by
  simp [ODict.hasKey, roundtrip_same_children ms names hcode k]

/-- No sharing: the restored module's `_modules` is a different object from the original's, and adding /
replacing / any write on a child of the copy leaves the original module's `_modules` exactly as it was. -/
theorem roundtrip_no_sharing (h : Heap) (o : Obj) (names : List String) (ms : Modules)
    (hr : Registered h o names ms) (h2 : Heap) (o2 : Obj) (hrt : roundtrip h o = .ok (h2, o2))
    (name : String) (s : Sub) :
    o2.modules ≠ o.modules ∧ h2[o.modules]? = some ms ∧ (addChild h2 o2 name s)[o.modules]? = some ms := by
  obtain ⟨h2', hrt', _, hold⟩ := roundtrip_spec h o names ms hr
  rw [hrt'] at hrt
  simp only [Except.ok.injEq, Prod.mk.injEq] at hrt
  obtain ⟨rfl, rfl⟩ := hrt
  have hlt : o.modules < h.length := by
    have := hr.live
    exact (List.getElem?_eq_some_iff.1 this).1
  refine ⟨by simp; omega, (hold _ hlt).trans hr.live, ?_⟩
  simp only [addChild]
  rw [List.getElem?_set_ne (by omega)]
  exact (hold _ hlt).trans hr.live

/-- non-vacuity of `Registered`, built by the model of `_codegen_register` itself: a TensorProduct-like module
(two generated children, TorchScript) with an ordinary child registered before and one after -/
example :
    let o0 : Obj := ⟨[("irreps_in1", 7)], 0, none⟩
    let h0 : Heap := [[("pre", .plain 1)]]
    let (h1, o1) := register h0 o0 true [("_compiled_main_left_right", 10), ("_compiled_main_right", 11)]
    let h := addChild h1 o1 "post" (.plain 2)
    Registered h o1 ["_compiled_main_left_right", "_compiled_main_right"]
      [("pre", .plain 1), ("_compiled_main_left_right", .ts 10), ("_compiled_main_right", .ts 11), ("post", .plain 2)]
    ∧ roundtrip h o1 = .ok
        ([[("pre", .plain 1), ("_compiled_main_left_right", .ts 10), ("_compiled_main_right", .ts 11), ("post", .plain 2)],
          [("pre", .plain 1), ("post", .plain 2)],
          [("pre", .plain 1), ("post", .plain 2), ("_compiled_main_left_right", .ts 10), ("_compiled_main_right", .ts 11)]],
         ⟨[("irreps_in1", 7)], 2, some ["_compiled_main_left_right", "_compiled_main_right"]⟩) := by
  refine ⟨⟨rfl, rfl, by decide, ?_⟩, by decide⟩
  intro f hf
  simp only [List.mem_cons, List.mem_nil_iff, or_false] at hf
  rcases hf with rfl | rfl
  · exact ⟨.ts 10, .ts 10, by decide, rfl⟩
  · exact ⟨.ts 11, .ts 11, by decide, rfl⟩

/-- the copy made by `__getstate__` is what protects the live module: without it the same call strips the
generated children off the ORIGINAL -/
example :
    let h : Heap := [[("f", .fx 3), ("child", .plain 1)]]
    let o : Obj := ⟨[], 0, some ["f"]⟩
    (∃ h' st, getstateNoCopy h o = .ok (h', st) ∧ h'[o.modules]? ≠ h[o.modules]?) ∧
    (∃ h' st, getstate h o = .ok (h', st) ∧ h'[o.modules]? = h[o.modules]?) := by
  refine ⟨⟨_, _, rfl, by decide⟩, ⟨_, _, rfl, by decide⟩⟩

/-- the error branches of `__getstate__` as written: a name registered twice → `KeyError` at
`del out["_modules"][fname]`; a listed child that is neither GraphModule nor ScriptModule → `assert False`;
a listed name that is not a child → `AttributeError` -/
example : getstate [[("f", .fx 3)]] ⟨[], 0, some ["f", "f"]⟩ = .error .keyError := by decide
example : getstate [[("f", .plain 3)]] ⟨[], 0, some ["f"]⟩ = .error .assertionError := by decide
example : getstate [[("f", .fx 3)]] ⟨[], 0, some ["g"]⟩ = .error .attributeError := by decide

/-- The serialised state reflects the module AS IT IS NOW, not as it was when it was first copied: for a
registered module, for every earlier copy (pickle / deepcopy / torch.save of the same object) and every in-place
conversion `f` of the tensors owned by its generated children (`m.double()`, `m.to(dtype)`) applied afterwards,
a second copy succeeds and holds exactly the CONVERTED children under the same names — `__getstate__` is a
function of the current heap content, not of the identity of the object. -/
theorem copy_convert_copy (h : Heap) (o : Obj) (names : List String) (ms : Modules) (hr : Registered h o names ms)
    (f : Nat → Nat) :
    ∃ h1 o1 h3 o3, roundtrip h o = .ok (h1, o1) ∧ roundtrip (retype f h1 o) o = .ok (h3, o3) ∧
      o3.codegen = some names ∧
      ∀ k, ((h3[o3.modules]?).getD []).getKey? k = ((ms.getKey? k).map (Sub.retype f)) := by
  obtain ⟨h1, hrt1, _, hold1⟩ := roundtrip_spec h o names ms hr
  have hlt : o.modules < h.length := (List.getElem?_eq_some_iff.1 hr.live).1
  have hr1 : Registered h1 o names ms := ⟨(hold1 _ hlt).trans hr.live, hr.listed, hr.nodup, hr.code⟩
  have hr2 := registered_retype f h1 o names ms hr1
  obtain ⟨h3, hrt3, hres, _⟩ := roundtrip_spec (retype f h1 o) o names (retypeMods f ms) hr2
  refine ⟨h1, _, h3, _, hrt1, hrt3, rfl, fun k => ?_⟩
  simp only [hres, Option.getD_some]
  rw [roundtrip_same_children (retypeMods f ms) names hr2.code k, getKey?_retypeMods]

/-- non-vacuity, and what the theorem excludes: with a serialisation cache keyed by the child's identity (the seeded
change C14-2) the SAME history — copy, convert in place (payload 10 ↦ 64), copy again — hands out the stale
payload 10; the code as written hands out 64.  (fx children are not cached by that change and stay correct.) -/
example :
    let h : Heap := [[("w3j_code", .ts 10), ("fxcode", .fx 10)]]
    let o : Obj := ⟨[], 0, some ["w3j_code", "fxcode"]⟩
    let f : Nat → Nat := fun _ => 64
    (∃ c1 h1 o1 c3 h3 o3, roundtripMemo [] h o = .ok (c1, h1, o1) ∧
        roundtripMemo c1 (retype f h1 o) o = .ok (c3, h3, o3) ∧
        (h3[o3.modules]?).getD [] = [("w3j_code", .ts 10), ("fxcode", .fx 64)]) ∧
    (∃ h1 o1 h3 o3, roundtrip h o = .ok (h1, o1) ∧ roundtrip (retype f h1 o) o = .ok (h3, o3) ∧
        (h3[o3.modules]?).getD [] = [("w3j_code", .ts 64), ("fxcode", .fx 64)]) := by
  refine ⟨⟨_, _, _, _, _, _, rfl, rfl, by decide⟩, ⟨_, _, _, _, rfl, rfl, by decide⟩⟩

end Codegen

end E3nnVerif.Props.C14
