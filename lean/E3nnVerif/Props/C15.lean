/-
Property C15 — network models: E(3), permutation and batch consistency, sharp radial cutoff.

The point-cloud models are glue code around e3nn primitives.  `Model/Dataflow.lean` defines a typed IR for that glue
and a decidable type checker; the harness reconstructs the IR program of every model from a real forward pass and
lets `check` type it.  This file states what a well-typed program guarantees, for ALL graphs, inputs, parameters:

  (i)   `o3_equivariance`           acting on positions by R and on typed features by their declared D(R) commutes with
                                    evaluation — GIVEN each `prim` call is equivariant as declared (C01/C05/C08/C09);
  (ii)  `translation_invariance`    no hypothesis on primitives at all;
  (i+ii)`e3_equivariance`           both at once (positions move affinely);
  (iii) `relabelling_equivariance`  per-node outputs permute with the nodes, per-graph outputs are unchanged;
  (iv)  `batch_separability`        the rows of graph g computed inside a batch equal the rows computed on g alone
        `batch_noninterference`     changing the data of the other graphs does not change the rows of graph g;
        `batch_locality_needed`     NEGATIVE: a program with a batch-wide reduction is well-typed with `loc = false`
                                    and is NOT separable — the locality component of the types is not decoration.
  cutoff facts over ℝ               `smooth_cutoff_vanishes`, `cosine_embedding_vanishes`,
                                    `smooth_finite_embedding_vanishes`, `radial_mlp_zero`, `message_vanishes_*`,
                                    radius graph: `radius_graph_*`.

Everything is proved; hypotheses about primitives are hypotheses (structure fields / premises), never axioms.
-/
import E3nnVerif.Theory.DataflowE3
import E3nnVerif.Theory.DataflowNat
import E3nnVerif.Theory.DataflowFacts
import E3nnVerif.Theory.DataflowParity

namespace E3nnVerif.Props.C15

open E3nnVerif.Dataflow
open E3nnVerif.Model.Irreps (Irreps)

section Sound

variable {N E G F : Type} [Fintype N] [Fintype E] [DecidableEq N] [DecidableEq G]
variable [AddCommGroup F] [Module ℝ F] {S : Sem F}

/-- **(i)+(ii) E(3)-equivariance of every well-typed program.**
`a` is the action of one element (R, t) of E(3) on rows.  If the second evaluation is fed the moved inputs
(`a.Rel`: positions ↦ R x + t, features ↦ D_ρ(R) x with ρ the declared irreps) and every declared primitive
occurring in `p` is equivariant as declared, then every variable `k` of type `τ` of the second evaluation is the
moved variable of the first: in particular an output of irreps ρ_out satisfies `out' = D_ρout(R) out`. -/
theorem e3_equivariance (Γ : Graph N E G) (a : RepAction F S) (inp inp' : Nat → Val N E G F)
    (p : Prog) (tys : List Ty) (hc : check p = some tys)
    (hin : ∀ id τ, Instr.input id τ ∈ p → a.Rel τ (inp id) (inp' id))
    (hprim : ∀ name ins out args, Instr.prim name ins out args ∈ p → PrimEquivariant a name ins out)
    (k : Var) (τ : Ty) (hk : tys[k]? = some τ) (i : Idx N E G τ.shape) :
    getV (eval Γ S inp' p) k τ.shape i = a.T τ (getV (eval Γ S inp p) k τ.shape i) := by
  refine e3_sound Γ a inp inp' p tys hc ?_ k τ hk τ.shape rfl i
  intro j hj
  cases j with
  | input id σ => exact hin id σ hj
  | prim name ins out args => exact hprim name ins out args hj
  | _ => trivial

/-- **(i) O(3)-equivariance**: the case `t = 0`, read off at a non-position variable. -/
theorem o3_equivariance (Γ : Graph N E G) (a : RepAction F S) (inp inp' : Nat → Val N E G F)
    (p : Prog) (tys : List Ty) (hc : check p = some tys)
    (hin : ∀ id τ, Instr.input id τ ∈ p → a.Rel τ (inp id) (inp' id))
    (hprim : ∀ name ins out args, Instr.prim name ins out args ∈ p → PrimEquivariant a name ins out)
    (k : Var) (τ : Ty) (hk : tys[k]? = some τ) (hτ : τ.tc ≠ .pos) (i : Idx N E G τ.shape) :
    getV (eval Γ S inp' p) k τ.shape i = a.A τ.irreps (getV (eval Γ S inp p) k τ.shape i) := by
  rw [e3_equivariance Γ a inp inp' p tys hc hin hprim k τ hk i, a.T_of_ne_pos hτ]

/-- the pure translation by `t`: every representation matrix is the identity -/
def translation (S : Sem F) (t : F) : RepAction F S where
  A := fun _ => LinearMap.id
  t := t
  scalars := fun _ _ _ => rfl
  cat := fun _ _ _ _ => rfl
  mul := fun _ _ _ => rfl

/-- **(ii) Translation invariance of every well-typed program** — for all primitives whatsoever.
If the two evaluations get the same inputs except that position inputs are shifted by `t`, every variable that is
not a position has the same value in both. -/
theorem translation_invariance (Γ : Graph N E G) (S : Sem F) (t : F) (inp inp' : Nat → Val N E G F)
    (p : Prog) (tys : List Ty) (hc : check p = some tys)
    (hin : ∀ id τ, Instr.input id τ ∈ p → ∀ i : Idx N E G τ.shape,
      inp' id τ.shape i = if τ.tc = .pos then inp id τ.shape i + t else inp id τ.shape i)
    (k : Var) (τ : Ty) (hk : tys[k]? = some τ) (hτ : τ.tc ≠ .pos) (i : Idx N E G τ.shape) :
    getV (eval Γ S inp' p) k τ.shape i = getV (eval Γ S inp p) k τ.shape i := by
  have := o3_equivariance Γ (translation S t) inp inp' p tys hc ?_ ?_ k τ hk hτ i
  · simpa [translation] using this
  · intro id σ hmem s hs j
    cases hs
    rw [hin id σ hmem j]
    by_cases hp : σ.tc = .pos <;> simp [RepAction.T, translation, hp]
  · intro name ins out args _ xs hxs
    have : List.zipWith (fun (_ : Irreps) (x : F) => x) ins xs = xs := by
      clear * - hxs
      induction ins generalizing xs with
      | nil => cases xs with
        | nil => rfl
        | cons _ _ => simp at hxs
      | cons ρ ρs ih => cases xs with
        | nil => simp at hxs
        | cons x xs => simp [ih xs (by simpa using hxs)]
    simpa [translation] using congrArg (S.fn name) this

end Sound

section Relabel

variable {N₁ E₁ G₁ N₂ E₂ G₂ F : Type}
variable [Fintype N₁] [Fintype E₁] [DecidableEq N₁] [DecidableEq G₁]
variable [Fintype N₂] [Fintype E₂] [DecidableEq N₂] [DecidableEq G₂]
variable [AddCommGroup F] [Module ℝ F]

/-- **(iii) Relabelling equivariance of every well-typed program.**
`σN`, `σE`, `σG` relabel nodes, edges, graphs (the edge list is relabelled accordingly: `hsrc`, `hdst`, `hbatch`).
If the inputs are relabelled, every variable is relabelled: per-node rows move with their node, per-edge rows with
their edge, per-graph rows with their graph, global rows do not change.  Holds for ALL variables (also non batch-local
ones) and for all primitives. -/
theorem relabelling_equivariance (Γ₁ : Graph N₁ E₁ G₁) (Γ₂ : Graph N₂ E₂ G₂) (S : Sem F)
    (σN : N₁ ≃ N₂) (σE : E₁ ≃ E₂) (σG : G₁ ≃ G₂)
    (hsrc : ∀ e, Γ₂.src (σE e) = σN (Γ₁.src e)) (hdst : ∀ e, Γ₂.dst (σE e) = σN (Γ₁.dst e))
    (hbatch : ∀ n, Γ₂.batch (σN n) = σG (Γ₁.batch n))
    (inp₁ : Nat → Val N₁ E₁ G₁ F) (inp₂ : Nat → Val N₂ E₂ G₂ F)
    (p : Prog) (tys : List Ty) (hc : check p = some tys)
    (hin : ∀ id τ, Instr.input id τ ∈ p → ∀ i : Idx N₁ E₁ G₁ τ.shape,
      inp₁ id τ.shape i = inp₂ id τ.shape ((Morphism.ofEquiv σN σE σG hsrc hdst hbatch).app τ.shape i))
    (k : Var) (τ : Ty) (hk : tys[k]? = some τ) (i : Idx N₁ E₁ G₁ τ.shape) :
    getV (eval Γ₁ S inp₁ p) k τ.shape i
      = getV (eval Γ₂ S inp₂ p) k τ.shape ((Morphism.ofEquiv σN σE σG hsrc hdst hbatch).app τ.shape i) := by
  refine nat_sound (Morphism.ofEquiv σN σE σG hsrc hdst hbatch) True (fun _ => σN.surjective) S inp₁ inp₂ p tys hc
    ?_ k τ hk (Or.inr trivial) τ.shape rfl i
  intro j hj
  cases j with
  | input id σ =>
    intro _ s hs l
    cases hs
    exact hin id σ hj l
  | _ => trivial

/-- (iii), read at a per-node output: the row of node `n` is found at node `σN n` -/
theorem node_outputs_permute (Γ₁ : Graph N₁ E₁ G₁) (Γ₂ : Graph N₂ E₂ G₂) (S : Sem F)
    (σN : N₁ ≃ N₂) (σE : E₁ ≃ E₂) (σG : G₁ ≃ G₂)
    (hsrc : ∀ e, Γ₂.src (σE e) = σN (Γ₁.src e)) (hdst : ∀ e, Γ₂.dst (σE e) = σN (Γ₁.dst e))
    (hbatch : ∀ n, Γ₂.batch (σN n) = σG (Γ₁.batch n))
    (inp₁ : Nat → Val N₁ E₁ G₁ F) (inp₂ : Nat → Val N₂ E₂ G₂ F)
    (p : Prog) (tys : List Ty) (hc : check p = some tys)
    (hin : ∀ id τ, Instr.input id τ ∈ p → ∀ i : Idx N₁ E₁ G₁ τ.shape,
      inp₁ id τ.shape i = inp₂ id τ.shape ((Morphism.ofEquiv σN σE σG hsrc hdst hbatch).app τ.shape i))
    (k : Var) (ρ : Irreps) (tc : TClass) (l : Bool) (hk : tys[k]? = some ⟨.node, ρ, tc, l⟩) (n : N₁) :
    getV (eval Γ₁ S inp₁ p) k .node n = getV (eval Γ₂ S inp₂ p) k .node (σN n) :=
  relabelling_equivariance Γ₁ Γ₂ S σN σE σG hsrc hdst hbatch inp₁ inp₂ p tys hc hin k _ hk n

/-- (iii), read at a pooled output when the graphs keep their labels: unchanged -/
theorem graph_outputs_invariant {G : Type} [DecidableEq G] (Γ₁ : Graph N₁ E₁ G) (Γ₂ : Graph N₂ E₂ G) (S : Sem F)
    (σN : N₁ ≃ N₂) (σE : E₁ ≃ E₂)
    (hsrc : ∀ e, Γ₂.src (σE e) = σN (Γ₁.src e)) (hdst : ∀ e, Γ₂.dst (σE e) = σN (Γ₁.dst e))
    (hbatch : ∀ n, Γ₂.batch (σN n) = Γ₁.batch n)
    (inp₁ : Nat → Val N₁ E₁ G F) (inp₂ : Nat → Val N₂ E₂ G F)
    (p : Prog) (tys : List Ty) (hc : check p = some tys)
    (hin : ∀ id τ, Instr.input id τ ∈ p → ∀ i : Idx N₁ E₁ G τ.shape,
      inp₁ id τ.shape i = inp₂ id τ.shape
        ((Morphism.ofEquiv σN σE (Equiv.refl G) hsrc hdst hbatch).app τ.shape i))
    (k : Var) (ρ : Irreps) (tc : TClass) (l : Bool) (hk : tys[k]? = some ⟨.graph, ρ, tc, l⟩) (g : G) :
    getV (eval Γ₁ S inp₁ p) k .graph g = getV (eval Γ₂ S inp₂ p) k .graph g :=
  relabelling_equivariance Γ₁ Γ₂ S σN σE (Equiv.refl G) hsrc hdst hbatch inp₁ inp₂ p tys hc hin k _ hk g

end Relabel

section Batch

variable {N E G F : Type} [Fintype N] [Fintype E] [DecidableEq N] [DecidableEq G]
variable [AddCommGroup F] [Module ℝ F]

/-- **(iv) Batch separability of every well-typed program.**
`Γ` is a batch in which no edge joins two graphs (true of every radius graph: `radius_graph_no_cross_batch`).
Evaluate the program on graph `g` ALONE (`Γ.restrict g`: the nodes of `g`, the edges arriving at them, one graph)
with the inputs restricted to `g`: every batch-local variable has, at every node/edge of `g` and at the graph
itself, the value it has inside the batch. -/
theorem batch_separability (Γ : Graph N E G) (g : G) (nocross : ∀ e, Γ.batch (Γ.src e) = Γ.batch (Γ.dst e))
    (S : Sem F) (inp : Nat → Val N E G F)
    (inpg : Nat → Val {n : N // Γ.batch n = g} {e : E // Γ.batch (Γ.dst e) = g} Unit F)
    (p : Prog) (tys : List Ty) (hc : check p = some tys)
    (hin : ∀ id τ, Instr.input id τ ∈ p → ∀ i, inpg id τ.shape i = inp id τ.shape ((Γ.inclusion g nocross).app τ.shape i))
    (k : Var) (τ : Ty) (hk : tys[k]? = some τ) (hloc : τ.loc = true) (i : Idx _ _ Unit τ.shape) :
    getV (eval (Γ.restrict g nocross) S inpg p) k τ.shape i
      = getV (eval Γ S inp p) k τ.shape ((Γ.inclusion g nocross).app τ.shape i) := by
  refine nat_sound (Γ.inclusion g nocross) False (fun h => h.elim) S inpg inp p tys hc ?_ k τ hk (Or.inl hloc)
    τ.shape rfl i
  intro j hj
  cases j with
  | input id σ =>
    intro _ s hs l
    cases hs
    exact hin id σ hj l
  | _ => trivial

/-- (iv) as non-interference: two batches with the same graph structure whose inputs agree on graph `g`
(at its nodes, at the edges arriving at them, at `g`, and on global constants) give the same batch-local rows on `g`. -/
theorem batch_noninterference (Γ : Graph N E G) (g : G) (nocross : ∀ e, Γ.batch (Γ.src e) = Γ.batch (Γ.dst e))
    (S : Sem F) (inp inp' : Nat → Val N E G F)
    (p : Prog) (tys : List Ty) (hc : check p = some tys)
    (hin : ∀ id τ, Instr.input id τ ∈ p → ∀ i : Idx _ _ Unit τ.shape,
      inp id τ.shape ((Γ.inclusion g nocross).app τ.shape i) = inp' id τ.shape ((Γ.inclusion g nocross).app τ.shape i))
    (k : Var) (τ : Ty) (hk : tys[k]? = some τ) (hloc : τ.loc = true) (i : Idx _ _ Unit τ.shape) :
    getV (eval Γ S inp p) k τ.shape ((Γ.inclusion g nocross).app τ.shape i)
      = getV (eval Γ S inp' p) k τ.shape ((Γ.inclusion g nocross).app τ.shape i) := by
  let inpg : Nat → Val {n : N // Γ.batch n = g} {e : E // Γ.batch (Γ.dst e) = g} Unit F :=
    fun id s j => inp id s ((Γ.inclusion g nocross).app s j)
  rw [← batch_separability Γ g nocross S inp inpg p tys hc (fun _ _ _ _ => rfl) k τ hk hloc i,
    ← batch_separability Γ g nocross S inp' inpg p tys hc (fun id σ hm j => hin id σ hm j) k τ hk hloc i]

end Batch

/-! ## non-vacuity: concrete programs -/

/-- the message-passing core of `gate_points_2101.Convolution` inside `Network.forward`, with `1x0e + 1x1o` node
features, `0e + 1o` spherical harmonics, 3 radial basis functions, pooled per graph -/
def miniNetwork : Prog :=
  [ .input 0 ⟨.node, vecRep, .pos, true⟩,                                   -- 0  pos
    .input 1 ⟨.node, [(1, ⟨0, .even⟩), (1, ⟨1, .odd⟩)], .inv, true⟩,        -- 1  x
    .gatherSrc 0, .gatherDst 0, .sub 2 3,                                    -- 4  edge_vec
    .prim "sh" [vecRep] [(1, ⟨0, .even⟩), (1, ⟨1, .odd⟩)] [4],              -- 5  edge_sh
    .prim "norm" [vecRep] (scalars 1) [4],                                   -- 6  edge_length
    .mapInv "soft_one_hot" 3 [6],                                            -- 7
    .mapInv "smooth_cutoff" 1 [6],                                           -- 8
    .mul 8 5,                                                                -- 9  edge_attr
    .mapInv "fc" 5 [7],                                                      -- 10 weights
    .gatherSrc 1,                                                            -- 11 x[edge_src]
    .prim "tp" [[(1, ⟨0, .even⟩), (1, ⟨1, .odd⟩)], [(1, ⟨0, .even⟩), (1, ⟨1, .odd⟩)], scalars 5]
      [(1, ⟨0, .even⟩), (1, ⟨1, .odd⟩)] [11, 9, 10],                        -- 12 messages
    .scatterDst 12,                                                          -- 13
    .scale "inv_sqrt_num_neighbors" 13,                                      -- 14
    .prim "sc" [[(1, ⟨0, .even⟩), (1, ⟨1, .odd⟩)]] [(1, ⟨0, .even⟩), (1, ⟨1, .odd⟩)] [1],   -- 15
    .add 15 14,                                                              -- 16
    .scatterBatch 16 ]                                                       -- 17 pooled output

/-- it is well-typed; the pooled output is a batch-local, translation-invariant `1x0e+1x1o` per graph -/
example : (check miniNetwork).map (fun tys => tys[17]?) =
    some (some ⟨.graph, [(1, ⟨0, .even⟩), (1, ⟨1, .odd⟩)], .inv, true⟩) := by decide

/-- declaring the spherical harmonics of the edge vector with a PSEUDO-vector input (`1e`, what
`Network(irreps_edge_attr="0e+1e")` of gate_points_2101 silently does) is rejected: the edge vector is `1o` -/
example : check [ .input 0 ⟨.node, vecRep, .pos, true⟩, .gatherSrc 0, .gatherDst 0, .sub 1 2,
    .prim "sh" [[(1, ⟨1, .even⟩)]] [(1, ⟨0, .even⟩), (1, ⟨1, .even⟩)] [3] ] = none := by decide

/-- summing positions over neighbours is rejected (it is not translation invariant) -/
example : check [ .input 0 ⟨.node, vecRep, .pos, true⟩, .gatherSrc 0, .scatterDst 1 ] = none := by decide

/-- feeding a radial network with a non-scalar feature is rejected -/
example : check [ .input 0 ⟨.node, vecRep, .inv, true⟩, .mapInv "fc" 4 [0] ] = none := by decide

/-- a batch statistic is well-typed but flagged as not batch-local -/
def batchStat : Prog :=
  [ .input 0 ⟨.node, scalars 1, .inv, true⟩, .reduceAll 0, .bcast .node 1, .add 0 2 ]

example : check batchStat = some
    [⟨.node, scalars 1, .inv, true⟩, ⟨.glob, scalars 1, .inv, false⟩, ⟨.node, scalars 1, .inv, false⟩,
     ⟨.node, scalars 1, .inv, false⟩] := by decide

/-- **NEGATIVE: the locality flag is needed.**  `batchStat` (x ↦ x + Σ_all x) on a batch of two one-node graphs
without edges: changing the input of graph 1 changes the output row of graph 0.  So `batch_noninterference` is
false for variables typed `loc = false`, and the checker is right to flag them. -/
theorem batch_locality_needed :
    ∃ (Γ : Graph Bool Empty Bool) (S : Sem ℝ) (inp inp' : Nat → Val Bool Empty Bool ℝ),
      (∀ e, Γ.batch (Γ.src e) = Γ.batch (Γ.dst e)) ∧
      inp 0 .node false = inp' 0 .node false ∧
      getV (eval Γ S inp batchStat) 3 .node false ≠ getV (eval Γ S inp' batchStat) 3 .node false := by
  refine ⟨⟨Empty.elim, Empty.elim, id⟩, ⟨fun _ x _ => x, fun _ x => x, fun _ => 1, fun _ _ => 0⟩,
    fun _ s => match s with | .node => fun b => if b then 1 else 0 | .edge => fun _ => 0 | .graph => fun _ => 0 | .glob => fun _ => 0,
    fun _ s => match s with | .node => fun b => if b then 2 else 0 | .edge => fun _ => 0 | .graph => fun _ => 0 | .glob => fun _ => 0,
    fun e => e.elim, rfl, ?_⟩
  simp [batchStat, eval, evalFrom, evalInstr, getV]

/-! ## non-vacuity of the premises of `e3_equivariance`: a concrete non-trivial action and primitive -/

section NonVacuity

open E3nnVerif.Dataflow.ParityModel

/-- geometry-only program: squared edge lengths, summed at the destination node -/
def lengthProgram : Prog :=
  [ .input 0 ⟨.node, vecRep, .pos, true⟩, .gatherSrc 0, .gatherDst 0, .sub 1 2,
    .prim "norm2" [vecRep] (scalars 1) [3], .scatterDst 4 ]

def lengthProgramTypes : List Ty :=
  [⟨.node, vecRep, .pos, true⟩, ⟨.edge, vecRep, .pos, true⟩, ⟨.edge, vecRep, .pos, true⟩, ⟨.edge, vecRep, .diff, true⟩,
   ⟨.edge, scalars 1, .inv, true⟩, ⟨.node, scalars 1, .inv, true⟩]

theorem lengthProgram_typed : check lengthProgram = some lengthProgramTypes := by decide

/-- All premises of `e3_equivariance` are satisfied by the inversion–translation `x ↦ -x + t` of
`Theory.DataflowParity` (a non-identity action: `inversion_nontrivial`) and the primitive `norm2`:
on every graph, for every position assignment, the output is unchanged. -/
example {N E G : Type} [Fintype N] [Fintype E] [DecidableEq N] [DecidableEq G] (Γ : Graph N E G)
    (const : String → ℝ) (t : Row) (inp : Nat → Val N E G Row) (n : N) :
    let S := sem const (fun _ => norm2)
    let a := inversion const (fun _ => norm2) t
    let inp' : Nat → Val N E G Row := fun id s i => a.T ⟨.node, vecRep, .pos, true⟩ (inp id s i)
    getV (eval Γ S inp' lengthProgram) 5 .node n = getV (eval Γ S inp lengthProgram) 5 .node n := by
  intro S a inp'
  have h := e3_equivariance Γ a inp inp' lengthProgram lengthProgramTypes lengthProgram_typed ?_ ?_ 5
    ⟨.node, scalars 1, .inv, true⟩ rfl n
  · rw [h, a.T_of_ne_pos (by decide)]
    exact a.scalars _ (by decide) _
  · intro id τ hmem
    simp only [lengthProgram, List.mem_cons, Instr.input.injEq, reduceCtorEq, List.mem_nil_iff, or_false] at hmem
    obtain ⟨rfl, rfl⟩ := hmem
    intro s _ i
    rfl
  · intro name ins out args hmem
    simp only [lengthProgram, List.mem_cons, reduceCtorEq, Instr.prim.injEq, List.mem_nil_iff, or_false,
      false_or] at hmem
    obtain ⟨rfl, rfl, rfl, _⟩ := hmem
    exact norm2_equivariant const (fun _ => norm2) t rfl

end NonVacuity

/-! ## cutoff facts (over ℝ) -/

open E3nnVerif.Dataflow.Facts

/-- 2101/2102: `smooth_cutoff(r / r_max) = 0` for every `r ≥ r_max > 0` -/
theorem smooth_cutoff_vanishes {r rmax : ℝ} (h0 : 0 < rmax) (h : rmax ≤ r) : smoothCutoff (r / rmax) = 0 :=
  smoothCutoff_eq_zero ((one_le_div h0).mpr h)

/-- 2101/2102: it is continuous, and dies quadratically at the cutoff: `≤ π² (1 - r/r_max)²` -/
theorem smooth_cutoff_continuous : Continuous smoothCutoff := continuous_smoothCutoff

theorem smooth_cutoff_quadratic (x : ℝ) : 0 ≤ smoothCutoff x ∧ smoothCutoff x ≤ Real.pi ^ 2 * (1 - x) ^ 2 :=
  ⟨smoothCutoff_nonneg x, smoothCutoff_le_sq x⟩

/-- v2103: `soft_one_hot_linspace(r, 0, r_max, number, "cosine", cutoff=True)` is exactly 0 for `r ≥ r_max` -/
theorem cosine_embedding_vanishes {rmax r : ℝ} (h0 : 0 < rmax) (h : rmax ≤ r) (number i : ℕ) (hi : i < number) :
    cosineBasis 0 rmax number r i = 0 :=
  cosineBasis_eq_zero h0 (Or.inr h) hi

/-- v2103: and decays linearly: `|·| ≤ π/2 · (r_max - r)/step` -/
theorem cosine_embedding_linear {rmax r : ℝ} (h0 : 0 < rmax) (h : r ≤ rmax) (number i : ℕ) (hi : i < number) :
    |cosineBasis 0 rmax number r i| ≤ Real.pi / 2 * ((rmax - r) / step 0 rmax number) :=
  cosineBasis_le h0 h hi

/-- v2106 / voxel convolutions: `soft_one_hot_linspace(r, 0, r_max, number, "smooth_finite", cutoff=True)` is exactly 0
for `r ≥ r_max` (and at `r = 0`: the self-pair of a voxel, or a spurious self loop, contributes nothing) -/
theorem smooth_finite_embedding_vanishes (c : ℝ) {rmax r : ℝ} (h0 : 0 < rmax) (h : r ≤ 0 ∨ rmax ≤ r)
    (number i : ℕ) (hi : i < number) : smoothFiniteBasis c 0 rmax number r i = 0 :=
  smoothFiniteBasis_eq_zero c h0 h hi

/-- v2103/v2106 mechanism: the radial MLP has no bias and its activation fixes 0, so a zero embedding gives zero
tensor-product weights — for all weights, widths, depths -/
theorem radial_mlp_zero (Ls : List Layer) (h : ∀ L ∈ Ls, ∀ φ, L.act = some φ → φ 0 = 0) : fcn Ls 0 = 0 :=
  fcn_zero Ls h

/-- consequently the message of an edge at or beyond the cutoff vanishes, whenever the tensor product is linear in
its weights (2101-v2106: `tp(x[src], edge_attr, weight)`); `tp` is an arbitrary map that is additive in the
weight argument -/
theorem message_vanishes_of_zero_weights {X Y W M : Type} [AddGroup W] [AddGroup M]
    (tp : X → Y → W →+ M) (x : X) (y : Y) : tp x y 0 = 0 := map_zero _

/-- 2101/2102: the message vanishes because the edge attribute `smooth_cutoff · Y` is zero and the tensor product is
linear in it -/
theorem message_vanishes_of_zero_attr {X Y W M : Type} [AddGroup Y] [AddGroup M]
    (tp : X → W → Y →+ M) (x : X) (w : W) : tp x w 0 = 0 := map_zero _

/-! ## radius graph -/

section Radius
variable {N G V : Type} [Fintype N] [PseudoMetricSpace V]

theorem radius_graph_no_pair_beyond (pos : N → V) (batch : N → G) (r : ℝ) (i j : N)
    (h : r ≤ dist (pos i) (pos j)) : (i, j) ∉ radiusEdges pos batch r := not_mem_radiusEdges_of_le h

theorem radius_graph_no_cross_batch (pos : N → V) (batch : N → G) (r : ℝ) (i j : N)
    (h : (i, j) ∈ radiusEdges pos batch r) : batch i = batch j := radiusEdges_same_batch h

theorem radius_graph_no_self_pair (pos : N → V) (batch : N → G) (r : ℝ) (i : N) :
    (i, i) ∉ radiusEdges pos batch r := radiusEdges_irrefl i

/-- rotations, reflections, translations do not change the edge set -/
theorem radius_graph_isometry_invariant {W : Type} [PseudoMetricSpace W] {f : V → W} (hf : Isometry f)
    (pos : N → V) (batch : N → G) (r : ℝ) : radiusEdges (f ∘ pos) batch r = radiusEdges pos batch r :=
  radiusEdges_isometry hf pos batch r

/-- the graph structure of a radius graph satisfies the `nocross` premise of `batch_separability` -/
noncomputable def radiusGraphStr (pos : N → V) (batch : N → G) (r : ℝ) :
    Graph N {p : N × N // p ∈ radiusEdges pos batch r} G where
  src := fun e => e.1.1
  dst := fun e => e.1.2
  batch := batch

theorem radiusGraphStr_nocross (pos : N → V) (batch : N → G) (r : ℝ) (e) :
    (radiusGraphStr pos batch r).batch ((radiusGraphStr pos batch r).src e)
      = (radiusGraphStr pos batch r).batch ((radiusGraphStr pos batch r).dst e) :=
  radiusEdges_same_batch e.2

/-- NEGATIVE (defect of gate_points_2101/2102 reproduced by the harness with 26 points): the models remove self
pairs by `r > 0` on the output of `torch.cdist`; when that table has a positive diagonal entry below `r_max` the
self pair survives -/
theorem radius_graph_self_loop_of_inexact_distance (d : N → N → ℝ) (batch : N → G) (r : ℝ) (i : N)
    (h : 0 < d i i ∧ d i i < r) : (i, i) ∈ radiusEdgesPos d batch r :=
  (radiusEdgesPos_self_iff d batch r i).mpr h

example : (0 : Fin 1) ∈ Finset.univ ∧
    ((0 : Fin 1), (0 : Fin 1)) ∈ radiusEdgesPos (fun _ _ => (1e-8 : ℝ)) (fun _ => ()) 1 :=
  ⟨Finset.mem_univ _, radius_graph_self_loop_of_inexact_distance _ _ _ _ (by norm_num)⟩

end Radius

end E3nnVerif.Props.C15
