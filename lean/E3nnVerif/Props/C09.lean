import E3nnVerif.Theory.Pointwise
/-
C09 — pointwise non-linear layers act only through invariants and stay equivariant.

Objects (Model/Pointwise.lean, mirrors of the python source, generic over `[Scalar K]`, here at `K = ℝ`):
  activationCtor / activationFwd   e3nn/nn/_activation.py   Activation.__init__ / forward
  gateCtor / gateFwd / sortcut     e3nn/nn/_gate.py         Gate, _Sortcut
  normActCtor / normActFwd         e3nn/nn/_normact.py      NormActivation
  normFwd, normIrrepsIn/Out        e3nn/o3/_norm.py         Norm
  extractCtor / extractFwd, …Ir    e3nn/nn/_extract.py      Extract, ExtractIr
  identityCtor / identityFwd       e3nn/nn/_identity.py     Identity

Group elements.  `Action` (Theory/Pointwise.lean) is one element of O(3) acting on every irrep type: a map per
`(l, parity)` that preserves lengths and `Σ x²`, is homogeneous, fixes `0e` and multiplies `0o` by `σ = ±1`.
`OrthFamily.toAction` shows that ANY family of orthogonal matrices `Q l p` (`Qᵀ Q = 1`, `Q 0 even = 1`), acting by
matrix–vector product on every copy, is an `Action`; `O3Family` (`Q l p = s^{odd} R l`, the shape of the real
`D^{l,p}(g)`) is moreover `Twisted`, the extra compatibility `(l, odd) = (l, even) ⊗ 0o` that only `Gate` needs
(it multiplies an irrep by an odd scalar).  `rho A irreps x` is the block action on a flat feature vector.
All equivariance theorems hold for EVERY input of the right length — zero vectors included — and every layout.
-/
set_option linter.unusedSimpArgs false
set_option linter.unnecessarySeqFocus false
namespace E3nnVerif.Props.C09
open E3nnVerif E3nnVerif.Pointwise

noncomputable section

/-! ## Activation -/

/-- The constructor's decision for one block, as a function of the grid-test outcome `d`:
even scalar inputs keep their parity whatever the function; odd scalar inputs take the parity of the function
(the even test has priority); a function that is neither even nor odd is refused on an odd scalar; an activation
on `l > 0` is refused; `None` keeps the block. -/
theorem activation_decision (mul l : Nat) (p : Bool) (d : Detect) :
    activationCtor [(mul, 0, false)] [some d] = .ok [(mul, 0, false)] ∧
    (d.even = true → activationCtor [(mul, 0, true)] [some d] = .ok [(mul, 0, false)]) ∧
    (d.even = false → d.odd = true → activationCtor [(mul, 0, true)] [some d] = .ok [(mul, 0, true)]) ∧
    (d.even = false → d.odd = false → activationCtor [(mul, 0, true)] [some d] = .error .actParity) ∧
    (l ≠ 0 → activationCtor [(mul, l, p)] [some d] = .error .actNonScalar) ∧
    activationCtor [(mul, l, p)] [none] = .ok [(mul, l, p)] := by
  refine ⟨by simp [activationCtor, actOutLoop, Except.map], ?_, ?_, ?_, ?_, by simp [activationCtor, actOutLoop, Except.map]⟩
  · intro h; simp [activationCtor, actOutLoop, Except.map, Detect.pAct, h]
  · intro h1 h2; simp [activationCtor, actOutLoop, Except.map, Detect.pAct, h1, h2]
  · intro h1 h2; simp [activationCtor, actOutLoop, Detect.pAct, h1, h2]
  · intro h; simp [activationCtor, actOutLoop, h]

/-- A wrong number of activation functions is refused. -/
theorem activation_length_mismatch (irr : Irreps) (dets : List (Option Detect)) (h : irr.length ≠ dets.length) :
    activationCtor irr dets = .error .actLen := by
  simp [activationCtor, h]

/-- Block-wise value of `Activation.forward` for an accepted configuration: the (second-moment normalised)
function applied entrywise on blocks that carry one, the other blocks untouched. -/
theorem activation_blocks (irr : Irreps) (acts : List (Option (Act ℝ))) (dets : List (Option Detect))
    (hS : Specs acts dets) (out : Irreps) (hC : activationCtor irr dets = .ok out)
    (x y : List ℝ) (hx : x.length = dim irr) (hy : activationFwd irr acts x = .ok y) (i : Nat) (hi : i < irr.length) :
    block irr i y = match acts[i]? with
      | some (some a) => (block irr i x).map a.apply
      | _ => block irr i x := by
  obtain ⟨hl, hloop⟩ := activationCtor_ok hC
  rw [activationFwd_eq irr acts x hx] at hy
  exact actBlocks_block irr acts dets hS out hloop hl x y hx hy i hi

/-- **Activation is equivariant with the reported `irreps_out`**, for every group element, every layout, every
input: IF each function is truly even (resp. odd) on ℝ whenever the grid test said so (`Specs`/`Truthful`) and the
constructor accepted, THEN the forward succeeds and commutes with the action. -/
theorem activation_equivariant (A : Action) (irr : Irreps) (acts : List (Option (Act ℝ)))
    (dets : List (Option Detect)) (hS : Specs acts dets) (out : Irreps)
    (hC : activationCtor irr dets = .ok out) (x : List ℝ) (hx : x.length = dim irr) :
    ∃ y, activationFwd irr acts x = .ok y ∧ y.length = dim out ∧
      activationFwd irr acts (rho A irr x) = .ok (rho A out y) :=
  activationFwd_equivariant A irr acts dets hS out hC x hx

/-- hypotheses are satisfiable: `2x0o + 1x1e + 3x0e` with an even function on the odd scalars, `None`, anything on `0e` -/
example : Specs [some ⟨fun t => t * t, 2, false⟩, none, some ⟨fun t => Real.exp t, 1, true⟩]
    [some ⟨true, false⟩, none, some ⟨false, false⟩] :=
  .some ⟨fun _ t => by ring, fun h => by simp at h⟩ (.none (.some ⟨fun h => by simp at h, fun h => by simp at h⟩ .nil))
example : activationCtor [(2, 0, true), (1, 1, false), (3, 0, false)]
    [some ⟨true, false⟩, none, some ⟨false, false⟩] = .ok [(2, 0, false), (1, 1, false), (3, 0, false)] := by decide

/-- Reading under the inversion: an even function on `mul x 0o` gives a `0e` output and indeed `f(-x) = f(x)`;
an odd function gives a `0o` output and `f(-x) = -f(x)`. -/
theorem activation_inversion (mul : Nat) (a : Act ℝ) (x : List ℝ) (hx : x.length = mul) :
    ((∀ t, a.f (-t) = a.f t) →
      activationCtor [(mul, 0, true)] [some ⟨true, false⟩] = .ok [(mul, 0, false)] ∧
      ∃ y, activationFwd [(mul, 0, true)] [some a] x = .ok y ∧
        activationFwd [(mul, 0, true)] [some a] (x.map (-1 * ·)) = .ok y) ∧
    ((∀ t, a.f (-t) = -a.f t) →
      activationCtor [(mul, 0, true)] [some ⟨false, true⟩] = .ok [(mul, 0, true)] ∧
      ∃ y, activationFwd [(mul, 0, true)] [some a] x = .ok y ∧
        activationFwd [(mul, 0, true)] [some a] (x.map (-1 * ·)) = .ok (y.map (-1 * ·))) := by
  have hrho : ∀ (p : Bool) (z : List ℝ), z.length = mul →
      rho Action.inversion [(mul, 0, p)] z = z.map (Action.inversion.sgn p * ·) := by
    intro p z hz
    rw [rho_cons_scalar _ _ _ _ _ (by omega), rho_nil, List.append_nil, ← hz, List.take_length]
  constructor
  · intro heven
    have hC := (activation_decision mul 0 true ⟨true, false⟩).2.1 rfl
    have hS : Specs [some a] [some ⟨true, false⟩] := .some ⟨fun _ => heven, fun h => by simp at h⟩ .nil
    obtain ⟨y, h1, h2, h3⟩ := activation_equivariant Action.inversion _ _ _ hS _ hC x
      (by simp [mulIrDim, irDim, hx])
    refine ⟨hC, y, h1, ?_⟩
    rw [hrho true x hx, hrho false y (by simpa [mulIrDim, irDim] using h2)] at h3
    simpa [Action.sgn, Action.inversion] using h3
  · intro hodd
    have hC := (activation_decision mul 0 true ⟨false, true⟩).2.2.1 rfl rfl
    have hS : Specs [some a] [some ⟨false, true⟩] := .some ⟨fun h => by simp at h, fun _ => hodd⟩ .nil
    obtain ⟨y, h1, h2, h3⟩ := activation_equivariant Action.inversion _ _ _ hS _ hC x
      (by simp [mulIrDim, irDim, hx])
    refine ⟨hC, y, h1, ?_⟩
    rw [hrho true x hx, hrho true y (by simpa [mulIrDim, irDim] using h2)] at h3
    simpa [Action.sgn, Action.inversion] using h3

/-- **Limitation (documented).**  The constructor only tests evenness on the 256 grid points `10k/255`.  `wit` passes
that test exactly, is not even, is accepted on an odd scalar with reported output `0e`, and the resulting layer does
NOT commute with the inversion.  So the grid test alone does not imply the property; `activation_equivariant`
needs the truthfulness hypothesis. -/
theorem grid_test_does_not_imply_even (cst : ℝ) (hc : cst ≠ 0) :
    GridEven wit ∧ ¬ (∀ t, wit (-t) = wit t) ∧
    activationCtor [(1, 0, true)] [some ⟨true, false⟩] = .ok [(1, 0, false)] ∧
    ∃ x y, x.length = dim [(1, 0, true)] ∧
      activationFwd [(1, 0, true)] [some ⟨wit, cst, false⟩] x = .ok y ∧
      activationFwd [(1, 0, true)] [some ⟨wit, cst, false⟩] (rho Action.inversion [(1, 0, true)] x)
        ≠ .ok (rho Action.inversion [(1, 0, false)] y) := by
  refine ⟨wit_gridEven, fun h => wit_not_even (h _), by decide, [1 / 51], [wit (1 / 51) * cst], rfl, ?_, ?_⟩
  · simp [activationFwd, actBlocks, irDim, Act.apply, Except.map]
  · have h1 : rho Action.inversion [(1, 0, true)] [1 / 51] = [-(1 / 51)] := by
      simp [rho, rhoC, irDim, Action.inversion]
    have h2 : rho Action.inversion [(1, 0, false)] [wit (1 / 51) * cst] = [wit (1 / 51) * cst] := by
      simp [rho, rhoC, irDim, Action.inversion]
    rw [h1, h2]
    simp only [activationFwd, actBlocks, irDim, Act.apply, Except.map]
    simp only [Nat.mul_zero, Nat.zero_add, Nat.mul_one, List.length_cons, List.length_nil, Nat.lt_irrefl,
      if_false, List.take_succ_cons, List.take_zero, List.map_cons, List.map_nil, List.drop_succ_cons,
      List.drop_zero, List.append_nil, Bool.false_eq_true, ne_eq, Except.ok.injEq, List.cons.injEq, and_true]
    intro h
    exact wit_not_even (mul_right_cancel₀ hc h)

/-! ## Gate -/

/-- `_Sortcut` bookkeeping, all layouts: (1) every instruction index sends a block of the sorted input to an output
block OF THE SAME IRREPS (so the three outputs really are `irreps_scalars`, `irreps_gates`, `irreps_gated`), and
(2) the instruction indices, read in order, are a permutation of all block indices of the sorted input (no block is
lost, none is used twice). -/
theorem sortcut_bookkeeping (outs : List Irreps) :
    List.Forall₂ (WellFormed (sortcut outs).sorted) (sortcut outs).outs (sortcut outs).instructions ∧
    (sortcut outs).instructions.flatten.Perm (List.range (sortcut outs).sorted.length) :=
  ⟨sortcut_wellFormed outs, sortcut_instructions_perm outs⟩

/-- The elementwise product inside `Gate` (and `NormActivation`): for every layout, copy `u` of the result is copy `u`
of the features multiplied by the `u`-th scalar — each gated irrep meets its own gate. -/
theorem ewMul_copy (irr : Irreps) (g y : List ℝ) (hy : y.length = dim irr) (hg : g.length = numIrreps irr)
    (u : Nat) (hu : u < numIrreps irr) :
    ∃ a, g[u]? = some a ∧
      copyAt (expand irr) u (ewMul irr g y) = (copyAt (expand irr) u y).map (· * a) := by
  have hu' : u < g.length := by omega
  refine ⟨g[u], List.getElem?_eq_getElem hu', ?_⟩
  rw [ewMul_eq]
  exact copyAt_ewMulC _ g y (by rw [cdim_expand]; exact hy) u _ (by rw [length_expand]; exact hu)
    (List.getElem?_eq_getElem hu') (by rw [length_expand]; omega)

/-- **Value of `Gate.forward`** for every accepted configuration and every input of length `irreps_in.dim`:
`activated scalars ++ (gated ⊙ activated gates)`, the three parts being the blocks selected by the three `_Sortcut`
instructions; there are exactly as many activated gates as gated copies (so `ewMul_copy` applies). -/
theorem gate_value (irrS irrG irrY : Irreps)
    (actS : List (Option (Act ℝ))) (detS : List (Option Detect)) (hSS : Specs actS detS)
    (actG : List (Option (Act ℝ))) (detG : List (Option Detect)) (hSG : Specs actG detG)
    (info : GateInfo) (hC : gateCtor irrS detS irrG detG irrY = .ok info)
    (x : List ℝ) (hx : x.length = dim info.irrepsIn) :
    ∃ iS iG iY S' G', info.sc.instructions = [iS, iG, iY] ∧
      activationFwd irrS actS (selected info.sc.sorted x iS) = .ok S' ∧
      activationFwd irrG actG (selected info.sc.sorted x iG) = .ok G' ∧
      G'.length = numIrreps irrY ∧ (selected info.sc.sorted x iY).length = dim irrY ∧
      gateFwd irrS actS irrG actG irrY x = .ok (S' ++ ewMul irrY G' (selected info.sc.sorted x iY)) :=
  gateFwd_formula irrS irrG irrY actS detS hSS actG detG hSG info hC x hx

/-- **Gate is equivariant** with the reported `irreps_in` (sorted, simplified) and
`irreps_out = act_scalars.irreps_out + mul.irreps_out`, for every twisted action (every element of O(3)), every
layout the constructor accepts, every input. -/
theorem gate_equivariant (A : Action) (hA : A.Twisted) (irrS irrG irrY : Irreps)
    (actS : List (Option (Act ℝ))) (detS : List (Option Detect)) (hSS : Specs actS detS)
    (actG : List (Option (Act ℝ))) (detG : List (Option Detect)) (hSG : Specs actG detG)
    (info : GateInfo) (hC : gateCtor irrS detS irrG detG irrY = .ok info)
    (x : List ℝ) (hx : x.length = dim info.irrepsIn) :
    ∃ y, gateFwd irrS actS irrG actG irrY x = .ok y ∧ y.length = dim info.irrepsOut ∧
      gateFwd irrS actS irrG actG irrY (rho A info.irrepsIn x) = .ok (rho A info.irrepsOut y) :=
  gateFwd_equivariant A hA irrS irrG irrY actS detS hSS actG detG hSG info hC x hx

/-- hypotheses are satisfiable: `Gate("2x0e+0o", [f, odd], "0o+2x0e", [odd, None], "1o+2x2e")`, unsorted input -/
example : ∃ info, gateCtor [(2, 0, false), (1, 0, true)] [some ⟨false, false⟩, some ⟨false, true⟩]
    [(1, 0, true), (2, 0, false)] [some ⟨false, true⟩, none] [(1, 1, true), (2, 2, false)] = .ok info
    ∧ info.irrepsIn = [(2, 0, true), (4, 0, false), (1, 1, true), (2, 2, false)]
    ∧ info.irrepsOut = [(2, 0, false), (1, 0, true), (1, 1, false), (2, 2, false)]
    ∧ info.sc.instructions = [[2, 0], [1, 3], [4, 5]] := ⟨_, rfl, by decide, by decide, by decide⟩
example : Action.inversion.Twisted := Action.inversion_twisted
example (G : O3Family) : G.toOrth.toAction.Twisted := G.twisted

/-- constructor defect (reproduced on the real code): gates whose multiplicities are all zero are refused through
`Irreps.lmax` (`max()` of an empty sequence), although the layout is a legitimate "no gated part" -/
theorem gateCtor_zero_mul_rejected (d d' : Detect) :
    gateCtor [(1, 0, false)] [some d] [(0, 0, false)] [some d'] [(0, 1, false)] = .error .lmaxEmpty := rfl

/-! ## NormActivation -/

/-- **`normalize = False` is constructible** (repaired by 2872ee3; before, the guard evaluated `None > 0`): the stored
`epsilon` stays `None` — so `Norm(squared=False)` is used and nothing is clamped — and `epsilon` together with
`normalize = False` is still refused. -/
theorem normActCtor_normalize_false (ε : ℝ) (bias isStr : Bool) :
    normActCtor false (none : Option ℝ) bias isStr = .ok none ∧
    normActCtor false (some ε) bias isStr = .error .epsNoNormalize := by
  simp [normActCtor]

/-- **`bias=True` with `irreps_in` given as a `str` is constructible** (repaired by 11f82c3): no branch of the
constructor depends on `bias` or on how the irreps were spelled. -/
theorem normActCtor_bias_str (nz : Bool) (eps : Option ℝ) (bias isStr : Bool) :
    normActCtor nz eps bias isStr = normActCtor nz eps false false := by
  cases eps <;> cases nz <;> rfl

/-- the accepted configurations: `normalize = True` with `epsilon = None` (stored `1e-8`) or `epsilon > 0` -/
theorem normActCtor_accepts (ε : ℝ) (hε : 0 < ε) :
    normActCtor true (none : Option ℝ) false false = .ok (some (1 / 100000000)) ∧
    normActCtor true (some ε) false false = .ok (some ε) := by
  constructor
  · simp [normActCtor, Scalar.ofFrac, Scalar.ofInt]
  · have : Scalar.lt (0 : ℝ) ε = true := by simp [hε]
    simp [normActCtor, this]

/-- **Closed form of `NormActivation.forward`** (stored `ε > 0`, any layout, any input of the right length): every
copy is multiplied by `normScale φ normalize ε b_u (‖x_u‖²)`, a function of its Euclidean norm (and its bias) only;
`copyAt_scaleByC` reads this copy by copy. -/
theorem normAct_closed_form {ε : ℝ} (hε : 0 < ε) (irr : Irreps) (phi : ℝ → ℝ) (nz : Bool)
    (bias : Option (List ℝ)) (hb : ∀ b, bias = some b → b.length = numIrreps irr)
    (x : List ℝ) (hx : x.length = dim irr) :
    normActFwd irr phi nz (some ε) bias x
      = .ok (scaleByC (expand irr) ((biasList bias (numIrreps irr)).map (normScale phi nz ε)) x) :=
  normActFwd_closed_form hε irr phi nz bias hb x hx

/-- copy `u` of the output of `NormActivation` = copy `u` of the input times `normScale … (Σ_m x_{u,m}²)` -/
theorem normAct_copy {ε : ℝ} (hε : 0 < ε) (irr : Irreps) (phi : ℝ → ℝ) (nz : Bool)
    (bias : Option (List ℝ)) (hb : ∀ b, bias = some b → b.length = numIrreps irr)
    (x : List ℝ) (hx : x.length = dim irr) (u : Nat) (hu : u < numIrreps irr) :
    ∃ y b, normActFwd irr phi nz (some ε) bias x = .ok y ∧ (biasList bias (numIrreps irr))[u]? = some b ∧
      copyAt (expand irr) u y
        = (copyAt (expand irr) u x).map (· * normScale phi nz ε b (sumSq (copyAt (expand irr) u x))) := by
  have hbl : (biasList bias (numIrreps irr)).length = numIrreps irr := by
    cases bias with
    | none => simp [biasList]
    | some b => simpa [biasList] using hb b rfl
  have hu' : u < (biasList bias (numIrreps irr)).length := by omega
  refine ⟨_, (biasList bias (numIrreps irr))[u], normAct_closed_form hε irr phi nz bias hb x hx,
    List.getElem?_eq_getElem hu', ?_⟩
  exact copyAt_scaleByC _ _ x (by rw [cdim_expand]; exact hx) u _ (by rw [length_expand]; exact hu)
    (by rw [List.getElem?_map, List.getElem?_eq_getElem hu']; rfl)
    (by rw [length_expand, List.length_map, hbl])

/-- the factor: where the norm is at least `ε` it is `φ(|x| + b)/|x|`; below, the norm is replaced by `ε`
(so at `x = 0` the factor is the finite number `φ(ε + b)/ε`, never `0/0`) -/
theorem normScale_values (phi : ℝ → ℝ) {ε : ℝ} (hε : 0 < ε) (b q : ℝ) :
    (ε * ε ≤ q → normScale phi true ε b q = phi (Real.sqrt q + b) / Real.sqrt q) ∧
    (q < ε * ε → normScale phi true ε b q = phi (ε + b) / ε) ∧
    normScale phi true ε b 0 = phi (ε + b) / ε ∧ 0 < clampNorm ε q := by
  refine ⟨fun h => by simp [normScale, clampNorm_of_ge h], fun h => by simp [normScale, clampNorm_of_lt hε h],
    by simp [normScale, clampNorm_of_lt hε (mul_pos hε hε)], clampNorm_pos hε q⟩

/-- **NormActivation at zero input** (`normalize = True`): the output is exactly zero. -/
theorem normAct_zero_input {ε : ℝ} (hε : 0 < ε) (irr : Irreps) (phi : ℝ → ℝ)
    (bias : Option (List ℝ)) (hb : ∀ b, bias = some b → b.length = numIrreps irr) :
    normActFwd irr phi true (some ε) bias (List.replicate (dim irr) 0) = .ok (List.replicate (dim irr) 0) := by
  rw [normAct_closed_form hε irr phi true bias hb _ (by simp), ← cdim_expand]
  rw [scaleByC_zero]
  cases bias with
  | none => simp [biasList, length_expand]
  | some b => simp [biasList, length_expand, hb b rfl]

/-- one copy of norm at least `ε`, no bias: `x ↦ φ(|x|) · x / |x|` -/
theorem normAct_single_copy {ε : ℝ} (hε : 0 < ε) (l : Nat) (p : Bool) (phi : ℝ → ℝ) (v : List ℝ)
    (hv : v.length = irDim l) (hbig : ε * ε ≤ sumSq v) :
    normActFwd [(1, l, p)] phi true (some ε) none v
      = .ok (v.map (· * (phi (Real.sqrt (sumSq v)) / Real.sqrt (sumSq v)))) := by
  rw [normAct_closed_form hε _ phi true none (by simp) v (by simp [mulIrDim, hv])]
  simp only [expand_cons, expand_nil, List.append_nil, List.replicate_one, biasList, numIrreps, Nat.add_zero,
    List.map_cons, List.map_nil]
  rw [scaleByC_single l p _ v hv, (normScale_values phi hε 0 (sumSq v)).1 hbig, add_zero]

/-- **Closed form for `normalize = False`** (stored epsilon `None`, reachable through the constructor since 2872ee3):
copy `u` is multiplied by `φ(‖x_u‖ + b_u)`, again a function of its Euclidean norm only. -/
theorem normAct_closed_form_unnormalized (irr : Irreps) (phi : ℝ → ℝ)
    (bias : Option (List ℝ)) (hb : ∀ b, bias = some b → b.length = numIrreps irr)
    (x : List ℝ) (hx : x.length = dim irr) :
    normActCtor false (none : Option ℝ) bias.isSome false = .ok none ∧
    normActFwd irr phi false none bias x
      = .ok (scaleByC (expand irr) ((biasList bias (numIrreps irr)).map (plainScale phi)) x) :=
  ⟨by simp [normActCtor], normActFwd_closed_form_plain irr phi bias hb x hx⟩

/-- **`normalize = False` at zero input**: `φ(0 + b) · 0 = 0` on every copy. -/
theorem normAct_zero_input_unnormalized (irr : Irreps) (phi : ℝ → ℝ)
    (bias : Option (List ℝ)) (hb : ∀ b, bias = some b → b.length = numIrreps irr) :
    normActFwd irr phi false none bias (List.replicate (dim irr) 0) = .ok (List.replicate (dim irr) 0) := by
  rw [normActFwd_closed_form_plain irr phi bias hb _ (by simp), ← cdim_expand]
  rw [scaleByC_zero]
  cases bias with
  | none => simp [biasList, length_expand]
  | some b => simp [biasList, length_expand, hb b rfl]

/-- one copy, `normalize = False`, no bias: `x ↦ φ(|x|) · x` (at `x = 0`: `φ(0) · 0`) -/
theorem normAct_single_copy_unnormalized (l : Nat) (p : Bool) (phi : ℝ → ℝ) (v : List ℝ) (hv : v.length = irDim l) :
    normActFwd [(1, l, p)] phi false none none v = .ok (v.map (· * phi (Real.sqrt (sumSq v)))) := by
  rw [normActFwd_closed_form_plain _ phi none (by simp) v (by simp [mulIrDim, hv])]
  simp only [expand_cons, expand_nil, List.append_nil, List.replicate_one, biasList, numIrreps, Nat.add_zero,
    List.map_cons, List.map_nil]
  rw [scaleByC_single l p _ v hv, plainScale, add_zero]

/-- **NormActivation is equivariant** (any action, layout, nonlinearity, bias; every (normalize, stored epsilon) —
in particular the two the constructor produces, `(True, some ε)` and `(False, None)`; all inputs) -/
theorem normAct_equivariant (A : Action) (irr : Irreps) (phi : ℝ → ℝ) (normalize : Bool)
    (epsilon : Option ℝ) (bias : Option (List ℝ)) (hb : ∀ b, bias = some b → numIrreps irr ≤ b.length)
    (x : List ℝ) (hx : x.length = dim irr) :
    ∃ y, normActFwd irr phi normalize epsilon bias x = .ok y ∧ y.length = dim irr ∧
      normActFwd irr phi normalize epsilon bias (rho A irr x) = .ok (rho A irr y) :=
  normActFwd_equivariant A irr phi normalize epsilon bias hb x hx

example : (0 : ℝ) < 1 / 100000000 := by norm_num
example : (1 / 100000000 : ℝ) * (1 / 100000000) ≤ sumSq [3, 4, 0] := by norm_num [sumSq]

/-! ## Norm -/

/-- **`o3.Norm` returns the Euclidean norm of every copy**: entry `u` is `√(Σ_m x_{u,m}²)` (the `relu` is inert) -/
theorem norm_closed_form (irr : Irreps) (x : List ℝ) (hx : x.length = dim irr) :
    normFwd irr false x = .ok ((sqNormsC (expand irr) x).map Real.sqrt) ∧
    normFwd irr true x = .ok (sqNormsC (expand irr) x) ∧
    ∀ u, u < numIrreps irr → (sqNormsC (expand irr) x)[u]? = some (sumSq (copyAt (expand irr) u x)) := by
  refine ⟨normFwd_closed_form irr x hx, by rw [normFwd_ok irr true x hx, sqNorms_eq]; rfl, fun u hu => ?_⟩
  exact getElem?_sqNormsC _ x u (by rw [length_expand]; exact hu)

/-- `Σ x²` is the squared Euclidean norm -/
theorem sumSq_is_sum_of_squares (v : List ℝ) : sumSq v = (v.map fun a => a ^ 2).sum := sumSq_eq_sum v

/-- **`o3.Norm` is invariant**: input transformed with the reported (simplified) `irreps_in`, output with the reported
`irreps_out = N x 0e`; wrong input lengths are rejected. -/
theorem norm_equivariant (A : Action) (irr : Irreps) (sq : Bool) (x : List ℝ) (hx : x.length = dim irr) :
    ∃ y, normFwd irr sq x = .ok y ∧ y.length = dim (normIrrepsOut irr) ∧
      normFwd irr sq (rho A (normIrrepsIn irr) x) = .ok (rho A (normIrrepsOut irr) y) :=
  normFwd_equivariant A irr sq x hx

theorem norm_rejects_wrong_length (irr : Irreps) (sq : Bool) (x : List ℝ) (hx : x.length ≠ dim irr) :
    normFwd irr sq x = .error .runtime := by
  simp [normFwd, hx]

/-! ## Extract, ExtractIr, Identity -/

/-- **Extract copies the selected blocks and is equivariant**, output `k` carrying `irreps_outs[k]` — under the
consistency `WellFormed` between `irreps_outs` and the instructions, which `Extract.__init__` does not check
(see `extract_unchecked`), and which `ExtractIr` and `_Sortcut` guarantee. -/
theorem extract_equivariant (A : Action) (irrIn : Irreps) (x : List ℝ) (hx : x.length = dim irrIn)
    (outs : List Irreps) (inss : List (List Nat)) (hW : List.Forall₂ (WellFormed irrIn) outs inss) :
    extractFwd irrIn outs inss x = .ok (inss.map (selected irrIn x)) ∧
    extractFwd irrIn outs inss (rho A irrIn x)
      = .ok (List.zipWith (rho A) outs (inss.map (selected irrIn x))) :=
  extractFwd_equivariant A irrIn x hx outs inss hW

example : List.Forall₂ (WellFormed [(1, 0, false), (2, 1, true), (1, 0, false)])
    [[(1, 0, false), (1, 0, false)], [(2, 1, true)]] [[2, 0], [1]] :=
  .cons (by simp [WellFormed]) (.cons (by simp [WellFormed]) .nil)

/-- **ExtractIr** selects exactly the blocks of the requested irrep and is equivariant with its reported `irreps_out` -/
theorem extractIr_equivariant (A : Action) (irr : Irreps) (ir : Ir) (x : List ℝ) (hx : x.length = dim irr) :
    WellFormed irr (extractIrOut irr ir) (extractIrIns irr ir) ∧
    extractIrFwd irr ir x = .ok (selected irr x (extractIrIns irr ir)) ∧
    extractIrFwd irr ir (rho A irr x) = .ok (rho A (extractIrOut irr ir) (selected irr x (extractIrIns irr ir))) :=
  ⟨extractIr_wellFormed irr ir, extractIrFwd_equivariant A irr ir x hx⟩

/-- **Unchecked precondition of `Extract`** (model = real code, see the harness stream EXTRACT/mismatch):
`Extract("1x1o", ["1x1e"], [(0,)])` is accepted, and its output, reported as `1e`, changes sign under inversion. -/
theorem extract_unchecked :
    extractCtor [(1, 1, true)] [[(1, 1, false)]] [[0]] = .ok () ∧
    extractFwd [(1, 1, true)] [[(1, 1, false)]] [[0]] [1, 0, 0] = .ok [[(1 : ℝ), 0, 0]] ∧
    extractFwd [(1, 1, true)] [[(1, 1, false)]] [[0]] (rho Action.inversion [(1, 1, true)] [1, 0, 0])
      ≠ .ok [rho Action.inversion [(1, 1, false)] [1, 0, 0]] := by
  refine ⟨by decide, ?_, ?_⟩
  · simp [extractFwd, extractAll, extractOut, extractOne, fit, block, mulIrDim, irDim, Except.map]
  · simp [extractFwd, extractAll, extractOut, extractOne, fit, block, mulIrDim, irDim, Except.map,
      rho, rhoC, Action.inversion]
    norm_num

/-- **Identity**: accepted iff both irreps simplify to the same non-empty irreps; the forward is the identity and is
equivariant with the reported `irreps_in`, `irreps_out`. -/
theorem identity_equivariant (A : Action) (a b r : Irreps) (h : identityCtor a b = .ok r) (x : List ℝ) :
    r = simplify a ∧ simplify a = simplify b ∧
    identityFwd (rho A (simplify a) x) = rho A (simplify b) (identityFwd x) := by
  unfold identityCtor at h
  split at h
  · simp at h
  · rename_i hne
    have hab : simplify a = simplify b := by simpa using hne
    split at h
    · simp at h
    · simp only [Except.ok.injEq] at h
      exact ⟨h.symm, hab, by rw [hab]; rfl⟩

example : identityCtor [(1, 1, false), (1, 1, false)] [(2, 1, false)] = .ok [(2, 1, false)] := by decide

/-- constructor defect (reproduced): the zero-dimensional identity cannot be built (`torch.cat` of nothing) -/
theorem identityCtor_empty_rejected : identityCtor [] [] = .error .catEmpty := by decide

/-! ## orthogonal matrices -/

/-- Every family of orthogonal matrices (`Qᵀ Q = 1` for each `(l, p)`, `Q 0 even = 1`), acting on each copy by
matrix–vector product, is an `Action`: so `activation_equivariant`, `normAct_equivariant`, `norm_equivariant`,
`extract_equivariant`, `identity_equivariant` hold for it.  The fields of the action are the matrix facts
`|Qv|² = |v|²`, `Q(cv) = c Qv`, `Q_{0o} = ±1`. -/
theorem orthogonal_family_acts (F : OrthFamily) (l : Nat) (p : Bool) (v : List ℝ) (hv : v.length = irDim l) :
    F.toAction.M l p v = List.ofFn ((F.Q l p).mulVec (vecOf (irDim l) v)) ∧
    sumSq (F.toAction.M l p v) = sumSq v ∧ (F.toAction.σ = 1 ∨ F.toAction.σ = -1) :=
  ⟨rfl, F.toAction.normSq l p v hv, F.toAction.hσ⟩

/-- …and an element of O(3) (`Q l p = s^{odd} R l`) is moreover twisted: `gate_equivariant` applies. -/
theorem gate_equivariant_O3 (G : O3Family) (irrS irrG irrY : Irreps)
    (actS : List (Option (Act ℝ))) (detS : List (Option Detect)) (hSS : Specs actS detS)
    (actG : List (Option (Act ℝ))) (detG : List (Option Detect)) (hSG : Specs actG detG)
    (info : GateInfo) (hC : gateCtor irrS detS irrG detG irrY = .ok info)
    (x : List ℝ) (hx : x.length = dim info.irrepsIn) :
    ∃ y, gateFwd irrS actS irrG actG irrY x = .ok y ∧ y.length = dim info.irrepsOut ∧
      gateFwd irrS actS irrG actG irrY (rho G.toOrth.toAction info.irrepsIn x)
        = .ok (rho G.toOrth.toAction info.irrepsOut y) :=
  gate_equivariant _ G.twisted irrS irrG irrY actS detS hSS actG detG hSG info hC x hx

/-- the hypothesis class is inhabited by a non-trivial element (coordinate reversal on every `l ≥ 1`, sign `-1`) -/
example : O3Family := O3Family.example

end
end E3nnVerif.Props.C09
