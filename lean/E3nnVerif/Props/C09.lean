import E3nnVerif.Model.Pointwise
namespace E3nnVerif.Props.C09
end E3nnVerif.Props.C09
