import E3nnVerif.Theory.PermCode
import E3nnVerif.Theory.PermGerminate
import E3nnVerif.Theory.PermMatrix
import E3nnVerif.Theory.ReduceGerminate
import E3nnVerif.Theory.Reduce
/-
C17 — permutation utilities form S_n; symmetric-tensor bases orthonormal and complete.

All statements are about the executable models `E3nnVerif.PermModel` (e3nn/math/perm.py) and
`E3nnVerif.ReduceModel` (e3nn/math/_reduce.py), for ALL n / all formulas / all dims.  The hypotheses are the
guards of the real code: `isPerm p = true` is exactly what `compose` asserts and what makes `inverse`, `to_int`
return instead of raising ValueError.  Correspondence of the models with the real code: harness/c17.py.

NOT covered by theorems (correspondence / oracle checks only, see harness/c17.py):
  * orthonormalize, complete_basis, direct_sum (_linalg.py) and perm.standard_representation: float Gram–Schmidt
    with eps thresholds — no exact model.
  * the float value 1/sqrt(size) in `reduce_permutation` (the model carries sign, position and size exactly).
  * the string splitting of `germinate_formulas` is modelled with Lean's `String.splitOn`/`startsWith`; the theorems
    start from `parseTerms formula`.
-/
namespace E3nnVerif.Props.C17
open E3nnVerif.PermModel E3nnVerif.ReduceModel

/-! ## is_perm -/

/-- `is_perm p` ⇔ `p` is a rearrangement of `0..len p - 1` -/
theorem is_perm_iff (p : List ℕ) : isPerm p = true ↔ p.Perm (List.range p.length) := isPerm_iff

example : isPerm [2, 0, 1] = true ∧ isPerm [0, 0, 1] = false ∧ isPerm [0, 3, 1] = false := by decide

/-! ## integer encoding: a bijection `[0, n!) ↔ S_n` -/

theorem fact_eq_factorial (n : ℕ) : fact n = n.factorial := by
  induction n with
  | zero => rfl
  | succ n ih => rw [fact_succ, ih, Nat.factorial_succ]

/-- `from_int i n` is a permutation of `n` points for EVERY python int `i` -/
theorem from_int_is_perm (i : ℤ) (n : ℕ) : isPerm (fromInt i n) = true ∧ (fromInt i n).length = n :=
  ⟨isPerm_iff.2 (isPerm_fromInt i n), length_fromInt i n⟩

/-- `to_int (from_int i n) = i` for `i < n!` -/
theorem to_int_from_int (n i : ℕ) (h : i < n.factorial) : toInt (fromInt (i : ℤ) n) = .ok i :=
  toInt_fromInt n i (by rwa [fact_eq_factorial])

/-- `from_int (to_int p) n = p` for permutations, and `to_int p < n!` -/
theorem from_int_to_int (p : List ℕ) (h : isPerm p = true) :
    ∃ i, toInt p = .ok i ∧ i < p.length.factorial ∧ fromInt (i : ℤ) p.length = p := by
  obtain ⟨i, h1, h2, h3⟩ := fromInt_toInt (isPerm_iff.1 h)
  exact ⟨i, h1, by rwa [← fact_eq_factorial], h3⟩

/-- `to_int` returns (instead of raising ValueError) exactly on permutations -/
theorem to_int_ok_iff (p : List ℕ) : (∃ i, toInt p = .ok i) ↔ isPerm p = true := by
  constructor
  · rintro ⟨i, hi⟩; exact isPerm_iff.2 (isPerm_of_toInt_ok hi)
  · intro h; obtain ⟨i, hi, _⟩ := from_int_to_int p h; exact ⟨i, hi⟩

/-- on non-permutations `to_int` raises ValueError -/
theorem to_int_error (p : List ℕ) (h : isPerm p = false) : toInt p = .error .value := by
  cases hr : toInt p with
  | ok i => exact absurd (isPerm_iff.2 (isPerm_of_toInt_ok hr)) (by rw [h]; simp)
  | error e => rw [toIntLoop_error _ _ _ _ _ hr]

/-- python ints outside `[0, n!)` (negative, large) wrap around: `from_int i n = from_int (i mod n!) n` -/
theorem from_int_periodic (i : ℤ) (n : ℕ) : fromInt (i % (n.factorial : ℤ)) n = fromInt i n := by
  rw [← fact_eq_factorial]; exact fromInt_emod i n

/-- the encoding is a bijection from `{0, …, n!-1}` onto the permutations of `n` points -/
theorem from_int_bijOn (n : ℕ) :
    Set.BijOn (fun i : ℕ => fromInt (i : ℤ) n) (Set.Iio n.factorial) {p | isPerm p = true ∧ p.length = n} := by
  refine ⟨fun i _ => from_int_is_perm i n, ?_, ?_⟩
  · intro i hi j hj e
    have h1 := to_int_from_int n i hi
    have h2 := to_int_from_int n j hj
    simp only at e
    rw [e, h2] at h1
    exact (Except.ok.inj h1).symm
  · rintro p ⟨hp, rfl⟩
    obtain ⟨i, _, h2, h3⟩ := from_int_to_int p hp
    exact ⟨i, h2, h3⟩

/-- `group n` lists every permutation of `n` points exactly once -/
theorem group_spec (n : ℕ) :
    (group n).Nodup ∧ (group n).length = n.factorial ∧ ∀ p, p ∈ group n ↔ isPerm p = true ∧ p.length = n :=
  ⟨nodup_group n, by rw [length_group, fact_eq_factorial], fun p => by rw [mem_group, isPerm_iff]⟩

example : toInt [2, 0, 1] = .ok 2 ∧ fromInt 2 3 = [2, 0, 1] ∧ fromInt (-1) 3 = [2, 1, 0] := by decide

/-! ## group axioms for compose / inverse / identity -/

/-- the guards of `compose` (AssertionError otherwise) -/
theorem compose_ok_iff (p q : List ℕ) :
    (∃ r, compose p q = .ok r) ↔ isPerm p = true ∧ isPerm q = true ∧ p.length = q.length := by
  rw [compose_eq]
  by_cases h : isPerm p = true ∧ isPerm q = true ∧ p.length = q.length
  · simp [h]
  · simp [h]

/-- convention of the code: `compose p q` applies `q` FIRST: `(p ∘ q)[i] = p[q[i]]` -/
theorem compose_apply {p q r : List ℕ} (h : compose p q = .ok r) :
    r.length = p.length ∧ ∀ i < p.length, r.getD i 0 = p.getD (q.getD i 0) 0 := by
  rw [compose_eq] at h
  split_ifs at h with hc
  cases h
  exact ⟨length_composeRaw p q, fun i hi => getD_composeRaw hi⟩

/-- closure -/
theorem compose_closed {p q r : List ℕ} (h : compose p q = .ok r) : isPerm r = true ∧ r.length = p.length := by
  rw [compose_eq] at h
  split_ifs at h with hc
  cases h
  exact ⟨isPerm_iff.2 ((isPerm_iff.1 hc.1).composeRaw (isPerm_iff.1 hc.2.1) hc.2.2), length_composeRaw p q⟩

theorem compose_of_isPerm {p q : List ℕ} (hp : isPerm p = true) (hq : isPerm q = true) (h : p.length = q.length) :
    compose p q = .ok (composeRaw p q) := by
  rw [compose_eq, if_pos ⟨hp, hq, h⟩]

/-- associativity -/
theorem compose_assoc {p q r : List ℕ} (hp : isPerm p = true) (hq : isPerm q = true) (hr : isPerm r = true)
    (hpq : p.length = q.length) (hqr : q.length = r.length) :
    (compose p q >>= fun pq => compose pq r) = (compose q r >>= fun qr => compose p qr) ∧
    ∃ s, (compose p q >>= fun pq => compose pq r) = .ok s := by
  have hP := isPerm_iff.1 hp
  have hQ := isPerm_iff.1 hq
  have hR := isPerm_iff.1 hr
  have e1 : (compose p q >>= fun pq => compose pq r) = .ok (composeRaw (composeRaw p q) r) := by
    rw [compose_of_isPerm hp hq hpq]
    exact compose_of_isPerm (isPerm_iff.2 (hP.composeRaw hQ hpq)) hr (by simp; omega)
  have e2 : (compose q r >>= fun qr => compose p qr) = .ok (composeRaw p (composeRaw q r)) := by
    rw [compose_of_isPerm hq hr hqr]
    exact compose_of_isPerm hp (isPerm_iff.2 (hQ.composeRaw hR hqr)) (by simp; omega)
  rw [e1, e2, composeRaw_assoc hR hpq hqr]
  exact ⟨rfl, _, rfl⟩

/-- identity laws -/
theorem compose_identity {p : List ℕ} (hp : isPerm p = true) :
    isPerm (identity p.length) = true ∧ compose (identity p.length) p = .ok p ∧ compose p (identity p.length) = .ok p := by
  have hid : isPerm (identity p.length) = true := isPerm_iff.2 (isPerm_identity _)
  refine ⟨hid, ?_, ?_⟩
  · rw [compose_of_isPerm hid hp (by simp), identity_composeRaw (isPerm_iff.1 hp)]
  · rw [compose_of_isPerm hp hid (by simp), composeRaw_identity]

/-- `inverse` raises ValueError exactly on non-permutations -/
theorem inverse_error_iff (p : List ℕ) : inverse p = .error .value ↔ isPerm p = false := by
  rw [inverse_eq]
  cases h : isPerm p <;> simp

/-- left and right inverse -/
theorem inverse_spec {p : List ℕ} (hp : isPerm p = true) :
    ∃ ip, inverse p = .ok ip ∧ isPerm ip = true ∧ ip.length = p.length ∧
      compose p ip = .ok (identity p.length) ∧ compose ip p = .ok (identity p.length) := by
  have hP := isPerm_iff.1 hp
  have hI : isPerm (inverseRaw p) = true := isPerm_iff.2 hP.inverseRaw
  refine ⟨inverseRaw p, by rw [inverse_eq, if_pos hp], hI, length_inverseRaw p, ?_, ?_⟩
  · rw [compose_of_isPerm hp hI (by simp), composeRaw_inverseRaw hP]
  · rw [compose_of_isPerm hI hp (by simp), inverseRaw_composeRaw hP]

example : compose [1, 2, 0] [0, 2, 1] = .ok [1, 0, 2] ∧ inverse [1, 2, 0] = .ok [2, 0, 1] ∧
    compose [1, 2, 0] [0, 1] = .error .assertion ∧ inverse [1, 1, 0] = .error .value := by decide

/-- the list model of S_n is isomorphic to Mathlib's `Equiv.Perm (Fin n)`: `toEquiv` is a bijection … -/
theorem toEquiv_bijective (n : ℕ) :
    (∀ σ : Equiv.Perm (Fin n), ∃ (p : List ℕ) (hp : IsPerm p) (hn : p.length = n), toEquiv p hp hn = σ) ∧
    (∀ (p q : List ℕ) (hp : IsPerm p) (hq : IsPerm q) (hn : p.length = n) (hm : q.length = n),
      toEquiv p hp hn = toEquiv q hq hm → p = q) :=
  ⟨toEquiv_surjective, fun _ _ hp hq hn hm h => toEquiv_injective hp hq hn hm h⟩

/-- … and a homomorphism: `compose p q ↦ toEquiv p * toEquiv q`, `identity ↦ 1`, `inverse ↦ ⁻¹` -/
theorem toEquiv_hom {n : ℕ} {p q : List ℕ} (hp : IsPerm p) (hq : IsPerm q) (hn : p.length = n) (hm : q.length = n) :
    toEquiv (composeRaw p q) (hp.composeRaw hq (by omega)) (by simp [hn]) = toEquiv p hp hn * toEquiv q hq hm ∧
    toEquiv (identity n) (isPerm_identity n) (length_identity n) = 1 ∧
    toEquiv (inverseRaw p) hp.inverseRaw (by simp [hn]) = (toEquiv p hp hn)⁻¹ :=
  ⟨toEquiv_composeRaw hp hq hn hm, toEquiv_identity n, toEquiv_inverseRaw hp hn⟩

/-! ## sign -/

/-- `perm.sign` (parity of the number of even-length cycles) IS Mathlib's `Equiv.Perm.sign` -/
theorem sign_eq_mathlib {n : ℕ} {p : List ℕ} (hp : IsPerm p) (hn : p.length = n) :
    sign p = .ok ((Equiv.Perm.sign (toEquiv p hp hn) : ℤˣ) : ℤ) := sign_eq_sign hp hn

/-- sign is a homomorphism: `sign (compose p q) = sign p * sign q` -/
theorem sign_compose {p q r : List ℕ} (h : compose p q = .ok r) :
    ∃ a b, sign p = .ok a ∧ sign q = .ok b ∧ sign r = .ok (a * b) ∧ (a = 1 ∨ a = -1) := by
  rw [compose_eq] at h
  split_ifs at h with hc
  cases h
  have hP := isPerm_iff.1 hc.1
  have hQ := isPerm_iff.1 hc.2.1
  have ha := Int.units_eq_one_or (Equiv.Perm.sign (toEquiv p hP rfl))
  refine ⟨_, _, sign_eq_sign hP rfl, sign_eq_sign hQ hc.2.2.symm, ?_, ?_⟩
  · rw [sign_eq_sign (hP.composeRaw hQ hc.2.2) (length_composeRaw p q),
      toEquiv_composeRaw hP hQ rfl hc.2.2.symm, Equiv.Perm.sign_mul, Units.val_mul]
  · rcases ha with h | h <;> rw [h] <;> simp

theorem sign_identity (n : ℕ) : sign (identity n) = .ok 1 := by
  rw [sign_eq_sign (isPerm_identity n) (length_identity n), toEquiv_identity, Equiv.Perm.sign_one]; rfl

theorem sign_inverse {p : List ℕ} (hp : isPerm p = true) : sign (inverseRaw p) = sign p := by
  have hP := isPerm_iff.1 hp
  rw [sign_eq_sign hP rfl, sign_eq_sign hP.inverseRaw (length_inverseRaw p), toEquiv_inverseRaw hP rfl,
    Equiv.Perm.sign_inv]

/-- the transposition of `i ≠ j` as a tuple -/
def swapTuple (n i j : ℕ) : List ℕ := (List.range n).map fun x => if x = i then j else if x = j then i else x

/-- the sign of a transposition is `-1` -/
theorem sign_transposition {n i j : ℕ} (hi : i < n) (hj : j < n) (hij : i ≠ j) :
    isPerm (swapTuple n i j) = true ∧ sign (swapTuple n i j) = .ok (-1) := by
  have hlen : (swapTuple n i j).length = n := by simp [swapTuple]
  have hget : ∀ x < n, (swapTuple n i j).getD x 0 = if x = i then j else if x = j then i else x := by
    intro x hx
    simp [swapTuple, List.getD_eq_getElem?_getD, hx]
  have hP : IsPerm (swapTuple n i j) := by
    apply IsPerm.of_forall_mem
    intro x hx
    rw [hlen] at hx
    have key : ∀ y < n, (swapTuple n i j).getD y 0 ∈ swapTuple n i j := fun y hy => by
      rw [getD_of_lt (by rw [hlen]; exact hy)]; exact List.getElem_mem _
    by_cases h1 : x = i
    · have := key j hj; rw [hget j hj] at this; subst h1
      simpa [hij, Ne.symm hij] using this
    · by_cases h2 : x = j
      · have := key i hi; rw [hget i hi] at this; subst h2; simpa using this
      · have := key x hx; rw [hget x hx] at this; simpa [h1, h2] using this
  refine ⟨isPerm_iff.2 hP, ?_⟩
  have : toEquiv (swapTuple n i j) hP hlen = Equiv.swap (⟨i, hi⟩ : Fin n) ⟨j, hj⟩ := by
    ext x
    rw [toEquiv_apply, hget x x.2, Equiv.swap_apply_def]
    by_cases h1 : x = (⟨i, hi⟩ : Fin n)
    · simp [h1]
    · by_cases h2 : x = (⟨j, hj⟩ : Fin n)
      · simp [h2, Ne.symm hij]
      · have h1' : (x : ℕ) ≠ i := fun h => h1 (Fin.ext h)
        have h2' : (x : ℕ) ≠ j := fun h => h2 (Fin.ext h)
        simp [h1, h2, h1', h2']
  rw [sign_eq_sign hP hlen, this, Equiv.Perm.sign_swap (by intro h; exact hij (Fin.mk.inj h))]
  rfl

example : sign [1, 0, 3, 4, 2] = .ok (-1) ∧ sign (swapTuple 4 1 3) = .ok (-1) ∧ swapTuple 4 1 3 = [0, 3, 2, 1] := by
  decide

/-! ## cycle decomposition -/

/-- `to_cycles p` returns duplicate-free, min-first cycles of length ≥ 2 that follow `p`
    (`p[c[k]] = c[(k+1) mod len c]`), pairwise disjoint, and `p` fixes every other point … -/
theorem to_cycles_spec {p : List ℕ} (hp : isPerm p = true) : ∃ cs, toCycles p = .ok cs ∧ CyclesSpec p cs :=
  toCycles_spec (isPerm_iff.1 hp)

/-- … hence applying the cycles reconstructs `p` -/
theorem to_cycles_reconstruct {p : List ℕ} (hp : isPerm p = true) :
    ∃ cs, toCycles p = .ok cs ∧ fromCycles p.length cs = p := by
  obtain ⟨cs, h1, h2⟩ := to_cycles_spec hp
  exact ⟨cs, h1, fromCycles_of_spec h2⟩

example : toCycles [1, 0, 3, 4, 2] = .ok [[0, 1], [2, 3, 4]] ∧ fromCycles 5 [[0, 1], [2, 3, 4]] = [1, 0, 3, 4, 2] := by
  decide

/-! ## natural representation -/

/-- `natural_representation p` raises exactly when `inverse p` does; otherwise it is an `n × n` 0/1 matrix … -/
theorem natural_representation_ok {p : List ℕ} (hp : isPerm p = true) :
    naturalRepresentation p = .ok (natRepRaw p) ∧ HasShape p.length p.length (natRepRaw p) ∧
      ∀ r ∈ natRepRaw p, ∀ e ∈ r, e = 0 ∨ e = 1 := by
  refine ⟨?_, hasShape_natRepRaw p, natRepRaw_entry_mem p⟩
  unfold naturalRepresentation
  rw [inverse_eq, if_pos hp]

theorem natural_representation_error (p : List ℕ) (h : isPerm p = false) :
    naturalRepresentation p = .error .value := by
  unfold naturalRepresentation
  rw [inverse_eq, h]; rfl

/-- … namely Mathlib's permutation matrix of `p⁻¹` (`d[a, b] = 1 ⇔ p[b] = a`), so a permutation matrix -/
theorem natural_representation_permMatrix {n : ℕ} {p : List ℕ} (hp : IsPerm p) (hn : p.length = n) :
    toMatrix n n (natRepRaw p) = Matrix.permMatrixHom (R := ℤ) (toEquiv p hp hn) ∧
    ∀ i j, toMatrix n n (natRepRaw p) i j = if toEquiv p hp hn j = i then 1 else 0 :=
  ⟨toMatrix_natRepRaw hp hn, toMatrix_natRepRaw_apply hp hn⟩

/-- homomorphism in the code's convention: `rep (compose p q) = rep p * rep q` -/
theorem natural_representation_mul {n : ℕ} {p q r : List ℕ} (h : compose p q = .ok r) (hn : p.length = n) :
    toMatrix n n (natRepRaw r) = toMatrix n n (natRepRaw p) * toMatrix n n (natRepRaw q) ∧
    matMul (natRepRaw p) (natRepRaw q) p.length = natRepRaw r := by
  rw [compose_eq] at h
  split_ifs at h with hc
  cases h
  have hP := isPerm_iff.1 hc.1
  have hQ := isPerm_iff.1 hc.2.1
  exact ⟨toMatrix_natRepRaw_composeRaw hP hQ hn (by omega), matMul_natRepRaw hP hQ hc.2.2⟩

/-- orthogonality: `rep p * (rep p)ᵀ = 1 = (rep p)ᵀ * rep p`; determinant = sign -/
theorem natural_representation_orthogonal {n : ℕ} {p : List ℕ} (hp : IsPerm p) (hn : p.length = n) :
    toMatrix n n (natRepRaw p) * (toMatrix n n (natRepRaw p)).transpose = 1 ∧
    (toMatrix n n (natRepRaw p)).transpose * toMatrix n n (natRepRaw p) = 1 ∧
    matMul (natRepRaw p) (transpose (natRepRaw p) p.length) p.length = idMatrix p.length ∧
    (toMatrix n n (natRepRaw p)).det = ((Equiv.Perm.sign (toEquiv p hp hn) : ℤˣ) : ℤ) :=
  ⟨(toMatrix_natRepRaw_mul_transpose hp hn).1, (toMatrix_natRepRaw_mul_transpose hp hn).2,
    matMul_natRepRaw_transpose hp, det_toMatrix_natRepRaw hp hn⟩

/-- the executable list-of-rows product/transpose/identity used above are Mathlib's -/
theorem list_matrix_ops {m n l : ℕ} {A B : List (List ℤ)} (hA : HasShape m n A) (hB : HasShape n l B) :
    toMatrix m l (matMul A B l) = toMatrix m n A * toMatrix n l B ∧
    toMatrix n m (transpose A n) = (toMatrix m n A).transpose ∧ toMatrix n n (idMatrix n) = 1 :=
  ⟨toMatrix_matMul hA hB, toMatrix_transpose hA, toMatrix_idMatrix n⟩

example : naturalRepresentation [1, 2, 0] = .ok [[0, 0, 1], [1, 0, 0], [0, 1, 0]] := by decide

/-! ## germinate / is_group -/

/-- on a set of permutations of `n` points `germinate` terminates (the fuel `n! + 1` of the model is never
    exhausted) and returns the generated subgroup: duplicate-free, contains the generators, closed under
    inverse and product, and contained in every closed set containing the generators -/
theorem germinate_spec {n : ℕ} {s : List (List ℕ)} (hs : ∀ p ∈ s, isPerm p = true ∧ p.length = n) :
    ∃ g, germinate s = .ok g ∧ IsGenerated n s g :=
  germinate_ok fun p hp => ⟨isPerm_iff.1 (hs p hp).1, (hs p hp).2⟩

/-- the error branches of the real code: ValueError iff some element is not a permutation, else
    AssertionError iff two elements have different lengths -/
theorem germinate_errors (s : List (List ℕ)) :
    ((∃ p ∈ s, isPerm p = false) → germinate s = .error .value) ∧
    ((∀ p ∈ s, isPerm p = true) → (∃ p ∈ s, ∃ q ∈ s, p.length ≠ q.length) → germinate s = .error .assertion) := by
  constructor
  · rintro ⟨p, hp, h⟩
    exact germinate_value ⟨p, hp, isPerm_false_iff.1 h⟩
  · intro h1 h2
    exact germinate_assertion (fun p hp => isPerm_iff.1 (h1 p hp)) h2

/-- `is_group` decides the group axioms on a non-empty set of permutations of `n` points -/
theorem is_group_spec {n : ℕ} {g : List (List ℕ)} (hne : g ≠ []) (hg : ∀ p ∈ g, isPerm p = true ∧ p.length = n) :
    ∃ b, isGroup g = .ok b ∧
      (b = true ↔ identity n ∈ g ∧ (∀ p ∈ g, inverseRaw p ∈ g) ∧ (∀ p ∈ g, ∀ q ∈ g, composeRaw p q ∈ g)) :=
  isGroup_eq hne fun p hp => ⟨isPerm_iff.1 (hg p hp).1, (hg p hp).2⟩

/-- `is_group (germinate s)` for non-empty `s` -/
theorem is_group_germinate {n : ℕ} {s g : List (List ℕ)} (hne : s ≠ [])
    (hs : ∀ p ∈ s, isPerm p = true ∧ p.length = n) (hg : germinate s = .ok g) : isGroup g = .ok true := by
  obtain ⟨g', h1, h2⟩ := germinate_spec hs
  rw [hg] at h1
  cases h1
  exact isGroup_of_isGenerated hne h2

example : germinate [[1, 0, 2], [0, 2, 1]] = .ok [[1, 0, 2], [0, 2, 1], [0, 1, 2], [1, 2, 0], [2, 0, 1], [2, 1, 0]] ∧
    germinate [[0, 0]] = .error .value ∧ germinate [[0, 1], [0, 1, 2]] = .error .assertion := by decide +kernel

/-! ## germinate_formulas -/

/-- whenever `germinate_formulas` returns `(f0, G)`: the letters of `f0` are distinct, every term of the formula
    is a rearrangement of `f0`, and `G` is a finite signed permutation group on `len f0` indices (contains `(1, id)`,
    closed under `(s,p) ↦ (s,p⁻¹)` and `((s₁,p₁),(s₂,p₂)) ↦ (s₁s₂, p₁∘p₂)`), duplicate-free, containing the signed
    permutation of every term, and minimal with these properties.  (The model's fuel `2·n! + 1` is never exhausted:
    the result is never `.error .fuel`.) -/
theorem germinate_formulas_spec {formula : String} {f0 : List Char} {G : List SPerm}
    (h : germinateFormulas formula = .ok (f0, G)) :
    f0.Nodup ∧ IsSignedGroup f0.length G ∧ G.Nodup ∧
      (∀ t ∈ parseTerms formula, termOk f0 t.2 = true ∧ termPerm f0 t ∈ G) ∧
      (∀ T : SPerm → Prop, (∀ t ∈ parseTerms formula, T (termPerm f0 t)) → (∀ a, T a → T (sInv a)) →
        (∀ a b, T a → T b → T (sMul a b)) → ∀ a ∈ G, T a) :=
  germinateFormulas_ok h

/-- the three branches of `germinate_formulas` (after splitting the string): AssertionError iff the first term is
    negated, else RuntimeError iff some term is not a rearrangement of the first, else it returns — the closure
    loop always terminates within the model's fuel `2·n! + 1` -/
theorem germinate_formulas_branches {formula : String} {s0 : ℤ} {f0 : List Char} {rest : List (ℤ × List Char)}
    (hp : parseTerms formula = (s0, f0) :: rest) :
    (s0 ≠ 1 → germinateFormulas formula = .error .assertion) ∧
    (s0 = 1 → (∃ t ∈ (s0, f0) :: rest, termOk f0 t.2 = false) → germinateFormulas formula = .error .runtime) ∧
    (s0 = 1 → (∀ t ∈ (s0, f0) :: rest, termOk f0 t.2 = true) → ∃ G, germinateFormulas formula = .ok (f0, G)) :=
  germinateFormulas_branches hp

/-- the closure loop itself (after parsing): on generators that are signed permutations of `n` indices it
    terminates and returns the generated signed group -/
theorem germinate_signed_spec {n : ℕ} {gens : List SPerm} (hne : gens ≠ [])
    (hg : ∀ a ∈ gens, (a.1 = 1 ∨ a.1 = -1) ∧ isPerm a.2 = true ∧ a.2.length = n) :
    ∃ G, germinateSigned n gens = .ok G ∧ IsSignedGroup n G ∧ G.Nodup ∧ (∀ a ∈ gens, a ∈ G) ∧
      (∀ T : SPerm → Prop, (∀ a ∈ gens, T a) → (∀ a, T a → T (sInv a)) →
        (∀ a b, T a → T b → T (sMul a b)) → ∀ a ∈ G, T a) :=
  germinateSigned_ok hne fun a ha => ⟨(hg a ha).1, isPerm_iff.1 (hg a ha).2.1, (hg a ha).2.2⟩

/-- `ijk=-jik=kij` (string parsing is not kernel-reducible; its terms are `ijk`, `-jik`, `kij`) generates the
    alternating-signed S₃ -/
example : germinateSigned 3 [termPerm ['i', 'j', 'k'] (1, ['i', 'j', 'k']), termPerm ['i', 'j', 'k'] (-1, ['j', 'i', 'k']),
      termPerm ['i', 'j', 'k'] (1, ['k', 'i', 'j'])] =
    .ok [(1, [0, 1, 2]), (-1, [1, 0, 2]), (1, [1, 2, 0]), (1, [2, 0, 1]), (-1, [0, 2, 1]), (-1, [2, 1, 0])] := by
  decide +kernel

/-! ## reduce_permutation

`rows := reduceCore G dims` is the list `ret` of the real code; row `i` of the float tensor `Q` has the entry
`s / sqrt(len rows[i])` at the multi-index `e` for every `(s, e) ∈ rows[i]` and `0` elsewhere
(`coef r e` is the numerator).  Hypotheses: `G` is a signed group on `n` indices (what `germinate_formulas` returns,
`germinate_formulas_spec`), `dims` has one entry per index and passed the dimension bookkeeping
(`reduce_permutation_dims`). -/

section Reduce
variable {n : ℕ} {G : List SPerm} {dims : List ℕ}

/-- the dimension loop: whenever `reduce_permutation` returns on a signed group, indices exchanged by a group
    element got the same dimension, one per index -/
theorem reduce_permutation_dims {f0 : List Char} {dims0 : Dims} {out : Out}
    (h : reducePermutation f0 G dims0 = .ok out) (hG : IsSignedGroup f0.length G) (hf : f0.Nodup) :
    DimsCompatible G out.dims ∧ out.dims.length = f0.length ∧ out.rows = reduceCore G out.dims := by
  refine ⟨(reducePermutation_dims h hG hf).1, (reducePermutation_dims h hG hf).2, ?_⟩
  unfold reducePermutation at h
  split at h
  · cases h
  · split_ifs at h
    cases h
    rfl

/-- the index set of the tensor: all multi-indices below `dims` -/
theorem full_base_mem {x : List ℕ} :
    x ∈ fullBase dims ↔ x.length = dims.length ∧ ∀ k (h : k < x.length) (h' : k < dims.length), x[k] < dims[k] :=
  mem_fullBase

/-- entries: every row is non-empty, its entries are `±1` (before the common factor `1/sqrt(len row)`) at pairwise
    distinct multi-indices of the tensor; hence `Σ coef² = len row`, i.e. every row of `Q` has unit norm -/
theorem reduce_rows_entries (hG : IsSignedGroup n G) (hd : dims.length = n) (hc : DimsCompatible G dims) :
    ∀ r ∈ reduceCore G dims,
      r ≠ [] ∧ (∀ e ∈ r, (e.1 = 1 ∨ e.1 = -1) ∧ e.2 ∈ fullBase dims) ∧ (r.map (·.2)).Nodup ∧
      ((fullBase dims).map fun x => coef r x ^ 2).sum = r.length := fun r hr =>
  ⟨(row_entries hG hd hc r hr).1, (row_entries hG hd hc r hr).2.1, (row_entries hG hd hc r hr).2.2,
    coef_sq_sum hG hd hc r hr⟩

/-- distinct rows have disjoint supports (with unit norm: the rows of `Q` are orthonormal) -/
theorem reduce_rows_disjoint (hG : IsSignedGroup n G) (hd : dims.length = n) :
    (reduceCore G dims).Pairwise (fun r₁ r₂ => ∀ e₁ ∈ r₁, ∀ e₂ ∈ r₂, e₁.2 ≠ e₂.2) :=
  rows_disjoint hG hd

/-- orthogonality of distinct rows: pointwise `row₁[x] · row₂[x] = 0`.  Together with `Σ coef² = len row`
    (`reduce_rows_entries`) and `Q[i, x] = coef rows[i] x / sqrt(len rows[i])`: `Q Qᵀ = 1` -/
theorem reduce_rows_orthogonal (hG : IsSignedGroup n G) (hd : dims.length = n) :
    (reduceCore G dims).Pairwise (fun r₁ r₂ => ∀ x, coef r₁ x * coef r₂ x = 0) := by
  refine (rows_disjoint hG hd).imp ?_
  intro r₁ r₂ h x
  by_cases hx : ∃ e ∈ r₁, e.2 = x
  · obtain ⟨e₁, he₁, rfl⟩ := hx
    rw [coef_of_not_mem (r := r₂) (fun e₂ he₂ hh => h e₁ he₁ e₂ he₂ hh.symm), mul_zero]
  · rw [coef_of_not_mem (r := r₁) (fun e he hh => hx ⟨e, he, hh⟩), zero_mul]

/-- every row satisfies every formula of the group: `row[x] = s · row[x ∘ p]` for all `(s, p) ∈ G` -/
theorem reduce_rows_invariant (hG : IsSignedGroup n G) (hd : dims.length = n) :
    ∀ r ∈ reduceCore G dims, Invariant G dims (coef r) :=
  row_invariant hG hd

/-- completeness: every tensor satisfying the formulas is a combination of the rows -/
theorem reduce_rows_complete (hG : IsSignedGroup n G) (hd : dims.length = n) (hc : DimsCompatible G dims) :
    ∀ T, Invariant G dims T → ∀ x ∈ fullBase dims,
      T x = ((reduceCore G dims).map fun r => rowCoeff T r * coef r x).sum :=
  rows_complete hG hd hc

/-- the rows are exactly the non-cancelling orbits: `x` lies in the support of some row iff its orbit does not
    contain `(-1, x)` (otherwise `T[x] = -T[x] = 0`); so `len ret` = number of non-cancelling orbits -/
theorem reduce_rows_support (hG : IsSignedGroup n G) (hd : dims.length = n) :
    ∀ x ∈ fullBase dims, (∃ r ∈ reduceCore G dims, ∃ e ∈ r, e.2 = x) ↔ ((-1 : ℤ), x) ∉ orbit G x :=
  support_iff hG hd

/-- the hypotheses are satisfiable and the statement is not vacuous: `ij=-ji`, `i, j ∈ range(3)` gives the three
    antisymmetric basis tensors -/
example : germinateSigned 2 [(1, [0, 1]), (-1, [1, 0])] = .ok [(1, [0, 1]), (-1, [1, 0])] ∧
    (reducePermutation ['i', 'j'] [(1, [0, 1]), (-1, [1, 0])] [('i', 3)]).toOption.map (·.rows) =
      some [[(-1, [0, 1]), (1, [1, 0])], [(-1, [0, 2]), (1, [2, 0])], [(-1, [1, 2]), (1, [2, 1])]] := by
  decide +kernel

example : ∃ G, IsSignedGroup 2 G ∧ DimsCompatible G [3, 3] ∧ (reduceCore G [3, 3]).length = 3 := by
  obtain ⟨G, hG, hgrp, _⟩ := germinate_signed_spec (n := 2) (gens := [(1, [0, 1]), (-1, [1, 0])]) (by simp)
    (by decide)
  have : G = [(1, [0, 1]), (-1, [1, 0])] := by
    have h2 : germinateSigned 2 [(1, [0, 1]), (-1, [1, 0])] = .ok [(1, [0, 1]), (-1, [1, 0])] := by decide +kernel
    rw [h2] at hG; exact (Except.ok.inj hG).symm
  subst this
  exact ⟨_, hgrp, by unfold DimsCompatible; decide, by decide +kernel⟩

end Reduce

end E3nnVerif.Props.C17
