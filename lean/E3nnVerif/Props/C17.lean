import E3nnVerif.Model.Reduce
namespace E3nnVerif.Props.C17
end E3nnVerif.Props.C17
