import Mathlib.Analysis.SpecialFunctions.Trigonometric.Bounds
import E3nnVerif.Theory.Radial
import E3nnVerif.Theory.RadialGauss
import E3nnVerif.Theory.RadialSmooth
/-
C16 — radial bases and scalar helpers.  All theorems are about the ℝ-instance of the scalar-generic model
E3nnVerif/Model/Radial.lean (the same definitions run at Float in drivers/C16.lean next to the real code).
They hold for ALL real `x`, all `start < stop`, all `number ≥ 2` (the guards needed for the interval and
the `values[1]` access of the code to make sense; the code itself does not check `start < end`).
-/
namespace E3nnVerif.Props.C16
open E3nnVerif E3nnVerif.Radial
open scoped ContDiff

/-! ## soft_unit_step -/

/-- exactly 0 for non-positive arguments (and only there) -/
theorem soft_unit_step_eq_zero_iff (x : ℝ) : softUnitStep x = 0 ↔ x ≤ 0 := by
  rw [softUnitStep_eq_glue]; exact expNegInvGlue.zero_iff_nonpos

/-- `exp(-1/x)` for positive arguments -/
theorem soft_unit_step_of_pos (x : ℝ) (hx : 0 < x) : softUnitStep x = Real.exp (-1 / x) := by
  rw [softUnitStep_real, if_pos hx]

example : softUnitStep (1 : ℝ) = Real.exp (-1 / 1) := soft_unit_step_of_pos 1 one_pos

/-- the model of the code is Mathlib's `expNegInvGlue` -/
theorem soft_unit_step_eq_expNegInvGlue : (softUnitStep : ℝ → ℝ) = expNegInvGlue :=
  softUnitStep_fun_eq

/-- `C^∞` on the whole line -/
theorem soft_unit_step_contDiff : ContDiff ℝ ∞ (softUnitStep : ℝ → ℝ) := contDiff_softUnitStep

/-- the closed form coded in `_SoftUnitStep.backward` -/
theorem soft_unit_step_backward_formula (x dy : ℝ) :
    softUnitStepBackward x dy = (if 0 < x then Real.exp (-1 / x) / x ^ 2 else 0) * dy := by
  rw [softUnitStepBackward, softUnitStepGrad_real]

/-- the derivative exists at EVERY point (including 0) and is the code's backward factor -/
theorem soft_unit_step_hasDerivAt (x : ℝ) :
    HasDerivAt (softUnitStep : ℝ → ℝ) (softUnitStepBackward x 1) x := by
  rw [softUnitStepBackward, mul_one]; exact hasDerivAt_softUnitStep x

/-- `backward` is the vector–Jacobian product: for every downstream differentiable `L` the derivative of
`L ∘ soft_unit_step` at `x` is `backward(x, L'(soft_unit_step x))` -/
theorem soft_unit_step_backward_is_vjp (L : ℝ → ℝ) (L' x : ℝ)
    (hL : HasDerivAt L L' (softUnitStep x)) :
    HasDerivAt (L ∘ softUnitStep) (softUnitStepBackward x L') x := by
  have := hL.comp x (hasDerivAt_softUnitStep x)
  rw [softUnitStepBackward, mul_comm]; exact this

example : HasDerivAt (id ∘ (softUnitStep : ℝ → ℝ)) (softUnitStepBackward 0 1) 0 :=
  soft_unit_step_backward_is_vjp id 1 0 (hasDerivAt_id _)

/-- the derivative is finite and 0 on the whole closed negative half line -/
theorem soft_unit_step_backward_of_nonpos (x dy : ℝ) (hx : x ≤ 0) : softUnitStepBackward x dy = 0 := by
  rw [soft_unit_step_backward_formula, if_neg (not_lt.mpr hx), zero_mul]

/-- the code's backward factor is the derivative as a function, hence continuous; in particular it tends to 0
at 0⁺, where the code evaluates it as a quotient of two quantities that both underflow (IEEE: 0/0 = NaN for
`0 < x < 1.5e-162`; the harness replays `x = 1e-200` on the real code) -/
theorem soft_unit_step_backward_continuous : Continuous (fun x : ℝ => softUnitStepBackward x 1) := by
  have h : deriv (softUnitStep : ℝ → ℝ) = fun x => softUnitStepBackward x 1 :=
    funext fun x => (soft_unit_step_hasDerivAt x).deriv
  rw [← h]
  exact soft_unit_step_contDiff.continuous_deriv (by simp)

theorem soft_unit_step_backward_tendsto_zero :
    Filter.Tendsto (fun x : ℝ => softUnitStepBackward x 1) (nhds 0) (nhds 0) := by
  have := soft_unit_step_backward_continuous.tendsto 0
  rwa [soft_unit_step_backward_of_nonpos 0 1 le_rfl] at this

/-! ## the centres -/

/-- `step = values[1] - values[0]` is `(end-start)/(number-1)`, resp. `(end-start)/(number+1)` with cutoff -/
theorem step_eq (start stop : ℝ) (number : ℕ) (cutoff : Bool) (hn : 2 ≤ number) :
    stepOf start stop number cutoff
      = (stop - start) / (if cutoff then (number : ℝ) + 1 else (number : ℝ) - 1) := by
  rw [stepOf_real _ _ _ _ hn]; cases cutoff <;> simp [realStep]

theorem step_pos (start stop : ℝ) (number : ℕ) (cutoff : Bool) (hn : 2 ≤ number) (h : start < stop) :
    0 < stepOf start stop number cutoff := by
  rw [stepOf_real _ _ _ _ hn]; exact realStep_pos _ _ _ _ hn h

/-- the centres are `start + i·step` (no cutoff) resp. `start + (i+1)·step` (cutoff: both ends dropped) -/
theorem centre_eq (start stop : ℝ) (number : ℕ) (cutoff : Bool) (hn : 2 ≤ number) (i : ℕ)
    (hi : i < number) :
    center start stop number cutoff i
      = start + ((i : ℝ) + (if cutoff then 1 else 0)) * stepOf start stop number cutoff := by
  rw [stepOf_real _ _ _ _ hn]; exact center_real _ _ _ _ hn i hi

/-- equally spaced -/
theorem centres_equally_spaced (start stop : ℝ) (number : ℕ) (cutoff : Bool) (hn : 2 ≤ number) (i : ℕ)
    (hi : i + 1 < number) :
    center start stop number cutoff (i + 1) - center start stop number cutoff i
      = stepOf start stop number cutoff := by
  rw [centre_eq _ _ _ _ hn _ hi, centre_eq _ _ _ _ hn i (by omega)]; push_cast; ring

/-- without cutoff the first and last centre are the two ends -/
theorem centres_ends_no_cutoff (start stop : ℝ) (number : ℕ) (hn : 2 ≤ number) :
    center start stop number false 0 = start ∧ center start stop number false (number - 1) = stop := by
  have h2 : (2 : ℝ) ≤ number := by exact_mod_cast hn
  have hne : (number : ℝ) - 1 ≠ 0 := by linarith
  constructor
  · rw [center_real _ _ _ _ hn 0 (by omega)]; simp
  · rw [center_real _ _ _ _ hn _ (by omega), Nat.cast_sub (by omega)]
    simp only [realStep, Bool.false_eq_true, if_false]; push_cast; field_simp; ring

/-- every centre lies in `[start, end]`; with cutoff strictly inside, at distance ≥ step from both ends -/
theorem centres_inside (start stop : ℝ) (number : ℕ) (cutoff : Bool) (hn : 2 ≤ number) (h : start < stop)
    (i : ℕ) (hi : i < number) :
    start ≤ center start stop number cutoff i ∧ center start stop number cutoff i ≤ stop ∧
    (cutoff = true →
      start + stepOf start stop number cutoff ≤ center start stop number cutoff i ∧
      center start stop number cutoff i ≤ stop - stepOf start stop number cutoff) := by
  have hs := realStep_pos start stop number cutoff hn h
  have hi' : (i : ℝ) + 1 ≤ number := by exact_mod_cast hi
  have h2 : (2 : ℝ) ≤ number := by exact_mod_cast hn
  rw [center_real _ _ _ _ hn i hi, stepOf_real _ _ _ _ hn]
  cases cutoff
  · have hstop : stop = start + ((number : ℝ) - 1) * realStep start stop number false := by
      have : (number : ℝ) - 1 ≠ 0 := by linarith
      simp only [realStep, Bool.false_eq_true, if_false]; field_simp; ring
    have hi0 : (0 : ℝ) ≤ i := Nat.cast_nonneg i
    refine ⟨?_, ?_, by simp⟩
    · simp only [Bool.false_eq_true, if_false, add_zero]; nlinarith
    · simp only [Bool.false_eq_true, if_false, add_zero]; nlinarith
  · have hstop := stop_eq_cutoff start stop number
    have hi0 : (0 : ℝ) ≤ i := Nat.cast_nonneg i
    simp only [if_true]
    refine ⟨by nlinarith, by nlinarith, fun _ => ⟨by nlinarith, by nlinarith⟩⟩

example : center (0 : ℝ) 1 3 false 1 = 0 + ((1 : ℕ) + 0) * stepOf (0 : ℝ) 1 3 false := by
  simpa using centre_eq 0 1 3 false (by norm_num) 1 (by norm_num)

example : (0 : ℝ) ≤ center (0 : ℝ) 1 3 true 1 :=
  (centres_inside 0 1 3 true (by norm_num) (by norm_num) 1 (by norm_num)).1

/-! ## which calls are rejected -/

/-- `soft_one_hot_linspace` returns a value iff `cutoff` is given, `torch.linspace` gets at least two points
(`number ≥ 2`, or `number ≥ 0` with cutoff) and the basis name is one of the five -/
theorem soft_one_hot_ok_iff (x start stop : ℝ) (number : Int) (basis : String) (cutoff : Option Bool) :
    (∃ row, softOneHot x start stop number basis cutoff = .ok row) ↔
      ∃ c b, cutoff = some c ∧ 2 ≤ (if c then number + 2 else number) ∧ Basis.ofString? basis = some b := by
  unfold softOneHot
  cases cutoff with
  | none => simp
  | some c =>
    have hR : (∃ c' b, some c = some c' ∧ 2 ≤ (if c' = true then number + 2 else number) ∧
          Basis.ofString? basis = some b) ↔
        (∃ b, 2 ≤ (if c = true then number + 2 else number) ∧ Basis.ofString? basis = some b) := by
      constructor
      · rintro ⟨c', b, hc, h⟩; cases hc; exact ⟨b, h⟩
      · rintro ⟨b, h⟩; exact ⟨c, b, rfl, h⟩
    rw [hR]
    dsimp only
    generalize (if c = true then number + 2 else number) = steps
    by_cases h1 : steps < 0
    · simp only [h1, if_true]; constructor
      · rintro ⟨_, h⟩; cases h
      · rintro ⟨b, h, _⟩; omega
    · by_cases h2 : steps < 2
      · simp only [h1, h2, if_false, if_true]; constructor
        · rintro ⟨_, h⟩; cases h
        · rintro ⟨b, h, _⟩; omega
      · simp only [h1, h2, if_false]
        cases hb : Basis.ofString? basis with
        | none =>
          constructor
          · rintro ⟨_, h⟩; cases h
          · rintro ⟨b, _, h⟩; cases h
        | some b => exact ⟨fun _ => ⟨b, by omega, rfl⟩, fun _ => ⟨_, rfl⟩⟩

/-- for `number ≥ 2` and a valid name the result is the row of the `number` components -/
theorem soft_one_hot_eq_row (x start stop : ℝ) (number : ℕ) (hn : 2 ≤ number) (name : String) (b : Basis)
    (hb : Basis.ofString? name = some b) (cutoff : Bool) :
    softOneHot x start stop (number : Int) name (some cutoff)
      = .ok (softOneHotRow b cutoff start stop number x) := by
  unfold softOneHot
  have h1 : ¬ (if cutoff = true then (number : Int) + 2 else (number : Int)) < 0 := by split <;> omega
  have h2 : ¬ (if cutoff = true then (number : Int) + 2 else (number : Int)) < 2 := by split <;> omega
  simp only [h1, h2, if_false, hb, Int.toNat_natCast]

/-! ## finite support with `cutoff=True` -/

/-- the finite-support families: cosine, smooth_finite, fourier, bessel -/
def finiteSupport : Basis → Bool
  | .gaussian => false
  | _ => true

/-- With `cutoff=True` every component of a finite-support family is EXACTLY 0 at every `x ≤ start` and every
`x ≥ end`.  (bessel: over ℝ the statement also holds at `x = start` only because the mask multiplies
`0/0 := 0`; in IEEE arithmetic the code evaluates `0/0 * 0 = NaN` there, see `bessel_zero_div_zero_at_start`
— the harness replays that point on the real code.) -/
theorem finite_support_cutoff (b : Basis) (hb : finiteSupport b = true) (start stop : ℝ) (number : ℕ)
    (hn : 2 ≤ number) (h : start < stop) (x : ℝ) (hx : x ≤ start ∨ stop ≤ x) :
    softOneHotRow b true start stop number x = List.replicate number 0 := by
  unfold softOneHotRow
  rw [List.eq_replicate_iff]
  refine ⟨by simp, ?_⟩
  intro y hy
  obtain ⟨i, hi, rfl⟩ := List.mem_map.mp hy
  have hi : i < number := List.mem_range.mp hi
  have hd : diffAt start stop number true x i ≤ -1 ∨ 1 ≤ diffAt start stop number true x i := by
    rcases hx with hx | hx
    · exact Or.inl (diffAt_le_neg_one _ _ _ hn h x hx i hi)
    · exact Or.inr (one_le_diffAt _ _ _ hn h x hx i hi)
  have hc : 0 < stop - start := by linarith
  cases b with
  | gaussian => simp [finiteSupport] at hb
  | cosine => exact cosineOf_eq_zero hd
  | smoothFinite => exact smoothFiniteOf_eq_zero hd
  | fourier =>
    simp only [basisAt]
    rw [fourierAt_cutoff_real, if_neg]
    rintro ⟨h1, h2⟩
    rcases hx with hx | hx
    · have : (x - start) / (stop - start) ≤ 0 := div_nonpos_of_nonpos_of_nonneg (by linarith) hc.le
      linarith
    · rw [div_lt_one hc] at h2; linarith
  | bessel =>
    simp only [basisAt]
    rw [besselAt_cutoff_real, if_neg]
    rintro ⟨h1, h2⟩
    rcases hx with hx | hx
    · linarith
    · rw [div_lt_one hc] at h2; linarith

/-- the same through the entry point, for the four names -/
theorem soft_one_hot_zero_outside (name : String)
    (hname : name ∈ ["cosine", "smooth_finite", "fourier", "bessel"])
    (start stop : ℝ) (number : ℕ) (hn : 2 ≤ number) (h : start < stop) (x : ℝ)
    (hx : x ≤ start ∨ stop ≤ x) :
    softOneHot x start stop (number : Int) name (some true) = .ok (List.replicate number 0) := by
  simp only [List.mem_cons, List.mem_nil_iff, or_false] at hname
  rcases hname with rfl | rfl | rfl | rfl
  · rw [soft_one_hot_eq_row _ _ _ _ hn _ .cosine rfl, finite_support_cutoff _ rfl _ _ _ hn h x hx]
  · rw [soft_one_hot_eq_row _ _ _ _ hn _ .smoothFinite rfl, finite_support_cutoff _ rfl _ _ _ hn h x hx]
  · rw [soft_one_hot_eq_row _ _ _ _ hn _ .fourier rfl, finite_support_cutoff _ rfl _ _ _ hn h x hx]
  · rw [soft_one_hot_eq_row _ _ _ _ hn _ .bessel rfl, finite_support_cutoff _ rfl _ _ _ hn h x hx]

example : softOneHot (2 : ℝ) 0 1 (4 : ℕ) "cosine" (some true) = .ok (List.replicate 4 0) :=
  soft_one_hot_zero_outside "cosine" (by simp) 0 1 4 (by norm_num) (by norm_num) 2 (Or.inr (by norm_num))

/-- NEGATIVE: at `x = start` the bessel branch (both cutoff settings) divides `sin(0) = 0` by `x - start = 0`.
Over ℝ Lean's `0/0 = 0` hides it; the Float instance and the real code return NaN for every component
(`NaN * False = NaN`, so the cutoff mask does not repair it). -/
theorem bessel_zero_div_zero_at_start (start stop : ℝ) (i : ℕ) :
    besselDenom start start = 0 ∧
    Real.sin (((i : ℝ) + 1) * Real.pi * besselDenom start start / (stop - start)) = 0 := by
  simp [besselDenom]

/-- gaussian is NOT finitely supported: every component is strictly positive everywhere -/
theorem gaussian_pos (start stop : ℝ) (number : ℕ) (cutoff : Bool) (x : ℝ) (i : ℕ) :
    0 < basisAt .gaussian cutoff start stop number x i := by
  simp only [basisAt, gaussianOf, Scalar.exp_real, ofFrac_real]
  apply div_pos (Real.exp_pos _); norm_num

/-- without cutoff, cosine and smooth_finite still have finite support: one step beyond the ends -/
theorem finite_support_no_cutoff (b : Basis) (hb : b = .cosine ∨ b = .smoothFinite) (start stop : ℝ)
    (number : ℕ) (hn : 2 ≤ number) (h : start < stop) (x : ℝ)
    (hx : x ≤ start - stepOf start stop number false ∨ stop + stepOf start stop number false ≤ x) :
    softOneHotRow b false start stop number x = List.replicate number 0 := by
  unfold softOneHotRow
  rw [List.eq_replicate_iff]
  refine ⟨by simp, ?_⟩
  intro y hy
  obtain ⟨i, hi, rfl⟩ := List.mem_map.mp hy
  have hi : i < number := List.mem_range.mp hi
  have hs := realStep_pos start stop number false hn h
  rw [stepOf_real _ _ _ _ hn] at hx
  have hi' : (i : ℝ) + 1 ≤ number := by exact_mod_cast hi
  have hi0 : (0 : ℝ) ≤ i := Nat.cast_nonneg i
  have h2 : (2 : ℝ) ≤ number := by exact_mod_cast hn
  have hstop : stop = start + ((number : ℝ) - 1) * realStep start stop number false := by
    have : (number : ℝ) - 1 ≠ 0 := by linarith
    simp only [realStep, Bool.false_eq_true, if_false]; field_simp; ring
  have hd : diffAt start stop number false x i ≤ -1 ∨ 1 ≤ diffAt start stop number false x i := by
    rw [diffAt_real _ _ _ _ hn x i hi]
    simp only [Bool.false_eq_true, if_false, add_zero]
    rcases hx with hx | hx
    · left; rw [div_le_iff₀ hs]; nlinarith
    · right; rw [le_div_iff₀ hs]; nlinarith
  rcases hb with rfl | rfl
  · exact cosineOf_eq_zero hd
  · exact smoothFiniteOf_eq_zero hd

example : softOneHotRow .cosine false (0 : ℝ) 1 3 5 = List.replicate 3 0 := by
  apply finite_support_no_cutoff .cosine (Or.inl rfl) 0 1 3 (by norm_num) (by norm_num) 5
  right; rw [step_eq _ _ _ _ (by norm_num)]; norm_num

/-! ## cosine: the squares sum to exactly 1 between the first and the last centre -/

theorem cosine_sum_sq_eq_one (cutoff : Bool) (start stop : ℝ) (number : ℕ) (hn : 2 ≤ number)
    (h : start < stop) (x : ℝ)
    (hx0 : center start stop number cutoff 0 ≤ x)
    (hx1 : x ≤ center start stop number cutoff (number - 1)) :
    sumSq (softOneHotRow .cosine cutoff start stop number x) = 1 := by
  have hs := realStep_pos start stop number cutoff hn h
  rw [center_real _ _ _ _ hn 0 (by omega)] at hx0
  rw [center_real _ _ _ _ hn _ (by omega), Nat.cast_sub (by omega)] at hx1
  set s := realStep start stop number cutoff with hsdef
  set δ : ℝ := if cutoff then 1 else 0 with hδ
  set t := (x - (start + δ * s)) / s with ht
  have ht0 : 0 ≤ t := by
    rw [ht]; apply div_nonneg _ hs.le; push_cast at hx0; linarith
  have ht1 : t ≤ (number : ℝ) - 1 := by
    rw [ht, div_le_iff₀ hs]; push_cast at hx1; linarith
  unfold softOneHotRow
  rw [sumSq_map_range, ← cosine_partition number t ht0 ht1]
  apply Finset.sum_congr rfl
  intro i hi
  have hi : i < number := Finset.mem_range.mp hi
  simp only [basisAt]
  rw [diffAt_real _ _ _ _ hn x i hi, ← hsdef, ← hδ]
  congr 2
  rw [ht]; field_simp; ring

example : sumSq (softOneHotRow .cosine false (0 : ℝ) 1 3 (1 / 3)) = 1 := by
  apply cosine_sum_sq_eq_one false 0 1 3 (by norm_num) (by norm_num)
  · rw [(centres_ends_no_cutoff 0 1 3 (by norm_num)).1]; norm_num
  · rw [(centres_ends_no_cutoff 0 1 3 (by norm_num)).2]; norm_num

/-! ## smooth_finite: `C^∞` in `x`, value and first derivative vanish at the support edges -/

theorem smooth_finite_contDiff (cutoff : Bool) (start stop : ℝ) (number i : ℕ) :
    ContDiff ℝ ∞ (fun x : ℝ => basisAt .smoothFinite cutoff start stop number x i) := by
  simp only [basisAt, diffAt]
  exact contDiff_smoothFinite_bump _ _

/-- at `centre ± step` (for `cutoff=True` the outermost of these points are `start` and `end`) the value is 0
and the derivative exists and is 0: the basis goes to zero with a horizontal tangent -/
theorem smooth_finite_edge (cutoff : Bool) (start stop : ℝ) (number : ℕ) (hn : 2 ≤ number)
    (h : start < stop) (i : ℕ) (x₀ : ℝ)
    (hx : x₀ = center start stop number cutoff i + stepOf start stop number cutoff ∨
          x₀ = center start stop number cutoff i - stepOf start stop number cutoff) :
    basisAt .smoothFinite cutoff start stop number x₀ i = 0 ∧
    HasDerivAt (fun x : ℝ => basisAt .smoothFinite cutoff start stop number x i) 0 x₀ := by
  have hs : stepOf start stop number cutoff ≠ 0 := (step_pos _ _ _ _ hn h).ne'
  constructor
  · simp only [basisAt, diffAt]
    apply smoothFiniteOf_eq_zero
    rcases hx with rfl | rfl
    · right; rw [add_sub_cancel_left, div_self hs]
    · left; rw [sub_sub_cancel_left, neg_div, div_self hs]
  · simp only [basisAt, diffAt]
    exact hasDerivAt_smoothFinite_bump_edge _ _ hs x₀ hx

example : HasDerivAt (fun x : ℝ => basisAt .smoothFinite true (0 : ℝ) 1 3 x 2) 0
    (center (0 : ℝ) 1 3 true 2 + stepOf (0 : ℝ) 1 3 true) :=
  (smooth_finite_edge true 0 1 3 (by norm_num) (by norm_num) 2 _ (Or.inl rfl)).2

/-- the constant is a pure scale factor: evaluating it in another precision rescales every smooth_finite value by the
ratio of the two constants.  (Before e3nn commit d69bad1 the constant was `1.14136 * torch.exp(torch.tensor(2.0))`, a
tensor of the default dtype: ratio 1 + 7.8e-8 between the float32 and the float64 default.  The current code uses the
Python float `1.14136 * math.exp(2.0)`; the harness keeps the default-dtype-independence oracle on the real code.) -/
theorem smooth_finite_scales_with_constant (k c d : ℝ) :
    smoothFiniteWith (k * c) d = k * smoothFiniteWith c d := by
  rw [smoothFiniteWith_real, smoothFiniteWith_real]; ring

/-- the constant of the current code is `1.14136·e²`, whatever the default dtype -/
theorem smooth_finite_value (d : ℝ) :
    smoothFiniteOf d = 114136 / 100000 * Real.exp 2 * softUnitStep (d + 1) * softUnitStep (1 - d) := by
  rw [smoothFiniteOf_real, softUnitStep_eq_glue, softUnitStep_eq_glue]

/-- at a centre (`diff = 0`) the value is exactly 1.14136: the `e²` cancels the two `exp(-1)` -/
theorem smooth_finite_value_at_centre : smoothFiniteOf (0 : ℝ) = 114136 / 100000 := by
  rw [smoothFiniteOf_real]
  have h1 : expNegInvGlue ((0 : ℝ) + 1) = Real.exp (-1) := by
    rw [← softUnitStep_eq_glue, softUnitStep_real]; norm_num
  have h2 : expNegInvGlue ((1 : ℝ) - 0) = Real.exp (-1) := by
    rw [← softUnitStep_eq_glue, softUnitStep_real]; norm_num
  rw [h1, h2, mul_assoc, mul_assoc, ← Real.exp_add, ← Real.exp_add]
  norm_num

/-- with cutoff the outermost edges are exactly the interval ends -/
theorem smooth_finite_edges_are_ends (start stop : ℝ) (number : ℕ) (hn : 2 ≤ number) :
    center start stop number true 0 - stepOf start stop number true = start ∧
    center start stop number true (number - 1) + stepOf start stop number true = stop := by
  rw [stepOf_real _ _ _ _ hn, center_real _ _ _ _ hn 0 (by omega),
    center_real _ _ _ _ hn (number - 1) (by omega), Nat.cast_sub (by omega)]
  constructor
  · simp
  · have := stop_eq_cutoff start stop number
    simp only [if_true]; push_cast; linarith

/-! ## fourier: exact value of the sum of squares -/

/-- no cutoff: with `θ = π (x-start)/(end-start)`,
`4 sin θ · (1/4 + N/2) · Σ y_i² = (2N+1) sin θ + sin((2N-1)θ)`, i.e.
`Σ y_i² = 1 + sin((2N-1)θ) / ((2N+1) sin θ)`: the mean over a period is exactly 1 -/
theorem fourier_sum_sq_no_cutoff (start stop : ℝ) (number : ℕ) (x : ℝ) :
    let θ := Real.pi * ((x - start) / (stop - start))
    4 * Real.sin θ * ((1 / 4 + (number : ℝ) / 2) * sumSq (softOneHotRow .fourier false start stop number x))
      = (2 * (number : ℝ) + 1) * Real.sin θ + Real.sin ((2 * (number : ℝ) - 1) * θ) := by
  intro θ
  have hpos : (0 : ℝ) ≤ 1 / 4 + (number : ℝ) / 2 := by positivity
  unfold softOneHotRow
  rw [sumSq_map_range, ← four_sin_mul_sum_cos_sq, Finset.mul_sum]
  congr 1
  apply Finset.sum_congr rfl
  intro i _
  simp only [basisAt]
  rw [fourierAt_nocutoff_real, div_pow, Real.sq_sqrt hpos]
  have : Real.pi * (i : ℝ) * ((x - start) / (stop - start)) = (i : ℝ) * θ := by ring
  rw [this]; field_simp

/-- cutoff, strictly inside the interval: `Σ y_i² = 1 - sin((2N+1)θ) / ((2N+1) sin θ)` -/
theorem fourier_sum_sq_cutoff (start stop : ℝ) (number : ℕ) (x : ℝ)
    (hx0 : start < x) (hx1 : x < stop) :
    let θ := Real.pi * ((x - start) / (stop - start))
    4 * Real.sin θ * ((1 / 4 + (number : ℝ) / 2) * sumSq (softOneHotRow .fourier true start stop number x))
      = (2 * (number : ℝ) + 1) * Real.sin θ - Real.sin ((2 * (number : ℝ) + 1) * θ) := by
  intro θ
  have hpos : (0 : ℝ) ≤ 1 / 4 + (number : ℝ) / 2 := by positivity
  have hc : 0 < stop - start := by linarith
  have hu0 : 0 < (x - start) / (stop - start) := div_pos (by linarith) hc
  have hu1 : (x - start) / (stop - start) < 1 := by rw [div_lt_one hc]; linarith
  unfold softOneHotRow
  rw [sumSq_map_range, ← four_sin_mul_sum_sin_sq, Finset.mul_sum]
  congr 1
  apply Finset.sum_congr rfl
  intro i _
  simp only [basisAt]
  rw [fourierAt_cutoff_real, if_pos ⟨hu0, hu1⟩, div_pow, Real.sq_sqrt hpos]
  have : Real.pi * ((i : ℝ) + 1) * ((x - start) / (stop - start)) = ((i : ℝ) + 1) * θ := by ring
  rw [this]; field_simp

example := fourier_sum_sq_cutoff (0 : ℝ) 1 3 (1 / 2) (by norm_num) (by norm_num)

/-- coarse fixed bound: the fourier sum of squares is always in `[0, 2)` -/
theorem fourier_sum_sq_lt_two (cutoff : Bool) (start stop : ℝ) (number : ℕ) (x : ℝ) :
    0 ≤ sumSq (softOneHotRow .fourier cutoff start stop number x) ∧
    sumSq (softOneHotRow .fourier cutoff start stop number x) < 2 := by
  have hpos : (0 : ℝ) < 1 / 4 + (number : ℝ) / 2 := by positivity
  unfold softOneHotRow
  rw [sumSq_map_range]
  constructor
  · exact Finset.sum_nonneg fun i _ => sq_nonneg _
  · have hle : ∀ i ∈ Finset.range number,
        basisAt .fourier cutoff start stop number x i ^ 2 ≤ 1 / (1 / 4 + (number : ℝ) / 2) := by
      intro i _
      simp only [basisAt]
      cases cutoff
      · rw [fourierAt_nocutoff_real, div_pow, Real.sq_sqrt hpos.le]
        exact div_le_div_of_nonneg_right (Real.cos_sq_le_one _) hpos.le
      · rw [fourierAt_cutoff_real]
        split
        · rw [div_pow, Real.sq_sqrt hpos.le]
          exact div_le_div_of_nonneg_right (Real.sin_sq_le_one _) hpos.le
        · rw [zero_pow two_ne_zero]; positivity
    calc ∑ i ∈ Finset.range number, basisAt .fourier cutoff start stop number x i ^ 2
        ≤ ∑ _i ∈ Finset.range number, 1 / (1 / 4 + (number : ℝ) / 2) := Finset.sum_le_sum hle
      _ = (number : ℝ) / (1 / 4 + (number : ℝ) / 2) := by
          rw [Finset.sum_const, Finset.card_range, nsmul_eq_mul]; ring
      _ < 2 := by rw [div_lt_iff₀ hpos]; linarith

/-! ## fourier without cutoff: lower bound -/

/-- for odd `m = 2N − 1 ≥ 3` and `θ ∈ (0, π)`: `sin(mθ) > −(3/5)(m+2) sin θ` -/
theorem sin_odd_mul_lower (N : ℕ) (hN : 2 ≤ N) (θ : ℝ) (h0 : 0 < θ) (h1 : θ < Real.pi) :
    -(3 / 5) * (2 * (N : ℝ) + 1) * Real.sin θ < Real.sin ((2 * (N : ℝ) - 1) * θ) := by
  have hpi := Real.pi_pos
  have hNr : (2 : ℝ) ≤ N := by exact_mod_cast hN
  set m : ℝ := 2 * (N : ℝ) - 1 with hm
  have hm3 : 3 ≤ m := by rw [hm]; linarith
  have hs : 0 < Real.sin θ := Real.sin_pos_of_pos_of_lt_pi h0 h1
  have hneg : -(3 / 5) * (2 * (N : ℝ) + 1) * Real.sin θ < 0 := by
    have : 0 < (3 / 5 : ℝ) * (2 * (N : ℝ) + 1) * Real.sin θ := by positivity
    linarith
  by_cases hA : θ ≤ Real.pi / m
  · -- mθ ∈ (0, π]
    have h2 : m * θ ≤ Real.pi := by
      have : θ * m ≤ Real.pi := by rwa [le_div_iff₀ (by linarith)] at hA
      linarith
    have : 0 ≤ Real.sin (m * θ) := Real.sin_nonneg_of_nonneg_of_le_pi (by positivity) h2
    linarith
  by_cases hB : Real.pi - Real.pi / m ≤ θ
  · -- mθ − (N−1)·2π ∈ [0, π)
    have hper : Real.sin (m * θ) = Real.sin (m * θ - ((N - 1 : ℕ) : ℝ) * (2 * Real.pi)) :=
      (Real.sin_sub_nat_mul_two_pi _ _).symm
    have hcast : ((N - 1 : ℕ) : ℝ) = (N : ℝ) - 1 := by rw [Nat.cast_sub (by omega)]; simp
    have hlow : 0 ≤ m * θ - ((N - 1 : ℕ) : ℝ) * (2 * Real.pi) := by
      rw [hcast]
      have : m * (Real.pi - Real.pi / m) ≤ m * θ := mul_le_mul_of_nonneg_left hB (by linarith)
      have e : m * (Real.pi - Real.pi / m) = m * Real.pi - Real.pi := by field_simp
      rw [e] at this
      have : (m - 1) * Real.pi ≤ m * θ := by linarith
      have e2 : ((N : ℝ) - 1) * (2 * Real.pi) = (m - 1) * Real.pi := by rw [hm]; ring
      linarith
    have hhigh : m * θ - ((N - 1 : ℕ) : ℝ) * (2 * Real.pi) ≤ Real.pi := by
      rw [hcast]
      have : m * θ < m * Real.pi := mul_lt_mul_of_pos_left h1 (by linarith)
      have e2 : ((N : ℝ) - 1) * (2 * Real.pi) = (m - 1) * Real.pi := by rw [hm]; ring
      rw [e2]; linarith
    have : 0 ≤ Real.sin (m * θ) := by rw [hper]; exact Real.sin_nonneg_of_nonneg_of_le_pi hlow hhigh
    linarith
  · -- θ ∈ (π/m, π − π/m): sin θ ≥ sin(π/m) ≥ 2/m
    rw [not_le] at hA hB
    have hpm : 0 < Real.pi / m := by positivity
    have hpm2 : Real.pi / m ≤ Real.pi / 2 := by
      apply div_le_div_of_nonneg_left hpi.le (by norm_num) (by linarith)
    have hjordan : 2 / m ≤ Real.sin (Real.pi / m) := by
      have := Real.mul_le_sin hpm.le hpm2
      have e : 2 / Real.pi * (Real.pi / m) = 2 / m := by field_simp
      linarith
    have hsin : Real.sin (Real.pi / m) ≤ Real.sin θ := by
      by_cases hh : θ ≤ Real.pi / 2
      · exact Real.sin_le_sin_of_le_of_le_pi_div_two (by linarith) hh hA.le
      · rw [not_le] at hh
        rw [← Real.sin_pi_sub θ]
        exact Real.sin_le_sin_of_le_of_le_pi_div_two (by linarith) (by linarith) (by linarith)
    have hge : -1 ≤ Real.sin (m * θ) := Real.neg_one_le_sin _
    have hs2 : 2 / m ≤ Real.sin θ := le_trans hjordan hsin
    have hkey : 1 < (3 / 5) * (2 * (N : ℝ) + 1) * Real.sin θ := by
      have h2N : 2 * (N : ℝ) + 1 = m + 2 := by rw [hm]; ring
      rw [h2N]
      have hmpos : 0 < m := by linarith
      have : (3 / 5 : ℝ) * (m + 2) * (2 / m) ≤ (3 / 5) * (m + 2) * Real.sin θ :=
        mul_le_mul_of_nonneg_left hs2 (by positivity)
      have e : (3 / 5 : ℝ) * (m + 2) * (2 / m) = 6 / 5 + 12 / (5 * m) := by field_simp; ring
      have : (6 / 5 : ℝ) < 6 / 5 + 12 / (5 * m) := by
        have : 0 < 12 / (5 * m) := by positivity
        linarith
      linarith
    linarith

/-- LOWER half for the fourier family without cutoff (round 4): strictly inside the interval the sum of squares exceeds 0.4 —
from the exact closed form `Σ y² = 1 + sin((2N−1)θ)/((2N+1) sin θ)` and `sin((2N−1)θ) > −(3/5)(2N+1) sin θ` -/
theorem fourier_sum_sq_lower_no_cutoff (start stop : ℝ) (number : ℕ) (hn : 2 ≤ number) (h : start < stop) (x : ℝ)
    (hx0 : start < x) (hx1 : x < stop) :
    2 / 5 < sumSq (softOneHotRow .fourier false start stop number x) := by
  have hc : 0 < stop - start := by linarith
  have hu0 : 0 < (x - start) / (stop - start) := div_pos (by linarith) hc
  have hu1 : (x - start) / (stop - start) < 1 := by rw [div_lt_one hc]; linarith
  have hθ0 : 0 < Real.pi * ((x - start) / (stop - start)) := by positivity
  have hθ1 : Real.pi * ((x - start) / (stop - start)) < Real.pi := by
    have := mul_lt_mul_of_pos_left hu1 Real.pi_pos
    linarith
  have hclosed := fourier_sum_sq_no_cutoff start stop number x
  simp only at hclosed
  set θ := Real.pi * ((x - start) / (stop - start)) with hθ
  set S := sumSq (softOneHotRow .fourier false start stop number x) with hS
  have hs : 0 < Real.sin θ := Real.sin_pos_of_pos_of_lt_pi hθ0 hθ1
  have hlow := sin_odd_mul_lower number hn θ hθ0 hθ1
  have hN : (2 : ℝ) ≤ number := by exact_mod_cast hn
  -- 4 s (1/4 + N/2) S = (2N+1) s + sin((2N−1)θ) > (2/5)(2N+1) s
  have h1 : (2 / 5) * (2 * (number : ℝ) + 1) * Real.sin θ < 4 * Real.sin θ * ((1 / 4 + (number : ℝ) / 2) * S) := by
    rw [hclosed]; nlinarith
  have h2 : 4 * Real.sin θ * ((1 / 4 + (number : ℝ) / 2) * S) = (2 * (number : ℝ) + 1) * Real.sin θ * S := by ring
  rw [h2] at h1
  have hpos : 0 < (2 * (number : ℝ) + 1) * Real.sin θ := by positivity
  have : (2 / 5) * ((2 * (number : ℝ) + 1) * Real.sin θ) < ((2 * (number : ℝ) + 1) * Real.sin θ) * S := by linarith
  exact lt_of_mul_lt_mul_left (by linarith) hpos.le


/-! ## gaussian: partial bound on the sum of squares -/

/-- PARTIAL (lower half of "within fixed bounds of 1"): between the first and the last centre the gaussian
sum of squares exceeds 0.4 (the bound of e3nn's own test), because some centre is within half a step:
`(exp(-1/4)/1.12)² > 0.478`.  The upper bound (observed max 1.0135) is not proved. -/
theorem gaussian_sum_sq_lower_partial (cutoff : Bool) (start stop : ℝ) (number : ℕ) (hn : 2 ≤ number)
    (h : start < stop) (x : ℝ)
    (hx0 : center start stop number cutoff 0 ≤ x)
    (hx1 : x ≤ center start stop number cutoff (number - 1)) :
    2 / 5 < sumSq (softOneHotRow .gaussian cutoff start stop number x) := by
  have hs := realStep_pos start stop number cutoff hn h
  rw [center_real _ _ _ _ hn 0 (by omega)] at hx0
  rw [center_real _ _ _ _ hn _ (by omega), Nat.cast_sub (by omega)] at hx1
  set s := realStep start stop number cutoff with hsdef
  set δ : ℝ := if cutoff then 1 else 0 with hδ
  set t := (x - (start + δ * s)) / s with ht
  have ht0 : 0 ≤ t := by
    rw [ht]; apply div_nonneg _ hs.le; push_cast at hx0; linarith
  have ht1 : t ≤ (number : ℝ) - 1 := by
    rw [ht, div_le_iff₀ hs]; push_cast at hx1; linarith
  obtain ⟨i, hi, hnear⟩ := exists_near_index number t ht0 ht1
  unfold softOneHotRow
  rw [sumSq_map_range]
  refine lt_of_lt_of_le ?_
    (Finset.single_le_sum (f := fun i => basisAt .gaussian cutoff start stop number x i ^ 2)
      (fun j _ => sq_nonneg _) (Finset.mem_range.mpr hi))
  simp only [basisAt]
  rw [diffAt_real _ _ _ _ hn x i hi, ← hsdef, ← hδ]
  have : (x - (start + ((i : ℝ) + δ) * s)) / s = t - (i : ℝ) := by
    rw [ht]; field_simp; ring
  rw [this]
  exact gaussianOf_sq_ge _ hnear

example : (2 : ℝ) / 5 < sumSq (softOneHotRow .gaussian false (0 : ℝ) 1 3 (1 / 3)) := by
  apply gaussian_sum_sq_lower_partial false 0 1 3 (by norm_num) (by norm_num)
  · rw [(centres_ends_no_cutoff 0 1 3 (by norm_num)).1]; norm_num
  · rw [(centres_ends_no_cutoff 0 1 3 (by norm_num)).2]; norm_num

/-- UPPER half of "within fixed bounds of 1" for the gaussian family (round 4): for EVERY real `x`, every interval and every
number of functions the gaussian sum of squares is below 2 (the bound of e3nn's own test; observed max 1.0135) — two geometric
series around the centre nearest to `x`: `Σ_i exp(−2 (t − i)²) ≤ 2/(1 − e^{−2}) < 2 · 1.12²`. -/
theorem gaussian_sum_sq_lt_two (cutoff : Bool) (start stop : ℝ) (number : ℕ) (hn : 2 ≤ number)
    (h : start < stop) (x : ℝ) :
    sumSq (softOneHotRow .gaussian cutoff start stop number x) < 2 := by
  have hs := realStep_pos start stop number cutoff hn h
  set s := realStep start stop number cutoff with hsdef
  set δ : ℝ := if cutoff then 1 else 0 with hδ
  set t := (x - (start + δ * s)) / s with ht
  unfold softOneHotRow
  rw [sumSq_map_range]
  have hterm : ∀ i ∈ Finset.range number,
      basisAt .gaussian cutoff start stop number x i ^ 2 = gaussianOf (t - (i : ℝ)) ^ 2 := by
    intro i hi
    simp only [basisAt]
    rw [diffAt_real _ _ _ _ hn x i (Finset.mem_range.mp hi), ← hsdef, ← hδ]
    have : (x - (start + ((i : ℝ) + δ) * s)) / s = t - (i : ℝ) := by
      rw [ht]; field_simp; ring
    rw [this]
  rw [Finset.sum_congr rfl hterm]
  exact sum_gaussianOf_sq_lt_two number t

/-- both halves together, between the first and the last centre -/
theorem gaussian_sum_sq_within_bounds (cutoff : Bool) (start stop : ℝ) (number : ℕ) (hn : 2 ≤ number)
    (h : start < stop) (x : ℝ)
    (hx0 : center start stop number cutoff 0 ≤ x)
    (hx1 : x ≤ center start stop number cutoff (number - 1)) :
    2 / 5 < sumSq (softOneHotRow .gaussian cutoff start stop number x) ∧
      sumSq (softOneHotRow .gaussian cutoff start stop number x) < 2 :=
  ⟨gaussian_sum_sq_lower_partial cutoff start stop number hn h x hx0 hx1,
   gaussian_sum_sq_lt_two cutoff start stop number hn h x⟩

/-! ## smooth_finite: both bounds (round 4) -/

/-- the reduced coordinate `t = (x − first centre)/step` and the terms of the row -/
theorem smoothFinite_terms (cutoff : Bool) (start stop : ℝ) (number : ℕ) (hn : 2 ≤ number) (h : start < stop) (x : ℝ) :
    sumSq (softOneHotRow .smoothFinite cutoff start stop number x)
      = ∑ i ∈ Finset.range number,
          smoothFiniteOf ((x - (start + (if cutoff then 1 else 0) * realStep start stop number cutoff))
            / realStep start stop number cutoff - (i : ℝ)) ^ 2 := by
  have hs := realStep_pos start stop number cutoff hn h
  unfold softOneHotRow
  rw [sumSq_map_range]
  refine Finset.sum_congr rfl fun i hi => ?_
  simp only [basisAt]
  rw [diffAt_real _ _ _ _ hn x i (Finset.mem_range.mp hi)]
  congr 2
  field_simp
  ring

/-- UPPER bound: for EVERY real `x`, every interval and every number of functions the `smooth_finite` sum of squares is below 2 -/
theorem smooth_finite_sum_sq_lt_two (cutoff : Bool) (start stop : ℝ) (number : ℕ) (hn : 2 ≤ number)
    (h : start < stop) (x : ℝ) :
    sumSq (softOneHotRow .smoothFinite cutoff start stop number x) < 2 := by
  rw [smoothFinite_terms cutoff start stop number hn h x]
  exact sum_smoothFiniteOf_sq_lt_two number _

/-- LOWER bound: between the first and the last centre the `smooth_finite` sum of squares exceeds 0.4 -/
theorem smooth_finite_sum_sq_lower (cutoff : Bool) (start stop : ℝ) (number : ℕ) (hn : 2 ≤ number)
    (h : start < stop) (x : ℝ)
    (hx0 : center start stop number cutoff 0 ≤ x)
    (hx1 : x ≤ center start stop number cutoff (number - 1)) :
    2 / 5 < sumSq (softOneHotRow .smoothFinite cutoff start stop number x) := by
  have hs := realStep_pos start stop number cutoff hn h
  rw [center_real _ _ _ _ hn 0 (by omega)] at hx0
  rw [center_real _ _ _ _ hn _ (by omega), Nat.cast_sub (by omega)] at hx1
  rw [smoothFinite_terms cutoff start stop number hn h x]
  apply sum_smoothFiniteOf_sq_gt
  · apply div_nonneg _ hs.le; push_cast at hx0; linarith
  · rw [div_le_iff₀ hs]; push_cast at hx1; linarith

example : (2 : ℝ) / 5 < sumSq (softOneHotRow .smoothFinite false (0 : ℝ) 1 3 (1 / 3)) := by
  apply smooth_finite_sum_sq_lower false 0 1 3 (by norm_num) (by norm_num)
  · rw [(centres_ends_no_cutoff 0 1 3 (by norm_num)).1]; norm_num
  · rw [(centres_ends_no_cutoff 0 1 3 (by norm_num)).2]; norm_num

/-! ## `number = 1` with `cutoff=True`

The theorems above assume `2 ≤ number` (without cutoff the code reads `values[1]` of a one-element tensor and raises).  With
`cutoff=True` a single function is valid: `values = linspace(start, end, 3)[1:-1]`, step `(end − start)/2`.  (Seeded change C16-8
computed the step from the sliced values there.) -/

/-- one function with cutoff: the step is half the interval and the centre is its midpoint -/
theorem one_function_cutoff (start stop : ℝ) :
    stepOf start stop 1 true = (stop - start) / 2 ∧ center start stop 1 true 0 = (start + stop) / 2 := by
  constructor
  · simp only [stepOf, linSteps, if_true]
    rw [linspaceAt_real _ _ _ _ (by norm_num) (by norm_num), linspaceAt_real _ _ _ _ (by norm_num) (by norm_num)]
    push_cast; ring
  · simp only [center, linSteps, if_true]
    rw [linspaceAt_real _ _ _ _ (by norm_num) (by norm_num)]
    push_cast; ring

/-- … and the finite-support families vanish at and beyond both ends (exactly 0), as for `number ≥ 2` -/
theorem one_function_cutoff_support (start stop : ℝ) (h : start < stop) (x : ℝ) (hx : x ≤ start ∨ stop ≤ x) :
    softOneHotRow .cosine true start stop 1 x = [0] ∧ softOneHotRow .smoothFinite true start stop 1 x = [0] := by
  have hs : 0 < (stop - start) / 2 := by linarith
  have hd : diffAt start stop 1 true x 0 ≤ -1 ∨ 1 ≤ diffAt start stop 1 true x 0 := by
    rw [diffAt, (one_function_cutoff start stop).1, (one_function_cutoff start stop).2]
    rcases hx with hx | hx
    · left; rw [div_le_iff₀ hs]; linarith
    · right; rw [le_div_iff₀ hs]; linarith
  constructor
  · simp only [softOneHotRow, List.range_one, List.map_cons, List.map_nil, basisAt]
    rw [cosineOf_eq_zero hd]
  · simp only [softOneHotRow, List.range_one, List.map_cons, List.map_nil, basisAt]
    rw [smoothFiniteOf_eq_zero hd]

/-! ## cutoff = True with ANY number of functions `≥ 1`

With `cutoff=True` the code is valid for every `number ≥ 1` (`linspace(start, end, number + 2)[1:-1]`); the step, the centres and the
exact support of the finite-support families (cosine, smooth_finite) are proved here under `1 ≤ number`, extending the theorems above
(which ask for `2 ≤ number` because without cutoff the code needs `values[1]`). -/

theorem stepOf_real_cutoff (start stop : ℝ) (number : ℕ) (hn : 1 ≤ number) :
    stepOf start stop number true = (stop - start) / ((number : ℝ) + 1) := by
  simp only [stepOf, linSteps, if_true]
  rw [linspaceAt_real _ _ _ _ (by omega) (by omega), linspaceAt_real _ _ _ _ (by omega) (by omega)]
  push_cast; ring

theorem center_real_cutoff (start stop : ℝ) (number : ℕ) (hn : 1 ≤ number) (i : ℕ) (hi : i < number) :
    center start stop number true i = start + ((i : ℝ) + 1) * ((stop - start) / ((number : ℝ) + 1)) := by
  simp only [center, linSteps, if_true]
  rw [linspaceAt_real _ _ _ _ (by omega) (by omega)]
  push_cast; ring

/-- exact support with cutoff, every `number ≥ 1`: cosine and smooth_finite rows vanish identically at and beyond both ends -/
theorem finite_support_cutoff_ge_one (start stop : ℝ) (number : ℕ) (hn : 1 ≤ number) (h : start < stop) (x : ℝ)
    (hx : x ≤ start ∨ stop ≤ x) :
    softOneHotRow .cosine true start stop number x = List.replicate number 0 ∧
    softOneHotRow .smoothFinite true start stop number x = List.replicate number 0 := by
  have hN : (0 : ℝ) < (number : ℝ) + 1 := by positivity
  have hs : 0 < (stop - start) / ((number : ℝ) + 1) := div_pos (by linarith) hN
  have hd : ∀ i, i < number → diffAt start stop number true x i ≤ -1 ∨ 1 ≤ diffAt start stop number true x i := by
    intro i hi
    rw [diffAt, stepOf_real_cutoff _ _ _ hn, center_real_cutoff _ _ _ hn i hi]
    set s := (stop - start) / ((number : ℝ) + 1) with hsdef
    have hstop : stop = start + ((number : ℝ) + 1) * s := by rw [hsdef]; field_simp; ring
    have hi' : (i : ℝ) + 1 ≤ number := by exact_mod_cast hi
    have hi0 : (0 : ℝ) ≤ i := Nat.cast_nonneg i
    rcases hx with hx | hx
    · left; rw [div_le_iff₀ hs]; nlinarith
    · right; rw [le_div_iff₀ hs]; nlinarith
  constructor
  · unfold softOneHotRow
    rw [List.eq_replicate_iff]
    refine ⟨by simp, fun y hy => ?_⟩
    obtain ⟨i, hi, rfl⟩ := List.mem_map.mp hy
    exact cosineOf_eq_zero (hd i (List.mem_range.mp hi))
  · unfold softOneHotRow
    rw [List.eq_replicate_iff]
    refine ⟨by simp, fun y hy => ?_⟩
    obtain ⟨i, hi, rfl⟩ := List.mem_map.mp hy
    exact smoothFiniteOf_eq_zero (hd i (List.mem_range.mp hi))

/-! ## normalize2mom -/

/-- when the shortcut is not taken, `f(x)·cst` has second moment exactly 1 over the very sample that
`moment` used (`cst = moment(f,2)^(-1/2)`, sample second moment positive) -/
theorem normalize2mom_unit_sample_moment (fz : List ℝ) (hm : 0 < moment fz 2) :
    moment (fz.map (· * cstOf fz)) 2 = 1 := by
  rw [moment_two_map_mul, cstOf_real, div_pow, Real.sq_sqrt hm.le]; field_simp

/-- when the shortcut IS taken (`|cst - 1| < 1e-4`) the un-rescaled `f` already has sample second moment
within `3e-4` of 1 -/
theorem normalize2mom_shortcut_moment (fz : List ℝ) (hid : isId (cstOf fz) = true) :
    |moment fz 2 - 1| < 3 / 10000 := by
  rw [isId_real, cstOf_real, abs_lt] at hid
  set m := moment fz 2 with hmdef
  have hc : 0 < 1 / Real.sqrt m := by linarith [hid.1]
  have hsq : 0 < Real.sqrt m := by
    rcases (Real.sqrt_nonneg m).eq_or_lt with h0 | h0
    · rw [← h0] at hc; simp at hc
    · exact h0
  have hm : m = Real.sqrt m ^ 2 := (Real.sq_sqrt (Real.sqrt_pos.mp hsq).le).symm
  have h1 : Real.sqrt m < 1 / (9999 / 10000) := by
    rw [lt_div_iff₀ (by norm_num)]
    have hlow : 9999 / 10000 < 1 / Real.sqrt m := by linarith [hid.1]
    rw [lt_div_iff₀ hsq] at hlow; linarith
  have h2 : 1 / (10001 / 10000) < Real.sqrt m := by
    rw [div_lt_iff₀ (by norm_num)]
    have hupp : 1 / Real.sqrt m < 10001 / 10000 := by linarith [hid.2]
    rw [div_lt_iff₀ hsq] at hupp; linarith
  rw [abs_lt, hm]
  constructor <;> nlinarith

/-- `forward` in both branches: the output sample has second moment within `3e-4` of 1 -/
theorem normalize2mom_forward_moment (fz : List ℝ) (hm : 0 < moment fz 2) :
    |moment (fz.map (normalize2momForward (cstOf fz))) 2 - 1| < 3 / 10000 := by
  by_cases hid : isId (cstOf fz) = true
  · have : fz.map (normalize2momForward (cstOf fz)) = fz := by
      conv_rhs => rw [← List.map_id fz]
      apply List.map_congr_left; intro a _; simp [normalize2momForward, hid]
    rw [this]; exact normalize2mom_shortcut_moment fz hid
  · have : fz.map (normalize2momForward (cstOf fz)) = fz.map (· * cstOf fz) := by
      apply List.map_congr_left; intro a _; simp [normalize2momForward, hid]
    rw [this, normalize2mom_unit_sample_moment fz hm]; norm_num

example : (0 : ℝ) < moment [1, -2] 2 := by rw [moment_two_real]; norm_num

example : isId (cstOf ([1, -1] : List ℝ)) = true := by
  rw [isId_real, cstOf_real, moment_two_real]; norm_num

/-
"The sum of squares stays within fixed bounds of 1 in the interior" — status after round 4 (bounds 0.4 and 2.0 of e3nn's own test;
observed on the real code: gaussian [0.905, 1.014], smooth_finite [0.686, 1.303], fourier [0.787, 1.981] without and [0.800, 1.200]
with cutoff):
  cosine          `cosine_sum_sq_eq_one`             exactly 1
  gaussian        `gaussian_sum_sq_within_bounds`     (0.4, 2), upper half for every x
  smooth_finite   `smooth_finite_sum_sq_lower`, `smooth_finite_sum_sq_lt_two`   (0.4, 2), upper half for every x
  fourier         `fourier_sum_sq_lt_two` (every x), `fourier_sum_sq_lower_no_cutoff` (strictly inside), exact closed forms
NOT PROVED: a lower bound for fourier WITH cutoff — it can only hold away from the ends, where the functions vanish by design
(the property text excludes exactly that region); the dense boundary-targeted grid of harness/c16.py covers it on the real code.
-/

end E3nnVerif.Props.C16
