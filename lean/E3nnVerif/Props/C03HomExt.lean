import E3nnVerif.Props.C03Hom
import E3nnVerif.Cert.W3j.Rec8
import E3nnVerif.Cert.W3j.Rec9
import E3nnVerif.Cert.W3j.Rec10
import E3nnVerif.Cert.W3j.Rec11
import E3nnVerif.Cert.W3j.Gram8
import E3nnVerif.Cert.W3j.Gram9
import E3nnVerif.Cert.W3j.Gram10
import E3nnVerif.Cert.W3j.Gram11
/-
C03, the homomorphism property continued to every degree the library is used with: `WignerDHom l` for `l ≤ 12`, and the
discharged `_partial` theorems for `l ≤ 11` (the range in which `genCert` / `genYBlockCheck` are certified,
`C03.certified`).  Built by the thorough tier only, like `Props/C05Ext.lean` (the certificates `w3jCert l 1 (l+1)` for
`l = 8 … 11` take 20–85 s and up to 5 GB each, the Gram certificates 14–22 s and up to 2.4 GB).
-/
namespace E3nnVerif.Props.C03
open E3nnVerif E3nnVerif.Model.Wigner E3nnVerif.Model.WignerD E3nnVerif.Model.Irreps E3nnVerif.Theory
open E3nnVerif.Theory.DirectSum E3nnVerif.Props.C04 E3nnVerif.Rotation E3nnVerif.Cert
open Matrix
open scoped BigOperators

theorem wignerDHom_nine : WignerDHom 9 := wignerDHom_step wignerDHom_eight wignerDHom_one W3j.cert_8_1_9 W3j.gram_8_1_9
theorem wignerDHom_ten : WignerDHom 10 := wignerDHom_step wignerDHom_nine wignerDHom_one W3j.cert_9_1_10 W3j.gram_9_1_10
theorem wignerDHom_eleven : WignerDHom 11 :=
  wignerDHom_step wignerDHom_ten wignerDHom_one W3j.cert_10_1_11 W3j.gram_10_1_11
theorem wignerDHom_twelve : WignerDHom 12 :=
  wignerDHom_step wignerDHom_eleven wignerDHom_one W3j.cert_11_1_12 W3j.gram_11_1_12

/-- **`D^l(g₁ g₂) = D^l(g₁) D^l(g₂)` for every `l ≤ 12`**, all real angles -/
theorem wignerDHom_le12 : ∀ l, l ≤ 12 → WignerDHom l := by
  intro l h
  by_cases h8 : l ≤ 8
  · exact wignerDHom_le8 l h8
  · interval_cases l
    exacts [wignerDHom_nine, wignerDHom_ten, wignerDHom_eleven, wignerDHom_twelve]

theorem wignerDHom_le11 : ∀ l, l ≤ 11 → WignerDHom l := fun l h => wignerDHom_le12 l (by omega)

/-- homomorphism with `compose_angles`, all six angles, `l ≤ 12` -/
theorem wignerD_compose_le12 (l : ℕ) (hl : l ≤ 12) (a₁ b₁ c₁ a₂ b₂ c₂ : ℝ) :
    ∃ a, compose_angles a₁ b₁ c₁ a₂ b₂ c₂ = some a ∧
      wignerD l a.alpha a.beta a.gamma = wignerD l a₁ b₁ c₁ * wignerD l a₂ b₂ c₂ :=
  wignerD_compose_partial (wignerDHom_le12 l hl) a₁ b₁ c₁ a₂ b₂ c₂

theorem wignerD_compose_le11 (l : ℕ) (hl : l ≤ 11) (a₁ b₁ c₁ a₂ b₂ c₂ : ℝ) :
    ∃ a, compose_angles a₁ b₁ c₁ a₂ b₂ c₂ = some a ∧
      wignerD l a.alpha a.beta a.gamma = wignerD l a₁ b₁ c₁ * wignerD l a₂ b₂ c₂ :=
  wignerD_compose_le12 l (by omega) a₁ b₁ c₁ a₂ b₂ c₂

/-- … for the code's `wigner_D` with its `% 2π` reduction -/
theorem wigner_D_compose_le11 (l : ℕ) (hl : l ≤ 11) (a₁ b₁ c₁ a₂ b₂ c₂ : ℝ) :
    ∃ a, compose_angles a₁ b₁ c₁ a₂ b₂ c₂ = some a ∧
      wigner_D l a.alpha a.beta a.gamma = wigner_D l a₁ b₁ c₁ * wigner_D l a₂ b₂ c₂ := by
  obtain ⟨hg, hy⟩ := certified l hl
  simp only [wigner_D_eq hg hy]
  exact wignerD_compose_le11 l hl a₁ b₁ c₁ a₂ b₂ c₂

/-- `D^l` factors through SO(3), `l ≤ 12` -/
theorem wignerD_factors_through_SO3_le12 (l : ℕ) (hl : l ≤ 12) : WignerDFactorsThroughSO3 l :=
  wignerD_factors_through_SO3_of_hom (wignerDHom_le12 l hl)

theorem wignerD_factors_through_SO3_le11 (l : ℕ) (hl : l ≤ 11) : WignerDFactorsThroughSO3 l :=
  wignerD_factors_through_SO3_le12 l (by omega)

/-- angles ↔ matrix, `l ≤ 11`, both parities -/
theorem irrepD_from_matrix_angles_le11 (ir : Irrep) (hl : ir.l ≤ 11) (α β γ : ℝ) :
    irrepD_from_matrix ir (angles_to_matrix α β γ) = .ok (irrepD ir α β γ 0) :=
  irrepD_from_matrix_angles_partial ir (certified _ hl).1 (certified _ hl).2
    (wignerD_factors_through_SO3_le11 _ hl) α β γ

/-- the four input forms agree, `l ≤ 11` -/
theorem irrepD_forms_agree_le11 (ir : Irrep) (hl : ir.l ≤ 11) (q : Quat ℝ) (axis : Vec3 ℝ) (angle : ℝ)
    (h : quaternion_to_matrix q = axis_angle_to_matrix axis angle) :
    irrepD_from_quaternion ir q 0 = irrepD_from_axis_angle ir axis angle ∧
    irrepD_from_matrix ir (quaternion_to_matrix q) = irrepD_from_quaternion ir q 0 :=
  irrepD_forms_agree_partial ir (wignerD_factors_through_SO3_le11 _ hl) (certified _ hl).1 (certified _ hl).2
    q axis angle h

/-- one irrep is a representation of O(3), `l ≤ 11` -/
theorem irrepD_mul_le11 (ir : Irrep) (hl : ir.l ≤ 11) (a b c a' b' c' a'' b'' c'' : ℝ) (j k : ℤ)
    (hR : toMatrix (angles_to_matrix a'' b'' c'')
      = toMatrix (angles_to_matrix a b c) * toMatrix (angles_to_matrix a' b' c')) :
    irrepD ir a b c j * irrepD ir a' b' c' k = irrepD ir a'' b'' c'' (j + k) :=
  irrepD_mul_of_hom ir (wignerDHom_le11 _ hl) (certified _ hl).1 (certified _ hl).2 a b c a' b' c' a'' b'' c'' j k hR

/-- `Irrep.D_from_matrix` is multiplicative on SO(3), `l ≤ 11` -/
theorem irrepD_from_matrix_mul_le11 (ir : Irrep) (hl : ir.l ≤ 11) (R S : Mat3 ℝ)
    (hR : toMatrix R ∈ SO3) (hS : toMatrix S ∈ SO3) :
    ∃ A B, irrepD_from_matrix ir R = .ok A ∧ irrepD_from_matrix ir S = .ok B ∧
      irrepD_from_matrix ir (R.mul S) = .ok (A * B) :=
  irrepD_from_matrix_mul_of_hom ir (wignerDHom_le11 _ hl) (certified _ hl).1 (certified _ hl).2 R S hR hS

/-- direct sums are representations, every degree `≤ 11` -/
theorem irrepsD_mul_le11 (irs : Irreps) (h : ∀ e ∈ irs, e.2.l ≤ 11) (a b c a' b' c' a'' b'' c'' : ℝ) (j k : ℤ)
    (hR : toMatrix (angles_to_matrix a'' b'' c'')
      = toMatrix (angles_to_matrix a b c) * toMatrix (angles_to_matrix a' b' c')) (r s : ℕ) :
    ∑ t ∈ Finset.range (Model.Irreps.dim irs), ds (irrepsBlocks irs a b c j) r t * ds (irrepsBlocks irs a' b' c' k) t s
      = ds (irrepsBlocks irs a'' b'' c'' (j + k)) r s := by
  have hl : ∀ ir ∈ blocks irs, ir.l ≤ 11 := fun ir hir => by
    obtain ⟨e, he, rfl⟩ := mem_blocks hir
    exact h e he
  exact irrepsD_mul_of_hom irs (fun ir hir => wignerDHom_le11 _ (hl ir hir))
    (fun ir hir => (certified _ (hl ir hir)).1) (fun ir hir => (certified _ (hl ir hir)).2)
    a b c a' b' c' a'' b'' c'' j k hR r s

/-- … with the angles `o3.compose_angles` returns -/
theorem irrepsD_compose_le11 (irs : Irreps) (h : ∀ e ∈ irs, e.2.l ≤ 11) (a₁ b₁ c₁ a₂ b₂ c₂ : ℝ) (j k : ℤ) :
    ∃ a, compose_angles a₁ b₁ c₁ a₂ b₂ c₂ = some a ∧ ∀ r s : ℕ,
      ∑ t ∈ Finset.range (Model.Irreps.dim irs),
          ds (irrepsBlocks irs a₁ b₁ c₁ j) r t * ds (irrepsBlocks irs a₂ b₂ c₂ k) t s
        = ds (irrepsBlocks irs a.alpha a.beta a.gamma (j + k)) r s := by
  obtain ⟨a, h1, h2⟩ := C12.compose_angles_matrix a₁ b₁ c₁ a₂ b₂ c₂
  exact ⟨a, h1, fun r s => irrepsD_mul_le11 irs h a₁ b₁ c₁ a₂ b₂ c₂ a.alpha a.beta a.gamma j k h2 r s⟩

/-! non-vacuity -/

example : w3jCert 11 1 12 = true ∧ gramCheck 11 1 12 = true := ⟨W3j.cert_11_1_12, W3j.gram_11_1_12⟩

/-- the non-commuting pair of `C03Hom.nonvacuous_matrices`, now for every `l ≤ 12` -/
example (l : ℕ) (hl : l ≤ 12) :
    wignerD l (Real.pi / 2) (Real.pi / 2) (Real.pi / 2)
      = wignerD l 0 (Real.pi / 2) 0 * wignerD l (Real.pi / 2) (Real.pi / 2) 0 :=
  wignerDHom_le12 l hl _ _ _ _ _ _ _ _ _ nonvacuous_matrices.1

example : ∀ e ∈ ([(2, ⟨1, .odd⟩), (0, ⟨3, .even⟩), (1, ⟨11, .even⟩)] : Irreps), e.2.l ≤ 11 := by decide

end E3nnVerif.Props.C03
