import E3nnVerif.Exact.Poly
/-
Tensor-program IR: the image of the FX graphs that e3nn's code generators emit (TensorProduct left_right / right,
Linear, ReducedTensorProducts.main, …) under the translator `harness/fx2ir.py` (T1), and of the hand-written
*specification programs* (Model/TPSpec.lean).  Values are flat row-major lists; every data-movement op of torch
(reshape, slicing, permute, expand, cat, indexing by a constant index tensor) is one `gather`, whose index map the
translator obtains by applying the torch op itself to a tensor of element ids.

One generic interpreter `interp`, instantiated at
  * `Poly`  — symbolic execution inside the kernel: the coefficient polynomials of the program,
  * `ℝ`     — the semantics the theorems talk about (Sound/Tensor.lean; `interp_natural` relates the two).
-/
namespace E3nnVerif.IR
open E3nnVerif.Exact

/-- the operations the interpreter needs from a scalar type -/
class Sca (K : Type) extends Add K, Mul K, Neg K where
  zero : K
  one : K
  ofC : SqrtQ → K

instance : Sca Poly where
  zero := []
  one := Poly.one
  ofC := Poly.const

inductive Node where
  /-- `len` fresh variables `base … base+len-1` -/
  | input (base len : Nat)
  /-- literal constant tensor (buffers, folded scalars, `eye`, `ones`, `zeros`) -/
  | const (data : List SqrtQ)
  /-- `out[j] = srcs[idx[j].1][idx[j].2]`  (all data movement; several sources = `cat`) -/
  | gather (srcs : List Nat) (idx : List (Nat × Nat))
  /-- einsum. Labels are `0 … dims.length-1`; the first `nOut` labels are the output labels in output order, the
      rest are summed. `ops` = (node, labels of that operand in its row-major order). -/
  | einsum (dims : List Nat) (nOut : Nat) (ops : List (Nat × List Nat))
  | scale (c : SqrtQ) (src : Nat)
  | add (a b : Nat)
  | sub (a b : Nat)
  | mul (a b : Nat)
  | neg (a : Nat)
deriving Repr, Inhabited

/-- cartesian product of index ranges, row-major -/
def cart : List Nat → List (List Nat)
  | [] => [[]]
  | n :: rest => (List.range n).flatMap fun i => (cart rest).map fun t => i :: t

/-- row-major flat index of an operand with labels `labels` under the assignment `asg` (indexed by label) -/
def flatIndex (dims asg labels : List Nat) : Nat :=
  labels.foldl (fun acc l => acc * dims.getD l 0 + asg.getD l 0) 0

section
variable {K : Type} [Sca K]

def getK (l : List K) (i : Nat) : K := l.getD i Sca.zero

def sumK (l : List K) : K := l.foldl (fun acc x => acc + x) Sca.zero
def prodK (l : List K) : K := l.foldl (fun acc x => acc * x) Sca.one

def einsumK (dims : List Nat) (nOut : Nat) (ops : List (List K × List Nat)) : List K :=
  (cart (dims.take nOut)).map fun ao =>
    sumK ((cart (dims.drop nOut)).map fun as_ =>
      prodK (ops.map fun op => getK op.1 (flatIndex dims (ao ++ as_) op.2)))

def zipWithK (f : K → K → K) (a b : List K) : List K := List.zipWith f a b

/-- value of one node given the values of the earlier ones -/
def evalNode (mkVar : Nat → K) (env : List (List K)) : Node → List K
  | .input base len => (List.range len).map fun i => mkVar (base + i)
  | .const data => data.map Sca.ofC
  | .gather srcs idx => idx.map fun p => getK (env.getD (srcs.getD p.1 0) []) p.2
  | .einsum dims nOut ops => einsumK dims nOut (ops.map fun op => (env.getD op.1 [], op.2))
  | .scale c src => (env.getD src []).map fun x => Sca.ofC c * x
  | .add a b => zipWithK (· + ·) (env.getD a []) (env.getD b [])
  | .sub a b => zipWithK (fun x y => x + -y) (env.getD a []) (env.getD b [])
  | .mul a b => zipWithK (· * ·) (env.getD a []) (env.getD b [])
  | .neg a => (env.getD a []).map fun x => -x

/-- run a program (node `i` may refer to nodes `< i`); the result is the value of every node -/
def interpAll (mkVar : Nat → K) (p : List Node) : List (List K) :=
  p.foldl (fun env n => env ++ [evalNode mkVar env n]) []

/-- the value of the last node -/
def interp (mkVar : Nat → K) (p : List Node) : List K :=
  (interpAll mkVar p).getLastD []

end

/-- symbolic execution: the coefficient polynomials of the program output -/
def interpPoly (p : List Node) : List Poly := interp Poly.var p

/-- sound equality of two polynomial vectors -/
def polysEq (a b : List Poly) : Bool :=
  a.length == b.length && (List.zipWith Poly.beq a b).all id

end E3nnVerif.IR
