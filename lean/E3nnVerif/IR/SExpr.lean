import E3nnVerif.Exact.Poly
/-
Straight-line scalar programs: the image of `e3nn/o3/_spherical_harmonics.py::_spherical_harmonics` (and of the
Legendre generator) under the syntactic translator `harness/sh2poly.py`.  The translator only transliterates the
Python AST (names → indices, `math.sqrt(n)` → `.sqrt n`, `a.pow(k)` → `.pow a k`, `p / q` with an integer literal
`q` → `.divNat`, float literals → exact ratios); the *meaning* is given here (`toPoly`: symbolic, kernel-computable)
and in `Sound/SExpr.lean` (`evalR`: over ℝ), with a proof that the two agree.
-/
namespace E3nnVerif.IR
open E3nnVerif.Exact

inductive SExpr where
  | var (i : Nat)
  | ref (i : Nat)
  | nat (n : Nat)
  | rat (n : Int) (d : Nat)
  | sqrt (n : Nat)
  | add (a b : SExpr)
  | sub (a b : SExpr)
  | mul (a b : SExpr)
  | neg (a : SExpr)
  | divNat (a : SExpr) (n : Nat)
  | pow (a : SExpr) (k : Nat)
deriving Repr, Inhabited

/-- divide `d²` out of `n` (fuel-bounded); returns `(s, r)` with `s₀²·n₀ = s²·r` along the way -/
def divSq (d : Nat) : Nat → Nat → Nat → Nat × Nat
  | 0, s, n => (s, n)
  | fuel + 1, s, n =>
    bif Nat.beq (n % (d * d)) 0 && Nat.blt 0 n && Nat.blt 1 d then divSq d fuel (s * d) (n / (d * d)) else (s, n)

def sqSplitAux : Nat → Nat → Nat → Nat → Nat × Nat
  | 0, _, s, n => (s, n)
  | k + 1, d, s, n =>
    let p := divSq d 64 s n
    sqSplitAux k (d + 1) p.1 p.2

/-- `√n` as `s·√r` (trial division by `2..65`); the result is *checked* (`s·s·r = n`), so soundness does not
    depend on the search -/
def sqrtConst (n : Nat) : SqrtQ :=
  let p := sqSplitAux 64 2 1 n
  bif Nat.beq (p.1 * p.1 * p.2) n then [(p.2, Q.ofNat p.1)] else [(n, Q.one)]

namespace SExpr

def toPoly (env : List Poly) : SExpr → Poly
  | var i => Poly.var i
  | ref i => env.getD i []
  | nat n => Poly.const (SqrtQ.ofQ (Q.ofNat n))
  | rat n d => Poly.const (SqrtQ.ofQ (Q.mk' n d))
  | sqrt n => Poly.const (sqrtConst n)
  | add a b => a.toPoly env + b.toPoly env
  | sub a b => a.toPoly env - b.toPoly env
  | mul a b => a.toPoly env * b.toPoly env
  | neg a => - a.toPoly env
  | divNat a n => Poly.scale (SqrtQ.ofQ (Q.mk' 1 n)) (a.toPoly env)
  | pow a k => Poly.pow (a.toPoly env) k

/-- all literal denominators are non-zero (Python would raise otherwise) -/
def wf : SExpr → Bool
  | rat _ d => Nat.blt 0 d
  | divNat a n => Nat.blt 0 n && a.wf
  | add a b | sub a b | mul a b => a.wf && b.wf
  | neg a | pow a _ => a.wf
  | _ => true

end SExpr

/-- run a straight-line program: assignment `i` may refer to assignments `< i` -/
def evalProg (p : List SExpr) : List Poly :=
  p.foldl (fun acc e => acc ++ [e.toPoly acc]) []

def wfProg (p : List SExpr) : Bool := p.all SExpr.wf

end E3nnVerif.IR
