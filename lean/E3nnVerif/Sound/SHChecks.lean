import E3nnVerif.Sound.SExpr
import E3nnVerif.Sound.WignerChecks
import E3nnVerif.Model.SHChecks
/-
Meaning over ℝ of the kernel-decided checks on the symbolic spherical harmonics.
-/
namespace E3nnVerif.Model.SH
open E3nnVerif.Exact E3nnVerif.IR E3nnVerif.Model.Wigner
open scoped BigOperators

/-- environment `x,y,z = var 0,1,2` -/
def xyzEnv (x : Fin 3 → ℝ) : ℕ → ℝ := fun i => if h : i < 3 then x ⟨i, h⟩ else 0

/-- the table `[l][m]` of real values the *source program* computes at the point `x` -/
noncomputable def realTable (prog : List SExpr) (index : List (List ℕ)) (x : Fin 3 → ℝ) : List (List ℝ) :=
  index.map fun row => row.map fun i => (evalProgR (xyzEnv x) prog).getD i 0

/-- `sh_l_m(x)` as computed by the Python source over ℝ -/
noncomputable def realSH (prog : List SExpr) (index : List (List ℕ)) (l m : ℕ) (x : Fin 3 → ℝ) : ℝ :=
  ((realTable prog index x).getD l []).getD m 0

theorem getD_map_eval' (f : Poly → ℝ) (hf : f [] = 0) (l : List Poly) (i : ℕ) :
    f (l.getD i []) = (l.map f).getD i 0 := by
  induction l generalizing i with
  | nil => simp [hf]
  | cons h t ih => cases i with
    | zero => simp
    | succ i => simpa using ih i

/-- the symbolic `Y^l_m` evaluated at `x` is the value the source program computes -/
theorem eval_polyGet (prog : List SExpr) (index : List (List ℕ)) (hwf : wfProg prog = true)
    (l m : ℕ) (x : Fin 3 → ℝ) :
    Poly.eval (xyzEnv x) (polyGet (select (evalProg prog) index) l m) = realSH prog index l m x := by
  unfold polyGet realSH realTable select
  rw [← evalProg_sound (xyzEnv x) prog hwf]
  generalize evalProg prog = vals
  induction index generalizing l with
  | nil => simp
  | cons row rest ih =>
    cases l with
    | zero =>
      simp only [List.map_cons, List.getD_cons_zero]
      clear ih
      induction row generalizing m with
      | nil => simp
      | cons i is ih2 =>
        cases m with
        | zero => simp; cases vals[i]? <;> simp
        | succ m => simpa using ih2 m
    | succ l => simpa using ih l

theorem eval_sumPolys (env : ℕ → ℝ) (ps : List Poly) :
    Poly.eval env (sumPolys ps) = (ps.map (Poly.eval env)).sum := by
  unfold sumPolys
  have : ∀ init : Poly, Poly.eval env (ps.foldl (fun acc p => acc + p) init)
      = Poly.eval env init + (ps.map (Poly.eval env)).sum := by
    induction ps with
    | nil => intro init; simp
    | cons h t ih => intro init; simp [List.foldl, ih]; ring
  rw [this]; simp

theorem eval_r2 (x : Fin 3 → ℝ) : Poly.eval (xyzEnv x) r2 = x 0 ^ 2 + x 1 ^ 2 + x 2 ^ 2 := by
  simp [r2, xyzEnv]; ring

/-- **Unsöld**: `Σ_m Y^l_m(x)² = (2l+1)(x²+y²+z²)^l` for every real `x` -/
theorem unsold_of_check (prog : List SExpr) (index : List (List ℕ)) (hwf : wfProg prog = true) (l : ℕ)
    (hlen : homogCheck (select (evalProg prog) index) l = true)
    (h : unsoldCheck (select (evalProg prog) index) l = true) (x : Fin 3 → ℝ) :
    ∑ m ∈ Finset.range (2 * l + 1), (realSH prog index l m x) ^ 2
      = (2 * l + 1 : ℝ) * (x 0 ^ 2 + x 1 ^ 2 + x 2 ^ 2) ^ l := by
  have := Poly.eval_eq_of_beq (xyzEnv x) h
  rw [eval_sumPolys, Poly.eval_scale, Poly.eval_pow, eval_r2] at this
  simp only [SqrtQ.eval_ofQ, Q.eval_ofNat, List.map_map] at this
  push_cast at this
  rw [← this]
  simp only [homogCheck, Bool.and_eq_true, beq_iff_eq] at hlen
  rw [list_sum_eq_range _ ([] : Poly), hlen.1]
  apply Finset.sum_congr rfl
  intro m _
  simp only [Function.comp, Poly.eval_hmul]
  rw [← eval_polyGet prog index hwf]
  unfold polyGet
  ring

/-- scaling of a monomial -/
theorem Mono.eval_smul (t : ℝ) (x : Fin 3 → ℝ) (m : Mono) :
    Mono.eval (xyzEnv (t • x)) m = t ^ m.length * Mono.eval (xyzEnv x) m ∨ ∃ v ∈ m, ¬ v < 3 := by
  induction m with
  | nil => left; simp
  | cons v tl ih =>
    by_cases hv : v < 3
    · rcases ih with ih | ⟨w, hw, hw3⟩
      · left
        simp only [Mono.eval_cons, ih, List.length_cons, xyzEnv, hv, dite_true, Pi.smul_apply, smul_eq_mul]
        ring
      · right; exact ⟨w, List.mem_cons_of_mem _ hw, hw3⟩
    · right; exact ⟨v, List.mem_cons_self, hv⟩

/-- a monomial that mentions a variable ≥ 3 evaluates to 0 in `xyzEnv` -/
theorem Mono.eval_of_big (x : Fin 3 → ℝ) (m : Mono) (h : ∃ v ∈ m, ¬ v < 3) : Mono.eval (xyzEnv x) m = 0 := by
  induction m with
  | nil => obtain ⟨v, hv, _⟩ := h; simp at hv
  | cons w tl ih =>
    obtain ⟨v, hv, hv3⟩ := h
    rcases List.mem_cons.mp hv with rfl | hmem
    · simp [xyzEnv, hv3]
    · simp [ih ⟨v, hmem, hv3⟩]

/-- **homogeneity**: a polynomial passing `Poly.homogeneous l` scales by `t^l` -/
theorem eval_smul_of_homogeneous (l : ℕ) (p : Poly) (h : Poly.homogeneous l p = true) (t : ℝ) (x : Fin 3 → ℝ) :
    Poly.eval (xyzEnv (t • x)) p = t ^ l * Poly.eval (xyzEnv x) p := by
  unfold Poly.homogeneous at h
  unfold Poly.eval
  induction p with
  | nil => simp
  | cons hd tl ih =>
    simp only [List.all_cons, Bool.and_eq_true, Bool.or_eq_true, beq_iff_eq] at h
    simp only [AList.sumBy_cons, ih h.2]
    have : Poly.termVal (xyzEnv (t • x)) hd.1 hd.2 = t ^ l * Poly.termVal (xyzEnv x) hd.1 hd.2 := by
      rcases h.1 with hz | hlen
      · simp [Poly.termVal, SqrtQ.eval_of_isZero hz]
      · unfold Poly.termVal
        rcases Mono.eval_smul t x hd.1 with he | hbig
        · rw [he, hlen]; ring
        · rw [Mono.eval_of_big _ _ hbig, Mono.eval_of_big _ _ hbig]; ring
    rw [this]; ring

theorem homog_of_check (prog : List SExpr) (index : List (List ℕ)) (hwf : wfProg prog = true) (l : ℕ)
    (h : homogCheck (select (evalProg prog) index) l = true) (m : ℕ) (t : ℝ) (x : Fin 3 → ℝ) :
    realSH prog index l m (t • x) = t ^ l * realSH prog index l m x := by
  rw [← eval_polyGet prog index hwf, ← eval_polyGet prog index hwf]
  simp only [homogCheck, Bool.and_eq_true, List.all_eq_true] at h
  unfold polyGet
  by_cases hm : m < ((select (evalProg prog) index).getD l []).length
  · have hmem : ((select (evalProg prog) index).getD l []).getD m [] ∈ (select (evalProg prog) index).getD l [] := by
      rw [← List.getElem_eq_getD (h := hm)]; exact List.getElem_mem hm
    exact eval_smul_of_homogeneous l _ (h.2 _ hmem) t x
  · rw [List.getD_eq_getElem?_getD, List.getElem?_eq_none (by omega)]; simp


theorem eval_bilPoly_inner (env : ℕ → ℝ) (C : T3) (m : ℕ) (A B : List Poly) (i k : ℕ) (init : Poly) :
    Poly.eval env ((List.range m).foldl (fun acc j =>
        let c := C.get i j k
        bif c.isZero then acc else acc + Poly.scale c (A.getD i [] * B.getD j [])) init)
      = Poly.eval env init + ∑ j ∈ Finset.range m,
          (C.get i j k).eval * Poly.eval env (A.getD i []) * Poly.eval env (B.getD j []) := by
  rw [← sum_map_range]
  generalize List.range m = L
  induction L generalizing init with
  | nil => simp
  | cons j t ih =>
    simp only [List.foldl, List.map_cons, List.sum_cons]
    rw [ih]
    cases hz : (C.get i j k).isZero
    · simp; ring
    · simp [SqrtQ.eval_of_isZero hz]

theorem eval_bilPoly (env : ℕ → ℝ) (C : T3) (n m : ℕ) (A B : List Poly) (k : ℕ) :
    Poly.eval env (bilPoly C n m A B k)
      = ∑ i ∈ Finset.range n, ∑ j ∈ Finset.range m,
          (C.get i j k).eval * Poly.eval env (A.getD i []) * Poly.eval env (B.getD j []) := by
  unfold bilPoly
  have : ∀ init : Poly, Poly.eval env ((List.range n).foldl (fun acc i =>
      (List.range m).foldl (fun acc j =>
        let c := C.get i j k
        bif c.isZero then acc else acc + Poly.scale c (A.getD i [] * B.getD j [])) acc) init)
      = Poly.eval env init + ∑ i ∈ Finset.range n, ∑ j ∈ Finset.range m,
          (C.get i j k).eval * Poly.eval env (A.getD i []) * Poly.eval env (B.getD j []) := by
    rw [← sum_map_range]
    generalize List.range n = L
    induction L with
    | nil => intro init; simp
    | cons i t ih =>
      intro init
      simp only [List.foldl, List.map_cons, List.sum_cons]
      rw [ih, eval_bilPoly_inner]; ring
  rw [this]; simp

theorem eval_recConst (l : ℕ) :
    (recConst l).eval = (2 * l + 3 : ℝ) / (3 * (l + 1) : ℝ) * Real.sqrt (3 * (l + 1) : ℝ) := by
  unfold recConst
  rw [SqrtQ.eval_scale, SExpr.eval_sqrtConst, Q.eval_mk' _ _ (by omega)]
  push_cast; ring_nf

/-- **recurrence**: `Y^{l+1}_k = c_l Σ_ij C^{l,1,l+1}_{ijk} Y^l_i Y^1_j` at every real point -/
theorem recurrence_of_check (prog : List SExpr) (index : List (List ℕ)) (hwf : wfProg prog = true) (l : ℕ)
    (h : recurrenceCheck (select (evalProg prog) index) l = true) (x : Fin 3 → ℝ) (k : ℕ) (hk : k < 2 * l + 3) :
    realSH prog index (l + 1) k x
      = (recConst l).eval * ∑ i ∈ Finset.range (2 * l + 1), ∑ j ∈ Finset.range 3,
          ((w3j l 1 (l + 1)).get i j k).eval * realSH prog index l i x * realSH prog index 1 j x := by
  simp only [recurrenceCheck, List.all_eq_true, List.mem_range] at h
  have := Poly.eval_eq_of_beq (xyzEnv x) (h k hk)
  rw [Poly.eval_scale, eval_bilPoly, eval_polyGet prog index hwf] at this
  rw [this]
  congr 1
  apply Finset.sum_congr rfl; intro i _
  apply Finset.sum_congr rfl; intro j _
  rw [← eval_polyGet prog index hwf l i, ← eval_polyGet prog index hwf 1 j]
  rfl

/-- `Y^0 = 1` and `Y^1 = √3·(x,y,z)` -/
theorem base_of_check (prog : List SExpr) (index : List (List ℕ)) (hwf : wfProg prog = true)
    (h : baseCheck (select (evalProg prog) index) = true) (x : Fin 3 → ℝ) :
    realSH prog index 0 0 x = 1 ∧ ∀ k : Fin 3, realSH prog index 1 k x = Real.sqrt 3 * x k := by
  simp only [baseCheck, Bool.and_eq_true, List.all_eq_true, List.mem_range] at h
  constructor
  · have := Poly.eval_eq_of_beq (xyzEnv x) h.1
    rw [eval_polyGet prog index hwf] at this
    simpa using this
  · intro k
    have := Poly.eval_eq_of_beq (xyzEnv x) (h.2 k k.2)
    rw [eval_polyGet prog index hwf, Poly.eval_scale, SExpr.eval_sqrtConst, Poly.eval_var] at this
    rw [this]
    simp [xyzEnv, k.2]

end E3nnVerif.Model.SH
