import Mathlib.Data.Matrix.Block
import E3nnVerif.Sound.PolyDeriv
import E3nnVerif.Sound.Tensor
import E3nnVerif.Model.TPChecks
import E3nnVerif.Theory.OneParam
/-
What the kernel-decided equivariance checks of `Model/TPChecks.lean` (`equivCheckGen`, `parityCheck`, and the
row placement part of `introspectionCheck`) mean over ℝ, and the lifting from the Lie-algebra identity to all
rotations (helper file of `Props/C01.lean`).

  * `genR irr a`, `repD irr α β γ` : the block-diagonal generators of a feature layout over ℝ and the Euler-angle
    representation `exp(α X_y) exp(β X_x) exp(γ X_y)` they generate;
  * `equivCheckGen_spec` : the generator identity at every real point;
  * `rowMap`, `rowMap_hasFDerivAt` (via `Sound/PolyDeriv.lean`), `rowMap_generator` : one batch row as a differentiable
    map `Y` with `Y'(z)(A z) = X (Y z)`;  `expM_fromBlocks_mulVec` : `exp` of a block-diagonal generator acts blockwise;
  * `equivariant_row` / `equivariant_all` : equivariance for all rotations (one row / all rows, the latter needs
    `RowLocal`, which `rowLocal_of_introspection` extracts from the C19 certificate);
  * `parity_spec` / `equivariant_inv` : the inversion.
-/

namespace E3nnVerif.Model.TP
open E3nnVerif.Exact E3nnVerif.IR E3nnVerif.Theory Matrix
open scoped BigOperators

/-! ### arithmetic of the flat layout -/

theorem flat_div {d b k : ℕ} (hk : k < d) : (b * d + k) / d = b := by
  have hd : 0 < d := by omega
  rw [Nat.add_comm, Nat.add_mul_div_right _ _ hd, Nat.div_eq_of_lt hk, Nat.zero_add]

theorem flat_mod {d b k : ℕ} (hk : k < d) : (b * d + k) % d = k := by
  rw [Nat.add_comm, Nat.add_mul_mod_self_right, Nat.mod_eq_of_lt hk]

theorem flat_lt {B d b k : ℕ} (hb : b < B) (hk : k < d) : b * d + k < B * d := by
  calc b * d + k < b * d + d := by omega
    _ = (b + 1) * d := by ring
    _ ≤ B * d := Nat.mul_le_mul_right _ hb

theorem flat_inj {d b k b' k' : ℕ} (hk : k < d) (hk' : k' < d) (h : b * d + k = b' * d + k') :
    b = b' ∧ k = k' := by
  have h1 := flat_div (b := b) hk
  have h2 := flat_mod (b := b) hk
  rw [h, flat_div hk'] at h1
  rw [h, flat_mod hk'] at h2
  exact ⟨h1.symm, h2.symm⟩

theorem foldl_add_eq_sum (l : List ℕ) (a : ℕ) : l.foldl (· + ·) a = a + l.sum := by
  induction l generalizing a with
  | nil => simp
  | cons h t ih => simp [ih]; omega

theorem totalDim_eq_sum (irr : List (ℕ × ℕ)) : totalDim irr = (irr.map dimOf).sum := by
  unfold totalDim; rw [foldl_add_eq_sum]; simp

theorem offsetOf_add_dim_le (irr : List (ℕ × ℕ)) (e : ℕ) (he : e < irr.length) :
    offsetOf irr e + dimOf (irr.getD e (0, 0)) ≤ totalDim irr := by
  unfold offsetOf
  rw [totalDim_eq_sum, totalDim_eq_sum]
  conv_rhs => rw [← List.take_append_drop e irr]
  rw [List.map_append, List.sum_append]
  have : List.drop e irr = irr[e] :: List.drop (e + 1) irr := (List.drop_eq_getElem_cons he)
  have hget : irr.getD e (0, 0) = irr[e] := by simp [List.getD_eq_getElem?_getD, he]
  rw [this, List.map_cons, List.sum_cons, hget]
  omega

theorem blockGen_bound {irr : List (ℕ × ℕ)} {a : ℕ} {g : ℕ × ℕ × SqrtQ} (hg : g ∈ blockGen irr a) :
    g.1 < totalDim irr ∧ g.2.1 < totalDim irr := by
  simp only [blockGen, List.mem_flatMap, List.mem_range, List.mem_filterMap] at hg
  obtain ⟨e, he, u, hu, r, hr, cc, hcc, hsome⟩ := hg
  have hle := offsetOf_add_dim_le irr e he
  have hdim : (u + 1) * (2 * (irr.getD e (0, 0)).2 + 1) ≤ dimOf (irr.getD e (0, 0)) := by
    unfold dimOf; exact Nat.mul_le_mul_right _ hu
  have hexp : (u + 1) * (2 * (irr.getD e (0, 0)).2 + 1)
      = u * (2 * (irr.getD e (0, 0)).2 + 1) + (2 * (irr.getD e (0, 0)).2 + 1) := by ring
  split at hsome
  · cases hsome
  · cases hsome
    constructor <;> simp only <;> omega

/-! ### real matrices of sparse entry lists -/

/-- the real matrix with entries `Σ {v | (i, j, v) ∈ G}` -/
noncomputable def entriesToReal (G : List (ℕ × ℕ × SqrtQ)) (n : ℕ) : Matrix (Fin n) (Fin n) ℝ :=
  fun i j => ((G.filter fun g => g.1 == i.1 && g.2.1 == j.1).map fun g => g.2.2.eval).sum

theorem entriesToReal_cons (g : ℕ × ℕ × SqrtQ) (G : List (ℕ × ℕ × SqrtQ)) (n : ℕ) (i j : Fin n) :
    entriesToReal (g :: G) n i j
      = (if g.1 = i.1 ∧ g.2.1 = j.1 then g.2.2.eval else 0) + entriesToReal G n i j := by
  unfold entriesToReal
  by_cases h : g.1 = i.1 ∧ g.2.1 = j.1
  · simp [h]
  · have : (g.1 == i.1 && g.2.1 == j.1) = false := by
      simpa using h
    simp [this, h]

theorem sum_entries (G : List (ℕ × ℕ × SqrtQ)) (n : ℕ) (hb : ∀ g ∈ G, g.1 < n ∧ g.2.1 < n)
    (F : ℕ → ℕ → ℝ) :
    ∑ i : Fin n, ∑ j : Fin n, entriesToReal G n i j * F i j
      = (G.map fun g => g.2.2.eval * F g.1 g.2.1).sum := by
  induction G with
  | nil => simp [entriesToReal]
  | cons g G ih =>
    have ih' := ih (fun g' hg' => hb g' (List.mem_cons_of_mem _ hg'))
    obtain ⟨h1, h2⟩ := hb g (List.mem_cons_self)
    simp only [entriesToReal_cons, add_mul, Finset.sum_add_distrib, ih', List.map_cons, List.sum_cons]
    congr 1
    rw [Finset.sum_eq_single (⟨g.1, h1⟩ : Fin n), Finset.sum_eq_single (⟨g.2.1, h2⟩ : Fin n)]
    · simp
    · intro j _ hj
      have : ¬ g.2.1 = j.1 := fun e => hj (Fin.ext e.symm)
      simp [this]
    · simp
    · intro i _ hi
      have : ¬ g.1 = i.1 := fun e => hi (Fin.ext e.symm)
      simp [this]
    · simp

theorem row_entries (G : List (ℕ × ℕ × SqrtQ)) (n : ℕ) (hb : ∀ g ∈ G, g.2.1 < n) (i : Fin n)
    (F : ℕ → ℝ) :
    ∑ j : Fin n, entriesToReal G n i j * F j
      = ((G.filter fun g => g.1 == i.1).map fun g => g.2.2.eval * F g.2.1).sum := by
  induction G with
  | nil => simp [entriesToReal]
  | cons g G ih =>
    have ih' := ih (fun g' hg' => hb g' (List.mem_cons_of_mem _ hg'))
    have h2 := hb g (List.mem_cons_self)
    simp only [entriesToReal_cons, add_mul, Finset.sum_add_distrib, ih']
    by_cases h : g.1 = i.1
    · have hf : (g.1 == i.1) = true := by simpa using h
      simp only [List.filter_cons, hf, if_true, List.map_cons, List.sum_cons]
      congr 1
      rw [Finset.sum_eq_single (⟨g.2.1, h2⟩ : Fin n)]
      · simp [h]
      · intro j _ hj
        have : ¬ g.2.1 = j.1 := fun e => hj (Fin.ext e.symm)
        simp [this]
      · simp
    · have hf : (g.1 == i.1) = false := by simpa using h
      simp [hf, h]


/-! ### what the generator check says over ℝ -/

theorem eval_lieDeriv (env : ℕ → ℝ) (G : List (ℕ × ℕ × SqrtQ)) (base : ℕ) (P : Poly) :
    Poly.eval env (lieDeriv G base P)
      = (G.map fun g => g.2.2.eval * (env (base + g.2.1) * Poly.eval env (Poly.deriv (base + g.1) P))).sum := by
  unfold lieDeriv
  have key : ∀ acc : Poly, Poly.eval env (G.foldl (fun acc g =>
      let d := Poly.deriv (base + g.1) P
      if d.isZero then acc else acc + Poly.scale g.2.2 (Poly.var (base + g.2.1) * d)) acc)
      = Poly.eval env acc
        + (G.map fun g => g.2.2.eval * (env (base + g.2.1) * Poly.eval env (Poly.deriv (base + g.1) P))).sum := by
    induction G with
    | nil => intro acc; simp
    | cons g G ih =>
      intro acc
      simp only [List.foldl_cons, List.map_cons, List.sum_cons]
      rw [ih]
      by_cases hz : (Poly.deriv (base + g.1) P).isZero = true
      · simp [hz, Poly.eval_of_isZero env hz]
      · simp [hz]; ring
  rw [key]; simp

theorem eval_foldl_scale (env : ℕ → ℝ) (G : List (ℕ × ℕ × SqrtQ)) (Q : ℕ → Poly) :
    Poly.eval env (G.foldl (fun acc g => acc + Poly.scale g.2.2 (Q g.2.1)) [])
      = (G.map fun g => g.2.2.eval * Poly.eval env (Q g.2.1)).sum := by
  have key : ∀ acc : Poly, Poly.eval env (G.foldl (fun acc g => acc + Poly.scale g.2.2 (Q g.2.1)) acc)
      = Poly.eval env acc + (G.map fun g => g.2.2.eval * Poly.eval env (Q g.2.1)).sum := by
    induction G with
    | nil => intro acc; simp
    | cons g G ih =>
      intro acc
      simp only [List.foldl_cons, List.map_cons, List.sum_cons]
      rw [ih]; simp; ring
  rw [key]; simp

/-- component `k` of batch row `b` of a polynomial vector of shape `(B, dO)` -/
def outPoly (c : Cfg) (polys : List Poly) (b k : ℕ) : Poly := polys.getD (b * totalDim c.out + k) []

/-- **meaning of `equivCheckGen`**: at every real point, for every output component `(b, k)`,
    `Σ_{G1} v·x1[b,i']·∂P/∂x1[b,i] + Σ_{G2} v·x2[b,j']·∂P/∂x2[b,j] = Σ_{k'} G3[k,k']·P[b,k']`. -/
theorem equivCheckGen_spec {c : Cfg} {polys : List Poly} {a : ℕ} (h : equivCheckGen c polys a = true)
    {b k : ℕ} (hb : b < c.B) (hk : k < totalDim c.out) (env : ℕ → ℝ) :
    ((blockGen c.in1 a).map fun g => g.2.2.eval * (env (b * totalDim c.in1 + g.2.1)
        * Poly.eval env (Poly.deriv (b * totalDim c.in1 + g.1) (outPoly c polys b k)))).sum
    + ((blockGen c.in2 a).map fun g => g.2.2.eval * (env (c.B * totalDim c.in1 + b * totalDim c.in2 + g.2.1)
        * Poly.eval env (Poly.deriv (c.B * totalDim c.in1 + b * totalDim c.in2 + g.1) (outPoly c polys b k)))).sum
    = (((blockGen c.out a).filter fun g => g.1 == k).map fun g =>
        g.2.2.eval * Poly.eval env (outPoly c polys b g.2.1)).sum := by
  unfold equivCheckGen at h
  simp only [List.all_eq_true, List.mem_range] at h
  have ht := h (b * totalDim c.out + k) (flat_lt hb hk)
  rw [flat_div hk, flat_mod hk] at ht
  have := Poly.eval_eq_of_beq env ht
  rw [Poly.eval_hadd, eval_lieDeriv, eval_lieDeriv,
    eval_foldl_scale env _ (fun k' => polys.getD (b * totalDim c.out + k') [])] at this
  exact this


/-! ### block-diagonal one-parameter groups -/

section blocks
variable {n₁ n₂ : Type*} [Fintype n₁] [DecidableEq n₁] [Fintype n₂] [DecidableEq n₂]

/-- `exp(t·(A ⊕ B))` acts on the two halves of a vector by `exp(tA)` and `exp(tB)` -/
theorem expM_fromBlocks_mulVec (A : Matrix n₁ n₁ ℝ) (B : Matrix n₂ n₂ ℝ) (t : ℝ) (z : n₁ ⊕ n₂ → ℝ) :
    expM (t • Matrix.fromBlocks A 0 0 B) *ᵥ z
      = Sum.elim (expM (t • A) *ᵥ (z ∘ Sum.inl)) (expM (t • B) *ᵥ (z ∘ Sum.inr)) := by
  have h := ode_unique (Matrix.fromBlocks A 0 0 B)
    (fun s => Sum.elim (expM (s • A) *ᵥ (z ∘ Sum.inl)) (expM (s • B) *ᵥ (z ∘ Sum.inr))) (fun s => by
      rw [hasDerivAt_pi]
      intro i
      rw [Matrix.fromBlocks_mulVec]
      cases i with
      | inl i =>
        have := hasDerivAt_pi.1 (hasDerivAt_expM_smul_mulVec A (z ∘ Sum.inl) s) i
        simpa using this
      | inr j =>
        have := hasDerivAt_pi.1 (hasDerivAt_expM_smul_mulVec B (z ∘ Sum.inr) s) j
        simpa using this) t
  rw [h]
  simp [expM_zero]

theorem eulerD_fromBlocks_mulVec (Ax Ay : Matrix n₁ n₁ ℝ) (Bx By : Matrix n₂ n₂ ℝ) (α β γ : ℝ)
    (z : n₁ ⊕ n₂ → ℝ) :
    eulerD (Matrix.fromBlocks Ax 0 0 Bx) (Matrix.fromBlocks Ay 0 0 By) α β γ *ᵥ z
      = Sum.elim (eulerD Ax Ay α β γ *ᵥ (z ∘ Sum.inl)) (eulerD Bx By α β γ *ᵥ (z ∘ Sum.inr)) := by
  simp only [eulerD_mulVec, expM_fromBlocks_mulVec, Sum.elim_comp_inl, Sum.elim_comp_inr]

end blocks

/-! ### the representation matrices -/

/-- the block-diagonal so(3) generator `a` of the layout `irr` over ℝ (direct sum of `mul` copies of
    `so3_generators(l)[a]` per entry `(mul, l)`) -/
noncomputable def genR (irr : List (ℕ × ℕ)) (a : ℕ) : Matrix (Fin (totalDim irr)) (Fin (totalDim irr)) ℝ :=
  entriesToReal (blockGen irr a) (totalDim irr)

/-- the representation of the rotation with Euler angles `(α, β, γ)` on features of layout `irr`:
    `exp(α·X_y) exp(β·X_x) exp(γ·X_y)` with the block-diagonal generators -/
noncomputable def repD (irr : List (ℕ × ℕ)) (α β γ : ℝ) : Matrix (Fin (totalDim irr)) (Fin (totalDim irr)) ℝ :=
  eulerD (genR irr 0) (genR irr 1) α β γ

/-! ### one batch row as a differentiable map -/

/-- variable ids of batch row `b`: `x1[b, i]` and `x2[b, j]` -/
def rowIdx (c : Cfg) (b : ℕ) : Fin (totalDim c.in1) ⊕ Fin (totalDim c.in2) → ℕ :=
  Sum.elim (fun i => b * totalDim c.in1 + i.1) (fun j => c.B * totalDim c.in1 + b * totalDim c.in2 + j.1)

theorem rowIdx_injective (c : Cfg) {b : ℕ} (hb : b < c.B) : Function.Injective (rowIdx c b) := by
  intro x y h
  rcases x with i | j <;> rcases y with i' | j' <;> simp only [rowIdx, Sum.elim_inl, Sum.elim_inr] at h
  · exact congrArg _ (Fin.ext (by omega))
  · have := flat_lt hb i.2; omega
  · have := flat_lt hb i'.2; omega
  · exact congrArg _ (Fin.ext (by omega))

/-- inputs of row `b` read off an environment -/
def x1row (c : Cfg) (b : ℕ) (env : ℕ → ℝ) : Fin (totalDim c.in1) → ℝ := fun i => env (b * totalDim c.in1 + i.1)
def x2row (c : Cfg) (b : ℕ) (env : ℕ → ℝ) : Fin (totalDim c.in2) → ℝ :=
  fun j => env (c.B * totalDim c.in1 + b * totalDim c.in2 + j.1)

/-- output row `b` as a function of the inputs `z = (x1[b], x2[b])` of that row, everything else fixed by `env` -/
noncomputable def rowMap (c : Cfg) (polys : List Poly) (b : ℕ) (env : ℕ → ℝ)
    (z : Fin (totalDim c.in1) ⊕ Fin (totalDim c.in2) → ℝ) : Fin (totalDim c.out) → ℝ :=
  fun k => Poly.eval (Poly.envUpd env (rowIdx c b) z) (outPoly c polys b k.1)

/-- its Fréchet derivative -/
noncomputable def rowMap' (c : Cfg) (polys : List Poly) (b : ℕ) (env : ℕ → ℝ)
    (z : Fin (totalDim c.in1) ⊕ Fin (totalDim c.in2) → ℝ) :
    (Fin (totalDim c.in1) ⊕ Fin (totalDim c.in2) → ℝ) →L[ℝ] (Fin (totalDim c.out) → ℝ) :=
  ContinuousLinearMap.pi fun k => ∑ i,
    Poly.eval (Poly.envUpd env (rowIdx c b) z) (Poly.deriv (rowIdx c b i) (outPoly c polys b k.1))
      • (ContinuousLinearMap.proj i : (Fin (totalDim c.in1) ⊕ Fin (totalDim c.in2) → ℝ) →L[ℝ] ℝ)

theorem rowMap_hasFDerivAt (c : Cfg) (polys : List Poly) {b : ℕ} (hb : b < c.B) (env : ℕ → ℝ)
    (z : Fin (totalDim c.in1) ⊕ Fin (totalDim c.in2) → ℝ) :
    HasFDerivAt (rowMap c polys b env) (rowMap' c polys b env z) z := by
  unfold rowMap rowMap'
  rw [hasFDerivAt_pi]
  intro k
  exact Poly.hasFDerivAt_eval_envUpd env (rowIdx_injective c hb) _ z

theorem rowMap'_apply (c : Cfg) (polys : List Poly) (b : ℕ) (env : ℕ → ℝ)
    (z δ : Fin (totalDim c.in1) ⊕ Fin (totalDim c.in2) → ℝ) (k : Fin (totalDim c.out)) :
    rowMap' c polys b env z δ k
      = ∑ i : Fin (totalDim c.in1), δ (Sum.inl i) * Poly.eval (Poly.envUpd env (rowIdx c b) z)
          (Poly.deriv (b * totalDim c.in1 + i.1) (outPoly c polys b k.1))
        + ∑ j : Fin (totalDim c.in2), δ (Sum.inr j) * Poly.eval (Poly.envUpd env (rowIdx c b) z)
          (Poly.deriv (c.B * totalDim c.in1 + b * totalDim c.in2 + j.1) (outPoly c polys b k.1)) := by
  simp only [rowMap', ContinuousLinearMap.pi_apply, _root_.sum_apply, _root_.smul_apply,
    ContinuousLinearMap.proj_apply, Fintype.sum_sum_type, smul_eq_mul, _root_.add_apply]
  congr 1 <;> (apply Finset.sum_congr rfl; intro i _; rw [mul_comm]; rfl)

/-- **the generator identity** `Y'(z)(A z) = X (Y z)` for the row map, from the kernel-decided check -/
theorem rowMap_generator {c : Cfg} {polys : List Poly} {a : ℕ} (h : equivCheckGen c polys a = true)
    {b : ℕ} (hb : b < c.B) (env : ℕ → ℝ) (z : Fin (totalDim c.in1) ⊕ Fin (totalDim c.in2) → ℝ) :
    rowMap' c polys b env z (Matrix.fromBlocks (genR c.in1 a) 0 0 (genR c.in2 a) *ᵥ z)
      = genR c.out a *ᵥ rowMap c polys b env z := by
  funext k
  have hinj := rowIdx_injective c hb
  have spec := equivCheckGen_spec h hb k.2 (Poly.envUpd env (rowIdx c b) z)
  -- right-hand side
  have hR : (genR c.out a *ᵥ rowMap c polys b env z) k
      = (((blockGen c.out a).filter fun g => g.1 == k.1).map fun g =>
        g.2.2.eval * Poly.eval (Poly.envUpd env (rowIdx c b) z) (outPoly c polys b g.2.1)).sum := by
    rw [← row_entries (blockGen c.out a) (totalDim c.out) (fun g hg => (blockGen_bound hg).2) k
      (fun k' => Poly.eval (Poly.envUpd env (rowIdx c b) z) (outPoly c polys b k'))]
    rfl
  rw [hR, ← spec]
  -- left-hand side
  rw [← sum_entries (blockGen c.in1 a) (totalDim c.in1) (fun g hg => blockGen_bound hg)
      (fun r cc => Poly.envUpd env (rowIdx c b) z (b * totalDim c.in1 + cc)
        * Poly.eval (Poly.envUpd env (rowIdx c b) z) (Poly.deriv (b * totalDim c.in1 + r) (outPoly c polys b k.1))),
    ← sum_entries (blockGen c.in2 a) (totalDim c.in2) (fun g hg => blockGen_bound hg)
      (fun r cc => Poly.envUpd env (rowIdx c b) z (c.B * totalDim c.in1 + b * totalDim c.in2 + cc)
        * Poly.eval (Poly.envUpd env (rowIdx c b) z)
            (Poly.deriv (c.B * totalDim c.in1 + b * totalDim c.in2 + r) (outPoly c polys b k.1)))]
  have e1 : ∀ i : Fin (totalDim c.in1),
      Poly.envUpd env (rowIdx c b) z (b * totalDim c.in1 + i.1) = z (Sum.inl i) :=
    fun i => Poly.envUpd_idx env hinj z (Sum.inl i)
  have e2 : ∀ j : Fin (totalDim c.in2),
      Poly.envUpd env (rowIdx c b) z (c.B * totalDim c.in1 + b * totalDim c.in2 + j.1) = z (Sum.inr j) :=
    fun j => Poly.envUpd_idx env hinj z (Sum.inr j)
  rw [rowMap'_apply, Matrix.fromBlocks_mulVec]
  simp only [Sum.elim_inl, Sum.elim_inr, Matrix.zero_mulVec, add_zero, zero_add, e1, e2, genR]
  simp only [Matrix.mulVec, dotProduct, Function.comp, Finset.sum_mul]
  congr 1 <;> (apply Finset.sum_congr rfl; intro i _; apply Finset.sum_congr rfl; intro j _; ring)

/-- **one batch row is equivariant** under every rotation: transforming the inputs of row `b` by the input
    representations transforms output row `b` by the output representation. -/
theorem rowMap_equivariant {c : Cfg} {polys : List Poly} (h0 : equivCheckGen c polys 0 = true)
    (h1 : equivCheckGen c polys 1 = true) {b : ℕ} (hb : b < c.B) (env : ℕ → ℝ) (α β γ : ℝ)
    (u : Fin (totalDim c.in1) → ℝ) (v : Fin (totalDim c.in2) → ℝ) :
    rowMap c polys b env (Sum.elim (repD c.in1 α β γ *ᵥ u) (repD c.in2 α β γ *ᵥ v))
      = repD c.out α β γ *ᵥ rowMap c polys b env (Sum.elim u v) := by
  have := map_eulerD_equivariant (Y := rowMap c polys b env) (Y' := rowMap' c polys b env)
    (Matrix.fromBlocks (genR c.in1 0) 0 0 (genR c.in2 0)) (Matrix.fromBlocks (genR c.in1 1) 0 0 (genR c.in2 1))
    (genR c.out 0) (genR c.out 1) (rowMap_hasFDerivAt c polys hb env)
    (rowMap_generator h0 hb env) (rowMap_generator h1 hb env) α β γ (Sum.elim u v)
  rw [eulerD_fromBlocks_mulVec] at this
  simpa [repD] using this


/-! ### the statement in terms of environments -/

/-- the environment in which the inputs `x1[b]`, `x2[b]` of batch row `b` are rotated by the Euler angles
    `(α, β, γ)`; all other rows and all weights are untouched -/
noncomputable def rotRow (c : Cfg) (b : ℕ) (α β γ : ℝ) (env : ℕ → ℝ) : ℕ → ℝ :=
  Poly.envUpd env (rowIdx c b)
    (Sum.elim (repD c.in1 α β γ *ᵥ x1row c b env) (repD c.in2 α β γ *ᵥ x2row c b env))

theorem rotRow_x1 (c : Cfg) {b : ℕ} (hb : b < c.B) (α β γ : ℝ) (env : ℕ → ℝ) (i : Fin (totalDim c.in1)) :
    rotRow c b α β γ env (b * totalDim c.in1 + i.1) = (repD c.in1 α β γ *ᵥ x1row c b env) i :=
  Poly.envUpd_idx env (rowIdx_injective c hb) _ (Sum.inl i)

theorem rotRow_x2 (c : Cfg) {b : ℕ} (hb : b < c.B) (α β γ : ℝ) (env : ℕ → ℝ) (j : Fin (totalDim c.in2)) :
    rotRow c b α β γ env (c.B * totalDim c.in1 + b * totalDim c.in2 + j.1)
      = (repD c.in2 α β γ *ᵥ x2row c b env) j :=
  Poly.envUpd_idx env (rowIdx_injective c hb) _ (Sum.inr j)

theorem rotRow_other (c : Cfg) (b : ℕ) (α β γ : ℝ) (env : ℕ → ℝ) {n : ℕ} (h : ∀ i, rowIdx c b i ≠ n) :
    rotRow c b α β γ env n = env n :=
  Poly.envUpd_of_not_range env _ h

theorem rowMap_base (c : Cfg) (polys : List Poly) (b : ℕ) (env : ℕ → ℝ) :
    rowMap c polys b env (Sum.elim (x1row c b env) (x2row c b env))
      = fun k => Poly.eval env (outPoly c polys b k.1) := by
  have : (Sum.elim (x1row c b env) (x2row c b env)) = fun i => env (rowIdx c b i) := by
    funext i; cases i <;> rfl
  funext k
  rw [rowMap, this, Poly.envUpd_self]

/-- **row-wise equivariance** in terms of environments -/
theorem equivariant_row {c : Cfg} {polys : List Poly} (h0 : equivCheckGen c polys 0 = true)
    (h1 : equivCheckGen c polys 1 = true) {b : ℕ} (hb : b < c.B) (α β γ : ℝ) (env : ℕ → ℝ)
    (k : Fin (totalDim c.out)) :
    Poly.eval (rotRow c b α β γ env) (outPoly c polys b k.1)
      = (repD c.out α β γ *ᵥ fun k' : Fin (totalDim c.out) => Poly.eval env (outPoly c polys b k'.1)) k := by
  have := congrFun (rowMap_equivariant h0 h1 hb env α β γ (x1row c b env) (x2row c b env)) k
  rw [rowMap_base] at this
  exact this

/-! ### all batch rows at once -/

/-- variable ids of all inputs: `x1[b, i]`, `x2[b, j]` -/
def allIdx (c : Cfg) : (Fin c.B × Fin (totalDim c.in1)) ⊕ (Fin c.B × Fin (totalDim c.in2)) → ℕ :=
  Sum.elim (fun p => p.1.1 * totalDim c.in1 + p.2.1)
    (fun p => c.B * totalDim c.in1 + p.1.1 * totalDim c.in2 + p.2.1)

theorem allIdx_injective (c : Cfg) : Function.Injective (allIdx c) := by
  intro x y h
  rcases x with ⟨b, i⟩ | ⟨b, j⟩ <;> rcases y with ⟨b', i'⟩ | ⟨b', j'⟩ <;>
    simp only [allIdx, Sum.elim_inl, Sum.elim_inr] at h
  · obtain ⟨e1, e2⟩ := flat_inj i.2 i'.2 h
    rw [Fin.ext e1, Fin.ext e2]
  · have := flat_lt b.2 i.2; omega
  · have := flat_lt b'.2 i'.2; omega
  · have h' : b.1 * totalDim c.in2 + j.1 = b'.1 * totalDim c.in2 + j'.1 := by omega
    obtain ⟨e1, e2⟩ := flat_inj j.2 j'.2 h'
    rw [Fin.ext e1, Fin.ext e2]

/-- the environment in which every batch row of `x1` and of `x2` is rotated by `(α, β, γ)`; weights untouched -/
noncomputable def rotAll (c : Cfg) (α β γ : ℝ) (env : ℕ → ℝ) : ℕ → ℝ :=
  Poly.envUpd env (allIdx c)
    (Sum.elim (fun p => (repD c.in1 α β γ *ᵥ x1row c p.1.1 env) p.2)
      (fun p => (repD c.in2 α β γ *ᵥ x2row c p.1.1 env) p.2))

theorem rotAll_x1 (c : Cfg) {b : ℕ} (hb : b < c.B) (α β γ : ℝ) (env : ℕ → ℝ) (i : Fin (totalDim c.in1)) :
    rotAll c α β γ env (b * totalDim c.in1 + i.1) = (repD c.in1 α β γ *ᵥ x1row c b env) i :=
  Poly.envUpd_idx env (allIdx_injective c) _ (Sum.inl (⟨b, hb⟩, i))

theorem rotAll_x2 (c : Cfg) {b : ℕ} (hb : b < c.B) (α β γ : ℝ) (env : ℕ → ℝ) (j : Fin (totalDim c.in2)) :
    rotAll c α β γ env (c.B * totalDim c.in1 + b * totalDim c.in2 + j.1)
      = (repD c.in2 α β γ *ᵥ x2row c b env) j :=
  Poly.envUpd_idx env (allIdx_injective c) _ (Sum.inr (⟨b, hb⟩, j))

theorem rotAll_other (c : Cfg) (α β γ : ℝ) (env : ℕ → ℝ) {n : ℕ} (h : ∀ p, allIdx c p ≠ n) :
    rotAll c α β γ env n = env n :=
  Poly.envUpd_of_not_range env _ h

/-- `n` is an input variable (`x1` or `x2`) of a batch row other than `b` -/
def OtherRowVar (c : Cfg) (b n : ℕ) : Prop :=
  ∃ b', b' < c.B ∧ b' ≠ b ∧
    ((∃ i, i < totalDim c.in1 ∧ n = b' * totalDim c.in1 + i) ∨
     (∃ j, j < totalDim c.in2 ∧ n = c.B * totalDim c.in1 + b' * totalDim c.in2 + j))

/-- no batch mixing: output row `b` does not depend on the inputs of the other rows -/
def RowLocal (c : Cfg) (polys : List Poly) : Prop :=
  ∀ b < c.B, ∀ k < totalDim c.out, ∀ env env' : ℕ → ℝ, (∀ n, ¬ OtherRowVar c b n → env n = env' n) →
    Poly.eval env (outPoly c polys b k) = Poly.eval env' (outPoly c polys b k)

/-- **all rows rotated simultaneously**, for programs without batch mixing -/
theorem equivariant_all {c : Cfg} {polys : List Poly} (h0 : equivCheckGen c polys 0 = true)
    (h1 : equivCheckGen c polys 1 = true) (hloc : RowLocal c polys) {b : ℕ} (hb : b < c.B) (α β γ : ℝ)
    (env : ℕ → ℝ) (k : Fin (totalDim c.out)) :
    Poly.eval (rotAll c α β γ env) (outPoly c polys b k.1)
      = (repD c.out α β γ *ᵥ fun k' : Fin (totalDim c.out) => Poly.eval env (outPoly c polys b k'.1)) k := by
  rw [← equivariant_row h0 h1 hb]
  apply hloc b hb k.1 k.2
  intro n hn
  by_cases hr : ∃ p, allIdx c p = n
  · obtain ⟨p, rfl⟩ := hr
    rcases p with ⟨⟨b', hb'⟩, i⟩ | ⟨⟨b', hb'⟩, j⟩
    · by_cases hbb : b' = b
      · subst hbb
        show rotAll c α β γ env (b' * totalDim c.in1 + i.1) = rotRow c b' α β γ env (b' * totalDim c.in1 + i.1)
        rw [rotAll_x1 c hb', rotRow_x1 c hb']
      · exact absurd ⟨b', hb', hbb, Or.inl ⟨i.1, i.2, rfl⟩⟩ hn
    · by_cases hbb : b' = b
      · subst hbb
        show rotAll c α β γ env (c.B * totalDim c.in1 + b' * totalDim c.in2 + j.1)
          = rotRow c b' α β γ env (c.B * totalDim c.in1 + b' * totalDim c.in2 + j.1)
        rw [rotAll_x2 c hb', rotRow_x2 c hb']
      · exact absurd ⟨b', hb', hbb, Or.inr ⟨j.1, j.2, rfl⟩⟩ hn
  · have hall : ∀ p, allIdx c p ≠ n := fun p e => hr ⟨p, e⟩
    rw [rotAll_other c α β γ env hall, rotRow_other]
    intro i e
    rcases i with i | j
    · exact hall (Sum.inl (⟨b, hb⟩, i)) e
    · exact hall (Sum.inr (⟨b, hb⟩, j)) e


/-! ### `classify` on the flat variable numbering -/

theorem classify_x1_eq (c : Cfg) {b i : ℕ} (hb : b < c.B) (hi : i < totalDim c.in1) :
    classify c (b * totalDim c.in1 + i) = .x1 b i := by
  simp only [classify, flat_lt hb hi, if_true, flat_div hi, flat_mod hi]

theorem classify_x2_eq (c : Cfg) {b j : ℕ} (hb : b < c.B) (hj : j < totalDim c.in2) :
    classify c (c.B * totalDim c.in1 + b * totalDim c.in2 + j) = .x2 b j := by
  have h1 : ¬ (c.B * totalDim c.in1 + b * totalDim c.in2 + j < c.B * totalDim c.in1) := by omega
  have h2 : c.B * totalDim c.in1 + b * totalDim c.in2 + j < c.B * totalDim c.in1 + c.B * totalDim c.in2 := by
    have := flat_lt hb hj; omega
  have h3 : c.B * totalDim c.in1 + b * totalDim c.in2 + j - c.B * totalDim c.in1 = b * totalDim c.in2 + j := by
    omega
  simp only [classify, h1, h2, if_true, if_false, h3, flat_div hj, flat_mod hj]

theorem classify_ge (c : Cfg) {n : ℕ} (h : c.B * totalDim c.in1 + c.B * totalDim c.in2 ≤ n) :
    (∃ b m, classify c n = .w b m) ∨ classify c n = .other := by
  have h1 : ¬ (n < c.B * totalDim c.in1) := by omega
  have h2 : ¬ (n < c.B * totalDim c.in1 + c.B * totalDim c.in2) := by omega
  simp only [classify, h1, h2, if_false]
  split_ifs <;> simp

/-! ### no batch mixing, from the introspection certificate (C19) -/

theorem monoPlaced_rows {c : Cfg} {b k : ℕ} {m : Mono} (h : monoPlaced c b k m = true) {v : ℕ} (hv : v ∈ m) :
    (∀ b' i, classify c v = .x1 b' i → b' = b) ∧ (∀ b' j, classify c v = .x2 b' j → b' = b) := by
  unfold monoPlaced at h
  simp only at h
  split at h
  next bx i by_ j hx hy =>
    simp only [Bool.and_eq_true, beq_iff_eq] at h
    obtain ⟨⟨⟨_, hbx⟩, hby⟩, _⟩ := h
    constructor
    · intro b' i' hc
      have hm : (b', i') ∈ [(bx, i)] := by
        rw [← hx]; exact List.mem_filterMap.2 ⟨classify c v, List.mem_map_of_mem hv, by rw [hc]⟩
      simp only [List.mem_singleton, Prod.mk.injEq] at hm
      rw [hm.1, hbx]
    · intro b' j' hc
      have hm : (b', j') ∈ [(by_, j)] := by
        rw [← hy]; exact List.mem_filterMap.2 ⟨classify c v, List.mem_map_of_mem hv, by rw [hc]⟩
      simp only [List.mem_singleton, Prod.mk.injEq] at hm
      rw [hm.1, hby]
  next => exact absurd h (by simp)

theorem mono_eval_congr (env env' : ℕ → ℝ) (m : Mono) (h : ∀ v ∈ m, env v = env' v) :
    Mono.eval env m = Mono.eval env' m := by
  induction m with
  | nil => rfl
  | cons v m ih =>
    rw [Mono.eval_cons, Mono.eval_cons, h v (List.mem_cons_self), ih fun w hw => h w (List.mem_cons_of_mem _ hw)]

theorem sumBy_congr_mem_eq {K C : Type} (f g : K → C → ℝ) (l : AList K C) (h : ∀ t ∈ l, f t.1 t.2 = g t.1 t.2) :
    AList.sumBy f l = AList.sumBy g l := by
  induction l with
  | nil => rfl
  | cons t l ih =>
    rw [AList.sumBy_cons, AList.sumBy_cons, h t (List.mem_cons_self), ih fun u hu => h u (List.mem_cons_of_mem _ hu)]

/-- the C19 certificate (`monoPlaced`: every monomial of output row `b` has its `x1` and `x2` variable in row `b`)
    excludes batch mixing -/
theorem rowLocal_of_introspection {c : Cfg} {polys : List Poly} {mask : List Bool} {numel : ℕ}
    {views : List (ℕ × ℕ × ℕ)} {dims : ℕ × ℕ × ℕ}
    (h : introspectionCheck c polys mask numel views dims = true) : RowLocal c polys := by
  unfold introspectionCheck at h
  simp only [Bool.and_eq_true, List.all_eq_true, List.mem_range, Bool.or_eq_true] at h
  obtain ⟨⟨_, hplaced⟩, _⟩ := h
  intro b hb k hk env env' hagree
  have hp := hplaced (b * totalDim c.out + k) (flat_lt hb hk)
  rw [flat_div hk, flat_mod hk] at hp
  unfold Poly.eval
  apply sumBy_congr_mem_eq
  intro t ht
  rcases hp t ht with hz | hpl
  · rw [Poly.termVal_isZero env _ _ hz, Poly.termVal_isZero env' _ _ hz]
  · unfold Poly.termVal
    rw [mono_eval_congr env env' t.1]
    intro v hv
    apply hagree
    rintro ⟨b', hb', hne, ⟨i, hi, rfl⟩ | ⟨j, hj, rfl⟩⟩
    · exact hne ((monoPlaced_rows hpl hv).1 b' i (classify_x1_eq c hb' hi))
    · exact hne ((monoPlaced_rows hpl hv).2 b' j (classify_x2_eq c hb' hj))

/-! ### inversion -/

/-- variable `n` belongs to an input block of odd parity -/
def oddVar (c : Cfg) (n : ℕ) : Bool :=
  match classify c n with
  | .x1 _ i => c.par1.getD (locate c.in1 i).1 false
  | .x2 _ j => c.par2.getD (locate c.in2 j).1 false
  | _ => false

/-- the environment after the inversion `x ↦ -x` of space: every component of an odd block of `x1`, `x2`
    (all batch rows) changes sign; even blocks and weights are untouched -/
def flipEnv (c : Cfg) (env : ℕ → ℝ) : ℕ → ℝ := fun n => if oddVar c n then - env n else env n

theorem flipEnv_x1 (c : Cfg) {b i : ℕ} (hb : b < c.B) (hi : i < totalDim c.in1) (env : ℕ → ℝ) :
    flipEnv c env (b * totalDim c.in1 + i)
      = if c.par1.getD (locate c.in1 i).1 false then - env (b * totalDim c.in1 + i)
        else env (b * totalDim c.in1 + i) := by
  simp only [flipEnv, oddVar, classify_x1_eq c hb hi]

theorem flipEnv_x2 (c : Cfg) {b j : ℕ} (hb : b < c.B) (hj : j < totalDim c.in2) (env : ℕ → ℝ) :
    flipEnv c env (c.B * totalDim c.in1 + b * totalDim c.in2 + j)
      = if c.par2.getD (locate c.in2 j).1 false then - env (c.B * totalDim c.in1 + b * totalDim c.in2 + j)
        else env (c.B * totalDim c.in1 + b * totalDim c.in2 + j) := by
  simp only [flipEnv, oddVar, classify_x2_eq c hb hj]

theorem flipEnv_weights (c : Cfg) {n : ℕ} (h : c.B * totalDim c.in1 + c.B * totalDim c.in2 ≤ n) (env : ℕ → ℝ) :
    flipEnv c env n = env n := by
  rcases classify_ge c h with ⟨b, m, hc⟩ | hc <;> simp [flipEnv, oddVar, hc]

theorem parity_fold (c : Cfg) (env : ℕ → ℝ) (f : Bool → VarKind → Bool)
    (hf : ∀ acc v, f acc (classify c v) = (acc != oddVar c v)) (m : Mono) (acc : Bool) :
    (if (m.map (classify c)).foldl f acc then (-1 : ℝ) else 1) * Mono.eval env m
      = (if acc then (-1 : ℝ) else 1) * Mono.eval (flipEnv c env) m := by
  induction m generalizing acc with
  | nil => simp
  | cons v m ih =>
    simp only [List.map_cons, List.foldl_cons, Mono.eval_cons]
    have := ih (f acc (classify c v))
    rw [hf] at this
    rw [hf]
    calc (if List.foldl f (acc != oddVar c v) (m.map (classify c)) then (-1 : ℝ) else 1) * (env v * Mono.eval env m)
        = env v * ((if List.foldl f (acc != oddVar c v) (m.map (classify c)) then (-1 : ℝ) else 1)
            * Mono.eval env m) := by ring
      _ = env v * ((if (acc != oddVar c v) then (-1 : ℝ) else 1) * Mono.eval (flipEnv c env) m) := by rw [this]
      _ = _ := by
        unfold flipEnv
        cases acc <;> cases oddVar c v <;> simp

theorem parity_fold' (c : Cfg) (env : ℕ → ℝ) (f : Bool → VarKind → Bool) (m : Mono) (P : Bool)
    (hfold : (m.map (classify c)).foldl f false = P)
    (hf : ∀ acc v, f acc (classify c v) = (acc != oddVar c v)) :
    Mono.eval (flipEnv c env) m = (if P then (-1 : ℝ) else 1) * Mono.eval env m := by
  have := parity_fold c env f hf m false
  rw [hfold] at this
  simpa using this.symm

/-- **meaning of `parityCheck`**: inversion of all inputs multiplies output component `k` by the parity of its block -/
theorem parity_spec {c : Cfg} {polys : List Poly} (h : parityCheck c polys = true) {b k : ℕ} (hb : b < c.B)
    (hk : k < totalDim c.out) (env : ℕ → ℝ) :
    Poly.eval (flipEnv c env) (outPoly c polys b k)
      = (if c.parO.getD (locate c.out k).1 false then (-1 : ℝ) else 1) * Poly.eval env (outPoly c polys b k) := by
  unfold parityCheck at h
  simp only [List.all_eq_true, List.mem_range, Bool.or_eq_true, beq_iff_eq] at h
  have hp := h (b * totalDim c.out + k) (flat_lt hb hk)
  rw [flat_mod hk] at hp
  unfold Poly.eval
  rw [← AList.sumBy_mul_left]
  apply sumBy_congr_mem_eq
  intro t ht
  rcases hp t ht with hz | hpar
  · rw [Poly.termVal_isZero _ _ _ hz, Poly.termVal_isZero _ _ _ hz, mul_zero]
  · have := parity_fold' c env _ t.1 _ hpar (fun acc v => by unfold oddVar; cases classify c v <;> simp)
    unfold Poly.termVal
    rw [this]; ring


/-! ### `locate` finds the block of a flat position -/

theorem totalDim_cons (e : ℕ × ℕ) (l : List (ℕ × ℕ)) : totalDim (e :: l) = dimOf e + totalDim l := by
  simp [totalDim_eq_sum]

theorem locate_go (r' : ℕ) : ∀ (l : List (ℕ × ℕ)) (i off e : ℕ), e < l.length → r' < dimOf (l.getD e (0, 0)) →
    locate.go (off + totalDim (l.take e) + r') l i off = (i + e, r')
  | [], _, _, _, he, _ => by simp at he
  | h :: t, i, off, 0, _, hr => by
    simp only [List.getD_cons_zero] at hr
    have hlt : off + totalDim (List.take 0 (h :: t)) + r' < off + dimOf h := by
      simp [totalDim]; exact hr
    rw [locate.go, if_pos hlt]
    simp [totalDim]
  | h :: t, i, off, e + 1, he, hr => by
    simp only [List.getD_cons_succ] at hr
    have hnlt : ¬ (off + totalDim (List.take (e + 1) (h :: t)) + r' < off + dimOf h) := by
      rw [List.take_succ_cons, totalDim_cons]; omega
    rw [locate.go, if_neg hnlt]
    have := locate_go r' t (i + 1) (off + dimOf h) e (by simpa using he) hr
    rw [List.take_succ_cons, totalDim_cons]
    rw [show off + (dimOf h + totalDim (List.take e t)) + r' = off + dimOf h + totalDim (List.take e t) + r' by omega,
      this]
    congr 1; omega

/-- position `r` inside block `e` of a layout is located in block `e` -/
theorem locate_offset (irr : List (ℕ × ℕ)) {e r : ℕ} (he : e < irr.length) (hr : r < dimOf (irr.getD e (0, 0))) :
    locate irr (offsetOf irr e + r) = (e, r) := by
  have := locate_go r irr 0 0 e he hr
  simpa [locate, offsetOf] using this

/-! ### the inversion as a representation -/

/-- sign by which the inversion acts on component `k` of a layout `irr` whose blocks have parities `par` -/
def parSign (irr : List (ℕ × ℕ)) (par : List Bool) (k : ℕ) : ℝ :=
  if par.getD (locate irr k).1 false then -1 else 1

/-- representation matrix of the inversion: `p·1` on every block of parity `p` -/
def invD (irr : List (ℕ × ℕ)) (par : List Bool) : Matrix (Fin (totalDim irr)) (Fin (totalDim irr)) ℝ :=
  Matrix.diagonal fun k => parSign irr par k.1

/-- the environment in which every batch row of `x1`, `x2` is acted on by the inversion; weights untouched -/
noncomputable def invAll (c : Cfg) (env : ℕ → ℝ) : ℕ → ℝ :=
  Poly.envUpd env (allIdx c)
    (Sum.elim (fun p => (invD c.in1 c.par1 *ᵥ x1row c p.1.1 env) p.2)
      (fun p => (invD c.in2 c.par2 *ᵥ x2row c p.1.1 env) p.2))

theorem allIdx_range_or_ge (c : Cfg) (n : ℕ) :
    (∃ p, allIdx c p = n) ∨ c.B * totalDim c.in1 + c.B * totalDim c.in2 ≤ n := by
  by_cases h1 : n < c.B * totalDim c.in1
  · left
    have hd : 0 < totalDim c.in1 := by
      rcases Nat.eq_zero_or_pos (totalDim c.in1) with h0 | h0
      · rw [h0] at h1; simp at h1
      · exact h0
    have hb : n / totalDim c.in1 < c.B := (Nat.div_lt_iff_lt_mul hd).2 h1
    refine ⟨Sum.inl (⟨n / totalDim c.in1, hb⟩, ⟨n % totalDim c.in1, Nat.mod_lt _ hd⟩), ?_⟩
    simp only [allIdx, Sum.elim_inl]
    rw [Nat.mul_comm]; exact Nat.div_add_mod n _
  · by_cases h2 : n < c.B * totalDim c.in1 + c.B * totalDim c.in2
    · left
      have h2' : n - c.B * totalDim c.in1 < c.B * totalDim c.in2 := by omega
      have hd : 0 < totalDim c.in2 := by
        rcases Nat.eq_zero_or_pos (totalDim c.in2) with h0 | h0
        · rw [h0] at h2'; simp at h2'
        · exact h0
      have hb : (n - c.B * totalDim c.in1) / totalDim c.in2 < c.B := (Nat.div_lt_iff_lt_mul hd).2 h2'
      refine ⟨Sum.inr (⟨(n - c.B * totalDim c.in1) / totalDim c.in2, hb⟩,
        ⟨(n - c.B * totalDim c.in1) % totalDim c.in2, Nat.mod_lt _ hd⟩), ?_⟩
      simp only [allIdx, Sum.elim_inr]
      have := Nat.div_add_mod (n - c.B * totalDim c.in1) (totalDim c.in2)
      rw [Nat.mul_comm] at this
      omega
    · right; omega

/-- `flipEnv` (the sign flips `parityCheck` talks about) is the action of the inversion on all rows -/
theorem flipEnv_eq_invAll (c : Cfg) (env : ℕ → ℝ) : flipEnv c env = invAll c env := by
  funext n
  rcases allIdx_range_or_ge c n with ⟨p, rfl⟩ | hge
  · rw [invAll, Poly.envUpd_idx env (allIdx_injective c)]
    rcases p with ⟨b, i⟩ | ⟨b, j⟩
    · simp only [allIdx, Sum.elim_inl, flipEnv_x1 c b.2 i.2, invD, Matrix.mulVec_diagonal, parSign, x1row]
      split_ifs <;> simp
    · simp only [allIdx, Sum.elim_inr, flipEnv_x2 c b.2 j.2, invD, Matrix.mulVec_diagonal, parSign, x2row]
      split_ifs <;> simp
  · rw [flipEnv_weights c hge, invAll, Poly.envUpd_of_not_range]
    intro p e
    rcases p with ⟨b, i⟩ | ⟨b, j⟩ <;> simp only [allIdx, Sum.elim_inl, Sum.elim_inr] at e
    · have := flat_lt b.2 i.2; omega
    · have := flat_lt b.2 j.2; omega

/-- **inversion equivariance** -/
theorem equivariant_inv {c : Cfg} {polys : List Poly} (h : parityCheck c polys = true) {b : ℕ} (hb : b < c.B)
    (env : ℕ → ℝ) (k : Fin (totalDim c.out)) :
    Poly.eval (invAll c env) (outPoly c polys b k.1)
      = (invD c.out c.parO *ᵥ fun k' : Fin (totalDim c.out) => Poly.eval env (outPoly c polys b k'.1)) k := by
  rw [← flipEnv_eq_invAll, parity_spec h hb k.2, invD, Matrix.mulVec_diagonal, parSign]

/-! ### reading the output of a program -/

theorem getD_interp (env : ℕ → ℝ) (prog : List Node) (t : ℕ) :
    (interp (K := ℝ) env prog).getD t 0 = Poly.eval env ((interpPoly prog).getD t []) := by
  rw [← interp_natural env prog]
  have : (0 : ℝ) = Poly.eval env [] := rfl
  rw [this]
  generalize interpPoly prog = l
  induction l generalizing t with
  | nil => simp
  | cons h tl ih => cases t with
    | zero => simp
    | succ t => simpa using ih t

end E3nnVerif.Model.TP
