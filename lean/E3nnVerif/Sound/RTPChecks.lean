import E3nnVerif.Sound.WignerChecks
import E3nnVerif.Sound.Tensor
import E3nnVerif.Theory.KronRep
import E3nnVerif.Model.RTPChecks
/-
What the kernel-decided checks of `Model/RTPChecks.lean` mean over ℝ.

`den L t : Idx L → ℝ` is the real tensor denoted by a nested exact tensor (`Idx L = IdxL irDim L`, the multi-indices of
the index list `L` in row-major nesting); `Qreal c` is the real matrix `change_of_basis.flatten(1)` of a configuration.
Every `…_of_check` theorem turns one Bool-valued check into the identity it decides.
-/
namespace E3nnVerif.Model.RTP
open E3nnVerif.Exact E3nnVerif.Model.Wigner E3nnVerif.ReduceModel E3nnVerif.Theory
open Matrix
open scoped BigOperators

abbrev Idx (L : List (List Ir)) : Type := IdxL irDim L

/-! ### basic combinators -/

theorem eval_of_isNil {v : SqrtQ} (h : isNil v = true) : v.eval = 0 := by
  cases v with
  | nil => rfl
  | cons _ _ => simp [isNil] at h

theorem allRange_spec {n : ℕ} {p : ℕ → Bool} (h : allRange n p = true) : ∀ i < n, p i = true := by
  intro i hi
  simp only [allRange, List.all_eq_true, List.mem_range] at h
  exact h i hi

theorem allIdxL_spec : ∀ {L : List (List Ir)} {p : List ℕ → Bool}, allIdxL L p = true → ∀ x : Idx L, p x.toList = true
  | [], _, h, _ => h
  | s :: L, p, h, (k, t) => by
    have h1 := allRange_spec h k.val k.isLt
    exact allIdxL_spec (L := L) h1 t

theorem getD_map_range {α : Type} (n : ℕ) (f : ℕ → α) (k : ℕ) (d : α) (h : k < n) :
    ((List.range n).map f).getD k d = f k := by
  rw [List.getD_eq_getElem?_getD, List.getElem?_map, List.getElem?_range h]
  rfl

theorem allIdxTail_spec : ∀ {L : List (List Ir)} {p : List ℕ → Bool},
    allRange (firstDim L) (fun k => allIdxTail L k p) = true → ∀ x : Idx L, p x.toList = true
  | [], _, h, _ => allRange_spec h 0 (by simp [firstDim])
  | s :: L, p, h, (k, t) => by
    have h1 := allRange_spec h k.val k.isLt
    exact allIdxL_spec (L := L) h1 t

theorem exists_of_validIdxL : ∀ {L : List (List Ir)} {l : List ℕ}, validIdxL L l = true → ∃ y : Idx L, y.toList = l
  | [], [], _ => ⟨(), rfl⟩
  | [], _ :: _, h => by simp [validIdxL] at h
  | _ :: _, [], h => by simp [validIdxL] at h
  | s :: L, x :: xs, h => by
    simp only [validIdxL, Bool.and_eq_true, Nat.blt_eq] at h
    obtain ⟨y, hy⟩ := exists_of_validIdxL (L := L) h.2
    exact ⟨(⟨x, h.1⟩, y), by rw [IdxL.toList_cons, hy]⟩

/-! ### denotation of nested tensors -/

/-- `t[x]` for a typed multi-index -/
def tgetI : (L : List (List Ir)) → Tens L → Idx L → SqrtQ
  | [], v, _ => v
  | _ :: L, t, (k, x) => tgetI L (t.getD k.val (tz L)) x

theorem tget_toList : ∀ (L : List (List Ir)) (t : Tens L) (x : Idx L), tget L t x.toList = tgetI L t x
  | [], _, _ => rfl
  | _ :: L, t, (k, x) => tget_toList L (t.getD k.val (tz L)) x

/-- the real tensor denoted by an exact nested tensor -/
noncomputable def den (L : List (List Ir)) (t : Tens L) : Idx L → ℝ := fun x => (tgetI L t x).eval

theorem den_nil (v : Tens []) (x : Idx []) : den [] v x = SqrtQ.eval (v : SqrtQ) := rfl

theorem den_cons (s : List Ir) (L : List (List Ir)) (t : Tens (s :: L)) (k : Fin (irDim s)) (x : Idx L) :
    den (s :: L) t (k, x) = den L (List.getD (α := Tens L) t k.val (tz L)) x := rfl

theorem den_tz : ∀ (L : List (List Ir)) (x : Idx L), den L (tz L) x = 0
  | [], _ => rfl
  | s :: L, (k, x) => by
    rw [den_cons]
    show den L (List.getD (α := Tens L) [] k.val (tz L)) x = 0
    rw [List.getD_nil]
    exact den_tz L x

theorem den_tfull : ∀ (L : List (List Ir)) (x : Idx L), den L (tfull L) x = 0
  | [], _ => rfl
  | s :: L, (k, x) => by
    rw [den_cons]
    show den L (List.getD (α := Tens L) ((List.range (irDim s)).map fun _ => tfull L) k.val (tz L)) x = 0
    rw [getD_map_range _ _ _ _ k.isLt]
    exact den_tfull L x

theorem sum_idx_cons (s : List Ir) (L : List (List Ir)) (f : Idx (s :: L) → ℝ) :
    ∑ x : Idx (s :: L), f x = ∑ k : Fin (irDim s), ∑ x : Idx L, f (k, x) :=
  Fintype.sum_prod_type (f := f)

theorem sum_idx_nil (f : Idx [] → ℝ) : ∑ x : Idx [], f x = f () := by
  let f' : Unit → ℝ := f
  have : ∑ x : Unit, f' x = f' () := Fintype.sum_unique f'
  exact this

theorem eval_dot0 (a b : SqrtQ) :
    SqrtQ.eval (bif isNil a || isNil b then [] else SqrtQ.mul a b) = a.eval * b.eval := by
  cases ha : isNil a
  · cases hb : isNil b
    · simp
    · simp [eval_of_isNil hb]
  · simp [eval_of_isNil ha]

theorem eval_axpy0 (v a acc : SqrtQ) :
    SqrtQ.eval (bif isNil a then acc else SqrtQ.add acc (SqrtQ.mul v a)) = acc.eval + v.eval * a.eval := by
  cases ha : isNil a
  · simp
  · simp [eval_of_isNil ha]

theorem eval_tdot : ∀ (L : List (List Ir)) (a b : Tens L), (tdot L a b).eval = ∑ x : Idx L, den L a x * den L b x
  | [], a, b => by
    rw [sum_idx_nil]
    exact eval_dot0 a b
  | s :: L, a, b => by
    rw [sum_idx_cons]
    show SqrtQ.eval (dotRange (irDim s) fun k => tdot L (List.getD (α := Tens L) a k (tz L)) (List.getD (α := Tens L) b k (tz L))) = _
    rw [eval_dotRange, ← sum_fin_eq_range]
    apply Finset.sum_congr rfl
    intro k _
    rw [eval_tdot L]
    rfl

theorem den_taxpy (v : SqrtQ) : ∀ (L : List (List Ir)) (a acc : Tens L) (x : Idx L),
    den L (taxpy v L a acc) x = den L acc x + v.eval * den L a x
  | [], a, acc, _ => eval_axpy0 v a acc
  | s :: L, a, acc, (k, x) => by
    rw [den_cons, den_cons, den_cons]
    show den L (List.getD (α := Tens L) ((List.range (irDim s)).map fun k =>
      taxpy v L (List.getD (α := Tens L) a k (tz L)) (List.getD (α := Tens L) acc k (tz L))) k.val (tz L)) x = _
    rw [getD_map_range _ _ _ _ k.isLt]
    exact den_taxpy v L _ _ x

/-- folding `acc + coef i · src i` over a list (terms with a syntactically zero test value skipped) -/
theorem den_foldl_axpy (L : List (List Ir)) (tst coef : ℕ → SqrtQ) (src : ℕ → Tens L)
    (h0 : ∀ i, isNil (tst i) = true → (coef i).eval = 0) (x : Idx L) :
    ∀ (l : List ℕ) (init : Tens L),
      den L (l.foldl (fun acc i => bif isNil (tst i) then acc else taxpy (coef i) L (src i) acc) init) x
        = den L init x + (l.map fun i => (coef i).eval * den L (src i) x).sum
  | [], init => by simp
  | i :: l, init => by
    rw [List.foldl_cons, den_foldl_axpy L tst coef src h0 x l, List.map_cons, List.sum_cons]
    cases hz : isNil (tst i)
    · simp only [cond_false, den_taxpy]; ring
    · simp only [cond_true, h0 i hz]; ring

theorem den_tupd_same (f : SqrtQ → SqrtQ) (g : ℝ → ℝ) (hf : ∀ e, (f e).eval = g e.eval) :
    ∀ (L : List (List Ir)) (t : Tens L) (y : Idx L), den L (tupd f L t y.toList) y = g (den L t y)
  | [], t, _ => hf t
  | s :: L, t, (j, y) => by
    show den L (List.getD (α := Tens L) ((List.range (irDim s)).map fun i =>
      bif Nat.beq i j.val then tupd f L (List.getD (α := Tens L) t i (tz L)) y.toList
      else List.getD (α := Tens L) t i (tz L)) j.val (tz L)) y = _
    rw [getD_map_range _ _ _ _ j.isLt]
    simp only [Nat.beq_refl, cond_true]
    exact den_tupd_same f g hf L _ y

theorem den_tupd_ne (f : SqrtQ → SqrtQ) :
    ∀ (L : List (List Ir)) (t : Tens L) (y x : Idx L), x ≠ y → den L (tupd f L t y.toList) x = den L t x
  | [], _, _, _, h => absurd rfl h
  | s :: L, t, (j, y), (k, x), h => by
    show den L (List.getD (α := Tens L) ((List.range (irDim s)).map fun i =>
      bif Nat.beq i j.val then tupd f L (List.getD (α := Tens L) t i (tz L)) y.toList
      else List.getD (α := Tens L) t i (tz L)) k.val (tz L)) x = _
    rw [getD_map_range _ _ _ _ k.isLt]
    by_cases hkj : k = j
    · subst hkj
      simp only [Nat.beq_refl, cond_true]
      have hxy : x ≠ y := fun e => h (by rw [e])
      exact den_tupd_ne f L _ y x hxy
    · have hne : Nat.beq k.val j.val = false := by
        cases h : Nat.beq k.val j.val
        · rfl
        · exact absurd (Fin.ext (Nat.eq_of_beq_eq_true h)) hkj
      simp only [hne, cond_false]
      rfl

theorem teq0 (a b : SqrtQ) (h : SqrtQ.isZero (SqrtQ.sub a b) = true) : a.eval = b.eval := by
  have := SqrtQ.eval_of_isZero h
  rw [SqrtQ.eval_sub] at this
  linarith

theorem teq_spec : ∀ (L : List (List Ir)) (a b : Tens L), teq L a b = true → ∀ x : Idx L, den L a x = den L b x
  | [], a, b, h, _ => teq0 a b h
  | s :: L, a, b, h, (k, x) => by
    have h1 := allRange_spec h k.val k.isLt
    exact teq_spec L _ _ h1 x

theorem tallZero_spec : ∀ (L : List (List Ir)) (a : Tens L), tallZero L a = true → ∀ x : Idx L, den L a x = 0
  | [], a, h, _ => eval_of_isNil (v := a) h
  | s :: L, a, h, (k, x) => by
    have h1 := allRange_spec h k.val k.isLt
    exact tallZero_spec L _ h1 x

/-! ### generators of an `Irreps` and the Kronecker-sum action -/

theorem get_tabulate2 (n m : ℕ) (f : ℕ → ℕ → SqrtQ) (r c : ℕ) (hr : r < n) (hc : c < m) :
    (tabulate2 n m f).get r c = f r c := by
  unfold tabulate2 Mat.get
  rw [getD_map_range _ _ _ _ hr, getD_map_range _ _ _ _ hc]

/-- `direct_sum(so3_generators(l)[a] for l in irreps)` over ℝ -/
noncomputable def genBD (a : ℕ) : MatFam irDim := fun s => (bdMat a s).toReal (irDim s) (irDim s)

theorem genBD_apply (a : ℕ) (s : List Ir) (r c : Fin (irDim s)) :
    genBD a s r c = ((bdMat a s).get r.val c.val).eval := rfl

theorem den_tks (a : ℕ) : ∀ (L : List (List Ir)) (t : Tens L) (x : Idx L),
    den L (tks a L t) x = ∑ y : Idx L, den L t y * kronSumL (genBD a) L y x
  | [], _, _ => by
    rw [sum_idx_nil]
    show SqrtQ.eval ([] : SqrtQ) = _ * (0 : Matrix Unit Unit ℝ) () ()
    simp
  | s :: L, t, (k, x) => by
    show den L (List.getD (α := Tens L) ((List.range (irDim s)).map fun x1 =>
      (List.range (irDim s)).foldl
        (fun acc y => bif isNil ((bdMat a s).get y x1) then acc
          else taxpy ((bdMat a s).get y x1) L (List.getD (α := Tens L) t y (tz L)) acc)
        (tks a L (List.getD (α := Tens L) t x1 (tz L)))) k.val (tz L)) x
      = ∑ p : Fin (irDim s) × Idx L, den (s :: L) t p * kronSum2 (genBD a s) (kronSumL (genBD a) L) p (k, x)
    rw [getD_map_range _ _ _ _ k.isLt,
      den_foldl_axpy L (fun y => (bdMat a s).get y k.val) (fun y => (bdMat a s).get y k.val)
        (fun y => List.getD (α := Tens L) t y (tz L)) (fun i h => eval_of_isNil h) x,
      den_tks a L, sum_map_range, ← sum_fin_eq_range]
    refine Eq.trans ?_ (sum_mul_kronSum2 (genBD a s) (kronSumL (genBD a) L) (den (s :: L) t) k x).symm
    rw [add_comm]
    congr 1
    apply Finset.sum_congr rfl
    intro y _
    rw [mul_comm]
    rfl

/-! ### the configuration-level checks -/

section checks
variable {c : Cfg}

/-- the real matrix `change_of_basis.flatten(1)` : rows `z < irreps_out.dim`, columns = multi-indices -/
noncomputable def Qreal (c : Cfg) : Matrix (Fin c.D) (Idx c.irIn) ℝ := fun z x => den c.irIn (c.row z.val) x

theorem Qreal_apply (c : Cfg) (z : Fin c.D) (x : Idx c.irIn) :
    Qreal c z x = (tget c.irIn (c.row z.val) x.toList).eval := by
  rw [tget_toList]; rfl

theorem group_of_check (hg : groupCheck c = true) :
    c.group ≠ [] ∧ (∀ a ∈ c.group, a.1 = 1 ∨ a.1 = -1) ∧ (∀ t ∈ c.terms, t ∈ c.group) ∧
      ∀ a ∈ c.group, ∀ x : Idx c.irIn, ∃ y : Idx c.irIn, y.toList = act x.toList a.2 := by
  simp only [groupCheck, Bool.and_eq_true, Bool.not_eq_true', List.all_eq_true, Bool.or_eq_true, beq_iff_eq,
    List.contains_iff_mem] at hg
  obtain ⟨⟨⟨h1, h2⟩, h3⟩, h4⟩ := hg
  refine ⟨?_, h2, h3, ?_⟩
  · intro h; rw [h] at h1; simp at h1
  · intro a ha x
    have := allIdxL_spec h4 x
    simp only [List.all_eq_true] at this
    exact exists_of_validIdxL (this a ha)

theorem eval_delta (z z' : ℕ) : (if z == z' then SqrtQ.one else ([] : SqrtQ)).eval = if z = z' then (1 : ℝ) else 0 := by
  by_cases h : z = z' <;> simp [h]

/-- (i) the rows are orthonormal -/
theorem ortho_of_check (h : orthoCheck c = true) : Qreal c * (Qreal c)ᵀ = 1 := by
  have key : ∀ z z' : ℕ, z < c.D → z' < c.D → z ≤ z' →
      ∑ x : Idx c.irIn, den c.irIn (c.row z) x * den c.irIn (c.row z') x = if z = z' then 1 else 0 := by
    intro z z' hz hz' hle
    have := allRange_spec (allRange_spec h z hz) z' hz'
    simp only [Bool.or_eq_true, Nat.blt_eq] at this
    rcases this with h1 | h1
    · omega
    · have := SqrtQ.eval_of_isZero h1
      rw [SqrtQ.eval_hsub, eval_tdot, eval_delta] at this
      linarith
  ext z z'
  rw [Matrix.mul_apply, Matrix.one_apply]
  simp only [Matrix.transpose_apply, Qreal]
  rcases Nat.le_total z.val z'.val with hle | hle
  · rw [key z.val z'.val z.isLt z'.isLt hle]
    simp [Fin.ext_iff]
  · have := key z'.val z.val z'.isLt z.isLt hle
    rw [show (∑ x : Idx c.irIn, den c.irIn (c.row z.val) x * den c.irIn (c.row z'.val) x)
        = ∑ x : Idx c.irIn, den c.irIn (c.row z'.val) x * den c.irIn (c.row z.val) x from
      Finset.sum_congr rfl (fun _ _ => mul_comm _ _), this]
    simp [Fin.ext_iff, eq_comm]

theorem eval_sgnMul (s : ℤ) (v : SqrtQ) (hs : s = 1 ∨ s = -1) : (sgnMul s v).eval = (s : ℝ) * v.eval := by
  rcases hs with rfl | rfl <;> simp [sgnMul]

/-- (ii) every row satisfies every formula of the group -/
theorem sym_of_check (hg : groupCheck c = true) (h : symCheck c = true) :
    ∀ a ∈ c.group, ∀ (z : Fin c.D) (x y : Idx c.irIn), y.toList = act x.toList a.2 →
      Qreal c z x = (a.1 : ℝ) * Qreal c z y := by
  intro a ha z x y hy
  have h1 := allRange_spec h z.val z.isLt
  have h2 := allIdxL_spec h1 x
  simp only [List.all_eq_true] at h2
  have h3 := SqrtQ.eval_of_isZero (h2 a ha)
  rw [SqrtQ.eval_hsub, eval_sgnMul _ _ ((group_of_check hg).2.1 a ha), ← hy] at h3
  rw [Qreal_apply, Qreal_apply]
  linarith

/-- numerator of the group average: `Σ_{(s,p) ∈ G, x∘p = y} s` -/
noncomputable def pavgNum (G : List SPerm) (x y : List ℕ) : ℝ :=
  (G.map fun a => if act x a.2 = y then (a.1 : ℝ) else 0).sum

/-- the group average `P = (1/|G|) Σ_{(s,p)} s · Π_p` acting on tensors: `(P t)[x] = (1/|G|) Σ s · t[x∘p]` -/
noncomputable def Pavg (c : Cfg) : Matrix (Idx c.irIn) (Idx c.irIn) ℝ :=
  fun x y => pavgNum c.group x.toList y.toList / (c.group.length : ℝ)

theorem den_subTargets (L : List (List Ir)) (x : List ℕ) :
    ∀ (G : List SPerm) (t : Tens L), (∀ a ∈ G, ∃ y : Idx L, y.toList = act x a.2) →
      ∀ y : Idx L, den L (subTargets L x G t) y = den L t y - pavgNum G x y.toList
  | [], t, _, y => by simp [subTargets, pavgNum]
  | a :: G, t, hv, y => by
    obtain ⟨ya, hya⟩ := hv a (List.mem_cons_self ..)
    have ih := den_subTargets L x G (tupd (fun e => e - SqrtQ.ofInt a.1) L t (act x a.2))
      (fun b hb => hv b (List.mem_cons_of_mem _ hb)) y
    show den L (subTargets L x G (tupd (fun e => e - SqrtQ.ofInt a.1) L t (act x a.2))) y = _
    rw [ih, ← hya]
    have hpn : pavgNum (a :: G) x y.toList = (if ya.toList = y.toList then (a.1 : ℝ) else 0) + pavgNum G x y.toList := by
      simp [pavgNum, hya]
    rw [hpn]
    by_cases hy : y = ya
    · subst hy
      rw [den_tupd_same (fun e => e - SqrtQ.ofInt a.1) (fun r => r - (a.1 : ℝ)) (by intro e; simp)]
      simp; ring
    · rw [den_tupd_ne _ L t ya y hy, if_neg (fun e => hy (IdxL.toList_injective e).symm)]
      ring

theorem den_mRow (c : Cfg) (x y : Idx c.irIn) :
    den c.irIn (mRow c x.toList) y = (c.group.length : ℝ) * ∑ z : Fin c.D, Qreal c z x * Qreal c z y := by
  unfold mRow
  rw [den_foldl_axpy c.irIn (fun z => tget c.irIn (c.row z) x.toList)
      (fun z => SqrtQ.scale (Q.ofNat c.group.length) (tget c.irIn (c.row z) x.toList)) (fun z => c.row z)
      (fun i hi => by rw [SqrtQ.eval_scale, eval_of_isNil hi, mul_zero]) y,
    den_tfull, zero_add, sum_map_range, ← sum_fin_eq_range, Finset.mul_sum]
  apply Finset.sum_congr rfl
  intro z _
  rw [SqrtQ.eval_scale, Q.eval_ofNat, Qreal_apply]
  simp only [Qreal]
  ring

/-- (iii) `QᵀQ` is the group average -/
theorem compl_of_check (hg : groupCheck c = true) (h : complCheck c = true) : (Qreal c)ᵀ * Qreal c = Pavg c := by
  obtain ⟨hne, _, _, hval⟩ := group_of_check hg
  ext x y
  have h1 := tallZero_spec _ _ (allIdxTail_spec (p := fun x => tallZero c.irIn (subTargets c.irIn x c.group (mRow c x))) h x) y
  rw [den_subTargets c.irIn x.toList c.group _ (fun a ha => hval a ha x) y, den_mRow] at h1
  rw [Matrix.mul_apply]
  simp only [Matrix.transpose_apply, Pavg]
  have hpos : (c.group.length : ℝ) ≠ 0 := by
    have : c.group.length ≠ 0 := fun h0 => hne (List.length_eq_zero_iff.mp h0)
    exact_mod_cast this
  field_simp
  linarith

/-- tensors with the symmetries of the formula: `t[x] = s · t[x∘p]` for every `(s, p)` of the group -/
def IsSym (c : Cfg) (t : Idx c.irIn → ℝ) : Prop :=
  ∀ a ∈ c.group, ∀ x y : Idx c.irIn, y.toList = act x.toList a.2 → t x = (a.1 : ℝ) * t y

/-- the group average fixes every symmetric tensor -/
theorem pavg_mulVec_of_isSym (hg : groupCheck c = true) {t : Idx c.irIn → ℝ} (ht : IsSym c t) :
    Matrix.mulVec (Pavg c) t = t := by
  obtain ⟨hne, _, _, hval⟩ := group_of_check hg
  have key : ∀ (x : Idx c.irIn) (G : List SPerm), (∀ a ∈ G, a ∈ c.group) →
      ∑ y : Idx c.irIn, pavgNum G x.toList y.toList * t y = (G.length : ℝ) * t x := by
    intro x G
    induction G with
    | nil => intro _; simp [pavgNum]
    | cons a G ih =>
      intro hmem
      obtain ⟨ya, hya⟩ := hval a (hmem a (List.mem_cons_self ..)) x
      have hpn : ∀ y : Idx c.irIn, pavgNum (a :: G) x.toList y.toList
          = (if y = ya then (a.1 : ℝ) else 0) + pavgNum G x.toList y.toList := by
        intro y
        simp only [pavgNum, List.map_cons, List.sum_cons, ← hya]
        congr 1
        by_cases hy : y = ya
        · subst hy; simp
        · rw [if_neg hy, if_neg (fun e => hy (IdxL.toList_injective e).symm)]
      simp only [hpn, add_mul, Finset.sum_add_distrib]
      rw [ih (fun b hb => hmem b (List.mem_cons_of_mem _ hb))]
      have : ∑ y : Idx c.irIn, (if y = ya then (a.1 : ℝ) else 0) * t y = (a.1 : ℝ) * t ya := by
        rw [Finset.sum_eq_single ya]
        · simp
        · intro b _ hb; simp [hb]
        · intro h; exact absurd (Finset.mem_univ ya) h
      rw [this, ← ht a (hmem a (List.mem_cons_self ..)) x ya hya, List.length_cons]
      push_cast
      ring
  funext x
  have hpos : (c.group.length : ℝ) ≠ 0 := by
    have : c.group.length ≠ 0 := fun h0 => hne (List.length_eq_zero_iff.mp h0)
    exact_mod_cast this
  simp only [Matrix.mulVec, dotProduct, Pavg]
  have := key x c.group (fun a ha => ha)
  rw [show (∑ y : Idx c.irIn, pavgNum c.group x.toList y.toList / (c.group.length : ℝ) * t y)
      = (∑ y : Idx c.irIn, pavgNum c.group x.toList y.toList * t y) / (c.group.length : ℝ) by
    rw [Finset.sum_div]; apply Finset.sum_congr rfl; intro y _; ring, this]
  field_simp

/-- `direct_sum` of the code's so(3) generators of `irreps_out` -/
noncomputable def XoutR (c : Cfg) (a : ℕ) : Matrix (Fin c.D) (Fin c.D) ℝ := (bdMat a c.irOut).toReal c.D c.D

/-- (iv) generator-level intertwining: `X_out · Q = Q · (X ⊗ 1 ⊗ … + … + 1 ⊗ … ⊗ X)` -/
theorem inter_of_check {a : ℕ} (h : interCheck c a = true) :
    XoutR c a * Qreal c = Qreal c * kronSumL (genBD a) c.irIn := by
  ext z x
  have h1 := teq_spec _ _ _ (allRange_spec h z.val z.isLt) x
  rw [den_tks] at h1
  rw [Matrix.mul_apply, Matrix.mul_apply]
  simp only [Qreal]
  rw [← h1]
  unfold lhsRow
  rw [den_foldl_axpy c.irIn (fun z' => (bdMat a c.irOut).get z.val z') (fun z' => (bdMat a c.irOut).get z.val z')
      (fun z' => c.row z') (fun i hi => eval_of_isNil hi) x,
    den_tfull, zero_add, sum_map_range, ← sum_fin_eq_range]
  rfl

def sgnOf (b : Bool) : ℝ := if b then -1 else 1

theorem sgnOf_xor (a b : Bool) : sgnOf (xor a b) = sgnOf a * sgnOf b := by
  cases a <;> cases b <;> simp [sgnOf]

/-- the parity of each component of an `Irreps` as a sign -/
noncomputable def parBD (s : List Ir) : Fin (irDim s) → ℝ := fun k => sgnOf (parAt s k.val)

theorem prodL_parBD : ∀ (L : List (List Ir)) (x : Idx L), prodL parBD L x = sgnOf (parIdx L x.toList)
  | [], _ => by simp [prodL, parIdx, sgnOf]
  | s :: L, (k, x) => by
    rw [IdxL.toList_cons]
    show parBD s k * prodL parBD L x = sgnOf (xor (parAt s k.val) (parIdx L x.toList))
    rw [sgnOf_xor, prodL_parBD L x]
    rfl

/-- inversion on `irreps_out` -/
noncomputable def PoutR (c : Cfg) : Matrix (Fin c.D) (Fin c.D) ℝ :=
  Matrix.diagonal fun z : Fin c.D => sgnOf (parAt c.irOut z.val)

/-- (v) parity: inversion on the output = product of the inversions on the indices -/
theorem parity_of_check (h : parityCheck c = true) :
    PoutR c * Qreal c = Qreal c * kronProdL (fun s => Matrix.diagonal (parBD s)) c.irIn := by
  ext z x
  rw [kronProdL_diagonal, PoutR, Matrix.diagonal_mul, Matrix.mul_diagonal, prodL_parBD]
  have h1 := allIdxL_spec (allRange_spec h z.val z.isLt) x
  simp only [Bool.or_eq_true, beq_iff_eq] at h1
  rcases h1 with h1 | h1
  · have : Qreal c z x = 0 := by rw [Qreal_apply]; exact eval_of_isNil h1
    rw [this]; simp
  · show sgnOf (parAt c.irOut z.val) * Qreal c z x = Qreal c z x * sgnOf (parIdx c.irIn x.toList)
    rw [h1]; ring

end checks

/-! ### block structure of the direct-sum generators (general, no certificate needed) -/

theorem bdGet_block (a : ℕ) : ∀ (irs : List Ir) (o0 o l : ℕ), (o, l) ∈ blocksFrom o0 irs →
    o0 ≤ o ∧ o + (2 * l + 1) ≤ o0 + irDim irs ∧
    ∀ r c, c < 2 * l + 1 → bdGet a irs r (o - o0 + c)
      = if o - o0 ≤ r ∧ r < o - o0 + (2 * l + 1) then (so3Gen l a).get (r - (o - o0)) c else []
  | [], _, _, _, h => by simp [blocksFrom] at h
  | ir :: rest, o0, o, l, h => by
    simp only [blocksFrom, List.mem_cons, Prod.mk.injEq] at h
    rcases h with ⟨rfl, rfl⟩ | h
    · refine ⟨le_refl _, by simp only [irDim]; omega, ?_⟩
      intro r c hc
      simp only [Nat.sub_self, Nat.zero_add, Nat.zero_le, true_and, Nat.sub_zero]
      unfold bdGet
      simp only
      have hc' : Nat.blt c (2 * ir.1 + 1) = true := by rw [Nat.blt_eq]; exact hc
      rw [hc']
      by_cases hr : r < 2 * ir.1 + 1
      · have : Nat.blt r (2 * ir.1 + 1) = true := by rw [Nat.blt_eq]; exact hr
        rw [this, if_pos hr]; rfl
      · have : Nat.blt r (2 * ir.1 + 1) = false := by
          cases h : Nat.blt r (2 * ir.1 + 1)
          · rfl
          · rw [Nat.blt_eq] at h; exact absurd h hr
        rw [this, if_neg hr]; rfl
    · obtain ⟨h1, h2, h3⟩ := bdGet_block a rest (o0 + (2 * ir.1 + 1)) o l h
      refine ⟨by omega, by simp only [irDim]; omega, ?_⟩
      intro r c hc
      have hcol : o - o0 + c = (o - (o0 + (2 * ir.1 + 1)) + c) + (2 * ir.1 + 1) := by omega
      unfold bdGet
      simp only
      have hc' : Nat.blt (o - o0 + c) (2 * ir.1 + 1) = false := by
        cases h : Nat.blt (o - o0 + c) (2 * ir.1 + 1)
        · rfl
        · rw [Nat.blt_eq] at h; omega
      rw [hc']
      by_cases hr : r < 2 * ir.1 + 1
      · have : Nat.blt r (2 * ir.1 + 1) = true := by rw [Nat.blt_eq]; exact hr
        rw [this, if_neg (by omega)]; rfl
      · have : Nat.blt r (2 * ir.1 + 1) = false := by
          cases h : Nat.blt r (2 * ir.1 + 1)
          · rfl
          · rw [Nat.blt_eq] at h; exact absurd h hr
        rw [this]
        simp only [cond_false]
        rw [hcol, Nat.add_sub_cancel, h3 (r - (2 * ir.1 + 1)) c hc]
        by_cases hcond : o - o0 ≤ r ∧ r < o - o0 + (2 * l + 1)
        · rw [if_pos hcond, if_pos (by omega)]
          congr 1; omega
        · rw [if_neg hcond, if_neg (by omega)]

/-- inclusion of a block of width `w` at offset `o` into `ℝⁿ` -/
def blockIncl (n o w : ℕ) : Matrix (Fin n) (Fin w) ℝ := Matrix.of fun r c => if r.val = o + c.val then 1 else 0

theorem blockIncl_apply (n o w : ℕ) (r : Fin n) (c : Fin w) :
    blockIncl n o w r c = if r.val = o + c.val then 1 else 0 := rfl

/-- the direct-sum generator acts on block `(o, l)` as the code's `so3_generators(l)[a]` -/
theorem genBD_mul_blockIncl (a : ℕ) (irs : List Ir) (o l : ℕ) (h : (o, l) ∈ blocksFrom 0 irs) :
    genBD a irs * blockIncl (irDim irs) o (2 * l + 1)
      = blockIncl (irDim irs) o (2 * l + 1) * (so3Gen l a).toReal (2 * l + 1) (2 * l + 1) := by
  obtain ⟨_, hb, hget⟩ := bdGet_block a irs 0 o l h
  simp only [Nat.sub_zero, Nat.zero_add] at hb hget
  ext r c
  rw [Matrix.mul_apply, Matrix.mul_apply]
  have hoc : o + c.val < irDim irs := by have := c.isLt; omega
  rw [Finset.sum_eq_single (⟨o + c.val, hoc⟩ : Fin (irDim irs))]
  · rw [blockIncl_apply, if_pos rfl, mul_one, genBD_apply, bdMat, get_tabulate2 _ _ _ _ _ r.isLt hoc,
      hget r.val c.val c.isLt]
    by_cases hcond : o ≤ r.val ∧ r.val < o + (2 * l + 1)
    · rw [if_pos hcond]
      have hro : r.val - o < 2 * l + 1 := by omega
      rw [Finset.sum_eq_single (⟨r.val - o, hro⟩ : Fin (2 * l + 1))]
      · rw [blockIncl_apply, if_pos (by show r.val = o + (r.val - o); omega), one_mul]; rfl
      · intro b _ hb'
        rw [blockIncl_apply, if_neg, zero_mul]
        intro e
        apply hb'
        apply Fin.ext
        show b.val = r.val - o
        omega
      · intro h; exact absurd (Finset.mem_univ _) h
    · rw [if_neg hcond]
      rw [Finset.sum_eq_zero]
      · rfl
      · intro b _
        rw [blockIncl_apply, if_neg, zero_mul]
        intro e
        have := b.isLt
        omega
  · intro b _ hb'
    rw [blockIncl_apply, if_neg, mul_zero]
    intro e
    apply hb'
    exact Fin.ext e
  · intro h; exact absurd (Finset.mem_univ _) h

/-! ### `main`: the FX program computes the contraction of `Q` with the inputs -/

/-- `Π_k env (base_k + x_k)`: the product of the input components selected by the multi-index `x`
    (`base_k` = variable id of component 0 of input `k` in the batch row under consideration) -/
noncomputable def prodVars (env : ℕ → ℝ) : (L : List (List Ir)) → List ℕ → Idx L → ℝ
  | [], _, _ => 1
  | _ :: _, [], _ => 0
  | _ :: L, b :: bs, (k, x) => env (b + k.val) * prodVars env L bs x

theorem eval_flatMap (env : ℕ → ℝ) (f : ℕ → Poly) : ∀ l : List ℕ,
    Poly.eval env (l.flatMap f) = (l.map fun k => Poly.eval env (f k)).sum
  | [] => rfl
  | k :: l => by
    rw [List.flatMap_cons, List.map_cons, List.sum_cons, ← eval_flatMap env f l]
    exact AList.sumBy_append _ _ _

theorem monoEval_snoc (env : ℕ → ℝ) (m : Mono) (v : ℕ) : Mono.eval env (m ++ [v]) = Mono.eval env m * env v := by
  simp [Mono.eval]

theorem eval_tterms (env : ℕ → ℝ) : ∀ (L : List (List Ir)) (t : Tens L) (bases : List ℕ) (m : Mono),
    Poly.eval env (tterms L t bases m) = Mono.eval env m * ∑ x : Idx L, den L t x * prodVars env L bases x
  | [], v, _, m => by
    rw [sum_idx_nil]
    show Poly.eval env (bif isNil (v : SqrtQ) then [] else [(m, v)]) = Mono.eval env m * (SqrtQ.eval (v : SqrtQ) * 1)
    cases hv : isNil (v : SqrtQ)
    · simp [Poly.eval, Poly.termVal]; ring
    · simp [eval_of_isNil hv]
  | s :: L, t, [], m => by
    show Poly.eval env [] = _
    simp [prodVars]
  | s :: L, t, b :: bs, m => by
    show Poly.eval env ((List.range (irDim s)).flatMap fun k =>
      tterms L (List.getD (α := Tens L) t k (tz L)) bs (m ++ [b + k])) = _
    rw [eval_flatMap, sum_map_range, ← sum_fin_eq_range, sum_idx_cons, Finset.mul_sum]
    apply Finset.sum_congr rfl
    intro k _
    rw [eval_tterms env L, monoEval_snoc, Finset.mul_sum, Finset.mul_sum]
    apply Finset.sum_congr rfl
    intro x _
    show _ = Mono.eval env m * (den L (List.getD (α := Tens L) t k.val (tz L)) x * (env (b + k.val) * prodVars env L bs x))
    ring

theorem eval_expPoly (c : Cfg) (B b : ℕ) (z : Fin c.D) (env : ℕ → ℝ) :
    Poly.eval env (expPoly c B b z.val)
      = ∑ x : Idx c.irIn, Qreal c z x * prodVars env c.irIn (varBases B b 0 c.irIn) x := by
  unfold expPoly
  rw [eval_tterms]
  simp [Qreal]

/-- **`main` = contraction with `change_of_basis`**, for all real inputs: output component `z` of batch row `b` of the
    translated FX program is `Σ_x Q[z,x] · x₁[b,x₁] ⋯ xₙ[b,xₙ]` -/
theorem prog_of_check {c : Cfg} {B : ℕ} {prog : List IR.Node} (h : progCheck c B prog = true) (env : ℕ → ℝ)
    (b : ℕ) (hb : b < B) (z : Fin c.D) :
    (IR.interp (K := ℝ) env prog).getD (b * c.D + z.val) 0
      = ∑ x : Idx c.irIn, Qreal c z x * prodVars env c.irIn (varBases B b 0 c.irIn) x := by
  simp only [progCheck, Bool.and_eq_true] at h
  have hi : b * c.D + z.val < B * c.D := by
    have := z.isLt
    calc b * c.D + z.val < b * c.D + c.D := by omega
      _ = (b + 1) * c.D := by ring
      _ ≤ B * c.D := Nat.mul_le_mul_right _ hb
  have h1 := allRange_spec h.2 (b * c.D + z.val) hi
  have hD : 0 < c.D := Nat.lt_of_le_of_lt (Nat.zero_le _) z.isLt
  simp only [progRow] at h1
  rw [show (b * c.D + z.val) / c.D = b by
        rw [Nat.add_comm, Nat.add_mul_div_right _ _ hD, Nat.div_eq_of_lt z.isLt, Nat.zero_add],
      show (b * c.D + z.val) % c.D = z.val by
        rw [Nat.add_comm, Nat.add_mul_mod_self_right, Nat.mod_eq_of_lt z.isLt]] at h1
  rw [← IR.interp_natural, ← eval_expPoly c B b z env, ← Poly.eval_eq_of_beq env h1]
  rw [List.getD_eq_getElem?_getD, List.getD_eq_getElem?_getD, List.getElem?_map]
  cases (IR.interpPoly prog)[b * c.D + z.val]? <;> simp

end E3nnVerif.Model.RTP
