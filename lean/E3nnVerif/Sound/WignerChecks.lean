import Mathlib.Algebra.BigOperators.Fin
import Mathlib.Data.Matrix.Basic
import Mathlib.Algebra.BigOperators.Intervals
import E3nnVerif.Sound.SqrtQ
import E3nnVerif.Model.WignerChecks
/-
What the kernel-decided checks of `Model/WignerChecks.lean` mean over ℝ.
-/
namespace E3nnVerif.Model.Wigner
open E3nnVerif.Exact
open scoped BigOperators

/-- real matrix denoted by an exact table -/
noncomputable def Mat.toReal (X : Mat) (n m : ℕ) : Matrix (Fin n) (Fin m) ℝ :=
  fun i j => (X.get i j).eval
/-- real 3-tensor denoted by an exact table -/
noncomputable def T3.toReal (C : T3) (n1 n2 n3 : ℕ) : Fin n1 → Fin n2 → Fin n3 → ℝ :=
  fun i j k => (C.get i j k).eval

theorem sum_map_range (n : ℕ) (f : ℕ → ℝ) : ((List.range n).map f).sum = ∑ i ∈ Finset.range n, f i := by
  induction n with
  | zero => simp
  | succ n ih => simp [List.range_succ, Finset.sum_range_succ, ih]

theorem eval_foldl_add (l : List ℕ) (f : ℕ → SqrtQ) (init : SqrtQ) :
    SqrtQ.eval (l.foldl (fun acc i => acc + f i) init)
      = SqrtQ.eval init + (l.map fun i => SqrtQ.eval (f i)).sum := by
  induction l generalizing init with
  | nil => simp
  | cons h t ih => simp [List.foldl, ih]; ring

theorem eval_dotRange (n : ℕ) (f : ℕ → SqrtQ) :
    SqrtQ.eval (dotRange n f) = ∑ i ∈ Finset.range n, SqrtQ.eval (f i) := by
  unfold dotRange
  rw [eval_foldl_add, sum_map_range]; simp

theorem eval_foldl_skip (l : List ℕ) (f g : ℕ → SqrtQ) (init : SqrtQ) :
    SqrtQ.eval (l.foldl (fun acc i => let x := g i; bif x.isZero then acc else acc + f i * x) init)
      = SqrtQ.eval init + (l.map fun i => SqrtQ.eval (f i) * SqrtQ.eval (g i)).sum := by
  induction l generalizing init with
  | nil => simp
  | cons h t ih =>
    simp only [List.foldl, List.map, List.sum_cons]
    rw [ih]
    cases hz : (g h).isZero
    · simp; ring
    · simp [SqrtQ.eval_of_isZero hz]

theorem eval_dotSkip (n : ℕ) (f g : ℕ → SqrtQ) :
    SqrtQ.eval (dotSkip n f g) = ∑ i ∈ Finset.range n, SqrtQ.eval (f i) * SqrtQ.eval (g i) := by
  unfold dotSkip
  rw [eval_foldl_skip, sum_map_range]; simp

theorem all2_spec {a b : ℕ} {p : ℕ → ℕ → Bool} (h : all2 a b p = true) :
    ∀ i < a, ∀ j < b, p i j = true := by
  intro i hi j hj
  simp only [all2, List.all_eq_true, List.mem_range] at h
  exact h i hi j hj

theorem all3_spec {a b c : ℕ} {p : ℕ → ℕ → ℕ → Bool} (h : all3 a b c p = true) :
    ∀ i < a, ∀ j < b, ∀ k < c, p i j k = true := by
  intro i hi j hj k hk
  simp only [all3, List.all_eq_true, List.mem_range] at h
  exact h i hi j hj k hk

theorem sum_fin_eq_range (n : ℕ) (f : ℕ → ℝ) : ∑ i : Fin n, f i = ∑ i ∈ Finset.range n, f i :=
  Fin.sum_univ_eq_sum_range f n

/-- `skewCheck` ⇒ the real matrix is antisymmetric -/
theorem skew_of_check {n : ℕ} {X : Mat} (h : skewCheck n X = true) :
    (X.toReal n n).transpose = -(X.toReal n n) := by
  ext i j
  have := all2_spec h j j.2 i i.2
  have := SqrtQ.eval_of_isZero this
  simp only [SqrtQ.eval_hadd] at this
  simp only [Matrix.transpose_apply, Matrix.neg_apply, Mat.toReal]
  linarith

/-- `invCheck` ⇒ the generator identity in the form `Theory.bil_equivariant_of_generator` expects -/
theorem inv_of_check {n1 n2 n3 : ℕ} {C : T3} {X1 X2 X3 : Mat}
    (h : invCheck n1 n2 n3 C X1 X2 X3 = true) (l : Fin n1) (m : Fin n2) (k : Fin n3) :
    (∑ i, C.toReal n1 n2 n3 i m k * X1.toReal n1 n1 i l) + (∑ j, C.toReal n1 n2 n3 l j k * X2.toReal n2 n2 j m)
      = ∑ k', X3.toReal n3 n3 k k' * C.toReal n1 n2 n3 l m k' := by
  have := all3_spec h l l.2 m m.2 k k.2
  have := SqrtQ.eval_of_isZero this
  simp only [SqrtQ.eval_hsub, SqrtQ.eval_hadd, eval_dotSkip] at this
  simp only [T3.toReal, Mat.toReal]
  rw [sum_fin_eq_range n1 (fun i => (C.get i m k).eval * (X1.get i l).eval),
      sum_fin_eq_range n2 (fun j => (C.get l j k).eval * (X2.get j m).eval),
      sum_fin_eq_range n3 (fun k' => (X3.get k k').eval * (C.get l m k').eval)]
  have e : ∑ i ∈ Finset.range n3, (X3.get k i).eval * (C.get l m i).eval
      = ∑ i ∈ Finset.range n3, (C.get l m i).eval * (X3.get k i).eval :=
    Finset.sum_congr rfl (fun _ _ => mul_comm _ _)
  rw [e]; linarith

theorem eval_matMulEntry (n : ℕ) (A B : Mat) (r c : ℕ) :
    SqrtQ.eval (matMulEntry n A B r c) = ∑ k ∈ Finset.range n, (A.get r k).eval * (B.get k c).eval := by
  unfold matMulEntry; rw [eval_dotSkip]

/-- `commCheck` ⇒ `A·B − B·A = Cm` over ℝ -/
theorem comm_of_check {n : ℕ} {A B Cm : Mat} (h : commCheck n A B Cm = true) :
    A.toReal n n * B.toReal n n - B.toReal n n * A.toReal n n = Cm.toReal n n := by
  ext i j
  have := all2_spec h i i.2 j j.2
  have := SqrtQ.eval_of_isZero this
  simp only [SqrtQ.eval_hsub, eval_matMulEntry] at this
  simp only [Matrix.sub_apply, Matrix.mul_apply, Mat.toReal]
  rw [sum_fin_eq_range n (fun k => (A.get i k).eval * (B.get k j).eval),
      sum_fin_eq_range n (fun k => (B.get i k).eval * (A.get k j).eval)]
  linarith

theorem eval_sumList (l : List SqrtQ) : SqrtQ.eval (sumList l) = (l.map SqrtQ.eval).sum := by
  unfold sumList
  have : ∀ init : SqrtQ, SqrtQ.eval (l.foldl (fun acc x => acc + x) init) = init.eval + (l.map SqrtQ.eval).sum := by
    induction l with
    | nil => intro init; simp
    | cons h t ih => intro init; simp [List.foldl, ih]; ring
  rw [this]; simp

/-- sum of a list of length `n` as a sum over `Fin n` through `getD` -/
theorem list_sum_eq_range {α : Type} (l : List α) (d : α) (f : α → ℝ) :
    (l.map f).sum = ∑ i ∈ Finset.range l.length, f (l.getD i d) := by
  induction l with
  | nil => simp
  | cons h t ih =>
    rw [List.length_cons, Finset.sum_range_succ', List.map_cons, List.sum_cons, ih]
    simp [add_comm]

/-- `normCheck` (with the dimension check) ⇒ unit Frobenius norm -/
theorem norm_of_check {n1 n2 n3 : ℕ} {C : T3} (hd : dimsOk3 n1 n2 n3 C = true) (h : normCheck C = true) :
    ∑ i, ∑ j, ∑ k, (C.toReal n1 n2 n3 i j k) ^ 2 = 1 := by
  have hz := SqrtQ.eval_of_isZero h
  simp only [SqrtQ.eval_hsub, SqrtQ.eval_one, T3.normSq, eval_sumList, List.map_map] at hz
  simp only [dimsOk3, Bool.and_eq_true, beq_iff_eq, List.all_eq_true] at hd
  obtain ⟨hl, hall⟩ := hd
  have key : ((C.map ((SqrtQ.eval ∘ fun a => sumList (a.map fun b => sumList (b.map fun x => x * x))))).sum)
      = ∑ i ∈ Finset.range n1, ∑ j ∈ Finset.range n2, ∑ k ∈ Finset.range n3, ((C.get i j k).eval) ^ 2 := by
    rw [list_sum_eq_range C [], hl]
    apply Finset.sum_congr rfl
    intro i hi
    have hi' : i < C.length := by rw [hl]; exact Finset.mem_range.mp hi
    have hmem : C.getD i [] ∈ C := by
      rw [← List.getElem_eq_getD (h := hi')]; exact List.getElem_mem hi'
    obtain ⟨hl2, hall2⟩ := hall _ hmem
    simp only [Function.comp, eval_sumList, List.map_map]
    rw [list_sum_eq_range (C.getD i []) [], hl2]
    apply Finset.sum_congr rfl
    intro j hj
    have hj' : j < (C.getD i []).length := by rw [hl2]; exact Finset.mem_range.mp hj
    have hmem2 : (C.getD i []).getD j [] ∈ C.getD i [] := by
      rw [← List.getElem_eq_getD (h := hj')]; exact List.getElem_mem hj'
    have hl3 := hall2 _ hmem2
    simp only [Function.comp, eval_sumList, List.map_map]
    rw [list_sum_eq_range ((C.getD i []).getD j []) [], hl3]
    apply Finset.sum_congr rfl
    intro k _
    simp [T3.get, pow_two]
  rw [key] at hz
  simp only [T3.toReal]
  rw [sum_fin_eq_range n1 (fun i => ∑ j : Fin n2, ∑ k : Fin n3, ((C.get i j k).eval) ^ 2)]
  have : ∀ i, ∑ j : Fin n2, ∑ k : Fin n3, ((C.get i j k).eval) ^ 2
      = ∑ j ∈ Finset.range n2, ∑ k ∈ Finset.range n3, ((C.get i j k).eval) ^ 2 := by
    intro i
    rw [sum_fin_eq_range n2 (fun j => ∑ k : Fin n3, ((C.get i j k).eval) ^ 2)]
    apply Finset.sum_congr rfl; intro j _
    exact sum_fin_eq_range n3 (fun k => ((C.get i j k).eval) ^ 2)
  simp only [this]
  linarith

end E3nnVerif.Model.Wigner
