import E3nnVerif.Sound.Poly
import E3nnVerif.IR.SExpr
/-
Real semantics of straight-line scalar programs and agreement with the symbolic evaluation.
`evalR xyz envR e` is what the Python expression computes over ℝ (exact arithmetic, `math.sqrt` = `Real.sqrt`).
-/
namespace E3nnVerif.IR
open E3nnVerif.Exact

namespace SExpr

noncomputable def evalR (xyz : ℕ → ℝ) (envR : List ℝ) : SExpr → ℝ
  | var i => xyz i
  | ref i => envR.getD i 0
  | nat n => (n : ℝ)
  | rat n d => (n : ℝ) / (d : ℝ)
  | sqrt n => Real.sqrt (n : ℝ)
  | add a b => a.evalR xyz envR + b.evalR xyz envR
  | sub a b => a.evalR xyz envR - b.evalR xyz envR
  | mul a b => a.evalR xyz envR * b.evalR xyz envR
  | neg a => - a.evalR xyz envR
  | divNat a n => a.evalR xyz envR / (n : ℝ)
  | pow a k => a.evalR xyz envR ^ k

theorem eval_sqrtConst (n : ℕ) : (sqrtConst n).eval = Real.sqrt (n : ℝ) := by
  unfold sqrtConst
  simp only
  generalize sqSplitAux 64 2 1 n = p
  cases h : Nat.beq (p.1 * p.1 * p.2) n
  · simp [SqrtQ.eval, AList.sumBy, SqrtQ.termVal]
  · have hn : p.1 * p.1 * p.2 = n := Nat.eq_of_beq_eq_true h
    simp only [cond_true, SqrtQ.eval, AList.sumBy, SqrtQ.termVal, List.map_cons, List.map_nil,
      List.sum_cons, List.sum_nil, add_zero, Q.eval_ofNat]
    rw [← hn]
    push_cast
    rw [show ((p.1 : ℝ) * (p.1 : ℝ) * (p.2 : ℝ)) = (p.1 : ℝ) ^ 2 * (p.2 : ℝ) by ring,
      Real.sqrt_mul (by positivity), Real.sqrt_sq (by positivity)]

theorem getD_map_eval (xyz : ℕ → ℝ) (env : List Poly) (i : ℕ) :
    Poly.eval xyz (env.getD i []) = (env.map (Poly.eval xyz)).getD i 0 := by
  induction env generalizing i with
  | nil => simp
  | cons h t ih =>
    cases i with
    | zero => simp
    | succ i => simpa using ih i

/-- symbolic evaluation agrees with the real semantics -/
theorem eval_toPoly (xyz : ℕ → ℝ) (env : List Poly) (e : SExpr) (h : e.wf = true) :
    Poly.eval xyz (e.toPoly env) = e.evalR xyz (env.map (Poly.eval xyz)) := by
  induction e with
  | var i => simp [toPoly, evalR]
  | ref i => simp only [toPoly, evalR]; exact getD_map_eval xyz env i
  | nat n => simp [toPoly, evalR]
  | rat n d =>
    simp only [wf, Nat.blt_eq] at h
    simp [toPoly, evalR, Q.eval_mk' n d h]
  | sqrt n => simp [toPoly, evalR, eval_sqrtConst]
  | add a b iha ihb =>
    simp only [wf, Bool.and_eq_true] at h
    simp [toPoly, evalR, iha h.1, ihb h.2]
  | sub a b iha ihb =>
    simp only [wf, Bool.and_eq_true] at h
    simp [toPoly, evalR, iha h.1, ihb h.2]
  | mul a b iha ihb =>
    simp only [wf, Bool.and_eq_true] at h
    simp [toPoly, evalR, iha h.1, ihb h.2]
  | neg a iha =>
    simp only [wf] at h
    simp [toPoly, evalR, iha h]
  | divNat a n iha =>
    simp only [wf, Bool.and_eq_true, Nat.blt_eq] at h
    simp only [toPoly, evalR, Poly.eval_scale, SqrtQ.eval_ofQ, Q.eval_mk' 1 n h.1, iha h.2]
    push_cast; ring
  | pow a k iha =>
    simp only [wf] at h
    simp [toPoly, evalR, iha h]

end SExpr

/-- real semantics of a straight-line program -/
noncomputable def evalProgR (xyz : ℕ → ℝ) (p : List SExpr) : List ℝ :=
  p.foldl (fun acc e => acc ++ [e.evalR xyz acc]) []

theorem evalProg_sound_aux (xyz : ℕ → ℝ) (p : List SExpr) (h : wfProg p = true) (acc : List Poly) :
    (p.foldl (fun acc e => acc ++ [e.toPoly acc]) acc).map (Poly.eval xyz)
      = p.foldl (fun acc e => acc ++ [e.evalR xyz acc]) (acc.map (Poly.eval xyz)) := by
  induction p generalizing acc with
  | nil => simp
  | cons e t ih =>
    simp only [wfProg, List.all_cons, Bool.and_eq_true] at h
    simp only [List.foldl]
    rw [ih h.2]
    simp [SExpr.eval_toPoly xyz acc e h.1]

/-- **Soundness of symbolic execution**: evaluating the symbolic result at any real point gives exactly the value
    the program computes over ℝ. -/
theorem evalProg_sound (xyz : ℕ → ℝ) (p : List SExpr) (h : wfProg p = true) :
    (evalProg p).map (Poly.eval xyz) = evalProgR xyz p := by
  unfold evalProg evalProgR
  simpa using evalProg_sound_aux xyz p h []

end E3nnVerif.IR
