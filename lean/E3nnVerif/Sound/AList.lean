import Mathlib.Data.Real.Basic
import Mathlib.Algebra.BigOperators.Group.List.Basic
import Mathlib.Tactic.Ring
import Mathlib.Tactic.Linarith
import E3nnVerif.Exact.AList
/-
Generic soundness of merging association lists: for any additive-in-the-coefficient valuation
`f : K → C → ℝ`, `sumBy f` turns `insert`/`add`/`ofList` into `+` and is invariant under `prune`.
-/
namespace E3nnVerif.Exact

class LawfulKey (K : Type) [Key K] : Prop where
  eq_of_cmp_eq : ∀ a b : K, Key.cmp a b = .eq → a = b

theorem natCmp_eq {a b : Nat} (h : natCmp a b = .eq) : a = b := by
  unfold natCmp at h
  cases h1 : Nat.blt a b <;> cases h2 : Nat.beq a b <;> simp [h1, h2] at h
  exact Nat.eq_of_beq_eq_true h2

instance : LawfulKey Nat := ⟨fun _ _ h => natCmp_eq h⟩

theorem listCmp_eq : ∀ {a b : List Nat}, listCmp a b = .eq → a = b
  | [], [], _ => rfl
  | [], _ :: _, h => by simp [listCmp] at h
  | _ :: _, [], h => by simp [listCmp] at h
  | a :: as, b :: bs, h => by
    unfold listCmp at h
    cases hc : natCmp a b <;> simp [hc] at h
    rw [natCmp_eq hc, listCmp_eq h]

instance : LawfulKey (List Nat) := ⟨fun _ _ h => listCmp_eq h⟩

namespace AList
section
variable {K C : Type}
def sumBy (f : K → C → ℝ) (l : AList K C) : ℝ := (l.map fun kc => f kc.1 kc.2).sum

@[simp] theorem sumBy_nil (f : K → C → ℝ) : sumBy f ([] : AList K C) = 0 := rfl
@[simp] theorem sumBy_cons (f : K → C → ℝ) (kc : K × C) (l : AList K C) :
    sumBy f (kc :: l) = f kc.1 kc.2 + sumBy f l := by simp [sumBy]
@[simp] theorem sumBy_append (f : K → C → ℝ) (a b : AList K C) :
    sumBy f (a ++ b) = sumBy f a + sumBy f b := by simp [sumBy]
end
set_option linter.unusedSectionVars false
variable {K C : Type} [Key K] [LawfulKey K] [Add C]

theorem sumBy_insert (f : K → C → ℝ) (hf : ∀ k a b, f k (a + b) = f k a + f k b)
    (k : K) (c : C) (l : AList K C) : sumBy f (insert k c l) = f k c + sumBy f l := by
  induction l with
  | nil => simp [insert]
  | cons h t ih =>
    obtain ⟨k', c'⟩ := h
    unfold insert
    cases hc : Key.cmp k k' with
    | lt => simp
    | eq =>
      have := LawfulKey.eq_of_cmp_eq _ _ hc
      subst this
      simp [hf]; ring
    | gt => simp [ih]; ring

theorem sumBy_add (f : K → C → ℝ) (hf : ∀ k a b, f k (a + b) = f k a + f k b)
    (a b : AList K C) : sumBy f (add a b) = sumBy f a + sumBy f b := by
  unfold add
  induction a with
  | nil => simp
  | cons h t ih => simp [List.foldr, sumBy_insert f hf, ih]; ring

theorem sumBy_ofList (f : K → C → ℝ) (hf : ∀ k a b, f k (a + b) = f k a + f k b)
    (a : List (K × C)) : sumBy f (ofList a) = sumBy f a := by
  simp [ofList, sumBy_add f hf]

theorem sumBy_prune (f : K → C → ℝ) (isZero : C → Bool) (hz : ∀ k c, isZero c = true → f k c = 0)
    (l : AList K C) : sumBy f (prune isZero l) = sumBy f l := by
  unfold prune
  induction l with
  | nil => simp
  | cons h t ih =>
    cases hb : isZero h.2
    · simp [List.filter, hb, ih]
    · simp [List.filter, hb, ih, hz _ _ hb]

theorem sumBy_of_allZero (f : K → C → ℝ) (isZero : C → Bool) (hz : ∀ k c, isZero c = true → f k c = 0)
    (l : AList K C) (h : allZero isZero l = true) : sumBy f l = 0 := by
  unfold allZero at h
  induction l with
  | nil => simp
  | cons hd t ih =>
    simp only [List.all_cons, Bool.and_eq_true] at h
    simp [hz _ _ h.1, ih h.2]

theorem sumBy_mapCoef {D : Type} (f : K → D → ℝ) (g : C → D) (l : AList K C) :
    sumBy f (mapCoef g l) = sumBy (fun k c => f k (g c)) l := by
  unfold mapCoef
  induction l with
  | nil => simp
  | cons h t ih => simp [ih]

theorem sumBy_congr (f g : K → C → ℝ) (h : ∀ k c, f k c = g k c) (l : AList K C) :
    sumBy f l = sumBy g l := by
  induction l with
  | nil => simp
  | cons hd t ih => simp [h, ih]

theorem sumBy_mul_left (f : K → C → ℝ) (r : ℝ) (l : AList K C) :
    sumBy (fun k c => r * f k c) l = r * sumBy f l := by
  induction l with
  | nil => simp
  | cons hd t ih => simp [ih]; ring

theorem sumBy_neg (f : K → C → ℝ) (l : AList K C) :
    sumBy (fun k c => - f k c) l = - sumBy f l := by
  induction l with
  | nil => simp
  | cons hd t ih => simp [ih]; ring

end AList
end E3nnVerif.Exact
