import E3nnVerif.Sound.SqrtQ
import E3nnVerif.Exact.Poly
/-
Soundness of `Poly`: for every real environment `env : ℕ → ℝ`, `Poly.eval env` is a ring homomorphism
from the kernel-computable polynomials to ℝ, and the zero/equality tests are sound.
So a kernel-decided identity `Poly.beq p q = true` is the statement `∀ env, eval env p = eval env q`.
-/
namespace E3nnVerif.Exact
open AList

namespace Mono
noncomputable def eval (env : ℕ → ℝ) (m : Mono) : ℝ := (m.map env).prod

@[simp] theorem eval_nil (env : ℕ → ℝ) : eval env [] = 1 := rfl
@[simp] theorem eval_cons (env : ℕ → ℝ) (v : ℕ) (m : Mono) : eval env (v :: m) = env v * eval env m := by
  simp [eval]

theorem eval_insert (env : ℕ → ℝ) (v : ℕ) (m : Mono) : eval env (insert v m) = env v * eval env m := by
  induction m with
  | nil => simp [insert]
  | cons w t ih =>
    unfold insert
    cases h : Nat.ble v w <;> simp [ih] <;> ring

theorem eval_mul (env : ℕ → ℝ) (a b : Mono) : eval env (mul a b) = eval env a * eval env b := by
  unfold mul
  induction a with
  | nil => simp
  | cons h t ih => simp [List.foldr, eval_insert, ih]; ring
end Mono

namespace Poly

noncomputable def termVal (env : ℕ → ℝ) (m : Mono) (c : SqrtQ) : ℝ := c.eval * Mono.eval env m

noncomputable def eval (env : ℕ → ℝ) (p : Poly) : ℝ := sumBy (termVal env) p

variable (env : ℕ → ℝ)

theorem termVal_add (m : Mono) (a b : SqrtQ) : termVal env m (a + b) = termVal env m a + termVal env m b := by
  simp [termVal]; ring

theorem termVal_isZero (m : Mono) (c : SqrtQ) (h : c.isZero = true) : termVal env m c = 0 := by
  simp [termVal, SqrtQ.eval_of_isZero h]

@[simp] theorem eval_zero : eval env zero = 0 := rfl
@[simp] theorem eval_nil : eval env ([] : Poly) = 0 := rfl
@[simp] theorem eval_const (c : SqrtQ) : eval env (const c) = c.eval := by simp [eval, const, termVal]
@[simp] theorem eval_one : eval env one = 1 := by simp [one]
@[simp] theorem eval_var (i : ℕ) : eval env (var i) = env i := by simp [eval, var, termVal]
@[simp] theorem eval_ofInt (n : Int) : eval env (ofInt n) = (n : ℝ) := by simp [ofInt]

@[simp] theorem eval_prune (p : Poly) : eval env (prune p) = eval env p := by
  unfold prune eval; exact sumBy_prune _ _ (termVal_isZero env) p

@[simp] theorem eval_add (a b : Poly) : eval env (add a b) = eval env a + eval env b := by
  unfold add; rw [eval_prune]; exact sumBy_add _ (termVal_add env) a b

@[simp] theorem eval_neg (a : Poly) : eval env (neg a) = - eval env a := by
  unfold neg eval
  rw [sumBy_mapCoef, ← sumBy_neg]
  apply sumBy_congr; intro k c; simp [termVal]

@[simp] theorem eval_sub (a b : Poly) : eval env (sub a b) = eval env a - eval env b := by
  simp [sub, sub_eq_add_neg]

@[simp] theorem eval_scale (c : SqrtQ) (a : Poly) : eval env (scale c a) = c.eval * eval env a := by
  unfold scale; rw [eval_prune]; unfold eval
  rw [sumBy_mapCoef, ← sumBy_mul_left]
  apply sumBy_congr; intro k d; simp [termVal]; ring

theorem sumBy_mulTermAll (t : Mono × SqrtQ) (b acc : Poly) :
    sumBy (termVal env) (mulTermAll t b acc)
      = termVal env t.1 t.2 * sumBy (termVal env) b + sumBy (termVal env) acc := by
  unfold mulTermAll
  induction b with
  | nil => simp
  | cons h tl ih =>
    simp only [List.foldr, sumBy_cons]
    rw [sumBy_insert _ (termVal_add env), ih]
    simp only [termVal, SqrtQ.eval_mul, Mono.eval_mul]; ring

@[simp] theorem eval_mul (a b : Poly) : eval env (mul a b) = eval env a * eval env b := by
  unfold mul; rw [eval_prune]; unfold eval
  induction a with
  | nil => simp
  | cons h tl ih =>
    simp only [List.foldr, sumBy_cons]
    rw [sumBy_mulTermAll, ih]; ring

@[simp] theorem eval_pow (a : Poly) (n : ℕ) : eval env (pow a n) = eval env a ^ n := by
  induction n with
  | zero => simp [pow]
  | succ n ih => simp [pow, ih, pow_succ]

theorem eval_of_isZero {a : Poly} (h : isZero a = true) : eval env a = 0 :=
  sumBy_of_allZero _ _ (termVal_isZero env) a h

theorem eval_eq_of_beq {a b : Poly} (h : beq a b = true) : eval env a = eval env b := by
  have := eval_of_isZero env h
  rw [eval_sub] at this; linarith

@[simp] theorem eval_hadd (a b : Poly) : eval env (a + b) = eval env a + eval env b := eval_add env a b
@[simp] theorem eval_hmul (a b : Poly) : eval env (a * b) = eval env a * eval env b := eval_mul env a b
@[simp] theorem eval_hneg (a : Poly) : eval env (-a) = - eval env a := eval_neg env a
@[simp] theorem eval_hsub (a b : Poly) : eval env (a - b) = eval env a - eval env b := eval_sub env a b

end Poly
end E3nnVerif.Exact
