import E3nnVerif.Sound.Poly
import E3nnVerif.IR.Tensor
/-
Naturality of the IR interpreter: evaluating the symbolic result of a program at a real point gives the value
the program computes over ℝ at that point.  Hence an identity between the coefficient polynomials of two
programs (decided by the kernel) is an identity between the programs on ALL real inputs.
-/
namespace E3nnVerif.IR
open E3nnVerif.Exact

noncomputable instance : Sca ℝ where
  zero := 0
  one := 1
  ofC := SqrtQ.eval

variable (env : ℕ → ℝ)

local notation "φ" => Poly.eval env

theorem phi_zero : φ (Sca.zero : Poly) = (Sca.zero : ℝ) := rfl
theorem phi_one : φ (Sca.one : Poly) = (Sca.one : ℝ) := by simp [Sca.one]
theorem phi_ofC (c : SqrtQ) : φ (Sca.ofC c : Poly) = (Sca.ofC c : ℝ) := by simp [Sca.ofC]

theorem phi_getK (l : List Poly) (i : ℕ) : φ (getK l i) = getK (l.map φ) i := by
  unfold getK
  induction l generalizing i with
  | nil => simp [phi_zero]
  | cons h t ih => cases i with
    | zero => simp
    | succ i => simpa using ih i

theorem phi_sumK (l : List Poly) : φ (sumK l) = sumK (l.map φ) := by
  unfold sumK
  have : ∀ (a : Poly), φ (l.foldl (fun acc x => acc + x) a) = (l.map φ).foldl (fun acc x => acc + x) (φ a) := by
    induction l with
    | nil => intro a; simp
    | cons h t ih => intro a; simp only [List.foldl, List.map_cons]; rw [ih]; simp
  rw [this, phi_zero]

theorem phi_prodK (l : List Poly) : φ (prodK l) = prodK (l.map φ) := by
  unfold prodK
  have : ∀ (a : Poly), φ (l.foldl (fun acc x => acc * x) a) = (l.map φ).foldl (fun acc x => acc * x) (φ a) := by
    induction l with
    | nil => intro a; simp
    | cons h t ih => intro a; simp only [List.foldl, List.map_cons]; rw [ih]; simp
  rw [this, phi_one]

theorem phi_einsumK (dims : List ℕ) (nOut : ℕ) (ops : List (List Poly × List ℕ)) :
    (einsumK dims nOut ops).map φ = einsumK dims nOut (ops.map fun op => (op.1.map φ, op.2)) := by
  unfold einsumK
  simp only [List.map_map]
  apply List.map_congr_left; intro ao _
  simp only [Function.comp, phi_sumK, List.map_map]
  congr 1
  apply List.map_congr_left; intro as_ _
  simp only [Function.comp, phi_prodK, List.map_map]
  congr 1
  apply List.map_congr_left; intro op _
  simp [Function.comp, phi_getK]

theorem map_zipWithK (f : Poly → Poly → Poly) (g : ℝ → ℝ → ℝ) (h : ∀ a b, φ (f a b) = g (φ a) (φ b))
    (a b : List Poly) : (zipWithK f a b).map φ = zipWithK g (a.map φ) (b.map φ) := by
  unfold zipWithK
  induction a generalizing b with
  | nil => simp
  | cons x xs ih => cases b with
    | nil => simp
    | cons y ys => simp [h, ih]

theorem getD_map_map (envP : List (List Poly)) (i : ℕ) :
    (envP.getD i []).map φ = (envP.map (List.map φ)).getD i [] := by
  induction envP generalizing i with
  | nil => simp
  | cons h t ih => cases i with
    | zero => simp
    | succ i => simpa using ih i

/-- one node -/
theorem evalNode_natural (envP : List (List Poly)) (n : Node) :
    (evalNode Poly.var envP n).map φ = evalNode (K := ℝ) env (envP.map (List.map φ)) n := by
  cases n with
  | input base len => simp [evalNode]
  | const data => simp [evalNode, phi_ofC, Function.comp]
  | gather srcs idx =>
    simp only [evalNode, List.map_map]
    apply List.map_congr_left; intro p _
    simp only [Function.comp, phi_getK, getD_map_map]
  | einsum dims nOut ops =>
    simp only [evalNode, phi_einsumK, List.map_map]
    congr 1
    apply List.map_congr_left; intro op _
    simp only [Function.comp, getD_map_map]
  | scale c src =>
    simp only [evalNode, List.map_map, ← getD_map_map]
    apply List.map_congr_left; intro x _
    simp [Function.comp, phi_ofC]
  | add a b =>
    simp only [evalNode, ← getD_map_map]
    exact map_zipWithK env _ _ (by intro a b; simp) _ _
  | sub a b =>
    simp only [evalNode, ← getD_map_map]
    exact map_zipWithK env _ _ (by intro a b; simp) _ _
  | mul a b =>
    simp only [evalNode, ← getD_map_map]
    exact map_zipWithK env _ _ (by intro a b; simp) _ _
  | neg a =>
    simp only [evalNode, List.map_map, ← getD_map_map]
    apply List.map_congr_left; intro x _
    simp [Function.comp]

theorem interpAll_natural_aux (p : List Node) (envP : List (List Poly)) :
    (p.foldl (fun e n => e ++ [evalNode Poly.var e n]) envP).map (List.map φ)
      = p.foldl (fun e n => e ++ [evalNode (K := ℝ) env e n]) (envP.map (List.map φ)) := by
  induction p generalizing envP with
  | nil => simp
  | cons n t ih =>
    simp only [List.foldl]
    rw [ih]
    simp [evalNode_natural]

/-- **naturality**: the real value of every node is the evaluation of its symbolic value -/
theorem interpAll_natural (p : List Node) :
    (interpAll Poly.var p).map (List.map φ) = interpAll (K := ℝ) env p := by
  unfold interpAll
  simpa using interpAll_natural_aux env p []

theorem getLastD_map (l : List (List Poly)) : (l.getLastD []).map φ = (l.map (List.map φ)).getLastD [] := by
  induction l with
  | nil => simp
  | cons h t ih =>
    cases t with
    | nil => simp
    | cons h2 t2 => simpa [List.getLastD] using ih

/-- **naturality for the output** -/
theorem interp_natural (p : List Node) :
    (interpPoly p).map φ = interp (K := ℝ) env p := by
  unfold interpPoly interp
  rw [getLastD_map, interpAll_natural]

/-- **program equivalence from a kernel certificate**: if the coefficient polynomials of two programs agree,
    the programs agree on every real input. -/
theorem interp_eq_of_polysEq (p q : List Node) (h : polysEq (interpPoly p) (interpPoly q) = true) :
    interp (K := ℝ) env p = interp (K := ℝ) env q := by
  rw [← interp_natural, ← interp_natural]
  simp only [polysEq, Bool.and_eq_true, beq_iff_eq, List.all_eq_true] at h
  obtain ⟨hlen, hall⟩ := h
  generalize interpPoly p = a at *
  generalize interpPoly q = b at *
  induction a generalizing b with
  | nil => cases b with
    | nil => rfl
    | cons _ _ => simp at hlen
  | cons x xs ih => cases b with
    | nil => simp at hlen
    | cons y ys =>
      simp only [List.length_cons, Nat.add_right_cancel_iff] at hlen
      simp only [List.zipWith_cons_cons, List.mem_cons, forall_eq_or_imp, id] at hall
      simp only [List.map_cons]
      rw [Poly.eval_eq_of_beq env hall.1, ih ys hlen hall.2]

end E3nnVerif.IR
