import E3nnVerif.Theory.S2GridQuadPow
import E3nnVerif.Theory.S2GridRoundTrip
import E3nnVerif.Sound.SqrtQ
import E3nnVerif.Model.Legendre
/-
Soundness of the kernel check `krCheckAll` (`Model/Legendre.lean`): if it returns `true` for a table `tab` and a
band limit `L`, then the Legendre factor `legendreGrid tab (2b)` — the model of
`o3.Legendre(range(lmax+1))(cos β_j, |sin β_j|)` on the grid `β_j = π(j+½)/(2b)` — satisfies `KRExact` for EVERY
resolution `2b > 2L`: the Kostelec–Rockmore weights integrate all products `P_l^m P_{l'}^m` exactly and the result
is `δ_{ll'}/4π`.  Ingredients: `quadrature_exact_pow` (all `b`), `sin² = 1 − cos²`, and the ring-homomorphism
lemmas of `SqrtQ`.
-/
namespace E3nnVerif.Legendre
open E3nnVerif E3nnVerif.Exact E3nnVerif.S2Grid Finset

/-- real value of a dense polynomial at `z` -/
noncomputable def upEval : UPoly → ℝ → ℝ
  | [], _ => 0
  | c :: p, z => SqrtQ.eval c + z * upEval p z

@[simp] theorem upEval_nil (z : ℝ) : upEval [] z = 0 := rfl
@[simp] theorem upEval_cons (c : SqrtQ) (p : UPoly) (z : ℝ) :
    upEval (c :: p) z = SqrtQ.eval c + z * upEval p z := rfl

theorem upEval_add (p q : UPoly) (z : ℝ) : upEval (upAdd p q) z = upEval p z + upEval q z := by
  induction p generalizing q with
  | nil => simp [upAdd]
  | cons a p ih =>
    cases q with
    | nil => simp [upAdd]
    | cons b q => simp [upAdd, ih]; ring

theorem upEval_scale (c : SqrtQ) (p : UPoly) (z : ℝ) : upEval (upScale c p) z = SqrtQ.eval c * upEval p z := by
  induction p with
  | nil => simp [upScale]
  | cons a p ih =>
    have : upScale c (a :: p) = (c * a) :: upScale c p := rfl
    rw [this, upEval_cons, ih, upEval_cons, SqrtQ.eval_hmul]; ring

theorem upEval_neg (p : UPoly) (z : ℝ) : upEval (upNeg p) z = - upEval p z := by
  induction p with
  | nil => simp [upNeg]
  | cons a p ih =>
    have : upNeg (a :: p) = SqrtQ.neg a :: upNeg p := rfl
    rw [this, upEval_cons, ih, upEval_cons, SqrtQ.eval_neg]; ring

theorem upEval_shift (p : UPoly) (z : ℝ) : upEval (upShift p) z = z * upEval p z := by
  simp [upShift]

theorem upEval_mul (p q : UPoly) (z : ℝ) : upEval (upMul p q) z = upEval p z * upEval q z := by
  induction p with
  | nil => simp [upMul]
  | cons a p ih =>
    rw [upMul, upEval_add, upEval_scale, upEval_shift, ih, upEval_cons]; ring

theorem upEval_omz2 (p : UPoly) (z : ℝ) : upEval (upMulOmz2 p) z = (1 - z ^ 2) * upEval p z := by
  rw [upMulOmz2, upEval_add, upEval_neg, upEval_shift, upEval_shift]; ring

theorem upEval_omz2Pow (m : ℕ) (p : UPoly) (z : ℝ) :
    upEval (upMulOmz2Pow m p) z = (1 - z ^ 2) ^ m * upEval p z := by
  induction m with
  | zero => simp [upMulOmz2Pow]
  | succ m ih => rw [upMulOmz2Pow, upEval_omz2, ih]; ring

theorem upEval_mono (zn : ℕ) (c : SqrtQ) (z : ℝ) : upEval (upMono zn c) z = SqrtQ.eval c * z ^ zn := by
  induction zn with
  | zero => simp [upMono]
  | succ n ih =>
    have : upMono (n + 1) c = SqrtQ.zero :: upMono n c := by simp [upMono, List.replicate_succ]
    rw [this, upEval_cons, ih, SqrtQ.eval_zero]; ring

/-! ### the rows of the table over ℝ -/

theorem powK_real (x : ℝ) (n : ℕ) : powK x n = x ^ n := by
  induction n with
  | zero => simp [powK, Scalar.one]
  | succ n ih => rw [powK, ih, pow_succ]

theorem ofFrac_real' (n : Int) (d : Nat) : (Scalar.ofFrac n d : ℝ) = (n : ℝ) / (d : ℝ) := by
  cases n with
  | ofNat k => simp [Scalar.ofFrac, Scalar.ofInt]
  | negSucc k => simp [Scalar.ofFrac, Scalar.ofInt, Int.negSucc_eq]

theorem monoEval_real (z y : ℝ) (t : Mono) (hd : 0 < t.d) :
    monoEval z y t = SqrtQ.eval (SqrtQ.mk t.n t.d t.r) * z ^ t.zn * y ^ t.yn := by
  rw [monoEval, powK_real, powK_real, ofFrac_real', SqrtQ.eval_mk _ _ _ hd]
  simp

theorem rowPoly_sound (m : ℕ) (row : List Mono) (p : UPoly) (h : rowPoly m row = some p) (z y : ℝ) :
    rowSum z y row = y ^ m * upEval p z := by
  induction row generalizing p with
  | nil =>
    simp only [rowPoly, Option.some.injEq] at h
    subst h; simp [rowSum, Scalar.zero]
  | cons t ts ih =>
    simp only [rowPoly] at h
    split_ifs at h with hc
    cases hq : rowPoly m ts with
    | none => simp [hq] at h
    | some q =>
      simp only [hq, Option.some.injEq] at h
      subst h
      rw [rowSum, ih q hq, upEval_add, upEval_mono, monoEval_real _ _ _ hc.2, hc.1]; ring

/-! ### the quadrature on dense polynomials in `cos β` -/

theorem quad_upoly (b : ℕ) (hb : 0 < b) (p : UPoly) (k : ℕ) (h : k + p.length ≤ 2 * b) :
    ∑ j ∈ range (2 * b), (quadratureWeight b j : ℝ) * (((2 * b) ^ 2 : ℕ) : ℝ)
        * (Real.cos (betas (2 * b) j) ^ k * upEval p (Real.cos (betas (2 * b) j)))
      = SqrtQ.eval (upInt k p) := by
  induction p generalizing k with
  | nil => simp [upInt]
  | cons c p ih =>
    have hk : k < 2 * b := by simp only [List.length_cons] at h; omega
    have hrec := ih (k + 1) (by simp only [List.length_cons] at h; omega)
    rw [upInt, SqrtQ.eval_hadd, ← hrec]
    have split : ∀ j : ℕ, (quadratureWeight b j : ℝ) * (((2 * b) ^ 2 : ℕ) : ℝ)
          * (Real.cos (betas (2 * b) j) ^ k * upEval (c :: p) (Real.cos (betas (2 * b) j)))
        = SqrtQ.eval c * ((quadratureWeight b j : ℝ) * (((2 * b) ^ 2 : ℕ) : ℝ) * Real.cos (betas (2 * b) j) ^ k)
          + (quadratureWeight b j : ℝ) * (((2 * b) ^ 2 : ℕ) : ℝ)
            * (Real.cos (betas (2 * b) j) ^ (k + 1) * upEval p (Real.cos (betas (2 * b) j))) := by
      intro j; rw [upEval_cons, pow_succ]; ring
    simp_rw [split]
    rw [Finset.sum_add_distrib, ← Finset.mul_sum, quadrature_exact_pow b k hb hk]
    congr 1
    split_ifs with hpar
    · rw [SqrtQ.eval_scale, Q.eval_mk' 1 (k + 1) (Nat.succ_pos k)]
      push_cast; ring
    · simp

/-! ### soundness of the check -/

theorem sin_abs_pow_even (x : ℝ) (m : ℕ) : |Real.sin x| ^ m * |Real.sin x| ^ m = (1 - Real.cos x ^ 2) ^ m := by
  rw [← mul_pow, ← sq, sq_abs, Real.sin_sq]

theorem legendreGrid_real (tab : Table) (N j i : ℕ) :
    (legendreGrid tab N j i : ℝ)
      = rowSum (Real.cos (betas N j)) |Real.sin (betas N j)| (tab.getD i []) / Real.sqrt Real.pi := by
  simp only [legendreGrid, rowEval, Scalar.cos_real, Scalar.sin_real, Scalar.sqrt_real, Scalar.pi_real]
  congr 2
  unfold Scalar.abs
  by_cases h : Real.sin (betas N j : ℝ) < 0
  · simp [h, abs_of_neg h]
  · simp [h, abs_of_nonneg (not_lt.mp h)]

theorem krCheck1_sound (tab : Table) (b l l' k k' : ℕ) (hb : 0 < b) (hdeg : l + l' + 1 ≤ 2 * b)
    (h : krCheck1 tab l l' k k' = true) :
    ∑ j ∈ range (2 * b), (quadratureWeight b j : ℝ) * (((2 * b) ^ 2 : ℕ) : ℝ)
        * ((legendreGrid tab (2 * b) j (l ^ 2 + k) : ℝ) * legendreGrid tab (2 * b) j (l' ^ 2 + k'))
      = if l = l' then 1 / (4 * Real.pi) else 0 := by
  unfold krCheck1 at h
  cases hp : rowPoly (absDiff k l) (tab.getD (l ^ 2 + k) []) with
  | none => rw [hp] at h; simp [krCheckPolys] at h
  | some p =>
    cases hq : rowPoly (absDiff k l) (tab.getD (l' ^ 2 + k') []) with
    | none => rw [hp, hq] at h; simp [krCheckPolys] at h
    | some q =>
      rw [hp, hq] at h
      simp only [krCheckPolys, Bool.and_eq_true, decide_eq_true_eq] at h
      obtain ⟨hlen, hbeq⟩ := h
      have hval := SqrtQ.eval_eq_of_beq hbeq
      generalize hm : absDiff k l = m at *
      generalize hprod : upMulOmz2Pow m (upMul p q) = prod at *
      have hpi : Real.pi = Real.sqrt Real.pi * Real.sqrt Real.pi := (Real.mul_self_sqrt Real.pi_pos.le).symm
      have hpi0 : Real.sqrt Real.pi ≠ 0 := (Real.sqrt_pos.mpr Real.pi_pos).ne'
      have term : ∀ j : ℕ, (legendreGrid tab (2 * b) j (l ^ 2 + k) : ℝ) * legendreGrid tab (2 * b) j (l' ^ 2 + k')
          = (1 / (Real.sqrt Real.pi * Real.sqrt Real.pi))
            * (Real.cos (betas (2 * b) j) ^ 0 * upEval prod (Real.cos (betas (2 * b) j))) := by
        intro j
        rw [legendreGrid_real, legendreGrid_real, rowPoly_sound m _ p hp, rowPoly_sound m _ q hq, ← hprod,
          upEval_omz2Pow, upEval_mul, ← sin_abs_pow_even]
        field_simp
      simp_rw [term]
      have pull : ∀ j : ℕ, (quadratureWeight b j : ℝ) * (((2 * b) ^ 2 : ℕ) : ℝ)
            * ((1 / (Real.sqrt Real.pi * Real.sqrt Real.pi))
              * (Real.cos (betas (2 * b) j) ^ 0 * upEval prod (Real.cos (betas (2 * b) j))))
          = (1 / (Real.sqrt Real.pi * Real.sqrt Real.pi)) * ((quadratureWeight b j : ℝ) * (((2 * b) ^ 2 : ℕ) : ℝ)
            * (Real.cos (betas (2 * b) j) ^ 0 * upEval prod (Real.cos (betas (2 * b) j)))) := by
        intro j; ring
      simp_rw [pull]
      rw [← Finset.mul_sum, quad_upoly b hb prod 0 (by omega), hval, ← hpi]
      split_ifs with hll
      · rw [SqrtQ.eval_ofQ, Q.eval_mk' 1 4 (by norm_num)]
        have := Real.pi_pos.ne'
        field_simp
        push_cast; ring
      · simp

theorem krCheckAll_spec (tab : Table) (L : ℕ) (h : krCheckAll tab L = true) (l l' k k' : ℕ)
    (hl : l ≤ L) (hl' : l' ≤ L) (hk : k ≤ 2 * l) (hk' : k' ≤ 2 * l') (hm : (k : ℤ) - l = (k' : ℤ) - l') :
    krCheck1 tab l l' k k' = true := by
  unfold krCheckAll at h
  rw [List.all_eq_true] at h
  have h1 := h l (List.mem_range.mpr (by omega))
  unfold krCheckRow at h1
  rw [List.all_eq_true] at h1
  have h2 := h1 l' (List.mem_range.mpr (by omega))
  rw [List.all_eq_true] at h2
  have h3 := h2 k (List.mem_range.mpr (by omega))
  have hcond : l ≤ k + l' ∧ k + l' ≤ l + 2 * l' := by omega
  rw [if_pos hcond] at h3
  have hk'eq : k + l' - l = k' := by omega
  rw [hk'eq] at h3
  exact h3

/-- **`KRExact` from the kernel certificate**, for every band limit `L' ≤ L` and every even resolution `2b` with
`b > L'` (the resolutions `_complete_lmax_res` admits) -/
theorem krExact_of_check (tab : Table) (L L' b : ℕ) (hL : L' ≤ L) (hb : L' < b) (h : krCheckAll tab L = true) :
    KRExact (fun j i => (legendreGrid tab (2 * b) j i : ℝ)) (2 * b) L' := by
  intro l l' k k' hl hl' hk hk' hm
  have e : 2 * b / 2 = b := by omega
  rw [e]
  exact krCheck1_sound tab b l l' k k' (by omega) (by omega)
    (krCheckAll_spec tab L h l l' k k' (by omega) (by omega) hk hk' hm)

end E3nnVerif.Legendre
