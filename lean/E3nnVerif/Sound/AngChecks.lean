import Mathlib.Analysis.SpecialFunctions.Trigonometric.Basic
import E3nnVerif.Sound.SHChecks
import E3nnVerif.Sound.LegendreChecks
import E3nnVerif.Model.AngChecks
/-
Soundness of `angCheck1` (`Model/AngChecks.lean`): if the kernel accepts degree `l`, component `k`, then for ALL angles

    sh_{l,k}(sin β sin α, cos β, sin β cos α) = 2 · S^l_k(α) · Σ_row c·cos^zn β·sin^yn β

where the left side is what the Python source `_spherical_harmonics` computes (component normalisation) at the point
`angles_to_xyz(α, β)`, `S^l_k` is `spherical_harmonics_alpha` and the sum is `√π ·` the Legendre row of `o3.Legendre`.
-/
namespace E3nnVerif.Ang
open E3nnVerif E3nnVerif.Exact E3nnVerif.Model.SH E3nnVerif.IR E3nnVerif.S2Grid

/-- the point of the torus at which the four variables are read -/
noncomputable def angEnv (α β : ℝ) : ℕ → ℝ := fun i =>
  if i = 3 then Real.cos β else if i = 4 then Real.sin β else if i = 5 then Real.cos α
  else if i = 6 then Real.sin α else 0

/-- `angles_to_xyz(α, β)` -/
noncomputable def anglesToXyz (α β : ℝ) : Fin 3 → ℝ :=
  ![Real.sin β * Real.sin α, Real.cos β, Real.sin β * Real.cos α]

/-! ### substitution -/

theorem substMono_sound (env : ℕ → ℝ) (σ : ℕ → Poly) (m : Exact.Mono) :
    Poly.eval env (substMono σ m) = Mono.eval (fun v => Poly.eval env (σ v)) m := by
  induction m with
  | nil => simp [substMono]
  | cons v m ih =>
    have : substMono σ (v :: m) = σ v * substMono σ m := rfl
    rw [this, Poly.eval_hmul, ih, Mono.eval_cons]

theorem subst_sound (env : ℕ → ℝ) (σ : ℕ → Poly) (p : Poly) :
    Poly.eval env (subst σ p) = Poly.eval (fun v => Poly.eval env (σ v)) p := by
  induction p with
  | nil => simp [subst]
  | cons t p ih =>
    have e : subst σ (t :: p) = Poly.scale t.2 (substMono σ t.1) + subst σ p := rfl
    rw [e, Poly.eval_hadd, ih, Poly.eval_scale, substMono_sound]
    simp [Poly.eval, Poly.termVal]

theorem sigma_env (α β : ℝ) (v : ℕ) :
    Poly.eval (angEnv α β) (sigma v) = xyzEnv (anglesToXyz α β) v := by
  unfold sigma xyzEnv anglesToXyz
  by_cases h0 : v = 0
  · subst h0; simp [angEnv, vY, vS]
  by_cases h1 : v = 1
  · subst h1; simp [angEnv, vZ]
  by_cases h2 : v = 2
  · subst h2; simp [angEnv, vY, vC]
  · have : ¬ v < 3 := by omega
    simp [h0, h1, h2, this]

/-! ### reduction modulo `v² + w² = 1` -/

theorem mono_eval_split (env : ℕ → ℝ) (v : ℕ) (m : Exact.Mono) :
    Mono.eval env m = env v ^ Mono.expo v m * Mono.eval env (m.filter (fun u => !(Nat.beq v u))) := by
  induction m with
  | nil => simp [Mono.expo]
  | cons u m ih =>
    have e : Mono.expo v (u :: m) = bif Nat.beq v u then Mono.expo v m + 1 else Mono.expo v m := rfl
    rw [Mono.eval_cons, e, List.filter_cons]
    cases h : Nat.beq v u with
    | true =>
      have huv : v = u := Nat.eq_of_beq_eq_true h
      simp only [cond_true, Bool.not_true]
      rw [if_neg (by simp), ih, pow_succ, huv]; ring
    | false =>
      simp only [cond_false, Bool.not_false, if_true]
      rw [Mono.eval_cons, ih]; ring

theorem monoOf_sound (env : ℕ → ℝ) (m : Exact.Mono) : Poly.eval env (monoOf m) = Mono.eval env m := by
  simp [monoOf, Poly.eval, Poly.termVal]

theorem redPow_sound (env : ℕ → ℝ) (v w e : ℕ) (h : env v ^ 2 = 1 - env w ^ 2) :
    Poly.eval env (redPow v w e) = env v ^ e := by
  unfold redPow
  rw [Poly.eval_hmul, Poly.eval_pow, Poly.eval_hsub, Poly.eval_hmul, Poly.eval_one, Poly.eval_var]
  have hw : (1 : ℝ) - env w * env w = env v ^ 2 := by rw [h]; ring
  rw [hw, ← pow_mul]
  have hsplit : e = e % 2 + 2 * (e / 2) := (Nat.mod_add_div e 2).symm
  split_ifs with hodd
  · rw [Poly.eval_var]
    conv_rhs => rw [hsplit, hodd, pow_add, pow_one]
  · have h0 : e % 2 = 0 := by omega
    rw [Poly.eval_one]
    conv_rhs => rw [hsplit, h0, zero_add]
    ring

theorem redMono_sound (env : ℕ → ℝ) (v w : ℕ) (m : Exact.Mono) (h : env v ^ 2 = 1 - env w ^ 2) :
    Poly.eval env (redMono v w m) = Mono.eval env m := by
  unfold redMono
  rw [Poly.eval_hmul, monoOf_sound, redPow_sound env v w _ h, mono_eval_split env v m]; ring

theorem red_sound (env : ℕ → ℝ) (v w : ℕ) (p : Poly) (h : env v ^ 2 = 1 - env w ^ 2) :
    Poly.eval env (red v w p) = Poly.eval env p := by
  induction p with
  | nil => simp [red]
  | cons t p ih =>
    have e : red v w (t :: p) = Poly.scale t.2 (redMono v w t.1) + red v w p := rfl
    rw [e, Poly.eval_hadd, ih, Poly.eval_scale, redMono_sound env v w _ h]
    simp [Poly.eval, Poly.termVal]

theorem nf_sound (α β : ℝ) (p : Poly) : Poly.eval (angEnv α β) (nf p) = Poly.eval (angEnv α β) p := by
  unfold nf
  rw [red_sound _ vS vC _ (by simp [angEnv, vS, vC, Real.sin_sq]),
    red_sound _ vY vZ _ (by simp [angEnv, vY, vZ, Real.sin_sq])]

/-! ### the angular factors -/

theorem cosSin_sound (α β : ℝ) (k : ℕ) :
    Poly.eval (angEnv α β) (cosSin k).1 = Real.cos (k * α) ∧ Poly.eval (angEnv α β) (cosSin k).2 = Real.sin (k * α) := by
  induction k with
  | zero => simp [cosSin]
  | succ k ih =>
    have hC : Poly.eval (angEnv α β) (Poly.var vC) = Real.cos α := by simp [angEnv, vC]
    have hS : Poly.eval (angEnv α β) (Poly.var vS) = Real.sin α := by simp [angEnv, vS]
    have e : ((k + 1 : ℕ) : ℝ) * α = k * α + α := by push_cast; ring
    constructor
    · show Poly.eval _ ((cosSin k).1 * Poly.var vC - (cosSin k).2 * Poly.var vS) = _
      rw [Poly.eval_hsub, Poly.eval_hmul, Poly.eval_hmul, ih.1, ih.2, hC, hS, e, Real.cos_add]
    · show Poly.eval _ ((cosSin k).2 * Poly.var vC + (cosSin k).1 * Poly.var vS) = _
      rw [Poly.eval_hadd, Poly.eval_hmul, Poly.eval_hmul, ih.1, ih.2, hC, hS, e, Real.sin_add]

theorem shaPoly_sound (α β : ℝ) (l k : ℕ) :
    Poly.eval (angEnv α β) (shaPoly l k) = (shaEntry l α k : ℝ) := by
  unfold shaPoly shaEntry
  have h2 : SqrtQ.eval (SqrtQ.mk 1 1 2) = Real.sqrt 2 := by
    rw [SqrtQ.eval_mk 1 1 2 (by norm_num)]; norm_num
  split_ifs with h1 h2'
  · rw [Poly.eval_scale, (cosSin_sound α β (l - k)).2, h2]
    simp [Scalar.sqrt_real, Scalar.sin_real, Scalar.ofNat_real, two_real]
  · simp [one_real]
  · rw [Poly.eval_scale, (cosSin_sound α β (k - l)).1, h2]
    simp [Scalar.sqrt_real, Scalar.cos_real, Scalar.ofNat_real, two_real]

theorem rowToPoly_sound (α β : ℝ) (row : List Legendre.Mono) (h : rowDenOk row = true) :
    Poly.eval (angEnv α β) (rowToPoly row) = Legendre.rowSum (Real.cos β) (Real.sin β) row := by
  induction row with
  | nil => simp [rowToPoly, Legendre.rowSum, zero_real]
  | cons t ts ih =>
    have hall : (0 < t.d) ∧ rowDenOk ts = true := by
      simpa [rowDenOk, List.all_cons, Bool.and_eq_true, decide_eq_true_eq] using h
    have hZ : Poly.eval (angEnv α β) (Poly.var vZ) = Real.cos β := by simp [angEnv, vZ]
    have hY : Poly.eval (angEnv α β) (Poly.var vY) = Real.sin β := by simp [angEnv, vY]
    rw [rowToPoly, Poly.eval_hadd, ih hall.2, Poly.eval_scale, Poly.eval_hmul, Poly.eval_pow, Poly.eval_pow, hZ, hY,
      Legendre.rowSum, Legendre.monoEval_real _ _ _ hall.1]
    ring

/-! ### soundness of the check -/

theorem angCheck1_sound (prog : List SExpr) (index : List (List ℕ)) (hwf : wfProg prog = true)
    (tab : Legendre.Table) (l k : ℕ) (h : angCheck1 (select (evalProg prog) index) tab l k = true) (α β : ℝ) :
    realSH prog index l k (anglesToXyz α β)
      = 2 * ((shaEntry l α k : ℝ) * Legendre.rowSum (Real.cos β) (Real.sin β) (tab.getD (l ^ 2 + k) [])) := by
  unfold angCheck1 at h
  rw [Bool.and_eq_true] at h
  obtain ⟨hden, hbeq⟩ := h
  have hval := Poly.eval_eq_of_beq (angEnv α β) hbeq
  rw [nf_sound, nf_sound, subst_sound, Poly.eval_scale, Poly.eval_hmul, shaPoly_sound, rowToPoly_sound α β _ hden,
    SqrtQ.eval_ofInt] at hval
  have henv : (fun v => Poly.eval (angEnv α β) (sigma v)) = xyzEnv (anglesToXyz α β) := by
    funext v; exact sigma_env α β v
  rw [henv, eval_polyGet prog index hwf] at hval
  rw [hval]; push_cast; ring

theorem angCheck_spec (Ysym : List (List Poly)) (tab : Legendre.Table) (l k : ℕ) (h : angCheck Ysym tab l = true)
    (hk : k ≤ 2 * l) : angCheck1 Ysym tab l k = true := by
  unfold angCheck at h
  rw [List.all_eq_true] at h
  exact h k (List.mem_range.mpr (by omega))

end E3nnVerif.Ang
