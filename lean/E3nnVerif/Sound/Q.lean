import Mathlib.Data.Real.Basic
import Mathlib.Tactic.Ring
import Mathlib.Tactic.FieldSimp
import Mathlib.Tactic.Positivity
import Mathlib.Tactic.Linarith
import E3nnVerif.Exact.Q
/-
Soundness of the kernel rationals: `Q.eval : Q → ℝ` commutes with every operation.
-/
namespace E3nnVerif.Exact.Q

noncomputable def eval (a : Q) : ℝ := (a.n : ℝ) / ((a.dm1 + 1 : ℕ) : ℝ)

theorem den_pos (a : Q) : 0 < a.den := Nat.succ_pos _
theorem den_cast_ne (a : Q) : ((a.den : ℕ) : ℝ) ≠ 0 := by
  have := den_pos a; positivity
theorem eval_def (a : Q) : a.eval = (a.n : ℝ) / (a.den : ℝ) := rfl

theorem eval_norm (n : Int) (d : Nat) (hd : 0 < d) : (norm n d).eval = (n : ℝ) / (d : ℝ) := by
  unfold norm eval
  simp only
  set g := Nat.gcd n.natAbs d with hg
  have hgd : g ∣ d := Nat.gcd_dvd_right _ _
  have hgn : (g : Int) ∣ n := by
    have : g ∣ n.natAbs := Nat.gcd_dvd_left _ _
    exact Int.natCast_dvd.mpr this
  have hgpos : 0 < g := Nat.gcd_pos_of_pos_right _ hd
  have hdg : 0 < d / g := Nat.div_pos (Nat.le_of_dvd hd hgd) hgpos
  have h1 : d / g - 1 + 1 = d / g := Nat.sub_add_cancel hdg
  rw [h1]
  obtain ⟨k, hk⟩ := hgd
  obtain ⟨m, hm⟩ := hgn
  have hg0 : (g : ℝ) ≠ 0 := by positivity
  have hgz : (g : Int) ≠ 0 := by exact_mod_cast hgpos.ne'
  rw [hk, hm, Nat.mul_div_cancel_left _ hgpos, Int.mul_ediv_cancel_left _ hgz]
  have hk0 : (k : ℝ) ≠ 0 := by
    have : 0 < k := by
      rcases Nat.eq_zero_or_pos k with h | h
      · subst h; simp at hk; omega
      · exact h
    positivity
  push_cast
  field_simp

@[simp] theorem eval_ofInt (n : Int) : (ofInt n).eval = (n : ℝ) := by simp [ofInt, eval]
@[simp] theorem eval_ofNat (n : Nat) : (ofNat n).eval = (n : ℝ) := by simp [ofNat, eval]
@[simp] theorem eval_zero : zero.eval = 0 := by simp [zero, eval]
@[simp] theorem eval_one : one.eval = 1 := by simp [one, eval]

theorem eval_mk' (n : Int) (d : Nat) (hd : 0 < d) : (mk' n d).eval = (n : ℝ) / (d : ℝ) := eval_norm n d hd

@[simp] theorem eval_add (a b : Q) : (add a b).eval = a.eval + b.eval := by
  unfold add
  rw [eval_norm _ _ (Nat.mul_pos (den_pos a) (den_pos b)), eval_def, eval_def]
  have := den_cast_ne a; have := den_cast_ne b
  push_cast; field_simp

@[simp] theorem eval_mul (a b : Q) : (mul a b).eval = a.eval * b.eval := by
  unfold mul
  rw [eval_norm _ _ (Nat.mul_pos (den_pos a) (den_pos b)), eval_def, eval_def]
  have := den_cast_ne a; have := den_cast_ne b
  push_cast; field_simp

@[simp] theorem eval_neg (a : Q) : (neg a).eval = -a.eval := by
  simp [neg, eval, neg_div]

@[simp] theorem eval_sub (a b : Q) : (sub a b).eval = a.eval - b.eval := by
  simp [sub, sub_eq_add_neg]

@[simp] theorem eval_mulNat (a : Q) (k : Nat) : (mulNat a k).eval = a.eval * (k : ℝ) := by
  unfold mulNat
  rw [eval_norm _ _ (den_pos a), eval_def]
  have := den_cast_ne a
  push_cast; field_simp

@[simp] theorem eval_hadd (a b : Q) : (a + b).eval = a.eval + b.eval := eval_add a b
@[simp] theorem eval_hmul (a b : Q) : (a * b).eval = a.eval * b.eval := eval_mul a b
@[simp] theorem eval_hneg (a : Q) : (-a).eval = -a.eval := eval_neg a
@[simp] theorem eval_hsub (a b : Q) : (a - b).eval = a.eval - b.eval := eval_sub a b

theorem eval_of_isZero {a : Q} (h : a.isZero = true) : a.eval = 0 := by
  simp [isZero] at h; simp [eval, h]

theorem eval_eq_of_beq {a b : Q} (h : beq a b = true) : a.eval = b.eval := by
  simp only [beq, beq_iff_eq] at h
  rw [eval_def, eval_def, div_eq_div_iff (den_cast_ne a) (den_cast_ne b)]
  exact_mod_cast h

theorem eval_inv (a : Q) : (inv a).eval = (a.eval)⁻¹ := by
  unfold inv
  have hd := den_cast_ne a
  rcases a with ⟨n, dm1⟩
  cases n with
  | ofNat k =>
    cases k with
    | zero => simp [eval, zero]
    | succ k =>
      simp only
      rw [eval_norm _ _ (Nat.succ_pos k)]
      simp [eval, den]
  | negSucc k =>
    simp only
    rw [eval_norm _ _ (Nat.succ_pos k)]
    simp only [eval, den, Int.cast_neg, Int.cast_natCast, Int.cast_negSucc]
    rw [inv_div]
    push_cast
    rw [neg_div, div_neg]

theorem eval_lt {a b : Q} (h : lt a b = true) : a.eval < b.eval := by
  simp only [lt, decide_eq_true_eq] at h
  rw [eval_def, eval_def, div_lt_div_iff₀ (by have := den_pos a; positivity) (by have := den_pos b; positivity)]
  exact_mod_cast h

theorem eval_le {a b : Q} (h : le a b = true) : a.eval ≤ b.eval := by
  simp only [le, decide_eq_true_eq] at h
  rw [eval_def, eval_def, div_le_div_iff₀ (by have := den_pos a; positivity) (by have := den_pos b; positivity)]
  exact_mod_cast h

end E3nnVerif.Exact.Q
