import Mathlib.Analysis.Real.Sqrt
import E3nnVerif.Sound.Q
import E3nnVerif.Sound.AList
import E3nnVerif.Exact.SqrtQ
/-
Soundness of `SqrtQ`:  `eval : SqrtQ → ℝ`,  `eval a = Σ cᵢ·√rᵢ`, is a ring homomorphism for the kernel
operations and the zero/equality tests are sound.
-/
namespace E3nnVerif.Exact.SqrtQ
open AList

noncomputable def termVal (r : Nat) (c : Q) : ℝ := c.eval * Real.sqrt (r : ℝ)

noncomputable def eval (a : SqrtQ) : ℝ := sumBy termVal a

theorem termVal_add (r : Nat) (a b : Q) : termVal r (a + b) = termVal r a + termVal r b := by
  simp [termVal]; ring

theorem termVal_isZero (r : Nat) (c : Q) (h : c.isZero = true) : termVal r c = 0 := by
  simp [termVal, Q.eval_of_isZero h]

@[simp] theorem eval_zero : eval zero = 0 := rfl
@[simp] theorem eval_nil : eval ([] : SqrtQ) = 0 := rfl
@[simp] theorem eval_ofQ (c : Q) : eval (ofQ c) = c.eval := by simp [eval, ofQ, termVal]
@[simp] theorem eval_one : eval one = 1 := by simp [one]
@[simp] theorem eval_ofInt (n : Int) : eval (ofInt n) = (n : ℝ) := by simp [ofInt]
@[simp] theorem eval_term (c : Q) (r : Nat) : eval (term c r) = c.eval * Real.sqrt r := by
  simp [eval, term, termVal]
theorem eval_mk (n : Int) (d r : Nat) (hd : 0 < d) :
    eval (mk n d r) = (n : ℝ) / (d : ℝ) * Real.sqrt r := by
  simp [eval, mk, termVal, Q.eval_mk' n d hd]

@[simp] theorem eval_add (a b : SqrtQ) : eval (add a b) = eval a + eval b := by
  unfold add eval
  rw [sumBy_prune _ _ termVal_isZero, sumBy_add _ termVal_add]

@[simp] theorem eval_neg (a : SqrtQ) : eval (neg a) = - eval a := by
  unfold neg eval
  rw [sumBy_mapCoef, ← sumBy_neg]
  apply sumBy_congr; intro k c; simp [termVal]

@[simp] theorem eval_sub (a b : SqrtQ) : eval (sub a b) = eval a - eval b := by
  simp [sub, sub_eq_add_neg]

@[simp] theorem eval_scale (c : Q) (a : SqrtQ) : eval (scale c a) = c.eval * eval a := by
  unfold scale eval
  rw [sumBy_mapCoef, ← sumBy_mul_left]
  apply sumBy_congr; intro k d; simp [termVal]; ring

theorem sqrt_mul_gcd (a b : Nat) :
    Real.sqrt (a : ℝ) * Real.sqrt (b : ℝ)
      = (Nat.gcd a b : ℝ) * Real.sqrt (((a / Nat.gcd a b) * (b / Nat.gcd a b) : ℕ) : ℝ) := by
  set g := Nat.gcd a b with hg
  obtain ⟨a', ha⟩ : g ∣ a := Nat.gcd_dvd_left _ _
  obtain ⟨b', hb⟩ : g ∣ b := Nat.gcd_dvd_right _ _
  rcases Nat.eq_zero_or_pos g with h0 | hpos
  · have ha0 : a = 0 := by rw [ha, h0]; simp
    have hb0 : b = 0 := by rw [hb, h0]; simp
    simp [ha0, hb0]
  · rw [ha, hb, Nat.mul_div_cancel_left _ hpos, Nat.mul_div_cancel_left _ hpos]
    rw [← Real.sqrt_mul (by positivity)]
    have : ((g * a' : ℕ) : ℝ) * ((g * b' : ℕ) : ℝ) = (g : ℝ) ^ 2 * ((a' * b' : ℕ) : ℝ) := by
      push_cast; ring
    rw [this, Real.sqrt_mul (by positivity), Real.sqrt_sq (by positivity)]

theorem termVal_mulTerm (a b : Nat × Q) :
    termVal (mulTerm a b).1 (mulTerm a b).2 = termVal a.1 a.2 * termVal b.1 b.2 := by
  unfold mulTerm termVal
  simp only [Q.eval_mulNat, Q.eval_mul]
  have := sqrt_mul_gcd a.1 b.1
  calc a.2.eval * b.2.eval * (Nat.gcd a.1 b.1 : ℝ) * Real.sqrt ((a.1 / Nat.gcd a.1 b.1 * (b.1 / Nat.gcd a.1 b.1) : ℕ) : ℝ)
      = a.2.eval * b.2.eval * ((Nat.gcd a.1 b.1 : ℝ) * Real.sqrt ((a.1 / Nat.gcd a.1 b.1 * (b.1 / Nat.gcd a.1 b.1) : ℕ) : ℝ)) := by ring
    _ = a.2.eval * b.2.eval * (Real.sqrt a.1 * Real.sqrt b.1) := by rw [this]
    _ = _ := by ring

theorem sumBy_mulTermAll (t : Nat × Q) (b acc : SqrtQ) :
    sumBy termVal (mulTermAll t b acc) = termVal t.1 t.2 * sumBy termVal b + sumBy termVal acc := by
  unfold mulTermAll
  induction b with
  | nil => simp
  | cons h tl ih =>
    simp only [List.foldr, sumBy_cons]
    rw [sumBy_insert _ termVal_add, ih, termVal_mulTerm]; ring

@[simp] theorem eval_mul (a b : SqrtQ) : eval (mul a b) = eval a * eval b := by
  unfold mul eval
  rw [sumBy_prune _ _ termVal_isZero]
  induction a with
  | nil => simp
  | cons h tl ih =>
    simp only [List.foldr, sumBy_cons]
    rw [sumBy_mulTermAll, ih]; ring

theorem eval_of_isZero {a : SqrtQ} (h : isZero a = true) : eval a = 0 :=
  sumBy_of_allZero _ _ termVal_isZero a h

theorem eval_eq_of_beq {a b : SqrtQ} (h : beq a b = true) : eval a = eval b := by
  have := eval_of_isZero h
  rw [eval_sub] at this; linarith

@[simp] theorem eval_hadd (a b : SqrtQ) : eval (a + b) = eval a + eval b := eval_add a b
@[simp] theorem eval_hmul (a b : SqrtQ) : eval (a * b) = eval a * eval b := eval_mul a b
@[simp] theorem eval_hneg (a : SqrtQ) : eval (-a) = - eval a := eval_neg a
@[simp] theorem eval_hsub (a b : SqrtQ) : eval (a - b) = eval a - eval b := eval_sub a b

end E3nnVerif.Exact.SqrtQ
