import E3nnVerif.Sound.WignerChecks
import E3nnVerif.Model.WignerGram
/-
What the kernel-decided `gramCheck` of `Model/WignerGram.lean` means over ℝ.
-/
namespace E3nnVerif.Model.Wigner
open E3nnVerif.Exact
open scoped BigOperators

theorem eval_gramEntry (n1 n2 : ℕ) (C : T3) (k k' : ℕ) :
    SqrtQ.eval (gramEntry n1 n2 C k k')
      = ∑ i ∈ Finset.range n1, ∑ j ∈ Finset.range n2, (C.get i j k).eval * (C.get i j k').eval := by
  unfold gramEntry
  rw [eval_dotRange]
  exact Finset.sum_congr rfl fun i _ => eval_dotSkip n2 _ _

/-- `gramCheck` ⇒ the Gram matrix of the last index of the real table `wigner_3j(l1,l2,l3)` is `1/(2·l3+1)` -/
theorem gram_of_check {l1 l2 l3 : ℕ} (h : gramCheck l1 l2 l3 = true)
    (k k' : Fin (2 * l3 + 1)) :
    ∑ i, ∑ j, (w3j l1 l2 l3).toReal (2 * l1 + 1) (2 * l2 + 1) (2 * l3 + 1) i j k
        * (w3j l1 l2 l3).toReal (2 * l1 + 1) (2 * l2 + 1) (2 * l3 + 1) i j k'
      = if k = k' then 1 / (2 * (l3 : ℝ) + 1) else 0 := by
  have hz := SqrtQ.eval_of_isZero (all2_spec h k k.2 k' k'.2)
  rw [SqrtQ.eval_hsub, eval_gramEntry] at hz
  simp only [T3.toReal]
  rw [sum_fin_eq_range (2 * l1 + 1) (fun i => ∑ j : Fin (2 * l2 + 1),
      ((w3j l1 l2 l3).get i j k).eval * ((w3j l1 l2 l3).get i j k').eval)]
  have e : ∀ i : ℕ, ∑ j : Fin (2 * l2 + 1), ((w3j l1 l2 l3).get i j k).eval * ((w3j l1 l2 l3).get i j k').eval
      = ∑ j ∈ Finset.range (2 * l2 + 1), ((w3j l1 l2 l3).get i j k).eval * ((w3j l1 l2 l3).get i j k').eval :=
    fun i => sum_fin_eq_range (2 * l2 + 1)
      (fun j => ((w3j l1 l2 l3).get i j k).eval * ((w3j l1 l2 l3).get i j k').eval)
  simp only [e]
  have hv : (SqrtQ.ofQ (Q.mk' 1 (2 * l3 + 1))).eval = 1 / (2 * (l3 : ℝ) + 1) := by
    rw [SqrtQ.eval_ofQ, Q.eval_mk' 1 (2 * l3 + 1) (by omega)]
    push_cast; ring
  by_cases hk : k = k'
  · have hb : ((k : ℕ) == (k' : ℕ)) = true := by simp [hk]
    rw [hb, if_pos rfl, hv] at hz
    rw [if_pos hk]; linarith
  · have hb : ((k : ℕ) == (k' : ℕ)) = false := by
      simp only [beq_eq_false_iff_ne, ne_eq]; exact fun e => hk (Fin.ext e)
    rw [hb] at hz
    simp only [Bool.false_eq_true, if_false, SqrtQ.eval_nil] at hz
    rw [if_neg hk]; linarith

end E3nnVerif.Model.Wigner
