import Mathlib.Analysis.Calculus.FDeriv.Mul
import Mathlib.Analysis.Calculus.FDeriv.Add
import Mathlib.Analysis.Calculus.FDeriv.Prod
import Mathlib.Analysis.Calculus.Deriv.Basic
import E3nnVerif.Sound.Poly
/-
Soundness of the formal derivative `Poly.deriv` (Exact/Poly.lean).

  * `Mono.dEval env d m`, `Poly.dEval env d p` : the directional derivative of a monomial / polynomial at the
    point `env` in the direction `d : ℕ → ℝ` (Leibniz rule along the list of variables); linear in `d`.
  * `Poly.eval_deriv` : `eval env (deriv w p) = dEval env (δ_w) p` — the kernel's `deriv` (exponent count,
    `removeOne`, `ofList`, `prune`) *is* the partial derivative.
  * `Poly.hasFDerivAt_eval` (chain rule): if every coordinate `y ↦ e y v` of an environment-valued map is
    differentiable at `z`, then so is `y ↦ eval (e y) p`, with derivative `δ ↦ dEval (e z) (v ↦ e' v δ) p`.
  * `Poly.hasDerivAt_eval_update` : `t ↦ eval (update env v t) p` has derivative `eval (update env v t) (deriv v p)`.
  * `Poly.hasFDerivAt_eval_envUpd` : for finitely many variables `idx : ι → ℕ` (injective),
    `z ↦ eval (envUpd env idx z) p` on `ι → ℝ` has Fréchet derivative `δ ↦ Σ_i δ_i · eval (deriv (idx i) p)`.
-/
namespace E3nnVerif.Exact
open AList
open scoped BigOperators

namespace Mono

/-- directional derivative of the monomial `m` at `env` in the direction `d` (Leibniz rule) -/
noncomputable def dEval (env d : ℕ → ℝ) : Mono → ℝ
  | [] => 0
  | v :: m => d v * eval env m + env v * dEval env d m

@[simp] theorem dEval_nil (env d : ℕ → ℝ) : dEval env d [] = 0 := rfl
@[simp] theorem dEval_cons (env d : ℕ → ℝ) (v : ℕ) (m : Mono) :
    dEval env d (v :: m) = d v * eval env m + env v * dEval env d m := rfl

theorem expo_cons (w v : ℕ) (m : Mono) :
    expo w (v :: m) = if w = v then expo w m + 1 else expo w m := by
  show (bif Nat.beq w v then expo w m + 1 else expo w m) = _
  by_cases h : w = v
  · subst h; simp
  · have : Nat.beq w v = false := by
      cases hb : Nat.beq w v
      · rfl
      · exact absurd (Nat.eq_of_beq_eq_true hb) h
    simp [this, h]

theorem removeOne_cons (w v : ℕ) (m : Mono) :
    removeOne w (v :: m) = if w = v then m else v :: removeOne w m := by
  show (bif Nat.beq w v then m else v :: removeOne w m) = _
  by_cases h : w = v
  · subst h; simp
  · have : Nat.beq w v = false := by
      cases hb : Nat.beq w v
      · rfl
      · exact absurd (Nat.eq_of_beq_eq_true hb) h
    simp [this, h]

/-- if `w` occurs in `m`, putting the removed occurrence back gives `m` -/
theorem expo_mul_eval_removeOne (env : ℕ → ℝ) (w : ℕ) (m : Mono) :
    (expo w m : ℝ) * (env w * eval env (removeOne w m)) = (expo w m : ℝ) * eval env m := by
  induction m with
  | nil => simp [expo]
  | cons v m ih =>
    rw [expo_cons, removeOne_cons]
    by_cases h : w = v
    · subst h; simp
    · simp only [h, if_false, eval_cons]
      calc (expo w m : ℝ) * (env w * (env v * eval env (removeOne w m)))
          = env v * ((expo w m : ℝ) * (env w * eval env (removeOne w m))) := by ring
        _ = _ := by rw [ih]; ring

/-- the derivative in the coordinate direction `w` is what `Poly.deriv` computes for one monomial -/
theorem dEval_single (env : ℕ → ℝ) (w : ℕ) (m : Mono) :
    dEval env (fun v => if v = w then 1 else 0) m = (expo w m : ℝ) * eval env (removeOne w m) := by
  induction m with
  | nil => simp [expo]
  | cons v m ih =>
    rw [dEval_cons, ih, expo_cons, removeOne_cons]
    by_cases h : w = v
    · subst h
      simp only [if_true]
      have := expo_mul_eval_removeOne env w m
      push_cast
      linear_combination this
    · have h' : ¬ v = w := fun e => h e.symm
      simp only [h, h', if_false, eval_cons]
      ring

theorem dEval_sum {ι : Type*} (s : Finset ι) (env : ℕ → ℝ) (c : ι → ℝ) (f : ι → ℕ → ℝ) (m : Mono) :
    dEval env (fun v => ∑ i ∈ s, c i * f i v) m = ∑ i ∈ s, c i * dEval env (f i) m := by
  induction m with
  | nil => simp
  | cons v m ih =>
    simp only [dEval_cons, ih, Finset.sum_mul, Finset.mul_sum, ← Finset.sum_add_distrib]
    apply Finset.sum_congr rfl; intro i _; ring

section chain
variable {E : Type*} [NormedAddCommGroup E] [NormedSpace ℝ E]

/-- the derivative of `y ↦ eval (e y) m` as a continuous linear map, given the derivatives `e' v` of the coordinates -/
noncomputable def dCLM (env : ℕ → ℝ) (e' : ℕ → E →L[ℝ] ℝ) : Mono → (E →L[ℝ] ℝ)
  | [] => 0
  | v :: m => env v • dCLM env e' m + eval env m • e' v

theorem dCLM_apply (env : ℕ → ℝ) (e' : ℕ → E →L[ℝ] ℝ) (m : Mono) (δ : E) :
    dCLM env e' m δ = dEval env (fun v => e' v δ) m := by
  induction m with
  | nil => simp [dCLM]
  | cons v m ih => simp [dCLM, ih]; ring

theorem hasFDerivAt_eval (e : E → ℕ → ℝ) (e' : ℕ → E →L[ℝ] ℝ) (z : E)
    (he : ∀ v, HasFDerivAt (fun y => e y v) (e' v) z) (m : Mono) :
    HasFDerivAt (fun y => eval (e y) m) (dCLM (e z) e' m) z := by
  induction m with
  | nil => simpa [dCLM] using hasFDerivAt_const (1 : ℝ) z
  | cons v m ih =>
    simp only [eval_cons, dCLM]
    exact (he v).fun_mul ih

end chain
end Mono

namespace Poly

/-- directional derivative of `p` at `env` in the direction `d` -/
noncomputable def dEval (env d : ℕ → ℝ) (p : Poly) : ℝ :=
  sumBy (fun m c => c.eval * Mono.dEval env d m) p

theorem dEval_sum {ι : Type*} (s : Finset ι) (env : ℕ → ℝ) (c : ι → ℝ) (f : ι → ℕ → ℝ) (p : Poly) :
    dEval env (fun v => ∑ i ∈ s, c i * f i v) p = ∑ i ∈ s, c i * dEval env (f i) p := by
  unfold dEval
  induction p with
  | nil => simp
  | cons t p ih =>
    simp only [sumBy_cons]
    rw [ih, Mono.dEval_sum, Finset.mul_sum, ← Finset.sum_add_distrib]
    apply Finset.sum_congr rfl; intro i _; ring

/-- **the formal derivative is the partial derivative**: `deriv w p` evaluates to the directional derivative of `p`
    in the `w`-th coordinate direction. -/
theorem eval_deriv (env : ℕ → ℝ) (w : ℕ) (p : Poly) :
    eval env (deriv w p) = dEval env (fun v => if v = w then 1 else 0) p := by
  unfold deriv
  rw [eval_prune]
  unfold eval
  rw [sumBy_ofList _ (termVal_add env)]
  unfold dEval
  induction p with
  | nil => simp
  | cons t p ih =>
    simp only [List.map_cons, sumBy_cons, ih, Mono.dEval_single]
    simp only [termVal, SqrtQ.eval_scale, Q.eval_ofNat]
    ring

section chain
variable {E : Type*} [NormedAddCommGroup E] [NormedSpace ℝ E]

/-- the derivative of `y ↦ eval (e y) p` as a continuous linear map -/
noncomputable def dCLM (env : ℕ → ℝ) (e' : ℕ → E →L[ℝ] ℝ) : Poly → (E →L[ℝ] ℝ)
  | [] => 0
  | t :: p => t.2.eval • Mono.dCLM env e' t.1 + dCLM env e' p

theorem dCLM_apply (env : ℕ → ℝ) (e' : ℕ → E →L[ℝ] ℝ) (p : Poly) (δ : E) :
    dCLM env e' p δ = dEval env (fun v => e' v δ) p := by
  unfold dEval
  induction p with
  | nil => simp [dCLM]
  | cons t p ih => simp [dCLM, ih, Mono.dCLM_apply]

/-- **chain rule for polynomial evaluation**: if each coordinate of the environment `e y` is differentiable in `y`
    at `z` (derivative `e' v`), then `y ↦ eval (e y) p` is differentiable at `z` with derivative
    `δ ↦ dEval (e z) (v ↦ e' v δ) p`. -/
theorem hasFDerivAt_eval (e : E → ℕ → ℝ) (e' : ℕ → E →L[ℝ] ℝ) (z : E)
    (he : ∀ v, HasFDerivAt (fun y => e y v) (e' v) z) (p : Poly) :
    HasFDerivAt (fun y => eval (e y) p) (dCLM (e z) e' p) z := by
  unfold eval
  induction p with
  | nil => simpa [dCLM] using hasFDerivAt_const (0 : ℝ) z
  | cons t p ih =>
    simp only [sumBy_cons, dCLM, termVal]
    exact ((Mono.hasFDerivAt_eval e e' z he t.1).const_mul t.2.eval).fun_add ih

end chain

/-- **soundness of `Poly.deriv`, one variable**: `t ↦ p(env[v := t])` has derivative `(∂p/∂x_v)(env[v := t])`. -/
theorem hasDerivAt_eval_update (env : ℕ → ℝ) (v : ℕ) (p : Poly) (t : ℝ) :
    HasDerivAt (fun s => eval (Function.update env v s) p)
      (eval (Function.update env v t) (deriv v p)) t := by
  have h := hasFDerivAt_eval (E := ℝ) (fun s => Function.update env v s)
    (fun w => if w = v then ContinuousLinearMap.id ℝ ℝ else 0) t (fun w => by
      by_cases hw : w = v
      · subst hw
        simp only [Function.update_self, if_true]
        exact hasFDerivAt_id t
      · simpa [Function.update_of_ne hw, hw] using hasFDerivAt_const (env w) t) p
  have h2 := h.hasDerivAt
  rw [dCLM_apply] at h2
  rw [eval_deriv]
  convert h2 using 2
  funext w
  by_cases hw : w = v <;> simp [hw]

/-- the same at the base point: the derivative at `t = env v` is `eval env (deriv v p)` -/
theorem hasDerivAt_eval_update_self (env : ℕ → ℝ) (v : ℕ) (p : Poly) :
    HasDerivAt (fun s => eval (Function.update env v s) p) (eval env (deriv v p)) (env v) := by
  have := hasDerivAt_eval_update env v p (env v)
  rwa [Function.update_eq_self] at this

/-! ### finitely many variables -/

open Classical in
/-- the environment `env` with the variables `idx i` replaced by `z i` -/
noncomputable def envUpd {ι : Type*} (env : ℕ → ℝ) (idx : ι → ℕ) (z : ι → ℝ) : ℕ → ℝ :=
  fun n => if h : ∃ i, idx i = n then z h.choose else env n

section envUpd
variable {ι : Type*} (env : ℕ → ℝ) {idx : ι → ℕ}

theorem envUpd_idx (hinj : Function.Injective idx) (z : ι → ℝ) (i : ι) :
    envUpd env idx z (idx i) = z i := by
  have h : ∃ j, idx j = idx i := ⟨i, rfl⟩
  simp only [envUpd, h, dite_true]
  exact congrArg z (hinj h.choose_spec)

theorem envUpd_of_not_range (z : ι → ℝ) {n : ℕ} (h : ∀ i, idx i ≠ n) : envUpd env idx z n = env n := by
  have : ¬ ∃ i, idx i = n := fun ⟨i, hi⟩ => h i hi
  simp [envUpd, this]

theorem envUpd_self (idx : ι → ℕ) : envUpd env idx (fun i => env (idx i)) = env := by
  funext n
  by_cases h : ∃ i, idx i = n
  · simp only [envUpd, h, dite_true]; rw [h.choose_spec]
  · simp [envUpd, h]

/-- **soundness of `Poly.deriv`, several variables**: on `ι → ℝ` (ι finite, `idx` injective) the map
    `z ↦ p(env[idx i := z i])` is Fréchet differentiable with derivative `δ ↦ Σ_i δ_i · (∂p/∂x_{idx i})`. -/
theorem hasFDerivAt_eval_envUpd [Fintype ι] [DecidableEq ι] (hinj : Function.Injective idx)
    (p : Poly) (z : ι → ℝ) :
    HasFDerivAt (fun y : ι → ℝ => eval (envUpd env idx y) p)
      (∑ i, eval (envUpd env idx z) (deriv (idx i) p) • (ContinuousLinearMap.proj i : (ι → ℝ) →L[ℝ] ℝ)) z := by
  classical
  let e' : ℕ → (ι → ℝ) →L[ℝ] ℝ := fun v =>
    if h : ∃ i, idx i = v then ContinuousLinearMap.proj h.choose else 0
  have he : ∀ v, HasFDerivAt (fun y : ι → ℝ => envUpd env idx y v) (e' v) z := by
    intro v
    by_cases h : ∃ i, idx i = v
    · simp only [envUpd, h, dite_true, e']
      exact hasFDerivAt_apply h.choose z
    · simp only [envUpd, h, dite_false, e']
      exact hasFDerivAt_const (env v) z
  refine (hasFDerivAt_eval _ e' z he p).congr_fderiv ?_
  ext δ
  rw [dCLM_apply]
  have hd : (fun v => e' v δ) = fun v => ∑ i, δ i * (if v = idx i then 1 else 0) := by
    funext v
    by_cases h : ∃ i, idx i = v
    · simp only [e', h, dite_true, ContinuousLinearMap.proj_apply]
      rw [Finset.sum_eq_single h.choose]
      · simp [h.choose_spec]
      · intro j _ hj
        have : ¬ v = idx j := fun e => hj (hinj (e.symm.trans h.choose_spec.symm))
        simp [this]
      · intro hh; exact absurd (Finset.mem_univ _) hh
    · have : ∀ i, ¬ v = idx i := fun i e => h ⟨i, e.symm⟩
      simp [e', h, this]
  rw [hd, dEval_sum]
  simp only [_root_.sum_apply, _root_.smul_apply, ContinuousLinearMap.proj_apply,
    smul_eq_mul, eval_deriv]
  apply Finset.sum_congr rfl; intro i _
  rw [mul_comm]

end envUpd
end Poly
end E3nnVerif.Exact
