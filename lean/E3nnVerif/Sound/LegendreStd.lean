import Mathlib.Analysis.Calculus.IteratedDeriv.Defs
import Mathlib.Analysis.Calculus.Deriv.Mul
import Mathlib.Analysis.Calculus.Deriv.Add
import Mathlib.Data.Nat.Factorial.Basic
import E3nnVerif.Sound.LegendreChecks
/-
Soundness of `stdCheck1` (`Model/Legendre.lean`): a row of the regenerated Legendre table that passes the check IS the documented
formula of `_sympy_legendre`, for all real `z, y`:  `√((2l+1)/4·(l−m)!/(l+m)!)/√π · y^m · 1/(2^l l!) · d^{l+m}/dz^{l+m}(z² − 1)^l`.
The integer coefficient lists the model computes are tied to Mathlib's `iteratedDeriv` (`rodriguesInt_eq`).
-/
namespace E3nnVerif.Legendre
open E3nnVerif E3nnVerif.Exact

/-- real value of an integer coefficient list at `z` -/
noncomputable def evalInt : List Int → ℝ → ℝ
  | [], _ => 0
  | c :: p, z => (c : ℝ) + z * evalInt p z

@[simp] theorem evalInt_nil (z : ℝ) : evalInt [] z = 0 := rfl
@[simp] theorem evalInt_cons (c : Int) (p : List Int) (z : ℝ) : evalInt (c :: p) z = (c : ℝ) + z * evalInt p z := rfl

theorem evalInt_addInt (p q : List Int) (z : ℝ) : evalInt (addInt p q) z = evalInt p z + evalInt q z := by
  induction p generalizing q with
  | nil => simp [addInt]
  | cons a p ih =>
    cases q with
    | nil => simp [addInt]
    | cons b q => simp [addInt, ih]; ring

theorem evalInt_neg (p : List Int) (z : ℝ) : evalInt (p.map fun c => -c) z = - evalInt p z := by
  induction p with
  | nil => simp
  | cons a p ih => simp [ih]; ring

theorem evalInt_mulZ2m1 (p : List Int) (z : ℝ) : evalInt (mulZ2m1 p) z = (z ^ 2 - 1) * evalInt p z := by
  rw [mulZ2m1, evalInt_addInt, evalInt_neg]; simp; ring

theorem evalInt_z2m1Pow (l : ℕ) (z : ℝ) : evalInt (z2m1Pow l) z = (z ^ 2 - 1) ^ l := by
  induction l with
  | zero => simp [z2m1Pow]
  | succ l ih => rw [z2m1Pow, evalInt_mulZ2m1, ih]; ring

theorem evalInt_derivAux (k : ℕ) (p : List Int) (z : ℝ) :
    evalInt (derivAux k p) z = (k : ℝ) * evalInt p z + z * evalInt (derivInt p) z := by
  induction p generalizing k with
  | nil => simp [derivAux, derivInt]
  | cons c cs ih =>
    rw [derivAux, evalInt_cons, ih (k + 1), derivInt, ih 1, evalInt_cons]
    push_cast; ring

theorem hasDerivAt_evalInt (p : List Int) (z : ℝ) : HasDerivAt (evalInt p) (evalInt (derivInt p) z) z := by
  induction p generalizing z with
  | nil =>
    have hf : evalInt [] = fun _ : ℝ => (0 : ℝ) := funext fun _ => rfl
    have hd : evalInt (derivInt []) z = 0 := rfl
    rw [hf, hd]
    exact hasDerivAt_const z (0 : ℝ)
  | cons c cs ih =>
    have h1 : HasDerivAt (fun z : ℝ => (c : ℝ) + z * evalInt cs z) (0 + (1 * evalInt cs z + z * evalInt (derivInt cs) z)) z :=
      (hasDerivAt_const z (c : ℝ)).add ((hasDerivAt_id z).mul (ih z))
    have e : evalInt (derivInt (c :: cs)) z = 0 + (1 * evalInt cs z + z * evalInt (derivInt cs) z) := by
      rw [derivInt, evalInt_derivAux]; push_cast; ring
    rw [e]
    exact h1

theorem deriv_evalInt (p : List Int) : deriv (evalInt p) = evalInt (derivInt p) :=
  funext fun z => (hasDerivAt_evalInt p z).deriv

theorem iteratedDeriv_evalInt (n : ℕ) (p : List Int) : iteratedDeriv n (evalInt p) = evalInt (derivIter n p) := by
  induction n with
  | zero => simp [derivIter, iteratedDeriv_zero]
  | succ n ih => rw [iteratedDeriv_succ, ih, deriv_evalInt, derivIter]

/-- the integer list computed by the model IS the iterated derivative of `(z² − 1)^l` -/
theorem rodriguesInt_eq (l m : ℕ) (z : ℝ) :
    evalInt (rodriguesInt l m) z = iteratedDeriv (l + m) (fun z : ℝ => (z ^ 2 - 1) ^ l) z := by
  have hf : (fun z : ℝ => (z ^ 2 - 1) ^ l) = evalInt (z2m1Pow l) := funext fun z => (evalInt_z2m1Pow l z).symm
  rw [hf, iteratedDeriv_evalInt, rodriguesInt]

theorem fact_eq (n : ℕ) : fact n = n.factorial := by
  induction n with
  | zero => rfl
  | succ n ih => rw [fact, ih, Nat.factorial_succ]

/-! ### a coefficient `a√r` equals `t√q` when squares and signs agree -/

theorem coefOK_sound (q : Q) (hq : 0 < q.eval) (c : SqrtQ) (t : Q) (h : coefOK q c t = true) :
    SqrtQ.eval c = t.eval * Real.sqrt q.eval := by
  unfold coefOK at h
  split at h
  · rw [Q.eval_of_isZero h]; simp
  · rename_i r a
    simp only [Bool.and_eq_true, decide_eq_true_eq] at h
    obtain ⟨⟨hr, hbeq⟩, hsign⟩ := h
    have hsq := Q.eval_eq_of_beq hbeq
    simp only [Q.eval_hmul, Q.eval_ofNat] at hsq
    have hrpos : (0 : ℝ) < r := by exact_mod_cast hr
    have hev : SqrtQ.eval [(r, a)] = a.eval * Real.sqrt r := by simp [SqrtQ.eval, SqrtQ.termVal, AList.sumBy]
    rw [hev]
    have hsr : 0 < Real.sqrt (r : ℝ) := Real.sqrt_pos.mpr hrpos
    have hsq' : 0 < Real.sqrt q.eval := Real.sqrt_pos.mpr hq
    have e1 : (a.eval * Real.sqrt r) ^ 2 = (t.eval * Real.sqrt q.eval) ^ 2 := by
      rw [mul_pow, mul_pow, Real.sq_sqrt hrpos.le, Real.sq_sqrt hq.le]; nlinarith [hsq]
    -- signs
    have hden : ∀ x : Q, (0 : ℝ) < ((x.den : ℕ) : ℝ) := fun x => by exact_mod_cast Q.den_pos x
    unfold sameSign at hsign
    simp only [Bool.or_eq_true, Bool.and_eq_true, decide_eq_true_eq] at hsign
    rcases hsign with ⟨ha, ht⟩ | ⟨ha, ht⟩
    · have pa : 0 < a.eval := by rw [Q.eval_def]; exact div_pos (by exact_mod_cast ha) (hden a)
      have pt : 0 < t.eval := by rw [Q.eval_def]; exact div_pos (by exact_mod_cast ht) (hden t)
      have p1 : 0 < a.eval * Real.sqrt r := mul_pos pa hsr
      have p2 : 0 < t.eval * Real.sqrt q.eval := mul_pos pt hsq'
      have hz : (a.eval * Real.sqrt r - t.eval * Real.sqrt q.eval) * (a.eval * Real.sqrt r + t.eval * Real.sqrt q.eval) = 0 := by
        ring_nf; ring_nf at e1; linarith
      rcases mul_eq_zero.mp hz with h0 | h0
      · linarith
      · linarith
    · have pa : a.eval < 0 := by rw [Q.eval_def]; exact div_neg_of_neg_of_pos (by exact_mod_cast ha) (hden a)
      have pt : t.eval < 0 := by rw [Q.eval_def]; exact div_neg_of_neg_of_pos (by exact_mod_cast ht) (hden t)
      have p1 : a.eval * Real.sqrt r < 0 := mul_neg_of_neg_of_pos pa hsr
      have p2 : t.eval * Real.sqrt q.eval < 0 := mul_neg_of_neg_of_pos pt hsq'
      have hz : (a.eval * Real.sqrt r - t.eval * Real.sqrt q.eval) * (a.eval * Real.sqrt r + t.eval * Real.sqrt q.eval) = 0 := by
        ring_nf; ring_nf at e1; linarith
      rcases mul_eq_zero.mp hz with h0 | h0
      · linarith
      · linarith
  · exact absurd h (by simp)

/-- real value of a rational coefficient list -/
noncomputable def evalQ : List Q → ℝ → ℝ
  | [], _ => 0
  | t :: E, z => t.eval + z * evalQ E z

theorem allOK_sound (q : Q) (hq : 0 < q.eval) (p : UPoly) (E : List Q) (h : allOK q p E = true) (z : ℝ) :
    upEval p z = Real.sqrt q.eval * evalQ E z := by
  induction p generalizing E with
  | nil =>
    cases E with
    | nil => simp [evalQ]
    | cons t E => simp [allOK] at h
  | cons c p ih =>
    cases E with
    | nil => simp [allOK] at h
    | cons t E =>
      simp only [allOK, Bool.and_eq_true] at h
      rw [upEval_cons, evalQ, coefOK_sound q hq c t h.1, ih E h.2]; ring

theorem evalQ_map (D : List Int) (s : Q) (z : ℝ) :
    evalQ (D.map fun c => Q.ofInt c * s) z = s.eval * evalInt D z := by
  induction D with
  | nil => simp [evalQ]
  | cons c D ih =>
    simp only [List.map_cons, evalQ, ih, evalInt_cons, Q.eval_hmul, Q.eval_ofInt]; ring

theorem fact_pos (n : ℕ) : 0 < fact n := by rw [fact_eq]; exact Nat.factorial_pos n

theorem normSq_eval (l m : ℕ) :
    (normSq l m).eval = ((2 * (l : ℝ) + 1) * ((l - m).factorial : ℝ)) / (4 * ((l + m).factorial : ℝ)) := by
  rw [normSq, Q.eval_mk' _ _ (by have := fact_pos (l + m); omega), fact_eq, fact_eq]
  push_cast; ring

theorem normSq_pos (l m : ℕ) : 0 < (normSq l m).eval := by
  rw [normSq_eval]; positivity

theorem rodScale_eval (l : ℕ) : (rodScale l).eval = 1 / ((2 : ℝ) ^ l * (l.factorial : ℝ)) := by
  rw [rodScale, Q.eval_mk' _ _ (by have := fact_pos l; positivity), fact_eq]
  push_cast; ring

/-- **the Legendre row `(l, k)` of the table is the documented formula**: for all `z, y`
`Legendre(l)(z, y)[k] = √((2l+1)/4 · (l−m)!/(l+m)!)/√π · y^m · 1/(2^l l!) · d^{l+m}/dz^{l+m} (z² − 1)^l`, `m = |k − l|` -/
theorem stdCheck1_sound (tab : Table) (l k : ℕ) (h : stdCheck1 tab l k = true) (z y : ℝ) :
    rowEval z y (tab.getD (l ^ 2 + k) [])
      = Real.sqrt (((2 * (l : ℝ) + 1) * (((l - absDiff k l).factorial : ℕ) : ℝ)) / (4 * (((l + absDiff k l).factorial : ℕ) : ℝ)))
          / Real.sqrt Real.pi
        * (y ^ absDiff k l * (1 / ((2 : ℝ) ^ l * (l.factorial : ℝ))
            * iteratedDeriv (l + absDiff k l) (fun z : ℝ => (z ^ 2 - 1) ^ l) z)) := by
  unfold stdCheck1 at h
  simp only at h
  cases hp : rowPoly (absDiff k l) (tab.getD (l ^ 2 + k) []) with
  | none => rw [hp] at h; simp at h
  | some p =>
    rw [hp] at h
    simp only at h
    have hrow : rowEval z y (tab.getD (l ^ 2 + k) [])
        = rowSum z y (tab.getD (l ^ 2 + k) []) / Real.sqrt Real.pi := rfl
    rw [hrow, rowPoly_sound _ _ p hp, allOK_sound _ (normSq_pos l _) p _ h, evalQ_map, rodScale_eval, rodriguesInt_eq,
      normSq_eval]
    ring

end E3nnVerif.Legendre
