import E3nnVerif.Generated.TP.E000
import E3nnVerif.Generated.TP.E001
import E3nnVerif.Generated.TP.E002
import E3nnVerif.Generated.TP.E003
import E3nnVerif.Generated.TP.E004
import E3nnVerif.Generated.TP.E005
import E3nnVerif.Generated.TP.E006
import E3nnVerif.Generated.TP.E007
import E3nnVerif.Generated.TP.E008
import E3nnVerif.Generated.TP.E009
import E3nnVerif.Generated.TP.E010
import E3nnVerif.Generated.TP.E011
import E3nnVerif.Generated.TP.E012
import E3nnVerif.Generated.TP.E013
import E3nnVerif.Generated.TP.E014
import E3nnVerif.Generated.TP.E015
import E3nnVerif.Generated.TP.E016
import E3nnVerif.Generated.TP.E017
import E3nnVerif.Generated.TP.E018
import E3nnVerif.Generated.TP.E019
import E3nnVerif.Generated.TP.E020
import E3nnVerif.Generated.TP.E021
import E3nnVerif.Generated.TP.E022
import E3nnVerif.Generated.TP.E023
import E3nnVerif.Generated.TP.E024
import E3nnVerif.Generated.TP.E025
import E3nnVerif.Generated.TP.E026
import E3nnVerif.Generated.TP.E027
import E3nnVerif.Generated.TP.E028
import E3nnVerif.Generated.TP.E029
import E3nnVerif.Generated.TP.E030
import E3nnVerif.Generated.TP.E031
import E3nnVerif.Generated.TP.E032
import E3nnVerif.Generated.TP.E033
import E3nnVerif.Generated.TP.E034
import E3nnVerif.Generated.TP.E035
import E3nnVerif.Generated.TP.E036
import E3nnVerif.Generated.TP.E037
import E3nnVerif.Generated.TP.E038
import E3nnVerif.Generated.TP.E039
import E3nnVerif.Generated.TP.E040
import E3nnVerif.Generated.TP.E041
import E3nnVerif.Generated.TP.E042
import E3nnVerif.Generated.TP.E043
import E3nnVerif.Generated.TP.E044
import E3nnVerif.Generated.TP.E045
import E3nnVerif.Generated.TP.E046
import E3nnVerif.Generated.TP.E047
import E3nnVerif.Generated.TP.E048
import E3nnVerif.Generated.TP.E049
import E3nnVerif.Generated.TP.E050
import E3nnVerif.Generated.TP.E051
import E3nnVerif.Generated.TP.E052
import E3nnVerif.Generated.TP.E053
import E3nnVerif.Generated.TP.E054
import E3nnVerif.Generated.TP.E055
import E3nnVerif.Generated.TP.E056
import E3nnVerif.Generated.TP.E057
import E3nnVerif.Generated.TP.E058
import E3nnVerif.Generated.TP.E059
import E3nnVerif.Generated.TP.E060
import E3nnVerif.Generated.TP.E061
import E3nnVerif.Generated.TP.E062
import E3nnVerif.Generated.TP.E063
import E3nnVerif.Generated.TP.E064
import E3nnVerif.Generated.TP.E065
import E3nnVerif.Generated.TP.E066
import E3nnVerif.Generated.TP.E067
import E3nnVerif.Generated.TP.E068
import E3nnVerif.Generated.TP.E069
import E3nnVerif.Generated.TP.E070
import E3nnVerif.Generated.TP.E071
import E3nnVerif.Generated.TP.E072
import E3nnVerif.Generated.TP.E073
import E3nnVerif.Generated.TP.E074
import E3nnVerif.Generated.TP.E075
import E3nnVerif.Generated.TP.E076
import E3nnVerif.Generated.TP.E077
import E3nnVerif.Generated.TP.E078
import E3nnVerif.Generated.TP.E079
import E3nnVerif.Generated.TP.E080
import E3nnVerif.Generated.TP.E081
import E3nnVerif.Generated.TP.E082
import E3nnVerif.Generated.TP.E083
import E3nnVerif.Generated.TP.E084
import E3nnVerif.Generated.TP.E085
import E3nnVerif.Generated.TP.E086
import E3nnVerif.Generated.TP.E087
import E3nnVerif.Generated.TP.E088
import E3nnVerif.Generated.TP.E089
import E3nnVerif.Generated.TP.E090
import E3nnVerif.Generated.TP.E091
import E3nnVerif.Generated.TP.E092
import E3nnVerif.Generated.TP.E093
import E3nnVerif.Generated.TP.E094
import E3nnVerif.Generated.TP.E095
import E3nnVerif.Generated.TP.E096
import E3nnVerif.Generated.TP.E097
import E3nnVerif.Generated.TP.M000
import E3nnVerif.Generated.TP.M001
import E3nnVerif.Generated.TP.M002
import E3nnVerif.Generated.TP.M003
import E3nnVerif.Generated.TP.M004
import E3nnVerif.Generated.TP.M005
import E3nnVerif.Generated.TP.M006
import E3nnVerif.Generated.TP.M008
import E3nnVerif.Generated.TP.M009
import E3nnVerif.Generated.TP.M010
import E3nnVerif.Generated.TP.M007
import E3nnVerif.Generated.TP.M011
import E3nnVerif.Generated.TP.M012
import E3nnVerif.Generated.TP.M014
import E3nnVerif.Generated.TP.M015
import E3nnVerif.Generated.TP.M013
import E3nnVerif.Generated.TP.M016
import E3nnVerif.Generated.TP.R000
import E3nnVerif.Generated.TP.R001
import E3nnVerif.Generated.TP.R002
import E3nnVerif.Generated.TP.R003
/- GENERATED: the programs of this run, for the line-protocol driver -/
namespace E3nnVerif.Generated.TP
open E3nnVerif.IR E3nnVerif.Model.TP

def registry : List (String × Cfg × List Node) := [
  ("E000", E000.cfg, E000.prog),
  ("E001", E001.cfg, E001.prog),
  ("E002", E002.cfg, E002.prog),
  ("E003", E003.cfg, E003.prog),
  ("E004", E004.cfg, E004.prog),
  ("E005", E005.cfg, E005.prog),
  ("E006", E006.cfg, E006.prog),
  ("E007", E007.cfg, E007.prog),
  ("E008", E008.cfg, E008.prog),
  ("E009", E009.cfg, E009.prog),
  ("E010", E010.cfg, E010.prog),
  ("E011", E011.cfg, E011.prog),
  ("E012", E012.cfg, E012.prog),
  ("E013", E013.cfg, E013.prog),
  ("E014", E014.cfg, E014.prog),
  ("E015", E015.cfg, E015.prog),
  ("E016", E016.cfg, E016.prog),
  ("E017", E017.cfg, E017.prog),
  ("E018", E018.cfg, E018.prog),
  ("E019", E019.cfg, E019.prog),
  ("E020", E020.cfg, E020.prog),
  ("E021", E021.cfg, E021.prog),
  ("E022", E022.cfg, E022.prog),
  ("E023", E023.cfg, E023.prog),
  ("E024", E024.cfg, E024.prog),
  ("E025", E025.cfg, E025.prog),
  ("E026", E026.cfg, E026.prog),
  ("E027", E027.cfg, E027.prog),
  ("E028", E028.cfg, E028.prog),
  ("E029", E029.cfg, E029.prog),
  ("E030", E030.cfg, E030.prog),
  ("E031", E031.cfg, E031.prog),
  ("E032", E032.cfg, E032.prog),
  ("E033", E033.cfg, E033.prog),
  ("E034", E034.cfg, E034.prog),
  ("E035", E035.cfg, E035.prog),
  ("E036", E036.cfg, E036.prog),
  ("E037", E037.cfg, E037.prog),
  ("E038", E038.cfg, E038.prog),
  ("E039", E039.cfg, E039.prog),
  ("E040", E040.cfg, E040.prog),
  ("E041", E041.cfg, E041.prog),
  ("E042", E042.cfg, E042.prog),
  ("E043", E043.cfg, E043.prog),
  ("E044", E044.cfg, E044.prog),
  ("E045", E045.cfg, E045.prog),
  ("E046", E046.cfg, E046.prog),
  ("E047", E047.cfg, E047.prog),
  ("E048", E048.cfg, E048.prog),
  ("E049", E049.cfg, E049.prog),
  ("E050", E050.cfg, E050.prog),
  ("E051", E051.cfg, E051.prog),
  ("E052", E052.cfg, E052.prog),
  ("E053", E053.cfg, E053.prog),
  ("E054", E054.cfg, E054.prog),
  ("E055", E055.cfg, E055.prog),
  ("E056", E056.cfg, E056.prog),
  ("E057", E057.cfg, E057.prog),
  ("E058", E058.cfg, E058.prog),
  ("E059", E059.cfg, E059.prog),
  ("E060", E060.cfg, E060.prog),
  ("E061", E061.cfg, E061.prog),
  ("E062", E062.cfg, E062.prog),
  ("E063", E063.cfg, E063.prog),
  ("E064", E064.cfg, E064.prog),
  ("E065", E065.cfg, E065.prog),
  ("E066", E066.cfg, E066.prog),
  ("E067", E067.cfg, E067.prog),
  ("E068", E068.cfg, E068.prog),
  ("E069", E069.cfg, E069.prog),
  ("E070", E070.cfg, E070.prog),
  ("E071", E071.cfg, E071.prog),
  ("E072", E072.cfg, E072.prog),
  ("E073", E073.cfg, E073.prog),
  ("E074", E074.cfg, E074.prog),
  ("E075", E075.cfg, E075.prog),
  ("E076", E076.cfg, E076.prog),
  ("E077", E077.cfg, E077.prog),
  ("E078", E078.cfg, E078.prog),
  ("E079", E079.cfg, E079.prog),
  ("E080", E080.cfg, E080.prog),
  ("E081", E081.cfg, E081.prog),
  ("E082", E082.cfg, E082.prog),
  ("E083", E083.cfg, E083.prog),
  ("E084", E084.cfg, E084.prog),
  ("E085", E085.cfg, E085.prog),
  ("E086", E086.cfg, E086.prog),
  ("E087", E087.cfg, E087.prog),
  ("E088", E088.cfg, E088.prog),
  ("E089", E089.cfg, E089.prog),
  ("E090", E090.cfg, E090.prog),
  ("E091", E091.cfg, E091.prog),
  ("E092", E092.cfg, E092.prog),
  ("E093", E093.cfg, E093.prog),
  ("E094", E094.cfg, E094.prog),
  ("E095", E095.cfg, E095.prog),
  ("E096", E096.cfg, E096.prog),
  ("E097", E097.cfg, E097.prog),
  ("M000", M000.cfg, M000.prog),
  ("M001", M001.cfg, M001.prog),
  ("M002", M002.cfg, M002.prog),
  ("M003", M003.cfg, M003.prog),
  ("M004", M004.cfg, M004.prog),
  ("M005", M005.cfg, M005.prog),
  ("M006", M006.cfg, M006.prog),
  ("M008", M008.cfg, M008.prog),
  ("M009", M009.cfg, M009.prog),
  ("M010", M010.cfg, M010.prog),
  ("M007", M007.cfg, M007.prog),
  ("M011", M011.cfg, M011.prog),
  ("M012", M012.cfg, M012.prog),
  ("M014", M014.cfg, M014.prog),
  ("M015", M015.cfg, M015.prog),
  ("M013", M013.cfg, M013.prog),
  ("M016", M016.cfg, M016.prog),
  ("R000", R000.cfg, R000.prog),
  ("R001", R001.cfg, R001.prog),
  ("R002", R002.cfg, R002.prog),
  ("R003", R003.cfg, R003.prog)
]

end E3nnVerif.Generated.TP
