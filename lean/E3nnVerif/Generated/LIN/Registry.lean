import E3nnVerif.Generated.LIN.L000
import E3nnVerif.Generated.LIN.L001
import E3nnVerif.Generated.LIN.L002
import E3nnVerif.Generated.LIN.L003
import E3nnVerif.Generated.LIN.L004
import E3nnVerif.Generated.LIN.L005
import E3nnVerif.Generated.LIN.L006
import E3nnVerif.Generated.LIN.L007
import E3nnVerif.Generated.LIN.L008
import E3nnVerif.Generated.LIN.L009
import E3nnVerif.Generated.LIN.L010
import E3nnVerif.Generated.LIN.L011
import E3nnVerif.Generated.LIN.L012
import E3nnVerif.Generated.LIN.L013
import E3nnVerif.Generated.LIN.L014
import E3nnVerif.Generated.LIN.L015
import E3nnVerif.Generated.LIN.L016
import E3nnVerif.Generated.LIN.L017
import E3nnVerif.Generated.LIN.L018
import E3nnVerif.Generated.LIN.L019
import E3nnVerif.Generated.LIN.L020
import E3nnVerif.Generated.LIN.L021
import E3nnVerif.Generated.LIN.L022
import E3nnVerif.Generated.LIN.L023
import E3nnVerif.Generated.LIN.L024
import E3nnVerif.Generated.LIN.L025
import E3nnVerif.Generated.LIN.L026
import E3nnVerif.Generated.LIN.L027
import E3nnVerif.Generated.LIN.L028
import E3nnVerif.Generated.LIN.L029
import E3nnVerif.Generated.LIN.L030
import E3nnVerif.Generated.LIN.L031
import E3nnVerif.Generated.LIN.L032
import E3nnVerif.Generated.LIN.L033
import E3nnVerif.Generated.LIN.L034
import E3nnVerif.Generated.LIN.L035
import E3nnVerif.Generated.LIN.L036
import E3nnVerif.Generated.LIN.L037
import E3nnVerif.Generated.LIN.L038
import E3nnVerif.Generated.LIN.L039
import E3nnVerif.Generated.LIN.X000
import E3nnVerif.Generated.LIN.X001
import E3nnVerif.Generated.LIN.X002
import E3nnVerif.Generated.LIN.X003
import E3nnVerif.Generated.LIN.X004
import E3nnVerif.Generated.LIN.X005
import E3nnVerif.Generated.LIN.X006
import E3nnVerif.Generated.LIN.X007
import E3nnVerif.Generated.LIN.X008
import E3nnVerif.Generated.LIN.X009
import E3nnVerif.Generated.LIN.X010
import E3nnVerif.Generated.LIN.X011
import E3nnVerif.Generated.LIN.X012
import E3nnVerif.Generated.LIN.X013
import E3nnVerif.Generated.LIN.X014
import E3nnVerif.Generated.LIN.X015
import E3nnVerif.Generated.LIN.X016
import E3nnVerif.Generated.LIN.X017
import E3nnVerif.Generated.LIN.X018
import E3nnVerif.Generated.LIN.X019
import E3nnVerif.Generated.LIN.X020
import E3nnVerif.Generated.LIN.X021
import E3nnVerif.Generated.LIN.X022
import E3nnVerif.Generated.LIN.X023
import E3nnVerif.Generated.LIN.X024
import E3nnVerif.Generated.LIN.X025
import E3nnVerif.Generated.LIN.X026
import E3nnVerif.Generated.LIN.X027
import E3nnVerif.Generated.LIN.X028
import E3nnVerif.Generated.LIN.R000
import E3nnVerif.Generated.LIN.R001
import E3nnVerif.Generated.LIN.R002
import E3nnVerif.Generated.LIN.R003
import E3nnVerif.Model.LinearSpec
/- GENERATED: the Linear programs of this run, for the line-protocol driver -/
namespace E3nnVerif.Generated.LIN
open E3nnVerif.IR E3nnVerif.Model.Lin

def registry : List (String × Cfg × List Node) := [
  ("L000", L000.cfg, L000.prog),
  ("L001", L001.cfg, L001.prog),
  ("L002", L002.cfg, L002.prog),
  ("L003", L003.cfg, L003.prog),
  ("L004", L004.cfg, L004.prog),
  ("L005", L005.cfg, L005.prog),
  ("L006", L006.cfg, L006.prog),
  ("L007", L007.cfg, L007.prog),
  ("L008", L008.cfg, L008.prog),
  ("L009", L009.cfg, L009.prog),
  ("L010", L010.cfg, L010.prog),
  ("L011", L011.cfg, L011.prog),
  ("L012", L012.cfg, L012.prog),
  ("L013", L013.cfg, L013.prog),
  ("L014", L014.cfg, L014.prog),
  ("L015", L015.cfg, L015.prog),
  ("L016", L016.cfg, L016.prog),
  ("L017", L017.cfg, L017.prog),
  ("L018", L018.cfg, L018.prog),
  ("L019", L019.cfg, L019.prog),
  ("L020", L020.cfg, L020.prog),
  ("L021", L021.cfg, L021.prog),
  ("L022", L022.cfg, L022.prog),
  ("L023", L023.cfg, L023.prog),
  ("L024", L024.cfg, L024.prog),
  ("L025", L025.cfg, L025.prog),
  ("L026", L026.cfg, L026.prog),
  ("L027", L027.cfg, L027.prog),
  ("L028", L028.cfg, L028.prog),
  ("L029", L029.cfg, L029.prog),
  ("L030", L030.cfg, L030.prog),
  ("L031", L031.cfg, L031.prog),
  ("L032", L032.cfg, L032.prog),
  ("L033", L033.cfg, L033.prog),
  ("L034", L034.cfg, L034.prog),
  ("L035", L035.cfg, L035.prog),
  ("L036", L036.cfg, L036.prog),
  ("L037", L037.cfg, L037.prog),
  ("L038", L038.cfg, L038.prog),
  ("L039", L039.cfg, L039.prog),
  ("X000", X000.cfg, X000.prog),
  ("X001", X001.cfg, X001.prog),
  ("X002", X002.cfg, X002.prog),
  ("X003", X003.cfg, X003.prog),
  ("X004", X004.cfg, X004.prog),
  ("X005", X005.cfg, X005.prog),
  ("X006", X006.cfg, X006.prog),
  ("X007", X007.cfg, X007.prog),
  ("X008", X008.cfg, X008.prog),
  ("X009", X009.cfg, X009.prog),
  ("X010", X010.cfg, X010.prog),
  ("X011", X011.cfg, X011.prog),
  ("X012", X012.cfg, X012.prog),
  ("X013", X013.cfg, X013.prog),
  ("X014", X014.cfg, X014.prog),
  ("X015", X015.cfg, X015.prog),
  ("X016", X016.cfg, X016.prog),
  ("X017", X017.cfg, X017.prog),
  ("X018", X018.cfg, X018.prog),
  ("X019", X019.cfg, X019.prog),
  ("X020", X020.cfg, X020.prog),
  ("X021", X021.cfg, X021.prog),
  ("X022", X022.cfg, X022.prog),
  ("X023", X023.cfg, X023.prog),
  ("X024", X024.cfg, X024.prog),
  ("X025", X025.cfg, X025.prog),
  ("X026", X026.cfg, X026.prog),
  ("X027", X027.cfg, X027.prog),
  ("X028", X028.cfg, X028.prog),
  ("R000", R000.cfg, R000.prog),
  ("R001", R001.cfg, R001.prog),
  ("R002", R002.cfg, R002.prog),
  ("R003", R003.cfg, R003.prog)
]

end E3nnVerif.Generated.LIN
