import E3nnVerif.Generated.RTP.S2_1o
import E3nnVerif.Generated.RTP.A2_1o
import E3nnVerif.Generated.RTP.S2_1e
import E3nnVerif.Generated.RTP.S2_0e1o
import E3nnVerif.Generated.RTP.A2_0e1o
import E3nnVerif.Generated.RTP.S2_2e
import E3nnVerif.Generated.RTP.A2_2e
import E3nnVerif.Generated.RTP.N2_1o2e
import E3nnVerif.Generated.RTP.S3_1o
import E3nnVerif.Generated.RTP.A3_1o
import E3nnVerif.Generated.RTP.P3_1o
import E3nnVerif.Generated.RTP.C3_1o
import E3nnVerif.Generated.RTP.S2_1o_fo2
import E3nnVerif.Generated.RTP.S3_1o_fm
import E3nnVerif.Generated.RTP.V0
import E3nnVerif.Generated.RTP.V1
/- GENERATED: the configurations of this run, for the line-protocol driver -/
namespace E3nnVerif.Generated.RTP
open E3nnVerif.Model.RTP

def registry : List (String × String × Cfg × List E3nnVerif.IR.Node) := [
  ("S2_1o", S2_1o.formula, S2_1o.cfg, S2_1o.prog),
  ("A2_1o", A2_1o.formula, A2_1o.cfg, A2_1o.prog),
  ("S2_1e", S2_1e.formula, S2_1e.cfg, S2_1e.prog),
  ("S2_0e1o", S2_0e1o.formula, S2_0e1o.cfg, S2_0e1o.prog),
  ("A2_0e1o", A2_0e1o.formula, A2_0e1o.cfg, A2_0e1o.prog),
  ("S2_2e", S2_2e.formula, S2_2e.cfg, S2_2e.prog),
  ("A2_2e", A2_2e.formula, A2_2e.cfg, A2_2e.prog),
  ("N2_1o2e", N2_1o2e.formula, N2_1o2e.cfg, N2_1o2e.prog),
  ("S3_1o", S3_1o.formula, S3_1o.cfg, S3_1o.prog),
  ("A3_1o", A3_1o.formula, A3_1o.cfg, A3_1o.prog),
  ("P3_1o", P3_1o.formula, P3_1o.cfg, P3_1o.prog),
  ("C3_1o", C3_1o.formula, C3_1o.cfg, C3_1o.prog),
  ("S2_1o_fo2", S2_1o_fo2.formula, S2_1o_fo2.cfg, S2_1o_fo2.prog),
  ("S3_1o_fm", S3_1o_fm.formula, S3_1o_fm.cfg, S3_1o_fm.prog),
  ("V0", V0.formula, V0.cfg, V0.prog),
  ("V1", V1.formula, V1.cfg, V1.prog)
]

end E3nnVerif.Generated.RTP
