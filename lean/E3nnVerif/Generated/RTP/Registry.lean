import E3nnVerif.Generated.RTP.S2_1o
import E3nnVerif.Generated.RTP.A2_1o
import E3nnVerif.Generated.RTP.S2_1e
import E3nnVerif.Generated.RTP.S2_0e1o
import E3nnVerif.Generated.RTP.A2_0e1o
import E3nnVerif.Generated.RTP.S2_2e
import E3nnVerif.Generated.RTP.A2_2e
import E3nnVerif.Generated.RTP.N2_1o2e
import E3nnVerif.Generated.RTP.S3_1o
import E3nnVerif.Generated.RTP.A3_1o
import E3nnVerif.Generated.RTP.P3_1o
import E3nnVerif.Generated.RTP.C3_1o
import E3nnVerif.Generated.RTP.S2_1o_fo2
import E3nnVerif.Generated.RTP.S3_1o_fm
import E3nnVerif.Generated.RTP.A2_1e
import E3nnVerif.Generated.RTP.S2_1o2e
import E3nnVerif.Generated.RTP.A2_1o2e
import E3nnVerif.Generated.RTP.S2_2x1o
import E3nnVerif.Generated.RTP.S2_1o1e
import E3nnVerif.Generated.RTP.A2_1o1e
import E3nnVerif.Generated.RTP.S2_3o
import E3nnVerif.Generated.RTP.A2_3o
import E3nnVerif.Generated.RTP.S2_0e1o2e
import E3nnVerif.Generated.RTP.N2_1o1o
import E3nnVerif.Generated.RTP.N2_1e2e
import E3nnVerif.Generated.RTP.N2_0e1o_2e
import E3nnVerif.Generated.RTP.S3_1e
import E3nnVerif.Generated.RTP.A3_1e
import E3nnVerif.Generated.RTP.S3_0e1o
import E3nnVerif.Generated.RTP.A3_0e1o
import E3nnVerif.Generated.RTP.A3_2e
import E3nnVerif.Generated.RTP.P3_1o_2e
import E3nnVerif.Generated.RTP.P3m_1o
import E3nnVerif.Generated.RTP.P3_1e_0e1o
import E3nnVerif.Generated.RTP.Q3_1o
import E3nnVerif.Generated.RTP.Q3m_1o
import E3nnVerif.Generated.RTP.R3_1o
import E3nnVerif.Generated.RTP.C3m_1o
import E3nnVerif.Generated.RTP.C3_0e1o
import E3nnVerif.Generated.RTP.N3_1o
import E3nnVerif.Generated.RTP.N3_mixed
import E3nnVerif.Generated.RTP.S4_1o
import E3nnVerif.Generated.RTP.R4_1o
import E3nnVerif.Generated.RTP.F4_1e
import E3nnVerif.Generated.RTP.E4_1o
import E3nnVerif.Generated.RTP.P4_1o
import E3nnVerif.Generated.RTP.Y4_1o
import E3nnVerif.Generated.RTP.S2_2e_fo
import E3nnVerif.Generated.RTP.S2_1o2e_fo
import E3nnVerif.Generated.RTP.S3_0e1o_fo
import E3nnVerif.Generated.RTP.S3_2e_fm
import E3nnVerif.Generated.RTP.S4_1o_fm
import E3nnVerif.Generated.RTP.S4_1o_fo
import E3nnVerif.Generated.RTP.V0
import E3nnVerif.Generated.RTP.V1
import E3nnVerif.Generated.RTP.V2
import E3nnVerif.Generated.RTP.V3
import E3nnVerif.Generated.RTP.V4
import E3nnVerif.Generated.RTP.V5
/- GENERATED: the configurations of this run, for the line-protocol driver -/
namespace E3nnVerif.Generated.RTP
open E3nnVerif.Model.RTP

def registry : List (String × String × Cfg × List E3nnVerif.IR.Node) := [
  ("S2_1o", S2_1o.formula, S2_1o.cfg, S2_1o.prog),
  ("A2_1o", A2_1o.formula, A2_1o.cfg, A2_1o.prog),
  ("S2_1e", S2_1e.formula, S2_1e.cfg, S2_1e.prog),
  ("S2_0e1o", S2_0e1o.formula, S2_0e1o.cfg, S2_0e1o.prog),
  ("A2_0e1o", A2_0e1o.formula, A2_0e1o.cfg, A2_0e1o.prog),
  ("S2_2e", S2_2e.formula, S2_2e.cfg, S2_2e.prog),
  ("A2_2e", A2_2e.formula, A2_2e.cfg, A2_2e.prog),
  ("N2_1o2e", N2_1o2e.formula, N2_1o2e.cfg, N2_1o2e.prog),
  ("S3_1o", S3_1o.formula, S3_1o.cfg, S3_1o.prog),
  ("A3_1o", A3_1o.formula, A3_1o.cfg, A3_1o.prog),
  ("P3_1o", P3_1o.formula, P3_1o.cfg, P3_1o.prog),
  ("C3_1o", C3_1o.formula, C3_1o.cfg, C3_1o.prog),
  ("S2_1o_fo2", S2_1o_fo2.formula, S2_1o_fo2.cfg, S2_1o_fo2.prog),
  ("S3_1o_fm", S3_1o_fm.formula, S3_1o_fm.cfg, S3_1o_fm.prog),
  ("A2_1e", A2_1e.formula, A2_1e.cfg, A2_1e.prog),
  ("S2_1o2e", S2_1o2e.formula, S2_1o2e.cfg, S2_1o2e.prog),
  ("A2_1o2e", A2_1o2e.formula, A2_1o2e.cfg, A2_1o2e.prog),
  ("S2_2x1o", S2_2x1o.formula, S2_2x1o.cfg, S2_2x1o.prog),
  ("S2_1o1e", S2_1o1e.formula, S2_1o1e.cfg, S2_1o1e.prog),
  ("A2_1o1e", A2_1o1e.formula, A2_1o1e.cfg, A2_1o1e.prog),
  ("S2_3o", S2_3o.formula, S2_3o.cfg, S2_3o.prog),
  ("A2_3o", A2_3o.formula, A2_3o.cfg, A2_3o.prog),
  ("S2_0e1o2e", S2_0e1o2e.formula, S2_0e1o2e.cfg, S2_0e1o2e.prog),
  ("N2_1o1o", N2_1o1o.formula, N2_1o1o.cfg, N2_1o1o.prog),
  ("N2_1e2e", N2_1e2e.formula, N2_1e2e.cfg, N2_1e2e.prog),
  ("N2_0e1o_2e", N2_0e1o_2e.formula, N2_0e1o_2e.cfg, N2_0e1o_2e.prog),
  ("S3_1e", S3_1e.formula, S3_1e.cfg, S3_1e.prog),
  ("A3_1e", A3_1e.formula, A3_1e.cfg, A3_1e.prog),
  ("S3_0e1o", S3_0e1o.formula, S3_0e1o.cfg, S3_0e1o.prog),
  ("A3_0e1o", A3_0e1o.formula, A3_0e1o.cfg, A3_0e1o.prog),
  ("A3_2e", A3_2e.formula, A3_2e.cfg, A3_2e.prog),
  ("P3_1o_2e", P3_1o_2e.formula, P3_1o_2e.cfg, P3_1o_2e.prog),
  ("P3m_1o", P3m_1o.formula, P3m_1o.cfg, P3m_1o.prog),
  ("P3_1e_0e1o", P3_1e_0e1o.formula, P3_1e_0e1o.cfg, P3_1e_0e1o.prog),
  ("Q3_1o", Q3_1o.formula, Q3_1o.cfg, Q3_1o.prog),
  ("Q3m_1o", Q3m_1o.formula, Q3m_1o.cfg, Q3m_1o.prog),
  ("R3_1o", R3_1o.formula, R3_1o.cfg, R3_1o.prog),
  ("C3m_1o", C3m_1o.formula, C3m_1o.cfg, C3m_1o.prog),
  ("C3_0e1o", C3_0e1o.formula, C3_0e1o.cfg, C3_0e1o.prog),
  ("N3_1o", N3_1o.formula, N3_1o.cfg, N3_1o.prog),
  ("N3_mixed", N3_mixed.formula, N3_mixed.cfg, N3_mixed.prog),
  ("S4_1o", S4_1o.formula, S4_1o.cfg, S4_1o.prog),
  ("R4_1o", R4_1o.formula, R4_1o.cfg, R4_1o.prog),
  ("F4_1e", F4_1e.formula, F4_1e.cfg, F4_1e.prog),
  ("E4_1o", E4_1o.formula, E4_1o.cfg, E4_1o.prog),
  ("P4_1o", P4_1o.formula, P4_1o.cfg, P4_1o.prog),
  ("Y4_1o", Y4_1o.formula, Y4_1o.cfg, Y4_1o.prog),
  ("S2_2e_fo", S2_2e_fo.formula, S2_2e_fo.cfg, S2_2e_fo.prog),
  ("S2_1o2e_fo", S2_1o2e_fo.formula, S2_1o2e_fo.cfg, S2_1o2e_fo.prog),
  ("S3_0e1o_fo", S3_0e1o_fo.formula, S3_0e1o_fo.cfg, S3_0e1o_fo.prog),
  ("S3_2e_fm", S3_2e_fm.formula, S3_2e_fm.cfg, S3_2e_fm.prog),
  ("S4_1o_fm", S4_1o_fm.formula, S4_1o_fm.cfg, S4_1o_fm.prog),
  ("S4_1o_fo", S4_1o_fo.formula, S4_1o_fo.cfg, S4_1o_fo.prog),
  ("V0", V0.formula, V0.cfg, V0.prog),
  ("V1", V1.formula, V1.cfg, V1.prog),
  ("V2", V2.formula, V2.cfg, V2.prog),
  ("V3", V3.formula, V3.cfg, V3.prog),
  ("V4", V4.formula, V4.cfg, V4.prog),
  ("V5", V5.formula, V5.cfg, V5.prog)
]

end E3nnVerif.Generated.RTP
