/-
Sorted association lists with merging insertion: the common shape of `SqrtQ` (radicand ↦ rational
coefficient) and `Poly` (monomial ↦ SqrtQ coefficient).  Structural recursion only, so the kernel can
evaluate everything (`decide +kernel`).  Soundness of these operations w.r.t. evaluation in ℝ is proved
once, generically, in `E3nnVerif/Sound/AList.lean`.
-/
namespace E3nnVerif.Exact

class Key (K : Type) where
  cmp : K → K → Ordering

def natCmp (a b : Nat) : Ordering :=
  bif Nat.blt a b then .lt else bif Nat.beq a b then .eq else .gt

instance : Key Nat := ⟨natCmp⟩

/-- lexicographic comparison of lists of naturals (shorter prefix first) -/
def listCmp : List Nat → List Nat → Ordering
  | [], [] => .eq
  | [], _ :: _ => .lt
  | _ :: _, [] => .gt
  | a :: as, b :: bs =>
    match natCmp a b with
    | .lt => .lt
    | .gt => .gt
    | .eq => listCmp as bs

instance : Key (List Nat) := ⟨listCmp⟩

abbrev AList (K C : Type) := List (K × C)

namespace AList
variable {K C : Type} [Key K] [Add C]

def insert (k : K) (c : C) : AList K C → AList K C
  | [] => [(k, c)]
  | (k', c') :: t =>
    match Key.cmp k k' with
    | .lt => (k, c) :: (k', c') :: t
    | .eq => (k', c' + c) :: t
    | .gt => (k', c') :: insert k c t

/-- `a + b` : insert every term of `a` into `b` -/
def add (a b : AList K C) : AList K C :=
  a.foldr (fun kc acc => insert kc.1 kc.2 acc) b

/-- rebuild (sort + merge) an arbitrary list of terms -/
def ofList (a : List (K × C)) : AList K C := add a []

def mapCoef {D : Type} (f : C → D) (a : AList K C) : AList K D := a.map (fun kc => (kc.1, f kc.2))

/-- drop the terms whose coefficient is (syntactically) zero -/
def prune (isZero : C → Bool) (a : AList K C) : AList K C := a.filter (fun kc => !isZero kc.2)

def allZero (isZero : C → Bool) (a : AList K C) : Bool := a.all (fun kc => isZero kc.2)

end AList
end E3nnVerif.Exact
