import E3nnVerif.Exact.SqrtQ
/-
Sparse multivariate polynomials over `SqrtQ`.  A monomial is the sorted list of its variable ids with
repetition (`x₀²x₃ = [0,0,3]`); a polynomial is a sorted association list monomial ↦ coefficient.
`Poly` is the symbolic instance at which IR programs / spherical-harmonics source are evaluated inside
the kernel; `Sound/Poly.lean` proves that evaluation at real points is a ring homomorphism.
-/
namespace E3nnVerif.Exact

abbrev Mono := List Nat

namespace Mono
def insert (v : Nat) : Mono → Mono
  | [] => [v]
  | w :: t => bif Nat.ble v w then v :: w :: t else w :: insert v t
def mul (a b : Mono) : Mono := a.foldr insert b
def degree (a : Mono) : Nat := a.length
/-- exponent of variable `v` -/
def expo (v : Nat) (a : Mono) : Nat := a.foldr (fun w n => bif Nat.beq v w then n + 1 else n) 0
/-- remove one occurrence of `v` (derivative helper) -/
def removeOne (v : Nat) : Mono → Mono
  | [] => []
  | w :: t => bif Nat.beq v w then t else w :: removeOne v t
end Mono

abbrev Poly := AList Mono SqrtQ

namespace Poly

def zero : Poly := []
def const (c : SqrtQ) : Poly := [([], c)]
def one : Poly := const SqrtQ.one
def var (i : Nat) : Poly := [([i], SqrtQ.one)]
def ofInt (n : Int) : Poly := const (SqrtQ.ofInt n)

def prune (a : Poly) : Poly := AList.prune SqrtQ.isZero a
def add (a b : Poly) : Poly := prune (AList.add a b)
def neg (a : Poly) : Poly := AList.mapCoef SqrtQ.neg a
def sub (a b : Poly) : Poly := add a (neg b)
def scale (c : SqrtQ) (a : Poly) : Poly := prune (AList.mapCoef (SqrtQ.mul c) a)

def mulTermAll (t : Mono × SqrtQ) (b : Poly) (acc : Poly) : Poly :=
  b.foldr (fun u acc => AList.insert (Mono.mul t.1 u.1) (SqrtQ.mul t.2 u.2) acc) acc

def mul (a b : Poly) : Poly :=
  prune (a.foldr (fun t acc => mulTermAll t b acc) [])

def pow (a : Poly) : Nat → Poly
  | 0 => one
  | n + 1 => mul (pow a n) a

def isZero (a : Poly) : Bool := AList.allZero SqrtQ.isZero a
def beq (a b : Poly) : Bool := isZero (sub a b)

/-- ∂/∂x_v -/
def deriv (v : Nat) (a : Poly) : Poly :=
  prune (AList.ofList (a.map fun t =>
    let e := Mono.expo v t.1
    (Mono.removeOne v t.1, SqrtQ.scale (Q.ofNat e) t.2)))

/-- every monomial has total degree `d` -/
def homogeneous (d : Nat) (a : Poly) : Bool := a.all (fun t => t.2.isZero || t.1.length == d)

instance : Add Poly := ⟨add⟩
instance : Mul Poly := ⟨mul⟩
instance : Neg Poly := ⟨neg⟩
instance : Sub Poly := ⟨sub⟩

def toString (a : Poly) : String :=
  if a.isEmpty then "0" else " + ".intercalate (a.map fun t => s!"({t.2})*x{t.1}")
instance : ToString Poly := ⟨toString⟩

end Poly
end E3nnVerif.Exact
