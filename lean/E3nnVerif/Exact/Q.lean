/-
Exact rationals for kernel evaluation (`decide +kernel`): numerator over `dm1 + 1`, so every value is
well formed by construction and every operation is total without side conditions.
Mathlib-free, structurally recursive, uses only `Nat.gcd`/`Nat` arithmetic (GMP-accelerated in the kernel).
-/
namespace E3nnVerif.Exact

structure Q where
  n : Int
  dm1 : Nat
deriving Repr, DecidableEq, Inhabited

namespace Q

@[inline] def den (a : Q) : Nat := a.dm1 + 1

/-- `n / d` in lowest terms (`d = 0` is read as `1`; the translators never emit it). -/
def norm (n : Int) (d : Nat) : Q :=
  let g := Nat.gcd n.natAbs d
  ⟨n / (g : Int), d / g - 1⟩

/-- `mk' n d` = n/d -/
def mk' (n : Int) (d : Nat) : Q := norm n d

def ofInt (n : Int) : Q := ⟨n, 0⟩
def ofNat (n : Nat) : Q := ⟨n, 0⟩
def zero : Q := ⟨0, 0⟩
def one : Q := ⟨1, 0⟩

def add (a b : Q) : Q := norm (a.n * b.den + b.n * a.den) (a.den * b.den)
def mul (a b : Q) : Q := norm (a.n * b.n) (a.den * b.den)
def neg (a : Q) : Q := ⟨-a.n, a.dm1⟩
def sub (a b : Q) : Q := add a (neg b)
def mulNat (a : Q) (k : Nat) : Q := norm (a.n * k) a.den
/-- inverse (0 ↦ 0) -/
def inv (a : Q) : Q :=
  match a.n with
  | .ofNat 0 => zero
  | .ofNat (k+1) => norm a.den (k+1)
  | .negSucc k => norm (-(a.den : Int)) (k+1)
def div (a b : Q) : Q := mul a (inv b)

def isZero (a : Q) : Bool := a.n == 0
/-- equality of values (cross-multiplication; does not rely on lowest terms) -/
def beq (a b : Q) : Bool := a.n * b.den == b.n * a.den
def lt (a b : Q) : Bool := decide (a.n * b.den < b.n * a.den)
def le (a b : Q) : Bool := decide (a.n * b.den ≤ b.n * a.den)

instance : Add Q := ⟨add⟩
instance : Mul Q := ⟨mul⟩
instance : Neg Q := ⟨neg⟩
instance : Sub Q := ⟨sub⟩
instance : Div Q := ⟨div⟩
instance {k : Nat} : OfNat Q k := ⟨ofNat k⟩

def toString (a : Q) : String :=
  if a.dm1 == 0 then s!"{a.n}" else s!"{a.n}/{a.den}"
instance : ToString Q := ⟨toString⟩

def toFloat (a : Q) : Float := Float.ofInt a.n / Float.ofNat a.den

end Q
end E3nnVerif.Exact
