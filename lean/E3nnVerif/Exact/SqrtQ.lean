import E3nnVerif.Exact.Q
import E3nnVerif.Exact.AList
/-
`SqrtQ`: finite sums  Σ cᵢ·√rᵢ  with rational cᵢ and natural radicands rᵢ (kept squarefree by the
translators; soundness does not depend on that, only completeness of the zero test does).
Every constant e3nn's generated kernels contain (Clebsch–Gordan entries, normalisation factors,
spherical-harmonics coefficients, so(3) generators) is of this form.
-/
namespace E3nnVerif.Exact

abbrev SqrtQ := AList Nat Q

namespace SqrtQ

def zero : SqrtQ := []
def ofQ (c : Q) : SqrtQ := [(1, c)]
def one : SqrtQ := ofQ Q.one
def ofInt (n : Int) : SqrtQ := ofQ (Q.ofInt n)
/-- `c·√r` -/
def term (c : Q) (r : Nat) : SqrtQ := [(r, c)]
/-- `(n/d)·√r` -/
def mk (n : Int) (d : Nat) (r : Nat) : SqrtQ := [(r, Q.mk' n d)]

def add (a b : SqrtQ) : SqrtQ := AList.prune Q.isZero (AList.add a b)
def neg (a : SqrtQ) : SqrtQ := AList.mapCoef Q.neg a
def sub (a b : SqrtQ) : SqrtQ := add a (neg b)

/-- `c₁√r₁ · c₂√r₂ = c₁c₂g · √((r₁/g)(r₂/g))`, `g = gcd r₁ r₂` -/
def mulTerm (a b : Nat × Q) : Nat × Q :=
  let g := Nat.gcd a.1 b.1
  ((a.1 / g) * (b.1 / g), Q.mulNat (Q.mul a.2 b.2) g)

def mulTermAll (t : Nat × Q) (b : SqrtQ) (acc : SqrtQ) : SqrtQ :=
  b.foldr (fun u acc => let p := mulTerm t u; AList.insert p.1 p.2 acc) acc

def mul (a b : SqrtQ) : SqrtQ :=
  AList.prune Q.isZero (a.foldr (fun t acc => mulTermAll t b acc) [])

def scale (c : Q) (a : SqrtQ) : SqrtQ := AList.mapCoef (Q.mul c) a

/-- sound zero test: every coefficient is 0 -/
def isZero (a : SqrtQ) : Bool := AList.allZero Q.isZero a
/-- sound equality test -/
def beq (a b : SqrtQ) : Bool := isZero (sub a b)

instance : Add SqrtQ := ⟨add⟩
instance : Mul SqrtQ := ⟨mul⟩
instance : Neg SqrtQ := ⟨neg⟩
instance : Sub SqrtQ := ⟨sub⟩

def toFloat (a : SqrtQ) : Float := a.foldl (fun s t => s + t.2.toFloat * Float.sqrt (Float.ofNat t.1)) 0.0

def toString (a : SqrtQ) : String :=
  if a.isEmpty then "0" else " + ".intercalate (a.map fun t => s!"{t.2}*sqrt({t.1})")
instance : ToString SqrtQ := ⟨toString⟩

end SqrtQ
end E3nnVerif.Exact
