import E3nnVerif.Exact.SqrtQ
/-
Exact model of e3nn/o3/_wigner.py, function by function, in ℚ(i)(√n):

  su2_generators, change_basis_real_to_complex, so3_generators,
  _su2_clebsch_gordan_coeff (Racah sum, Condon–Shortley phases), _su2_clebsch_gordan,
  _so3_clebsch_gordan (basis change, real part, Frobenius normalisation)  =  wigner_3j.

Everything is structurally recursive and Mathlib-free so that the kernel can evaluate it.
The float tables the Python code returns are compared entry by entry with `toFloat` of these values by
the correspondence check; the certificates in `Cert/` are statements about these exact tables.
-/
namespace E3nnVerif.Model.Wigner
open E3nnVerif.Exact

/-! ### complex numbers over SqrtQ
Every complex number the pipeline multiplies is `i^ph · v` with a real `v` (the basis-change entries are
`±1/√2, ±i/√2, 1` times `(-i)^l`, the su(2) generators are purely real or purely imaginary, the su(2)
Clebsch–Gordan coefficients are real), so products are kept in that phase-tagged form (`PS`) and only the
sums are split into real and imaginary part (`CS`). -/
structure CS where
  re : SqrtQ
  im : SqrtQ
deriving Repr

/-- `i^ph · v` -/
structure PS where
  ph : Nat
  v : SqrtQ
deriving Repr

namespace PS
def zero : PS := ⟨0, []⟩
def mul (a b : PS) : PS := ⟨(a.ph + b.ph) % 4, a.v * b.v⟩
def conj (a : PS) : PS := ⟨(4 - a.ph % 4) % 4, a.v⟩
def isZero (a : PS) : Bool := a.v.isZero
instance : Mul PS := ⟨mul⟩
end PS

namespace CS
def zero : CS := ⟨[], []⟩
/-- `acc + i^ph · v` -/
def addPS (acc : CS) (a : PS) : CS :=
  bif a.v.isZero then acc else
  match a.ph % 4 with
  | 0 => ⟨acc.re + a.v, acc.im⟩
  | 1 => ⟨acc.re, acc.im + a.v⟩
  | 2 => ⟨acc.re - a.v, acc.im⟩
  | _ => ⟨acc.re, acc.im - a.v⟩
end CS

/-! ### integer helpers -/
def fact : Nat → Nat
  | 0 => 1
  | n + 1 => (n + 1) * fact n

/-- divide `d²` out of `n` as often as possible (`fuel` bounds the iterations): returns (s, r) with
    `n = s² · r` for the accumulated factor -/
def divSq (d : Nat) : Nat → Nat → Nat → Nat × Nat
  | 0, s, n => (s, n)
  | fuel + 1, s, n =>
    bif Nat.beq (n % (d * d)) 0 && Nat.blt 0 n && Nat.blt 1 d then divSq d fuel (s * d) (n / (d * d)) else (s, n)

/-- squarefree split by trial division with `d = 2 … bound+1`: `n = s²·r` -/
def sqSplitAux : Nat → Nat → Nat → Nat → Nat × Nat
  | 0, _, s, n => (s, n)
  | k + 1, d, s, n =>
    let p := divSq d 400 s n
    sqSplitAux k (d + 1) p.1 p.2

def sqSplit (bound n : Nat) : Nat × Nat := sqSplitAux bound 2 1 n

/-- `c · √(p/q)` as a single canonical term (`bound` ≥ largest prime factor of `p·q`) -/
def sqrtRat (bound : Nat) (c : Q) (p q : Nat) : SqrtQ :=
  bif Nat.beq p 0 || c.isZero then [] else
  let sr := sqSplit bound (p * q)
  -- √(p/q) = √(pq)/q = s√r / q
  [(sr.2, Q.mul c (Q.mk' sr.1 q))]

def negOnePow (n : Nat) : Int := if n % 2 == 0 then 1 else -1

/-! ### su(2) Clebsch–Gordan (integer spins; `m` stored shifted: `a = j + m ∈ [0, 2j]`) -/

/-- `_su2_clebsch_gordan_coeff((j1,m1),(j2,m2),(j3,m3))` with `ai = ji + mi`; caller guarantees m3 = m1+m2 -/
def su2Coeff (j1 j2 j3 a1 a2 a3 : Nat) : SqrtQ :=
  -- all quantities as integers
  let J1 : Int := j1; let J2 : Int := j2; let J3 : Int := j3
  let m1 : Int := (a1 : Int) - J1
  let m2 : Int := (a2 : Int) - J2
  let m3 : Int := (a3 : Int) - J3
  let vmin : Int := max (max (-J1 + J2 + m3) (-J1 + m1)) 0
  let vmax : Int := min (min (J2 + J3 + m1) (J3 - J1 + J2)) (J3 + m3)
  let f : Int → Nat := fun z => fact z.toNat
  let num := (2 * j3 + 1) * (f (J3 + J1 - J2) * f (J3 - J1 + J2) * f (J1 + J2 - J3) * f (J3 + m3) * f (J3 - m3))
  let den := f (J1 + J2 + J3 + 1) * f (J1 - m1) * f (J1 + m1) * f (J2 - m2) * f (J2 + m2)
  let cnt : Nat := (vmax - vmin + 1).toNat
  let S : Q := (List.range cnt).foldl (fun (acc : Q) (i : Nat) =>
      let v : Int := vmin + i
      let sgn := negOnePow (v + J2 + m2).toNat
      let tn := f (J2 + J3 + m1 - v) * f (J1 - m1 + v)
      let td := f v * f (J3 - J1 + J2 - v) * f (J3 + m3 - v) * f (v + J1 - J2 - m3)
      acc + Q.mk' (sgn * (tn : Int)) td) Q.zero
  sqrtRat (j1 + j2 + j3 + 2) S num den

/-! ### change of basis real → complex, entry `q[i, j]` -/
def invSqrt2 : SqrtQ := SqrtQ.mk 1 2 2

def cbEntry (l i j : Nat) : PS :=
  let base : PS :=
    if i < l then
      -- m = i - l < 0, |m| = l - i :  q[l+m, l+|m|] = 1/√2 ,  q[l+m, l-|m|] = -i/√2
      let am := l - i
      if j == l + am then ⟨0, invSqrt2⟩
      else if j + am == l then ⟨3, invSqrt2⟩
      else PS.zero
    else if i == l then
      if j == l then ⟨0, SqrtQ.one⟩ else PS.zero
    else
      -- m > 0 :  q[l+m, l+|m|] = (-1)^m/√2 ,  q[l+m, l-|m|] = i(-1)^m/√2
      let am := i - l
      let s : Nat := if am % 2 == 0 then 0 else 2
      if j == l + am then ⟨s, invSqrt2⟩
      else if j + am == l then ⟨s + 1, invSqrt2⟩
      else PS.zero
  -- q = (-i)^l q
  ⟨(base.ph + 3 * l) % 4, base.v⟩

/-- columns `i` with `q[i, j] ≠ 0` -/
def cbRows (l j : Nat) : List Nat :=
  if j == l then [l] else
  let am := if j < l then l - j else j - l
  [l - am, l + am]

/-! ### su(2) generators -/
def su2Gen (j : Nat) (a r c : Nat) : PS :=
  -- raising[r+1, r] = -sqrt(j(j+1) - m(m+1)), m = -j + r ; lowering[r, r+1] = sqrt(j(j+1) - m(m-1)), m = -j+1+r
  let J : Int := j
  let raising : SqrtQ :=
    if r == c + 1 then
      let m : Int := -J + c
      sqrtRat (2 * j + 2) (Q.ofInt (-1)) (J * (J + 1) - m * (m + 1)).toNat 1
    else []
  let lowering : SqrtQ :=
    if c == r + 1 then
      let m : Int := -J + 1 + r
      sqrtRat (2 * j + 2) Q.one (J * (J + 1) - m * (m - 1)).toNat 1
    else []
  let half : Q := Q.mk' 1 2
  match a with
  | 0 => ⟨0, SqrtQ.scale half (raising + lowering)⟩               -- 0.5 (raising + lowering)
  | 1 => if r == c then ⟨1, SqrtQ.ofInt (-J + r)⟩ else PS.zero     -- diag(1j m)
  | _ => ⟨3, SqrtQ.scale half (raising - lowering)⟩               -- -0.5j (raising - lowering)

/-- `so3_generators(l)[a][r, c]`, complex value before the code takes the real part -/
def so3GenC (l a r c : Nat) : CS :=
  -- (Q† J Q)[r,c] = Σ_{i,k} conj(Q[i,r]) J[i,k] Q[k,c]
  (cbRows l r).foldl (fun (acc : CS) (i : Nat) =>
    (cbRows l c).foldl (fun (acc : CS) (k : Nat) =>
      acc.addPS ((cbEntry l i r).conj * (su2Gen l a i k) * (cbEntry l k c))) acc) CS.zero

abbrev Mat := List (List SqrtQ)
abbrev T3 := List (List (List SqrtQ))

def Mat.get (m : Mat) (i j : Nat) : SqrtQ := (m.getD i []).getD j []
def T3.get (t : T3) (i j k : Nat) : SqrtQ := ((t.getD i []).getD j []).getD k []

def tabulate2 (n m : Nat) (f : Nat → Nat → SqrtQ) : Mat :=
  (List.range n).map fun i => (List.range m).map fun j => f i j
def tabulate3 (a b c : Nat) (f : Nat → Nat → Nat → SqrtQ) : T3 :=
  (List.range a).map fun i => (List.range b).map fun j => (List.range c).map fun k => f i j k

/-- `so3_generators(l)[a]` (real part, as the code returns it), dense -/
def so3Gen (l a : Nat) : Mat :=
  tabulate2 (2 * l + 1) (2 * l + 1) fun r c => (so3GenC l a r c).re

/-- the imaginary parts the code asserts to be < 1e-5 are exactly zero -/
def so3GenImagZero (l a : Nat) : Bool :=
  (List.range (2 * l + 1)).all fun r => (List.range (2 * l + 1)).all fun c => (so3GenC l a r c).im.isZero

/-! ### real-basis Clebsch–Gordan = wigner_3j -/

/-- `_su2_clebsch_gordan(l1,l2,l3)[i,k,n]` for the only `n` with `m3 = m1 + m2`, tabulated over `(i,k)`
    (a table so that the kernel shares one evaluation per coefficient) -/
def su2Tab (l1 l2 l3 : Nat) : Mat :=
  tabulate2 (2 * l1 + 1) (2 * l2 + 1) fun i k =>
    let n' : Int := (i : Int) - l1 + ((k : Int) - l2) + l3
    if n' < 0 ∨ n' > 2 * (l3 : Int) then [] else su2Coeff l1 l2 l3 i k n'.toNat

/-- complex value of `einsum("ij,kl,mn,ikn->jlm", Q1, Q2, conj(Q3.T), C)[j,l,m]` -/
def cgC (tab : Mat) (l1 l2 l3 j l m : Nat) : CS :=
  (cbRows l1 j).foldl (fun (acc : CS) (i : Nat) =>
    (cbRows l2 l).foldl (fun (acc : CS) (k : Nat) =>
      -- m3 = m1 + m2  ⇔  n - l3 = (i - l1) + (k - l2)
      let n' : Int := (i : Int) - l1 + ((k : Int) - l2) + l3
      if n' < 0 ∨ n' > 2 * (l3 : Int) then acc else
      let n := n'.toNat
      if (cbRows l3 m).contains n then
        acc.addPS ((cbEntry l1 i j) * (cbEntry l2 k l) * (cbEntry l3 n m).conj * ⟨0, tab.get i k⟩)
      else acc) acc) CS.zero

def admissible (l1 l2 l3 : Nat) : Bool :=
  (if l2 ≤ l3 then l3 - l2 else l2 - l3) ≤ l1 && l1 ≤ l2 + l3

/-- real part of the basis-changed table, before normalisation -/
def cgRaw (l1 l2 l3 : Nat) : T3 :=
  let tab := su2Tab l1 l2 l3
  tabulate3 (2 * l1 + 1) (2 * l2 + 1) (2 * l3 + 1) fun i j k => (cgC tab l1 l2 l3 i j k).re

/-- the imaginary parts the code asserts to be < 1e-5 are exactly zero -/
def w3jImagZero (l1 l2 l3 : Nat) : Bool :=
  let tab := su2Tab l1 l2 l3
  (List.range (2 * l1 + 1)).all fun i => (List.range (2 * l2 + 1)).all fun j =>
    (List.range (2 * l3 + 1)).all fun k => (cgC tab l1 l2 l3 i j k).im.isZero

def sumList (l : List SqrtQ) : SqrtQ := l.foldl (fun acc x => acc + x) []

def T3.normSq (t : T3) : SqrtQ :=
  sumList (t.map fun a => sumList (a.map fun b => sumList (b.map fun x => x * x)))

/-- `1/√q` for a rational `q = n/d > 0`: `√(d/n)` -/
def invSqrtQ (bound : Nat) (q : Q) : SqrtQ := sqrtRat bound Q.one q.den q.n.toNat

def T3.scale (s : SqrtQ) (t : T3) : T3 := t.map fun a => a.map fun b => b.map fun x => x * s

/-- `wigner_3j(l1,l2,l3)` as a dense exact table (`C / torch.norm(C)`) -/
def w3j (l1 l2 l3 : Nat) : T3 :=
  if !admissible l1 l2 l3 then [] else
  let raw := cgRaw l1 l2 l3
  match raw.normSq with
  | [(1, q)] => raw.scale (invSqrtQ (2 * (l1 + l2 + l3) + 3) q)
  | _ => []

end E3nnVerif.Model.Wigner
