import E3nnVerif.Model.Scalar
/-
C09 — executable model of the pointwise non-linear layers of e3nn, as written in

  e3nn/nn/_activation.py   Activation            (constructor decision + forward)
  e3nn/nn/_gate.py         _Sortcut, Gate        (constructor bookkeeping + forward)
  e3nn/nn/_normact.py      NormActivation        (constructor branches + forward)
  e3nn/o3/_norm.py         Norm
  e3nn/nn/_extract.py      Extract, ExtractIr
  e3nn/nn/_identity.py     Identity

Everything is generic over a law-free `[Scalar K]`: the drivers run it at `Float`, the theorems
(Theory/Pointwise.lean, Props/C09.lean) are about the `ℝ` instance.

A feature vector is a flat `List K`, laid out by an irreps list `List (mul, l, odd)` exactly as
`e3nn.o3.Irreps` lays out the last tensor axis: block after block, inside a block copy after copy,
a copy of degree `l` has `2l+1` components.  Parity: `odd = true` is e3nn's `p = -1`.
This file does not depend on any other property's model.
-/
namespace E3nnVerif.Pointwise
open E3nnVerif

/-- an irrep `(l, odd)` -/
abbrev Ir := Nat × Bool
/-- `(mul, l, odd)` -/
abbrev MulIr := Nat × Nat × Bool
abbrev Irreps := List MulIr

/-- exceptions of the real constructors / forwards, by call site -/
inductive Err
  | actLen              -- ValueError "Irreps in and number of activation functions does not match"
  | actNonScalar        -- ValueError "cannot apply an activation function to a non-scalar input"
  | actParity           -- ValueError "the parity is violated"
  | gateGates           -- ValueError "Gate scalars must be scalars"
  | gateScalars         -- ValueError "Scalars must be scalars"
  | gateNum             -- ValueError "There are .. irreps in irreps_gated, but a different number"
  | lmaxEmpty           -- ValueError "max() iterable argument is empty"  (Irreps.lmax of an all-zero-mul irreps)
  | epsNoNormalize      -- ValueError "epsilon and normalize = False don't make sense together"
  | epsInvalid          -- ValueError "epsilon .. is invalid, must be strictly positive"
  | assertion           -- AssertionError in a constructor
  | index               -- IndexError in a constructor
  | catEmpty            -- ValueError "torch.cat(): expected a non-empty list of Tensors"
  | jitEmptyTuple       -- RuntimeError "Attempted to use Tuple without a contained type" (TorchScript of `Tuple[()]`)
  | runtime             -- any exception raised by a forward (shape / narrow / copy_ errors)
  deriving DecidableEq, Repr

def Err.name : Err → String
  | .actLen => "actLen" | .actNonScalar => "actNonScalar" | .actParity => "actParity"
  | .gateGates => "gateGates" | .gateScalars => "gateScalars" | .gateNum => "gateNum"
  | .lmaxEmpty => "lmaxEmpty" | .epsNoNormalize => "epsNoNormalize" | .epsInvalid => "epsInvalid"
  | .assertion => "assertion"
  | .index => "index" | .catEmpty => "catEmpty" | .jitEmptyTuple => "jitEmptyTuple" | .runtime => "runtime"

/-! ## Irreps layout -/

def irDim (l : Nat) : Nat := 2 * l + 1
def mulIrDim (b : MulIr) : Nat := b.1 * irDim b.2.1

/-- `Irreps.dim` -/
def dim : Irreps → Nat
  | [] => 0
  | b :: bs => mulIrDim b + dim bs

/-- `Irreps.num_irreps` -/
def numIrreps : Irreps → Nat
  | [] => 0
  | b :: bs => b.1 + numIrreps bs

/-- one entry per irrep copy, in layout order -/
def expand : Irreps → List Ir
  | [] => []
  | (mul, l, p) :: bs => List.replicate mul (l, p) ++ expand bs

/-- `x.narrow(-1, irreps[:i].dim, irreps[i].dim)` (no bounds check: a `List` slice) -/
def block {K : Type} (irreps : Irreps) (i : Nat) (x : List K) : List K :=
  (x.drop (dim (irreps.take i))).take (match irreps[i]? with | some b => mulIrDim b | none => 0)

/-- `Irreps.simplify`, with the accumulator `out` of the python loop kept reversed -/
def simplifyAux : Irreps → Irreps → Irreps
  | acc, [] => acc.reverse
  | [], (m, ir) :: rest => if m > 0 then simplifyAux [(m, ir)] rest else simplifyAux [] rest
  | (m0, ir0) :: acc, (m, ir) :: rest =>
    if ir0 == ir then simplifyAux ((m0 + m, ir0) :: acc) rest
    else if m > 0 then simplifyAux ((m, ir) :: (m0, ir0) :: acc) rest
    else simplifyAux ((m0, ir0) :: acc) rest

def simplify (irreps : Irreps) : Irreps := simplifyAux [] irreps

/-- order of `Irrep` tuples `(l, p)` with `p ∈ {1,-1}`: by `l`, then odd (`-1`) before even (`1`) -/
def irLt (a b : Ir) : Bool := a.1 < b.1 || (a.1 == b.1 && (a.2 && !b.2))

/-- insertion that keeps an element in front of the entries that are not smaller (stable when used by `foldr`) -/
def insertSorted (e : MulIr × Nat) : List (MulIr × Nat) → List (MulIr × Nat)
  | [] => [e]
  | h :: t => if irLt h.1.2 e.1.2 then h :: insertSorted e t else e :: h :: t

/-- `sorted((ir, i, mul) for i, (mul, ir) in enumerate(irreps))`: the index makes every key distinct, so
this is the stable sort by `ir`.  Entries are `(mul_ir, original index)`. -/
def sortIdxFrom : Nat → Irreps → List (MulIr × Nat)
  | _, [] => []
  | i, b :: bs => insertSorted (b, i) (sortIdxFrom (i + 1) bs)

def sortIdx (irreps : Irreps) : List (MulIr × Nat) := sortIdxFrom 0 irreps

/-! ## Activation -/

/-- outcome of the constructor's grid test on one activation function:
`even` is `(act(x) - act(-x)).abs().max() < 1e-5`, `odd` is `(act(x) + act(-x)).abs().max() < 1e-5`
for `x = torch.linspace(0, 10, 256)` -/
structure Detect where
  even : Bool
  odd : Bool
  deriving DecidableEq, Repr

/-- `p_act`: `some false` is `+1` (even), `some true` is `-1` (odd), `none` is `0`.
The `if / elif / else` of the constructor: the even test wins when both pass. -/
def Detect.pAct (d : Detect) : Option Bool :=
  if d.even then some false else if d.odd then some true else none

/-- the loop computing `irreps_out` (raises at the first offending entry) -/
def actOutLoop : Irreps → List (Option Detect) → Except Err Irreps
  | [], _ => .ok []
  | _ :: _, [] => .ok []
  | (mul, l, p) :: rest, a :: as =>
    match a with
    | none => (actOutLoop rest as).map ((mul, l, p) :: ·)
    | some d =>
      if l != 0 then .error .actNonScalar
      else match (if p then d.pAct else some p) with      -- p_out = p_act if p_in == -1 else p_in
        | none => .error .actParity
        | some q => (actOutLoop rest as).map ((mul, 0, q) :: ·)

/-- `Activation.__init__`: accept/reject and the reported `irreps_out` -/
def activationCtor (irreps : Irreps) (acts : List (Option Detect)) : Except Err Irreps :=
  if irreps.length != acts.length then .error .actLen else actOutLoop irreps acts

/-- `normalize2mom(f)`: `f(x)` if `|cst - 1| < 1e-4` (`_is_id`) else `f(x) * cst`.
`cst` is the Monte-Carlo second-moment constant; it is a parameter of the model. -/
structure Act (K : Type) where
  f : K → K
  cst : K
  isId : Bool

def Act.apply {K : Type} [Scalar K] (a : Act K) (x : K) : K := if a.isId then a.f x else a.f x * a.cst

variable {K : Type} [Scalar K]

/-- the `for mul, (l, _), act in self.paths` loop of `Activation.forward` on the remaining features:
`narrow(dim, index, mul)` then `act`, or `narrow(dim, index, mul * ir_dim)`; a `narrow` past the end raises -/
def actBlocks : Irreps → List (Option (Act K)) → List K → Except Err (List K)
  | [], _, _ => .ok []
  | _ :: _, [], _ => .ok []
  | (mul, l, _) :: rest, a :: as, x =>
    let n := mul * irDim l
    match a with
    | some act =>
      if x.length < mul then .error .runtime
      else (actBlocks rest as (x.drop n)).map (((x.take mul).map act.apply) ++ ·)
    | none =>
      if x.length < n then .error .runtime
      else (actBlocks rest as (x.drop n)).map ((x.take n) ++ ·)

/-- `Activation.forward` on one feature fibre: `cat` of the pieces; with no path, `zeros_like(features)` -/
def activationFwd (irreps : Irreps) (acts : List (Option (Act K))) (x : List K) : Except Err (List K) :=
  match irreps with
  | [] => .ok (x.map fun _ => Scalar.zero)
  | _ => actBlocks irreps acts x

/-! ## Norm -/

def sumSq : List K → K
  | [] => Scalar.zero
  | a :: as => a * a + sumSq as

/-- squared norms of `n` consecutive copies of dimension `d` -/
def copySqNorms (d : Nat) : Nat → List K → List K
  | 0, _ => []
  | n + 1, x => sumSq (x.take d) :: copySqNorms d n (x.drop d)

/-- the `'uuu'` tensor product of `Norm` (weight `ir.dim`, component normalisation): `Σ_m x_m²` per copy -/
def sqNorms : Irreps → List K → List K
  | [], _ => []
  | (mul, l, _) :: rest, x =>
    copySqNorms (irDim l) mul (x.take (mul * irDim l)) ++ sqNorms rest (x.drop (mul * irDim l))

def relu (a : K) : K := if Scalar.lt a Scalar.zero then Scalar.zero else a

/-- reported `irreps_in` of `Norm` -/
def normIrrepsIn (irreps : Irreps) : Irreps := simplify irreps
/-- reported `irreps_out` of `Norm`: `Irreps([(mul, "0e") for mul, _ in irreps_in]).simplify()` -/
def normIrrepsOut (irreps : Irreps) : Irreps := simplify ((simplify irreps).map fun b => (b.1, 0, false))

/-- `Norm.forward`: the tensor product asserts the last dimension, then `out` or `out.relu().sqrt()` -/
def normFwd (irreps : Irreps) (squared : Bool) (x : List K) : Except Err (List K) :=
  if x.length != dim irreps then .error .runtime
  else
    let out := sqNorms irreps x
    .ok (if squared then out else out.map fun n => Scalar.sqrt (relu n))

/-! ## elementwise product with one scalar per copy (`ElementwiseTensorProduct` with a scalar operand) -/

/-- `n` copies of dimension `d`, copy `u` multiplied by the `u`-th scalar -/
def scaleCopies (d : Nat) : Nat → List K → List K → List K
  | 0, _, _ => []
  | _ + 1, [], _ => []
  | n + 1, g :: gs, x => (x.take d).map (· * g) ++ scaleCopies d n gs (x.drop d)

/-- the scalars `g` (one per copy, in layout order) times the features `x` laid out by `irreps` -/
def ewMul : Irreps → List K → List K → List K
  | [], _, _ => []
  | (mul, l, _) :: rest, g, x =>
    scaleCopies (irDim l) mul (g.take mul) (x.take (mul * irDim l))
      ++ ewMul rest (g.drop mul) (x.drop (mul * irDim l))

/-- chunk alignment of `ElementwiseTensorProduct.__init__` (the `while i < len(irreps_in1)` loop) followed by
the output list: one entry `(mul, ir_1, ir_2)` per aligned chunk.  `fuel` bounds the number of iterations. -/
def ewAlign : Nat → Irreps → Irreps → List (Nat × Ir × Ir)
  | 0, _, _ => []
  | _ + 1, [], _ => []
  | _ + 1, _ :: _, [] => []
  | f + 1, (m1, ir1) :: r1, (m2, ir2) :: r2 =>
    if m1 < m2 then (m1, ir1, ir2) :: ewAlign f r1 ((m2 - m1, ir2) :: r2)
    else if m2 < m1 then (m2, ir1, ir2) :: ewAlign f ((m1 - m2, ir1) :: r1) r2
    else (m1, ir1, ir2) :: ewAlign f r1 r2

/-- `ElementwiseTensorProduct(irreps_in1, irreps_in2).irreps_out` when the second operand is scalar:
`ir_1 * ir_2 = (l_1, p_1 p_2)` -/
def ewIrrepsOut (a b : Irreps) : Irreps :=
  let a' := simplify a
  let b' := simplify b
  (ewAlign (a'.length + b'.length) a' b').map fun (m, ir1, ir2) => (m, ir1.1 + ir2.1, ir1.2 != ir2.2)

/-! ## Extract -/

/-- `dst.copy_(src)` on the last axis: same length, or broadcast of a length-1 source, else a runtime error -/
def fit (src : List K) (n : Nat) : Except Err (List K) :=
  if src.length == n then .ok src
  else match src with
    | [a] => .ok (List.replicate n a)
    | _ => .error .runtime

/-- `Extract.__init__`: the two asserts, then the `IndexError` of `self.irreps_in[i_in]` while the graph is built,
then the TorchScript compilation of the generated graph, which rejects an empty output tuple -/
def extractCtor (irrepsIn : Irreps) (outs : List Irreps) (ins : List (List Nat)) : Except Err Unit :=
  if outs.length != ins.length then .error .assertion
  else if (outs.zip ins).any (fun oi => oi.1.length != oi.2.length) then .error .assertion
  else if (ins.any fun i => i != List.range irrepsIn.length && i.any (fun j => j ≥ irrepsIn.length)) then .error .index
  else if outs.isEmpty then .error .jitEmptyTuple
  else .ok ()

/-- one output of `Extract`: the output slices are consecutive and there is one instruction per slice
(asserted by the constructor), so "zeros, then `narrow(..).copy_(..)` per slice" is the concatenation -/
def extractOne (irrepsIn : Irreps) (x : List K) : Irreps → List Nat → Except Err (List K)
  | [], _ => .ok []
  | _ :: _, [] => .ok []
  | b :: bs, i :: is =>
    match fit (block irrepsIn i x) (mulIrDim b) with
    | .error e => .error e
    | .ok piece => (extractOne irrepsIn x bs is).map (piece ++ ·)

def extractOut (irrepsIn : Irreps) (x : List K) (out : Irreps) (ins : List Nat) : Except Err (List K) :=
  if ins == List.range irrepsIn.length then fit x (dim out)     -- `out[i].copy_(x)`
  else extractOne irrepsIn x out ins

def extractAll (irrepsIn : Irreps) (x : List K) : List Irreps → List (List Nat) → Except Err (List (List K))
  | [], _ => .ok []
  | _ :: _, [] => .ok []
  | o :: os, i :: is =>
    match extractOut irrepsIn x o i with
    | .error e => .error e
    | .ok y => (extractAll irrepsIn x os is).map (y :: ·)

/-- `Extract.forward`: `torch._assert(x.shape[-1] == irreps_in.dim)` then the copies -/
def extractFwd (irrepsIn : Irreps) (outs : List Irreps) (ins : List (List Nat)) (x : List K) :
    Except Err (List (List K)) :=
  if x.length != dim irrepsIn then .error .runtime else extractAll irrepsIn x outs ins

/-- indices of the blocks of `irreps` carrying `ir`, counted from `i` -/
def irIndicesFrom (ir : Ir) : Nat → Irreps → List Nat
  | _, [] => []
  | i, b :: bs => if b.2 == ir then i :: irIndicesFrom ir (i + 1) bs else irIndicesFrom ir (i + 1) bs

/-- `ExtractIr.__init__`: `irreps_out` and the single instruction -/
def extractIrOut (irreps : Irreps) (ir : Ir) : Irreps := irreps.filter fun b => b.2 == ir
def extractIrIns (irreps : Irreps) (ir : Ir) : List Nat := irIndicesFrom ir 0 irreps

def extractIrFwd (irreps : Irreps) (ir : Ir) (x : List K) : Except Err (List K) :=
  match extractFwd irreps [extractIrOut irreps ir] [extractIrIns irreps ir] x with
  | .ok [y] => .ok y
  | .ok _ => .error .runtime
  | .error e => .error e

/-! ## Identity -/

/-- `Identity.__init__`: both irreps simplified, asserted equal, then `torch.cat` of one mask per block -/
def identityCtor (irrepsIn irrepsOut : Irreps) : Except Err Irreps :=
  if simplify irrepsIn != simplify irrepsOut then .error .assertion
  else if (simplify irrepsOut).isEmpty then .error .catEmpty
  else .ok (simplify irrepsIn)

/-- `Identity.forward` returns its argument (no shape check) -/
def identityFwd (x : List K) : List K := x

/-! ## Gate -/

/-- `instructions` of `_Sortcut` before the permutation: consecutive index ranges, one per output -/
def consecRanges : Nat → List Irreps → List (List Nat)
  | _, [] => []
  | i, o :: os => List.range' i o.length :: consecRanges (i + o.length) os

structure Sortcut where
  /-- `self.irreps_outs`: the simplified outputs -/
  outs : List Irreps
  /-- the concatenation that is sorted -/
  cat : Irreps
  /-- `sorted` entries `(mul_ir, original index)`; `inv` is the list of second components -/
  srt : List (MulIr × Nat)
  /-- irreps_in of the inner `Extract`: sorted, not simplified -/
  sorted : Irreps
  /-- `p = perm.inverse(inv)` applied to the consecutive ranges -/
  instructions : List (List Nat)
  /-- `self.irreps_in`: sorted and simplified -/
  irrepsIn : Irreps
  deriving Repr

/-- `_Sortcut.__init__` -/
def sortcut (irrepsOuts : List Irreps) : Sortcut :=
  let outs := irrepsOuts.map simplify
  let cat := outs.flatten
  let srt := sortIdx cat
  let inv := srt.map (·.2)
  let sorted := srt.map (·.1)
  { outs := outs, cat := cat, srt := srt, sorted := sorted,
    instructions := (consecRanges 0 outs).map (fun r => r.map fun i => inv.idxOf i),
    irrepsIn := simplify sorted }

/-- the guard `len(irreps) > 0 and irreps.lmax > 0`; `lmax` is `max(self.ls)` which raises a `ValueError`
when every multiplicity is zero -/
def lmaxGuard (irreps : Irreps) (e : Err) : Except Err Unit :=
  if irreps.length > 0 then
    if numIrreps irreps == 0 then .error .lmaxEmpty
    else if irreps.any (fun b => b.1 > 0 && b.2.1 > 0) then .error e
    else .ok ()
  else .ok ()

structure GateInfo where
  sc : Sortcut
  scalarsOut : Irreps
  gatesOut : Irreps
  gatedOut : Irreps
  deriving Repr

def GateInfo.irrepsIn (g : GateInfo) : Irreps := g.sc.irrepsIn
def GateInfo.irrepsOut (g : GateInfo) : Irreps := g.scalarsOut ++ g.gatedOut

/-- `Gate.__init__`, in the order of the source -/
def gateCtor (irrepsScalars : Irreps) (detS : List (Option Detect)) (irrepsGates : Irreps)
    (detG : List (Option Detect)) (irrepsGated : Irreps) : Except Err GateInfo :=
  match lmaxGuard irrepsGates .gateGates with
  | .error e => .error e
  | .ok _ =>
  match lmaxGuard irrepsScalars .gateScalars with
  | .error e => .error e
  | .ok _ =>
  if numIrreps irrepsGates != numIrreps irrepsGated then .error .gateNum
  else
    let sc := sortcut [irrepsScalars, irrepsGates, irrepsGated]
    match activationCtor irrepsScalars detS with
    | .error e => .error e
    | .ok scalarsOut =>
    match activationCtor irrepsGates detG with
    | .error e => .error e
    | .ok gatesOut =>
      .ok { sc := sc, scalarsOut := scalarsOut, gatesOut := gatesOut,
            gatedOut := ewIrrepsOut irrepsGated gatesOut }

/-- `Gate.forward` -/
def gateFwd (irrepsScalars : Irreps) (actS : List (Option (Act K))) (irrepsGates : Irreps)
    (actG : List (Option (Act K))) (irrepsGated : Irreps) (x : List K) : Except Err (List K) :=
  let sc := sortcut [irrepsScalars, irrepsGates, irrepsGated]
  match extractFwd sc.sorted sc.outs sc.instructions x with
  | .ok [scalars, gates, gated] =>
    match activationFwd irrepsScalars actS scalars with
    | .error e => .error e
    | .ok scalars' =>
      if gates.length != 0 then
        match activationFwd irrepsGates actG gates with
        | .error e => .error e
        | .ok gates' => .ok (scalars' ++ ewMul irrepsGated gates' gated)
      else .ok scalars'
  | .ok _ => .error .runtime
  | .error e => .error e

/-! ## NormActivation -/

/-- the `epsilon` branches of `NormActivation.__init__` (tree with 2872ee3 and 11f82c3); returns the stored
`self.epsilon`:
  `if epsilon is None and normalize: epsilon = 1e-8`
  `elif epsilon is not None and not normalize: raise ValueError`
  `elif epsilon is not None and not epsilon > 0: raise ValueError`
so `normalize = False` keeps `epsilon = None`.  `bias` and `irrepsIsStr` (the caller passed `irreps_in` as a `str`)
are arguments of the constructor on which no branch depends any more (`self.irreps_in.num_irreps` is read from the
converted `Irreps`); they are kept so that this can be stated. -/
def normActCtor (normalize : Bool) (epsilon : Option K) (_bias : Bool) (_irrepsIsStr : Bool) :
    Except Err (Option K) :=
  match epsilon, normalize with
  | none, true => .ok (some (Scalar.ofFrac 1 100000000))                 -- epsilon = 1e-8
  | some _, false => .error .epsNoNormalize
  | none, false => .ok none
  | some e, true => if !(Scalar.lt Scalar.zero e) then .error .epsInvalid else .ok (some e)

/-- `norms[norms < eps²] = eps²; norms = norms.sqrt()` when `self._eps_squared > 0` (the norms are then squared norms) -/
def clampNorms (epsilon : Option K) (norms0 : List K) : List K :=
  let epsSq : K := match epsilon with | some e => e * e | none => Scalar.zero
  if Scalar.lt Scalar.zero epsSq then
    norms0.map fun n => Scalar.sqrt (if Scalar.lt n epsSq then epsSq else n)
  else norms0

/-- `scalings = scalar_nonlinearity(norms [+ biases]) [/ norms]` -/
def normActScalings (phi : K → K) (normalize : Bool) (bias : Option (List K)) (norms : List K) : List K :=
  let arg : List K := match bias with
    | some b => List.zipWith (· + ·) norms b
    | none => norms
  let scal0 := arg.map phi
  if normalize then List.zipWith (· / ·) scal0 norms else scal0

/-- `NormActivation.forward` for a stored `epsilon` (`none` exactly when `normalize = False`):
`Norm(irreps_in, squared=(epsilon is not None))`, clamp, nonlinearity, optional division,
`scalar_multiplier(scalings, features)` -/
def normActFwd (irreps : Irreps) (phi : K → K) (normalize : Bool) (epsilon : Option K)
    (bias : Option (List K)) (x : List K) : Except Err (List K) :=
  match normFwd irreps epsilon.isSome x with
  | .error e => .error e
  | .ok norms0 => .ok (ewMul irreps (normActScalings phi normalize bias (clampNorms epsilon norms0)) x)

end E3nnVerif.Pointwise
